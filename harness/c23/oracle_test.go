package c23

// Independent reference for the JSON forms of Duration, Timestamp and FieldMask, written from
// the protobuf JSON mapping and RFC 3339; no use of package time, strconv-based parsing of the
// inputs, or of anything in /repo.

import (
	"fmt"
	"math/big"
	"strings"
)

// ---- Duration -----------------------------------------------------------------------------------------

const (
	maxDurationSeconds = 315576000000 // 10000 years of 365.25 days, documented bound
	maxNanos           = 999999999
)

func durationValid(secs, nanos int64) bool {
	if secs < -maxDurationSeconds || secs > maxDurationSeconds || nanos < -maxNanos || nanos > maxNanos {
		return false
	}
	return !(secs > 0 && nanos < 0) && !(secs < 0 && nanos > 0)
}

// fraction renders nanos (0..999999999) with 0, 3, 6 or 9 digits.
func fraction(nanos int64) string {
	switch {
	case nanos == 0:
		return ""
	case nanos%1000000 == 0:
		return fmt.Sprintf(".%03d", nanos/1000000)
	case nanos%1000 == 0:
		return fmt.Sprintf(".%06d", nanos/1000)
	}
	return fmt.Sprintf(".%09d", nanos)
}

func formatDuration(secs, nanos int64) string {
	sign := ""
	if secs < 0 || nanos < 0 {
		sign = "-"
		secs, nanos = -secs, -nanos
	}
	return fmt.Sprintf("%s%d%s", sign, secs, fraction(nanos)) + "s"
}

func allDigits(s string) bool {
	for i := 0; i < len(s); i++ {
		if s[i] < '0' || s[i] > '9' {
			return false
		}
	}
	return true
}

type durVerdict struct {
	Class       string // accept | reject | unspecified
	Why         string
	Secs, Nanos int64
}

// parseDurationRef: ^[+-]?((0|[1-9][0-9]*)(\.[0-9]{0,9})?|\.[0-9]{1,9})s$ with |seconds| <= 315576000000.
// Integer parts with superfluous leading zeros ("01s") are unspecified.
func parseDurationRef(s string) durVerdict {
	if !strings.HasSuffix(s, "s") {
		return durVerdict{Class: "reject", Why: "no-suffix"}
	}
	b := s[:len(s)-1]
	neg := false
	if len(b) > 0 && (b[0] == '+' || b[0] == '-') {
		neg = b[0] == '-'
		b = b[1:]
	}
	intp, frac, hasDot := b, "", false
	if i := strings.IndexByte(b, '.'); i >= 0 {
		intp, frac, hasDot = b[:i], b[i+1:], true
	}
	if !allDigits(intp) || !allDigits(frac) {
		return durVerdict{Class: "reject", Why: "bad-character"}
	}
	if intp == "" && frac == "" {
		return durVerdict{Class: "reject", Why: "no-digits"}
	}
	if len(frac) > 9 {
		return durVerdict{Class: "reject", Why: "fraction>9"}
	}
	_ = hasDot
	if len(intp) > 1 && intp[0] == '0' {
		return durVerdict{Class: "unspecified", Why: "leading-zeros"}
	}
	secs := new(big.Int)
	if intp != "" {
		secs.SetString(intp, 10)
	}
	if secs.Cmp(big.NewInt(maxDurationSeconds)) > 0 {
		return durVerdict{Class: "reject", Why: "out-of-range"}
	}
	nanos := new(big.Int)
	if frac != "" {
		nanos.SetString(frac+strings.Repeat("0", 9-len(frac)), 10)
	}
	v := durVerdict{Class: "accept", Why: "in-range", Secs: secs.Int64(), Nanos: nanos.Int64()}
	if neg {
		v.Secs, v.Nanos = -v.Secs, -v.Nanos
	}
	return v
}

// ---- civil calendar (proleptic Gregorian), days since 1970-01-01 --------------------------------------

func floorDiv(a, b int64) int64 {
	q := a / b
	if (a%b != 0) && ((a < 0) != (b < 0)) {
		q--
	}
	return q
}

func daysFromCivil(y, m, d int64) int64 {
	if m <= 2 {
		y--
	}
	era := floorDiv(y, 400)
	yoe := y - era*400
	mp := m - 3
	if m <= 2 {
		mp = m + 9
	}
	doy := (153*mp+2)/5 + d - 1
	doe := yoe*365 + yoe/4 - yoe/100 + doy
	return era*146097 + doe - 719468
}

func civilFromDays(z int64) (y, m, d int64) {
	z += 719468
	era := floorDiv(z, 146097)
	doe := z - era*146097
	yoe := (doe - doe/1460 + doe/36524 - doe/146096) / 365
	y = yoe + era*400
	doy := doe - (365*yoe + yoe/4 - yoe/100)
	mp := (5*doy + 2) / 153
	d = doy - (153*mp+2)/5 + 1
	if mp < 10 {
		m = mp + 3
	} else {
		m = mp - 9
	}
	if m <= 2 {
		y++
	}
	return
}

func isLeap(y int64) bool { return y%4 == 0 && (y%100 != 0 || y%400 == 0) }

func daysInMonth(y, m int64) int64 {
	switch m {
	case 4, 6, 9, 11:
		return 30
	case 2:
		if isLeap(y) {
			return 29
		}
		return 28
	}
	return 31
}

var (
	minTimestampSeconds = daysFromCivil(1, 1, 1) * 86400
	maxTimestampSeconds = daysFromCivil(9999, 12, 31)*86400 + 86399
)

func timestampValid(secs, nanos int64) bool {
	return secs >= minTimestampSeconds && secs <= maxTimestampSeconds && nanos >= 0 && nanos <= maxNanos
}

func formatTimestamp(secs, nanos int64) string {
	days := floorDiv(secs, 86400)
	rem := secs - days*86400
	y, m, d := civilFromDays(days)
	return fmt.Sprintf("%04d-%02d-%02dT%02d:%02d:%02d%sZ", y, m, d, rem/3600, rem%3600/60, rem%60, fraction(nanos))
}

// tsShape is a timestamp string split by a tolerant shape grammar that records every way in
// which the string departs from strict RFC 3339 (upper case, '.', two-digit fields).
type tsShape struct {
	OK                         bool // the tolerant shape matched at all
	Y, Mo, D, H, Mi, S         int64
	Frac                       string
	OffSign                    int64 // 0 for Z
	OffH, OffM                 int64
	Comma, OneDigitHour, Lower bool
	SpaceSep                   bool
}

func num(s string) int64 {
	var v int64
	for i := 0; i < len(s); i++ {
		v = v*10 + int64(s[i]-'0')
	}
	return v
}

// parseShape: YYYY-MM-DD sep H[H]:MM:SS [(.|,)digits] (Z|z|(+|-)HH:MM), sep in {T,t,' '}.
func parseShape(s string) tsShape {
	var r tsShape
	take := func(n int) (string, bool) {
		if len(s) < n || !allDigits(s[:n]) {
			return "", false
		}
		v := s[:n]
		s = s[n:]
		return v, true
	}
	lit := func(c byte) bool {
		if len(s) == 0 || s[0] != c {
			return false
		}
		s = s[1:]
		return true
	}
	v, ok := take(4)
	if !ok || !lit('-') {
		return r
	}
	r.Y = num(v)
	if v, ok = take(2); !ok || !lit('-') {
		return r
	}
	r.Mo = num(v)
	if v, ok = take(2); !ok {
		return r
	}
	r.D = num(v)
	switch {
	case lit('T'):
	case lit('t'):
		r.Lower = true
	case lit(' '):
		r.SpaceSep = true
	default:
		return r
	}
	if v, ok = take(2); ok {
		r.H = num(v)
	} else if v, ok = take(1); ok {
		r.H, r.OneDigitHour = num(v), true
	} else {
		return r
	}
	if !lit(':') {
		return r
	}
	if v, ok = take(2); !ok || !lit(':') {
		return r
	}
	r.Mi = num(v)
	if v, ok = take(2); !ok {
		return r
	}
	r.S = num(v)
	if len(s) > 0 && (s[0] == '.' || s[0] == ',') {
		r.Comma = s[0] == ','
		s = s[1:]
		n := 0
		for n < len(s) && s[n] >= '0' && s[n] <= '9' {
			n++
		}
		if n == 0 {
			return r
		}
		r.Frac, s = s[:n], s[n:]
	}
	switch {
	case s == "Z":
	case s == "z":
		r.Lower = true
	case len(s) == 6 && (s[0] == '+' || s[0] == '-') && allDigits(s[1:3]) && s[3] == ':' && allDigits(s[4:6]):
		r.OffSign = 1
		if s[0] == '-' {
			r.OffSign = -1
		}
		r.OffH, r.OffM = num(s[1:3]), num(s[4:6])
	default:
		return r
	}
	r.OK = true
	return r
}

type tsVerdict struct {
	Class       string // accept | reject | unspecified
	Why         string
	Secs, Nanos int64
	Shape       tsShape
	Lenient     []string // departures from the strict grammar that the string uses (when it is otherwise well-formed)
}

// parseTimestampRef decides a string against strict RFC 3339 (date-time with 'T' and 'Z' in
// upper case, '.' fraction of 1..9 digits, all fields in range, instant within years 1..9999).
// Lower-case t/z, a space separator and second 60 are unspecified.
func parseTimestampRef(s string) tsVerdict {
	sh := parseShape(s)
	v := tsVerdict{Shape: sh}
	if !sh.OK {
		v.Class, v.Why = "reject", "shape"
		return v
	}
	if sh.Mo < 1 || sh.Mo > 12 || sh.D < 1 || sh.D > daysInMonth(sh.Y, sh.Mo) || sh.H > 23 || sh.Mi > 59 || sh.S > 60 || sh.OffH > 24 || sh.OffM > 60 {
		v.Class, v.Why = "reject", "field-range"
		return v
	}
	if sh.Comma {
		v.Lenient = append(v.Lenient, "comma")
	}
	if sh.OneDigitHour {
		v.Lenient = append(v.Lenient, "one-digit-hour")
	}
	if sh.OffH == 24 || sh.OffM == 60 {
		v.Lenient = append(v.Lenient, "offset-24-60")
	}
	if len(sh.Frac) > 9 && !sh.Comma {
		v.Class, v.Why = "reject", "fraction>9"
		return v
	}
	if len(v.Lenient) > 0 {
		v.Class, v.Why = "reject", "not-strict:"+strings.Join(v.Lenient, "+")
		return v
	}
	if sh.Lower || sh.SpaceSep || sh.S == 60 {
		v.Class, v.Why = "unspecified", "lower-case/space/leap-second"
		return v
	}
	secs := daysFromCivil(sh.Y, sh.Mo, sh.D)*86400 + sh.H*3600 + sh.Mi*60 + sh.S - sh.OffSign*(sh.OffH*3600+sh.OffM*60)
	if secs < minTimestampSeconds || secs > maxTimestampSeconds {
		v.Class, v.Why = "reject", "out-of-range"
		return v
	}
	v.Class, v.Why, v.Secs = "accept", "in-range", secs
	if sh.Frac != "" {
		v.Nanos = num(sh.Frac + strings.Repeat("0", 9-len(sh.Frac)))
	}
	return v
}

// ---- FieldMask ---------------------------------------------------------------------------------------

func isLower(c byte) bool  { return c >= 'a' && c <= 'z' }
func isUpper(c byte) bool  { return c >= 'A' && c <= 'Z' }
func isDigitC(c byte) bool { return c >= '0' && c <= '9' }

// validPath: dot-separated protobuf identifiers.
func validPath(s string) bool {
	if s == "" {
		return false
	}
	for _, seg := range strings.Split(s, ".") {
		if seg == "" || isDigitC(seg[0]) {
			return false
		}
		for i := 0; i < len(seg); i++ {
			if c := seg[i]; !(isLower(c) || isUpper(c) || isDigitC(c) || c == '_') {
				return false
			}
		}
	}
	return true
}

// reversible: lowerCamel conversion can be undone iff there is no upper-case letter and every
// underscore is followed by a lower-case letter.
func reversible(s string) bool {
	for i := 0; i < len(s); i++ {
		if isUpper(s[i]) {
			return false
		}
		if s[i] == '_' && (i+1 >= len(s) || !isLower(s[i+1])) {
			return false
		}
	}
	return true
}

// camel: "_x" -> "X" (for reversible paths).
func camel(s string) string {
	var b strings.Builder
	for i := 0; i < len(s); i++ {
		if s[i] == '_' && i+1 < len(s) && isLower(s[i+1]) {
			b.WriteByte(s[i+1] - 'a' + 'A')
			i++
			continue
		}
		b.WriteByte(s[i])
	}
	return b.String()
}

// snake: "X" -> "_x".
func snake(s string) string {
	var b strings.Builder
	for i := 0; i < len(s); i++ {
		if isUpper(s[i]) {
			b.WriteByte('_')
			b.WriteByte(s[i] - 'A' + 'a')
			continue
		}
		b.WriteByte(s[i])
	}
	return b.String()
}
