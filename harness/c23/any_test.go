package c23

import (
	"encoding/json"
	"fmt"
	"reflect"
	"sort"
	"strings"
	"testing"

	"google.golang.org/protobuf/encoding/protojson"
	testpb "google.golang.org/protobuf/internal/testprotos/test"
	test3pb "google.golang.org/protobuf/internal/testprotos/test3"
	"google.golang.org/protobuf/proto"
	"google.golang.org/protobuf/reflect/protoreflect"
	"google.golang.org/protobuf/types/known/anypb"
	"google.golang.org/protobuf/types/known/durationpb"
	"google.golang.org/protobuf/types/known/emptypb"
	"google.golang.org/protobuf/types/known/fieldmaskpb"
	"google.golang.org/protobuf/types/known/structpb"
	"google.golang.org/protobuf/types/known/timestamppb"
	"google.golang.org/protobuf/types/known/wrapperspb"
	"google.golang.org/protobuf/zverif/pbt"
	"pgregory.net/rapid"
)

func protoValueOf(m proto.Message) protoreflect.Value {
	return protoreflect.ValueOfMessage(m.ProtoReflect())
}

// innerSpec describes the message packed into an Any.
type innerSpec struct {
	Type   string // test3 test2 duration timestamp int64value stringvalue boolvalue doublevalue bytesvalue struct value listvalue fieldmask empty any
	I      int64
	N      int32
	S      string
	Nested *innerSpec
	Prefix string // type URL prefix
}

var innerTypes = []string{"test3", "test2", "duration", "timestamp", "int64value", "stringvalue", "boolvalue", "doublevalue", "bytesvalue", "struct", "value", "listvalue", "fieldmask", "empty", "any"}

// special: the type has a custom JSON form and therefore travels under "value".
func (s innerSpec) special() bool { return s.Type != "test3" && s.Type != "test2" && s.Type != "empty" }

func (s innerSpec) build() (proto.Message, error) {
	switch s.Type {
	case "test3":
		m := &test3pb.TestAllTypes{SingularInt32: s.N, SingularString: s.S}
		if s.I != 0 {
			m.RepeatedInt64 = []int64{s.I, -s.I}
			m.SingularNestedMessage = &test3pb.TestAllTypes_NestedMessage{A: s.N}
		}
		return m, nil
	case "test2":
		m := &testpb.TestAllTypes{OptionalInt64: proto.Int64(s.I)}
		if s.S != "" {
			m.OptionalString = proto.String(s.S)
			m.MapStringString = map[string]string{s.S: "v"}
		}
		return m, nil
	case "duration":
		return &durationpb.Duration{Seconds: s.I % maxDurationSeconds, Nanos: int32(abs(int64(s.N))%1000000000) * sign32(s.I%maxDurationSeconds)}, nil
	case "timestamp":
		return &timestamppb.Timestamp{Seconds: minTimestampSeconds + abs(s.I)%(maxTimestampSeconds-minTimestampSeconds+1), Nanos: int32(abs(int64(s.N)) % 1000000000)}, nil
	case "int64value":
		return wrapperspb.Int64(s.I), nil
	case "stringvalue":
		return wrapperspb.String(s.S), nil
	case "boolvalue":
		return wrapperspb.Bool(s.I&1 == 1), nil
	case "doublevalue":
		return wrapperspb.Double(float64(s.I) / 8), nil
	case "bytesvalue":
		return wrapperspb.Bytes([]byte(s.S)), nil
	case "struct":
		return &structpb.Struct{Fields: map[string]*structpb.Value{s.S: structpb.NewNumberValue(float64(s.N)), "@type": structpb.NewStringValue("decoy")}}, nil
	case "value":
		if s.I&1 == 0 {
			return structpb.NewStringValue(s.S), nil
		}
		return structpb.NewNumberValue(float64(s.N)), nil
	case "listvalue":
		return &structpb.ListValue{Values: []*structpb.Value{structpb.NewNullValue(), structpb.NewStringValue(s.S), structpb.NewBoolValue(s.I&1 == 1)}}, nil
	case "fieldmask":
		return &fieldmaskpb.FieldMask{Paths: []string{"foo_bar", "a.b_c"}[:1+int(s.I&1)]}, nil
	case "empty":
		return &emptypb.Empty{}, nil
	case "any":
		if s.Nested == nil {
			return &anypb.Any{}, nil
		}
		in, err := s.Nested.build()
		if err != nil {
			return nil, err
		}
		b, err := proto.MarshalOptions{Deterministic: true}.Marshal(in)
		if err != nil {
			return nil, err
		}
		return &anypb.Any{TypeUrl: s.Nested.url(in), Value: b}, nil
	}
	return nil, fmt.Errorf("harness: inner type %q", s.Type)
}

func sign32(v int64) int32 {
	if v < 0 {
		return -1
	}
	return 1
}

func (s innerSpec) url(m proto.Message) string {
	return s.Prefix + string(m.ProtoReflect().Descriptor().FullName())
}

type anyCase struct {
	Inner   innerSpec
	Mode    string // roundtrip dup-type dup-value no-type bad-url type-not-string empty-type extra-member extra-member-discard value-wrong-kind marshal-no-url marshal-bad-url marshal-bad-bytes marshal-empty
	TypePos int
}

type member struct {
	Key string
	Raw string
}

func objectText(ms []member) string {
	var parts []string
	for _, m := range ms {
		parts = append(parts, quoteJSON(m.Key)+":"+m.Raw)
	}
	return "{" + strings.Join(parts, ",") + "}"
}

func decodeAny(raw []byte) (any, error) {
	var v any
	err := json.Unmarshal(raw, &v)
	return v, err
}

func checkAny(c anyCase) error {
	inner, err := c.Inner.build()
	if err != nil {
		return err
	}
	payload, err := proto.MarshalOptions{Deterministic: true}.Marshal(inner)
	if err != nil {
		return fmt.Errorf("harness: %v", err)
	}
	url := c.Inner.url(inner)
	a := &anypb.Any{TypeUrl: url, Value: payload}

	switch c.Mode {
	case "marshal-no-url":
		if len(payload) == 0 {
			payload = []byte{}
		}
		out, err := protojson.Marshal(&anypb.Any{Value: append(payload, 0x08, 0x01)})
		if err == nil {
			return fmt.Errorf("Any with a value but no type URL marshals to %s", out)
		}
		return nil
	case "marshal-bad-url":
		out, err := protojson.Marshal(&anypb.Any{TypeUrl: c.Inner.Prefix + "zverif.no.such.Message", Value: payload})
		if err == nil {
			return fmt.Errorf("Any with an unresolvable type URL marshals to %s", out)
		}
		return nil
	case "marshal-bad-bytes":
		out, err := protojson.Marshal(&anypb.Any{TypeUrl: url, Value: append(append([]byte{}, payload...), 0x08)}) // truncated varint field
		if err == nil {
			return fmt.Errorf("Any(%s) with a malformed payload marshals to %s", url, out)
		}
		return nil
	case "marshal-empty":
		out, err := protojson.Marshal(&anypb.Any{})
		if err != nil || strings.Join(strings.Fields(string(out)), "") != "{}" {
			return fmt.Errorf("empty Any marshals to %s, %v", out, err)
		}
		back := &anypb.Any{TypeUrl: "x"}
		if err := protojson.Unmarshal([]byte("{}"), back); err != nil || back.TypeUrl != "" || len(back.Value) != 0 {
			return fmt.Errorf("{} parses to Any %v, %v", back, err)
		}
		return nil
	}

	out, err := protojson.Marshal(a)
	if err != nil {
		return fmt.Errorf("Any(%s): Marshal fails: %v", url, err)
	}
	var obj map[string]json.RawMessage
	if err := json.Unmarshal(out, &obj); err != nil {
		return fmt.Errorf("Any(%s) marshals to a non-object: %s", url, out)
	}
	if got, err := jsonString(obj["@type"]); err != nil || got != url {
		return fmt.Errorf("Any(%s): \"@type\" member is %s in %s", url, obj["@type"], out)
	}
	innerOut, err := protojson.Marshal(inner)
	if err != nil {
		return fmt.Errorf("harness: inner message does not marshal: %v", err)
	}
	innerVal, err := decodeAny(innerOut)
	if err != nil {
		return fmt.Errorf("harness: %v", err)
	}
	var members []member // everything but @type, sorted by key
	if c.Inner.special() {
		if len(obj) != 2 || obj["value"] == nil {
			return fmt.Errorf("Any(%s) of a type with a custom JSON form must be {\"@type\":…, \"value\":…}, got %s", url, out)
		}
		got, _ := decodeAny(obj["value"])
		if !reflect.DeepEqual(got, innerVal) {
			return fmt.Errorf("Any(%s): \"value\" member %s differs from the message's own JSON form %s", url, obj["value"], innerOut)
		}
		members = []member{{"value", string(obj["value"])}}
	} else {
		rest := map[string]any{}
		for k, raw := range obj {
			if k == "@type" {
				continue
			}
			v, _ := decodeAny(raw)
			rest[k] = v
			members = append(members, member{k, string(raw)})
		}
		if !reflect.DeepEqual(any(rest), innerVal) {
			return fmt.Errorf("Any(%s): members besides \"@type\" in %s differ from the message's own JSON form %s", url, out, innerOut)
		}
		sort.Slice(members, func(i, j int) bool { return members[i].Key < members[j].Key })
	}
	typeMember := member{"@type", quoteJSON(url)}
	pos := c.TypePos % (len(members) + 1)
	withType := append(append(append([]member{}, members[:pos]...), typeMember), members[pos:]...)

	accept := func(doc string, discard bool) error {
		back := &anypb.Any{}
		if err := (protojson.UnmarshalOptions{DiscardUnknown: discard}).Unmarshal([]byte(doc), back); err != nil {
			return fmt.Errorf("Any(%s): %s rejected: %v", url, doc, err)
		}
		if back.TypeUrl != url {
			return fmt.Errorf("Any(%s): %s parsed to type URL %q", url, doc, back.TypeUrl)
		}
		in2, err := back.UnmarshalNew()
		if err != nil {
			return fmt.Errorf("Any(%s): %s parsed to an unreadable payload: %v", url, doc, err)
		}
		if !proto.Equal(in2, inner) {
			return fmt.Errorf("Any(%s): %s parsed to %v, want %v", url, doc, in2, inner)
		}
		return nil
	}
	reject := func(doc, why string, discard bool) error {
		back := &anypb.Any{}
		if err := (protojson.UnmarshalOptions{DiscardUnknown: discard}).Unmarshal([]byte(doc), back); err == nil {
			return fmt.Errorf("Any(%s): %s accepted (%v) although %s", url, doc, back, why)
		}
		return nil
	}
	insert := func(ms []member, at int, m member) []member {
		at %= len(ms) + 1
		return append(append(append([]member{}, ms[:at]...), m), ms[at:]...)
	}

	switch c.Mode {
	case "roundtrip":
		if err := accept(string(out), false); err != nil {
			return err
		}
		return accept(objectText(withType), false)
	case "dup-type":
		return reject(objectText(insert(withType, c.TypePos/3, typeMember)), `"@type" occurs twice`, false)
	case "dup-value":
		if !c.Inner.special() {
			return nil
		}
		return reject(objectText(insert(withType, c.TypePos/3, members[0])), `"value" occurs twice`, false)
	case "no-type":
		if len(members) == 0 {
			back := &anypb.Any{}
			if err := protojson.Unmarshal([]byte(objectText(members)), back); err != nil || back.TypeUrl != "" || len(back.Value) != 0 {
				return fmt.Errorf("{} parses to Any %v, %v", back, err)
			}
			return nil
		}
		return reject(objectText(members), `there is no "@type" member`, false)
	case "bad-url":
		ms := append([]member{}, withType...)
		ms[pos] = member{"@type", quoteJSON(c.Inner.Prefix + "zverif.no.such.Message")}
		return reject(objectText(ms), "the type URL cannot be resolved", false)
	case "type-not-string":
		ms := append([]member{}, withType...)
		ms[pos] = member{"@type", rapidFree([]string{"5", "null", "true", "[]", "{}"}, c.TypePos)}
		return reject(objectText(ms), `"@type" is not a string`, false)
	case "empty-type":
		ms := append([]member{}, withType...)
		ms[pos] = member{"@type", `""`}
		return reject(objectText(ms), `"@type" is empty`, false)
	case "extra-member":
		return reject(objectText(insert(withType, c.TypePos/3, member{"zverifNoSuchField", "1"})), "it has an unknown member", false)
	case "extra-member-discard":
		return accept(objectText(insert(withType, c.TypePos/3, member{"zverifNoSuchField", `{"a":[1,{"b":null}]}`})), true)
	case "value-wrong-kind":
		switch c.Inner.Type {
		case "duration", "timestamp", "int64value", "boolvalue", "fieldmask", "stringvalue", "bytesvalue", "doublevalue":
			ms := append([]member{}, withType...)
			for i := range ms {
				if ms[i].Key == "value" {
					ms[i].Raw = `[1]`
				}
			}
			return reject(objectText(ms), `"value" has the wrong JSON kind for the type`, false)
		}
		return nil
	}
	return fmt.Errorf("harness: mode %q", c.Mode)
}

func rapidFree(xs []string, i int) string {
	if i < 0 {
		i = -i
	}
	return xs[i%len(xs)]
}

var anyModes = []string{"roundtrip", "roundtrip", "roundtrip", "roundtrip", "dup-type", "dup-value", "no-type", "bad-url", "type-not-string", "empty-type", "extra-member", "extra-member-discard", "value-wrong-kind", "marshal-no-url", "marshal-bad-url", "marshal-bad-bytes", "marshal-empty"}

func drawInner(t *rapid.T, depth int) innerSpec {
	s := innerSpec{
		Type:   rapid.SampledFrom(innerTypes).Draw(t, "type"),
		I:      rapid.Int64Range(-1<<40, 1<<40).Draw(t, "i"),
		N:      rapid.Int32().Draw(t, "n"),
		S:      rapid.SampledFrom([]string{"", "a", "héllo", "@type", "value", "x\"y", "日本"}).Draw(t, "s"),
		Prefix: rapid.SampledFrom([]string{"type.googleapis.com/", "type.googleapis.com/", "example.com/a/b/", "/", ""}).Draw(t, "prefix"),
	}
	if rapid.IntRange(0, 3).Draw(t, "zero") == 0 {
		s.I, s.N, s.S = 0, 0, ""
	}
	if s.Type == "any" && depth > 0 {
		n := drawInner(t, depth-1)
		s.Nested = &n
	}
	return s
}

func TestAny(t *testing.T) {
	pbt.Run(t, pbt.Prop[anyCase]{
		Name: "any",
		Rule: "Any holding one of 15 message kinds (proto3 and proto2 TestAllTypes, Duration, Timestamp, four wrappers, BytesValue, Struct with an \"@type\" key, Value, ListValue, FieldMask, Empty, nested Any up to depth 2) under type URL prefixes type.googleapis.com/, example.com/a/b/, / and none. Marshal: \"@type\" holds the URL verbatim; custom-form types travel as {\"@type\",\"value\"} with value == the message's own JSON form, other types flattened with members == the message's own form (differential against direct Marshal of the inner message); Unmarshal of that output and of a re-assembled object with \"@type\" at every member position yields an Any whose payload decodes to an equal message. Negative modes: duplicate \"@type\"/\"value\", missing/non-string/empty/unresolvable \"@type\", unknown member (rejected; accepted under DiscardUnknown), value of the wrong JSON kind, and on the marshal side a value without URL, an unresolvable URL, a malformed payload; empty Any <-> {}. non-trivial = nested Any, custom-form type, or a negative mode",
		Draw: func(t *rapid.T) anyCase {
			return anyCase{Inner: drawInner(t, 2), Mode: rapid.SampledFrom(anyModes).Draw(t, "mode"), TypePos: rapid.IntRange(0, 11).Draw(t, "typePos")}
		},
		Check: checkAny,
		NonTrivial: func(c anyCase) bool {
			return c.Mode != "roundtrip" || c.Inner.special()
		},
		Classes: func(c anyCase) []string {
			out := []string{"mode:" + c.Mode, "inner:" + c.Inner.Type}
			if c.Inner.Nested != nil {
				out = append(out, "nested:"+c.Inner.Nested.Type)
			}
			return out
		},
		Quick: 40000, Thorough: 200000,
	})
}
