package c23

import (
	"bytes"
	"encoding/json"
	"fmt"
	"math"
	"math/big"
	"sort"
	"strings"
	"testing"
	"unicode/utf8"

	"google.golang.org/protobuf/encoding/protojson"
	"google.golang.org/protobuf/internal/testprotos/textpb2"
	"google.golang.org/protobuf/proto"
	"google.golang.org/protobuf/types/known/anypb"
	"google.golang.org/protobuf/types/known/emptypb"
	"google.golang.org/protobuf/types/known/fieldmaskpb"
	"google.golang.org/protobuf/types/known/structpb"
	"google.golang.org/protobuf/types/known/wrapperspb"
	"google.golang.org/protobuf/zverif/gen"
	"google.golang.org/protobuf/zverif/pbt"
	"pgregory.net/rapid"
)

// ---- FieldMask ---------------------------------------------------------------------------------------

type fmCase struct {
	Paths []string
	Field bool
}

func checkFieldMaskMarshal(c fmCase) error {
	fm := &fieldmaskpb.FieldMask{Paths: c.Paths}
	var out []byte
	var err error
	if c.Field {
		out, err = protojson.Marshal(&textpb2.KnownTypes{OptFieldmask: fm})
	} else {
		out, err = protojson.Marshal(fm)
	}
	ok := true
	var why string
	for _, p := range c.Paths {
		if !validPath(p) {
			ok, why = false, fmt.Sprintf("%q is not a dot-separated identifier path", p)
		} else if !reversible(p) {
			ok, why = false, fmt.Sprintf("%q does not survive snake_case -> lowerCamel -> snake_case", p)
		}
	}
	if !ok {
		if err == nil {
			return fmt.Errorf("FieldMask%q marshals to %s although %s", c.Paths, out, why)
		}
		return nil
	}
	if err != nil {
		return fmt.Errorf("FieldMask%q: every path is valid and reversible but Marshal fails: %v", c.Paths, err)
	}
	doc := out
	if c.Field {
		var obj map[string]json.RawMessage
		if err := json.Unmarshal(out, &obj); err != nil || len(obj) != 1 || obj["optFieldmask"] == nil {
			return fmt.Errorf("KnownTypes{opt_fieldmask} marshals to %s", out)
		}
		doc = obj["optFieldmask"]
	}
	s, err := jsonString(doc)
	if err != nil {
		return fmt.Errorf("FieldMask%q: %v", c.Paths, err)
	}
	var cc []string
	for _, p := range c.Paths {
		cc = append(cc, camel(p))
	}
	if want := strings.Join(cc, ","); s != want {
		return fmt.Errorf("FieldMask%q marshals to %q, reference %q", c.Paths, s, want)
	}
	var back *fieldmaskpb.FieldMask
	if c.Field {
		var kt textpb2.KnownTypes
		if err := protojson.Unmarshal(out, &kt); err != nil {
			return fmt.Errorf("Unmarshal(Marshal(FieldMask%q) = %s) fails: %v", c.Paths, out, err)
		}
		back = kt.OptFieldmask
	} else {
		back = &fieldmaskpb.FieldMask{}
		if err := protojson.Unmarshal(out, back); err != nil {
			return fmt.Errorf("Unmarshal(Marshal(FieldMask%q) = %s) fails: %v", c.Paths, out, err)
		}
	}
	if back == nil || strings.Join(back.Paths, "\x00") != strings.Join(c.Paths, "\x00") || len(back.Paths) != len(c.Paths) {
		return fmt.Errorf("FieldMask%q -> %s -> %q", c.Paths, out, back.GetPaths())
	}
	return nil
}

func drawPath(t *rapid.T) string {
	seg := func() string {
		switch rapid.IntRange(0, 7).Draw(t, "segClass") {
		case 0, 1, 2, 3:
			words := rapid.IntRange(1, 3).Draw(t, "words")
			var w []string
			for i := 0; i < words; i++ {
				w = append(w, rapid.SampledFrom([]string{"foo", "bar", "a", "b2", "x", "user", "id", "name9"}).Draw(t, "word"))
			}
			return strings.Join(w, "_")
		case 4:
			return rapid.SampledFrom([]string{"foo_", "_foo", "foo__bar", "foo_1", "foo_Bar", "fooBar", "Foo", "FOO", "f_o_o", "foo_bar_", "_", "__", "a_b_c_d", "x_9", "x9_y", "1a", "", "foo-bar", "foo bar", "fo$o", "é"}).Draw(t, "odd")
		default:
			return rapid.StringOfN(rapid.RuneFrom([]rune("abz_09AZ")), 1, 6, -1).Draw(t, "soup")
		}
	}
	n := rapid.SampledFrom([]int{1, 1, 1, 2, 2, 3}).Draw(t, "segments")
	var segs []string
	for i := 0; i < n; i++ {
		segs = append(segs, seg())
	}
	p := strings.Join(segs, ".")
	if rapid.IntRange(0, 15).Draw(t, "dots") == 0 {
		p = rapid.SampledFrom([]string{".", p + ".", "." + p, p + ".." + p}).Draw(t, "dotty")
	}
	return p
}

func TestFieldMaskMarshal(t *testing.T) {
	pbt.Run(t, pbt.Prop[fmCase]{
		Name: "fieldmask-marshal",
		Rule: "FieldMask with 0..4 paths of 1..3 dot-separated segments over [a-z0-9_A-Z] (snake_case words, trailing/leading/double underscores, underscore before a digit or capital, camelCase, empty segments, stray dots, illegal characters), top level or message field: Marshal succeeds iff every path is a valid identifier path and reversible (no capital, every '_' followed by a lower-case letter); output = comma-joined lowerCamel paths by an own converter; Unmarshal(Marshal(x)) == x. non-trivial = a path containing '_' or a capital letter",
		Draw: func(t *rapid.T) fmCase {
			n := rapid.SampledFrom([]int{0, 1, 1, 1, 2, 2, 3, 4}).Draw(t, "npaths")
			c := fmCase{Field: rapid.IntRange(0, 3).Draw(t, "field") == 0, Paths: []string{}}
			for i := 0; i < n; i++ {
				c.Paths = append(c.Paths, drawPath(t))
			}
			return c
		},
		Check: checkFieldMaskMarshal,
		NonTrivial: func(c fmCase) bool {
			for _, p := range c.Paths {
				if strings.ContainsAny(p, "_ABCDEFGHIJKLMNOPQRSTUVWXYZ") {
					return true
				}
			}
			return false
		},
		Classes: func(c fmCase) []string {
			out := []string{fmt.Sprintf("paths:%d", len(c.Paths))}
			ok := true
			for _, p := range c.Paths {
				switch {
				case !validPath(p):
					ok = false
					out = append(out, "invalid-path")
				case !reversible(p):
					ok = false
					out = append(out, "irreversible")
				case strings.Contains(p, "_"):
					out = append(out, "snake-reversible")
				}
			}
			if ok {
				out = append(out, "marshalable")
			}
			return out
		},
		Quick: 50000, Thorough: 300000,
	})
}

type fmStrCase struct{ S string }

func checkFieldMaskString(c fmStrCase) error {
	fm := &fieldmaskpb.FieldMask{}
	err := protojson.Unmarshal([]byte(quoteJSON(c.S)), fm)
	if c.S == "" {
		if err != nil || len(fm.Paths) != 0 {
			return fmt.Errorf(`FieldMask "" -> %v, %v; want no paths`, fm.Paths, err)
		}
		return nil
	}
	pieces := strings.Split(c.S, ",")
	underscore, wellFormed := false, true
	var want []string
	for _, p := range pieces {
		if strings.Contains(p, "_") {
			underscore = true
		}
		if !camelPath(p) {
			wellFormed = false
		}
		want = append(want, snake(p))
	}
	switch {
	case underscore:
		if err == nil {
			return fmt.Errorf("FieldMask string %q accepted as %q although a path contains '_' (JSON paths are lowerCamel)", c.S, fm.Paths)
		}
		return nil
	case wellFormed:
		if err != nil {
			return fmt.Errorf("FieldMask string %q of lowerCamel paths rejected: %v", c.S, err)
		}
	}
	if err == nil && strings.TrimSpace(c.S) == c.S && strings.Join(fm.Paths, "\x00") != strings.Join(want, "\x00") {
		return fmt.Errorf("FieldMask string %q decoded to %q, want %q", c.S, fm.Paths, want)
	}
	return nil
}

// camelPath: dot-separated segments [a-z][a-zA-Z0-9]*.
func camelPath(p string) bool {
	if p == "" {
		return false
	}
	for _, seg := range strings.Split(p, ".") {
		if seg == "" || !isLower(seg[0]) {
			return false
		}
		for i := 0; i < len(seg); i++ {
			if c := seg[i]; !(isLower(c) || isUpper(c) || isDigitC(c)) {
				return false
			}
		}
	}
	return true
}

func TestFieldMaskParse(t *testing.T) {
	pbt.Run(t, pbt.Prop[fmStrCase]{
		Name: "fieldmask-parse",
		Rule: "FieldMask JSON strings: comma-joined pieces that are lowerCamel paths, paths with underscores, empty pieces, capitals first, digits first, soups over [a-zA-Z0-9_.,]: a piece containing '_' must be rejected; comma-joined lowerCamel paths ([a-z][a-zA-Z0-9]* segments) must be accepted as their snake_case paths (own converter); whatever else is accepted must equal the converted pieces. non-trivial = contains a capital letter or '_'",
		Draw: func(t *rapid.T) fmStrCase {
			n := rapid.SampledFrom([]int{0, 1, 1, 2, 3}).Draw(t, "pieces")
			var ps []string
			for i := 0; i < n; i++ {
				switch rapid.IntRange(0, 5).Draw(t, "pieceClass") {
				case 0, 1, 2:
					p := drawPath(t)
					if reversible(p) && validPath(p) {
						p = camel(p)
					}
					ps = append(ps, p)
				case 3:
					ps = append(ps, drawPath(t))
				case 4:
					ps = append(ps, rapid.SampledFrom([]string{"fooBar", "fooBar.bazQux", "foo.barBaz9", "fooBAR", "FooBar", "foo_bar", "foo.bar_baz", "fooBar_", "_", "", " foo", "foo ", "fo o", "9foo", "foo..bar", ".foo", "foo.", "fooBär"}).Draw(t, "const"))
				default:
					ps = append(ps, rapid.StringOfN(rapid.RuneFrom([]rune("abzABZ09_.")), 0, 8, -1).Draw(t, "soup"))
				}
			}
			return fmStrCase{S: strings.Join(ps, ",")}
		},
		Check:      checkFieldMaskString,
		NonTrivial: func(c fmStrCase) bool { return strings.ContainsAny(c.S, "_ABCDEFGHIJKLMNOPQRSTUVWXYZ") },
		Classes: func(c fmStrCase) []string {
			if c.S == "" {
				return []string{"empty"}
			}
			under, wf := false, true
			for _, p := range strings.Split(c.S, ",") {
				under = under || strings.Contains(p, "_")
				wf = wf && camelPath(p)
			}
			switch {
			case under:
				return []string{"has-underscore"}
			case wf:
				return []string{"lowerCamel"}
			}
			return []string{"other"}
		},
		Quick: 40000, Thorough: 200000,
	})
}

// ---- wrappers ------------------------------------------------------------------------------------------

type wrapCase struct {
	Kind  string // bool int32 int64 uint32 uint64 float double string bytes
	I     int64
	U     uint64
	F     uint64 // float64 bits (float: the float32 nearest is used)
	S     string
	B     []byte
	Field bool
}

const stdAlphabet = "ABCDEFGHIJKLMNOPQRSTUVWXYZabcdefghijklmnopqrstuvwxyz0123456789+/"

func b64std(data []byte) string {
	var sb strings.Builder
	for i := 0; i < len(data); i += 3 {
		var v uint32
		n := 0
		for j := 0; j < 3; j++ {
			v <<= 8
			if i+j < len(data) {
				v |= uint32(data[i+j])
				n++
			}
		}
		for j := 0; j < n+1; j++ {
			sb.WriteByte(stdAlphabet[(v>>(18-6*uint(j)))&63])
		}
		sb.WriteString(strings.Repeat("=", 3-n))
	}
	return sb.String()
}

// floatTextOK: raw is the special string for a non-finite value, or a number whose exact value
// (big.Rat) rounds to f at the given width, with the sign of zero kept.
func floatTextOK(raw string, f float64, bits int) error {
	switch {
	case math.IsNaN(f):
		if raw != `"NaN"` {
			return fmt.Errorf("NaN written as %s", raw)
		}
		return nil
	case math.IsInf(f, 1):
		if raw != `"Infinity"` {
			return fmt.Errorf("+Inf written as %s", raw)
		}
		return nil
	case math.IsInf(f, -1):
		if raw != `"-Infinity"` {
			return fmt.Errorf("-Inf written as %s", raw)
		}
		return nil
	}
	if strings.ContainsAny(raw, `"_xXpPn `) {
		return fmt.Errorf("finite %v written as %s", f, raw)
	}
	r, ok := new(big.Rat).SetString(raw)
	if !ok || !json.Valid([]byte(raw)) {
		return fmt.Errorf("finite %v written as %s, not a JSON number", f, raw)
	}
	var g float64
	if bits == 32 {
		g32, _ := r.Float32()
		g = float64(g32)
	} else {
		g, _ = r.Float64()
	}
	if g != f || (f == 0 && math.Signbit(f) != strings.HasPrefix(raw, "-")) {
		return fmt.Errorf("%v written as %s, which reads back as %v", f, raw, g)
	}
	return nil
}

func checkWrapper(c wrapCase) error {
	var m proto.Message
	var want string // exact raw text, or "" when checked by floatTextOK
	var fcheck func(raw string) error
	var same func(back proto.Message) bool
	var field string
	switch c.Kind {
	case "bool":
		v := c.I&1 == 1
		m, want, field = wrapperspb.Bool(v), fmt.Sprint(v), "optBool"
		same = func(b proto.Message) bool { return b.(*wrapperspb.BoolValue).Value == v }
	case "int32":
		v := int32(c.I)
		m, want, field = wrapperspb.Int32(v), big.NewInt(int64(v)).String(), "optInt32"
		same = func(b proto.Message) bool { return b.(*wrapperspb.Int32Value).Value == v }
	case "int64":
		m, want, field = wrapperspb.Int64(c.I), `"`+big.NewInt(c.I).String()+`"`, "optInt64"
		same = func(b proto.Message) bool { return b.(*wrapperspb.Int64Value).Value == c.I }
	case "uint32":
		v := uint32(c.U)
		m, want, field = wrapperspb.UInt32(v), new(big.Int).SetUint64(uint64(v)).String(), "optUint32"
		same = func(b proto.Message) bool { return b.(*wrapperspb.UInt32Value).Value == v }
	case "uint64":
		m, want, field = wrapperspb.UInt64(c.U), `"`+new(big.Int).SetUint64(c.U).String()+`"`, "optUint64"
		same = func(b proto.Message) bool { return b.(*wrapperspb.UInt64Value).Value == c.U }
	case "float":
		v := float32(math.Float64frombits(c.F))
		m, field = wrapperspb.Float(v), "optFloat"
		fcheck = func(raw string) error { return floatTextOK(raw, float64(v), 32) }
		same = func(b proto.Message) bool {
			g := b.(*wrapperspb.FloatValue).Value
			return math.Float32bits(g) == math.Float32bits(v) || (g != g && v != v)
		}
	case "double":
		v := math.Float64frombits(c.F)
		m, field = wrapperspb.Double(v), "optDouble"
		fcheck = func(raw string) error { return floatTextOK(raw, v, 64) }
		same = func(b proto.Message) bool {
			g := b.(*wrapperspb.DoubleValue).Value
			return math.Float64bits(g) == math.Float64bits(v) || (g != g && v != v)
		}
	case "string":
		m, field = wrapperspb.String(c.S), "optString"
		fcheck = func(raw string) error {
			s, err := jsonString([]byte(raw))
			if err != nil || s != c.S {
				return fmt.Errorf("string %q written as %s", c.S, raw)
			}
			return nil
		}
		same = func(b proto.Message) bool { return b.(*wrapperspb.StringValue).Value == c.S }
	case "bytes":
		m, want, field = wrapperspb.Bytes(c.B), `"`+b64std(c.B)+`"`, "optBytes"
		same = func(b proto.Message) bool { return bytes.Equal(b.(*wrapperspb.BytesValue).Value, c.B) }
	default:
		return fmt.Errorf("harness: kind %q", c.Kind)
	}
	var out []byte
	var err error
	if c.Field {
		kt := &textpb2.KnownTypes{}
		kt.ProtoReflect().Set(kt.ProtoReflect().Descriptor().Fields().ByJSONName(field), protoValueOf(m))
		out, err = protojson.Marshal(kt)
	} else {
		out, err = protojson.Marshal(m)
	}
	if err != nil {
		return fmt.Errorf("%s wrapper %v: Marshal fails: %v", c.Kind, m, err)
	}
	raw := strings.TrimSpace(string(out))
	if c.Field {
		var obj map[string]json.RawMessage
		if err := json.Unmarshal(out, &obj); err != nil || len(obj) != 1 || obj[field] == nil {
			return fmt.Errorf("KnownTypes{%s} marshals to %s", field, out)
		}
		raw = strings.TrimSpace(string(obj[field]))
	}
	if fcheck != nil {
		if err := fcheck(raw); err != nil {
			return fmt.Errorf("%s wrapper: %v", c.Kind, err)
		}
	} else if raw != want {
		return fmt.Errorf("%s wrapper %v written as %s, want the bare form %s", c.Kind, m, raw, want)
	}
	back := m.ProtoReflect().New().Interface()
	if c.Field {
		kt := &textpb2.KnownTypes{}
		if err := protojson.Unmarshal(out, kt); err != nil {
			return fmt.Errorf("%s wrapper: Unmarshal(%s) fails: %v", c.Kind, out, err)
		}
		fd := kt.ProtoReflect().Descriptor().Fields().ByJSONName(field)
		if !kt.ProtoReflect().Has(fd) {
			return fmt.Errorf("%s wrapper: Unmarshal(%s) leaves the field unset", c.Kind, out)
		}
		back = kt.ProtoReflect().Get(fd).Message().Interface()
	} else if err := protojson.Unmarshal(out, back); err != nil {
		return fmt.Errorf("%s wrapper: Unmarshal(%s) fails: %v", c.Kind, out, err)
	}
	if !same(back) {
		return fmt.Errorf("%s wrapper %v -> %s -> %v", c.Kind, m, out, back)
	}
	return nil
}

func TestWrappers(t *testing.T) {
	kinds := []string{"bool", "int32", "int64", "uint32", "uint64", "float", "double", "string", "bytes"}
	pbt.Run(t, pbt.Prop[wrapCase]{
		Name: "wrappers",
		Rule: "the nine wrapper messages with boundary-biased values (top level or as a KnownTypes field): JSON form is the bare value of the scalar mapping (32-bit integers bare decimals, 64-bit decimal strings, bool literal, JSON string, padded standard base64 by an own writer, NaN/Infinity/-Infinity strings, finite floats a number that big.Rat rounds back to the same bits with the sign of zero kept); Unmarshal(Marshal(x)) == x bit for bit. non-trivial = 64-bit magnitude beyond 2^53, non-finite or negative-zero float, or non-empty string/bytes",
		Draw: func(t *rapid.T) wrapCase {
			c := wrapCase{Kind: rapid.SampledFrom(kinds).Draw(t, "kind"), Field: rapid.IntRange(0, 3).Draw(t, "field") == 0}
			switch c.Kind {
			case "bool", "int32", "int64":
				c.I = gen.Int64().Draw(t, "i")
			case "uint32", "uint64":
				c.U = gen.Uint64().Draw(t, "u")
			case "float":
				c.F = math.Float64bits(float64(math.Float32frombits(gen.Float32Bits().Draw(t, "f32"))))
			case "double":
				c.F = gen.Float64Bits().Draw(t, "f64")
			case "string":
				c.S = gen.ValidString(40).Draw(t, "s")
			default:
				c.B = gen.Bytes(40).Draw(t, "b")
				if c.B == nil {
					c.B = []byte{}
				}
			}
			return c
		},
		Check: checkWrapper,
		NonTrivial: func(c wrapCase) bool {
			f := math.Float64frombits(c.F)
			switch c.Kind {
			case "int64":
				return c.I > 1<<53 || c.I < -(1<<53)
			case "uint64":
				return c.U > 1<<53
			case "float", "double":
				return math.IsNaN(f) || math.IsInf(f, 0) || (f == 0 && math.Signbit(f)) || (f != 0 && (math.Abs(f) < 1e-5 || math.Abs(f) > 1e21))
			case "string":
				return c.S != ""
			case "bytes":
				return len(c.B) > 0
			}
			return false
		},
		Classes: func(c wrapCase) []string {
			out := []string{"kind:" + c.Kind}
			if c.Field {
				out = append(out, "as-field")
			}
			return out
		},
		Quick: 40000, Thorough: 200000,
	})
}

// ---- Struct / Value / ListValue -----------------------------------------------------------------------------

type jnode struct {
	K    string // null bool num str list obj kindless
	B    bool
	N    uint64 // float64 bits
	S    string
	L    []jnode
	Keys []string // for obj, parallel to L
}

func (n jnode) value() *structpb.Value {
	switch n.K {
	case "null":
		return &structpb.Value{Kind: &structpb.Value_NullValue{}}
	case "bool":
		return &structpb.Value{Kind: &structpb.Value_BoolValue{BoolValue: n.B}}
	case "num":
		return &structpb.Value{Kind: &structpb.Value_NumberValue{NumberValue: math.Float64frombits(n.N)}}
	case "str":
		return &structpb.Value{Kind: &structpb.Value_StringValue{StringValue: n.S}}
	case "list":
		return &structpb.Value{Kind: &structpb.Value_ListValue{ListValue: n.list()}}
	case "obj":
		return &structpb.Value{Kind: &structpb.Value_StructValue{StructValue: n.strct()}}
	}
	return &structpb.Value{}
}

func (n jnode) list() *structpb.ListValue {
	l := &structpb.ListValue{}
	for _, e := range n.L {
		l.Values = append(l.Values, e.value())
	}
	return l
}

func (n jnode) strct() *structpb.Struct {
	s := &structpb.Struct{Fields: map[string]*structpb.Value{}}
	for i, e := range n.L {
		s.Fields[n.Keys[i]] = e.value()
	}
	return s
}

// plain is the JSON value as encoding/json sees it.
func (n jnode) plain() any {
	switch n.K {
	case "null":
		return nil
	case "bool":
		return n.B
	case "num":
		return math.Float64frombits(n.N)
	case "str":
		return n.S
	case "list":
		l := make([]any, 0, len(n.L))
		for _, e := range n.L {
			l = append(l, e.plain())
		}
		return l
	case "obj":
		m := map[string]any{}
		for i, e := range n.L {
			m[n.Keys[i]] = e.plain()
		}
		return m
	}
	return nil
}

func (n jnode) bad() bool {
	switch n.K {
	case "kindless":
		return true
	case "num":
		f := math.Float64frombits(n.N)
		return math.IsNaN(f) || math.IsInf(f, 0)
	}
	for _, e := range n.L {
		if e.bad() {
			return true
		}
	}
	return false
}

func (n jnode) depth() int {
	d := 0
	for _, e := range n.L {
		if x := e.depth(); x > d {
			d = x
		}
	}
	return d + 1
}

// samePlain compares a decoded JSON value with the tree (numbers by bits, -0 included).
func samePlain(got any, n jnode, path string) error {
	bad := func() error { return fmt.Errorf("at %s: got %#v, want %s node %#v", path, got, n.K, n.plain()) }
	switch n.K {
	case "null":
		if got != nil {
			return bad()
		}
	case "bool":
		if b, ok := got.(bool); !ok || b != n.B {
			return bad()
		}
	case "num":
		if f, ok := got.(float64); !ok || math.Float64bits(f) != n.N {
			return bad()
		}
	case "str":
		if s, ok := got.(string); !ok || s != n.S {
			return bad()
		}
	case "list":
		l, ok := got.([]any)
		if !ok || len(l) != len(n.L) {
			return bad()
		}
		for i, e := range n.L {
			if err := samePlain(l[i], e, fmt.Sprintf("%s[%d]", path, i)); err != nil {
				return err
			}
		}
	case "obj":
		m, ok := got.(map[string]any)
		if !ok || len(m) != len(n.L) {
			return bad()
		}
		for i, e := range n.L {
			v, ok := m[n.Keys[i]]
			if !ok {
				return bad()
			}
			if err := samePlain(v, e, fmt.Sprintf("%s.%q", path, n.Keys[i])); err != nil {
				return err
			}
		}
	}
	return nil
}

// sameValue compares a structpb.Value with the tree.
func sameValue(v *structpb.Value, n jnode, path string) error {
	bad := func() error { return fmt.Errorf("at %s: got %v, want %s node %#v", path, v, n.K, n.plain()) }
	if v == nil {
		return bad()
	}
	switch k := v.Kind.(type) {
	case *structpb.Value_NullValue:
		if n.K != "null" || k.NullValue != 0 {
			return bad()
		}
	case *structpb.Value_BoolValue:
		if n.K != "bool" || k.BoolValue != n.B {
			return bad()
		}
	case *structpb.Value_NumberValue:
		if n.K != "num" || math.Float64bits(k.NumberValue) != n.N {
			return bad()
		}
	case *structpb.Value_StringValue:
		if n.K != "str" || k.StringValue != n.S {
			return bad()
		}
	case *structpb.Value_ListValue:
		if n.K != "list" {
			return bad()
		}
		return sameList(k.ListValue, n, path)
	case *structpb.Value_StructValue:
		if n.K != "obj" {
			return bad()
		}
		return sameStruct(k.StructValue, n, path)
	default:
		return bad()
	}
	return nil
}

func sameList(l *structpb.ListValue, n jnode, path string) error {
	if len(l.GetValues()) != len(n.L) {
		return fmt.Errorf("at %s: list of %d, want %d", path, len(l.GetValues()), len(n.L))
	}
	for i, e := range n.L {
		if err := sameValue(l.Values[i], e, fmt.Sprintf("%s[%d]", path, i)); err != nil {
			return err
		}
	}
	return nil
}

func sameStruct(s *structpb.Struct, n jnode, path string) error {
	if len(s.GetFields()) != len(n.L) {
		return fmt.Errorf("at %s: struct of %d fields, want %d", path, len(s.GetFields()), len(n.L))
	}
	for i, e := range n.L {
		if err := sameValue(s.Fields[n.Keys[i]], e, fmt.Sprintf("%s.%q", path, n.Keys[i])); err != nil {
			return err
		}
	}
	return nil
}

type valueCase struct {
	Root jnode
	As   string // value | struct | list | field
}

func checkStructValue(c valueCase) error {
	var m proto.Message
	switch c.As {
	case "struct":
		if c.Root.K != "obj" {
			return fmt.Errorf("harness: struct case needs an object root")
		}
		m = c.Root.strct()
	case "list":
		if c.Root.K != "list" {
			return fmt.Errorf("harness: list case needs a list root")
		}
		m = c.Root.list()
	case "field":
		m = &textpb2.KnownTypes{OptValue: c.Root.value()}
	default:
		m = c.Root.value()
	}
	out, err := protojson.Marshal(m)
	if c.Root.bad() {
		if err == nil {
			return fmt.Errorf("%s holding a non-finite number or a Value without a kind marshals to %s", c.As, out)
		}
		return nil
	}
	if err != nil {
		return fmt.Errorf("%s %s: Marshal fails: %v", c.As, mustJSON(c.Root.plain()), err)
	}
	var got any
	if err := json.Unmarshal(out, &got); err != nil {
		return fmt.Errorf("%s: output is not JSON: %v: %s", c.As, err, out)
	}
	if c.As == "field" {
		obj, ok := got.(map[string]any)
		if !ok || len(obj) != 1 {
			return fmt.Errorf("KnownTypes{opt_value} marshals to %s", out)
		}
		var present bool
		got, present = obj["optValue"]
		if !present {
			return fmt.Errorf("KnownTypes{opt_value} marshals to %s", out)
		}
	}
	if err := samePlain(got, c.Root, "$"); err != nil {
		return fmt.Errorf("%s: Marshal output %s is not the JSON value itself: %v", c.As, out, err)
	}
	// the same JSON value written by encoding/json must parse to the same tree, and so must Marshal's own output
	text, err := json.Marshal(c.Root.plain())
	if err != nil {
		return fmt.Errorf("harness: %v", err)
	}
	if c.As == "field" {
		text = []byte(`{"optValue":` + string(text) + `}`)
	}
	for _, in := range [][]byte{text, out} {
		back := m.ProtoReflect().New().Interface()
		if err := protojson.Unmarshal(in, back); err != nil {
			return fmt.Errorf("%s: Unmarshal(%s) fails: %v", c.As, in, err)
		}
		var err error
		switch b := back.(type) {
		case *structpb.Struct:
			err = sameStruct(b, c.Root, "$")
		case *structpb.ListValue:
			err = sameList(b, c.Root, "$")
		case *structpb.Value:
			err = sameValue(b, c.Root, "$")
		case *textpb2.KnownTypes:
			if b.OptValue == nil && c.Root.K == "null" {
				// a null member for a Value field: documented to yield a null Value; absent would lose it
				err = fmt.Errorf("opt_value is unset")
			} else {
				err = sameValue(b.OptValue, c.Root, "$")
			}
		}
		if err != nil {
			return fmt.Errorf("%s: Unmarshal(%s) differs from the JSON value: %v", c.As, in, err)
		}
	}
	return nil
}

func mustJSON(v any) string {
	b, err := json.Marshal(v)
	if err != nil {
		return fmt.Sprintf("%#v", v)
	}
	return string(b)
}

func drawNode(t *rapid.T, depth int, allowBad bool) jnode {
	max := 6
	if depth <= 0 {
		max = 4
	}
	switch k := rapid.IntRange(0, max).Draw(t, "nodeKind"); k {
	case 0:
		return jnode{K: "null"}
	case 1:
		return jnode{K: "bool", B: rapid.Bool().Draw(t, "b")}
	case 2, 3:
		bits := gen.Float64Bits().Draw(t, "num")
		f := math.Float64frombits(bits)
		if (math.IsNaN(f) || math.IsInf(f, 0)) && !allowBad {
			bits = math.Float64bits(float64(rapid.IntRange(-1000, 1000).Draw(t, "smallNum")))
		}
		if math.IsNaN(f) {
			bits = 0x7ff8000000000000
		}
		return jnode{K: "num", N: bits}
	case 4:
		if allowBad && rapid.IntRange(0, 3).Draw(t, "kindless") == 0 {
			return jnode{K: "kindless"}
		}
		s := gen.ValidString(30).Draw(t, "s")
		if !utf8.ValidString(s) {
			s = "x"
		}
		return jnode{K: "str", S: s}
	case 5:
		n := jnode{K: "list", L: []jnode{}}
		for i, w := 0, rapid.IntRange(0, 4).Draw(t, "len"); i < w; i++ {
			n.L = append(n.L, drawNode(t, depth-1, allowBad))
		}
		return n
	default:
		n := jnode{K: "obj", L: []jnode{}, Keys: []string{}}
		seen := map[string]bool{}
		for i, w := 0, rapid.IntRange(0, 4).Draw(t, "len"); i < w; i++ {
			key := rapid.SampledFrom([]string{"a", "b", "", "key", "@type", "value", "nullValue", "x y", "é", "\"q\"", "1", "listValue"}).Draw(t, "key")
			if rapid.IntRange(0, 3).Draw(t, "freeKey") == 0 {
				key = gen.ValidString(12).Draw(t, "keyS")
				if !utf8.ValidString(key) {
					key = "k"
				}
			}
			if seen[key] {
				continue
			}
			seen[key] = true
			n.Keys = append(n.Keys, key)
			n.L = append(n.L, drawNode(t, depth-1, allowBad))
		}
		return n
	}
}

func TestStructValue(t *testing.T) {
	pbt.Run(t, pbt.Prop[valueCase]{
		Name: "struct-value",
		Rule: "JSON-like trees (null, bool, boundary-biased float64 incl. -0/subnormal/1e21/2^53, valid UTF-8 strings incl. NUL and astral runes, lists and objects up to depth 4, keys incl. \"\", \"@type\", \"value\") built by hand into Value / Struct / ListValue / a Value-typed message field: Marshal output read with encoding/json is the same JSON value (numbers bit for bit); the value written by encoding/json and Marshal's own output both Unmarshal to the same tree; a tree containing NaN/+-Inf or a Value without a kind fails to marshal. non-trivial = depth >= 2 or a bad node",
		Draw: func(t *rapid.T) valueCase {
			allowBad := rapid.IntRange(0, 3).Draw(t, "allowBad") == 0
			c := valueCase{As: rapid.SampledFrom([]string{"value", "value", "struct", "list", "field"}).Draw(t, "as")}
			c.Root = drawNode(t, 3, allowBad)
			switch c.As {
			case "struct":
				if c.Root.K != "obj" {
					c.Root = jnode{K: "obj", Keys: []string{"k"}, L: []jnode{c.Root}}
				}
			case "list":
				if c.Root.K != "list" {
					c.Root = jnode{K: "list", L: []jnode{c.Root}}
				}
			}
			return c
		},
		Check:      checkStructValue,
		NonTrivial: func(c valueCase) bool { return c.Root.depth() >= 2 || c.Root.bad() },
		Classes: func(c valueCase) []string {
			out := []string{"as:" + c.As, fmt.Sprintf("depth:%d", c.Root.depth()), "root:" + c.Root.K}
			if c.Root.bad() {
				out = append(out, "bad")
			}
			return out
		},
		Quick: 40000, Thorough: 200000,
	})
}

// ---- Empty -------------------------------------------------------------------------------------------------

type emptyCase struct {
	Doc     string
	Discard bool
	Accept  bool
}

func TestEmpty(t *testing.T) {
	cases := []emptyCase{
		{`{}`, false, true}, {` { } `, false, true}, {`{}`, true, true},
		{`{"a":1}`, false, false}, {`{"a":1}`, true, true}, {`{"a":{"b":[1,{"c":null}]}}`, true, true}, {`{"a":{"b":[1,{"c":null}]}}`, false, false},
		{`null`, false, false}, {`[]`, false, false}, {`""`, false, false}, {`0`, false, false}, {`true`, false, false}, {`{`, false, false}, {`{}{}`, false, false}, {`{"a":}`, true, false}, {`{"a":1,}`, true, false},
	}
	pbt.Enumerate(t, "empty", "google.protobuf.Empty: marshals to {} (top level and as a field); {} parses; members are unknown fields (rejected, or skipped under DiscardUnknown); other JSON kinds and malformed objects are rejected", true,
		func(yield func(emptyCase, bool) bool) {
			for _, c := range cases {
				if !yield(c, true) {
					return
				}
			}
		},
		func(c emptyCase) error {
			out, err := protojson.Marshal(&emptypb.Empty{})
			if err != nil || strings.Join(strings.Fields(string(out)), "") != "{}" {
				return fmt.Errorf("Empty marshals to %s, %v", out, err)
			}
			out, err = protojson.Marshal(&textpb2.KnownTypes{OptEmpty: &emptypb.Empty{}})
			if err != nil || strings.Join(strings.Fields(string(out)), "") != `{"optEmpty":{}}` {
				return fmt.Errorf("KnownTypes{opt_empty} marshals to %s, %v", out, err)
			}
			e := &emptypb.Empty{}
			err = protojson.UnmarshalOptions{DiscardUnknown: c.Discard}.Unmarshal([]byte(c.Doc), e)
			if (err == nil) != c.Accept {
				return fmt.Errorf("Empty <- %s (DiscardUnknown=%v): err=%v, want accept=%v", c.Doc, c.Discard, err, c.Accept)
			}
			kt := &textpb2.KnownTypes{}
			err = protojson.UnmarshalOptions{DiscardUnknown: c.Discard}.Unmarshal([]byte(`{"optEmpty":`+c.Doc+`}`), kt)
			accept := c.Accept || strings.TrimSpace(c.Doc) == "null"
			if strings.Contains(c.Doc, "}{") {
				accept = false
			}
			if (err == nil) != accept {
				return fmt.Errorf("KnownTypes{opt_empty} <- %s (DiscardUnknown=%v): err=%v, want accept=%v", c.Doc, c.Discard, err, accept)
			}
			if err == nil && strings.TrimSpace(c.Doc) != "null" && kt.OptEmpty == nil {
				return fmt.Errorf("KnownTypes{opt_empty} <- %s leaves the field unset", c.Doc)
			}
			// packed in an Any, Empty is read both with "value":{} (the form other runtimes write) and without a value member
			for _, doc := range []string{`{"@type":"type.googleapis.com/google.protobuf.Empty","value":` + c.Doc + `}`, `{"value":` + c.Doc + `,"@type":"type.googleapis.com/google.protobuf.Empty"}`} {
				a := &anypb.Any{}
				err = protojson.UnmarshalOptions{DiscardUnknown: c.Discard}.Unmarshal([]byte(doc), a)
				if (err == nil) != c.Accept {
					return fmt.Errorf("Any <- %s (DiscardUnknown=%v): err=%v, want accept=%v", doc, c.Discard, err, c.Accept)
				}
				if err == nil && (a.TypeUrl != "type.googleapis.com/google.protobuf.Empty" || len(a.Value) != 0) {
					return fmt.Errorf("Any <- %s parsed to %v", doc, a)
				}
			}
			a := &anypb.Any{}
			if err := protojson.Unmarshal([]byte(`{"@type":"type.googleapis.com/google.protobuf.Empty"}`), a); err != nil || len(a.Value) != 0 {
				return fmt.Errorf("Any of Empty without a value member: %v, %v", a, err)
			}
			return nil
		})
}

var _ = sort.Strings
