package c23

import (
	"fmt"
	"testing"

	"google.golang.org/protobuf/zverif/pbt"
)

// Fixed witnesses of the known deviations: replayed on every run.
func TestKnownFindings(t *testing.T) {
	if pbt.ReplayPath != "" {
		t.Skip()
	}
	for _, s := range []string{".s", "+.s", "-.s"} {
		secs, nanos, err := unmarshalDuration(s, false)
		pbt.Witness(t, "KF-json-duration-nodigits", err == nil, fmt.Sprintf("Duration string %q is accepted as {%d, %d}", s, secs, nanos))
	}
	for _, w := range []struct{ id, s string }{
		{"KF-json-timestamp-comma-fraction", "2000-01-01T00:00:00,1234567890123Z"},
		{"KF-json-timestamp-comma-fraction", "2000-01-01T00:00:00,5Z"},
		{"KF-json-timestamp-one-digit-hour", "2000-01-01T0:00:00Z"},
		{"KF-json-timestamp-offset-24-60", "2000-01-01T00:00:00+24:00"},
		{"KF-json-timestamp-offset-24-60", "2000-01-01T00:00:00+23:60"},
	} {
		secs, nanos, err := unmarshalTimestamp(w.s, false)
		pbt.Witness(t, w.id, err == nil, fmt.Sprintf("Timestamp string %q is accepted as {%d, %d}", w.s, secs, nanos))
	}
}
