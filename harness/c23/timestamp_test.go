package c23

import (
	"encoding/json"
	"fmt"
	"strings"
	"testing"

	"google.golang.org/protobuf/encoding/protojson"
	"google.golang.org/protobuf/internal/testprotos/textpb2"
	"google.golang.org/protobuf/types/known/timestamppb"
	"google.golang.org/protobuf/zverif/pbt"
	"pgregory.net/rapid"
)

// The civil-calendar functions of the oracle are themselves checked against a day-by-day walk
// through the years 0..10000 driven only by the month-length table.
func TestOracleCalendar(t *testing.T) {
	if pbt.ReplayPath != "" {
		t.Skip()
	}
	z := daysFromCivil(0, 1, 1)
	if daysFromCivil(1970, 1, 1) != 0 {
		t.Fatalf("daysFromCivil(1970-01-01) = %d", daysFromCivil(1970, 1, 1))
	}
	n := 0
	for y := int64(0); y <= 10000; y++ {
		for m := int64(1); m <= 12; m++ {
			for d := int64(1); d <= daysInMonth(y, m); d++ {
				if got := daysFromCivil(y, m, d); got != z {
					t.Fatalf("daysFromCivil(%d-%d-%d) = %d, walk says %d", y, m, d, got, z)
				}
				if gy, gm, gd := civilFromDays(z); gy != y || gm != m || gd != d {
					t.Fatalf("civilFromDays(%d) = %d-%d-%d, walk says %d-%d-%d", z, gy, gm, gd, y, m, d)
				}
				z++
				n++
			}
		}
	}
	if minTimestampSeconds != -62135596800 || maxTimestampSeconds != 253402300799 {
		t.Fatalf("range ends %d %d differ from the documented constants", minTimestampSeconds, maxTimestampSeconds)
	}
	pbt.S.Note("oracle calendar self-check: %d consecutive days, years 0..10000", n)
}

// ---- marshal side ------------------------------------------------------------------------------------

func checkTimestampMarshal(c secNanos) error {
	ts := &timestamppb.Timestamp{Seconds: c.Secs, Nanos: c.Nanos}
	var out []byte
	var err error
	if c.Field {
		out, err = protojson.Marshal(&textpb2.KnownTypes{OptTimestamp: ts})
	} else {
		out, err = protojson.Marshal(ts)
	}
	if !timestampValid(c.Secs, int64(c.Nanos)) {
		if err == nil {
			return fmt.Errorf("Timestamp{%d, %d} is outside the documented domain but marshals to %s", c.Secs, c.Nanos, out)
		}
		return nil
	}
	if err != nil {
		return fmt.Errorf("Timestamp{%d, %d} is valid but Marshal fails: %v", c.Secs, c.Nanos, err)
	}
	doc := out
	if c.Field {
		var obj map[string]json.RawMessage
		if err := json.Unmarshal(out, &obj); err != nil || len(obj) != 1 || obj["optTimestamp"] == nil {
			return fmt.Errorf("KnownTypes{opt_timestamp} marshals to %s", out)
		}
		doc = obj["optTimestamp"]
	}
	s, err := jsonString(doc)
	if err != nil {
		return fmt.Errorf("Timestamp{%d, %d}: %v", c.Secs, c.Nanos, err)
	}
	if want := formatTimestamp(c.Secs, int64(c.Nanos)); s != want {
		return fmt.Errorf("Timestamp{%d, %d} marshals to %q, reference form %q", c.Secs, c.Nanos, s, want)
	}
	var back timestamppb.Timestamp
	if c.Field {
		var kt textpb2.KnownTypes
		if err := protojson.Unmarshal(out, &kt); err != nil {
			return fmt.Errorf("Unmarshal(Marshal(Timestamp{%d, %d}) = %s) fails: %v", c.Secs, c.Nanos, out, err)
		}
		if kt.OptTimestamp == nil {
			return fmt.Errorf("Unmarshal(%s) leaves opt_timestamp unset", out)
		}
		back.Seconds, back.Nanos = kt.OptTimestamp.Seconds, kt.OptTimestamp.Nanos
	} else if err := protojson.Unmarshal(out, &back); err != nil {
		return fmt.Errorf("Unmarshal(Marshal(Timestamp{%d, %d}) = %s) fails: %v", c.Secs, c.Nanos, out, err)
	}
	if back.Seconds != c.Secs || back.Nanos != c.Nanos {
		return fmt.Errorf("Timestamp{%d, %d} -> %s -> Timestamp{%d, %d}", c.Secs, c.Nanos, out, back.Seconds, back.Nanos)
	}
	return nil
}

var tsSecPool = func() []int64 {
	out := []int64{0, 1, -1, 59, 60, 86399, 86400, -86400, -86401, minTimestampSeconds, minTimestampSeconds + 1, minTimestampSeconds - 1, maxTimestampSeconds, maxTimestampSeconds - 1, maxTimestampSeconds + 1,
		1 << 31, -(1 << 31), 1<<31 - 1, 1 << 32, 1<<63 - 1, -1 << 63, 951782400 /* 2000-02-29 */, 4107542400 /* 2100-03-01 */}
	for _, y := range []int64{1, 2, 4, 100, 400, 1582, 1600, 1700, 1900, 1969, 1970, 1972, 2000, 2024, 2038, 2100, 2400, 9996, 9999} {
		for _, md := range [][2]int64{{1, 1}, {2, 28}, {2, 29}, {3, 1}, {12, 31}} {
			out = append(out, daysFromCivil(y, md[0], md[1])*86400, daysFromCivil(y, md[0], md[1])*86400+86399)
		}
	}
	return out
}()

func TestTimestampMarshal(t *testing.T) {
	pbt.Run(t, pbt.Prop[secNanos]{
		Name: "timestamp-marshal",
		Rule: "Timestamp{seconds, nanos}: seconds from a pool (both range ends +-3, epoch, int32/int64 extremes, first/last second of Jan 1 / Feb 28 / Mar 1 / Dec 31 in 19 years incl. leap and century years) +-2 and uniform draws over the range +-1000, nanos from pools and uniform, top level or as a message field: Marshal succeeds iff 0001-01-01T00:00:00Z <= seconds <= 9999-12-31T23:59:59Z and 0 <= nanos <= 999999999; the string equals an own civil-date formatter (days -> y-m-d algorithm, no package time) with 0/3/6/9 fraction digits; Unmarshal(Marshal(x)) == x. non-trivial = seconds within 1 of a range end or on a day adjacent to Feb 28/29, or nanos within 1 of a bound",
		Draw: func(t *rapid.T) secNanos {
			return drawSecNanos(t, tsSecPool, minTimestampSeconds-1000, maxTimestampSeconds+1000)
		},
		Check: checkTimestampMarshal,
		NonTrivial: func(c secNanos) bool {
			if nearBound(c.Secs, minTimestampSeconds, maxTimestampSeconds) || nearBound(int64(c.Nanos), 0, maxNanos) {
				return true
			}
			if timestampValid(c.Secs, 0) {
				_, m, d := civilFromDays(floorDiv(c.Secs, 86400))
				return (m == 2 && d >= 28) || (m == 3 && d == 1)
			}
			return false
		},
		Classes: func(c secNanos) []string {
			out := []string{}
			if timestampValid(c.Secs, int64(c.Nanos)) {
				out = append(out, "valid", fmt.Sprintf("fraction-digits:%d", len(strings.TrimPrefix(fraction(int64(c.Nanos)), "."))))
				if _, m, d := civilFromDays(floorDiv(c.Secs, 86400)); m == 2 && d == 29 {
					out = append(out, "feb-29")
				}
				if c.Secs < 0 {
					out = append(out, "before-1970")
				}
			} else {
				out = append(out, "invalid")
			}
			if c.Field {
				out = append(out, "as-field")
			}
			return out
		},
		Quick: 60000, Thorough: 300000,
	})
}

// ---- parse side ------------------------------------------------------------------------------------

func unmarshalTimestamp(s string, field bool) (secs int64, nanos int32, err error) {
	if field {
		var kt textpb2.KnownTypes
		if err := protojson.Unmarshal([]byte(`{"optTimestamp":`+quoteJSON(s)+`}`), &kt); err != nil {
			return 0, 0, err
		}
		if kt.OptTimestamp == nil {
			return 0, 0, fmt.Errorf("harness: opt_timestamp unset after a successful Unmarshal")
		}
		return kt.OptTimestamp.Seconds, kt.OptTimestamp.Nanos, nil
	}
	var d timestamppb.Timestamp
	if err := protojson.Unmarshal([]byte(quoteJSON(s)), &d); err != nil {
		return 0, 0, err
	}
	return d.Seconds, d.Nanos, nil
}

var lenientFinding = map[string]string{
	"comma":          "KF-json-timestamp-comma-fraction",
	"one-digit-hour": "KF-json-timestamp-one-digit-hour",
	"offset-24-60":   "KF-json-timestamp-offset-24-60",
}

func checkTimestampString(c strCase) error {
	v := parseTimestampRef(c.S)
	secs, nanos, err := unmarshalTimestamp(c.S, c.Field)
	if err != nil && strings.HasPrefix(err.Error(), "harness:") {
		return err
	}
	switch v.Class {
	case "unspecified":
		return nil
	case "reject":
		if err == nil {
			if len(v.Lenient) > 0 && strings.HasPrefix(v.Why, "not-strict:") {
				all := true
				for _, l := range v.Lenient {
					if !pbt.Known(lenientFinding[l]) {
						all = false
					}
				}
				if all {
					for _, l := range v.Lenient {
						pbt.ExcludeKnown(lenientFinding[l])
					}
					return nil
				}
			}
			return fmt.Errorf("Timestamp string %q accepted as {%d, %d} but it is not a strict RFC 3339 date-time with <= 9 fraction digits within years 1..9999 (%s)", c.S, secs, nanos, v.Why)
		}
		return nil
	}
	if err != nil {
		return fmt.Errorf("Timestamp string %q rejected (%v) but it is a strict RFC 3339 date-time in range: {%d, %d}", c.S, err, v.Secs, v.Nanos)
	}
	if secs != v.Secs || int64(nanos) != v.Nanos {
		return fmt.Errorf("Timestamp string %q decoded to {%d, %d}, exact value {%d, %d}", c.S, secs, nanos, v.Secs, v.Nanos)
	}
	return nil
}

const tsAlphabet = "0123456789TtZz:.,+- "

func drawTimestampString(t *rapid.T) strCase {
	c := strCase{Field: rapid.IntRange(0, 4).Draw(t, "field") == 0}
	class := rapid.IntRange(0, 11).Draw(t, "class")
	// odd: how many fields may take an out-of-grammar alternative (0 for the strict classes)
	odd := 0
	switch {
	case class >= 4 && class <= 6:
		odd = 1
	case class == 7:
		odd = 2
	case class >= 8:
		odd = rapid.IntRange(0, 1).Draw(t, "oddMut")
	}
	oddAt := map[int]bool{}
	for i := 0; i < odd; i++ {
		oddAt[rapid.IntRange(0, 9).Draw(t, "oddAt")] = true
	}
	fieldNo := 0
	pick := func(label string, common []string, rare []string) string {
		fieldNo++
		if oddAt[fieldNo-1] {
			return rapid.SampledFrom(rare).Draw(t, label+"R")
		}
		return rapid.SampledFrom(common).Draw(t, label)
	}
	two := func(label string, lo, hi int) string {
		return fmt.Sprintf("%02d", rapid.IntRange(lo, hi).Draw(t, label))
	}
	if class == 11 {
		c.Class = "constant"
		c.S = rapid.SampledFrom([]string{
			"2000-01-01T00:00:00,1234567890123Z", "2000-01-01T0:00:00Z", "2000-01-01T00:00:00+24:00", "2000-01-01T00:00:00+23:60", "2000-01-01T00:00:00,5Z", "2000-01-01T00:00:00-24:00",
			"0001-01-01T00:00:00Z", "0000-12-31T23:59:59Z", "9999-12-31T23:59:59Z", "9999-12-31T23:59:59.999999999Z", "10000-01-01T00:00:00Z", "9999-12-31T23:59:59-00:01", "0001-01-01T00:00:00+00:01", "0000-12-31T23:00:00-01:00",
			"1970-01-01T00:00:00Z", "1970-01-01T00:00:00.000000000Z", "1970-01-01T00:00:00.0000000000Z", "1970-01-01T00:00:00.Z", "1970-01-01T00:00:00.1234567891Z", "1970-01-01T00:00:00.000000001+01:00",
			"1970-01-01t00:00:00Z", "1970-01-01T00:00:00z", "1970-01-01 00:00:00Z", "1970-01-01T00:00:60Z", "1970-01-01T24:00:00Z", "1970-01-01T23:60:00Z", "2016-12-31T23:59:60Z",
			"1970-01-01T00:00:00", "1970-01-01T00:00Z", "1970-01-01", "1970-01-01T00:00:00+0100", "1970-01-01T00:00:00+01", "1970-01-01T00:00:00 Z", " 1970-01-01T00:00:00Z", "1970-01-01T00:00:00Z ",
			"1970-1-01T00:00:00Z", "1970-01-1T00:00:00Z", "1970-01-01T00:0:00Z", "1970-01-01T00:00:0Z", "70-01-01T00:00:00Z", "01970-01-01T00:00:00Z", "+1970-01-01T00:00:00Z", "-0001-01-01T00:00:00Z",
			"2001-02-29T00:00:00Z", "2000-02-29T00:00:00Z", "1900-02-29T00:00:00Z", "2000-02-30T00:00:00Z", "2000-04-31T00:00:00Z", "2000-00-01T00:00:00Z", "2000-13-01T00:00:00Z", "2000-01-00T00:00:00Z", "2000-01-32T00:00:00Z",
			"1970-01-01T00:00:00-00:00", "1970-01-01T00:00:00+00:00", "1970-01-01T00:00:00+14:00", "1970-01-01T00:00:00-23:59", "1970-01-01T00:00:00+25:00", "1970-01-01T00:00:00+00:61", "1970-01-01T00:00:00+1:00", "1970-01-01T00:00:00+01:0",
			"", "Z", "T", "now", "0", "1970-01-01T00:00:00ZZ", "1970-01-01T00:00:00Z+01:00", "1970-01-01T00:00:00.5.5Z", "1970-01-01T00:00:00,5,5Z", "1970-01-01T00:00:00.,5Z", "1970-01-01T9:59:59.999999999+24:60",
		}).Draw(t, "const")
		return c
	}
	year := pick("year", []string{"0001", "0002", "1969", "1970", "1999", "2000", "2024", "2100", "9998", "9999"}, []string{"0000", "10000", "970", "+2000", "-0001", fmt.Sprintf("%04d", rapid.IntRange(0, 9999).Draw(t, "y"))})
	month := pick("month", []string{"01", "02", "02", "03", "04", "06", "11", "12", two("moV", 1, 12)}, []string{"00", "13", "1", "012", two("mo", 1, 12)})
	day := pick("day", []string{"01", "02", "28", "29", "30", "31", two("dV", 1, 28)}, []string{"00", "32", "1", "031", two("d", 1, 31)})
	sep := pick("sep", []string{"T"}, []string{"t", " ", "", "_", "TT"})
	hour := pick("hour", []string{"00", "01", "12", "23", two("hV", 0, 23)}, []string{"24", "0", "9", "1", "023", two("h", 0, 23)})
	minute := pick("minute", []string{"00", "01", "30", "59", two("miV", 0, 59)}, []string{"60", "0", "5", "059", two("mi", 0, 59)})
	second := pick("second", []string{"00", "01", "30", "59", two("sV", 0, 59)}, []string{"60", "61", "0", "5", "059", two("s", 0, 59)})
	frac := ""
	fracClass := rapid.IntRange(0, 7).Draw(t, "fracClass")
	if odd == 0 && class < 8 && fracClass >= 3 { // strict classes: '.' with 1..9 digits only
		fracClass = 8
	}
	switch fracClass {
	case 8:
		n := rapid.SampledFrom([]int{1, 2, 3, 6, 8, 9, 9}).Draw(t, "fracStrictN")
		b := make([]byte, n)
		for i := range b {
			b[i] = byte('0' + rapid.IntRange(0, 9).Draw(t, "fd"))
		}
		frac = "." + string(b)
	case 0, 1, 2:
	case 3, 4, 5:
		n := rapid.IntRange(0, 12).Draw(t, "fracN")
		b := make([]byte, n)
		for i := range b {
			b[i] = byte('0' + rapid.IntRange(0, 9).Draw(t, "fd"))
		}
		frac = "." + string(b)
	case 6:
		n := rapid.IntRange(1, 14).Draw(t, "fracN")
		b := make([]byte, n)
		for i := range b {
			b[i] = byte('0' + rapid.IntRange(0, 9).Draw(t, "fd"))
		}
		frac = "," + string(b)
	default:
		frac = rapid.SampledFrom([]string{".000", ".999999999", ".9999999999", ".000000000", ".0000000000", ".000000001", ".1", ".123456", ".123456789", ".1234567891", ","}).Draw(t, "fracConst")
	}
	var zone string
	if rapid.Bool().Draw(t, "utc") {
		zone = pick("zone", []string{"Z"}, []string{"z", "", "UTC", "ZZ", " Z"})
	} else {
		sign := rapid.SampledFrom([]string{"+", "-"}).Draw(t, "offSign")
		oh := pick("offH", []string{"00", "01", "12", "14", "23"}, []string{"24", "25", "1", "99", two("oh", 0, 23)})
		om := pick("offM", []string{"00", "30", "59"}, []string{"60", "61", "0", "99", two("om", 0, 59)})
		colon := pick("colon", []string{":"}, []string{"", ".", " "})
		zone = sign + oh + colon + om
	}
	c.S = year + "-" + month + "-" + day + sep + hour + ":" + minute + ":" + second + frac + zone
	c.Class = "grammar"
	if odd > 0 {
		c.Class = "grammar-odd"
	}
	if class >= 8 {
		c.Class = "mutation"
		ch := string(tsAlphabet[rapid.IntRange(0, len(tsAlphabet)-1).Draw(t, "ch")])
		j := rapid.IntRange(0, len(c.S)).Draw(t, "at")
		switch op := rapid.IntRange(0, 2).Draw(t, "op"); {
		case op == 0 && j < len(c.S):
			c.S = c.S[:j] + c.S[j+1:]
		case op == 1 && j < len(c.S):
			c.S = c.S[:j] + ch + c.S[j+1:]
		default:
			c.S = c.S[:j] + ch + c.S[j:]
		}
	}
	return c
}

func tsClasses(c strCase) []string {
	v := parseTimestampRef(c.S)
	out := []string{"gen:" + c.Class, v.Class + ":" + v.Why}
	if v.Class == "accept" {
		if v.Shape.OffSign != 0 {
			out = append(out, "accept-with-offset")
		}
		if v.Shape.Frac != "" {
			out = append(out, fmt.Sprintf("accept-frac-digits:%d", len(v.Shape.Frac)))
		}
	}
	return out
}

func tsNonTrivial(c strCase) bool {
	v := parseTimestampRef(c.S)
	if !v.Shape.OK {
		return false
	}
	if len(v.Lenient) > 0 || v.Why == "fraction>9" || v.Why == "out-of-range" || v.Why == "field-range" {
		return true
	}
	return v.Class == "accept" && (len(v.Shape.Frac) == 9 || v.Shape.OffSign != 0 || nearBound(v.Secs, minTimestampSeconds, maxTimestampSeconds) || (v.Shape.Mo == 2 && v.Shape.D >= 28))
}

func TestTimestampParse(t *testing.T) {
	pbt.Run(t, pbt.Prop[strCase]{
		Name:       "timestamp-parse",
		Rule:       "strings for a Timestamp (top level or message field) assembled field by field from the RFC 3339 shape with variations: years 0000/0001/9999/10000/3-digit/signed, months and days incl. 00/13/32/one digit/Feb 29-30, separators T/t/space/none, hours incl. 24 and one digit, minutes/seconds incl. 60/61/one digit, fraction none / '.' with 0..12 digits / ',' with 1..14 digits, zones Z/z/none/+-hh:mm incl. 24:00, 23:60, 25:00, missing colon; plus one-character mutations and hostile constants. Strict strings (upper-case T/Z, '.', two-digit fields in range, <= 9 fraction digits): accepted iff the instant is within years 1..9999, with the exact (seconds, nanos) from an own civil-date computation; anything else must be rejected, except lower-case t/z, space separator and second 60 (unspecified). non-trivial = shape matches and the verdict hangs on one field (offset, fraction length, range end, leap day, a lenient form)",
		Draw:       drawTimestampString,
		Check:      checkTimestampString,
		NonTrivial: tsNonTrivial,
		Classes:    tsClasses,
		Quick:      150000, Thorough: 600000,
	})
}

// Every single-character edit of a set of canonical strings (deterministic).
func TestTimestampEdits(t *testing.T) {
	bases := []string{
		"1970-01-01T00:00:00Z", "2000-02-29T23:59:59.999999999Z", "0001-01-01T00:00:00Z", "9999-12-31T23:59:59.999999999Z",
		"2024-06-30T12:34:56.123456+05:30", "1999-12-31T23:59:59-23:59", "2038-01-19T03:14:07.000Z", "1969-12-31T23:59:59.1+00:00",
	}
	pbt.Enumerate(t, "timestamp-edits", "every deletion, replacement and insertion of one character from [0-9TtZz:.,+- ] at every position of 8 canonical timestamp strings, decided like timestamp-parse; non-trivial = the edited string still has the timestamp shape", true,
		func(yield func(strCase, bool) bool) {
			seen := map[string]bool{}
			emit := func(s string) bool {
				if seen[s] {
					return true
				}
				seen[s] = true
				c := strCase{S: s, Class: "edit"}
				return yield(c, parseShape(s).OK)
			}
			for _, b := range bases {
				if !emit(b) {
					return
				}
				for j := 0; j <= len(b); j++ {
					if j < len(b) && !emit(b[:j]+b[j+1:]) {
						return
					}
					for i := 0; i < len(tsAlphabet); i++ {
						ch := string(tsAlphabet[i])
						if j < len(b) && !emit(b[:j]+ch+b[j+1:]) {
							return
						}
						if !emit(b[:j] + ch + b[j:]) {
							return
						}
					}
				}
			}
		}, checkTimestampString)
}
