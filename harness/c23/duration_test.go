package c23

import (
	"encoding/json"
	"fmt"
	"strings"
	"sync"
	"sync/atomic"
	"testing"

	"google.golang.org/protobuf/encoding/protojson"
	"google.golang.org/protobuf/internal/testprotos/textpb2"
	"google.golang.org/protobuf/types/known/durationpb"
	"google.golang.org/protobuf/zverif/pbt"
	"pgregory.net/rapid"
)

// jsonString unquotes a JSON document that must be exactly one string (encoding/json).
func jsonString(doc []byte) (string, error) {
	var s string
	if !json.Valid(doc) {
		return "", fmt.Errorf("not valid JSON: %s", doc)
	}
	if err := json.Unmarshal(doc, &s); err != nil {
		return "", fmt.Errorf("not a JSON string: %s", doc)
	}
	return s, nil
}

func quoteJSON(s string) string {
	b, _ := json.Marshal(s)
	return string(b)
}

// ---- marshal side ------------------------------------------------------------------------------------

type secNanos struct {
	Secs  int64
	Nanos int32
	Field bool // as the field opt_duration/opt_timestamp of textpb2.KnownTypes instead of top level
}

func checkDurationMarshal(c secNanos) error {
	d := &durationpb.Duration{Seconds: c.Secs, Nanos: c.Nanos}
	var out []byte
	var err error
	if c.Field {
		out, err = protojson.Marshal(&textpb2.KnownTypes{OptDuration: d})
	} else {
		out, err = protojson.Marshal(d)
	}
	valid := durationValid(c.Secs, int64(c.Nanos))
	if !valid {
		if err == nil {
			return fmt.Errorf("Duration{%d, %d} is outside the documented domain but marshals to %s", c.Secs, c.Nanos, out)
		}
		return nil
	}
	if err != nil {
		return fmt.Errorf("Duration{%d, %d} is valid but Marshal fails: %v", c.Secs, c.Nanos, err)
	}
	doc := out
	if c.Field {
		var obj map[string]json.RawMessage
		if err := json.Unmarshal(out, &obj); err != nil || len(obj) != 1 || obj["optDuration"] == nil {
			return fmt.Errorf("KnownTypes{opt_duration} marshals to %s", out)
		}
		doc = obj["optDuration"]
	}
	s, err := jsonString(doc)
	if err != nil {
		return fmt.Errorf("Duration{%d, %d}: %v", c.Secs, c.Nanos, err)
	}
	if want := formatDuration(c.Secs, int64(c.Nanos)); s != want {
		return fmt.Errorf("Duration{%d, %d} marshals to %q, reference form %q", c.Secs, c.Nanos, s, want)
	}
	var back durationpb.Duration
	if c.Field {
		var kt textpb2.KnownTypes
		if err := protojson.Unmarshal(out, &kt); err != nil {
			return fmt.Errorf("Unmarshal(Marshal(Duration{%d, %d}) = %s) fails: %v", c.Secs, c.Nanos, out, err)
		}
		if kt.OptDuration == nil {
			return fmt.Errorf("Unmarshal(%s) leaves opt_duration unset", out)
		}
		back.Seconds, back.Nanos = kt.OptDuration.Seconds, kt.OptDuration.Nanos
	} else if err := protojson.Unmarshal(out, &back); err != nil {
		return fmt.Errorf("Unmarshal(Marshal(Duration{%d, %d}) = %s) fails: %v", c.Secs, c.Nanos, out, err)
	}
	if back.Seconds != c.Secs || back.Nanos != c.Nanos {
		return fmt.Errorf("Duration{%d, %d} -> %s -> Duration{%d, %d}", c.Secs, c.Nanos, out, back.Seconds, back.Nanos)
	}
	return nil
}

var durSecPool = []int64{0, 1, -1, 2, 59, 60, 3600, 86400, maxDurationSeconds, maxDurationSeconds - 1, maxDurationSeconds + 1, -maxDurationSeconds, -maxDurationSeconds + 1, -maxDurationSeconds - 1,
	1 << 31, -(1 << 31), 1<<31 - 1, 1 << 32, 1<<63 - 1, -1 << 63, 999999999, 1000000000, 315576000, 9223372036, -9223372036, 9223372037}
var nanoPool = []int64{0, 1, -1, 999, 1000, 1001, 999999, 1000000, 1000001, 999999999, 999999998, 1000000000, -999999999, -1000000000, 500000000, -500000000, 100000000, 10, 100, 123456789, 120000000, 123000000, 123456000,
	1<<31 - 1, -1 << 31, 999000000, 999999000, -1000, -1000000}

func drawSecNanos(t *rapid.T, secPool []int64, lo, hi int64) secNanos {
	var c secNanos
	switch rapid.IntRange(0, 3).Draw(t, "secClass") {
	case 0, 1:
		c.Secs = rapid.SampledFrom(secPool).Draw(t, "secPool") + int64(rapid.IntRange(-2, 2).Draw(t, "secDelta"))
	case 2:
		c.Secs = rapid.Int64Range(lo, hi).Draw(t, "secs")
	default:
		c.Secs = rapid.Int64Range(-100000, 100000).Draw(t, "smallSecs")
	}
	switch rapid.IntRange(0, 2).Draw(t, "nanoClass") {
	case 0:
		c.Nanos = int32(rapid.SampledFrom(nanoPool).Draw(t, "nanoPool"))
	case 1:
		c.Nanos = int32(rapid.Int64Range(-maxNanos-2, maxNanos+2).Draw(t, "nanos"))
	default:
		c.Nanos = int32(rapid.Int64Range(0, 999).Draw(t, "digits")) * int32(rapid.SampledFrom([]int{1, 1000, 1000000}).Draw(t, "scale"))
		if rapid.Bool().Draw(t, "negNanos") {
			c.Nanos = -c.Nanos
		}
	}
	c.Field = rapid.IntRange(0, 3).Draw(t, "field") == 0
	return c
}

func nearBound(v int64, bounds ...int64) bool {
	for _, b := range bounds {
		if d := v - b; d >= -1 && d <= 1 {
			return true
		}
	}
	return false
}

func TestDurationMarshal(t *testing.T) {
	pbt.Run(t, pbt.Prop[secNanos]{
		Name: "duration-marshal",
		Rule: "Duration{seconds, nanos} from boundary pools (+-315576000000 +-3, nanos +-999999999 +-2, sign mixes, 0/+-1, int32/int64 extremes, millisecond/microsecond multiples) and uniform draws, top level or as a message field: Marshal succeeds iff ranges hold and signs agree; the string equals the reference formatter (0/3/6/9 fraction digits); Unmarshal(Marshal(x)) == x. non-trivial = seconds or nanos within 1 of a range end, or signs disagree with both non-zero",
		Draw: func(t *rapid.T) secNanos {
			return drawSecNanos(t, durSecPool, -maxDurationSeconds-1000, maxDurationSeconds+1000)
		},
		Check: checkDurationMarshal,
		NonTrivial: func(c secNanos) bool {
			return nearBound(c.Secs, maxDurationSeconds, -maxDurationSeconds) || nearBound(int64(c.Nanos), maxNanos, -maxNanos) || (c.Secs > 0 && c.Nanos < 0) || (c.Secs < 0 && c.Nanos > 0)
		},
		Classes: func(c secNanos) []string {
			out := []string{}
			if durationValid(c.Secs, int64(c.Nanos)) {
				out = append(out, "valid", fmt.Sprintf("fraction-digits:%d", len(strings.TrimPrefix(fraction(abs(int64(c.Nanos))), "."))))
				if c.Secs == 0 && c.Nanos < 0 {
					out = append(out, "negative-subsecond")
				}
			} else {
				out = append(out, "invalid")
			}
			if c.Field {
				out = append(out, "as-field")
			}
			return out
		},
		Quick: 60000, Thorough: 300000,
	})
}

func abs(x int64) int64 {
	if x < 0 {
		return -x
	}
	return x
}

// ---- parse side ------------------------------------------------------------------------------------

type strCase struct {
	S     string
	Field bool
	Class string
}

func unmarshalDuration(s string, field bool) (secs int64, nanos int32, err error) {
	if field {
		var kt textpb2.KnownTypes
		if err := protojson.Unmarshal([]byte(`{"optDuration":`+quoteJSON(s)+`}`), &kt); err != nil {
			return 0, 0, err
		}
		if kt.OptDuration == nil {
			return 0, 0, fmt.Errorf("harness: opt_duration unset after a successful Unmarshal")
		}
		return kt.OptDuration.Seconds, kt.OptDuration.Nanos, nil
	}
	var d durationpb.Duration
	if err := protojson.Unmarshal([]byte(quoteJSON(s)), &d); err != nil {
		return 0, 0, err
	}
	return d.Seconds, d.Nanos, nil
}

// knownDurationNoDigits: sign, point and suffix but no digit at all.
func knownDurationNoDigits(s string) bool { return s == ".s" || s == "+.s" || s == "-.s" }

func checkDurationString(c strCase) error {
	v := parseDurationRef(c.S)
	secs, nanos, err := unmarshalDuration(c.S, c.Field)
	if err != nil && strings.HasPrefix(err.Error(), "harness:") {
		return err
	}
	switch v.Class {
	case "unspecified":
		return nil
	case "reject":
		if err == nil {
			if knownDurationNoDigits(c.S) && pbt.ExcludeKnown("KF-json-duration-nodigits") {
				return nil
			}
			return fmt.Errorf("Duration string %q accepted as {%d, %d} but it is outside the documented grammar/range (%s)", c.S, secs, nanos, v.Why)
		}
		return nil
	}
	if err != nil {
		return fmt.Errorf("Duration string %q rejected (%v) but it matches the documented grammar and range: {%d, %d}", c.S, err, v.Secs, v.Nanos)
	}
	if secs != v.Secs || int64(nanos) != v.Nanos {
		return fmt.Errorf("Duration string %q decoded to {%d, %d}, exact value {%d, %d}", c.S, secs, nanos, v.Secs, v.Nanos)
	}
	return nil
}

const durAlphabet = "+-0123456789.se "

func drawDurationString(t *rapid.T) strCase {
	c := strCase{Field: rapid.IntRange(0, 4).Draw(t, "field") == 0}
	digits := func(label string, lo, hi int) string {
		n := rapid.IntRange(lo, hi).Draw(t, label+"N")
		b := make([]byte, n)
		for i := range b {
			b[i] = byte('0' + rapid.IntRange(0, 9).Draw(t, label))
		}
		return string(b)
	}
	class := rapid.IntRange(0, 9).Draw(t, "class")
	switch {
	case class <= 4: // grammar-derived
		sign := rapid.SampledFrom([]string{"", "", "-", "+"}).Draw(t, "sign")
		var intp string
		switch rapid.IntRange(0, 5).Draw(t, "intClass") {
		case 0:
			intp = ""
		case 1:
			intp = "0"
		case 2:
			intp = fmt.Sprint(rapid.SampledFrom(durSecPool).Draw(t, "secPool") + int64(rapid.IntRange(-2, 2).Draw(t, "d")))
			intp = strings.TrimPrefix(intp, "-")
		case 3:
			intp = strings.TrimLeft(digits("int", 1, 22), "0")
			if intp == "" {
				intp = "0"
			}
		case 4:
			intp = "0" + digits("lz", 1, 3) // leading zeros: unspecified
		default:
			intp = fmt.Sprint(rapid.IntRange(0, 100000).Draw(t, "small"))
		}
		frac := ""
		switch rapid.IntRange(0, 4).Draw(t, "fracClass") {
		case 0:
		case 1:
			frac = "."
		case 2:
			frac = "." + digits("frac", 1, 9)
		case 3:
			frac = "." + digits("frac", 8, 12)
		default:
			frac = "." + strings.Repeat(rapid.SampledFrom([]string{"0", "9"}).Draw(t, "rep"), rapid.IntRange(1, 11).Draw(t, "repN"))
		}
		c.S = sign + intp + frac + "s"
		c.Class = "grammar"
	case class <= 6: // mutation of a grammatical string
		base := rapid.SampledFrom([]string{"0s", "1s", "-1s", "+1s", "1.5s", "0.000000001s", "-0.999999999s", "315576000000s", "-315576000000.999999999s", "1.s", ".1s", "-.5s", "12.345678901s", "3.000s"}).Draw(t, "base")
		ch := string(durAlphabet[rapid.IntRange(0, len(durAlphabet)-1).Draw(t, "ch")])
		j := rapid.IntRange(0, len(base)).Draw(t, "at")
		switch op := rapid.IntRange(0, 2).Draw(t, "op"); {
		case op == 0 && j < len(base):
			c.S = base[:j] + base[j+1:]
		case op == 1 && j < len(base):
			c.S = base[:j] + ch + base[j+1:]
		default:
			c.S = base[:j] + ch + base[j:]
		}
		c.Class = "mutation"
	case class == 7: // soup over the alphabet
		n := rapid.IntRange(0, 10).Draw(t, "n")
		b := make([]byte, n)
		for i := range b {
			b[i] = durAlphabet[rapid.IntRange(0, len(durAlphabet)-1).Draw(t, "ch")]
		}
		c.S = string(b)
		c.Class = "soup"
	default:
		c.S = rapid.SampledFrom([]string{"s", "+s", "-s", "", ".", ".s", "+.s", "-.s", "0", "1", "1S", "1 s", " 1s", "1s ", "1e3s", "1.5e1s", "0x1s", "١s", "1ms", "1m", "1h", "1ns", "--1s", "+-1s", "1..s", "1.2.3s", ".5s", "-.000000001s", "+.999999999s", "-0s", "+0s", "-0.0s", "0.0000000000s", "0.0000000001s", "1.0000000000s",
			"9223372036854775807s", "9223372036854775808s", "99999999999999999999999s", "315576000000.999999999s", "315576000001s", "-315576000001s", "315576000000.9999999999s", "00s", "01s", "-01.5s", "000.5s", "NaNs", "Infinitys", "1_000s", "1,5s", "1.5"}).Draw(t, "const")
		c.Class = "constant"
	}
	return c
}

func TestDurationParse(t *testing.T) {
	pbt.Run(t, pbt.Prop[strCase]{
		Name:  "duration-parse",
		Rule:  "strings for a Duration (top level or message field): grammar-derived (optional sign, integer part empty/0/boundary/up to 22 digits/with leading zeros, fraction absent/'.'/1..12 digits/all 0s or 9s), one-character mutations of grammatical strings over the alphabet [+-0-9.se ], alphabet soups, hostile constants; accepted iff ^[+-]?((0|[1-9][0-9]*)(\\.[0-9]{0,9})?|\\.[0-9]{1,9})s$ and |seconds| <= 315576000000, with the exact (seconds, nanos); superfluous leading zeros are unspecified. non-trivial = verdict depends on a single character class (fraction length 9/10, seconds within 1 of the bound, missing digits, sign)",
		Draw:  drawDurationString,
		Check: checkDurationString,
		NonTrivial: func(c strCase) bool {
			v := parseDurationRef(c.S)
			switch v.Why {
			case "fraction>9", "no-digits", "out-of-range":
				return true
			}
			if v.Class == "accept" {
				i := strings.IndexByte(c.S, '.')
				return nearBound(v.Secs, maxDurationSeconds, -maxDurationSeconds) || (i >= 0 && len(c.S)-i-2 >= 8) || strings.HasPrefix(c.S, "+") || strings.HasPrefix(c.S, "-.") || strings.HasPrefix(c.S, ".")
			}
			return false
		},
		Classes: func(c strCase) []string {
			v := parseDurationRef(c.S)
			return []string{"gen:" + c.Class, v.Class + ":" + v.Why}
		},
		Quick: 120000, Thorough: 500000,
	})
}

// Exhaustive sweep of all short strings over the alphabet.
func TestDurationShortStrings(t *testing.T) {
	pbt.Register(pbt.Prop[strCase]{Name: "duration-short-strings", Check: checkDurationString})
	if pbt.ReplayPath != "" {
		t.Skip()
	}
	maxLen := 4
	if pbt.Thorough() {
		maxLen = 6
	}
	const A = len(durAlphabet)
	var total, accepted, excluded atomic.Int64
	var firstBad atomic.Pointer[strCase]
	var badErr atomic.Pointer[error]
	var wg sync.WaitGroup
	workers := 4
	if pbt.Thorough() {
		workers = 2
	}
	for w := 0; w < workers; w++ {
		wg.Add(1)
		go func(w int) {
			defer wg.Done()
			for n := 0; n <= maxLen; n++ {
				count := 1
				for i := 0; i < n; i++ {
					count *= A
				}
				buf := make([]byte, n)
				for idx := 0; idx < count; idx++ {
					if int64(idx)%pbt.NShards != pbt.Shard || (idx/int(pbt.NShards))%workers != w {
						continue
					}
					if firstBad.Load() != nil {
						return
					}
					x := idx
					for i := n - 1; i >= 0; i-- {
						buf[i] = durAlphabet[x%A]
						x /= A
					}
					c := strCase{S: string(buf), Class: "short"}
					total.Add(1)
					v := parseDurationRef(c.S)
					if v.Class == "accept" {
						accepted.Add(1)
					}
					if knownDurationNoDigits(c.S) {
						excluded.Add(1)
					}
					if err := checkDurationString(c); err != nil {
						firstBad.CompareAndSwap(nil, &c)
						badErr.CompareAndSwap(nil, &err)
						return
					}
				}
			}
		}(w)
	}
	wg.Wait()
	if c := firstBad.Load(); c != nil {
		pbt.ReportViolation(t, "duration-short-strings", *c, *badErr.Load())
		return
	}
	pbt.Count("duration-short-strings", total.Load(), accepted.Load(),
		fmt.Sprintf("every string of length <= %d over the 16-character alphabet [+-0-9.se space] (this shard's share) against the reference grammar; non-trivial = strings the grammar accepts", maxLen),
		true, map[string]any{"max_len": maxLen, "strings": total.Load(), "grammatical": accepted.Load()})
}
