package c45

// C45, part 2: anypb New / MarshalFrom / UnmarshalTo / UnmarshalNew / MessageIs / MessageName.
//
// Oracle: the abstract message model (harness/model): the message packed into the Any and the
// messages unpacked from it must have equal snapshots; type identity is decided on full names
// taken from the descriptors; the type URL grammar is "anything up to the last '/'" + full name.

import (
	"bytes"
	"fmt"
	"strings"
	"testing"

	"google.golang.org/protobuf/proto"
	"google.golang.org/protobuf/reflect/protodesc"
	"google.golang.org/protobuf/reflect/protoreflect"
	"google.golang.org/protobuf/types/descriptorpb"
	"google.golang.org/protobuf/types/dynamicpb"
	"google.golang.org/protobuf/types/known/anypb"
	"google.golang.org/protobuf/zverif/corpus"
	"google.golang.org/protobuf/zverif/gen"
	"google.golang.org/protobuf/zverif/model"
	"google.golang.org/protobuf/zverif/pbt"
	"pgregory.net/rapid"
)

type anyCase struct {
	Type   string
	M      *model.Msg
	Pre    *model.Msg // content of the destination before UnmarshalTo (must be discarded)
	Prefix string     // replaces "type.googleapis.com/" in the URL; "-" keeps the URL as produced
	Other  string     // another registered type
	Adv    string     // look-alike name for a dynamic message: see advName
}

// advName derives a full name that resembles name, and whether MessageIs must accept a message of that name.
func advName(kind, name string) (string, bool) {
	switch kind {
	case "same":
		return name, true
	case "dotted-suffix": // drop the first package component: a suffix of the URL at a '.' boundary
		if i := strings.IndexByte(name, '.'); i >= 0 {
			return name[i+1:], false
		}
		return "x." + name, false
	case "last-component":
		return name[strings.LastIndexByte(name, '.')+1:], !strings.Contains(name, ".")
	case "mid-segment-suffix": // a suffix of the URL that starts inside an identifier
		if len(name) > 1 && name[1] != '.' && (name[1] < '0' || name[1] > '9') {
			return name[1:], false
		}
		return "x" + name, false
	case "longer":
		return "x." + name, false
	case "prefix":
		return name + "x", false
	}
	return name + ".Sub", false
}

var advKinds = []string{"same", "dotted-suffix", "last-component", "mid-segment-suffix", "longer", "prefix", "nested"}

func dynMessage(fullName string) (proto.Message, error) {
	pkg, name := "", fullName
	if i := strings.LastIndexByte(fullName, '.'); i >= 0 {
		pkg, name = fullName[:i], fullName[i+1:]
	}
	fdp := &descriptorpb.FileDescriptorProto{
		Name: proto.String("zverif/adversary.proto"), Syntax: proto.String("proto3"),
		MessageType: []*descriptorpb.DescriptorProto{{Name: proto.String(name)}},
	}
	if pkg != "" {
		fdp.Package = proto.String(pkg)
	}
	fd, err := protodesc.NewFile(fdp, nil)
	if err != nil {
		return nil, err
	}
	return dynamicpb.NewMessage(fd.Messages().Get(0)), nil
}

func checkAny(c anyCase) error {
	mt := corpus.ByName(c.Type)
	md := mt.Descriptor()
	name := string(md.FullName())
	eq := model.EqualOpts{BitwiseFloats: true}
	m := mt.New()
	if err := model.Apply(m, c.M, nil); err != nil {
		return fmt.Errorf("harness: %v", err)
	}
	initialized := model.Initialized(md, c.M, nil)

	var a *anypb.Any
	if initialized {
		var err error
		if a, err = anypb.New(m.Interface()); err != nil {
			return fmt.Errorf("anypb.New(%s) failed on an initialised message: %v", name, err)
		}
	} else {
		a = new(anypb.Any)
		if err := anypb.MarshalFrom(a, m.Interface(), proto.MarshalOptions{AllowPartial: true}); err != nil {
			return fmt.Errorf("anypb.MarshalFrom(%s, AllowPartial) failed: %v", name, err)
		}
	}
	if !strings.HasSuffix(a.GetTypeUrl(), "/"+name) {
		return fmt.Errorf("type URL %q does not end in /%s", a.GetTypeUrl(), name)
	}
	// MarshalFrom honours its options: deterministic output equals a direct deterministic Marshal
	mo := proto.MarshalOptions{Deterministic: true, AllowPartial: true}
	direct, err := mo.Marshal(m.Interface())
	if err != nil {
		return fmt.Errorf("harness: Marshal: %v", err)
	}
	for i := 0; i < 2; i++ {
		ad := new(anypb.Any)
		if err := anypb.MarshalFrom(ad, m.Interface(), mo); err != nil {
			return fmt.Errorf("anypb.MarshalFrom(deterministic) failed: %v", err)
		}
		if !bytes.Equal(ad.GetValue(), direct) || ad.GetTypeUrl() != a.GetTypeUrl() {
			return fmt.Errorf("anypb.MarshalFrom(deterministic) value differs from MarshalOptions.Marshal with the same options")
		}
	}
	if c.Prefix != "-" {
		a.TypeUrl = c.Prefix + name
	}
	url := a.GetTypeUrl()

	// identity
	if got := a.MessageName(); string(got) != name {
		return fmt.Errorf("Any{%q}.MessageName() = %q, want %q", url, got, name)
	}
	if !a.MessageIs(m.Interface()) || !a.MessageIs(mt.Zero().Interface()) || !a.MessageIs(dynamicpb.NewMessage(md)) {
		return fmt.Errorf("Any{%q}.MessageIs(message of type %s) = false", url, name)
	}
	if a.MessageIs(nil) {
		return fmt.Errorf("Any{%q}.MessageIs(nil) = true", url)
	}
	other := corpus.ByName(c.Other).New().Interface()
	if got := a.MessageIs(other); got != (c.Other == c.Type) {
		return fmt.Errorf("Any{%q}.MessageIs(%s) = %v", url, c.Other, got)
	}
	advN, advWant := advName(c.Adv, name)
	adv, err := dynMessage(advN)
	if err != nil {
		return fmt.Errorf("harness: cannot build look-alike %q: %v", advN, err)
	}
	if got := a.MessageIs(adv); got != advWant {
		return fmt.Errorf("Any{%q}.MessageIs(message named %q) = %v, want %v", url, advN, got, advWant)
	}

	// UnmarshalTo: fresh and pre-populated destinations
	uo := proto.UnmarshalOptions{AllowPartial: true}
	unmarshalTo := func(dst proto.Message) error {
		if initialized {
			return a.UnmarshalTo(dst)
		}
		return anypb.UnmarshalTo(a, dst, uo)
	}
	for _, pre := range []*model.Msg{nil, c.Pre} {
		dst := mt.New()
		if pre != nil {
			if err := model.Apply(dst, pre, nil); err != nil {
				return fmt.Errorf("harness: %v", err)
			}
		}
		if err := unmarshalTo(dst.Interface()); err != nil {
			return fmt.Errorf("Any{%q}.UnmarshalTo(%s) failed: %v", url, name, err)
		}
		if d := model.Diff(md, c.M, model.Snapshot(dst), eq, nil); d != "" {
			return fmt.Errorf("UnmarshalTo (destination pre-populated: %v) differs from the packed message: %s", pre != nil, d)
		}
		if !proto.Equal(m.Interface(), dst.Interface()) {
			return fmt.Errorf("proto.Equal(packed, UnmarshalTo result) = false (destination pre-populated: %v)", pre != nil)
		}
	}
	// a dynamic message of the same descriptor is "of the right type" too
	dyn := dynamicpb.NewMessage(md)
	if err := anypb.UnmarshalTo(a, dyn, uo); err != nil {
		return fmt.Errorf("UnmarshalTo(dynamicpb %s) failed: %v", name, err)
	}
	if d := model.Diff(md, c.M, model.Snapshot(dyn), eq, nil); d != "" {
		return fmt.Errorf("UnmarshalTo(dynamicpb) differs from the packed message: %s", d)
	}
	// wrong destination types are refused
	if c.Other != c.Type {
		if err := anypb.UnmarshalTo(a, other, uo); err == nil {
			return fmt.Errorf("Any{%q}.UnmarshalTo(%s) succeeded", url, c.Other)
		}
	}
	if !advWant {
		if err := anypb.UnmarshalTo(a, adv, uo); err == nil {
			return fmt.Errorf("Any{%q}.UnmarshalTo(message named %q) succeeded", url, advN)
		}
	}

	// UnmarshalNew resolves the type from the URL
	var n proto.Message
	if initialized {
		n, err = a.UnmarshalNew()
	} else {
		n, err = anypb.UnmarshalNew(a, uo)
	}
	if err != nil {
		return fmt.Errorf("Any{%q}.UnmarshalNew() failed: %v", url, err)
	}
	if got := n.ProtoReflect().Descriptor().FullName(); string(got) != name {
		return fmt.Errorf("Any{%q}.UnmarshalNew() returned a %s", url, got)
	}
	if d := model.Diff(md, c.M, model.Snapshot(n.ProtoReflect()), eq, nil); d != "" {
		return fmt.Errorf("UnmarshalNew differs from the packed message: %s", d)
	}
	if !proto.Equal(m.Interface(), n) {
		return fmt.Errorf("proto.Equal(packed, UnmarshalNew result) = false")
	}
	return nil
}

var (
	anyTypes = corpus.Standard()
	anyRich  = corpus.Rich(20)
	prefixes = []string{"-", "-", "", "/", "example.com/", "a/b/c/", "type.googleapis.com/x/", "http://x.y:80/p?q=1/", "//", "type.googleapis.com/google.protobuf.Empty/", "./"}
)

func countFields(v *model.Msg) int {
	if v == nil {
		return 0
	}
	n := len(v.Fields)
	for _, f := range v.Fields {
		for _, x := range f.Vals {
			n += countFields(x.M)
		}
	}
	return n
}

func TestAny(t *testing.T) {
	pbt.Run(t, pbt.Prop[anyCase]{
		Name: "any-roundtrip",
		Rule: "every linked message type (half of the draws from types with >= 20 fields) with descriptor-directed random content (required fields filled; maps, oneofs, groups, extensions, unknown fields); anypb.New (MarshalFrom+AllowPartial when uninitialised), URL prefix kept or replaced (none, '/', host, several path segments, query, another type name in the path); MessageName, MessageIs vs the type itself (generated, typed nil, dynamicpb), another registered type and a dynamic message with a look-alike name (dotted suffix, last component, suffix inside an identifier, longer, extended); UnmarshalTo into fresh / pre-populated / dynamicpb / wrong-type destinations; UnmarshalNew; deterministic MarshalFrom vs direct Marshal. non-trivial = >= 3 populated fields",
		Draw: func(t *rapid.T) anyCase {
			c := anyCase{Type: gen.TypeName(anyTypes, anyRich).Draw(t, "type"), Prefix: rapid.SampledFrom(prefixes).Draw(t, "prefix"), Adv: rapid.SampledFrom(advKinds).Draw(t, "adv")}
			md := corpus.ByName(c.Type).Descriptor()
			mo := gen.DefaultMsgOpts
			if rapid.IntRange(0, 9).Draw(t, "partial?") == 6 {
				mo.FillRequired = false // uninitialised messages go through MarshalFrom/UnmarshalTo/UnmarshalNew with AllowPartial
			}
			c.M = gen.DrawMessage(t, md, mo)
			po := gen.DefaultMsgOpts
			po.Depth, po.MaxFields = 1, 4
			c.Pre = gen.DrawMessage(t, md, po)
			if rapid.IntRange(0, 3).Draw(t, "othersame") == 2 {
				c.Other = c.Type
			} else {
				c.Other = rapid.SampledFrom(anyTypes).Draw(t, "other")
			}
			return c
		},
		Check:      checkAny,
		NonTrivial: func(c anyCase) bool { return len(c.M.Fields) >= 3 },
		Classes: func(c anyCase) []string {
			out := []string{"adv-" + c.Adv}
			if c.Prefix == "-" {
				out = append(out, "url-as-produced")
			} else {
				out = append(out, "url-prefix-replaced")
			}
			md := corpus.ByName(c.Type).Descriptor()
			if !model.Initialized(md, c.M, nil) {
				out = append(out, "uninitialised")
			}
			if c.Other == c.Type {
				out = append(out, "other-is-same-type")
			}
			if len(c.Pre.Fields) > 0 {
				out = append(out, "destination-prepopulated")
			}
			if len(c.M.Unknown) > 0 {
				out = append(out, "unknown-fields")
			}
			if md.ExtensionRanges().Len() > 0 {
				out = append(out, "extendable")
			}
			if !strings.Contains(string(md.FullName()), ".") {
				out = append(out, "no-package")
			}
			switch n := countFields(c.M); {
			case n == 0:
				out = append(out, "empty-message")
			case n >= 10:
				out = append(out, "fields>=10")
			}
			if md.Syntax() == protoreflect.Editions {
				out = append(out, "editions")
			}
			return out
		},
		Quick: 12000, Thorough: 120000,
	})
}

// ---- type URLs on their own ---------------------------------------------------------------------------------

type urlCase struct {
	URL string
}

func validIdent(s string) bool {
	if s == "" {
		return false
	}
	for i := 0; i < len(s); i++ {
		c := s[i]
		if !(c == '_' || c >= 'a' && c <= 'z' || c >= 'A' && c <= 'Z' || (i > 0 && c >= '0' && c <= '9')) {
			return false
		}
	}
	return true
}

func refMessageName(url string) string {
	name := url[strings.LastIndexByte(url, '/')+1:]
	for _, part := range strings.Split(name, ".") {
		if !validIdent(part) {
			return ""
		}
	}
	return name
}

func checkURL(c urlCase) error {
	a := &anypb.Any{TypeUrl: c.URL}
	want := refMessageName(c.URL)
	if got := a.MessageName(); string(got) != want {
		return fmt.Errorf("Any{%q}.MessageName() = %q, want %q", c.URL, got, want)
	}
	if want == "" {
		return nil
	}
	m, err := dynMessage(want)
	if err != nil {
		return fmt.Errorf("harness: %v", err)
	}
	if !a.MessageIs(m) {
		return fmt.Errorf("Any{%q}.MessageIs(message named %q) = false", c.URL, want)
	}
	other, err := dynMessage(want + "_")
	if err != nil {
		return fmt.Errorf("harness: %v", err)
	}
	if a.MessageIs(other) {
		return fmt.Errorf("Any{%q}.MessageIs(message named %q) = true", c.URL, want+"_")
	}
	return nil
}

func TestURL(t *testing.T) {
	parts := []string{"a", "B_", "_", "a1", "foo.Bar", "google.protobuf.Empty", "1a", "", "a-b", "a b", "é", "a..b", ".a", "a.", "x.y.z9"}
	seps := []string{"/", "", "//", "/x/", "type.googleapis.com/", "."}
	pbt.Run(t, pbt.Prop[urlCase]{
		Name: "any-url",
		Rule: "type URLs assembled from 1..4 pieces (identifiers, dotted names, invalid identifiers, empty) joined by '/', '//', '.', host prefixes; MessageName = the text after the last '/' when it is a valid full name (dot-separated identifiers), else empty; MessageIs agrees for a message of exactly that name and not for a longer one. non-trivial = contains a '/' and a '.'",
		Draw: func(t *rapid.T) urlCase {
			n := rapid.IntRange(1, 4).Draw(t, "n")
			s := ""
			for i := 0; i < n; i++ {
				if i > 0 || rapid.IntRange(0, 3).Draw(t, "leadsep") == 2 {
					s += rapid.SampledFrom(seps).Draw(t, "sep")
				}
				s += rapid.SampledFrom(parts).Draw(t, "part")
			}
			return urlCase{URL: s}
		},
		Check:      checkURL,
		NonTrivial: func(c urlCase) bool { return strings.Contains(c.URL, "/") && strings.Contains(c.URL, ".") },
		Classes: func(c urlCase) []string {
			if refMessageName(c.URL) == "" {
				return []string{"invalid-name"}
			}
			return []string{"valid-name"}
		},
		Quick: 8000, Thorough: 60000,
	})
}

func TestAnyNil(t *testing.T) {
	type nilCase struct{ What string }
	pbt.Enumerate(t, "any-nil", "nil source message, nil Any, empty type URL: errors, no panics; non-trivial = all", true,
		func(yield func(nilCase, bool) bool) {
			_ = yield(nilCase{"new-nil"}, true) && yield(nilCase{"unmarshal-nil-any"}, true) && yield(nilCase{"empty-url"}, true)
		}, func(c nilCase) error {
			switch c.What {
			case "new-nil":
				if a, err := anypb.New(nil); err == nil {
					return fmt.Errorf("anypb.New(nil) = %v, nil", a)
				}
			case "unmarshal-nil-any":
				var a *anypb.Any
				if err := a.UnmarshalTo(&anypb.Any{}); err == nil {
					return fmt.Errorf("(*Any)(nil).UnmarshalTo succeeded")
				}
				if a.MessageName() != "" || a.MessageIs(&anypb.Any{}) {
					return fmt.Errorf("nil Any names a message")
				}
			case "empty-url":
				if m, err := (&anypb.Any{}).UnmarshalNew(); err == nil {
					return fmt.Errorf("Any{}.UnmarshalNew() = %v, nil", m)
				}
			}
			return nil
		})
}
