package c45

// C45, part 1: structpb NewValue / NewStruct / NewList / AsInterface / AsMap / AsSlice and the JSON legs.
//
// Oracle: the conversion table in the NewValue documentation re-implemented on plain Go values
// (integers -> float64 with math/big rounding, []byte -> base64 by a local encoder, json.Number ->
// float64 through big.Rat, nil map/slice -> empty, non-finite floats -> "NaN"/"Infinity"/"-Infinity"
// on the way out, invalid UTF-8 anywhere -> error), and encoding/json as the second JSON implementation.

import (
	"bytes"
	"encoding/json"
	"fmt"
	"math"
	"math/big"
	"sort"
	"strings"
	"testing"
	"unicode/utf8"

	"google.golang.org/protobuf/proto"
	"google.golang.org/protobuf/types/known/structpb"
	"google.golang.org/protobuf/zverif/gen"
	"google.golang.org/protobuf/zverif/pbt"
	"pgregory.net/rapid"
)

// JV is the serialisable description of a JSON-like Go value.
type JV struct {
	K  string   `json:"k"`            // nil bool int int8 int16 int32 int64 uint uint8 uint16 uint32 uint64 float32 float64 jsonnum string bytes map list nilmap nillist
	B  bool     `json:"b,omitempty"`  // bool
	I  int64    `json:"i,omitempty"`  // signed integers
	U  uint64   `json:"u,omitempty"`  // unsigned integers; float32/float64 bit patterns
	S  []byte   `json:"s,omitempty"`  // string / []byte content, json.Number text (raw bytes, may be invalid UTF-8)
	Ks [][]byte `json:"ks,omitempty"` // map keys (raw bytes)
	E  []JV     `json:"e,omitempty"`  // map values / list elements
}

func (v JV) toGo() any {
	switch v.K {
	case "nil":
		return nil
	case "bool":
		return v.B
	case "int":
		return int(v.I)
	case "int8":
		return int8(v.I)
	case "int16":
		return int16(v.I)
	case "int32":
		return int32(v.I)
	case "int64":
		return v.I
	case "uint":
		return uint(v.U)
	case "uint8":
		return uint8(v.U)
	case "uint16":
		return uint16(v.U)
	case "uint32":
		return uint32(v.U)
	case "uint64":
		return v.U
	case "float32":
		return math.Float32frombits(uint32(v.U))
	case "float64":
		return math.Float64frombits(v.U)
	case "jsonnum":
		return json.Number(v.S)
	case "string":
		return string(v.S)
	case "bytes":
		return append([]byte{}, v.S...)
	case "nilmap":
		return map[string]any(nil)
	case "nillist":
		return []any(nil)
	case "map":
		m := map[string]any{}
		for i, k := range v.Ks {
			m[string(k)] = v.E[i].toGo()
		}
		return m
	case "list":
		l := make([]any, len(v.E))
		for i, e := range v.E {
			l[i] = e.toGo()
		}
		return l
	}
	panic("harness: unknown JV kind " + v.K)
}

// ---- reference conversion ---------------------------------------------------------------------------

const b64 = "ABCDEFGHIJKLMNOPQRSTUVWXYZabcdefghijklmnopqrstuvwxyz0123456789+/"

func refBase64(b []byte) string {
	var sb strings.Builder
	for i := 0; i < len(b); i += 3 {
		var n uint32
		rem := len(b) - i
		switch {
		case rem >= 3:
			n = uint32(b[i])<<16 | uint32(b[i+1])<<8 | uint32(b[i+2])
			sb.WriteByte(b64[n>>18&63])
			sb.WriteByte(b64[n>>12&63])
			sb.WriteByte(b64[n>>6&63])
			sb.WriteByte(b64[n&63])
		case rem == 2:
			n = uint32(b[i])<<16 | uint32(b[i+1])<<8
			sb.WriteByte(b64[n>>18&63])
			sb.WriteByte(b64[n>>12&63])
			sb.WriteByte(b64[n>>6&63])
			sb.WriteByte('=')
		default:
			n = uint32(b[i]) << 16
			sb.WriteByte(b64[n>>18&63])
			sb.WriteByte(b64[n>>12&63])
			sb.WriteString("==")
		}
	}
	return sb.String()
}

func ratToFloat(r *big.Rat) float64 { f, _ := r.Float64(); return f } // nearest float64, ties to even

type refNote struct {
	mustErr   bool // NewValue has to fail (invalid UTF-8, text that is no number)
	mayErr    bool // a json.Number beyond the float64 range: failing is allowed
	nonFinite bool // the tree holds NaN / Inf (rendered as strings by AsInterface, rejected by protojson)
}

var jsonNumberRE = func(s string) bool { // the JSON number grammar
	i := 0
	n := len(s)
	if i < n && s[i] == '-' {
		i++
	}
	if i >= n {
		return false
	}
	if s[i] == '0' {
		i++
	} else if s[i] >= '1' && s[i] <= '9' {
		for i < n && s[i] >= '0' && s[i] <= '9' {
			i++
		}
	} else {
		return false
	}
	if i < n && s[i] == '.' {
		i++
		j := i
		for i < n && s[i] >= '0' && s[i] <= '9' {
			i++
		}
		if i == j {
			return false
		}
	}
	if i < n && (s[i] == 'e' || s[i] == 'E') {
		i++
		if i < n && (s[i] == '+' || s[i] == '-') {
			i++
		}
		j := i
		for i < n && s[i] >= '0' && s[i] <= '9' {
			i++
		}
		if i == j {
			return false
		}
	}
	return i == n
}

func outFloat(f float64, note *refNote) any {
	switch {
	case math.IsNaN(f):
		note.nonFinite = true
		return "NaN"
	case math.IsInf(f, +1):
		note.nonFinite = true
		return "Infinity"
	case math.IsInf(f, -1):
		note.nonFinite = true
		return "-Infinity"
	}
	return f
}

// reference: what NewValue(x).AsInterface() has to return for x according to the documentation.
func reference(x any, note *refNote) any {
	switch x := x.(type) {
	case nil:
		return nil
	case bool:
		return x
	case int:
		return ratToFloat(new(big.Rat).SetInt64(int64(x)))
	case int8:
		return ratToFloat(new(big.Rat).SetInt64(int64(x)))
	case int16:
		return ratToFloat(new(big.Rat).SetInt64(int64(x)))
	case int32:
		return ratToFloat(new(big.Rat).SetInt64(int64(x)))
	case int64:
		return ratToFloat(new(big.Rat).SetInt64(x))
	case uint:
		return ratToFloat(new(big.Rat).SetUint64(uint64(x)))
	case uint8:
		return ratToFloat(new(big.Rat).SetUint64(uint64(x)))
	case uint16:
		return ratToFloat(new(big.Rat).SetUint64(uint64(x)))
	case uint32:
		return ratToFloat(new(big.Rat).SetUint64(uint64(x)))
	case uint64:
		return ratToFloat(new(big.Rat).SetUint64(x))
	case float32:
		return outFloat(float64(x), note)
	case float64:
		return outFloat(x, note)
	case json.Number:
		if !jsonNumberRE(string(x)) {
			note.mustErr = true
			return nil
		}
		r, ok := new(big.Rat).SetString(string(x))
		if !ok {
			panic("harness: big.Rat rejects " + string(x))
		}
		f := ratToFloat(r)
		if math.IsInf(f, 0) {
			note.mayErr = true
		}
		if f == 0 && strings.HasPrefix(string(x), "-") {
			f = math.Copysign(0, -1)
		}
		return outFloat(f, note)
	case string:
		if !utf8.ValidString(x) {
			note.mustErr = true
		}
		return x
	case []byte:
		return refBase64(x)
	case map[string]any:
		out := map[string]any{}
		for k, v := range x {
			if !utf8.ValidString(k) {
				note.mustErr = true
			}
			out[k] = reference(v, note)
		}
		return out
	case []any:
		out := make([]any, len(x))
		for i, v := range x {
			out[i] = reference(v, note)
		}
		return out
	}
	panic(fmt.Sprintf("harness: reference: unexpected type %T", x))
}

// deepEq compares two AsInterface-shaped trees; bitwise selects exact float identity (sign of zero).
func deepEq(got, want any, bitwise bool, path string) error {
	switch w := want.(type) {
	case nil:
		if got != nil {
			return fmt.Errorf("%s: got %T %v, want nil", path, got, got)
		}
	case bool:
		if g, ok := got.(bool); !ok || g != w {
			return fmt.Errorf("%s: got %T %v, want bool %v", path, got, got, w)
		}
	case string:
		if g, ok := got.(string); !ok || g != w {
			return fmt.Errorf("%s: got %T %q, want string %q", path, got, got, w)
		}
	case float64:
		g, ok := got.(float64)
		if !ok || g != w || (bitwise && math.Float64bits(g) != math.Float64bits(w)) {
			return fmt.Errorf("%s: got %T %v, want float64 %v (bits %#x)", path, got, got, w, math.Float64bits(w))
		}
	case map[string]any:
		g, ok := got.(map[string]any)
		if !ok || g == nil {
			return fmt.Errorf("%s: got %T %v, want a non-nil map[string]any", path, got, got)
		}
		if len(g) != len(w) {
			return fmt.Errorf("%s: map has %d keys, want %d", path, len(g), len(w))
		}
		for k, wv := range w {
			gv, ok := g[k]
			if !ok {
				return fmt.Errorf("%s: key %q missing", path, k)
			}
			if err := deepEq(gv, wv, bitwise, path+"."+k); err != nil {
				return err
			}
		}
	case []any:
		g, ok := got.([]any)
		if !ok || g == nil {
			return fmt.Errorf("%s: got %T %v, want a non-nil []any", path, got, got)
		}
		if len(g) != len(w) {
			return fmt.Errorf("%s: list has %d elements, want %d", path, len(g), len(w))
		}
		for i := range w {
			if err := deepEq(g[i], w[i], bitwise, fmt.Sprintf("%s[%d]", path, i)); err != nil {
				return err
			}
		}
	default:
		return fmt.Errorf("harness: %s: unexpected reference type %T", path, want)
	}
	return nil
}

// jsonTree parses JSON text with encoding/json keeping numbers as text.
func jsonTree(b []byte) (any, error) {
	d := json.NewDecoder(bytes.NewReader(b))
	d.UseNumber()
	var v any
	if err := d.Decode(&v); err != nil {
		return nil, err
	}
	if d.More() {
		return nil, fmt.Errorf("trailing data")
	}
	return v, nil
}

// jsonEq: semantic equality of two JSON documents (numbers compared as exact rationals).
func jsonEq(a, b any, path string) error {
	switch x := a.(type) {
	case json.Number:
		y, ok := b.(json.Number)
		if !ok {
			return fmt.Errorf("%s: number %s vs %T %v", path, x, b, b)
		}
		rx, ok1 := new(big.Rat).SetString(string(x))
		ry, ok2 := new(big.Rat).SetString(string(y))
		if !ok1 || !ok2 || rx.Cmp(ry) != 0 {
			return fmt.Errorf("%s: numbers differ: %s vs %s", path, x, y)
		}
	case map[string]any:
		y, ok := b.(map[string]any)
		if !ok || len(x) != len(y) {
			return fmt.Errorf("%s: object vs %T / different sizes", path, b)
		}
		for k, xv := range x {
			yv, ok := y[k]
			if !ok {
				return fmt.Errorf("%s: key %q missing on one side", path, k)
			}
			if err := jsonEq(xv, yv, path+"."+k); err != nil {
				return err
			}
		}
	case []any:
		y, ok := b.([]any)
		if !ok || len(x) != len(y) {
			return fmt.Errorf("%s: array vs %T / different lengths", path, b)
		}
		for i := range x {
			if err := jsonEq(x[i], y[i], fmt.Sprintf("%s[%d]", path, i)); err != nil {
				return err
			}
		}
	default: // nil, bool, string
		if a != b {
			return fmt.Errorf("%s: %T %v vs %T %v", path, a, a, b, b)
		}
	}
	return nil
}

type structCase struct{ V JV }

func checkStruct(c structCase) error {
	x := c.V.toGo()
	var note refNote
	want := reference(x, &note)

	v, err := structpb.NewValue(x)
	if note.mustErr {
		if err == nil {
			return fmt.Errorf("NewValue accepted a value holding invalid UTF-8 / a non-number json.Number: %#v", x)
		}
		return nil
	}
	if err != nil {
		if note.mayErr {
			return nil
		}
		return fmt.Errorf("NewValue(%#v) failed: %v", x, err)
	}
	got := v.AsInterface()
	if err := deepEq(got, want, true, "$"); err != nil {
		return fmt.Errorf("NewValue(x).AsInterface() differs from the documented conversion of x = %#v: %v", x, err)
	}
	// the Struct / ListValue entry points
	switch xx := x.(type) {
	case map[string]any:
		s, err := structpb.NewStruct(xx)
		if err != nil {
			return fmt.Errorf("NewStruct failed where NewValue succeeded: %v", err)
		}
		if err := deepEq(s.AsMap(), want, true, "$"); err != nil {
			return fmt.Errorf("NewStruct(x).AsMap(): %v", err)
		}
		if !proto.Equal(structpb.NewStructValue(s), v) && !note.nonFinite {
			return fmt.Errorf("NewStructValue(NewStruct(x)) differs from NewValue(x)")
		}
	case []any:
		l, err := structpb.NewList(xx)
		if err != nil {
			return fmt.Errorf("NewList failed where NewValue succeeded: %v", err)
		}
		if err := deepEq(l.AsSlice(), want, true, "$"); err != nil {
			return fmt.Errorf("NewList(x).AsSlice(): %v", err)
		}
		if !proto.Equal(structpb.NewListValue(l), v) && !note.nonFinite {
			return fmt.Errorf("NewListValue(NewList(x)) differs from NewValue(x)")
		}
	}

	// JSON: encoding/json of AsInterface vs protojson of the Value
	ej, err := json.Marshal(got)
	if err != nil {
		return fmt.Errorf("encoding/json.Marshal(AsInterface()) failed: %v", err)
	}
	pj, err := v.MarshalJSON()
	if err != nil {
		if note.nonFinite {
			return nil // documented: equivalence holds "assuming no errors occur"; protojson rejects NaN/Inf
		}
		return fmt.Errorf("Value.MarshalJSON failed on finite content: %v", err)
	}
	et, err := jsonTree(ej)
	if err != nil {
		return fmt.Errorf("harness: encoding/json output does not parse: %v", err)
	}
	pt, err := jsonTree(pj)
	if err != nil {
		return fmt.Errorf("Value.MarshalJSON output is not JSON: %v (%s)", err, pj)
	}
	if err := jsonEq(et, pt, "$"); err != nil {
		return fmt.Errorf("encoding/json %s and protojson %s are not the same JSON value: %v", ej, pj, err)
	}
	if note.nonFinite {
		return nil // "NaN" etc. come back as strings: not a round trip, by documented design
	}
	// protojson text decoded by encoding/json gives the AsInterface tree
	var viaStd any
	if err := json.Unmarshal(pj, &viaStd); err != nil {
		return fmt.Errorf("encoding/json cannot decode Value.MarshalJSON output %s: %v", pj, err)
	}
	if err := deepEq(normEmpty(viaStd), want, false, "$"); err != nil {
		return fmt.Errorf("encoding/json decoding of Value.MarshalJSON output %s differs from AsInterface: %v", pj, err)
	}
	// round trips through both texts
	for _, src := range [][]byte{pj, ej} {
		v2 := new(structpb.Value)
		if err := v2.UnmarshalJSON(src); err != nil {
			return fmt.Errorf("Value.UnmarshalJSON(%s) failed: %v", src, err)
		}
		if !proto.Equal(v, v2) {
			return fmt.Errorf("Value.UnmarshalJSON(%s) is not Equal to the original Value", src)
		}
		if err := deepEq(v2.AsInterface(), want, false, "$"); err != nil {
			return fmt.Errorf("UnmarshalJSON(%s).AsInterface(): %v", src, err)
		}
	}
	return nil
}

// normEmpty: encoding/json decodes [] and {} to non-nil empty values already; keep the shape explicit.
func normEmpty(v any) any {
	switch x := v.(type) {
	case map[string]any:
		if x == nil {
			return map[string]any{}
		}
		for k, e := range x {
			x[k] = normEmpty(e)
		}
	case []any:
		if x == nil {
			return []any{}
		}
		for i, e := range x {
			x[i] = normEmpty(e)
		}
	}
	return v
}

// ---- generator -----------------------------------------------------------------------------------------

var intKinds = []string{"int", "int8", "int16", "int32", "int64", "uint", "uint8", "uint16", "uint32", "uint64"}

var numberTexts = []string{
	"0", "-0", "1", "-1", "0.1", "1e0", "1E+2", "1e-2", "123456789012345678901234567890", "9007199254740992", "9007199254740993", "-9007199254740993",
	"18446744073709551615", "18446744073709551616", "9223372036854775807", "-9223372036854775808",
	"1.00000000000000011102230246251565404236316680908203125", "1.00000000000000011102230246251565404236316680908203126",
	"4.9e-324", "2.4703282292062327e-324", "2.4703282292062328e-324", "1e-400", "-1e-400", "1.7976931348623157e308", "1.7976931348623158e308",
	"1.7976931348623159e308", "1e309", "-1e400", "0.000000000000000000001e21", "1e21", "1e-7", "100000000000000000000", "3.141592653589793", "0.30000000000000004",
}
var notNumbers = []string{"", "abc", "1e", "--1", "-", "e5", "1 2", "true", "\"1\""}

func clampInt(kind string, i int64, u uint64) (int64, uint64) {
	switch kind {
	case "int8":
		return int64(int8(i)), 0
	case "int16":
		return int64(int16(i)), 0
	case "int32":
		return int64(int32(i)), 0
	case "int", "int64":
		return i, 0
	case "uint8":
		return 0, uint64(uint8(u))
	case "uint16":
		return 0, uint64(uint16(u))
	case "uint32":
		return 0, uint64(uint32(u))
	}
	return 0, u
}

func drawString(t *rapid.T, allowInvalid bool) []byte {
	if allowInvalid && rapid.IntRange(0, 24).Draw(t, "badutf8?") == 11 {
		return []byte(gen.ValidString(16).Draw(t, "pre") + rapid.SampledFrom(gen.InvalidUTF8).Draw(t, "bad") + gen.ValidString(16).Draw(t, "post"))
	}
	if rapid.IntRange(0, 5).Draw(t, "special?") == 3 {
		return []byte(rapid.SampledFrom([]string{"NaN", "Infinity", "-Infinity", "<script>&amp;</script>", "  ", "\x00\x1f", "\"\\/", "null", "1e5", "é\U0001F600", "�"}).Draw(t, "special"))
	}
	return []byte(gen.ValidString(40).Draw(t, "str"))
}

// simplest kinds first: rapid shrinks towards the front of the list
var leafKinds = []string{"nil", "bool", "int", "float64", "string", "jsonnum", "bytes", "float32", "int", "string"}
var containerKinds = []string{"list", "map"}
var weightedIntKinds = []string{"int64", "uint64", "int", "uint", "int64", "uint64", "int32", "uint32", "int16", "uint16", "int8", "uint8"}

func drawJV(t *rapid.T, depth int, budget *int) JV {
	*budget--
	kinds := leafKinds
	if depth > 0 && *budget > 0 && rapid.IntRange(0, 99).Draw(t, "nest?") >= 25 {
		kinds = containerKinds
	}
	switch rapid.SampledFrom(kinds).Draw(t, "kind") {
	case "nil":
		return JV{K: "nil"}
	case "bool":
		return JV{K: "bool", B: rapid.Bool().Draw(t, "b")}
	case "int":
		k := rapid.SampledFrom(weightedIntKinds).Draw(t, "intkind")
		u := gen.Uint64().Draw(t, "int")
		i, uu := clampInt(k, int64(u), u)
		return JV{K: k, I: i, U: uu}
	case "float64":
		return JV{K: "float64", U: gen.Float64Bits().Draw(t, "f64")}
	case "float32":
		return JV{K: "float32", U: uint64(gen.Float32Bits().Draw(t, "f32"))}
	case "jsonnum":
		switch rapid.IntRange(0, 9).Draw(t, "numclass") {
		case 9:
			return JV{K: "jsonnum", S: []byte(rapid.SampledFrom(notNumbers).Draw(t, "notnum"))}
		case 1, 2, 3:
			return JV{K: "jsonnum", S: []byte(rapid.SampledFrom(numberTexts).Draw(t, "numtext"))}
		default:
			s := ""
			if rapid.Bool().Draw(t, "neg") {
				s = "-"
			}
			s += fmt.Sprint(gen.Uint64().Draw(t, "intpart"))
			if rapid.Bool().Draw(t, "frac?") {
				s += "." + rapid.StringMatching(`[0-9]{1,20}`).Draw(t, "frac")
			}
			if rapid.Bool().Draw(t, "exp?") {
				s += rapid.SampledFrom([]string{"e", "E", "e+", "e-", "E-"}).Draw(t, "e") + fmt.Sprint(rapid.IntRange(0, 330).Draw(t, "exp"))
			}
			return JV{K: "jsonnum", S: []byte(s)}
		}
	case "string":
		return JV{K: "string", S: drawString(t, true)}
	case "bytes":
		return JV{K: "bytes", S: gen.Bytes(40).Draw(t, "bytes")}
	case "map":
		if rapid.IntRange(0, 11).Draw(t, "nilmap?") == 7 {
			return JV{K: "nilmap"}
		}
		n := rapid.IntRange(0, 5).Draw(t, "nkeys")
		v := JV{K: "map", Ks: [][]byte{}, E: []JV{}}
		seen := map[string]bool{}
		for i := 0; i < n; i++ {
			var k []byte
			if rapid.Bool().Draw(t, "shortkey") {
				k = []byte(rapid.SampledFrom([]string{"a", "b", "c", "", "k", "key", "A", "nullValue", "@type", "a.b"}).Draw(t, "key"))
			} else {
				k = drawString(t, true)
			}
			if seen[string(k)] {
				continue
			}
			seen[string(k)] = true
			v.Ks = append(v.Ks, k)
			v.E = append(v.E, drawJV(t, depth-1, budget))
		}
		return v
	default:
		if rapid.IntRange(0, 11).Draw(t, "nillist?") == 7 {
			return JV{K: "nillist"}
		}
		n := rapid.IntRange(0, 5).Draw(t, "nelems")
		v := JV{K: "list", E: []JV{}}
		for i := 0; i < n; i++ {
			v.E = append(v.E, drawJV(t, depth-1, budget))
		}
		return v
	}
}

type jvStats struct {
	depth, maxKeys, nodes                                              int
	bigInt, nonFinite, badUTF8, bytes, jsonNum, nilColl, null, notNum, negZero bool
	kinds                                                              map[string]bool
}

func (s *jvStats) walk(v JV, d int) {
	s.nodes++
	if d > s.depth {
		s.depth = d
	}
	if s.kinds == nil {
		s.kinds = map[string]bool{}
	}
	s.kinds[v.K] = true
	switch v.K {
	case "nil":
		s.null = true
	case "int", "int64":
		if v.I > 1<<53 || v.I < -(1<<53) {
			s.bigInt = true
		}
	case "uint", "uint64":
		if v.U > 1<<53 {
			s.bigInt = true
		}
	case "float64":
		f := math.Float64frombits(v.U)
		if math.IsNaN(f) || math.IsInf(f, 0) {
			s.nonFinite = true
		}
		if f == 0 && math.Signbit(f) {
			s.negZero = true
		}
	case "float32":
		f := float64(math.Float32frombits(uint32(v.U)))
		if math.IsNaN(f) || math.IsInf(f, 0) {
			s.nonFinite = true
		}
	case "jsonnum":
		s.jsonNum = true
		if !jsonNumberRE(string(v.S)) {
			s.notNum = true
		}
	case "string":
		if !utf8.Valid(v.S) {
			s.badUTF8 = true
		}
	case "bytes":
		s.bytes = true
	case "nilmap", "nillist":
		s.nilColl = true
	case "map":
		if len(v.Ks) > s.maxKeys {
			s.maxKeys = len(v.Ks)
		}
		for _, k := range v.Ks {
			if !utf8.Valid(k) {
				s.badUTF8 = true
			}
		}
	}
	for _, e := range v.E {
		s.walk(e, d+1)
	}
}

func TestStructValues(t *testing.T) {
	pbt.Run(t, pbt.Prop[structCase]{
		Name: "struct-values",
		Rule: "JSON-like Go values to depth 6: nil, bool, all ten integer types at boundaries, float32/float64 from the boundary pool (+-0, subnormals, NaN, Inf), json.Number (JSON grammar incl. halfway cases, > 17 digits, range ends, texts that are no numbers), strings (valid, JSON-special, invalid UTF-8), []byte, maps (also nil, odd keys) and slices (also nil); NewValue/NewStruct/NewList + AsInterface/AsMap/AsSlice vs the documented conversion table, encoding/json vs protojson as JSON values, UnmarshalJSON round trips of both texts. non-trivial = nesting >= 2 and (an integer beyond 2^53 or a map with >= 3 keys)",
		Draw: func(t *rapid.T) structCase {
			budget := 40
			c := structCase{}
			if rapid.IntRange(0, 3).Draw(t, "container") > 0 { // mostly start from a container so that nesting happens
				budget2 := budget
				c.V = drawContainer(t, 5, &budget2)
				return c
			}
			c.V = drawJV(t, 6, &budget)
			return c
		},
		Check: checkStruct,
		NonTrivial: func(c structCase) bool {
			var s jvStats
			s.walk(c.V, 0)
			return s.depth >= 2 && (s.bigInt || s.maxKeys >= 3)
		},
		Classes: func(c structCase) []string {
			var s jvStats
			s.walk(c.V, 0)
			out := []string{fmt.Sprintf("depth-%d", min(s.depth, 6))}
			for k, on := range map[string]bool{"int-beyond-2^53": s.bigInt, "non-finite": s.nonFinite, "invalid-utf8": s.badUTF8, "bytes": s.bytes, "json.Number": s.jsonNum,
				"nil-map-or-slice": s.nilColl, "null": s.null, "not-a-number-text": s.notNum, "negative-zero": s.negZero, "map>=3keys": s.maxKeys >= 3} {
				if on {
					out = append(out, k)
				}
			}
			var note refNote
			reference(c.V.toGo(), &note)
			if note.mustErr {
				out = append(out, "error-expected")
			} else {
				out = append(out, "conversion-expected")
			}
			if note.mayErr {
				out = append(out, "json.Number-overflow")
			}
			sort.Strings(out)
			return out
		},
		Quick: 30000, Thorough: 300000,
	})
}

func drawContainer(t *rapid.T, depth int, budget *int) JV {
	n := rapid.IntRange(1, 5).Draw(t, "n")
	if rapid.Bool().Draw(t, "map") {
		v := JV{K: "map", Ks: [][]byte{}, E: []JV{}}
		for i := 0; i < n; i++ {
			v.Ks = append(v.Ks, []byte(fmt.Sprintf("k%d", i)))
			v.E = append(v.E, drawJV(t, depth, budget))
		}
		return v
	}
	v := JV{K: "list", E: []JV{}}
	for i := 0; i < n; i++ {
		v.E = append(v.E, drawJV(t, depth, budget))
	}
	return v
}

// every integer type at its ends and around 2^53 / 2^63 / 2^64: exact expected float64 from math/big
func TestIntegerEnum(t *testing.T) {
	pbt.Enumerate(t, "integer-enum", "every integer kind x {type minimum, maximum, 0, +-1, 2^k-1, 2^k, 2^k+1 for k = 7..64 clipped to the type}; non-trivial = |value| > 2^53", true,
		func(yield func(structCase, bool) bool) {
			for _, k := range intKinds {
				seen := map[[2]uint64]bool{}
				emit := func(u uint64) bool {
					i, uu := clampInt(k, int64(u), u)
					key := [2]uint64{uint64(i), uu}
					if seen[key] {
						return true
					}
					seen[key] = true
					big := uu > 1<<53 || i > 1<<53 || i < -(1<<53)
					return yield(structCase{V: JV{K: "list", E: []JV{{K: k, I: i, U: uu}}}}, big)
				}
				for _, u := range []uint64{0, 1, ^uint64(0), 1 << 63, 1<<63 - 1} {
					if !emit(u) {
						return
					}
				}
				for b := 7; b <= 64; b++ {
					var base uint64
					if b < 64 {
						base = 1 << uint(b)
					}
					for d := int64(-2); d <= 2; d++ {
						if !emit(base+uint64(d)) || !emit(-(base + uint64(d))) {
							return
						}
					}
				}
			}
		}, checkStruct)
}
