// Package c32 checks property C32: protorange.Range visits every populated value exactly once,
// depth first, with balanced and properly nested pushes and pops, each step's value being what the
// step yields when applied to its parent value, Break skipping a subtree and Terminate stopping
// the traversal.
//
// Oracle: a reference traversal built from the protoreflect API alone (Has/Get/Range for extension
// fields/GetUnknown, list and map accessors, the resolver's FindMessageByURL + proto.Unmarshal for
// an Any body) and walked under the same control plan with the control semantics of the package
// documentation as pinned down by /repo/reflect/protorange/range_test.go:
//
//	Break returned at value V  => V's children are not visited (when returned by push), V is popped,
//	                              the remaining siblings of V in the enclosing container (fields and
//	                              unknown step of a message, list elements, map entries) are skipped,
//	                              the enclosing container is popped normally and ITS siblings go on;
//	Terminate                  => only the pending pops follow, Range returns nil;
//	any other error            => like Terminate, and Range returns it.
package c32

import (
	"bytes"
	"errors"
	"fmt"
	"math"
	"reflect"
	"sort"
	"strings"

	"google.golang.org/protobuf/proto"
	"google.golang.org/protobuf/reflect/protopath"
	"google.golang.org/protobuf/reflect/protorange"
	"google.golang.org/protobuf/reflect/protoreflect"
	"google.golang.org/protobuf/reflect/protoregistry"
	"google.golang.org/protobuf/runtime/protoimpl"
	"google.golang.org/protobuf/types/dynamicpb"
	"google.golang.org/protobuf/zverif/corpus"
	"google.golang.org/protobuf/zverif/model"
)

// ---- case --------------------------------------------------------------------------------------

type action struct {
	At int    `json:"at"` // index of the callback invocation (installed callbacks only, pushes and pops counted together)
	Do string `json:"do"` // break | terminate | error
}

type rangeCase struct {
	Type     string     `json:"type"`
	Dynamic  bool       `json:"dynamic,omitempty"` // dynamicpb message of the same descriptor
	M        *model.Msg `json:"m"`
	Stable   bool       `json:"stable"`
	Resolver string     `json:"resolver"`         // default (nil) | global | none | subset
	Subset   []string   `json:"subset,omitempty"` // message types known to the subset resolver
	Mode     string     `json:"mode"`             // both | push | pop  (which callbacks are installed)
	Plan     []action   `json:"plan,omitempty"`
}

type resolver interface {
	protoregistry.ExtensionTypeResolver
	protoregistry.MessageTypeResolver
}

func (c *rangeCase) resolver() (opt resolver, effective resolver) {
	switch c.Resolver {
	case "global":
		return protoregistry.GlobalTypes, protoregistry.GlobalTypes
	case "none":
		return (*protoregistry.Types)(nil), (*protoregistry.Types)(nil)
	case "subset":
		r := new(protoregistry.Types)
		for _, n := range c.Subset {
			if err := r.RegisterMessage(corpus.ByName(n)); err != nil {
				panic(err)
			}
		}
		return r, r
	}
	return nil, protoregistry.GlobalTypes // "If nil, this defaults to using protoregistry.GlobalTypes."
}

func (c *rangeCase) newMessage() (protoreflect.Message, error) {
	mt := corpus.ByName(c.Type)
	var m protoreflect.Message
	if c.Dynamic {
		m = dynamicpb.NewMessage(mt.Descriptor())
	} else {
		m = mt.New()
	}
	if c.M != nil {
		if err := model.Apply(m, c.M, nil); err != nil {
			return nil, fmt.Errorf("harness: %v", err)
		}
	}
	return m, nil
}

// ---- reference tree ------------------------------------------------------------------------------

type node struct {
	label string
	kind  protopath.StepKind
	depth int
	kids  []*node
	order int // position adopted from the observed traversal when the order is undefined
	next  int
}

const anyName = "google.protobuf.Any"

func keyLabel(k protoreflect.MapKey) string {
	switch x := k.Interface().(type) {
	case string:
		return fmt.Sprintf("%q", x)
	default:
		return fmt.Sprintf("%T:%v", x, x)
	}
}

var fieldLabels = map[protoreflect.FieldDescriptor]string{}

func fieldLabel(fd protoreflect.FieldDescriptor) string {
	if l, ok := fieldLabels[fd]; ok {
		return l
	}
	l := fmt.Sprintf(".%s#%d", fd.FullName(), fd.Number())
	fieldLabels[fd] = l
	return l
}

var indexLabels = func() (out [64]string) {
	for i := range out {
		out[i] = fmt.Sprintf("[%d]", i)
	}
	return
}()

func indexLabel(i int) string {
	if i >= 0 && i < len(indexLabels) {
		return indexLabels[i]
	}
	return fmt.Sprintf("[%d]", i)
}

// event is one callback: push or pop, with the labels of the whole path it was given.
type event struct {
	push bool
	path []string
}

func (e event) String() string { return eventLabel(e.push, e.path) }

func (e event) equal(f event) bool {
	if e.push != f.push || len(e.path) != len(f.path) {
		return false
	}
	for i := range e.path {
		if e.path[i] != f.path[i] {
			return false
		}
	}
	return true
}

type refBuilder struct {
	res    resolver
	stable bool
	info   *treeInfo
}

type treeInfo struct {
	nodes, maxDepth                                                    int
	anyExpanded, anyUnresolved, anyBadBody, maps, msgMaps, lists, exts int
	unknown, deepUnknown, nestedAny                                    int
}

func (b *refBuilder) add(parent *node, label string, kind protopath.StepKind) *node {
	n := &node{label: label, kind: kind, order: -1}
	if parent != nil {
		n.depth = parent.depth + 1
		parent.kids = append(parent.kids, n)
	}
	b.info.nodes++
	b.info.maxDepth = max(b.info.maxDepth, n.depth)
	return n
}

// message adds the children of message value m below n.
func (b *refBuilder) message(n *node, m protoreflect.Message, inAny bool) {
	md := m.Descriptor()
	if md.FullName() == anyName {
		url := m.Get(md.Fields().ByNumber(1)).String()
		val := m.Get(md.Fields().ByNumber(2)).Bytes()
		mt, err := b.res.FindMessageByURL(url)
		switch {
		case err != nil:
			b.info.anyUnresolved++
		default:
			body := mt.New()
			if err := (proto.UnmarshalOptions{AllowPartial: true, Resolver: b.res}).Unmarshal(val, body.Interface()); err != nil {
				b.info.anyBadBody++
				break
			}
			b.info.anyExpanded++
			if inAny {
				b.info.nestedAny++
			}
			// "As an exception to the above rule, if the current message is a google.protobuf.Any
			// message, expand the underlying message (if resolvable)."
			k := b.add(n, ".("+string(body.Descriptor().FullName())+")", protopath.AnyExpandStep)
			b.message(k, body, true)
			return
		}
	}
	type pf struct {
		fd protoreflect.FieldDescriptor
		v  protoreflect.Value
	}
	var fields []pf
	fds := md.Fields()
	for i := 0; i < fds.Len(); i++ {
		if fd := fds.Get(i); m.Has(fd) {
			fields = append(fields, pf{fd, m.Get(fd)})
		}
	}
	m.Range(func(fd protoreflect.FieldDescriptor, v protoreflect.Value) bool {
		if fd.IsExtension() {
			fields = append(fields, pf{fd, v})
			b.info.exts++
		}
		return true
	})
	// "Message fields are visited in ascending order by field number."
	sort.SliceStable(fields, func(i, j int) bool { return fields[i].fd.Number() < fields[j].fd.Number() })
	for _, f := range fields {
		k := b.add(n, fieldLabel(f.fd), protopath.FieldAccessStep)
		switch {
		case f.fd.IsMap():
			b.info.maps++
			mp := f.v.Map()
			var keys []protoreflect.MapKey
			mp.Range(func(mk protoreflect.MapKey, _ protoreflect.Value) bool { keys = append(keys, mk); return true })
			sortKeys(f.fd.MapKey().Kind(), keys)
			for _, mk := range keys {
				e := b.add(k, "["+keyLabel(mk)+"]", protopath.MapIndexStep)
				if f.fd.MapValue().Message() != nil {
					b.message(e, mp.Get(mk).Message(), inAny)
				}
			}
			if f.fd.MapValue().Message() != nil {
				b.info.msgMaps++
			}
		case f.fd.IsList():
			b.info.lists++
			l := f.v.List()
			for i := 0; i < l.Len(); i++ {
				e := b.add(k, indexLabel(i), protopath.ListIndexStep)
				if f.fd.Message() != nil {
					b.message(e, l.Get(i).Message(), inAny)
				}
			}
		case f.fd.Message() != nil:
			b.message(k, f.v.Message(), inAny)
		}
	}
	if len(m.GetUnknown()) > 0 {
		u := b.add(n, ".?", protopath.UnknownAccessStep)
		b.info.unknown++
		if u.depth >= 3 {
			b.info.deepUnknown++
		}
	}
}

// sortKeys: "boolean keys are ordered such that false sorts before true, numeric keys are ordered
// based on the numeric value, and string keys are lexicographically ordered by Unicode codepoints"
// (byte order and code point order coincide for UTF-8).
func sortKeys(kind protoreflect.Kind, keys []protoreflect.MapKey) {
	sort.Slice(keys, func(i, j int) bool {
		a, b := keys[i], keys[j]
		switch kind {
		case protoreflect.BoolKind:
			return !a.Bool() && b.Bool()
		case protoreflect.StringKind:
			return a.String() < b.String()
		case protoreflect.Uint32Kind, protoreflect.Uint64Kind, protoreflect.Fixed32Kind, protoreflect.Fixed64Kind:
			return a.Uint() < b.Uint()
		default:
			return a.Int() < b.Int()
		}
	})
}

func buildReference(m protoreflect.Message, res resolver) (*node, *treeInfo) {
	b := &refBuilder{res: res, info: &treeInfo{}}
	root := b.add(nil, "("+string(m.Descriptor().FullName())+")", protopath.RootStep)
	b.message(root, m, false)
	return root, b.info
}

// ---- reference walk under a control plan ------------------------------------------------------------

var errInjected = errors.New("c32: injected error")

type fired struct {
	do      string
	onPush  bool
	depth   int
	skipped int // values that would have been visited next and are not (Break: children + later siblings)
	kind    protopath.StepKind
}

type walker struct {
	plan        map[int]string
	mode        string
	k           int
	events      []event
	terminating bool
	errs        int // injected errors handed out
	fired       []fired
}

func (w *walker) callback(push bool, path []string, n *node) string {
	if push && w.mode == "pop" || !push && w.mode == "push" {
		return ""
	}
	w.events = append(w.events, event{push, append([]string(nil), path...)})
	a := w.plan[w.k]
	w.k++
	if a != "" {
		w.fired = append(w.fired, fired{do: a, onPush: push, depth: n.depth, kind: n.kind})
	}
	if a == "error" {
		w.errs++
	}
	return a
}

func eventLabel(push bool, path []string) string {
	if push {
		return "push " + strings.Join(path, "")
	}
	return "pop  " + strings.Join(path, "")
}

func subtree(n *node) int {
	c := 1
	for _, k := range n.kids {
		c += subtree(k)
	}
	return c
}

// visit walks n; it reports whether the enclosing container stops visiting further children.
func (w *walker) visit(n *node, path []string) (stop bool) {
	path = append(path, n.label)
	descend := true
	switch w.callback(true, path, n) {
	case "break":
		descend, stop = false, true
		if !w.terminating {
			w.fired[len(w.fired)-1].skipped += subtree(n) - 1
		}
	case "terminate", "error":
		w.terminating = true
	}
	if descend && !w.terminating {
		for i, kid := range n.kids {
			if w.visit(kid, path) && !w.terminating {
				for _, rest := range n.kids[i+1:] {
					w.fired[len(w.fired)-1].skipped += subtree(rest)
				}
				break
			}
			if w.terminating {
				break
			}
		}
	}
	switch w.callback(false, path, n) {
	case "break":
		stop = true
	case "terminate", "error":
		w.terminating = true
	}
	return stop
}

func expectedEvents(root *node, c *rangeCase) *walker {
	w := &walker{plan: map[int]string{}, mode: c.Mode}
	for _, a := range c.Plan {
		w.plan[a.At] = a.Do
	}
	w.visit(root, nil)
	return w
}

// ---- the observed traversal ---------------------------------------------------------------------------

func stepLabel(s protopath.Step) string {
	switch s.Kind() {
	case protopath.RootStep:
		return "(" + string(s.MessageDescriptor().FullName()) + ")"
	case protopath.FieldAccessStep:
		return fieldLabel(s.FieldDescriptor())
	case protopath.UnknownAccessStep:
		return ".?"
	case protopath.ListIndexStep:
		return indexLabel(s.ListIndex())
	case protopath.MapIndexStep:
		return "[" + keyLabel(s.MapIndex()) + "]"
	case protopath.AnyExpandStep:
		return ".(" + string(s.MessageDescriptor().FullName()) + ")"
	}
	return fmt.Sprintf("<step kind %d>", s.Kind())
}

type observer struct {
	root     protoreflect.Message
	res      resolver
	plan     map[int]string
	k        int
	events   []event
	paths    [][]string
	bad      error // first violated invariant
	bodiesOK map[protoreflect.Message]bool
	returned []error
	stack    []seen
}

func sameMessage(a, b protoreflect.Message) (same bool) {
	defer func() {
		if recover() != nil {
			same = false
		}
	}()
	if a == b {
		return true
	}
	// messages of the pre-APIv2 generations are wrapped anew by every Get: compare the wrapped value
	x, y := protoimpl.X.ProtoMessageV1Of(a.Interface()), protoimpl.X.ProtoMessageV1Of(b.Interface())
	return x != nil && x == y && reflect.TypeOf(x).Kind() == reflect.Pointer
}

func deepEqual(a, b protoreflect.Message) bool {
	if a.Descriptor().FullName() != b.Descriptor().FullName() {
		return false
	}
	return model.Diff(a.Descriptor(), model.Snapshot(a), model.Snapshot(b), model.EqualOpts{BitwiseFloats: true}, nil) == ""
}

// sameValue: v is the value w (same message / list / map content, same scalar bits).
func sameValue(v, w protoreflect.Value) bool {
	switch x := v.Interface().(type) {
	case protoreflect.Message:
		y, ok := w.Interface().(protoreflect.Message)
		return ok && (sameMessage(x, y) || deepEqual(x, y))
	case protoreflect.List:
		y, ok := w.Interface().(protoreflect.List)
		if !ok || x.Len() != y.Len() {
			return false
		}
		for i := 0; i < x.Len(); i++ {
			if !sameValue(x.Get(i), y.Get(i)) {
				return false
			}
		}
		return true
	case protoreflect.Map:
		y, ok := w.Interface().(protoreflect.Map)
		if !ok || x.Len() != y.Len() {
			return false
		}
		eq := true
		x.Range(func(k protoreflect.MapKey, xv protoreflect.Value) bool {
			eq = y.Has(k) && sameValue(xv, y.Get(k))
			return eq
		})
		return eq
	case []byte:
		y, ok := w.Interface().([]byte)
		return ok && bytes.Equal(x, y)
	case float32:
		y, ok := w.Interface().(float32)
		return ok && math.Float32bits(x) == math.Float32bits(y)
	case float64:
		y, ok := w.Interface().(float64)
		return ok && math.Float64bits(x) == math.Float64bits(y)
	default:
		return v.Interface() == w.Interface()
	}
}

// apply checks that value v is what step s yields when applied to parent value pv.
func (o *observer) apply(s protopath.Step, pv, v protoreflect.Value) error {
	asMessage := func(x protoreflect.Value) (protoreflect.Message, bool) {
		m, ok := x.Interface().(protoreflect.Message)
		return m, ok
	}
	switch s.Kind() {
	case protopath.FieldAccessStep:
		pm, ok := asMessage(pv)
		if !ok {
			return fmt.Errorf("field step below a %T", pv.Interface())
		}
		fd := s.FieldDescriptor()
		if fd == nil || fd.ContainingMessage().FullName() != pm.Descriptor().FullName() {
			return fmt.Errorf("field step %v does not belong to parent message %s", fd, pm.Descriptor().FullName())
		}
		if !pm.Has(fd) {
			return fmt.Errorf("field %s is visited but not populated in its parent", fd.FullName())
		}
		if !sameValue(pm.Get(fd), v) {
			return fmt.Errorf("value of step .%s is not parent.Get(%s)", fd.Name(), fd.Name())
		}
	case protopath.UnknownAccessStep:
		pm, ok := asMessage(pv)
		if !ok {
			return fmt.Errorf("unknown step below a %T", pv.Interface())
		}
		b, ok := v.Interface().([]byte)
		if !ok || len(b) == 0 || !bytes.Equal(b, pm.GetUnknown()) {
			return fmt.Errorf("value of the unknown step (%x) is not the parent's non-empty GetUnknown() (%x)", b, pm.GetUnknown())
		}
	case protopath.ListIndexStep:
		l, ok := pv.Interface().(protoreflect.List)
		if !ok {
			return fmt.Errorf("list step below a %T", pv.Interface())
		}
		i := s.ListIndex()
		if i < 0 || i >= l.Len() {
			return fmt.Errorf("list index %d out of range [0,%d)", i, l.Len())
		}
		if !sameValue(l.Get(i), v) {
			return fmt.Errorf("value of step [%d] is not parent.Get(%d)", i, i)
		}
	case protopath.MapIndexStep:
		mp, ok := pv.Interface().(protoreflect.Map)
		if !ok {
			return fmt.Errorf("map step below a %T", pv.Interface())
		}
		k := s.MapIndex()
		if !mp.Has(k) {
			return fmt.Errorf("map key %s visited but absent from the parent map", keyLabel(k))
		}
		if !sameValue(mp.Get(k), v) {
			return fmt.Errorf("value of step [%s] is not parent.Get(key)", keyLabel(k))
		}
	case protopath.AnyExpandStep:
		pm, ok := asMessage(pv)
		if !ok || pm.Descriptor().FullName() != anyName {
			return fmt.Errorf("any-expand step below something that is not a google.protobuf.Any")
		}
		body, ok := asMessage(v)
		if !ok {
			return fmt.Errorf("value of an any-expand step is a %T", v.Interface())
		}
		if o.bodiesOK[body] {
			return nil
		}
		if s.MessageDescriptor() == nil || s.MessageDescriptor().FullName() != body.Descriptor().FullName() {
			return fmt.Errorf("any-expand step names %v, its value is a %s", s.MessageDescriptor(), body.Descriptor().FullName())
		}
		url := pm.Get(pm.Descriptor().Fields().ByNumber(1)).String()
		if name := url[strings.LastIndexByte(url, '/')+1:]; name != string(body.Descriptor().FullName()) {
			return fmt.Errorf("any-expand value is a %s, the type URL %q names %s", body.Descriptor().FullName(), url, name)
		}
		want := body.New()
		if err := (proto.UnmarshalOptions{AllowPartial: true, Resolver: o.res}).Unmarshal(pm.Get(pm.Descriptor().Fields().ByNumber(2)).Bytes(), want.Interface()); err != nil {
			return fmt.Errorf("any-expand step although the body does not decode: %v", err)
		}
		if !deepEqual(want, body) {
			return fmt.Errorf("value of the any-expand step differs from the decoded Any.value")
		}
		o.bodiesOK[body] = true
	default:
		return fmt.Errorf("unexpected step kind %v below the root", s.Kind())
	}
	return nil
}

func (o *observer) see(push bool, p protopath.Values) error {
	if len(p.Path) != len(p.Values) || len(p.Path) == 0 {
		o.fail(fmt.Errorf("callback got %d steps and %d values", len(p.Path), len(p.Values)))
		return nil
	}
	labels := make([]string, len(p.Path))
	for i, s := range p.Path {
		labels[i] = stepLabel(s)
	}
	ev := event{push, labels}
	o.events = append(o.events, ev)
	o.paths = append(o.paths, labels)
	if o.bad == nil {
		o.verify(push, ev, labels, p)
	}
	a := o.plan[o.k]
	o.k++
	switch a {
	case "break":
		return protorange.Break
	case "terminate":
		return protorange.Terminate
	case "error":
		err := fmt.Errorf("%w #%d", errInjected, len(o.returned))
		o.returned = append(o.returned, err)
		return err
	}
	return nil
}

// verify checks one callback's path and values. The last step is applied to its parent value in
// full; the steps above it must be the very values earlier callbacks showed at the same depth
// (those were verified when they were the last step), so that every step's value is checked
// against its parent once per callback that introduces it. When only pop callbacks are installed
// a parent is seen before it is itself the last step: then the whole chain is applied.
func (o *observer) verify(push bool, ev event, labels []string, p protopath.Values) {
	r := p.Path[0]
	rm, ok := p.Values[0].Interface().(protoreflect.Message)
	switch {
	case r.Kind() != protopath.RootStep || r.MessageDescriptor() == nil || r.MessageDescriptor().FullName() != o.root.Descriptor().FullName():
		o.fail(fmt.Errorf("%s: first step is not Root(%s)", ev, o.root.Descriptor().FullName()))
		return
	case !ok || !sameMessage(rm, o.root):
		o.fail(fmt.Errorf("%s: first value is not the message passed to Range", ev))
		return
	}
	n := len(p.Path)
	for i := 1; i < n; i++ {
		if i < len(o.stack) && o.stack[i].label == labels[i] && identical(o.stack[i-1].v, p.Values[i-1]) && identical(o.stack[i].v, p.Values[i]) {
			continue // verified by the callback that put it on the stack
		}
		if err := o.apply(p.Path[i], p.Values[i-1], p.Values[i]); err != nil {
			o.fail(fmt.Errorf("%s: step %d (%s): %v", ev, i, labels[i], err))
			return
		}
	}
	o.stack = o.stack[:0]
	for i := 0; i < n; i++ {
		o.stack = append(o.stack, seen{label: labels[i], v: p.Values[i]})
	}
	if !push {
		o.stack = o.stack[:n-1]
	}
}

type seen struct {
	label string
	v     protoreflect.Value
}

// identical: the same value object (messages, lists, maps by identity; scalars by bits).
func identical(a, b protoreflect.Value) (same bool) {
	defer func() {
		if recover() != nil {
			same = false
		}
	}()
	switch x := a.Interface().(type) {
	case protoreflect.Message, protoreflect.List, protoreflect.Map:
		return x == b.Interface()
	}
	return sameValue(a, b)
}

func (o *observer) fail(err error) {
	if o.bad == nil {
		o.bad = err
	}
}

// adopt takes the sibling order of the observed traversal over into the reference tree (used when
// the order is undefined); it fails when the traversal visits something the reference does not have.
func adopt(root *node, paths [][]string) error {
	for _, labels := range paths {
		if labels[0] != root.label {
			return fmt.Errorf("first step is %s, want %s", labels[0], root.label)
		}
		cur := root
		for i, l := range labels[1:] {
			var kid *node
			for _, k := range cur.kids {
				if k.label == l {
					kid = k
					break
				}
			}
			if kid == nil {
				return fmt.Errorf("the traversal visits %s, which is not a populated value reachable from the message (no such child of %s)", strings.Join(labels[:i+2], ""), strings.Join(labels[:i+1], ""))
			}
			if kid.order < 0 {
				kid.order = cur.next
				cur.next++
			}
			cur = kid
		}
	}
	var fix func(n *node)
	fix = func(n *node) {
		for _, k := range n.kids {
			if k.order < 0 {
				k.order = math.MaxInt32
			}
			fix(k)
		}
		sort.SliceStable(n.kids, func(i, j int) bool { return n.kids[i].order < n.kids[j].order })
	}
	fix(root)
	return nil
}

// ---- one run ---------------------------------------------------------------------------------------------

type runInfo struct {
	tree   *treeInfo
	fired  []fired
	events int
}

type prepared struct {
	c        *rangeCase
	m        protoreflect.Message
	opt, eff resolver
	root     *node
	info     *treeInfo
	before   []byte
	snap     *model.Msg
}

var detMarshal = proto.MarshalOptions{Deterministic: true, AllowPartial: true}

func prepare(c *rangeCase) (*prepared, error) {
	m, err := c.newMessage()
	if err != nil {
		return nil, err
	}
	p := &prepared{c: c, m: m}
	p.opt, p.eff = c.resolver()
	if p.before, err = detMarshal.Marshal(m.Interface()); err != nil {
		p.before, p.snap = nil, model.Snapshot(m)
	}
	p.root, p.info = buildReference(m, p.eff)
	return p, nil
}

// unchanged: a traversal whose callbacks change nothing leaves the message alone (the bytes of an
// Any.value included).
func (p *prepared) unchanged() error {
	if p.snap != nil {
		if d := model.Diff(p.m.Descriptor(), p.snap, model.Snapshot(p.m), model.EqualOpts{BitwiseFloats: true}, nil); d != "" {
			return fmt.Errorf("message changed by a read-only traversal: %s", d)
		}
		return nil
	}
	after, err := detMarshal.Marshal(p.m.Interface())
	if err != nil || !bytes.Equal(p.before, after) {
		return fmt.Errorf("message changed by a read-only traversal (deterministic encoding before %x, after %x, err %v)", p.before, after, err)
	}
	return nil
}

func resetOrder(n *node) {
	n.order, n.next = -1, 0
	for _, k := range n.kids {
		resetOrder(k)
	}
}

func runOne(c *rangeCase) (*runInfo, error) {
	p, err := prepare(c)
	if err != nil {
		return nil, err
	}
	ri, err := p.run(c.Plan)
	if err != nil {
		return ri, err
	}
	return ri, p.unchanged()
}

func (p *prepared) run(plan []action) (*runInfo, error) {
	c, m, root := *p.c, p.m, p.root
	c.Plan = plan
	ri := &runInfo{tree: p.info}

	obs := &observer{root: m, res: p.eff, plan: map[int]string{}, bodiesOK: map[protoreflect.Message]bool{}}
	for _, a := range c.Plan {
		obs.plan[a.At] = a.Do
	}
	var push, pop func(protopath.Values) error
	if c.Mode != "pop" {
		push = func(p protopath.Values) error { return obs.see(true, p) }
	}
	if c.Mode != "push" {
		pop = func(p protopath.Values) error { return obs.see(false, p) }
	}
	gotErr := protorange.Options{Stable: c.Stable, Resolver: p.opt}.Range(m, push, pop)

	if obs.bad != nil {
		return ri, obs.bad
	}
	if !c.Stable {
		resetOrder(root)
		if err := adopt(root, obs.paths); err != nil {
			return ri, err
		}
	}
	w := expectedEvents(root, &c)
	ri.fired, ri.events = w.fired, len(w.events)
	for i := 0; i < len(w.events) || i < len(obs.events); i++ {
		if i < len(w.events) && i < len(obs.events) && w.events[i].equal(obs.events[i]) {
			continue
		}
		want, got := "<end of traversal>", "<end of traversal>"
		if i < len(w.events) {
			want = w.events[i].String()
		}
		if i < len(obs.events) {
			got = obs.events[i].String()
		}
		ctx := ""
		if i > 0 {
			ctx = fmt.Sprintf(" (after %q)", obs.events[i-1].String())
		}
		return ri, fmt.Errorf("callback %d of the traversal%s:\n  got  %s\n  want %s\n  (reference: %d callbacks, observed: %d; plan %v, stable=%v, mode=%s)", i, ctx, got, want, len(w.events), len(obs.events), c.Plan, c.Stable, c.Mode)
	}
	switch {
	case w.errs == 0 && gotErr != nil:
		return ri, fmt.Errorf("Range returned %v; no callback returned an error other than Break/Terminate", gotErr)
	case w.errs > 0:
		ok := false
		for _, e := range obs.returned {
			ok = ok || gotErr == e
		}
		if !ok {
			return ri, fmt.Errorf("Range returned %v, want the error a callback returned (%v)", gotErr, obs.returned)
		}
	}
	return ri, nil
}
