package c32

import (
	"fmt"
	"testing"

	"google.golang.org/protobuf/reflect/protopath"
	"google.golang.org/protobuf/reflect/protoreflect"
	"google.golang.org/protobuf/zverif/corpus"
	"google.golang.org/protobuf/zverif/gen"
	"google.golang.org/protobuf/zverif/model"
	"google.golang.org/protobuf/zverif/pbt"
	"pgregory.net/rapid"
)

var types, rich = corpus.Standard(), corpus.Rich(20)

// bodyTypes are the types an Any body is drawn from (Article and Any lead to nested expansion).
var bodyTypes = []string{
	"google.golang.org.KeyValueAttachment", "google.golang.org.BinaryAttachment", "google.golang.org.Article",
	"goproto.proto.test.TestAllTypes", "goproto.proto.test3.TestAllTypes", "opaque.goproto.proto.testeditions.TestAllTypes",
	"goproto.proto.test.TestAllExtensions", "google.protobuf.Any", "google.protobuf.Struct", "google.protobuf.Timestamp",
	"google.protobuf.StringValue", "google.protobuf.Empty", "pb2.KnownTypes",
}

// anyTypes: linked types from which a google.protobuf.Any field is reachable within two levels.
var anyTypes = func() []string {
	var reach func(md protoreflect.MessageDescriptor, depth int) bool
	reach = func(md protoreflect.MessageDescriptor, depth int) bool {
		if md.FullName() == anyName {
			return true
		}
		if depth == 0 {
			return false
		}
		fs := md.Fields()
		for i := 0; i < fs.Len(); i++ {
			sub := fs.Get(i).Message()
			if fs.Get(i).IsMap() {
				sub = fs.Get(i).MapValue().Message()
			}
			if sub != nil && reach(sub, depth-1) {
				return true
			}
		}
		return false
	}
	var out []string
	for _, n := range types {
		if reach(corpus.ByName(n).Descriptor(), 2) {
			out = append(out, n)
		}
	}
	for _, n := range bodyTypes {
		corpus.ByName(n) // panics on a wrong constant
	}
	return out
}()

// mapTypes: types with a map whose values are messages.
var mapTypes = func() (out []string) {
	for _, n := range types {
		fs := corpus.ByName(n).Descriptor().Fields()
		for i := 0; i < fs.Len(); i++ {
			if fs.Get(i).IsMap() && fs.Get(i).MapValue().Message() != nil {
				out = append(out, n)
				break
			}
		}
	}
	return out
}()

type anyEnv struct {
	opts  gen.MsgOpts
	depth int // Any-in-Any nesting budget
}

// drawAny draws the content of a google.protobuf.Any: resolvable or not, with a body that decodes or not.
func drawAny(t *rapid.T, env anyEnv) *model.Msg {
	kind := rapid.IntRange(0, 11).Draw(t, "anykind")
	if kind == 0 {
		return &model.Msg{}
	}
	name := rapid.SampledFrom(bodyTypes).Draw(t, "bodytype")
	if env.depth <= 0 && name == anyName {
		name = "google.golang.org.KeyValueAttachment"
	}
	url := "type.googleapis.com/" + name
	switch kind {
	case 1:
		url = rapid.SampledFrom([]string{"type.googleapis.com/no.such.Type", "no.such.Type", "type.googleapis.com/", "/", name + "/", "type.googleapis.com/" + name + "x", "."}).Draw(t, "badurl")
	case 2:
		url = name // FindMessageByURL: everything up to the last '/' is ignored; none is fine
	case 3:
		url = "https://example.org/a/b/" + name
	case 4:
		url = "/" + name
	}
	md := corpus.ByName(name).Descriptor()
	o := env.opts
	o.Depth = min(o.Depth, 2)
	body := gen.DrawMessage(t, md, o)
	sub := env
	sub.depth--
	if sub.depth >= 0 && rapid.Bool().Draw(t, "nest") {
		force(t, md, body, isAnyField, func(protoreflect.MessageDescriptor) *model.Msg { return &model.Msg{} })
	}
	fixAny(t, md, body, sub)
	var val []byte
	if kind == 5 {
		val = rapid.SampledFrom([][]byte{{0xff}, {0x08}, {0x0a, 0x05, 'x'}, {0x0b}, {0x00, 0x00}}).Draw(t, "badbody")
	} else {
		val = model.Encode(md, body, gen.RapidChooser{T: t}, model.AllPerturbations, nil)
	}
	out := &model.Msg{Fields: []model.Field{{Num: 1, Vals: []model.Val{{B: []byte(url)}}}}}
	if len(val) > 0 {
		out.Fields = append(out.Fields, model.Field{Num: 2, Vals: []model.Val{{B: val}}})
	}
	return out
}

// fixAny replaces the content of every google.protobuf.Any below m (a value of md) by drawAny's.
func fixAny(t *rapid.T, md protoreflect.MessageDescriptor, m *model.Msg, env anyEnv) {
	if m == nil {
		return
	}
	for i := range m.Fields {
		f := &m.Fields[i]
		fd := model.FieldDesc(md, f.Num, nil)
		if fd == nil {
			continue
		}
		sub := fd.Message()
		if fd.IsMap() {
			sub = fd.MapValue().Message()
		}
		if sub == nil {
			continue
		}
		for j := range f.Vals {
			if sub.FullName() == anyName {
				unk := []byte(nil)
				if f.Vals[j].M != nil && rapid.Bool().Draw(t, "keepunknown") {
					unk = f.Vals[j].M.Unknown
				}
				f.Vals[j].M = drawAny(t, env)
				f.Vals[j].M.Unknown = unk
			} else {
				fixAny(t, sub, f.Vals[j].M, env)
			}
		}
	}
}

// force populates one more field of m (a value of md) among those pick accepts: a singular value,
// 1-3 list elements or 1-3 map entries whose message values come from val.
func force(t *rapid.T, md protoreflect.MessageDescriptor, m *model.Msg, pick func(protoreflect.FieldDescriptor) bool, val func(protoreflect.MessageDescriptor) *model.Msg) {
	var cands []protoreflect.FieldDescriptor
	fs := md.Fields()
	for i := 0; i < fs.Len(); i++ {
		fd := fs.Get(i)
		if !pick(fd) || m.Get(int32(fd.Number())) != nil {
			continue
		}
		if od := fd.ContainingOneof(); od != nil {
			taken := false
			for j := 0; j < od.Fields().Len(); j++ {
				taken = taken || m.Get(int32(od.Fields().Get(j).Number())) != nil
			}
			if taken {
				continue
			}
		}
		cands = append(cands, fd)
	}
	if len(cands) == 0 {
		return
	}
	fd := cands[rapid.IntRange(0, len(cands)-1).Draw(t, "forced")]
	f := model.Field{Num: int32(fd.Number())}
	switch {
	case fd.IsMap():
		var keys []model.Val
		switch fd.MapKey().Kind() {
		case protoreflect.BoolKind:
			keys = []model.Val{{}, {U: 1}}
		case protoreflect.StringKind:
			keys = []model.Val{{B: []byte("")}, {B: []byte("a")}, {B: []byte("b")}, {B: []byte("zz")}, {B: []byte("é")}, {B: []byte("Z")}}
		case protoreflect.Int32Kind, protoreflect.Sint32Kind, protoreflect.Sfixed32Kind, protoreflect.Int64Kind, protoreflect.Sint64Kind, protoreflect.Sfixed64Kind:
			keys = []model.Val{{}, {U: 1}, {U: 2}, {U: ^uint64(0)}, {U: 1 << 20}, {U: uint64(1<<64 - 1<<31)}}
		default:
			keys = []model.Val{{}, {U: 1}, {U: 2}, {U: 1<<32 - 1}, {U: 300}}
		}
		n := rapid.IntRange(1, min(3, len(keys))).Draw(t, "forcedlen")
		off := rapid.IntRange(0, len(keys)-1).Draw(t, "forcedkey")
		for i := 0; i < n; i++ {
			f.Keys = append(f.Keys, keys[(off+i*5)%len(keys)])
			f.Vals = append(f.Vals, model.Val{M: val(fd.MapValue().Message())})
		}
		// keys must be distinct
		seen := map[string]bool{}
		kk, vv := f.Keys[:0:0], f.Vals[:0:0]
		for i, k := range f.Keys {
			id := fmt.Sprintf("%d|%s", k.U, k.B)
			if !seen[id] {
				seen[id] = true
				kk, vv = append(kk, k), append(vv, f.Vals[i])
			}
		}
		f.Keys, f.Vals = kk, vv
	case fd.IsList():
		for i, n := 0, rapid.IntRange(1, 3).Draw(t, "forcedlen"); i < n; i++ {
			f.Vals = append(f.Vals, model.Val{M: val(fd.Message())})
		}
	default:
		f.Vals = []model.Val{{M: val(fd.Message())}}
	}
	m.Fields = append(m.Fields, f)
}

func isAnyField(fd protoreflect.FieldDescriptor) bool {
	if fd.IsMap() {
		fd = fd.MapValue()
	}
	return fd.Message() != nil && fd.Message().FullName() == anyName
}

func isMsgMap(fd protoreflect.FieldDescriptor) bool {
	return fd.IsMap() && fd.MapValue().Message() != nil && fd.MapValue().Message().FullName() != anyName
}

func drawMessageCase(t *rapid.T, small bool) rangeCase {
	c := rangeCase{Mode: "both"}
	pool := rapid.IntRange(0, 9).Draw(t, "pool")
	switch {
	case pool <= 2:
		c.Type = rapid.SampledFrom(anyTypes).Draw(t, "type")
	case pool <= 4:
		c.Type = rapid.SampledFrom(mapTypes).Draw(t, "type")
	case pool <= 8:
		c.Type = rapid.SampledFrom(rich).Draw(t, "type")
	default:
		c.Type = rapid.SampledFrom(types).Draw(t, "type")
	}
	c.Dynamic = rapid.IntRange(0, 4).Draw(t, "dyn") == 0
	c.Stable = rapid.IntRange(0, 3).Draw(t, "stable") > 0
	c.Resolver = rapid.SampledFrom([]string{"default", "default", "default", "global", "none", "subset"}).Draw(t, "resolver")
	if c.Resolver == "subset" {
		for _, n := range bodyTypes {
			if rapid.IntRange(0, 3).Draw(t, "known") > 0 {
				c.Subset = append(c.Subset, n)
			}
		}
	}
	switch rapid.IntRange(0, 9).Draw(t, "mode") {
	case 0:
		c.Mode = "push"
	case 1:
		c.Mode = "pop"
	}
	md := corpus.ByName(c.Type).Descriptor()
	o := gen.DefaultMsgOpts
	o.MaxFields = 9
	o.FillRequired = false // initialisation is irrelevant to a traversal (Any bodies are decoded with AllowPartial)
	if small {
		o.Depth, o.MaxFields, o.MaxList, o.MaxBytes = 2, 4, 2, 12
	}
	// extension fields inside an Any body are resolved by Options.Resolver: only generate them when
	// that resolver knows them
	o.Extensions = c.Resolver == "default" || c.Resolver == "global"
	env := anyEnv{opts: o, depth: 2}
	if small {
		env.depth = 1
	}
	if md.FullName() == anyName {
		c.M = drawAny(t, env)
		return c
	}
	ro := o
	ro.Extensions = true
	c.M = gen.DrawMessage(t, md, ro)
	so := ro
	so.Depth--
	so.MaxFields = so.MaxFields*2/3 + 1
	if pool <= 2 {
		// an Any one level down: below a message field of the root, or the root's own
		force(t, md, c.M, isAnyField, func(protoreflect.MessageDescriptor) *model.Msg { return &model.Msg{} })
	}
	if pool == 3 || pool == 4 {
		force(t, md, c.M, isMsgMap, func(sub protoreflect.MessageDescriptor) *model.Msg { return gen.DrawMessage(t, sub, so) })
	}
	fixAny(t, md, c.M, env)
	return c
}

// callbacksOf runs the reference alone to learn how many callbacks an uncontrolled traversal makes
// and which of them happen at depth >= 2.
func callbacksOf(c *rangeCase) (n int, deep []int) {
	m, err := c.newMessage()
	if err != nil {
		panic(err)
	}
	_, eff := c.resolver()
	root, _ := buildReference(m, eff)
	plain := *c
	plain.Plan = nil
	evs := expectedEvents(root, &plain).events
	for i, e := range evs {
		if len(e.path) > 2 {
			deep = append(deep, i)
		}
	}
	return len(evs), deep
}

var doPool = []string{"break", "break", "break", "terminate", "error"}

func drawRange(t *rapid.T) rangeCase {
	c := drawMessageCase(t, false)
	n, deep := callbacksOf(&c)
	for i, k := 0, rapid.IntRange(0, 3).Draw(t, "nactions"); i < k && n > 0; i++ {
		a := action{Do: rapid.SampledFrom(doPool).Draw(t, "do")}
		if len(deep) > 0 && rapid.IntRange(0, 2).Draw(t, "deep") > 0 {
			a.At = deep[rapid.IntRange(0, len(deep)-1).Draw(t, "at")]
		} else {
			a.At = rapid.IntRange(0, n-1).Draw(t, "at")
		}
		c.Plan = append(c.Plan, a)
	}
	return c
}

var last *runInfo

func checkRange(c rangeCase) error {
	ri, err := runOne(&c)
	last = ri
	return err
}

func interesting(ri *runInfo) bool {
	if ri == nil || ri.tree == nil {
		return false
	}
	deep := false
	for _, f := range ri.fired {
		deep = deep || f.depth >= 2
	}
	return ri.tree.nodes >= 10 && (ri.tree.maps > 0 || ri.tree.anyExpanded > 0) && deep
}

func classesOf(c rangeCase, ri *runInfo) []string {
	out := []string{"resolver-" + c.Resolver, "callbacks-" + c.Mode}
	if c.Stable {
		out = append(out, "stable")
	} else {
		out = append(out, "unstable")
	}
	if c.Dynamic {
		out = append(out, "dynamicpb")
	}
	if ri == nil || ri.tree == nil {
		return out
	}
	ti := ri.tree
	flag := func(n int, name string) {
		if n > 0 {
			out = append(out, name)
		}
	}
	flag(ti.anyExpanded, "any-expanded")
	flag(ti.nestedAny, "any-inside-any")
	flag(ti.anyUnresolved, "any-unresolvable")
	flag(ti.anyBadBody, "any-body-does-not-decode")
	flag(ti.maps, "map")
	flag(ti.msgMaps, "map-of-messages")
	flag(ti.lists, "list")
	flag(ti.exts, "extension")
	flag(ti.unknown, "unknown-step")
	flag(ti.deepUnknown, "unknown-step-depth>=3")
	switch {
	case ti.nodes < 10:
		out = append(out, "values<10")
	case ti.nodes < 50:
		out = append(out, "values-10..49")
	default:
		out = append(out, "values>=50")
	}
	for _, f := range ri.fired {
		where := "pop"
		if f.onPush {
			where = "push"
		}
		out = append(out, f.do+"@"+where)
		if f.do == "break" && f.skipped > 0 {
			out = append(out, "break-skips-values")
		}
		if f.depth >= 2 {
			out = append(out, "control-at-depth>=2")
		}
		if f.kind == protopath.AnyExpandStep || f.kind == protopath.RootStep {
			out = append(out, "control-at-"+f.kind.String())
		}
	}
	if len(c.Plan) > 0 && len(ri.fired) == 0 {
		out = append(out, "plan-never-reached")
	}
	// dedupe
	seen := map[string]bool{}
	var uniq []string
	for _, s := range out {
		if !seen[s] {
			seen[s] = true
			uniq = append(uniq, s)
		}
	}
	return uniq
}

func TestRange(t *testing.T) {
	pbt.Run(t, pbt.Prop[rangeCase]{
		Name:       "range",
		Rule:       "message of any linked type (40% types that reach a google.protobuf.Any, 20% types with maps of messages; generated or dynamicpb) from the descriptor-directed generator (maps, lists, oneofs, groups, extensions, unknown fields at every level); every Any below it redrawn: empty / unresolvable URL / bare name / URL with several slashes / body that does not decode / body = perturbed reference encoding of a drawn message (Any and Article bodies nest further); Stable on (75%) or off; Resolver nil, GlobalTypes, none, or a drawn subset of the body types; callbacks both/push only/pop only; control plan of 0-3 actions (Break x3, Terminate, custom error) at drawn callback indexes of the uncontrolled traversal. non-trivial = >= 10 values incl. a map or an expanded Any, and a control action that fired at depth >= 2",
		Draw:       drawRange,
		Check:      checkRange,
		NonTrivial: func(c rangeCase) bool { return interesting(last) },
		Classes:    func(c rangeCase) []string { return classesOf(c, last) },
		Quick:      30000, Thorough: 250000,
	})
}

// ---- every position x every action on small messages ---------------------------------------------

var lastAll struct {
	runs, deepRuns int
	tree           *treeInfo
}

func checkControlAll(c rangeCase) error {
	lastAll.runs, lastAll.deepRuns, lastAll.tree = 0, 0, nil
	p, err := prepare(&c)
	if err != nil {
		return err
	}
	ri, err := p.run(nil)
	if err != nil {
		return err
	}
	lastAll.tree = ri.tree
	n := ri.events
	for at := 0; at < n; at++ {
		for _, do := range []string{"break", "terminate", "error"} {
			r, err := p.run([]action{{At: at, Do: do}})
			if err != nil {
				return fmt.Errorf("%s at callback %d of %d: %v", do, at, n, err)
			}
			if len(r.fired) != 1 {
				return fmt.Errorf("harness: %s at callback %d of %d did not fire", do, at, n)
			}
			lastAll.runs++
			if r.fired[0].depth >= 2 {
				lastAll.deepRuns++
			}
		}
	}
	return p.unchanged()
}

func TestControlAll(t *testing.T) {
	pbt.Run(t, pbt.Prop[rangeCase]{
		Name:  "control-all",
		Rule:  "small messages (depth 2, <= 3 fields per message, <= 2 elements, Any bodies nested once) drawn as in 'range'; the uncontrolled traversal, then Break, Terminate and a custom error injected at EVERY callback index (push and pop) one at a time; non-trivial = >= 6 values incl. a map, list or expanded Any",
		Draw:  func(t *rapid.T) rangeCase { return drawMessageCase(t, true) },
		Check: checkControlAll,
		NonTrivial: func(c rangeCase) bool {
			ti := lastAll.tree
			return ti != nil && ti.nodes >= 6 && (ti.maps > 0 || ti.lists > 0 || ti.anyExpanded > 0)
		},
		Classes: func(c rangeCase) []string {
			out := classesOf(c, &runInfo{tree: lastAll.tree})
			if lastAll.deepRuns > 0 {
				out = append(out, "control-at-depth>=2")
			}
			return out
		},
		Quick: 3000, Thorough: 20000,
	})
}
