package c07

import (
	"fmt"
	"testing"

	"google.golang.org/protobuf/proto"
	"google.golang.org/protobuf/reflect/protoreflect"
	"google.golang.org/protobuf/zverif/corpus"
	"google.golang.org/protobuf/zverif/gen"
	"google.golang.org/protobuf/zverif/mcase"
	"google.golang.org/protobuf/zverif/model"
	"google.golang.org/protobuf/zverif/pbt"
	"pgregory.net/rapid"
)

type mergeCase struct {
	mcase.Case            // a (M, Wire)
	B          *model.Msg // b
	WireB      []byte
	LabelsB    []string
	Lazy       bool
}

var eq = model.EqualOpts{BitwiseFloats: true}

var lazyTypes = corpus.LazyCapable()

func checkMerge(c mergeCase) error {
	md := c.Desc()
	want := model.Merge(md, c.M, c.B, nil)
	build := func(v *model.Msg) (protoreflect.Message, error) {
		m := mcase.New(c.Type, c.Dynamic)
		return m, model.Apply(m, v, nil)
	}
	a, err := build(c.M)
	if err != nil {
		return err
	}
	b, err := build(c.B)
	if err != nil {
		return err
	}
	mo := proto.MarshalOptions{AllowPartial: true}
	uo := proto.UnmarshalOptions{AllowPartial: true, NoLazyDecoding: !c.Lazy}
	ba, err := mo.Marshal(a.Interface())
	if err != nil {
		return err
	}
	bb, err := mo.Marshal(b.Interface())
	if err != nil {
		return err
	}
	bBefore := model.Snapshot(b)

	// (1) proto.Merge
	proto.Merge(a.Interface(), b.Interface())
	if d := model.Diff(md, want, model.Snapshot(a), eq, nil); d != "" {
		return fmt.Errorf("proto.Merge(a, b) differs from the model merge: %s", d)
	}
	if d := model.Diff(md, bBefore, model.Snapshot(b), eq, nil); d != "" {
		return fmt.Errorf("proto.Merge modified its source: %s", d)
	}
	// (2) decode of the concatenation
	m2 := mcase.New(c.Type, c.Dynamic)
	if err := uo.Unmarshal(append(append([]byte(nil), ba...), bb...), m2.Interface()); err != nil {
		return fmt.Errorf("Unmarshal(Marshal(a)||Marshal(b)) failed: %v", err)
	}
	if d := model.Diff(md, want, model.Snapshot(m2), eq, nil); d != "" {
		return fmt.Errorf("Unmarshal(Marshal(a)||Marshal(b)) differs from the model merge: %s", d)
	}
	if !proto.Equal(a.Interface(), m2.Interface()) {
		return fmt.Errorf("proto.Merge(a,b) is not proto.Equal to Unmarshal(Marshal(a)||Marshal(b))")
	}
	// (3) decode a, then Merge-decode b
	m3 := mcase.New(c.Type, c.Dynamic)
	if err := uo.Unmarshal(ba, m3.Interface()); err != nil {
		return err
	}
	uom := uo
	uom.Merge = true
	if err := uom.Unmarshal(bb, m3.Interface()); err != nil {
		return fmt.Errorf("UnmarshalOptions{Merge:true} failed: %v", err)
	}
	if d := model.Diff(md, want, model.Snapshot(m3), eq, nil); d != "" {
		return fmt.Errorf("Unmarshal(a) then Merge-Unmarshal(b) differs from the model merge: %s", d)
	}
	// (4) concatenated perturbed reference encodings x||y
	m4 := mcase.New(c.Type, c.Dynamic)
	if err := uo.Unmarshal(append(append([]byte(nil), c.Wire...), c.WireB...), m4.Interface()); err != nil {
		return fmt.Errorf("Unmarshal(x||y) of reference encodings failed: %v", err)
	}
	if d := model.Diff(md, want, model.Snapshot(m4), eq, nil); d != "" {
		return fmt.Errorf("Unmarshal(x||y) (x %v, y %v) differs from Merge(Unmarshal x, Unmarshal y): %s", c.Labels, c.LabelsB, d)
	}
	// (6) destination obtained by (lazy) decoding and not touched before the Merge
	d6 := mcase.New(c.Type, c.Dynamic)
	if err := uo.Unmarshal(c.Wire, d6.Interface()); err != nil {
		return fmt.Errorf("Unmarshal(x) failed: %v", err)
	}
	s6 := mcase.New(c.Type, c.Dynamic)
	if err := uo.Unmarshal(c.WireB, s6.Interface()); err != nil {
		return fmt.Errorf("Unmarshal(y) failed: %v", err)
	}
	proto.Merge(d6.Interface(), s6.Interface())
	if d := model.Diff(md, want, model.Snapshot(d6), eq, nil); d != "" {
		return fmt.Errorf("Merge(Unmarshal(x), Unmarshal(y)) (lazy=%v, destination untouched before the merge) differs from the model merge: %s", c.Lazy, d)
	}
	// (5) merging into an empty message is a copy
	e := mcase.New(c.Type, c.Dynamic)
	proto.Merge(e.Interface(), b.Interface())
	if d := model.Diff(md, c.B, model.Snapshot(e), eq, nil); d != "" {
		return fmt.Errorf("Merge(empty, b) differs from b: %s", d)
	}
	return nil
}

// collisions counts fields populated in both a and b (recursively), and map-key / oneof collisions.
func collisions(md protoreflect.MessageDescriptor, a, b *model.Msg, depth int, out map[string]int) {
	if a == nil || b == nil {
		return
	}
	for _, fa := range a.Fields {
		fd := model.FieldDesc(md, fa.Num, nil)
		if fd == nil {
			continue
		}
		fb := b.Get(fa.Num)
		if fb == nil {
			if od := fd.ContainingOneof(); od != nil {
				for i := 0; i < od.Fields().Len(); i++ {
					if b.Get(int32(od.Fields().Get(i).Number())) != nil {
						out["oneof-switch"]++
					}
				}
			}
			continue
		}
		switch {
		case fd.IsMap():
			for _, ka := range fa.Keys {
				for _, kb := range fb.Keys {
					if ka.U == kb.U && string(ka.B) == string(kb.B) {
						out["map-key"]++
					}
				}
			}
		case fd.IsList():
			out["list"]++
		case fd.Message() != nil:
			out[fmt.Sprintf("message-depth%d", depth)]++
			collisions(fd.Message(), fa.Vals[0].M, fb.Vals[0].M, depth+1, out)
		default:
			out["scalar"]++
		}
	}
	if len(a.Unknown) > 0 && len(b.Unknown) > 0 {
		out["unknown"]++
	}
}

func TestMerge(t *testing.T) {
	pbt.Run(t, pbt.Prop[mergeCase]{
		Name: "merge",
		Rule: "a from the descriptor-directed generator over all linked types (generated or dynamicpb); b = small independent draw plus, for each field of a with probability 1/2, the same field with a fresh value (recursively in singular submessages; maps with the same keys half of the time; oneofs switched). non-trivial = a and b share >= 1 populated singular field and >= 1 map key, list, oneof switch or nested message collision",
		Draw: func(t *rapid.T) mergeCase {
			var c mergeCase
			if len(lazyTypes) > 0 && rapid.IntRange(0, 3).Draw(t, "lazytype") == 0 {
				c = mergeCase{Case: mcase.Draw(t, lazyTypes, lazyTypes, gen.DefaultMsgOpts, model.AllPerturbations), Lazy: rapid.IntRange(0, 3).Draw(t, "lazy") > 0}
				c.Dynamic = false
			} else {
				c = mergeCase{Case: mcase.Draw(t, nil, nil, gen.DefaultMsgOpts, model.AllPerturbations), Lazy: rapid.Bool().Draw(t, "lazy")}
			}
			md := c.Desc()
			c.B = gen.DrawColliding(t, md, c.M, gen.DefaultMsgOpts)
			o := model.AllPerturbations
			o.Labels = &c.LabelsB
			c.WireB = model.Encode(md, c.B, gen.RapidChooser{T: t}, o, nil)
			return c
		},
		Check: checkMerge,
		NonTrivial: func(c mergeCase) bool {
			col := map[string]int{}
			collisions(c.Desc(), c.M, c.B, 1, col)
			other := 0
			for k, n := range col {
				if k != "scalar" {
					other += n
				}
			}
			return col["scalar"]+col["message-depth1"] >= 1 && other >= 1
		},
		Classes: func(c mergeCase) []string {
			col := map[string]int{}
			collisions(c.Desc(), c.M, c.B, 1, col)
			var cl []string
			for k := range col {
				cl = append(cl, "collide-"+k)
			}
			if c.Dynamic {
				cl = append(cl, "dynamicpb")
			}
			return cl
		},
		Quick: 10000, Thorough: 300000,
	})
}

// regression witness for the fixed -0.0 merge defect
func TestNegZeroWitness(t *testing.T) {
	name := "goproto.proto.test3.TestAllTypes"
	md := mcase.Desc(name)
	for _, fn := range []string{"singular_float", "singular_double"} {
		fd := md.Fields().ByName(protoreflect.Name(fn))
		v := model.Val{U: 0x80000000}
		if fn == "singular_double" {
			v = model.Val{U: 0x8000000000000000}
		}
		src := mcase.New(name, false)
		model.Apply(src, &model.Msg{Fields: []model.Field{{Num: int32(fd.Number()), Vals: []model.Val{v}}}}, nil)
		cl := proto.Clone(src.Interface())
		pbt.Witness(t, "KF-merge-negzero", !proto.Equal(src.Interface(), cl) || !cl.ProtoReflect().Has(fd), "Clone drops -0.0 of test3.TestAllTypes."+fn)
	}
}
