package c22

import (
	"math"
	"math/big"
	"strings"
	"testing"

	"google.golang.org/protobuf/encoding/protojson"
	testpb "google.golang.org/protobuf/internal/testprotos/test"
	"google.golang.org/protobuf/zverif/pbt"
)

// Fixed witnesses of the known deviations: replayed on every run.
func TestKnownFindings(t *testing.T) {
	if pbt.ReplayPath != "" {
		t.Skip()
	}
	// 1. exponent marker without digits
	{
		m := &testpb.TestAllTypes{}
		err := protojson.Unmarshal([]byte(`{"optional_int32":1e}`), m)
		pbt.Witness(t, "KF-json-exp-nodigits", err == nil, `{"optional_int32":1e} is accepted (decoded `+scalarString(m.ProtoReflect().Get(allTypesMD.Fields().ByName("optional_int32")))+`)`)
	}
	// 2. representable integer refused because of (integer digits + exponent) > 20
	{
		m := &testpb.TestAllTypes{}
		err := protojson.Unmarshal([]byte(`{"optional_int32":0.000000000000000000001e21}`), m)
		pbt.Witness(t, "KF-json-int-frac-exp-digits", err != nil, `{"optional_int32":0.000000000000000000001e21} (= 1) is rejected`)
	}
	// 3. float literal with an integer part of 801 digits: (1 + 2^-53)(1 + 10^-800) must round up to 1 + 2^-52
	{
		n := new(big.Int).Add(pow2(53), big.NewInt(1))
		n.Mul(n, new(big.Int).Exp(big.NewInt(5), big.NewInt(53), nil))
		lit := n.String()
		lit += strings.Repeat("0", 800-len(lit)) + "1e-800"
		m := &testpb.TestAllTypes{}
		err := protojson.Unmarshal([]byte(`{"optional_double":`+lit+`}`), m)
		want := math.Float64frombits(0x3ff0000000000001)
		pbt.Witness(t, "KF-json-float-long-integer-part", err != nil || m.GetOptionalDouble() != want,
			`optional_double = <801-digit integer mantissa of (1+2^-53)(1+1e-800)>e-800 decodes to `+scalarStringOrAbsent(m.ProtoReflect().Get(allTypesMD.Fields().ByName("optional_double")))+`, correctly rounded 1.0000000000000002`)
	}
}
