package c22

// The oracle for JSON numeric literals: a strict recogniser of the RFC 8259 number grammar
// written from the grammar (not from /repo), the exact value as (sign, N, e10) with
// value = ±N·10^e10 held in math/big, and the verdict per protobuf scalar kind:
// integer kinds accept iff grammatical ∧ integral ∧ in range; float kinds accept iff
// grammatical ∧ the nearest-even rounded value (big.Rat.Float32/Float64) is finite.

import (
	"encoding/json"
	"math"
	"math/big"
	"strings"
)

// numLit is a literal split by the grammar
//
//	number = [ "-" ] int [ "." 1*DIGIT ] [ ("e"/"E") [ "+"/"-" ] 1*DIGIT ]      int = "0" / ( %x31-39 *DIGIT )
type numLit struct {
	Neg       bool
	Int, Frac string
	HasExp    bool
	ExpNeg    bool
	ExpDigits string
}

func isDigit(c byte) bool { return c >= '0' && c <= '9' }

// parseJSONNumber recognises exactly the JSON number grammar over the whole string.
func parseJSONNumber(s string) (numLit, bool) {
	var l numLit
	i := 0
	if i < len(s) && s[i] == '-' {
		l.Neg = true
		i++
	}
	st := i
	switch {
	case i < len(s) && s[i] == '0':
		i++
	case i < len(s) && s[i] >= '1' && s[i] <= '9':
		for i < len(s) && isDigit(s[i]) {
			i++
		}
	default:
		return l, false
	}
	l.Int = s[st:i]
	if i < len(s) && s[i] == '.' {
		i++
		st = i
		for i < len(s) && isDigit(s[i]) {
			i++
		}
		if i == st {
			return l, false
		}
		l.Frac = s[st:i]
	}
	if i < len(s) && (s[i] == 'e' || s[i] == 'E') {
		l.HasExp = true
		i++
		if i < len(s) && (s[i] == '+' || s[i] == '-') {
			l.ExpNeg = s[i] == '-'
			i++
		}
		st = i
		for i < len(s) && isDigit(s[i]) {
			i++
		}
		if i == st {
			return l, false
		}
		l.ExpDigits = s[st:i]
	}
	return l, i == len(s)
}

// decimal is the exact value ±N·10^E with N ≥ 0 and, after norm, N not divisible by ten (or N = 0, E = 0).
type decimal struct {
	Neg bool
	N   *big.Int
	E   *big.Int
}

var (
	bigTen  = big.NewInt(10)
	bigZero = big.NewInt(0)
)

func (l numLit) value() decimal {
	n, _ := new(big.Int).SetString(l.Int+l.Frac, 10)
	e := new(big.Int)
	if l.HasExp {
		e.SetString(l.ExpDigits, 10)
		if l.ExpNeg {
			e.Neg(e)
		}
	}
	e.Sub(e, big.NewInt(int64(len(l.Frac))))
	d := decimal{Neg: l.Neg, N: n, E: e}
	return d.norm()
}

func (d decimal) norm() decimal {
	if d.N.Sign() == 0 {
		return decimal{Neg: d.Neg, N: new(big.Int), E: new(big.Int)}
	}
	n, e := new(big.Int).Set(d.N), new(big.Int).Set(d.E)
	q, r := new(big.Int), new(big.Int)
	for {
		q.QuoRem(n, bigTen, r)
		if r.Sign() != 0 {
			break
		}
		n.Set(q)
		e.Add(e, big.NewInt(1))
	}
	return decimal{Neg: d.Neg, N: n, E: e}
}

// integer returns the exact integer value; integral=false when the value has a fractional part;
// huge=true when it is an integer of more than 60 digits (outside every protobuf integer type).
func (d decimal) integer() (v *big.Int, integral, huge bool) {
	if d.N.Sign() == 0 {
		return new(big.Int), true, false
	}
	if d.E.Sign() < 0 {
		return nil, false, false
	}
	if d.E.Cmp(big.NewInt(60)) > 0 {
		return nil, true, true
	}
	v = new(big.Int).Exp(bigTen, d.E, nil)
	v.Mul(v, d.N)
	if d.Neg {
		v.Neg(v)
	}
	return v, true, false
}

type intRange struct{ lo, hi *big.Int }

func pow2(k uint) *big.Int { return new(big.Int).Lsh(big.NewInt(1), k) }

var (
	rangeInt32  = intRange{new(big.Int).Neg(pow2(31)), new(big.Int).Sub(pow2(31), big.NewInt(1))}
	rangeInt64  = intRange{new(big.Int).Neg(pow2(63)), new(big.Int).Sub(pow2(63), big.NewInt(1))}
	rangeUint32 = intRange{new(big.Int), new(big.Int).Sub(pow2(32), big.NewInt(1))}
	rangeUint64 = intRange{new(big.Int), new(big.Int).Sub(pow2(64), big.NewInt(1))}
)

// intVerdict: accept iff integral and lo ≤ v ≤ hi.
func (d decimal) intVerdict(r intRange) (v *big.Int, accept bool, why string) {
	v, integral, huge := d.integer()
	switch {
	case !integral:
		return nil, false, "non-integral"
	case huge:
		return nil, false, "out-of-range"
	case v.Cmp(r.lo) < 0 || v.Cmp(r.hi) > 0:
		return nil, false, "out-of-range"
	}
	return v, true, "in-range"
}

// rat returns the exact rational, or a symbolic verdict when the magnitude is beyond every
// binary64 threshold: over=true (≥ 10^401) or under=true (< 10^-400, rounds to zero).
func (d decimal) rat() (r *big.Rat, over, under bool) {
	if d.N.Sign() == 0 {
		return new(big.Rat), false, false
	}
	digits := int64(len(d.N.String()))
	if d.E.Cmp(big.NewInt(400)) > 0 {
		return nil, true, false
	}
	if new(big.Int).Add(d.E, big.NewInt(digits)).Cmp(big.NewInt(-400)) < 0 {
		return nil, false, true
	}
	e := d.E.Int64()
	r = new(big.Rat).SetInt(d.N)
	p := new(big.Int).Exp(bigTen, big.NewInt(abs64(e)), nil)
	if e >= 0 {
		r.Mul(r, new(big.Rat).SetInt(p))
	} else {
		r.Quo(r, new(big.Rat).SetInt(p))
	}
	if d.Neg {
		r.Neg(r)
	}
	return r, false, false
}

func abs64(x int64) int64 {
	if x < 0 {
		return -x
	}
	return x
}

// float64Verdict: the correctly rounded (nearest, ties to even) binary64 value; accept iff finite.
func (d decimal) float64Verdict() (bits uint64, accept bool) {
	r, over, under := d.rat()
	var f float64
	switch {
	case over:
		return 0, false
	case under:
		f = 0
	default:
		f, _ = r.Float64()
	}
	if math.IsInf(f, 0) {
		return 0, false
	}
	if f == 0 && d.Neg {
		f = math.Copysign(0, -1)
	}
	return math.Float64bits(f), true
}

func (d decimal) float32Verdict() (bits uint32, accept bool) {
	r, over, under := d.rat()
	var f float32
	switch {
	case over:
		return 0, false
	case under:
		f = 0
	default:
		f, _ = r.Float32()
	}
	if math.IsInf(float64(f), 0) {
		return 0, false
	}
	if f == 0 && d.Neg {
		f = float32(math.Copysign(0, -1))
	}
	return math.Float32bits(f), true
}

// splitValueText splits the JSON text of one value: surrounding JSON whitespace is dropped; a
// JSON string is unquoted with encoding/json (ok=false when the text is neither a complete
// JSON string nor free of quote characters).
func splitValueText(text string) (inner string, quoted, ok bool) {
	core := strings.Trim(text, " \t\r\n")
	if strings.HasPrefix(core, `"`) {
		if !json.Valid([]byte(core)) {
			return "", true, false
		}
		var s string
		if err := json.Unmarshal([]byte(core), &s); err != nil {
			return "", true, false
		}
		return s, true, true
	}
	if strings.ContainsAny(core, "\" \t\r\n") {
		return core, false, false
	}
	return core, false, true
}
