package c22

import (
	"fmt"
	"math"
	"math/big"
	"regexp"
	"strings"
	"testing"

	"google.golang.org/protobuf/encoding/protojson"
	testpb "google.golang.org/protobuf/internal/testprotos/test"
	"google.golang.org/protobuf/proto"
	"google.golang.org/protobuf/reflect/protoreflect"
	"google.golang.org/protobuf/types/known/wrapperspb"
	"google.golang.org/protobuf/zverif/pbt"
	"pgregory.net/rapid"
)

// ---- kinds and the places a scalar value can stand in -----------------------------------------

type kindInfo struct {
	Name    string // protobuf scalar kind, also the suffix of optional_/repeated_ fields of TestAllTypes
	Class   string // "int", "uint", "float", "enum"
	Bits    int
	MapName string // map field whose value has this kind
	Wrapper func() proto.Message
}

var kindTable = []kindInfo{
	{"int32", "int", 32, "map_int32_int32", func() proto.Message { return &wrapperspb.Int32Value{} }},
	{"sint32", "int", 32, "map_sint32_sint32", nil},
	{"sfixed32", "int", 32, "map_sfixed32_sfixed32", nil},
	{"int64", "int", 64, "map_int64_int64", func() proto.Message { return &wrapperspb.Int64Value{} }},
	{"sint64", "int", 64, "map_sint64_sint64", nil},
	{"sfixed64", "int", 64, "map_sfixed64_sfixed64", nil},
	{"uint32", "uint", 32, "map_uint32_uint32", func() proto.Message { return &wrapperspb.UInt32Value{} }},
	{"fixed32", "uint", 32, "map_fixed32_fixed32", nil},
	{"uint64", "uint", 64, "map_uint64_uint64", func() proto.Message { return &wrapperspb.UInt64Value{} }},
	{"fixed64", "uint", 64, "map_fixed64_fixed64", nil},
	{"float", "float", 32, "map_int32_float", func() proto.Message { return &wrapperspb.FloatValue{} }},
	{"double", "float", 64, "map_int32_double", func() proto.Message { return &wrapperspb.DoubleValue{} }},
	{"nested_enum", "enum", 32, "map_string_nested_enum", nil},
}

func kindByName(n string) (kindInfo, bool) {
	for _, k := range kindTable {
		if k.Name == n {
			return k, true
		}
	}
	return kindInfo{}, false
}

var (
	intKindNames   = []string{"int32", "sint32", "sfixed32", "int64", "sint64", "sfixed64", "uint32", "fixed32", "uint64", "fixed64", "nested_enum"}
	floatKindNames = []string{"float", "double"}
	places         = []string{"singular", "list", "mapval", "wrapper"}
)

func (k kindInfo) rng() intRange {
	switch {
	case k.Class == "uint" && k.Bits == 32:
		return rangeUint32
	case k.Class == "uint":
		return rangeUint64
	case k.Bits == 32:
		return rangeInt32
	}
	return rangeInt64
}

// litCase is one JSON value text placed verbatim in a document for a field of the given kind.
type litCase struct {
	Kind      string
	Where     string // singular | list | mapval | wrapper
	Text      string // JSON text of the value, copied verbatim into the document
	ProtoName bool   // key by proto field name instead of the JSON name
	Class     string // generator label (statistics only)
}

var allTypesMD = (&testpb.TestAllTypes{}).ProtoReflect().Descriptor()

// document builds the input and returns a reader of the decoded value.
func (c litCase) document() (doc string, msg proto.Message, read func() protoreflect.Value, err error) {
	k, ok := kindByName(c.Kind)
	if !ok {
		return "", nil, nil, fmt.Errorf("harness: unknown kind %q", c.Kind)
	}
	where := c.Where
	if where == "wrapper" && k.Wrapper == nil {
		where = "singular"
	}
	name := func(fd protoreflect.FieldDescriptor) string {
		if c.ProtoName {
			return string(fd.Name())
		}
		return fd.JSONName()
	}
	switch where {
	case "singular":
		fd := allTypesMD.Fields().ByName(protoreflect.Name("optional_" + k.Name))
		m := &testpb.TestAllTypes{}
		return fmt.Sprintf(`{"%s":%s}`, name(fd), c.Text), m, func() protoreflect.Value {
			if !m.ProtoReflect().Has(fd) {
				return protoreflect.Value{}
			}
			return m.ProtoReflect().Get(fd)
		}, nil
	case "list":
		fd := allTypesMD.Fields().ByName(protoreflect.Name("repeated_" + k.Name))
		m := &testpb.TestAllTypes{}
		return fmt.Sprintf(`{"%s":[7,%s,9]}`, name(fd), c.Text), m, func() protoreflect.Value {
			l := m.ProtoReflect().Get(fd).List()
			if l.Len() != 3 || scalarString(l.Get(0)) != "7" || scalarString(l.Get(2)) != "9" {
				return protoreflect.Value{}
			}
			return l.Get(1)
		}, nil
	case "mapval":
		fd := allTypesMD.Fields().ByName(protoreflect.Name(k.MapName))
		m := &testpb.TestAllTypes{}
		var key protoreflect.MapKey
		switch fd.MapKey().Kind() {
		case protoreflect.StringKind:
			key = protoreflect.ValueOfString("1").MapKey()
		case protoreflect.Int32Kind, protoreflect.Sint32Kind, protoreflect.Sfixed32Kind:
			key = protoreflect.ValueOfInt32(1).MapKey()
		case protoreflect.Int64Kind, protoreflect.Sint64Kind, protoreflect.Sfixed64Kind:
			key = protoreflect.ValueOfInt64(1).MapKey()
		case protoreflect.Uint32Kind, protoreflect.Fixed32Kind:
			key = protoreflect.ValueOfUint32(1).MapKey()
		default:
			key = protoreflect.ValueOfUint64(1).MapKey()
		}
		return fmt.Sprintf(`{"%s":{"1":%s}}`, name(fd), c.Text), m, func() protoreflect.Value {
			mp := m.ProtoReflect().Get(fd).Map()
			if mp.Len() != 1 || !mp.Has(key) {
				return protoreflect.Value{}
			}
			return mp.Get(key)
		}, nil
	case "wrapper":
		m := k.Wrapper()
		fd := m.ProtoReflect().Descriptor().Fields().ByNumber(1)
		return c.Text, m, func() protoreflect.Value { return m.ProtoReflect().Get(fd) }, nil
	}
	return "", nil, nil, fmt.Errorf("harness: unknown place %q", c.Where)
}

func scalarString(v protoreflect.Value) string {
	switch x := v.Interface().(type) {
	case protoreflect.EnumNumber:
		return fmt.Sprint(int32(x))
	case float32:
		return fmt.Sprint(float64(x))
	default:
		return fmt.Sprint(x)
	}
}

// expectation computed by the oracle from the text alone.
type expectation struct {
	Accept  bool
	Why     string   // ungrammatical | non-integral | out-of-range | in-range | special | not-a-value
	Int     *big.Int // integer kinds
	F64     uint64   // double
	F32     uint32   // float
	NaN     bool
	Lit     numLit
	Gram    bool
	Quoted  bool
	Inner   string
	Decimal decimal
}

func expect(k kindInfo, text string) expectation {
	inner, quoted, ok := splitValueText(text)
	e := expectation{Quoted: quoted, Inner: inner}
	if !ok {
		e.Why = "not-a-value"
		return e
	}
	if k.Class == "float" && quoted {
		switch inner {
		case "NaN":
			e.Accept, e.Why, e.NaN = true, "special", true
			return e
		case "Infinity":
			e.Accept, e.Why, e.F64, e.F32 = true, "special", math.Float64bits(math.Inf(1)), math.Float32bits(float32(math.Inf(1)))
			return e
		case "-Infinity":
			e.Accept, e.Why, e.F64, e.F32 = true, "special", math.Float64bits(math.Inf(-1)), math.Float32bits(float32(math.Inf(-1)))
			return e
		}
	}
	lit, gram := parseJSONNumber(inner)
	e.Lit, e.Gram = lit, gram
	if !gram {
		e.Why = "ungrammatical"
		return e
	}
	d := lit.value()
	e.Decimal = d
	switch k.Class {
	case "float":
		if k.Bits == 32 {
			e.F32, e.Accept = d.float32Verdict()
		} else {
			e.F64, e.Accept = d.float64Verdict()
		}
		e.Why = "in-range"
		if !e.Accept {
			e.Why = "out-of-range"
		}
	default:
		e.Int, e.Accept, e.Why = d.intVerdict(k.rng())
	}
	return e
}

// Known deviations of the unchanged tree, recognised by root cause (see known_test.go).
var reNoExpDigits = regexp.MustCompile(`^-?(0|[1-9][0-9]*)(\.[0-9]+)?[eE]$`)

// knownExpNoDigits: an unquoted number token that ends in a bare exponent marker.
func knownExpNoDigits(e expectation) bool {
	return !e.Quoted && !e.Gram && reNoExpDigits.MatchString(e.Inner)
}

// knownFracExpDigits: a representable integer whose literal has (integer digits, not counting a
// lone 0) + exponent > 20, which normalizeToIntString refuses before looking at the value.
func knownFracExpDigits(e expectation) bool {
	if !e.Gram || !e.Accept || !e.Lit.HasExp || e.Lit.ExpNeg || len(e.Lit.ExpDigits) > 9 {
		return false
	}
	var exp int
	fmt.Sscanf(e.Lit.ExpDigits, "%d", &exp)
	intp := len(e.Lit.Int)
	if e.Lit.Int == "0" {
		intp = 0
	}
	return intp+exp > 20
}

// knownLongIntegerPart: float literal whose integer part has more than 800 digits (strconv's
// slow path keeps 800 digits and misplaces the decimal point).
func knownLongIntegerPart(e expectation) bool {
	return e.Gram && len(e.Lit.Int) > 800
}

func checkLiteral(c litCase) error {
	err := checkLiteral1(c)
	if err != nil {
		if k, ok := kindByName(c.Kind); ok && k.Class == "float" && knownLongIntegerPart(expect(k, c.Text)) && pbt.ExcludeKnown("KF-json-float-long-integer-part") {
			return nil
		}
	}
	return err
}

func checkLiteral1(c litCase) error {
	k, ok := kindByName(c.Kind)
	if !ok {
		return fmt.Errorf("harness: unknown kind %q", c.Kind)
	}
	if strings.Trim(c.Text, " \t\r\n") == "null" {
		return nil // null means "field absent"; not a numeric literal
	}
	doc, msg, read, err := c.document()
	if err != nil {
		return err
	}
	e := expect(k, c.Text)
	uerr := protojson.Unmarshal([]byte(doc), msg)
	if k.Class == "enum" && e.Quoted {
		return nil // a JSON string for an enum field is a value *name*; digits in quotes are not specified by the property
	}
	if uerr != nil {
		if !e.Accept {
			return nil
		}
		if k.Class != "float" && knownFracExpDigits(e) && pbt.ExcludeKnown("KF-json-int-frac-exp-digits") {
			return nil
		}
		return fmt.Errorf("%s %s: %s rejected (%v) but the literal is a %s value (%s)", k.Name, c.Where, doc, uerr, e.Why, describe(k, e))
	}
	if !e.Accept {
		if k.Class != "float" && knownExpNoDigits(e) && pbt.ExcludeKnown("KF-json-exp-nodigits") {
			return nil
		}
		return fmt.Errorf("%s %s: %s accepted (decoded %s) but the literal is %s", k.Name, c.Where, doc, scalarStringOrAbsent(read()), e.Why)
	}
	got := read()
	if !got.IsValid() {
		return fmt.Errorf("%s %s: %s accepted but the value is not where it belongs (message %v)", k.Name, c.Where, doc, msg)
	}
	switch k.Class {
	case "int":
		if g := big.NewInt(got.Int()); g.Cmp(e.Int) != 0 {
			return fmt.Errorf("%s %s: %s decoded to %v, exact value %v", k.Name, c.Where, doc, g, e.Int)
		}
	case "uint":
		if g := new(big.Int).SetUint64(got.Uint()); g.Cmp(e.Int) != 0 {
			return fmt.Errorf("%s %s: %s decoded to %v, exact value %v", k.Name, c.Where, doc, g, e.Int)
		}
	case "enum":
		if g := big.NewInt(int64(got.Enum())); g.Cmp(e.Int) != 0 {
			return fmt.Errorf("%s %s: %s decoded to enum number %v, exact value %v", k.Name, c.Where, doc, g, e.Int)
		}
	case "float":
		f := got.Float()
		if e.NaN {
			if !math.IsNaN(f) {
				return fmt.Errorf("%s %s: %s decoded to %v, want NaN", k.Name, c.Where, doc, f)
			}
			return nil
		}
		if k.Bits == 32 {
			g := math.Float32bits(float32(f))
			if float64(float32(f)) != f && !math.IsNaN(f) {
				return fmt.Errorf("%s %s: %s decoded to %v which is not a float32", k.Name, c.Where, doc, f)
			}
			if g != e.F32 {
				return fmt.Errorf("%s %s: %s decoded to %v (bits %#08x), correctly rounded %v (bits %#08x)", k.Name, c.Where, doc, float32(f), g, math.Float32frombits(e.F32), e.F32)
			}
		} else if g := math.Float64bits(f); g != e.F64 {
			return fmt.Errorf("%s %s: %s decoded to %v (bits %#016x), correctly rounded %v (bits %#016x)", k.Name, c.Where, doc, f, g, math.Float64frombits(e.F64), e.F64)
		}
	}
	return nil
}

func scalarStringOrAbsent(v protoreflect.Value) string {
	if !v.IsValid() {
		return "<absent>"
	}
	return scalarString(v)
}

func describe(k kindInfo, e expectation) string {
	switch {
	case e.NaN:
		return "NaN"
	case k.Class == "float" && k.Bits == 32:
		return fmt.Sprint(math.Float32frombits(e.F32))
	case k.Class == "float":
		return fmt.Sprint(math.Float64frombits(e.F64))
	}
	return e.Int.String()
}

// ---- statistics -----------------------------------------------------------------------------------

func litClasses(c litCase) []string {
	k, _ := kindByName(c.Kind)
	e := expect(k, c.Text)
	if k.Class == "enum" && e.Quoted {
		return []string{"unspecified:enum-quoted"}
	}
	out := []string{"gen:" + c.Class, "kind:" + c.Kind, "place:" + c.Where, "oracle:" + e.Why}
	if e.Quoted {
		out = append(out, "quoted")
	}
	if e.Gram {
		if e.Lit.HasExp {
			out = append(out, "has-exponent")
		}
		if e.Lit.Frac != "" {
			out = append(out, "has-fraction")
		}
	}
	if e.Accept {
		out = append(out, "accept")
	} else {
		out = append(out, "reject")
	}
	return out
}

// nearLimit: within 3 of a limit of the kind (or of 0).
func nearLimit(k kindInfo, d decimal) bool {
	v, integral, huge := d.integer()
	if !integral {
		// nearest integers
		r, over, under := d.rat()
		if over || under || r == nil {
			return under
		}
		f, _ := r.Float64()
		v = new(big.Int)
		big.NewFloat(math.Floor(f)).Int(v)
	} else if huge {
		return false
	}
	r := k.rng()
	for _, lim := range []*big.Int{r.lo, r.hi, bigZero} {
		if new(big.Int).Abs(new(big.Int).Sub(v, lim)).Cmp(big.NewInt(4)) <= 0 {
			return true
		}
	}
	return false
}

func intNonTrivial(c litCase) bool {
	k, _ := kindByName(c.Kind)
	e := expect(k, c.Text)
	if !e.Gram || (k.Class == "enum" && e.Quoted) {
		return false
	}
	return (e.Lit.HasExp || e.Lit.Frac != "") && nearLimit(k, e.Decimal)
}

// ---- tests -----------------------------------------------------------------------------------------

func TestIntLiteral(t *testing.T) {
	pbt.Run(t, pbt.Prop[litCase]{
		Name: "int-literal",
		Rule: "integer and enum-number fields (all 10 integer kinds + enum; singular, list element, map value, wrapper message): literal = value v (type limit / 0 / ±1 / power of ten, ±3) in a random notation of that value (plain, trailing .000, decimal point moved by up to 25 places and compensated by e/E exponent with +/-/no sign and leading zeros, leading-zero fractions, quoted, JSON-escaped quoted, outer whitespace), non-integral neighbours, huge exponents, hostile constants and one-character mutations; oracle = own JSON number grammar -> exact big.Int. non-trivial = grammatical literal with exponent or fraction within 4 of a type limit or of 0",
		Draw: func(t *rapid.T) litCase {
			return drawIntCase(t)
		},
		Check:      checkLiteral,
		NonTrivial: intNonTrivial,
		Classes:    litClasses,
		Quick:      150000, Thorough: 600000,
	})
}

func floatNonTrivial(c litCase) bool {
	return strings.HasPrefix(c.Class, "mid") || strings.HasPrefix(c.Class, "threshold")
}

func TestFloatLiteral(t *testing.T) {
	pbt.Run(t, pbt.Prop[litCase]{
		Name: "float-literal",
		Rule: "float and double fields (singular, list element, map value, wrapper): decimal expansions of exact midpoints between adjacent float32 / float64 values (exact, one unit above/below in an extra last digit), exact values, overflow thresholds of both widths and half the smallest subnormal (exact/above/below), random decimals of up to 40 digits with exponents to ±400, integer-limit values, special strings NaN/Infinity/-Infinity and near misses, mutations; every literal in a random notation; oracle = own grammar -> big.Rat -> Float32()/Float64() (nearest even), accept iff finite, sign of zero kept. non-trivial = midpoint or threshold literal",
		Draw: func(t *rapid.T) litCase {
			return drawFloatCase(t)
		},
		Check:      checkLiteral,
		NonTrivial: floatNonTrivial,
		Classes:    litClasses,
		Quick:      80000, Thorough: 300000,
	})
}
