package c22

import (
	"fmt"
	"math"
	"math/big"
	"strings"

	"google.golang.org/protobuf/zverif/gen"
	"pgregory.net/rapid"
)

// ---- notations of one exact decimal value ±N·10^e10 --------------------------------------------------

func zeros(n int) string {
	if n <= 0 {
		return ""
	}
	return strings.Repeat("0", n)
}

func renderExp(t *rapid.T, exp int64, mayOmit bool) string {
	if exp == 0 && mayOmit && rapid.Bool().Draw(t, "omitExp") {
		return ""
	}
	s := rapid.SampledFrom([]string{"e", "E"}).Draw(t, "marker")
	switch {
	case exp < 0:
		s += "-"
		exp = -exp
	case rapid.Bool().Draw(t, "plus"):
		s += "+"
	case exp == 0 && rapid.IntRange(0, 3).Draw(t, "minusZero") == 0:
		s += "-"
	}
	return s + zeros(rapid.SampledFrom([]int{0, 0, 0, 1, 2}).Draw(t, "expLeadingZeros")) + fmt.Sprint(exp)
}

// renderValue writes ±digits·10^e10 (digits without leading zeros) in a randomly drawn notation.
func renderValue(t *rapid.T, neg bool, digits string, e10 int64, maxShift int) string {
	sign := ""
	if neg {
		sign = "-"
	}
	if digits == "0" {
		m := rapid.SampledFrom([]string{"0", "0", "0.0", "0.000", "0.00000000000000000000000"}).Draw(t, "zeroMant")
		switch rapid.IntRange(0, 3).Draw(t, "zeroExp") {
		case 0:
			return sign + m
		case 1:
			return sign + m + renderExp(t, int64(rapid.IntRange(-30, 30).Draw(t, "e")), false)
		case 2:
			return sign + m + rapid.SampledFrom([]string{"e2147483647", "e2147483648", "e-2147483648", "e-2147483649", "E99999999999999999999", "e-99999999999999999999", "e+4294967296"}).Draw(t, "hugeExp")
		default:
			return sign + m + renderExp(t, 0, true)
		}
	}
	n := len(digits)
	plain := rapid.IntRange(0, 3).Draw(t, "plain") == 0
	var p int // digits left of the decimal point
	if plain && e10 > -400 && e10 < 60 {
		p = n + int(e10)
	} else {
		plain = false
		w := maxShift
		if rapid.IntRange(0, 3).Draw(t, "wide") != 0 && w > 12 {
			w = 12
		}
		p = rapid.IntRange(-w, n+w).Draw(t, "point")
	}
	var mant string
	switch {
	case p <= 0:
		mant = "0." + zeros(-p) + digits
	case p < n:
		mant = digits[:p] + "." + digits[p:]
	default:
		mant = digits + zeros(p-n)
		if z := rapid.SampledFrom([]int{0, 0, 1, 3, 22}).Draw(t, "fracZeros"); z > 0 {
			mant += "." + zeros(z)
		}
	}
	if p < n {
		mant += zeros(rapid.SampledFrom([]int{0, 0, 0, 1, 4}).Draw(t, "trailingZeros"))
	}
	exp := e10 + int64(n-p)
	if plain {
		return sign + mant + renderExp(t, 0, true)
	}
	return sign + mant + renderExp(t, exp, true)
}

// dress puts the literal in quotes / escapes / outer whitespace.
func dress(t *rapid.T, lit string) (string, string) {
	switch rapid.IntRange(0, 19).Draw(t, "dress") {
	case 10, 11, 12, 13, 14:
		return `"` + lit + `"`, "quoted"
	case 15, 16:
		if len(lit) == 0 {
			return `""`, "quoted"
		}
		i := rapid.IntRange(0, len(lit)-1).Draw(t, "escAt")
		return `"` + lit[:i] + fmt.Sprintf(`\u%04x`, lit[i]) + lit[i+1:] + `"`, "escaped"
	case 17, 18:
		ws := rapid.SampledFrom([]string{" ", "\n", "\t", "\r\n", "  "}).Draw(t, "ws")
		if rapid.Bool().Draw(t, "wsBefore") {
			return ws + lit, "outer-space"
		}
		return lit + ws, "outer-space"
	case 19:
		in := rapid.SampledFrom([]string{" ", "\\t", "\\n"}).Draw(t, "innerWs")
		if rapid.Bool().Draw(t, "inBefore") {
			return `"` + in + lit + `"`, "inner-space"
		}
		return `"` + lit + in + `"`, "inner-space"
	}
	return lit, "bare"
}

const mutAlphabet = "0123456789.eE+-\" xNaInfity_"

func mutate(t *rapid.T, s string) string {
	n := rapid.IntRange(1, 2).Draw(t, "nmut")
	for i := 0; i < n; i++ {
		ch := string(mutAlphabet[rapid.IntRange(0, len(mutAlphabet)-1).Draw(t, "ch")])
		switch op := rapid.IntRange(0, 2).Draw(t, "op"); {
		case op == 0 && len(s) > 0: // delete
			j := rapid.IntRange(0, len(s)-1).Draw(t, "at")
			s = s[:j] + s[j+1:]
		case op == 1 && len(s) > 0: // replace
			j := rapid.IntRange(0, len(s)-1).Draw(t, "at")
			s = s[:j] + ch + s[j+1:]
		default: // insert
			j := rapid.IntRange(0, len(s)).Draw(t, "at")
			s = s[:j] + ch + s[j:]
		}
	}
	return s
}

// ---- integer values ------------------------------------------------------------------------------------

var intBases = func() []*big.Int {
	var out []*big.Int
	add := func(v *big.Int) { out = append(out, v, new(big.Int).Neg(v)) }
	add(big.NewInt(0))
	add(big.NewInt(1))
	for _, k := range []uint{7, 8, 15, 16, 31, 32, 53, 63, 64} {
		add(pow2(k))
		add(new(big.Int).Sub(pow2(k), big.NewInt(1)))
	}
	for k := int64(1); k <= 21; k++ {
		add(new(big.Int).Exp(bigTen, big.NewInt(k), nil))
	}
	return out
}()

var hostile = []string{
	`1e`, `1E`, `1e+`, `1e-`, `1E+`, `-1e`, `0e`, `-0e`, `1.0e`, `1.5e`, `12e`, `10E`, `2147483647e`, `2147483648e`,
	`1.`, `.5`, `-.5`, `01`, `-01`, `00`, `+1`, `-`, `--1`, `1.e5`, `0x10`, `1_000`, `1e5.0`, `1e1e1`, `1e+-1`, `1ee1`, `1e 1`,
	`Infinity`, `NaN`, `-Infinity`, `"1e"`, `"1e+"`, `"1E-"`, `""`, `" "`, `" 1"`, `"1 "`, `"1"`, `"+1"`, `"0x1"`, `"1.0"`, `"1e0"`, `"-0"`, `"01"`, `"1."`, `".1"`,
	`-0`, `-0.0`, `-0e5`, `0e2147483648`, `0e99999999999999999999`, `0.0e-99999999999999999999`, `-0.000e+2147483648`,
	`1e2147483647`, `1e2147483648`, `1e-2147483648`, `1e-2147483649`, `10e-1`, `100e-2`, `1e-0`, `1e+0`, `1e00`, `1e+01`, `0.1e1`, `0.1e01`,
	`1e99999999999999999999`, `1e-99999999999999999999`, `10e-99999999999999999999`,
	`0.000000000000000000001e21`, `0.00000000000000000001e20`, `0.0000000000000000000001e22`, `0.0000000000000000000002147483647e31`,
	`1.0`, `1.00000000000000000000`, `1.00000000000000000001`, `100.0`, `1e2`, `1E2`, `1.5e1`, `15e-1`, `150e-1`, `1.50e1`, `0.5`, `1e-1`, `0.9999999999999999999999`,
	`true`, `false`, `[1]`, `{}`, `1 2`, `"1" "2"`, `"1"`, `"1e2"`, `"1e"`, `"1\n"`,
	`4294967295.0e0`, `4294967296e-0`, `0.4294967295e10`, `0.4294967296e10`, `42949672950e-1`, `42949672951e-1`,
	`18446744073709551615`, `18446744073709551616`, `1.8446744073709551615e19`, `1.8446744073709551616e19`, `0.18446744073709551615e20`, `0.018446744073709551615e21`, `184467440737095516150e-1`,
	`-9223372036854775808`, `-9223372036854775809`, `-9.223372036854775808e18`, `-9.223372036854775809E18`, `9223372036854775807.0`, `9223372036854775808`,
	`"18446744073709551615"`, `"-9223372036854775808"`, `"9.223372036854775807e18"`,
}

func drawPlace(t *rapid.T) string { return rapid.SampledFrom(places).Draw(t, "place") }

func drawIntCase(t *rapid.T) litCase {
	c := litCase{Kind: rapid.SampledFrom(intKindNames).Draw(t, "kind"), Where: drawPlace(t), ProtoName: rapid.IntRange(0, 4).Draw(t, "protoName") == 0}
	class := rapid.IntRange(0, 11).Draw(t, "class")
	if class == 11 {
		c.Class = "hostile"
		c.Text = rapid.SampledFrom(hostile).Draw(t, "hostile")
		return c
	}
	// an integer value near a limit
	k, _ := kindByName(c.Kind)
	var v *big.Int
	if rapid.Bool().Draw(t, "ownLimit") {
		v = new(big.Int).Set(rapid.SampledFrom([]*big.Int{k.rng().lo, k.rng().hi}).Draw(t, "limit"))
	} else {
		v = new(big.Int).Set(rapid.SampledFrom(intBases).Draw(t, "base"))
	}
	v.Add(v, big.NewInt(int64(rapid.IntRange(-3, 3).Draw(t, "delta"))))
	neg := v.Sign() < 0
	if v.Sign() == 0 {
		neg = rapid.Bool().Draw(t, "negZero")
	}
	digits := new(big.Int).Abs(v).String()
	e10 := int64(0)
	c.Class = "integer"
	if class >= 8 && class <= 9 { // non-integral neighbour: append j fraction digits, the last one non-zero
		j := rapid.SampledFrom([]int{1, 1, 2, 5, 19, 25}).Draw(t, "fracDigits")
		frac := zeros(j-1) + fmt.Sprint(rapid.IntRange(1, 9).Draw(t, "lastDigit"))
		if rapid.Bool().Draw(t, "nines") {
			frac = strings.Repeat("9", j)
		}
		digits = strings.TrimLeft(digits+frac, "0")
		e10 = -int64(j)
		c.Class = "non-integral"
	} else if class == 7 { // a larger magnitude: shift the value up by a few powers of ten
		up := rapid.IntRange(1, 12).Draw(t, "up")
		if digits != "0" {
			e10 = int64(up)
		}
		c.Class = "scaled"
	}
	for strings.HasSuffix(digits, "0") && len(digits) > 1 { // normalise: digits has no trailing zeros
		digits = digits[:len(digits)-1]
		e10++
	}
	lit := renderValue(t, neg, digits, e10, 25)
	if class == 10 {
		lit = mutate(t, lit)
		c.Class = "mutated"
	}
	var how string
	c.Text, how = dress(t, lit)
	if how != "bare" && c.Class == "integer" {
		c.Class = "integer-" + how
	}
	return c
}

// ---- float values --------------------------------------------------------------------------------------

// dyadic returns digits and e10 of the exact decimal expansion of m·2^k (m > 0).
func dyadic(m *big.Int, k int) (string, int64) {
	n := new(big.Int).Set(m)
	e10 := int64(0)
	if k >= 0 {
		n.Lsh(n, uint(k))
	} else {
		n.Mul(n, new(big.Int).Exp(big.NewInt(5), big.NewInt(int64(-k)), nil))
		e10 = int64(k)
	}
	d := n.String()
	for strings.HasSuffix(d, "0") && len(d) > 1 {
		d = d[:len(d)-1]
		e10++
	}
	return d, e10
}

// split64 / split32: |f| = m·2^k for finite non-zero f.
func split64(bits uint64) (m *big.Int, k int) {
	e := int(bits>>52) & 0x7ff
	f := bits & (1<<52 - 1)
	if e == 0 {
		e = 1
	} else {
		f |= 1 << 52
	}
	return new(big.Int).SetUint64(f), e - 1075
}

func split32(bits uint32) (m *big.Int, k int) {
	e := int(bits>>23) & 0xff
	f := bits & (1<<23 - 1)
	if e == 0 {
		e = 1
	} else {
		f |= 1 << 23
	}
	return new(big.Int).SetUint64(uint64(f)), e - 150
}

// perturb: exact, or one unit above/below in an extra digit j places further right.
func perturb(t *rapid.T, digits string, e10 int64) (string, int64, string) {
	switch rapid.IntRange(0, 2).Draw(t, "side") {
	case 0:
		return digits, e10, "exact"
	case 1:
		j := rapid.SampledFrom([]int{1, 3, 20, 40}).Draw(t, "extraDigits")
		return digits + zeros(j-1) + "1", e10 - int64(j), "above"
	default:
		j := rapid.SampledFrom([]int{1, 3, 20, 40}).Draw(t, "extraDigits")
		n, _ := new(big.Int).SetString(digits+zeros(j), 10)
		n.Sub(n, big.NewInt(1))
		return n.String(), e10 - int64(j), "below"
	}
}

var floatSpecials = []string{`"NaN"`, `"Infinity"`, `"-Infinity"`, `NaN`, `Infinity`, `-Infinity`, `"+Infinity"`, `"nan"`, `"inf"`, `"Inf"`, `"-inf"`, `"+Inf"`, `"infinity"`, `"NAN"`, `"-NaN"`, `" NaN"`, `"NaN "`, `"Infinity "`, `"INFINITY"`, `"-infinity"`, `"1e400"`, `"0x1p-2"`, `0x1p-2`, `"1_0"`, `"Infinit"`, `"Na"`, `"NaN"`, `"-Infinity"`}

func drawFloatCase(t *rapid.T) litCase {
	c := litCase{Kind: rapid.SampledFrom(floatKindNames).Draw(t, "kind"), Where: drawPlace(t), ProtoName: rapid.IntRange(0, 4).Draw(t, "protoName") == 0}
	neg := rapid.IntRange(0, 2).Draw(t, "neg") == 0
	var digits string
	var e10 int64
	class := rapid.IntRange(0, 15).Draw(t, "class")
	switch {
	case class <= 3: // midpoint between adjacent float32 values
		bits := gen.Float32Bits().Draw(t, "f32") & 0x7fffffff
		if bits >= 0x7f800000 {
			bits = 0x7f7fffff
		}
		m, k := split32(bits)
		m.Lsh(m, 1).Add(m, big.NewInt(1))
		digits, e10 = dyadic(m, k-1)
		var side string
		digits, e10, side = perturb(t, digits, e10)
		c.Class = "mid32-" + side
		if rapid.IntRange(0, 4).Draw(t, "forceFloat") != 0 {
			c.Kind = "float"
		}
	case class <= 6: // midpoint between adjacent float64 values
		bits := gen.Float64Bits().Draw(t, "f64") & 0x7fffffffffffffff
		if bits >= 0x7ff0000000000000 {
			bits = 0x7fefffffffffffff
		}
		m, k := split64(bits)
		m.Lsh(m, 1).Add(m, big.NewInt(1))
		digits, e10 = dyadic(m, k-1)
		var side string
		digits, e10, side = perturb(t, digits, e10)
		c.Class = "mid64-" + side
		if rapid.IntRange(0, 4).Draw(t, "forceDouble") != 0 {
			c.Kind = "double"
		}
	case class == 7: // exact value of a float32 / float64 (full expansion)
		if rapid.Bool().Draw(t, "wide") {
			bits := gen.Float64Bits().Draw(t, "f64") & 0x7fffffffffffffff
			if bits >= 0x7ff0000000000000 || bits == 0 {
				bits = 1
			}
			m, k := split64(bits)
			digits, e10 = dyadic(m, k)
		} else {
			bits := gen.Float32Bits().Draw(t, "f32") & 0x7fffffff
			if bits >= 0x7f800000 || bits == 0 {
				bits = 1
			}
			m, k := split32(bits)
			digits, e10 = dyadic(m, k)
		}
		c.Class = "exact"
	case class <= 9: // thresholds
		type th struct {
			m int64
			k int
		}
		x := rapid.SampledFrom([]th{
			{1<<25 - 1, 103},  // MaxFloat32 + half ulp = 2^128 - 2^103
			{1<<24 - 1, 104},  // MaxFloat32
			{1, 128},          // 2^128
			{1, -150},         // half the smallest float32 subnormal
			{1, -149},         // smallest float32 subnormal
			{3, -150},         // 1.5 subnormal steps
			{1<<24 - 1, -150}, // between largest subnormal and smallest normal float32 (midpoint)
			{1<<54 - 1, 970},  // MaxFloat64 + half ulp
			{1<<53 - 1, 971},  // MaxFloat64
			{1, 1024},         // 2^1024
			{1, -1075},        // half the smallest float64 subnormal
			{1, -1074},        // smallest float64 subnormal
			{3, -1075},
			{1<<53 - 1, -1075},
		}).Draw(t, "threshold")
		digits, e10 = dyadic(big.NewInt(x.m), x.k)
		var side string
		digits, e10, side = perturb(t, digits, e10)
		c.Class = "threshold-" + side
	case class <= 11: // random decimal
		n := rapid.IntRange(1, 40).Draw(t, "ndigits")
		b := make([]byte, n)
		for i := range b {
			b[i] = byte('0' + rapid.IntRange(0, 9).Draw(t, "d"))
		}
		digits = strings.TrimLeft(string(b), "0")
		if digits == "" {
			digits = "0"
		}
		center := rapid.SampledFrom([]int{0, 0, 38, -45, 308, -324, 400, -400, 22, -7}).Draw(t, "center")
		e10 = int64(center + rapid.IntRange(-45, 45).Draw(t, "spread") - n/2)
		for strings.HasSuffix(digits, "0") && len(digits) > 1 {
			digits = digits[:len(digits)-1]
			e10++
		}
		c.Class = "decimal"
	case class == 12: // integers around integer-type limits
		v := new(big.Int).Set(rapid.SampledFrom(intBases).Draw(t, "base"))
		v.Add(v, big.NewInt(int64(rapid.IntRange(-3, 3).Draw(t, "delta"))))
		neg = v.Sign() < 0
		digits = new(big.Int).Abs(v).String()
		for strings.HasSuffix(digits, "0") && len(digits) > 1 {
			digits = digits[:len(digits)-1]
			e10++
		}
		c.Class = "int-limit"
	case class == 13:
		c.Class = "special"
		c.Text = rapid.SampledFrom(floatSpecials).Draw(t, "special")
		return c
	case class == 14:
		c.Class = "hostile"
		c.Text = rapid.SampledFrom(hostile).Draw(t, "hostile")
		return c
	default:
		digits, e10 = "0", 0
		c.Class = "zero"
	}
	lit := renderValue(t, neg, digits, e10, 25)
	if rapid.IntRange(0, 11).Draw(t, "mutate") == 0 {
		lit = mutate(t, lit)
		c.Class = "mutated"
	}
	c.Text, _ = dress(t, lit)
	return c
}

var _ = math.MaxFloat32
