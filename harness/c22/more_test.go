package c22

import (
	"bytes"
	"encoding/json"
	"fmt"
	"math"
	"math/big"
	"strings"
	"testing"

	"google.golang.org/protobuf/encoding/protojson"
	testpb "google.golang.org/protobuf/internal/testprotos/test"
	test3pb "google.golang.org/protobuf/internal/testprotos/test3"
	"google.golang.org/protobuf/internal/testprotos/textpb2"
	"google.golang.org/protobuf/proto"
	"google.golang.org/protobuf/reflect/protoreflect"
	"google.golang.org/protobuf/types/known/wrapperspb"
	"google.golang.org/protobuf/zverif/gen"
	"google.golang.org/protobuf/zverif/pbt"
	"pgregory.net/rapid"
)

// ---- every hostile constant for every kind and place (deterministic) -----------------------------------------

func TestHostileLiterals(t *testing.T) {
	pbt.Enumerate(t, "hostile-literals", "every constant of the hostile-literal pool (bare exponent markers, leading zeros/plus signs, hex, underscores, huge exponents, leading-zero fractions with large exponents, type limits in exponent notation, quoted forms, float specials) x 13 kinds x 4 places; non-trivial = grammatical with exponent/fraction near a type limit (integers) or any float-kind case", true,
		func(yield func(litCase, bool) bool) {
			all := append(append([]string{}, hostile...), floatSpecials...)
			for _, k := range kindTable {
				for _, where := range places {
					if where == "wrapper" && k.Wrapper == nil {
						continue
					}
					for _, text := range all {
						c := litCase{Kind: k.Name, Where: where, Text: text, Class: "hostile"}
						nt := k.Class == "float" || intNonTrivial(c)
						if !yield(c, nt) {
							return
						}
					}
				}
			}
		}, checkLiteral)
}

// ---- bytes -----------------------------------------------------------------------------------------------------

const (
	stdAlphabet = "ABCDEFGHIJKLMNOPQRSTUVWXYZabcdefghijklmnopqrstuvwxyz0123456789+/"
	urlAlphabet = "ABCDEFGHIJKLMNOPQRSTUVWXYZabcdefghijklmnopqrstuvwxyz0123456789-_"
)

// b64 is an own base64 writer (RFC 4648 §4/§5).
func b64(data []byte, alphabet string, pad bool) string {
	var sb strings.Builder
	for i := 0; i < len(data); i += 3 {
		var v uint32
		n := 0
		for j := 0; j < 3; j++ {
			v <<= 8
			if i+j < len(data) {
				v |= uint32(data[i+j])
				n++
			}
		}
		for j := 0; j < n+1; j++ {
			sb.WriteByte(alphabet[(v>>(18-6*uint(j)))&63])
		}
		if pad {
			sb.WriteString(strings.Repeat("=", 3-n))
		}
	}
	return sb.String()
}

// sextets decodes the characters of either alphabet, ignoring CR/LF and up to two trailing '=';
// ok=false when another character (or an inner '=') occurs.
func sextets(s string) (out []byte, ok bool) {
	s = strings.NewReplacer("\r", "", "\n", "").Replace(s)
	for i := 0; i < 2; i++ {
		s = strings.TrimSuffix(s, "=")
	}
	var acc uint32
	nbits := 0
	for i := 0; i < len(s); i++ {
		c := s[i]
		var v int
		switch {
		case c == '-':
			v = 62
		case c == '_':
			v = 63
		default:
			v = strings.IndexByte(stdAlphabet, c)
		}
		if v < 0 {
			return nil, false
		}
		acc = acc<<6 | uint32(v)
		nbits += 6
		if nbits >= 8 {
			nbits -= 8
			out = append(out, byte(acc>>uint(nbits)))
			acc &= 1<<uint(nbits) - 1
		}
	}
	return out, true
}

type bytesCase struct {
	Data    []byte
	Dialect string // std | std-raw | url | url-raw | text
	Text    string // string content for Dialect "text"
	Where   string // singular | list | mapval | wrapper
}

func (c bytesCase) content() string {
	switch c.Dialect {
	case "std":
		return b64(c.Data, stdAlphabet, true)
	case "std-raw":
		return b64(c.Data, stdAlphabet, false)
	case "url":
		return b64(c.Data, urlAlphabet, true)
	case "url-raw":
		return b64(c.Data, urlAlphabet, false)
	}
	return c.Text
}

func decodeBytesAt(where, content string) ([]byte, bool, error) {
	q, _ := json.Marshal(content)
	var m proto.Message
	var doc string
	var read func() ([]byte, bool)
	switch where {
	case "list":
		x := &testpb.TestAllTypes{}
		m, doc = x, `{"repeatedBytes":["",`+string(q)+`]}`
		read = func() ([]byte, bool) {
			if len(x.RepeatedBytes) != 2 {
				return nil, false
			}
			return x.RepeatedBytes[1], true
		}
	case "mapval":
		x := &testpb.TestAllTypes{}
		m, doc = x, `{"mapStringBytes":{"k":`+string(q)+`}}`
		read = func() ([]byte, bool) { v, ok := x.MapStringBytes["k"]; return v, ok && len(x.MapStringBytes) == 1 }
	case "wrapper":
		x := &wrapperspb.BytesValue{}
		m, doc = x, string(q)
		read = func() ([]byte, bool) { return x.Value, true }
	default:
		x := &testpb.TestAllTypes{}
		m, doc = x, `{"optionalBytes":`+string(q)+`}`
		read = func() ([]byte, bool) { return x.OptionalBytes, x.OptionalBytes != nil }
	}
	if err := protojson.Unmarshal([]byte(doc), m); err != nil {
		return nil, false, err
	}
	b, ok := read()
	if !ok {
		return nil, true, fmt.Errorf("harness: %s accepted but the value is not where it belongs: %v", doc, m)
	}
	return b, true, nil
}

func checkBytes(c bytesCase) error {
	content := c.content()
	got, accepted, err := decodeBytesAt(c.Where, content)
	if accepted && err != nil {
		return err
	}
	if c.Dialect != "text" {
		if !accepted {
			return fmt.Errorf("bytes %s: %s encoding %q of % x rejected: %v", c.Where, c.Dialect, content, c.Data, err)
		}
		if !bytes.Equal(got, c.Data) {
			return fmt.Errorf("bytes %s: %s encoding %q decoded to % x, want % x", c.Where, c.Dialect, content, got, c.Data)
		}
		return nil
	}
	for i := 0; i < len(content); i++ {
		ch := content[i]
		if !(ch == '-' || ch == '_' || ch == '=' || ch == '\r' || ch == '\n' || strings.IndexByte(stdAlphabet, ch) >= 0) {
			if accepted {
				return fmt.Errorf("bytes %s: string %q with character %q outside both base64 alphabets accepted (decoded % x)", c.Where, content, ch, got)
			}
			return nil
		}
	}
	if accepted {
		if want, ok := sextets(content); ok && !bytes.Equal(got, want) {
			return fmt.Errorf("bytes %s: string %q decoded to % x, its characters spell % x", c.Where, content, got, want)
		}
	}
	return nil
}

func TestBytes(t *testing.T) {
	textAlphabet := stdAlphabet + "-_==  *.%~\r\n:,"
	pbt.Run(t, pbt.Prop[bytesCase]{
		Name: "bytes",
		Rule: "bytes fields (singular, list element, map value, BytesValue): arbitrary byte strings (0..48 bytes, boundary bytes 0xfb/0xff/0x3e/0x3f that exercise +/ and -_) written by an own base64 writer in the four dialects (standard/URL-safe x padded/unpadded) must decode to exactly those bytes; free strings over both alphabets plus = CR LF and outsiders: a character outside [A-Za-z0-9+/=_-\\r\\n] must be rejected, and whatever is accepted must decode to the bytes its characters spell. non-trivial = dialect case whose text contains one of + / - _ or padding, or a rejected/accepted free string",
		Draw: func(t *rapid.T) bytesCase {
			c := bytesCase{Where: drawPlace(t)}
			if rapid.IntRange(0, 3).Draw(t, "free") == 0 {
				c.Dialect = "text"
				n := rapid.IntRange(0, 12).Draw(t, "n")
				b := make([]byte, n)
				for i := range b {
					b[i] = textAlphabet[rapid.IntRange(0, len(textAlphabet)-1).Draw(t, "ch")]
				}
				c.Text = string(b)
				return c
			}
			c.Dialect = rapid.SampledFrom([]string{"std", "std-raw", "url", "url-raw"}).Draw(t, "dialect")
			if rapid.Bool().Draw(t, "biased") {
				n := rapid.IntRange(0, 9).Draw(t, "n")
				c.Data = make([]byte, n)
				for i := range c.Data {
					c.Data[i] = rapid.SampledFrom([]byte{0xfb, 0xff, 0xfe, 0x3e, 0x3f, 0xef, 0xbe, 0x00, 0x41}).Draw(t, "b")
				}
			} else {
				c.Data = gen.Bytes(48).Draw(t, "data")
			}
			if c.Data == nil {
				c.Data = []byte{}
			}
			return c
		},
		Check: checkBytes,
		NonTrivial: func(c bytesCase) bool {
			return c.Dialect == "text" || strings.ContainsAny(c.content(), "+/-_=")
		},
		Classes: func(c bytesCase) []string {
			out := []string{"dialect:" + c.Dialect, "place:" + c.Where}
			s := c.content()
			if strings.ContainsAny(s, "+/") {
				out = append(out, "has+/")
			}
			if strings.ContainsAny(s, "-_") {
				out = append(out, "has-_")
			}
			if strings.Contains(s, "=") {
				out = append(out, "has=")
			}
			if c.Dialect == "text" {
				if _, acc, _ := decodeBytesAt(c.Where, s); acc {
					out = append(out, "text-accepted")
				} else {
					out = append(out, "text-rejected")
				}
			}
			return out
		},
		Quick: 20000, Thorough: 200000,
	})
}

// ---- enum names -----------------------------------------------------------------------------------------------

type enumCase struct {
	Name    string // content of the JSON string
	Discard bool
	Where   string // singular | list | mapval
	Open    bool   // proto3 open enum (test3) instead of the proto2 closed enum (test)
}

var nestedEnumNumbers = map[string]int32{"FOO": 0, "BAR": 1, "BAZ": 2, "NEG": -1}

func checkEnumName(c enumCase) error {
	q, _ := json.Marshal(c.Name)
	var m proto.Message = &testpb.TestAllTypes{}
	prefix := "optional"
	if c.Open {
		m, prefix = &test3pb.TestAllTypes{}, "singular"
	}
	md := m.ProtoReflect().Descriptor()
	var doc string
	var fd protoreflect.FieldDescriptor
	switch c.Where {
	case "list":
		fd = md.Fields().ByName("repeated_nested_enum")
		doc = `{"repeatedNestedEnum":["BAR",` + string(q) + `,"BAZ"]}`
	case "mapval":
		fd = md.Fields().ByName("map_string_nested_enum")
		doc = `{"mapStringNestedEnum":{"a":"BAR","k":` + string(q) + `}}`
	default:
		fd = md.Fields().ByName(protoreflect.Name(prefix + "_nested_enum"))
		doc = `{"` + prefix + `NestedEnum":` + string(q) + `}`
	}
	err := protojson.UnmarshalOptions{DiscardUnknown: c.Discard}.Unmarshal([]byte(doc), m)
	if _, digits := parseJSONNumber(c.Name); digits {
		return nil // digits in quotes: not specified
	}
	want, exact := nestedEnumNumbers[c.Name]
	if !exact && !c.Discard {
		if err == nil {
			return fmt.Errorf("enum %s: %s accepted although %q is not a value name (message %v)", c.Where, doc, c.Name, m)
		}
		return nil
	}
	if err != nil {
		return fmt.Errorf("enum %s (DiscardUnknown=%v): %s rejected: %v", c.Where, c.Discard, doc, err)
	}
	r := m.ProtoReflect()
	var got []int32
	switch c.Where {
	case "list":
		l := r.Get(fd).List()
		for i := 0; i < l.Len(); i++ {
			got = append(got, int32(l.Get(i).Enum()))
		}
		wantL := []int32{1, 2}
		if exact {
			wantL = []int32{1, want, 2}
		}
		if fmt.Sprint(got) != fmt.Sprint(wantL) {
			return fmt.Errorf("enum list: %s decoded to %v, want %v", doc, got, wantL)
		}
	case "mapval":
		mp := r.Get(fd).Map()
		n := 1
		if exact {
			n = 2
			if v := mp.Get(protoreflect.ValueOfString("k").MapKey()); !v.IsValid() || int32(v.Enum()) != want {
				return fmt.Errorf("enum map value: %s decoded to %v, want k:%d", doc, m, want)
			}
		}
		if mp.Len() != n || int32(mp.Get(protoreflect.ValueOfString("a").MapKey()).Enum()) != 1 {
			return fmt.Errorf("enum map value: %s decoded to %v", doc, m)
		}
	default:
		if exact {
			if (!c.Open && !r.Has(fd)) || int32(r.Get(fd).Enum()) != want {
				return fmt.Errorf("enum: %s decoded to %v, want number %d", doc, m, want)
			}
		} else if r.Has(fd) {
			return fmt.Errorf("enum: %s with DiscardUnknown set the field to %v", doc, r.Get(fd).Enum())
		}
	}
	return nil
}

func TestEnumNames(t *testing.T) {
	names := []string{"FOO", "BAR", "BAZ", "NEG", "foo", "Foo", "bAR", "baz", " FOO", "FOO ", "FOO_", "_FOO", "QUX", "", "NestedEnum.FOO", "TestAllTypes.FOO", "TestAllTypes.NestedEnum.FOO", "goproto.proto.test.TestAllTypes.FOO", "FOREIGN_FOO", "FO", "FOOO", "FOO\x00", "0", "-1", "1", "1e0", "NULL_VALUE", "null", "true"}
	pbt.Run(t, pbt.Prop[enumCase]{
		Name: "enum-names",
		Rule: "enum fields (proto2 closed and proto3 open NestedEnum; singular, list element between two good names, map value beside a good entry): exact value names, wrong-case / padded / qualified / unknown names and one-character mutations of names, with and without DiscardUnknown; exact name -> its number; any other non-numeric string -> rejected, or (DiscardUnknown) accepted and skipped. Digits in quotes are unspecified. non-trivial = name differs from a declared name by case, one character, or padding",
		Draw: func(t *rapid.T) enumCase {
			c := enumCase{Discard: rapid.Bool().Draw(t, "discard"), Where: rapid.SampledFrom([]string{"singular", "list", "mapval"}).Draw(t, "where"), Open: rapid.Bool().Draw(t, "open")}
			c.Name = rapid.SampledFrom(names).Draw(t, "name")
			if rapid.IntRange(0, 2).Draw(t, "mutate") == 0 {
				c.Name = mutateName(t, c.Name)
			}
			return c
		},
		Check: checkEnumName,
		NonTrivial: func(c enumCase) bool {
			if _, exact := nestedEnumNumbers[c.Name]; exact {
				return false
			}
			u := strings.ToUpper(strings.Trim(c.Name, " _\x00"))
			for n := range nestedEnumNumbers {
				if u == n || (len(c.Name) >= 2 && len(c.Name) <= 4 && (strings.HasPrefix(n, c.Name) || strings.HasPrefix(c.Name, n) || hamming1(n, c.Name))) {
					return true
				}
			}
			return false
		},
		Classes: func(c enumCase) []string {
			out := []string{"place:" + c.Where}
			if _, digits := parseJSONNumber(c.Name); digits {
				return append(out, "unspecified:digits")
			}
			if _, exact := nestedEnumNumbers[c.Name]; exact {
				out = append(out, "exact")
			} else {
				out = append(out, "not-a-name")
			}
			if c.Discard {
				out = append(out, "discard")
			}
			if c.Open {
				out = append(out, "open")
			}
			return out
		},
		Quick: 10000, Thorough: 100000,
	})
}

func hamming1(a, b string) bool {
	if len(a) != len(b) {
		return false
	}
	d := 0
	for i := range a {
		if a[i] != b[i] {
			d++
		}
	}
	return d == 1
}

func mutateName(t *rapid.T, s string) string {
	const alpha = "ABFOZRNEGabfo_ .0"
	ch := string(alpha[rapid.IntRange(0, len(alpha)-1).Draw(t, "ch")])
	switch op := rapid.IntRange(0, 3).Draw(t, "op"); {
	case op == 0 && len(s) > 0:
		j := rapid.IntRange(0, len(s)-1).Draw(t, "at")
		return s[:j] + s[j+1:]
	case op == 1 && len(s) > 0:
		j := rapid.IntRange(0, len(s)-1).Draw(t, "at")
		return s[:j] + ch + s[j+1:]
	case op == 2 && len(s) > 0:
		j := rapid.IntRange(0, len(s)-1).Draw(t, "at")
		c := s[j]
		switch {
		case c >= 'a' && c <= 'z':
			c -= 32
		case c >= 'A' && c <= 'Z':
			c += 32
		}
		return s[:j] + string(c) + s[j+1:]
	default:
		j := rapid.IntRange(0, len(s)).Draw(t, "at")
		return s[:j] + ch + s[j:]
	}
}

// google.protobuf.NullValue as a plain field: null, "NULL_VALUE" and 0 all mean NULL_VALUE.
func TestNullValueField(t *testing.T) {
	type nvCase struct {
		Text   string
		Accept bool
	}
	cases := []nvCase{{`null`, true}, {`"NULL_VALUE"`, true}, {`0`, true}, {`0.0`, true}, {`0e5`, true}, {`"null"`, false}, {`"Null_Value"`, false}, {`true`, false}, {`0.5`, false}, {`{}`, false}, {`[]`, false}}
	pbt.Enumerate(t, "null-value-field", "textpb2.KnownTypes.opt_null (google.protobuf.NullValue): null, \"NULL_VALUE\" and numeric zero set the field to NULL_VALUE; other names and JSON kinds are rejected", true,
		func(yield func(nvCase, bool) bool) {
			for _, c := range cases {
				if !yield(c, true) {
					return
				}
			}
		},
		func(c nvCase) error {
			m := &textpb2.KnownTypes{}
			err := protojson.Unmarshal([]byte(`{"optNull":`+c.Text+`}`), m)
			if (err == nil) != c.Accept {
				return fmt.Errorf("opt_null = %s: err = %v, want accept = %v", c.Text, err, c.Accept)
			}
			if c.Accept && (m.OptNull == nil || *m.OptNull != 0) {
				return fmt.Errorf("opt_null = %s: field not set to NULL_VALUE (%v)", c.Text, m)
			}
			return nil
		})
}

// ---- marshal side: the written forms ---------------------------------------------------------------------

type marshalCase struct {
	I32   int32
	I64   int64
	U32   uint32
	U64   uint64
	F32   uint32 // bits
	F64   uint64 // bits
	B     []byte
	E     int32
	Bool  bool
	Proto bool // UseProtoNames
	Multi bool // Multiline
}

// wantInt: 32-bit -> bare decimal, 64-bit -> decimal in quotes.
func wantInt(v *big.Int, bits int) string {
	if bits == 64 {
		return `"` + v.String() + `"`
	}
	return v.String()
}

func checkFloatText(raw string, bits int, f64 uint64, f32 uint32) error {
	var f float64
	if bits == 32 {
		f = float64(math.Float32frombits(f32))
	} else {
		f = math.Float64frombits(f64)
	}
	switch {
	case math.IsNaN(f):
		if raw != `"NaN"` {
			return fmt.Errorf("NaN written as %s", raw)
		}
		return nil
	case math.IsInf(f, 1):
		if raw != `"Infinity"` {
			return fmt.Errorf("+Inf written as %s", raw)
		}
		return nil
	case math.IsInf(f, -1):
		if raw != `"-Infinity"` {
			return fmt.Errorf("-Inf written as %s", raw)
		}
		return nil
	}
	lit, ok := parseJSONNumber(raw)
	if !ok {
		return fmt.Errorf("finite value %v written as %s, which is not a JSON number", f, raw)
	}
	d := lit.value()
	if bits == 32 {
		if b, ok := d.float32Verdict(); !ok || b != f32 {
			return fmt.Errorf("float %v (bits %#08x) written as %s, which reads back as bits %#08x", f, f32, raw, b)
		}
	} else if b, ok := d.float64Verdict(); !ok || b != f64 {
		return fmt.Errorf("double %v (bits %#016x) written as %s, which reads back as bits %#016x", f, f64, raw, b)
	}
	return nil
}

func checkMarshal(c marshalCase) error {
	f32, f64 := math.Float32frombits(c.F32), math.Float64frombits(c.F64)
	e := testpb.TestAllTypes_NestedEnum(c.E)
	m := &testpb.TestAllTypes{
		OptionalInt32: proto.Int32(c.I32), OptionalSint32: proto.Int32(-c.I32), OptionalSfixed32: proto.Int32(c.I32 ^ 0x55),
		OptionalInt64: proto.Int64(c.I64), OptionalSint64: proto.Int64(-c.I64), OptionalSfixed64: proto.Int64(c.I64 ^ 0x55),
		OptionalUint32: proto.Uint32(c.U32), OptionalFixed32: proto.Uint32(^c.U32),
		OptionalUint64: proto.Uint64(c.U64), OptionalFixed64: proto.Uint64(^c.U64),
		OptionalFloat: proto.Float32(f32), OptionalDouble: proto.Float64(f64),
		OptionalBool: proto.Bool(c.Bool), OptionalBytes: c.B, OptionalNestedEnum: &e,
		RepeatedInt64: []int64{c.I64, int64(c.I32)}, RepeatedFixed64: []uint64{c.U64}, RepeatedUint32: []uint32{c.U32}, RepeatedSint32: []int32{c.I32},
		RepeatedDouble: []float64{f64, float64(f32)}, RepeatedFloat: []float32{f32}, RepeatedBytes: [][]byte{c.B, {}},
		RepeatedNestedEnum: []testpb.TestAllTypes_NestedEnum{e, 1},
		MapInt64Int64:      map[int64]int64{c.I64: -c.I64},
		MapUint64Uint64:    map[uint64]uint64{c.U64: ^c.U64},
		MapInt32Int32:      map[int32]int32{c.I32: -c.I32},
		MapFixed32Fixed32:  map[uint32]uint32{c.U32: ^c.U32},
		MapInt32Double:     map[int32]float64{c.I32: f64},
		MapStringBytes:     map[string][]byte{"k": c.B},
		MapBoolBool:        map[bool]bool{c.Bool: !c.Bool},
	}
	if c.B == nil {
		m.OptionalBytes = []byte{}
	}
	out, err := protojson.MarshalOptions{UseProtoNames: c.Proto, Multiline: c.Multi}.Marshal(m)
	if err != nil {
		return fmt.Errorf("Marshal failed: %v", err)
	}
	if !json.Valid(out) {
		return fmt.Errorf("Marshal output is not JSON: %s", out)
	}
	var obj map[string]json.RawMessage
	if err := json.Unmarshal(out, &obj); err != nil {
		return fmt.Errorf("Marshal output is not a JSON object: %v: %s", err, out)
	}
	key := func(protoName string) string {
		if c.Proto {
			return protoName
		}
		return string(allTypesMD.Fields().ByName(protoreflect.Name(protoName)).JSONName())
	}
	seen := 0
	scalar := func(field, want string) error {
		seen++
		raw, ok := obj[key(field)]
		if !ok {
			return fmt.Errorf("%s missing in %s", field, out)
		}
		if got := strings.TrimSpace(string(raw)); got != want {
			return fmt.Errorf("%s written as %s, want %s", field, got, want)
		}
		return nil
	}
	list := func(field string) ([]string, error) {
		seen++
		var l []json.RawMessage
		if err := json.Unmarshal(obj[key(field)], &l); err != nil {
			return nil, fmt.Errorf("%s is not an array in %s", field, out)
		}
		var s []string
		for _, r := range l {
			s = append(s, strings.TrimSpace(string(r)))
		}
		return s, nil
	}
	mapOf := func(field string) (map[string]string, error) {
		seen++
		var mm map[string]json.RawMessage
		if err := json.Unmarshal(obj[key(field)], &mm); err != nil {
			return nil, fmt.Errorf("%s is not an object in %s", field, out)
		}
		s := map[string]string{}
		for k, r := range mm {
			s[k] = strings.TrimSpace(string(r))
		}
		return s, nil
	}
	bi := func(v int64) *big.Int { return big.NewInt(v) }
	bu := func(v uint64) *big.Int { return new(big.Int).SetUint64(v) }
	quote := func(b []byte) string { q, _ := json.Marshal(b64(b, stdAlphabet, true)); return string(q) }
	enumText := func(n int32) string {
		for name, num := range nestedEnumNumbers {
			if num == n {
				return `"` + name + `"`
			}
		}
		return fmt.Sprint(n)
	}
	for _, x := range []struct{ f, want string }{
		{"optional_int32", wantInt(bi(int64(c.I32)), 32)}, {"optional_sint32", wantInt(bi(int64(-c.I32)), 32)}, {"optional_sfixed32", wantInt(bi(int64(c.I32^0x55)), 32)},
		{"optional_int64", wantInt(bi(c.I64), 64)}, {"optional_sint64", wantInt(bi(-c.I64), 64)}, {"optional_sfixed64", wantInt(bi(c.I64^0x55), 64)},
		{"optional_uint32", wantInt(bu(uint64(c.U32)), 32)}, {"optional_fixed32", wantInt(bu(uint64(^c.U32)), 32)},
		{"optional_uint64", wantInt(bu(c.U64), 64)}, {"optional_fixed64", wantInt(bu(^c.U64), 64)},
		{"optional_bool", fmt.Sprint(c.Bool)}, {"optional_bytes", quote(c.B)}, {"optional_nested_enum", enumText(c.E)},
	} {
		if err := scalar(x.f, x.want); err != nil {
			return err
		}
	}
	seen += 2
	if err := checkFloatText(strings.TrimSpace(string(obj[key("optional_float")])), 32, 0, c.F32); err != nil {
		return fmt.Errorf("optional_float: %v", err)
	}
	if err := checkFloatText(strings.TrimSpace(string(obj[key("optional_double")])), 64, c.F64, 0); err != nil {
		return fmt.Errorf("optional_double: %v", err)
	}
	wantLists := map[string][]string{
		"repeated_int64":       {wantInt(bi(c.I64), 64), wantInt(bi(int64(c.I32)), 64)},
		"repeated_fixed64":     {wantInt(bu(c.U64), 64)},
		"repeated_uint32":      {wantInt(bu(uint64(c.U32)), 32)},
		"repeated_sint32":      {wantInt(bi(int64(c.I32)), 32)},
		"repeated_bytes":       {quote(c.B), `""`},
		"repeated_nested_enum": {enumText(c.E), `"BAR"`},
	}
	for _, f := range []string{"repeated_int64", "repeated_fixed64", "repeated_uint32", "repeated_sint32", "repeated_bytes", "repeated_nested_enum"} {
		got, err := list(f)
		if err != nil {
			return err
		}
		if fmt.Sprint(got) != fmt.Sprint(wantLists[f]) {
			return fmt.Errorf("%s written as %v, want %v", f, got, wantLists[f])
		}
	}
	if got, err := list("repeated_double"); err != nil {
		return err
	} else if len(got) != 2 {
		return fmt.Errorf("repeated_double has %d elements", len(got))
	} else {
		if err := checkFloatText(got[0], 64, c.F64, 0); err != nil {
			return fmt.Errorf("repeated_double[0]: %v", err)
		}
		if err := checkFloatText(got[1], 64, math.Float64bits(float64(f32)), 0); err != nil {
			return fmt.Errorf("repeated_double[1]: %v", err)
		}
	}
	if got, err := list("repeated_float"); err != nil {
		return err
	} else if len(got) != 1 {
		return fmt.Errorf("repeated_float has %d elements", len(got))
	} else if err := checkFloatText(got[0], 32, 0, c.F32); err != nil {
		return fmt.Errorf("repeated_float[0]: %v", err)
	}
	wantMaps := map[string][2]string{ // key text (always a JSON string), value text
		"map_int64_int64":     {bi(c.I64).String(), wantInt(bi(-c.I64), 64)},
		"map_uint64_uint64":   {bu(c.U64).String(), wantInt(bu(^c.U64), 64)},
		"map_int32_int32":     {bi(int64(c.I32)).String(), wantInt(bi(int64(-c.I32)), 32)},
		"map_fixed32_fixed32": {bu(uint64(c.U32)).String(), wantInt(bu(uint64(^c.U32)), 32)},
		"map_string_bytes":    {"k", quote(c.B)},
		"map_bool_bool":       {fmt.Sprint(c.Bool), fmt.Sprint(!c.Bool)},
	}
	for _, f := range []string{"map_int64_int64", "map_uint64_uint64", "map_int32_int32", "map_fixed32_fixed32", "map_string_bytes", "map_bool_bool"} {
		got, err := mapOf(f)
		if err != nil {
			return err
		}
		w := wantMaps[f]
		if len(got) != 1 || got[w[0]] != w[1] {
			return fmt.Errorf("%s written as %v, want {%q: %s}", f, got, w[0], w[1])
		}
	}
	if got, err := mapOf("map_int32_double"); err != nil {
		return err
	} else if len(got) != 1 {
		return fmt.Errorf("map_int32_double has %d entries", len(got))
	} else if err := checkFloatText(got[bi(int64(c.I32)).String()], 64, c.F64, 0); err != nil {
		return fmt.Errorf("map_int32_double value: %v", err)
	}
	if seen != len(obj) {
		return fmt.Errorf("output has %d members, %d expected: %s", len(obj), seen, out)
	}
	return nil
}

func TestMarshalForms(t *testing.T) {
	pbt.Run(t, pbt.Prop[marshalCase]{
		Name: "marshal-forms",
		Rule: "TestAllTypes with every scalar kind populated (singular, repeated, map key and value) from boundary-biased generators, marshalled with default / UseProtoNames / Multiline options and read with encoding/json as raw member texts: 32-bit integers are bare decimals, 64-bit integers decimal strings, map keys strings, bytes padded standard base64 (own writer), enums names (numbers when undeclared), NaN/Infinity/-Infinity strings, finite floats a JSON number that the big.Rat oracle rounds back to the same bits. non-trivial = a 64-bit value beyond 2^53 or a float needing > 6 digits or non-empty bytes with +//padding",
		Draw: func(t *rapid.T) marshalCase {
			return marshalCase{
				I32: gen.Int32().Draw(t, "i32"), I64: gen.Int64().Draw(t, "i64"), U32: gen.Uint32().Draw(t, "u32"), U64: gen.Uint64().Draw(t, "u64"),
				F32: gen.Float32Bits().Draw(t, "f32"), F64: gen.Float64Bits().Draw(t, "f64"), B: gen.Bytes(24).Draw(t, "b"),
				E: int32(rapid.SampledFrom([]int{0, 1, 2, -1, 3, 7, -2, math.MaxInt32, math.MinInt32}).Draw(t, "e")), Bool: rapid.Bool().Draw(t, "bool"),
				Proto: rapid.Bool().Draw(t, "proto"), Multi: rapid.Bool().Draw(t, "multi"),
			}
		},
		Check: checkMarshal,
		NonTrivial: func(c marshalCase) bool {
			return c.U64 > 1<<53 || c.I64 > 1<<53 || c.I64 < -(1<<53) || strings.ContainsAny(b64(c.B, stdAlphabet, true), "+/=")
		},
		Classes: func(c marshalCase) []string {
			var out []string
			if c.U64 > 1<<53 {
				out = append(out, "u64>2^53")
			}
			if c.I64 < -(1 << 53) {
				out = append(out, "i64<-2^53")
			}
			f := math.Float64frombits(c.F64)
			if math.IsNaN(f) || math.IsInf(f, 0) {
				out = append(out, "f64-nonfinite")
			}
			if g := math.Float32frombits(c.F32); g != g || math.IsInf(float64(g), 0) {
				out = append(out, "f32-nonfinite")
			}
			if _, ok := map[int32]bool{0: true, 1: true, 2: true, -1: true}[c.E]; !ok {
				out = append(out, "enum-undeclared")
			}
			if strings.ContainsAny(b64(c.B, stdAlphabet, true), "+/") {
				out = append(out, "bytes+/")
			}
			return out
		},
		Quick: 10000, Thorough: 80000,
	})
}
