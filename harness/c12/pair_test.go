package c12

import (
	"google.golang.org/protobuf/reflect/protoreflect"
	"google.golang.org/protobuf/runtime/protoimpl"
	"google.golang.org/protobuf/types/dynamicpb"
	"google.golang.org/protobuf/zverif/mcase"

	testpb "google.golang.org/protobuf/internal/testprotos/test"
)

// No linked test proto has a oneof with two members of the SAME message type, a common shape in
// real schemas (and one where "reuse the existing submessage" shortcuts go wrong). Pair is a
// hand-written message in the style of protoc-gen-go's open API (struct tags + XXX_OneofWrappers);
// the runtime derives its descriptor and drives it through the table-driven fast path.
type Pair struct {
	Choice isPair_Choice `protobuf_oneof:"choice"`
	Other  isPair_Other  `protobuf_oneof:"other"`
	Plain  *int32        `protobuf:"varint,9,opt,name=plain"`
}

func (m *Pair) Reset()         { *m = Pair{} }
func (m *Pair) String() string { return "Pair" }
func (*Pair) ProtoMessage()    {}

type isPair_Choice interface{ isPair_Choice() }
type isPair_Other interface{ isPair_Other() }

type Pair_First struct {
	First *testpb.TestAllTypes_NestedMessage `protobuf:"bytes,1,opt,name=first,oneof"`
}
type Pair_Second struct {
	Second *testpb.TestAllTypes_NestedMessage `protobuf:"bytes,2,opt,name=second,oneof"`
}
type Pair_Num struct {
	Num int32 `protobuf:"varint,3,opt,name=num,oneof"`
}
type Pair_Third struct {
	Third *testpb.TestAllTypes_NestedMessage `protobuf:"bytes,4,opt,name=third,oneof"`
}
type Pair_Raw struct {
	Raw []byte `protobuf:"bytes,5,opt,name=raw,oneof"`
}
type Pair_A struct {
	A *testpb.TestAllTypes `protobuf:"bytes,6,opt,name=a,oneof"`
}
type Pair_B struct {
	B *testpb.TestAllTypes `protobuf:"bytes,7,opt,name=b,oneof"`
}

func (*Pair_First) isPair_Choice()  {}
func (*Pair_Second) isPair_Choice() {}
func (*Pair_Num) isPair_Choice()    {}
func (*Pair_Third) isPair_Choice()  {}
func (*Pair_Raw) isPair_Choice()    {}
func (*Pair_A) isPair_Other()       {}
func (*Pair_B) isPair_Other()       {}

func (*Pair) XXX_OneofWrappers() []any {
	return []any{(*Pair_First)(nil), (*Pair_Second)(nil), (*Pair_Num)(nil), (*Pair_Third)(nil), (*Pair_Raw)(nil), (*Pair_A)(nil), (*Pair_B)(nil)}
}

const pairName = "zverif.c12.Pair (hand-written)"

// newMessage / descOf extend mcase.New / mcase.Desc with the hand-written type.
func newMessage(name string, dyn bool) protoreflect.Message {
	if md, ok := earlyDescs[name]; ok {
		return dynamicpb.NewMessage(md)
	}
	if name != pairName {
		return mcase.New(name, dyn)
	}
	m := protoimpl.X.ProtoMessageV2Of(&Pair{}).ProtoReflect()
	if dyn {
		return dynamicpb.NewMessage(m.Descriptor())
	}
	return m
}

func descOf(name string) protoreflect.MessageDescriptor {
	if md, ok := earlyDescs[name]; ok {
		return md
	}
	if name != pairName {
		return mcase.Desc(name)
	}
	return protoimpl.X.ProtoMessageV2Of(&Pair{}).ProtoReflect().Descriptor()
}
