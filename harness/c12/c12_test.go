package c12

import (
	"bytes"
	"fmt"
	"sort"
	"testing"

	"google.golang.org/protobuf/encoding/protojson"
	"google.golang.org/protobuf/encoding/prototext"
	"google.golang.org/protobuf/proto"
	"google.golang.org/protobuf/reflect/protoreflect"
	"google.golang.org/protobuf/zverif/corpus"
	"google.golang.org/protobuf/zverif/gen"
	"google.golang.org/protobuf/zverif/model"
	"google.golang.org/protobuf/zverif/ops"
	"google.golang.org/protobuf/zverif/pbt"
	"pgregory.net/rapid"
)

func isMember(fd protoreflect.FieldDescriptor) bool {
	return fd.ContainingOneof() != nil && !fd.ContainingOneof().IsSynthetic()
}

var oneofTypes = func() []string {
	var out []string
	for _, n := range corpus.Modern() {
		os := corpus.ByName(n).Descriptor().Oneofs()
		for i := 0; i < os.Len(); i++ {
			if !os.Get(i).IsSynthetic() && os.Get(i).Fields().Len() >= 2 {
				out = append(out, n)
				break
			}
		}
	}
	return out
}()

// step kinds: those of package ops (restricted to oneof members at the top level), plus
//   merge      proto.Merge(m, build(Src))
//   wiremerge  UnmarshalOptions{Merge:true}.Unmarshal(Raw) where Raw encodes Members in order
type step struct {
	ops.Op
	Src     *model.Msg    `json:"src,omitempty"`
	Members []model.Field `json:"members,omitempty"`
}

type oneofCase struct {
	Type    string
	Dynamic bool
	Lazy    bool
	Steps   []step
}

func checkOneof(c oneofCase) error {
	m := newMessage(c.Type, c.Dynamic)
	md := m.Descriptor() // (a derived descriptor is only identical to itself through the message)
	cur := &model.Msg{}
	for i, st := range c.Steps {
		switch st.Kind {
		case "merge":
			src := m.New()
			if err := model.Apply(src, st.Src, nil); err != nil {
				return fmt.Errorf("harness: %v", err)
			}
			proto.Merge(m.Interface(), src.Interface())
			cur = model.Merge(md, cur, st.Src, nil)
		case "wiremerge":
			var wire []byte
			for _, f := range st.Members {
				one := &model.Msg{Fields: []model.Field{f}}
				wire = append(wire, model.Encode(md, one, nil, model.EncOpts{}, nil)...)
				cur = model.Merge(md, cur, one, nil) // last on the wire wins; the same message member merges
			}
			if err := (proto.UnmarshalOptions{Merge: true, AllowPartial: true, NoLazyDecoding: !c.Lazy}).Unmarshal(wire, m.Interface()); err != nil {
				return fmt.Errorf("step %d: Unmarshal(Merge) of %x failed: %v", i, wire, err)
			}
		default:
			if err := ops.ApplyModel(md, cur, st.Op); err != nil {
				return err
			}
			if err := ops.ApplyMsg(m, st.Op); err != nil {
				return err
			}
		}
		if err := ops.Verify(m, cur); err != nil {
			return fmt.Errorf("after step %d %s: %v", i, st.Kind, err)
		}
		// at most one member populated, by direct inspection
		os := md.Oneofs()
		for j := 0; j < os.Len(); j++ {
			n := 0
			for k := 0; k < os.Get(j).Fields().Len(); k++ {
				if m.Has(os.Get(j).Fields().Get(k)) {
					n++
				}
			}
			if n > 1 {
				return fmt.Errorf("after step %d: %d members of oneof %s populated", i, n, os.Get(j).FullName())
			}
		}
	}
	return nil
}

func drawMember(t *rapid.T, md protoreflect.MessageDescriptor, mo gen.MsgOpts) (model.Field, bool) {
	var members []protoreflect.FieldDescriptor
	for i := 0; i < md.Fields().Len(); i++ {
		if isMember(md.Fields().Get(i)) {
			members = append(members, md.Fields().Get(i))
		}
	}
	fd := members[rapid.IntRange(0, len(members)-1).Draw(t, "member")]
	if fd.Message() != nil {
		return model.Field{Num: int32(fd.Number()), Vals: []model.Val{{M: gen.DrawMessage(t, fd.Message(), mo)}}}, true
	}
	return model.Field{Num: int32(fd.Number()), Vals: []model.Val{gen.DrawScalarOrZero(t, fd, mo)}}, true
}

func TestOneofHistory(t *testing.T) {
	mo := gen.DefaultMsgOpts
	mo.Extensions = false
	mo.Depth = 1
	mo.MaxFields = 3
	pbt.Run(t, pbt.Prop[oneofCase]{
		Name: "oneof-history",
		Rule: "types: modern linked types with a real oneof of >= 2 members (generated or dynamicpb), a hand-written struct-tag type with two same-type members, and two dynamicpb-only schemas whose oneofs start after one / two ordinary fields; 2..20 steps: reflection ops on oneof members (set incl. zero values, mutable, clear of active and inactive members), proto.Merge from a message with a drawn member, Merge-decoding of a wire with 1..4 members in drawn order. non-trivial = the active member changes >= 2 times incl. once via merge or decode",
		Draw: func(t *rapid.T) oneofCase {
			typ := pairName
			switch k := rapid.IntRange(0, 5).Draw(t, "pair?"); {
			case k == 1:
				typ = rapid.SampledFrom(earlyNames).Draw(t, "early")
			case k > 1:
				typ = rapid.SampledFrom(oneofTypes).Draw(t, "type")
			}
			c := oneofCase{Type: typ, Dynamic: rapid.IntRange(0, 3).Draw(t, "dyn") == 0, Lazy: rapid.Bool().Draw(t, "lazy")}
			md := descOf(c.Type)
			cur := &model.Msg{}
			n := rapid.IntRange(2, 20).Draw(t, "steps")
			for i := 0; i < n; i++ {
				switch rapid.IntRange(0, 5).Draw(t, "kind") {
				case 0:
					f, _ := drawMember(t, md, mo)
					src := &model.Msg{Fields: []model.Field{f}}
					if rapid.Bool().Draw(t, "extra") {
						so := mo
						so.SkipField = isMember
						extra := gen.DrawMessage(t, md, so)
						src.Fields = append(src.Fields, extra.Fields...)
					}
					c.Steps = append(c.Steps, step{Op: ops.Op{Kind: "merge"}, Src: src})
					cur = model.Merge(md, cur, src, nil)
				case 1:
					k := rapid.IntRange(1, 4).Draw(t, "nmembers")
					st := step{Op: ops.Op{Kind: "wiremerge"}}
					for j := 0; j < k; j++ {
						f, _ := drawMember(t, md, mo)
						st.Members = append(st.Members, f)
						cur = model.Merge(md, cur, &model.Msg{Fields: []model.Field{f}}, nil)
					}
					c.Steps = append(c.Steps, st)
				default:
					op := ops.DrawOp(t, md, cur, ops.GenOpts{Msg: mo, MaxDepth: 0, NoUnknown: true, OnlyFields: isMember})
					if err := ops.ApplyModel(md, cur, op); err != nil {
						panic(err)
					}
					c.Steps = append(c.Steps, step{Op: op})
				}
			}
			return c
		},
		Check: checkOneof,
		NonTrivial: func(c oneofCase) bool {
			md := descOf(c.Type)
			cur := &model.Msg{}
			switches, viaCodec := 0, false
			active := func() string {
				s := ""
				for _, f := range cur.Fields {
					if fd := md.Fields().ByNumber(protoreflect.FieldNumber(f.Num)); fd != nil && isMember(fd) {
						s += fmt.Sprint(f.Num, ",")
					}
				}
				return s
			}
			for _, st := range c.Steps {
				before := active()
				switch st.Kind {
				case "merge":
					cur = model.Merge(md, cur, st.Src, nil)
				case "wiremerge":
					for _, f := range st.Members {
						cur = model.Merge(md, cur, &model.Msg{Fields: []model.Field{f}}, nil)
					}
				default:
					ops.ApplyModel(md, cur, st.Op)
				}
				if active() != before {
					switches++
					if st.Kind == "merge" || st.Kind == "wiremerge" {
						viaCodec = true
					}
				}
			}
			return switches >= 2 && viaCodec
		},
		Classes: func(c oneofCase) []string {
			k := map[string]bool{}
			for _, st := range c.Steps {
				k[st.Kind] = true
			}
			var out []string
			for x := range k {
				out = append(out, x)
			}
			sort.Strings(out)
			return out
		},
		Quick: 6000, Thorough: 150000,
	})
}

// ---- JSON / text documents naming two members ------------------------------------------------------

type docCase struct {
	Type    string
	Dynamic bool
	A, B    model.Field // two members of one oneof (A.Num != B.Num)
	Proto   bool        // UseProtoNames for the JSON documents
	Swap    bool
}

func inner(doc []byte) []byte {
	doc = bytes.TrimSpace(doc)
	if len(doc) < 2 || doc[0] != '{' {
		return nil
	}
	return bytes.TrimSpace(doc[1 : len(doc)-1])
}

func checkDocs(c docCase) error {
	build := func(f model.Field) protoreflect.Message {
		m := newMessage(c.Type, c.Dynamic)
		model.Apply(m, &model.Msg{Fields: []model.Field{f}}, nil)
		return m
	}
	a, b := build(c.A), build(c.B)
	jo := protojson.MarshalOptions{AllowPartial: true, UseProtoNames: c.Proto}
	ja, err := jo.Marshal(a.Interface())
	if err != nil {
		return fmt.Errorf("harness: %v", err)
	}
	jb, err := (protojson.MarshalOptions{AllowPartial: true, UseProtoNames: c.Proto != c.Swap}).Marshal(b.Interface())
	if err != nil {
		return fmt.Errorf("harness: %v", err)
	}
	ju := protojson.UnmarshalOptions{AllowPartial: true}
	for _, single := range [][]byte{ja, jb} {
		if err := ju.Unmarshal(single, newMessage(c.Type, c.Dynamic).Interface()); err != nil {
			return fmt.Errorf("protojson rejects a document naming one oneof member: %v (%s)", err, single)
		}
	}
	if len(inner(ja)) > 0 && len(inner(jb)) > 0 {
		both := []byte("{" + string(inner(ja)) + "," + string(inner(jb)) + "}")
		if err := ju.Unmarshal(both, newMessage(c.Type, c.Dynamic).Interface()); err == nil {
			return fmt.Errorf("protojson accepts a document naming two members of one oneof: %s", both)
		}
	}
	to := prototext.MarshalOptions{AllowPartial: true}
	ta, err := to.Marshal(a.Interface())
	if err != nil {
		return fmt.Errorf("harness: %v", err)
	}
	tb, err := to.Marshal(b.Interface())
	if err != nil {
		return fmt.Errorf("harness: %v", err)
	}
	tu := prototext.UnmarshalOptions{AllowPartial: true}
	for _, single := range [][]byte{ta, tb} {
		if err := tu.Unmarshal(single, newMessage(c.Type, c.Dynamic).Interface()); err != nil {
			return fmt.Errorf("prototext rejects a document naming one oneof member: %v (%s)", err, single)
		}
	}
	if len(bytes.TrimSpace(ta)) > 0 && len(bytes.TrimSpace(tb)) > 0 {
		both := append(append(append([]byte(nil), ta...), '\n'), tb...)
		if err := tu.Unmarshal(both, newMessage(c.Type, c.Dynamic).Interface()); err == nil {
			return fmt.Errorf("prototext accepts a document naming two members of one oneof: %s", both)
		}
	}
	return nil
}

// google.protobuf.Value has its own JSON form (a bare JSON value), not an object with member names
var docTypes = func() []string {
	var out []string
	for _, n := range oneofTypes {
		if !gen.ConstrainedJSON[protoreflect.FullName(n)] {
			out = append(out, n)
		}
	}
	return out
}()

func TestTwoMemberDocs(t *testing.T) {
	mo := gen.DefaultMsgOpts
	mo.Extensions = false
	mo.Unknown = false
	mo.Depth = 1
	mo.MaxFields = 2
	mo.ValidUTF8 = true
	mo.SkipField = gen.SkipConstrainedJSON
	pbt.Run(t, pbt.Prop[docCase]{
		Name: "two-member-docs",
		Rule: "two distinct members of one real oneof with generated values (zero values included: an explicitly present zero is still 'named'); the JSON documents use JSON names, proto names or one of each. non-trivial = one of the two members is a message/group or holds a zero value",
		Draw: func(t *rapid.T) docCase {
			c := docCase{Type: rapid.SampledFrom(docTypes).Draw(t, "type"), Dynamic: rapid.IntRange(0, 3).Draw(t, "dyn") == 0, Proto: rapid.Bool().Draw(t, "protonames"), Swap: rapid.Bool().Draw(t, "mixnames")}
			md := descOf(c.Type)
			var ods []protoreflect.OneofDescriptor
			for i := 0; i < md.Oneofs().Len(); i++ {
				if od := md.Oneofs().Get(i); !od.IsSynthetic() && od.Fields().Len() >= 2 {
					ods = append(ods, od)
				}
			}
			od := ods[rapid.IntRange(0, len(ods)-1).Draw(t, "oneof")]
			i := rapid.IntRange(0, od.Fields().Len()-1).Draw(t, "a")
			j := rapid.IntRange(0, od.Fields().Len()-2).Draw(t, "b")
			if j >= i {
				j++
			}
			val := func(fd protoreflect.FieldDescriptor) model.Field {
				if fd.Message() != nil {
					if gen.ConstrainedJSON[fd.Message().FullName()] {
						return model.Field{Num: int32(fd.Number()), Vals: []model.Val{{M: &model.Msg{}}}}
					}
					return model.Field{Num: int32(fd.Number()), Vals: []model.Val{{M: gen.DrawMessage(t, fd.Message(), mo)}}}
				}
				return model.Field{Num: int32(fd.Number()), Vals: []model.Val{gen.DrawScalarOrZero(t, fd, mo)}}
			}
			c.A, c.B = val(od.Fields().Get(i)), val(od.Fields().Get(j))
			return c
		},
		Check: checkDocs,
		NonTrivial: func(c docCase) bool {
			z := func(f model.Field) bool { return f.Vals[0].M != nil || (f.Vals[0].U == 0 && len(f.Vals[0].B) == 0) }
			return z(c.A) || z(c.B)
		},
		Quick: 5000, Thorough: 100000,
	})
}
