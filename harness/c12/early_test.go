package c12

// Schemas in which a oneof sits after one or two ordinary fields, so that a member's index within
// the oneof and its index within the message differ by a small offset (in the linked corpus oneofs
// either start the message or come after dozens of fields). Known through dynamicpb only.

import (
	"google.golang.org/protobuf/proto"
	"google.golang.org/protobuf/reflect/protodesc"
	"google.golang.org/protobuf/reflect/protoreflect"
	"google.golang.org/protobuf/reflect/protoregistry"
	"google.golang.org/protobuf/types/descriptorpb"
)

var earlyDescs = func() map[string]protoreflect.MessageDescriptor {
	opt := descriptorpb.FieldDescriptorProto_LABEL_OPTIONAL.Enum()
	fld := func(name string, num int32, t descriptorpb.FieldDescriptorProto_Type, oneof int32, typeName string) *descriptorpb.FieldDescriptorProto {
		f := &descriptorpb.FieldDescriptorProto{Name: proto.String(name), Number: proto.Int32(num), Label: opt, Type: t.Enum()}
		if oneof >= 0 {
			f.OneofIndex = proto.Int32(oneof)
		}
		if typeName != "" {
			f.TypeName = proto.String(typeName)
		}
		return f
	}
	const (
		tI32 = descriptorpb.FieldDescriptorProto_TYPE_INT32
		tStr = descriptorpb.FieldDescriptorProto_TYPE_STRING
		tMsg = descriptorpb.FieldDescriptorProto_TYPE_MESSAGE
		tByt = descriptorpb.FieldDescriptorProto_TYPE_BYTES
		tBoo = descriptorpb.FieldDescriptorProto_TYPE_BOOL
	)
	fdp := &descriptorpb.FileDescriptorProto{
		Name: proto.String("zverif/c12/early.proto"), Package: proto.String("zverif.c12"), Syntax: proto.String("proto3"),
		MessageType: []*descriptorpb.DescriptorProto{
			{Name: proto.String("Sub"), Field: []*descriptorpb.FieldDescriptorProto{fld("a", 1, tI32, -1, ""), fld("s", 2, tStr, -1, "")}},
			{Name: proto.String("Early1"),
				Field: []*descriptorpb.FieldDescriptorProto{fld("id", 1, tStr, -1, ""),
					fld("num", 2, tI32, 0, ""), fld("text", 3, tStr, 0, ""), fld("sub", 4, tMsg, 0, ".zverif.c12.Sub"), fld("raw", 5, tByt, 0, "")},
				OneofDecl: []*descriptorpb.OneofDescriptorProto{{Name: proto.String("payload")}}},
			{Name: proto.String("Early2"),
				Field: []*descriptorpb.FieldDescriptorProto{fld("id", 1, tStr, -1, ""), fld("n", 2, tI32, -1, ""),
					fld("a", 3, tI32, 0, ""), fld("b", 4, tStr, 0, ""), fld("c", 5, tMsg, 0, ".zverif.c12.Sub"), fld("d", 6, tBoo, 0, ""), fld("e", 7, tMsg, 0, ".zverif.c12.Sub"),
					fld("tail", 8, tStr, -1, ""),
					fld("x", 9, tI32, 1, ""), fld("y", 10, tMsg, 1, ".zverif.c12.Sub"), fld("z", 11, tStr, 1, "")},
				OneofDecl: []*descriptorpb.OneofDescriptorProto{{Name: proto.String("first")}, {Name: proto.String("second")}}},
		},
	}
	fd, err := protodesc.NewFile(fdp, &protoregistry.Files{})
	if err != nil {
		panic(err)
	}
	out := map[string]protoreflect.MessageDescriptor{}
	for _, n := range []string{"Early1", "Early2"} {
		out["zverif.c12."+n+" (dynamicpb only)"] = fd.Messages().ByName(protoreflect.Name(n))
	}
	return out
}()

var earlyNames = []string{"zverif.c12.Early1 (dynamicpb only)", "zverif.c12.Early2 (dynamicpb only)"}
