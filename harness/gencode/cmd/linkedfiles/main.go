// Command linkedfiles writes a FileDescriptorSet with every file registered in
// protoregistry.GlobalFiles of a binary that links harness/corpus (all generated packages of the
// tree under test), sorted by path, to stdout. Used by gencode.LinkedFiles.
package main

import (
	"os"
	"sort"

	"google.golang.org/protobuf/proto"
	"google.golang.org/protobuf/reflect/protodesc"
	"google.golang.org/protobuf/reflect/protoreflect"
	"google.golang.org/protobuf/reflect/protoregistry"
	"google.golang.org/protobuf/types/descriptorpb"

	_ "google.golang.org/protobuf/zverif/corpus"
)

func main() {
	var fds []protoreflect.FileDescriptor
	protoregistry.GlobalFiles.RangeFiles(func(fd protoreflect.FileDescriptor) bool {
		fds = append(fds, fd)
		return true
	})
	sort.Slice(fds, func(i, j int) bool { return fds[i].Path() < fds[j].Path() })
	set := &descriptorpb.FileDescriptorSet{}
	for _, fd := range fds {
		set.File = append(set.File, protodesc.ToFileDescriptorProto(fd))
	}
	b, err := proto.MarshalOptions{Deterministic: true}.Marshal(set)
	if err != nil {
		os.Stderr.WriteString(err.Error() + "\n")
		os.Exit(1)
	}
	os.Stdout.Write(b)
}
