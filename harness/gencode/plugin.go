package gencode

import (
	"bytes"
	"fmt"
	"os"
	"os/exec"
	"path/filepath"
	"regexp"
	"strings"
	"sync"
	"time"

	"google.golang.org/protobuf/proto"
	"google.golang.org/protobuf/types/descriptorpb"
)

func envOr(k, d string) string {
	if v := os.Getenv(k); v != "" {
		return v
	}
	return d
}

var (
	verifRoot = envOr("VERIF_ROOT", "/verif")
	verifRepo = envOr("VERIF_REPO", "/repo")
	buildDir  = envOr("VERIF_BUILD_DIR", filepath.Join(verifRoot, ".build"))
)

var nonAlnum = regexp.MustCompile(`[^A-Za-z0-9]`)

func repoTag() string { return nonAlnum.ReplaceAllString(verifRepo, "_") }

// modfileArgs mirrors the driver: when VERIF_REPO points at a scratch tree, builds use a temporary
// go.mod whose replace directive points there.
func modfileArgs() ([]string, error) {
	if verifRepo == "/repo" {
		return nil, nil
	}
	harness := filepath.Join(verifRoot, "harness")
	mf := filepath.Join(buildDir, "go."+repoTag()+".mod")
	if _, err := os.Stat(mf); err != nil {
		src, err := os.ReadFile(filepath.Join(harness, "go.mod"))
		if err != nil {
			return nil, err
		}
		os.MkdirAll(buildDir, 0o755)
		tmp := fmt.Sprintf("%s.%d.tmp", mf, os.Getpid())
		if err := os.WriteFile(tmp, []byte(strings.ReplaceAll(string(src), "=> /repo", "=> "+verifRepo)), 0o644); err != nil {
			return nil, err
		}
		os.Rename(tmp, mf)
		if sum, err := os.ReadFile(filepath.Join(harness, "go.sum")); err == nil {
			os.WriteFile(strings.TrimSuffix(mf, ".mod")+".sum", sum, 0o644)
		}
	}
	return []string{"-modfile=" + mf}, nil
}

func goEnv() []string {
	env := os.Environ()
	env = append(env, "GOFLAGS=-mod=mod", "GOPROXY=off", "GOSUMDB=off", "GOTOOLCHAIN=local", "GONOSUMDB=*", "GONOSUMCHECK=1")
	if os.Getenv("GOCACHE") == "" {
		if home, err := os.UserHomeDir(); err == nil {
			env = append(env, "GOCACHE="+filepath.Join(home, ".cache", "go-build"))
		}
	}
	return env
}

// BuildTool builds main package pkg (an import path resolved through the harness go.mod, i.e. from
// the tree under test for google.golang.org/protobuf/...) into VERIF_BUILD_DIR and returns the path
// of the binary. Safe to call from concurrently running shards (private output name per process).
func BuildTool(name, pkg string) (string, error) {
	mf, err := modfileArgs()
	if err != nil {
		return "", err
	}
	os.MkdirAll(buildDir, 0o755)
	// binaries of processes that died before RemoveTools
	if old, _ := filepath.Glob(filepath.Join(buildDir, name+"-"+repoTag()+"-*")); len(old) > 0 {
		for _, o := range old {
			if st, err := os.Stat(o); err == nil && time.Since(st.ModTime()) > 3*time.Hour {
				os.Remove(o)
			}
		}
	}
	out := filepath.Join(buildDir, fmt.Sprintf("%s-%s-%d", name, repoTag(), os.Getpid()))
	args := append([]string{"build"}, mf...)
	args = append(args, "-o", out, pkg)
	// a loaded machine occasionally fails a build for reasons that have nothing to do with the
	// sources (fork limits, a concurrently trimmed build cache): try a few times
	var last error
	for attempt := 0; attempt < 4; attempt++ {
		if attempt > 0 {
			time.Sleep(time.Duration(attempt) * 3 * time.Second)
		}
		cmd := exec.Command("go", args...)
		cmd.Dir = filepath.Join(verifRoot, "harness")
		cmd.Env = goEnv()
		b, err := cmd.CombinedOutput()
		if err == nil {
			return out, nil
		}
		last = fmt.Errorf("go %s: %v\n%s", strings.Join(args, " "), err, b)
	}
	return "", last
}

var (
	pluginOnce sync.Once
	pluginPath string
	pluginErr  error
)

// BuildPlugin builds the real cmd/protoc-gen-go of the tree under test (once per process).
// Call RemoveTools when done.
func BuildPlugin() (string, error) {
	pluginOnce.Do(func() {
		pluginPath, pluginErr = BuildTool("protoc-gen-go", "google.golang.org/protobuf/cmd/protoc-gen-go")
		if pluginErr == nil {
			tools = append(tools, pluginPath)
		}
	})
	return pluginPath, pluginErr
}

var tools []string

// RemoveTools deletes the binaries this process built.
func RemoveTools() {
	for _, t := range tools {
		os.Remove(t)
	}
	tools = nil
}

// RunPlugin feeds a serialised CodeGeneratorRequest to the plugin binary. err is non-nil when the
// process could not be run or exited non-zero (stderr then carries the message).
func RunPlugin(bin string, reqBytes []byte) (stdout, stderr []byte, err error) {
	for attempt := 0; ; attempt++ {
		cmd := exec.Command(bin)
		cmd.Stdin = bytes.NewReader(reqBytes)
		var so, se bytes.Buffer
		cmd.Stdout, cmd.Stderr = &so, &se
		cmd.Env = append(os.Environ(), "GOMAXPROCS=2")
		err = cmd.Run()
		if _, exited := err.(*exec.ExitError); err != nil && !exited && attempt < 3 {
			time.Sleep(time.Duration(attempt+1) * time.Second) // could not be started (fork limit): not an answer
			continue
		}
		if ee, ok := err.(*exec.ExitError); ok && !ee.Exited() && attempt < 3 {
			time.Sleep(time.Duration(attempt+1) * time.Second) // killed by a signal
			continue
		}
		return so.Bytes(), se.Bytes(), err
	}
}

// Started reports whether err (from RunPlugin) still describes a process that ran to an exit status.
func Started(err error) bool {
	if err == nil {
		return true
	}
	ee, ok := err.(*exec.ExitError)
	return ok && ee.Exited()
}

var (
	linkedOnce sync.Once
	linked     []*descriptorpb.FileDescriptorProto
	linkedErr  error
)

// LinkedFiles returns the descriptor protos (protodesc.ToFileDescriptorProto) of every file
// registered in protoregistry.GlobalFiles of a helper process that links harness/corpus (every
// generated package of the tree under test), sorted by path. Options that use extensions arrive as
// the calling binary parses them (unknown fields unless the extension is linked here too).
func LinkedFiles() ([]*descriptorpb.FileDescriptorProto, error) {
	linkedOnce.Do(func() {
		bin, err := BuildTool("linkedfiles", "google.golang.org/protobuf/zverif/gencode/cmd/linkedfiles")
		if err != nil {
			linkedErr = err
			return
		}
		defer os.Remove(bin)
		out, err := exec.Command(bin).Output()
		if err != nil {
			linkedErr = fmt.Errorf("linkedfiles: %v", err)
			return
		}
		set := &descriptorpb.FileDescriptorSet{}
		if err := proto.Unmarshal(out, set); err != nil {
			linkedErr = err
			return
		}
		linked = set.File
	})
	return linked, linkedErr
}
