package gencode

import (
	"bytes"
	"testing"

	"google.golang.org/protobuf/proto"
	"google.golang.org/protobuf/zverif/schema"
	"pgregory.net/rapid"
)

// Smoke test: random schema sets generate in process, and the plugin binary returns the same bytes.
func TestSmoke(t *testing.T) {
	if got := ExtensionsLinked(); len(got) != 1 {
		t.Fatalf("extensions linked: %v", got)
	}
	bin, err := BuildPlugin()
	if err != nil {
		t.Fatal(err)
	}
	defer RemoveTools()
	lf, err := LinkedFiles()
	if err != nil {
		t.Fatal(err)
	}
	t.Logf("%d linked files", len(lf))
	n, okc := 0, 0
	rapid.Check(t, func(rt *rapid.T) {
		files := schema.Draw(rt, schema.Opts{WellKnown: true, AdversarialNames: rapid.Bool().Draw(rt, "adv")})
		AssignGoPackages(files, "example.com/gen", false)
		lvl := rapid.SampledFrom(APILevels).Draw(rt, "lvl")
		req, err := Request(files, nil, "default_api_level="+lvl)
		if err != nil {
			rt.Fatal(err)
		}
		rb, _ := proto.Marshal(req)
		out, err := GenerateBytes(rb)
		n++
		if err != nil {
			t.Logf("New: %v", err)
			return
		}
		resp, _ := Generate(req)
		if resp.Error != nil {
			t.Logf("resp.Error: %.300s", resp.GetError())
			return
		}
		okc++
		if n%10 == 0 {
			so, se, err := RunPlugin(bin, rb)
			if err != nil {
				rt.Fatalf("plugin: %v %s", err, se)
			}
			if !bytes.Equal(so, out) {
				rt.Fatalf("plugin bytes differ")
			}
		}
	})
	t.Logf("%d cases, %d generated", n, okc)
}
