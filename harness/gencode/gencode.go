// Package gencode drives the CURRENT tree's protoc-gen-go (compiler/protogen +
// cmd/protoc-gen-go/internal_gengo) without protoc: it builds a pluginpb.CodeGeneratorRequest from
// FileDescriptorProtos, runs the generator in process exactly the way cmd/protoc-gen-go/main.go does,
// and (plugin.go) builds and runs the real cmd/protoc-gen-go binary of the tree under test.
//
// # API
//
//	gencode.AssignGoPackages(files, "example.com/gen", false) // option go_package for files that have none
//	req, err := gencode.Request(files, nil, "default_api_level=API_OPAQUE") // nil = generate every file of the set
//	resp, err := gencode.Generate(req)                        // in process; err only for a failing Options.New
//	out := gencode.Files(resp)                                // name -> content
//	raw, err := gencode.GenerateBytes(reqBytes)               // what the plugin binary would write to stdout
//	bin, err := gencode.BuildPlugin()                         // real cmd/protoc-gen-go of the tree under test
//	stdout, stderr, err := gencode.RunPlugin(bin, reqBytes)
//	lf, err := gencode.LinkedFiles()                          // descriptor protos of every file linked by harness/corpus (helper process)
//
// files is a set in dependency order whose imports are either in the set or one of the files linked
// into the calling binary (google/protobuf/descriptor.proto, go_features.proto, any.proto, … — see
// harness/schema with Opts.WellKnown); Request prepends those linked files, dependencies first, as
// protodesc.ToFileDescriptorProto renders them, the way protoc hands a plugin the full closure.
//
// Generator parameters (CodeGeneratorRequest.parameter, comma separated):
//
//	default_api_level=API_OPEN|API_HYBRID|API_OPAQUE   apilevelM<file>=API_…
//	paths=import|source_relative    module=<prefix>    M<file>=<import path>[;<package name>]
//	annotate_code[=true|false]      experimental_strip_nonfunctional_codegen=true
//
// Every file the generator loads (the files to generate and everything they import) needs a Go import
// path containing a '.' or a '/': option go_package or an M parameter (the well-known files carry one).
//
// The package deliberately does not import harness/corpus: the set of extension types linked into a
// binary changes how options of a request are parsed (known extension fields are re-marshalled before
// regular fields, unknown ones after), and the plugin binary links only (pb.go) of go_features.proto.
package gencode

import (
	"flag"
	"fmt"
	"sort"
	"strings"
	"sync"

	"google.golang.org/protobuf/cmd/protoc-gen-go/internal_gengo"
	"google.golang.org/protobuf/compiler/protogen"
	"google.golang.org/protobuf/proto"
	"google.golang.org/protobuf/reflect/protodesc"
	"google.golang.org/protobuf/reflect/protoreflect"
	"google.golang.org/protobuf/reflect/protoregistry"
	"google.golang.org/protobuf/types/descriptorpb"
	"google.golang.org/protobuf/types/pluginpb"

	_ "google.golang.org/protobuf/types/gofeaturespb"
)

// API levels accepted by default_api_level= and apilevelM<file>=.
var APILevels = []string{"API_OPEN", "API_HYBRID", "API_OPAQUE"}

// CompilerVersion is the protoc version written into requests (it shows up in the generated header).
var CompilerVersion = &pluginpb.Version{Major: proto.Int32(5), Minor: proto.Int32(29), Patch: proto.Int32(1)}

// LinkedClosure returns the descriptor protos of the files linked into this binary that the set
// imports (transitively) and does not contain itself, dependencies first. The returned protos are
// shared between calls: do not modify them.
func LinkedClosure(files []*descriptorpb.FileDescriptorProto) ([]*descriptorpb.FileDescriptorProto, error) {
	own := map[string]bool{}
	for _, f := range files {
		own[f.GetName()] = true
	}
	seen := map[string]bool{}
	var out []*descriptorpb.FileDescriptorProto
	var add func(path string) error
	add = func(path string) error {
		if seen[path] || own[path] {
			return nil
		}
		seen[path] = true
		fd, err := protoregistry.GlobalFiles.FindFileByPath(path)
		if err != nil {
			return fmt.Errorf("gencode: import %q is neither in the set nor linked in", path)
		}
		imps := fd.Imports()
		for i := 0; i < imps.Len(); i++ {
			if err := add(imps.Get(i).Path()); err != nil {
				return err
			}
		}
		out = append(out, linkedProto(fd))
		return nil
	}
	for _, f := range files {
		for _, d := range f.GetDependency() {
			if err := add(d); err != nil {
				return nil, err
			}
		}
	}
	return out, nil
}

var (
	linkedProtoMu    sync.Mutex
	linkedProtoCache = map[string]*descriptorpb.FileDescriptorProto{}
)

// linkedProto converts a linked file once; the result is shared (treat it as read-only: Generate
// works on a re-parsed copy of the request).
func linkedProto(fd protoreflect.FileDescriptor) *descriptorpb.FileDescriptorProto {
	linkedProtoMu.Lock()
	defer linkedProtoMu.Unlock()
	p := linkedProtoCache[fd.Path()]
	if p == nil {
		p = protodesc.ToFileDescriptorProto(fd)
		linkedProtoCache[fd.Path()] = p
	}
	return p
}

// AssignGoPackages gives files a go_package option "<base>/p<i>;p<i>pb" (i = index in the slice, so
// every file is its own Go package). With overwrite = false files that already have one keep it.
// The protos are modified in place.
func AssignGoPackages(files []*descriptorpb.FileDescriptorProto, base string, overwrite bool) {
	for i, f := range files {
		if f.GetOptions().GetGoPackage() != "" && !overwrite {
			continue
		}
		if f.Options == nil {
			f.Options = &descriptorpb.FileOptions{}
		}
		f.Options.GoPackage = proto.String(fmt.Sprintf("%s/p%d;p%dpb", strings.TrimSuffix(base, "/"), i, i))
	}
}

// MParams renders M<file>=<import path> parameters (sorted by file name) for Request.
func MParams(importPaths map[string]string) string {
	var names []string
	for n := range importPaths {
		names = append(names, n)
	}
	sort.Strings(names)
	var ps []string
	for _, n := range names {
		ps = append(ps, "M"+n+"="+importPaths[n])
	}
	return strings.Join(ps, ",")
}

// JoinParams joins non-empty parameter groups with commas.
func JoinParams(ps ...string) string {
	var out []string
	for _, p := range ps {
		if p != "" {
			out = append(out, p)
		}
	}
	return strings.Join(out, ",")
}

// Request builds the request protoc would send for the set: proto_file = linked closure + files (in
// the given order), file_to_generate = toGenerate (nil: every file of the set, in order), parameter = params.
func Request(files []*descriptorpb.FileDescriptorProto, toGenerate []string, params string) (*pluginpb.CodeGeneratorRequest, error) {
	wk, err := LinkedClosure(files)
	if err != nil {
		return nil, err
	}
	req := &pluginpb.CodeGeneratorRequest{CompilerVersion: proto.Clone(CompilerVersion).(*pluginpb.Version)}
	if params != "" {
		req.Parameter = proto.String(params)
	}
	req.ProtoFile = append(req.ProtoFile, wk...)
	req.ProtoFile = append(req.ProtoFile, files...)
	if toGenerate == nil {
		for _, f := range files {
			toGenerate = append(toGenerate, f.GetName())
		}
	}
	req.FileToGenerate = append(req.FileToGenerate, toGenerate...)
	return req, nil
}

// Generate runs protoc-gen-go in process on a private copy of req (protogen re-parses and thereby
// modifies the request's descriptor protos when the files declare extensions), mirroring
// cmd/protoc-gen-go/main.go. The error is the one Options.New returns (the binary prints it to
// stderr and exits 1); generator errors are reported in resp.Error like the binary does.
func Generate(req *pluginpb.CodeGeneratorRequest) (*pluginpb.CodeGeneratorResponse, error) {
	b, err := proto.Marshal(req)
	if err != nil {
		return nil, err
	}
	return generate(b)
}

func generate(reqBytes []byte) (*pluginpb.CodeGeneratorResponse, error) {
	req := &pluginpb.CodeGeneratorRequest{}
	if err := proto.Unmarshal(reqBytes, req); err != nil {
		return nil, err
	}
	var flags flag.FlagSet
	plugins := flags.String("plugins", "", "deprecated option")
	strip := flags.Bool("experimental_strip_nonfunctional_codegen", false, "")
	gen, err := protogen.Options{ParamFunc: flags.Set, InternalStripForEditionsDiff: strip}.New(req)
	if err != nil {
		return nil, err
	}
	if *plugins != "" {
		gen.Error(fmt.Errorf("protoc-gen-go: plugins are not supported"))
	} else {
		for _, f := range gen.Files {
			if f.Generate {
				internal_gengo.GenerateFile(gen, f)
			}
		}
		gen.SupportedFeatures = internal_gengo.SupportedFeatures
		gen.SupportedEditionsMinimum = internal_gengo.SupportedEditionsMinimum
		gen.SupportedEditionsMaximum = internal_gengo.SupportedEditionsMaximum
	}
	return gen.Response(), nil
}

// GenerateBytes is Generate on a serialised request, returning the serialised response (what the
// plugin binary writes to stdout).
func GenerateBytes(reqBytes []byte) ([]byte, error) {
	resp, err := generate(reqBytes)
	if err != nil {
		return nil, err
	}
	return proto.Marshal(resp)
}

// Plugin gives access to the protogen model (Files, Messages, Fields with their Go names) of a request
// without generating anything.
func Plugin(req *pluginpb.CodeGeneratorRequest) (*protogen.Plugin, error) {
	b, err := proto.Marshal(req)
	if err != nil {
		return nil, err
	}
	req2 := &pluginpb.CodeGeneratorRequest{}
	if err := proto.Unmarshal(b, req2); err != nil {
		return nil, err
	}
	var flags flag.FlagSet
	flags.String("plugins", "", "")
	strip := flags.Bool("experimental_strip_nonfunctional_codegen", false, "")
	return protogen.Options{ParamFunc: flags.Set, InternalStripForEditionsDiff: strip}.New(req2)
}

// Files returns the generated files of a response by name.
func Files(resp *pluginpb.CodeGeneratorResponse) map[string]string {
	out := map[string]string{}
	for _, f := range resp.GetFile() {
		out[f.GetName()] = f.GetContent()
	}
	return out
}

// Names returns the generated file names in response order.
func Names(resp *pluginpb.CodeGeneratorResponse) []string {
	var out []string
	for _, f := range resp.GetFile() {
		out = append(out, f.GetName())
	}
	return out
}

// TopoOrder reorders files so that every file comes after the files it imports, choosing among the
// ready files the one with the smallest prio (prio[i] belongs to files[i]; missing entries count as
// 0; ties by original position). Imports that are not in the slice are ignored.
func TopoOrder(files []*descriptorpb.FileDescriptorProto, prio []int) []*descriptorpb.FileDescriptorProto {
	idx := map[string]int{}
	for i, f := range files {
		idx[f.GetName()] = i
	}
	p := func(i int) int {
		if i < len(prio) {
			return prio[i]
		}
		return 0
	}
	done := make([]bool, len(files))
	var out []*descriptorpb.FileDescriptorProto
	for len(out) < len(files) {
		best := -1
		for i, f := range files {
			if done[i] {
				continue
			}
			ready := true
			for _, d := range f.GetDependency() {
				if j, ok := idx[d]; ok && !done[j] && j != i {
					ready = false
					break
				}
			}
			if ready && (best < 0 || p(i) < p(best)) {
				best = i
			}
		}
		if best < 0 { // import cycle: cannot happen for valid sets; keep the rest in order
			for i, f := range files {
				if !done[i] {
					done[i] = true
					out = append(out, f)
				}
			}
			break
		}
		done[best] = true
		out = append(out, files[best])
	}
	return out
}

// GoImportPathOf returns the import path part of a file's go_package option.
func GoImportPathOf(f *descriptorpb.FileDescriptorProto) string {
	s := f.GetOptions().GetGoPackage()
	if i := strings.Index(s, ";"); i >= 0 {
		s = s[:i]
	}
	return s
}

// ExtensionsLinked lists the full names of the extension types registered in this binary (the real
// plugin links exactly pb.go of go_features.proto).
func ExtensionsLinked() []string {
	var out []string
	protoregistry.GlobalTypes.RangeExtensions(func(xt protoreflect.ExtensionType) bool {
		out = append(out, string(xt.TypeDescriptor().FullName()))
		return true
	})
	sort.Strings(out)
	return out
}
