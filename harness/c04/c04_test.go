package c04

import (
	"bytes"
	"fmt"
	"testing"

	"google.golang.org/protobuf/proto"
	"google.golang.org/protobuf/reflect/protoreflect"
	"google.golang.org/protobuf/zverif/corpus"
	"google.golang.org/protobuf/zverif/gen"
	"google.golang.org/protobuf/zverif/mcase"
	"google.golang.org/protobuf/zverif/model"
	"google.golang.org/protobuf/zverif/pbt"
	"pgregory.net/rapid"
)

type sizeCase struct {
	mcase.Case
	Source     string // "built" | "decoded" (from Marshal output) | "decoded-ref" (from the perturbed reference encoding) | "recycled"
	Lazy       bool
	Det        bool
	Prefix     []byte
	SpareCap   int
	TouchFirst bool // access every field between Size and Marshal (only matters for lazy messages)
	// Source "recycled": the instance held Pre before (see mcase.Recycle)
	Pre        *model.Msg `json:",omitempty"`
	PreMarshal bool       `json:",omitempty"`
	Hollowed   int        `json:",omitempty"`
}

func (c sizeCase) message() (protoreflect.Message, error) {
	m, err := c.Build()
	if c.Source == "recycled" {
		// an instance that held Pre, was sized / marshalled (all caches warm), and was then
		// transformed in place into c.M
		pc := c.Case
		pc.M = c.Pre
		m, err = pc.Build()
		if err != nil {
			return nil, fmt.Errorf("harness: %v", err)
		}
		mo := proto.MarshalOptions{AllowPartial: true, Deterministic: c.Det}
		if c.PreMarshal {
			if _, err := mo.Marshal(m.Interface()); err != nil {
				return nil, fmt.Errorf("Marshal of the previous (valid) content failed: %v", err)
			}
		} else {
			mo.Size(m.Interface())
		}
		if err := mcase.Recycle(m, c.M); err != nil {
			return nil, fmt.Errorf("harness: %v", err)
		}
		return m, nil
	}
	if err != nil || c.Source == "built" {
		return m, err
	}
	in := c.Wire
	if c.Source == "decoded" {
		in, err = proto.MarshalOptions{AllowPartial: true}.Marshal(m.Interface())
		if err != nil {
			return nil, fmt.Errorf("Marshal: %v", err)
		}
	}
	m2 := mcase.New(c.Type, c.Dynamic)
	if err := (proto.UnmarshalOptions{AllowPartial: true, NoLazyDecoding: !c.Lazy}).Unmarshal(in, m2.Interface()); err != nil {
		return nil, fmt.Errorf("Unmarshal of valid encoding failed: %v (%x)", err, in)
	}
	return m2, nil
}

func hasLabel(ls []string, want string) bool {
	for _, l := range ls {
		if l == want {
			return true
		}
	}
	return false
}

func checkSize(c sizeCase) error {
	m, err := c.message()
	if err != nil {
		return err
	}
	mo := proto.MarshalOptions{Deterministic: c.Det, AllowPartial: true}
	// the documented exception: lazily decoded from non-minimal bytes
	// ("non-minimal wire format": padded varints, a submessage split into several occurrences,
	// unpacked/packed switches, overwritten earlier occurrences, … — any perturbation label)
	exception := c.Source == "decoded-ref" && c.Lazy && !c.Dynamic && len(c.Labels) > 0
	size := mo.Size(m.Interface())
	if c.TouchFirst {
		model.Snapshot(m) // reads every field, forcing lazy decoding
	}
	b, err := mo.Marshal(m.Interface())
	if err != nil {
		return fmt.Errorf("Marshal failed: %v", err)
	}
	if c.TouchFirst && exception {
		// "Size might return more bytes than Marshal will write": asserted where the perturbations can
		// only lengthen the input. Map entries with an omitted default key/value and the packed form of
		// an unpacked field are non-canonical too but *shorter* than what Marshal writes once the lazy
		// field has been expanded; the property carves the whole non-minimal case out, so no relation
		// is asserted for them.
		shrinking := hasLabel(c.Labels, "map-omitted-key") || hasLabel(c.Labels, "map-omitted-value") || hasLabel(c.Labels, "repacked")
		if size < len(b) && !shrinking {
			return fmt.Errorf("Size %d < len(Marshal) %d even under the lazy/non-minimal exception", size, len(b))
		}
	} else if size != len(b) {
		return fmt.Errorf("Size = %d but len(Marshal) = %d (source %s lazy %v det %v labels %v)", size, len(b), c.Source, c.Lazy, c.Det, c.Labels)
	}
	// Size again after Marshal, and cached-size marshal directly after Size
	if s2 := mo.Size(m.Interface()); s2 != len(b) && !exception {
		return fmt.Errorf("Size after Marshal = %d, len(Marshal) = %d", s2, len(b))
	}
	s3 := mo.Size(m.Interface())
	cmo := mo
	cmo.UseCachedSize = true
	cb, err := cmo.Marshal(m.Interface())
	if err != nil {
		return fmt.Errorf("Marshal(UseCachedSize) failed right after Size: %v", err)
	}
	if len(cb) != s3 {
		return fmt.Errorf("Marshal(UseCachedSize) right after Size: len %d, Size %d", len(cb), s3)
	}
	// MarshalAppend: prefix || Marshal(m), prefix untouched
	buf := make([]byte, len(c.Prefix), len(c.Prefix)+c.SpareCap)
	copy(buf, c.Prefix)
	b2, err := mo.Marshal(m.Interface())
	if err != nil {
		return err
	}
	out, err := mo.MarshalAppend(buf, m.Interface())
	if err != nil {
		return fmt.Errorf("MarshalAppend failed: %v", err)
	}
	if len(out) != len(c.Prefix)+len(b2) || !bytes.Equal(out[:len(c.Prefix)], c.Prefix) {
		return fmt.Errorf("MarshalAppend: result length %d, want prefix %d + %d; prefix intact: %v", len(out), len(c.Prefix), len(b2), bytes.Equal(out[:min(len(out), len(c.Prefix))], c.Prefix))
	}
	if c.Det && !bytes.Equal(out[len(c.Prefix):], b2) {
		return fmt.Errorf("MarshalAppend(deterministic) tail differs from Marshal")
	}
	if !bytes.Equal(buf[:len(c.Prefix)], c.Prefix) {
		return fmt.Errorf("MarshalAppend modified the caller's prefix bytes")
	}
	// cross-implementation size: other implementation built from the model, and the reference encoder
	if c.Source == "built" || c.Source == "recycled" || !exception {
		other := mcase.New(c.Type, !c.Dynamic)
		if err := model.Apply(other, c.M, nil); err != nil {
			return err
		}
		// only comparable when this message holds exactly the model (unknown tags may have been normalised when decoded)
		if c.Source == "built" || c.Source == "recycled" {
			if so := mo.Size(other.Interface()); so != size {
				return fmt.Errorf("Size differs between implementations: dynamic=%v %d, dynamic=%v %d", c.Dynamic, size, !c.Dynamic, so)
			}
			if rl := len(model.Encode(c.Desc(), c.M, nil, model.EncOpts{}, nil)); rl != size {
				return fmt.Errorf("Size = %d, reference encoder produces %d bytes", size, rl)
			}
		}
	}
	return nil
}

var lazyTypes = corpus.LazyCapable()

func TestSize(t *testing.T) {
	pbt.Run(t, pbt.Prop[sizeCase]{
		Name: "size",
		Rule: "message built from the model, decoded (lazy on/off) from Marshal output or from a perturbed reference encoding, or recycled (an instance that held other content, was sized / marshalled, and was transformed in place, some submessages emptied while staying present); 1/4 of the cases use lazy-capable types; prefixes 0..300 bytes with spare capacity 0..2000. non-trivial = encoded size >= 128 with a nested message or map, or a lazy-capable type decoded lazily",
		Draw: func(t *rapid.T) sizeCase {
			var c sizeCase
			if len(lazyTypes) > 0 && rapid.IntRange(0, 3).Draw(t, "lazytype") == 0 {
				c.Case = mcase.Draw(t, lazyTypes, lazyTypes, gen.DefaultMsgOpts, model.AllPerturbations)
			} else {
				c.Case = mcase.Draw(t, nil, nil, gen.DefaultMsgOpts, model.AllPerturbations)
			}
			c.Source = rapid.SampledFrom([]string{"built", "decoded", "decoded-ref", "recycled"}).Draw(t, "source")
			if c.Source == "recycled" {
				md := c.Desc()
				c.Pre = c.M
				c.PreMarshal = rapid.Bool().Draw(t, "premarshal")
				c.M = mcase.Hollow(t, md, c.Pre, &c.Hollowed)
				eo := model.AllPerturbations
				c.Labels = nil
				eo.Labels = &c.Labels
				c.Wire = model.Encode(md, c.M, gen.RapidChooser{T: t}, eo, nil)
			}
			c.Lazy = rapid.Bool().Draw(t, "lazy")
			c.Det = rapid.Bool().Draw(t, "det")
			c.TouchFirst = rapid.Bool().Draw(t, "touch")
			c.Prefix = rapid.SliceOfN(rapid.Byte(), 0, 300).Draw(t, "prefix")
			c.SpareCap = rapid.SampledFrom([]int{0, 1, 10, 100, 2000}).Draw(t, "spare")
			return c
		},
		Check: checkSize,
		NonTrivial: func(c sizeCase) bool {
			set := c.ShapeSet()
			big := len(c.Wire) >= 128 && (set["submessage"] || set["map"])
			lazy := c.Lazy && c.Source != "built" && !c.Dynamic && isLazyType(c.Type)
			return big || lazy
		},
		Classes: func(c sizeCase) []string {
			cl := append(c.Classes(), "source-"+c.Source)
			if c.Hollowed > 0 {
				cl = append(cl, "recycled-with-emptied-submessage")
			}
			if c.Lazy && c.Source != "built" && !c.Dynamic && isLazyType(c.Type) {
				cl = append(cl, "lazy-decoded")
				if len(c.Labels) > 0 && c.Source == "decoded-ref" {
					cl = append(cl, "lazy-nonminimal")
				}
			}
			return cl
		},
		Quick: 20000, Thorough: 300000,
	})
}

func isLazyType(n string) bool {
	for _, x := range lazyTypes {
		if x == n {
			return true
		}
	}
	return false
}
