package c04

import (
	"bytes"
	"fmt"
	"os"
	"path/filepath"
	"runtime/debug"
	"testing"

	"google.golang.org/protobuf/proto"
	"google.golang.org/protobuf/reflect/protoreflect"
	"google.golang.org/protobuf/reflect/protoregistry"
	"google.golang.org/protobuf/zverif/gen"
	"google.golang.org/protobuf/zverif/mcase"
	"google.golang.org/protobuf/zverif/model"
	"google.golang.org/protobuf/zverif/pbt"
	"google.golang.org/protobuf/zverif/ref"
	"pgregory.net/rapid"
)

// Native fuzz target (thorough tier; `go test -fuzz`). The rapid property sizes messages built
// from a model (or decoded from encodings of a model); this target sizes whatever content
// proto.Unmarshal accepts out of fuzzer-chosen BYTES, for one of ~24 diverse corpus types
// (generated or dynamicpb, lazy decoding on/off). Assertions = those of checkSize on a decoded message:
//
//   - Size == len(Marshal) back to back, for default and deterministic options
//     (documented exception, applied as in checkSize: a lazily decoded generated message that
//     arrived in non-minimal encoding — here: any input that is not byte for byte what Marshal
//     writes for its content — and whose fields are read between Size and Marshal only needs
//     Size >= len(Marshal)),
//   - Size after Marshal == len(Marshal) (outside the exception),
//   - Marshal(UseCachedSize) right after Size writes exactly Size bytes,
//   - MarshalAppend(prefix) = prefix || Marshal(m), the caller's prefix bytes untouched.

var fuzzTypes = existing([]string{
	"goproto.proto.test.TestAllTypes",                    // proto2 open: groups, maps, oneofs, required-free
	"goproto.proto.test.TestAllExtensions",               // proto2 extensions (scalars, lists, groups, messages)
	"goproto.proto.test3.TestAllTypes",                   // proto3 open
	"opaque.goproto.proto.test3.TestAllTypes",            // proto3 opaque
	"hybrid.goproto.proto.test3.TestAllTypes",            // proto3 hybrid
	"goproto.proto.testeditions.TestAllTypes",            // editions open
	"hybrid.goproto.proto.testeditions.TestAllTypes",     // editions hybrid
	"opaque.goproto.proto.testeditions.TestAllTypes",     // editions opaque, lazy-capable
	"opaque.goproto.proto.testeditions.TestRequiredLazy", // lazy + required
	"opaque.lazy_tree.Node",                              // lazy tree
	"hybrid.lazy_tree.Node",
	"goproto.proto.test.OpaqueLazy",
	"goproto.proto.test.TestRequiredForeign",
	"goproto.proto.test.TestPackedTypes",
	"goproto.proto.test.TestUnpackedTypes",
	"goproto.proto.test.TestPackedExtensions",
	"goproto.proto.fuzz.Fuzz",
	"protobuf_test_messages.proto3.TestAllTypesProto3",        // well-known types, many maps
	"protobuf_test_messages.editions.TestAllTypesEdition2023", // delimited fields, extensions
	"protobuf_test_messages.proto2.TestAllRequiredTypesProto2",
	"google.protobuf.FileDescriptorProto",
	"google.protobuf.Struct", // recursive through map values
	"benchmarks.proto2.GoogleMessage2",
	"pb2.Nests",
	"google.golang.org.proto2_20190205.Message", // wrapped legacy generated code
	"google.golang.org.proto3_20190205.Message",
})

func existing(names []string) []string {
	var out []string
	for _, n := range names {
		if _, err := protoregistry.GlobalTypes.FindMessageByName(protoreflect.FullName(n)); err == nil {
			for _, s := range mcase.Types { // only types the rapid property quantifies over
				if s == n {
					out = append(out, n)
				}
			}
		}
	}
	return out
}

type fzCase struct {
	Type     string
	Dynamic  bool
	Lazy     bool
	Det      bool
	Touch    bool // read every field between Size and Marshal
	SpareCap int
	Prefix   []byte
	B        []byte
}

func checkFuzzSize(c fzCase) error {
	m := mcase.New(c.Type, c.Dynamic)
	if err := (proto.UnmarshalOptions{AllowPartial: true, NoLazyDecoding: !c.Lazy}).Unmarshal(c.B, m.Interface()); err != nil {
		return nil // rejected input: nothing to size
	}
	mo := proto.MarshalOptions{Deterministic: c.Det, AllowPartial: true}
	// the documented exception: a lazily decoded generated message that arrived in non-minimal
	// encoding. The fuzzer's bytes count as minimal only when they are exactly what Marshal writes
	// for their own (eagerly decoded) content.
	exception := c.Lazy && !c.Dynamic && isLazyType(c.Type)
	if exception {
		e := mcase.New(c.Type, false)
		if err := (proto.UnmarshalOptions{AllowPartial: true, NoLazyDecoding: true}).Unmarshal(c.B, e.Interface()); err == nil {
			if canon, err := (proto.MarshalOptions{AllowPartial: true, Deterministic: true}).Marshal(e.Interface()); err == nil && bytes.Equal(canon, c.B) {
				exception = false
			}
		}
	}
	size := mo.Size(m.Interface())
	if c.Touch {
		model.Snapshot(m)
	}
	b, err := mo.Marshal(m.Interface())
	if err != nil {
		return fmt.Errorf("Marshal failed on accepted content: %v", err)
	}
	if c.Touch && exception {
		// no relation is asserted here: the raw lazy bytes can be longer (padded varints, split
		// submessages) or shorter (map entries with omitted default key/value, packed form of an
		// unpacked field) than what Marshal writes after the field has been expanded
	} else if size != len(b) {
		return fmt.Errorf("Size = %d but len(Marshal) = %d (dynamic %v lazy %v det %v touch %v)", size, len(b), c.Dynamic, c.Lazy, c.Det, c.Touch)
	}
	if s2 := mo.Size(m.Interface()); s2 != len(b) && !exception {
		return fmt.Errorf("Size after Marshal = %d, len(Marshal) = %d", s2, len(b))
	}
	s3 := mo.Size(m.Interface())
	cmo := mo
	cmo.UseCachedSize = true
	cb, err := cmo.Marshal(m.Interface())
	if err != nil {
		return fmt.Errorf("Marshal(UseCachedSize) failed right after Size: %v", err)
	}
	if len(cb) != s3 {
		return fmt.Errorf("Marshal(UseCachedSize) right after Size: len %d, Size %d", len(cb), s3)
	}
	buf := make([]byte, len(c.Prefix), len(c.Prefix)+c.SpareCap)
	copy(buf, c.Prefix)
	b2, err := mo.Marshal(m.Interface())
	if err != nil {
		return fmt.Errorf("Marshal failed: %v", err)
	}
	out, err := mo.MarshalAppend(buf, m.Interface())
	if err != nil {
		return fmt.Errorf("MarshalAppend failed: %v", err)
	}
	if len(out) != len(c.Prefix)+len(b2) || !bytes.Equal(out[:len(c.Prefix)], c.Prefix) {
		return fmt.Errorf("MarshalAppend: result length %d, want prefix %d + %d; prefix intact: %v", len(out), len(c.Prefix), len(b2), bytes.Equal(out[:min(len(out), len(c.Prefix))], c.Prefix))
	}
	if c.Det && !bytes.Equal(out[len(c.Prefix):], b2) {
		return fmt.Errorf("MarshalAppend(deterministic) tail differs from Marshal")
	}
	if !bytes.Equal(buf[:len(c.Prefix)], c.Prefix) {
		return fmt.Errorf("MarshalAppend modified the caller's prefix bytes")
	}
	return nil
}

func fuzzSeeds() []fzCase {
	var out []fzCase
	// valid, rich content: the rapid generator's own messages in their perturbed reference encoding
	for i, ty := range fuzzTypes {
		g := rapid.Custom(func(t *rapid.T) mcase.Case {
			return mcase.Draw(t, []string{ty}, []string{ty}, gen.DefaultMsgOpts, model.AllPerturbations)
		})
		for k := 0; k < 3; k++ {
			c := g.Example(i*7 + k)
			if len(c.Wire) < 1<<12 {
				out = append(out, fzCase{Type: ty, Lazy: k%2 == 0, Dynamic: k == 2, Det: k == 1, Touch: k == 0, B: c.Wire})
			}
		}
	}
	hostile := [][]byte{
		{},
		{0x08, 0xff, 0xff, 0xff, 0xff, 0xff, 0xff, 0xff, 0xff, 0xff, 0x01}, // max varint
		{0x08, 0xff, 0xff, 0xff, 0xff, 0xff, 0xff, 0xff, 0xff, 0xff, 0x02}, // varint overflow
		{0x08, 0x80, 0x80, 0x80, 0x80, 0x80, 0x80, 0x80, 0x80, 0x80, 0x00}, // overlong zero
		{0x88, 0x80, 0x80, 0x80, 0x00, 0x01},                               // overlong tag
		{0x00, 0x00},                                                       // field number 0
		{0xf8, 0xff, 0xff, 0xff, 0x0f, 0x01},                               // field number 2^29-1
		{0xf8, 0xff, 0xff, 0xff, 0x1f, 0x01},                               // field number beyond 2^29-1
		{0x0a, 0xff, 0xff, 0xff, 0xff, 0x0f},                               // length beyond input
		{0x0a, 0x80, 0x80, 0x80, 0x80, 0x08},                               // length 2^31
		{0x0b, 0x0c}, {0x0b, 0x14}, {0x0c}, {0x0b},                         // group start/end (mis)matches
		{0x92, 0x01, 0x02, 0x08, 0x01, 0x92, 0x01, 0x02, 0x10, 0x02},                             // submessage split into two occurrences
		{0x9a, 0x06, 0x00, 0x4b}, {0xa0, 0x04, 0x00}, {0x08, 0x2a, 0x0a, 0x03, 0x88, 0x00, 0x01}, // lazy-field shapes
		{0x0a, 0x03, 0x08, 0x80, 0x00, 0x0a, 0x02, 0x08, 0x01},                                                                                                         // non-minimal varint inside a submessage, then a second occurrence
		{0xfa, 0x01, 0x03, 0x01, 0x80, 0x00},                                                                                                                           // packed list with a padded element
		{0xf8, 0x01, 0x01, 0xfa, 0x01, 0x02, 0x02, 0x03, 0xf8, 0x01, 0x04},                                                                                             // list mixing unpacked and packed
		{0xf8, 0x01, 0xff, 0xff, 0xff, 0xff, 0xff, 0xff, 0xff, 0xff, 0xff, 0x01}, {0xfa, 0x01, 0x0b, 0x01, 0xff, 0xff, 0xff, 0xff, 0xff, 0xff, 0xff, 0xff, 0xff, 0x01}, // -1 in a repeated int32: unpacked, packed
		{0x80, 0x02, 0x80, 0x80, 0x80, 0x80, 0x80, 0x80, 0x80, 0x80, 0x80, 0x01}, {0xf8, 0x01, 0x80, 0x80, 0x80, 0x80, 0x08}, {0xf8, 0x01, 0xff, 0xff, 0xff, 0xff, 0x0f}, // int64 min; int32 min / -1 in 5 bytes (not sign-extended)
		{0x98, 0x02, 0x01, 0x9a, 0x02, 0x03, 0xff, 0xff, 0x03, 0x98, 0x03, 0xff, 0xff, 0xff, 0xff, 0xff, 0xff, 0xff, 0xff, 0xff, 0x01}, // repeated sint32 -1 / packed, repeated enum -1
		{0x82, 0x04, 0x00}, {0x82, 0x04, 0x02, 0x08, 0x00}, {0x82, 0x04, 0x04, 0x10, 0x01, 0x08, 0x01}, // map entries: empty, key only, value before key
		{0x82, 0x04, 0x06, 0x08, 0x01, 0x10, 0x01, 0x18, 0x01},                                               // map entry with an unknown field
		{0x3d, 0x01, 0x00, 0x80, 0x7f}, {0x3d, 0x00, 0x00, 0x00, 0x80}, {0x41, 1, 0, 0, 0, 0, 0, 0xf0, 0x7f}, // sNaN, -0, NaN payload
		{0x72, 0x02, 0xff, 0xfe}, {0x72, 0x03, 0xed, 0xa0, 0x80}, // invalid UTF-8 / surrogate in a string field
		{0xa8, 0x01, 0xff, 0xff, 0xff, 0xff, 0xff, 0xff, 0xff, 0xff, 0xff, 0x01}, {0xa8, 0x01, 0x80, 0x80, 0x10}, // enum values: -1, unknown
	}
	deepGroup := bytes.Repeat([]byte{0x83, 0x01}, 120)
	deepGroup = append(deepGroup, bytes.Repeat([]byte{0x84, 0x01}, 120)...)
	hostile = append(hostile, deepGroup)
	deepMsg := []byte{}
	for i := 0; i < 60; i++ {
		deepMsg = append(protoAppendLen(nil, 18, deepMsg), 0x08, byte(i))
	}
	hostile = append(hostile, deepMsg)
	for i, ty := range fuzzTypes {
		// every hostile constant for every type; with lazy decoding as well where the type has lazy fields
		for k, h := range hostile {
			c := fzCase{Type: ty, Dynamic: (i+k)%5 == 0, Det: k%2 == 0, Touch: k%3 == 0, Prefix: []byte("pfx")[:k%4], SpareCap: []int{0, 1, 10, 100, 2000}[k%5], B: h}
			out = append(out, c)
			if isLazyType(ty) {
				c.Lazy, c.Dynamic = true, false
				out = append(out, c)
				c.Touch = !c.Touch
				out = append(out, c)
			}
		}
	}
	return out
}

// fuzzSafe turns a panic of the code under test into an error (so that a replay file is written).
func fuzzSafe[C any](check func(C) error, c C) (err error) {
	defer func() {
		if r := recover(); r != nil {
			err = fmt.Errorf("PANIC: %v\n%s", r, debug.Stack())
		}
	}()
	return check(c)
}

func protoAppendLen(b []byte, num int, payload []byte) []byte {
	b = ref.Tag(b, int64(num), 2)
	b = ref.Varint(b, uint64(len(payload)))
	return append(b, payload...)
}

// TestFuzzSeeds registers the fuzz check for replay and runs the seed corpus in every tier.
func TestFuzzSeeds(t *testing.T) {
	pbt.Enumerate(t, "fuzz-size", "native fuzz target FuzzSize (thorough tier): fuzzer-chosen bytes decoded into one of "+fmt.Sprint(len(fuzzTypes))+" diverse corpus types (generated or dynamicpb, lazy on/off); the accepted content is sized and marshalled like a decoded message of the rapid check; this sub-check replays the seed corpus", false,
		func(yield func(fzCase, bool) bool) {
			for _, c := range fuzzSeeds() {
				if !yield(c, len(c.B) > 8) {
					return
				}
			}
		}, checkFuzzSize)
}

func flagsOf(c fzCase) uint8 {
	var f uint8
	for i, b := range []bool{c.Lazy, c.Dynamic, c.Det, c.Touch} {
		if b {
			f |= 1 << i
		}
	}
	for i, n := range []int{0, 1, 10, 100, 2000} {
		if n == c.SpareCap {
			f |= uint8(i) << 4
		}
	}
	return f
}

func FuzzSize(f *testing.F) {
	repo := os.Getenv("VERIF_REPO")
	if repo == "" {
		repo = "/repo"
	}
	index := map[string]int{}
	for i, n := range fuzzTypes {
		index[n] = i
	}
	for _, c := range fuzzSeeds() {
		f.Add(c.B, uint8(index[c.Type]), flagsOf(c), c.Prefix)
	}
	files, _ := filepath.Glob(filepath.Join(repo, "internal/fuzz/wirefuzz/corpus/*"))
	for i, p := range files {
		if b, err := os.ReadFile(p); err == nil && len(b) < 1<<12 {
			f.Add(b, uint8(i), uint8(i*37), []byte{})
		}
	}
	f.Fuzz(func(t *testing.T, b []byte, ti uint8, flags uint8, prefix []byte) {
		if len(b) > 1<<13 || len(prefix) > 300 {
			return
		}
		c := fzCase{Type: fuzzTypes[int(ti)%len(fuzzTypes)], Lazy: flags&1 != 0, Dynamic: flags&2 != 0, Det: flags&4 != 0, Touch: flags&8 != 0,
			SpareCap: []int{0, 1, 10, 100, 2000}[int(flags>>4)%5], Prefix: prefix, B: b}
		if err := fuzzSafe(checkFuzzSize, c); err != nil {
			reportOnce("fuzz-size", c, err)
			t.Fatal(err)
		}
	})
}

// reportOnce writes the replay file of a failing input; while the fuzzing engine minimises it, the
// check fails again and again with smaller inputs: only the latest replay file of this process is kept.
var lastReplay string

func reportOnce(test string, c any, err error) {
	n := len(pbt.S.Violation)
	pbt.ReportViolation(nil, test, c, err)
	if len(pbt.S.Violation) > n {
		cur := pbt.S.Violation[len(pbt.S.Violation)-1]
		if lastReplay != "" && lastReplay != cur {
			os.Remove(lastReplay)
		}
		lastReplay = cur
	}
}
