package c06

// Two more descriptor-aware sources.
//
// siblings: many empty sibling elements of a repeated message / group field (at the top level or
// below singular message fields, lazy ones included) with a small RecursionLimit: the limit bounds
// nesting depth, and a validator that forgets to give a level back when an element ends runs out
// of budget on wide input.
//
// reqflip: a fully initialised message in which one *required message-typed field* is re-encoded
// under the other message wire type (length-delimited <-> group). The record is well formed and
// must stay unknown, so the message is partial; anything that still calls it initialised is wrong.

import (
	"google.golang.org/protobuf/reflect/protoreflect"
	"google.golang.org/protobuf/zverif/corpus"
	"google.golang.org/protobuf/zverif/gen"
	"google.golang.org/protobuf/zverif/model"
	"google.golang.org/protobuf/zverif/ref"
	"pgregory.net/rapid"
)

type sibTarget struct {
	path []protoreflect.FieldDescriptor
	fd   protoreflect.FieldDescriptor
}

func sibTargets(md protoreflect.MessageDescriptor, depth int, path []protoreflect.FieldDescriptor, seen map[protoreflect.FullName]bool, out *[]sibTarget) {
	if seen[md.FullName()] || len(*out) > 200 {
		return
	}
	seen[md.FullName()] = true
	defer delete(seen, md.FullName())
	fs := md.Fields()
	for i := 0; i < fs.Len(); i++ {
		fd := fs.Get(i)
		if fd.IsList() && fd.Message() != nil && !fd.IsMap() {
			*out = append(*out, sibTarget{append([]protoreflect.FieldDescriptor(nil), path...), fd})
		}
		if depth > 0 && fd.Kind() == protoreflect.MessageKind && !fd.IsList() && !fd.IsMap() {
			sibTargets(fd.Message(), depth-1, append(path, fd), seen, out)
		}
	}
}

func siblings(t *rapid.T, md protoreflect.MessageDescriptor, limit int) ([]byte, bool) {
	var ts []sibTarget
	sibTargets(md, 2, nil, map[protoreflect.FullName]bool{}, &ts)
	if len(ts) == 0 {
		return nil, false
	}
	// prefer targets below a lazy field
	var lazy []sibTarget
	for _, x := range ts {
		for _, p := range x.path {
			for _, n := range corpus.LazyFields(p.ContainingMessage()) {
				if n == p.Number() {
					lazy = append(lazy, x)
				}
			}
		}
	}
	if len(lazy) > 0 && rapid.IntRange(0, 2).Draw(t, "sib-lazy") > 0 {
		ts = lazy
	}
	tg := ts[rapid.IntRange(0, len(ts)-1).Draw(t, "sib-target")]
	base := limit
	if base == 0 {
		base = rapid.IntRange(1, 12).Draw(t, "sib-base")
	}
	k := rapid.IntRange(1, 3*base+4).Draw(t, "sib-count")
	num := int64(tg.fd.Number())
	var one []byte
	if tg.fd.Kind() == protoreflect.GroupKind {
		one = ref.Tag(ref.Tag(nil, num, 3), num, 4)
	} else {
		one = append(ref.Tag(nil, num, 2), 0)
	}
	var b []byte
	for i := 0; i < k; i++ {
		b = append(b, one...)
	}
	for i := len(tg.path) - 1; i >= 0; i-- {
		o := ref.Tag(nil, int64(tg.path[i].Number()), 2)
		o = ref.Varint(o, uint64(len(b)))
		b = append(o, b...)
	}
	return b, true
}

// types with a required field of message / group kind at the top level
var reqMsgTypes = func() []string {
	var out []string
	for _, n := range valTypes {
		fs := corpus.ByName(n).Descriptor().Fields()
		for i := 0; i < fs.Len(); i++ {
			if fd := fs.Get(i); fd.Cardinality() == protoreflect.Required && fd.Message() != nil {
				out = append(out, n)
				break
			}
		}
	}
	return out
}()

func reqFlip(t *rapid.T) (string, []byte, bool) {
	if len(reqMsgTypes) == 0 {
		return "", nil, false
	}
	typ := reqMsgTypes[rapid.IntRange(0, len(reqMsgTypes)-1).Draw(t, "reqflip-type")]
	md := corpus.ByName(typ).Descriptor()
	mo := gen.DefaultMsgOpts
	mo.RequiredOmit = 0
	mo.Extensions = false
	v := gen.DrawMessage(t, md, mo)
	var cands []protoreflect.FieldDescriptor
	for i := 0; i < md.Fields().Len(); i++ {
		if fd := md.Fields().Get(i); fd.Cardinality() == protoreflect.Required && fd.Message() != nil && v.Get(int32(fd.Number())) != nil {
			cands = append(cands, fd)
		}
	}
	if len(cands) == 0 {
		return "", nil, false
	}
	fd := cands[rapid.IntRange(0, len(cands)-1).Draw(t, "reqflip-field")]
	enc := model.Encode(md, v, nil, model.EncOpts{}, nil)
	recs, ok := ref.Split(enc)
	if !ok {
		return "", nil, false
	}
	num := int64(fd.Number())
	var out []byte
	flipped := false
	for _, r := range recs {
		if r.Num != num || flipped {
			out = append(out, r.Raw...)
			continue
		}
		flipped = true
		switch r.Typ {
		case 2: // length-delimited -> group with the same content
			out = ref.Tag(out, num, 3)
			out = append(out, r.Payload()...)
			out = ref.Tag(out, num, 4)
		case 3: // group -> length-delimited with the same content (minimal tags on both ends)
			body := r.Raw[len(ref.Tag(nil, num, 3)) : len(r.Raw)-len(ref.Tag(nil, num, 4))]
			out = ref.Tag(out, num, 2)
			out = ref.Varint(out, uint64(len(body)))
			out = append(out, body...)
		default:
			out = append(out, r.Raw...)
			flipped = false
		}
	}
	return typ, out, flipped
}
