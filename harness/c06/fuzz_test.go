package c06

import (
	"os"
	"path/filepath"
	"testing"

	"google.golang.org/protobuf/zverif/pbt"
)

// Native fuzz target (thorough tier): byte mutation against the same decode check, for a few
// representative types (rich proto2/proto3/editions messages, a lazy tree, a message with required
// fields). Seeds: the repository's wire fuzz corpus plus small hand-made encodings.
func FuzzDecode(f *testing.F) {
	repo := os.Getenv("VERIF_REPO")
	if repo == "" {
		repo = "/repo"
	}
	targets := []string{
		"goproto.proto.test.TestAllTypes", "goproto.proto.test3.TestAllTypes", "opaque.goproto.proto.testeditions.TestAllTypes",
		"opaque.lazy_tree.Node", "goproto.proto.test.TestRequiredForeign", "goproto.proto.fuzz.Fuzz",
	}
	files, _ := filepath.Glob(filepath.Join(repo, "internal/fuzz/wirefuzz/corpus/*"))
	for i, p := range files {
		if b, err := os.ReadFile(p); err == nil && len(b) < 1<<12 {
			f.Add(b, uint8(i), uint8(0))
		}
	}
	f.Add([]byte{0x9a, 0x06, 0x00, 0x4b}, uint8(3), uint8(0))
	f.Add([]byte{0xa0, 0x04, 0x00}, uint8(2), uint8(1))
	f.Add([]byte{0x08, 0x2a, 0x0a, 0x03, 0x88, 0x00, 0x01}, uint8(3), uint8(0))
	f.Fuzz(func(t *testing.T, b []byte, ti uint8, limit uint8) {
		if len(b) > 1<<13 {
			return
		}
		c := decCase{Type: targets[int(ti)%len(targets)], B: b, Limit: int(limit % 13), Source: "fuzz"}
		if err := checkDecode(c); err != nil {
			pbt.ReportViolation(nil, "decode", c, err)
			t.Fatal(err)
		}
	})
}
