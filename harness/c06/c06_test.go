package c06

import (
	"fmt"
	"strings"
	"testing"

	"google.golang.org/protobuf/internal/impl"
	"google.golang.org/protobuf/proto"
	"google.golang.org/protobuf/reflect/protoreflect"
	"google.golang.org/protobuf/reflect/protoregistry"
	piface "google.golang.org/protobuf/runtime/protoiface"
	"google.golang.org/protobuf/zverif/corpus"
	"google.golang.org/protobuf/zverif/gen"
	"google.golang.org/protobuf/zverif/mcase"
	"google.golang.org/protobuf/zverif/model"
	"google.golang.org/protobuf/zverif/pbt"
	"google.golang.org/protobuf/zverif/ref"
	"pgregory.net/rapid"
)

type decCase struct {
	Type   string
	B      []byte
	Limit  int // RecursionLimit (0 = default 10000)
	Source string
}

func poisoned(b []byte, poison byte) []byte {
	buf := make([]byte, len(b)+24)
	copy(buf, b)
	for i := len(b); i < len(buf); i++ {
		buf[i] = poison
	}
	return buf[:len(b)]
}

func limitOf(c decCase) int {
	if c.Limit == 0 {
		return 10000
	}
	return c.Limit
}

func checkDecode(c decCase) error {
	mt := corpus.ByName(c.Type)
	md := mt.Descriptor()
	okRef, why := model.WellFormed(md, c.B, limitOf(c), nil, gen.EnforcesUTF8)
	var snaps [2]*model.Msg
	for di, dyn := range []bool{false, true} {
		for vi, in := range [][]byte{c.B[:len(c.B):len(c.B)], poisoned(c.B, 0x80), poisoned(c.B, 0x0a), append([]byte(nil), c.B...)} {
			for _, lazy := range []bool{false, true} {
				if lazy && (dyn || vi > 1) {
					continue
				}
				for _, discard := range []bool{false, true} {
					if discard && vi != 0 {
						continue
					}
					m := mcase.New(c.Type, dyn)
					err := proto.UnmarshalOptions{AllowPartial: true, RecursionLimit: c.Limit, NoLazyDecoding: !lazy, DiscardUnknown: discard}.Unmarshal(in, m.Interface())
					if (err == nil) != okRef {
						return fmt.Errorf("Unmarshal(dynamic=%v lazy=%v discard=%v layout=%d limit=%d) error=%v but reference walker says wellformed=%v (%s); input %x", dyn, lazy, discard, vi, c.Limit, err, okRef, why, c.B)
					}
					if err == nil {
						// every later access must succeed as well (forces lazy fields)
						s := model.Snapshot(m)
						if !discard && vi == 0 && !lazy {
							snaps[di] = s
						}
						if !discard && vi == 0 && lazy && !dyn {
							if d := model.Diff(md, snaps[0], s, model.EqualOpts{BitwiseFloats: true}, nil); d != "" {
								return fmt.Errorf("lazy and eager decode differ: %s", d)
							}
						}
						if discard {
							if err := noUnknown(m); err != nil {
								return fmt.Errorf("DiscardUnknown (dynamic=%v): %v", dyn, err)
							}
						}
					}
				}
			}
		}
	}
	if okRef {
		// (historical generated code under testprotos/legacy cannot hold unknown fields)
		if d := model.Diff(md, snaps[0], snaps[1], model.EqualOpts{BitwiseFloats: true, IgnoreUnknown: !gen.TreePreservesUnknown(md)}, nil); d != "" {
			return fmt.Errorf("fast path and dynamicpb decode to different content: %s (input %x)", d, c.B)
		}
	}
	// the validator used by lazy decoding
	out, st := impl.Validate(mt, piface.UnmarshalInput{Buf: c.B, Depth: limitOf(c), Resolver: protoregistry.GlobalTypes})
	switch st {
	case impl.ValidationValid:
		if !okRef {
			return fmt.Errorf("Validate says valid, reference walker (and Unmarshal) reject: %s; input %x", why, c.B)
		}
	case impl.ValidationInvalid:
		if okRef {
			return fmt.Errorf("Validate says invalid, reference walker (and Unmarshal) accept; input %x", c.B)
		}
	case impl.ValidationUnknown:
	default:
		return fmt.Errorf("Validate returned status %v at top level; input %x", st, c.B)
	}
	if okRef {
		init := model.Initialized(md, snaps[0], nil)
		if out.Flags&piface.UnmarshalInitialized != 0 && !init {
			return fmt.Errorf("Validate reports a partial message as initialized; input %x", c.B)
		}
		m := mt.New()
		uout, err := m.ProtoMethods().Unmarshal(piface.UnmarshalInput{Message: m, Buf: c.B, Depth: limitOf(c), Resolver: protoregistry.GlobalTypes})
		if err != nil {
			return fmt.Errorf("methods.Unmarshal failed on accepted input: %v", err)
		}
		if uout.Flags&piface.UnmarshalInitialized != 0 && !init {
			return fmt.Errorf("fast-path Unmarshal reports a partial message as initialized; input %x", c.B)
		}
	}
	return nil
}

func noUnknown(m protoreflect.Message) error {
	if len(m.GetUnknown()) > 0 {
		return fmt.Errorf("%s retains unknown fields %x", m.Descriptor().FullName(), m.GetUnknown())
	}
	var err error
	m.Range(func(fd protoreflect.FieldDescriptor, v protoreflect.Value) bool {
		switch {
		case fd.IsMap() && fd.MapValue().Message() != nil:
			v.Map().Range(func(_ protoreflect.MapKey, mv protoreflect.Value) bool {
				err = noUnknown(mv.Message())
				return err == nil
			})
		case fd.IsList() && fd.Message() != nil:
			for i := 0; i < v.List().Len() && err == nil; i++ {
				err = noUnknown(v.List().Get(i).Message())
			}
		case fd.Message() != nil && !fd.IsMap() && !fd.IsList():
			err = noUnknown(v.Message())
		}
		return err == nil
	})
	return err
}

// impl.Validate needs a *impl.MessageInfo: generated (non-legacy-wrapper) types only.
var valTypes = func() []string {
	var out []string
	for _, n := range corpus.Standard() {
		if _, ok := corpus.ByName(n).(*impl.MessageInfo); ok {
			out = append(out, n)
		}
	}
	return out
}()
var richVal = func() []string {
	var out []string
	for _, n := range valTypes {
		if corpus.ByName(n).Descriptor().Fields().Len() >= 20 {
			out = append(out, n)
		}
	}
	return out
}()
var lazyTypes = corpus.LazyCapable()

// chain draws a nest of known message fields of the given depth (total message levels incl. top).
func chain(t *rapid.T, md protoreflect.MessageDescriptor, levels int) *model.Msg {
	m := &model.Msg{}
	if levels <= 1 {
		return m
	}
	var cands []protoreflect.FieldDescriptor
	fs := md.Fields()
	for i := 0; i < fs.Len(); i++ {
		fd := fs.Get(i)
		if (!fd.IsMap() && fd.Message() != nil) || (fd.IsMap() && fd.MapValue().Message() != nil) {
			cands = append(cands, fd)
		}
	}
	if len(cands) == 0 {
		return m
	}
	fd := cands[rapid.IntRange(0, len(cands)-1).Draw(t, "chainfield")]
	f := model.Field{Num: int32(fd.Number())}
	if fd.IsMap() {
		f.Keys = []model.Val{{}}
		f.Vals = []model.Val{{M: chain(t, fd.MapValue().Message(), levels-2)}} // entry + value = 2 levels
	} else {
		f.Vals = []model.Val{{M: chain(t, fd.Message(), levels-1)}}
	}
	m.Fields = []model.Field{f}
	return m
}

func drawCase(t *rapid.T) decCase {
	var c decCase
	types, rich := valTypes, richVal
	if rapid.IntRange(0, 4).Draw(t, "lazytype") == 0 {
		types, rich = lazyTypes, lazyTypes
	}
	c.Type = gen.TypeName(types, rich).Draw(t, "type")
	md := corpus.ByName(c.Type).Descriptor()
	c.Limit = rapid.SampledFrom([]int{0, 0, 0, 1, 2, 3, 4, 6, 9, 12}).Draw(t, "limit")
	src := rapid.IntRange(0, 8).Draw(t, "source")
	if src == 7 {
		if b, ok := siblings(t, md, c.Limit); ok {
			c.Source, c.B = "siblings", b
			return c
		}
		src = 0
	}
	if src == 8 {
		if typ, b, ok := reqFlip(t); ok {
			c.Type, c.Source, c.B = typ, "required-message-other-wiretype", b
			return c
		}
		src = 0
	}
	if src == 6 {
		if b, kind, ok := gen.PackedFault(t, md); ok {
			c.Source, c.B = "packed-fault-"+kind, b
			return c
		}
		src = 0
	}
	switch src {
	case 0, 1:
		c.Source = "wellformed"
		v := gen.DrawMessage(t, md, gen.DefaultMsgOpts)
		c.B = model.Encode(md, v, gen.RapidChooser{T: t}, model.AllPerturbations, nil)
	case 2, 3:
		v := gen.DrawMessage(t, md, gen.DefaultMsgOpts)
		base := model.Encode(md, v, gen.RapidChooser{T: t}, model.AllPerturbations, nil)
		var kind string
		if rapid.IntRange(0, 4).Draw(t, "wrongwire") == 0 {
			c.B, c.Source = gen.InjectWrongWire(t, md, base), "wrong-wiretype"
			return c
		}
		if rapid.Bool().Draw(t, "deepmut") {
			c.B, kind = gen.MutateDeep(t, base)
		} else {
			c.B, kind = gen.Mutate(t, base)
		}
		c.Source = "mutated-" + kind
	case 4:
		c.Source = "raw"
		c.B = rapid.SliceOfN(rapid.Byte(), 0, 40).Draw(t, "raw")
	default:
		c.Source = "chain"
		lim := c.Limit
		if lim == 0 {
			lim = rapid.IntRange(1, 12).Draw(t, "chainbase")
		}
		levels := lim + rapid.IntRange(-2, 2).Draw(t, "delta")
		if levels < 1 {
			levels = 1
		}
		c.B = model.Encode(md, chain(t, md, levels), nil, model.EncOpts{}, nil)
	}
	return c
}

func TestDecode(t *testing.T) {
	pbt.Run(t, pbt.Prop[decCase]{
		Name: "decode",
		Rule: "types: every generated (table-driven) message type, 1/5 lazy-capable; inputs: perturbed-but-valid encodings of generated content, their mutations (truncate/flip/insert/delete/badlen/overlong/wiretype/zerotag/endgroup/splice/bigvarint/retype/rawvarint), packed runs of a repeated scalar field (top level or below message fields) with one hostile element (10-byte overflow, largest 10-byte value, 11 bytes, unterminated, padded, partial fixed-width element), many empty sibling elements of a repeated message / group field under a small RecursionLimit (below lazy fields preferred), fully initialised messages in which one required message field is re-encoded under the other message wire type, raw bytes, chains of nested known messages/groups/map entries within ±2 of the drawn RecursionLimit (default or 1..12). non-trivial = malformed input whose first field is well-formed, or well-formed input with >= 3 records, or a chain, or a packed-run fault",
		Draw: drawCase, Check: checkDecode,
		NonTrivial: func(c decCase) bool {
			if c.Source == "chain" || c.Source == "siblings" || c.Source == "required-message-other-wiretype" || strings.HasPrefix(c.Source, "packed-fault-") {
				return true
			}
			recs, ok := ref.Split(c.B)
			if ok {
				return len(recs) >= 3
			}
			_, _, _, d := ref.ConsumeField(c.B)
			return d == ref.OK
		},
		Classes: func(c decCase) []string {
			ok, _ := model.WellFormed(corpus.ByName(c.Type).Descriptor(), c.B, limitOf(c), nil, gen.EnforcesUTF8)
			cl := []string{c.Source, fmt.Sprintf("accepted-%v", ok)}
			if c.Limit != 0 {
				cl = append(cl, "small-limit")
			}
			return cl
		},
		Quick: 15000, Thorough: 400000, Journal: true,
	})
}
