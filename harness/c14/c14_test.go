package c14

import (
	"fmt"
	"testing"

	"google.golang.org/protobuf/proto"
	"google.golang.org/protobuf/reflect/protoreflect"
	"google.golang.org/protobuf/zverif/corpus"
	"google.golang.org/protobuf/zverif/gen"
	"google.golang.org/protobuf/zverif/mcase"
	"google.golang.org/protobuf/zverif/model"
	"google.golang.org/protobuf/zverif/ops"
	"google.golang.org/protobuf/zverif/pbt"
	"pgregory.net/rapid"
)

type aliasCase struct {
	mcase.Case
	Mode  string     // unmarshal | clone-mutate-source | clone-mutate-clone | merge
	Lazy  bool       // decode lazily (unmarshal mode; also how the source is produced in the other modes when FromWire)
	Wired bool       // build the source by decoding Wire (so lazy buffers / unknown fields are in play) instead of reflection
	Dst   *model.Msg // merge mode: content of dst before the merge
	Fill  byte       // byte used to overwrite buffers
	Hist  []ops.Op   // legal history applied to the scribbled side
}

var eq = model.EqualOpts{BitwiseFloats: true}

// scribble overwrites, in place, every byte slice reachable from m, replaces scalar list elements
// and map values, and sets fields of submessages. It changes the content of m as much as it can
// without going through fresh allocations for bytes.
func scribble(m protoreflect.Message, fill byte) {
	m.Range(func(fd protoreflect.FieldDescriptor, v protoreflect.Value) bool {
		switch {
		case fd.IsMap():
			mp := v.Map()
			mp.Range(func(k protoreflect.MapKey, mv protoreflect.Value) bool {
				switch {
				case fd.MapValue().Message() != nil:
					scribble(mv.Message(), fill)
				case fd.MapValue().Kind() == protoreflect.BytesKind:
					for i, b := 0, mv.Bytes(); i < len(b); i++ {
						b[i] = fill
					}
				}
				return true
			})
		case fd.IsList():
			l := v.List()
			for i := 0; i < l.Len(); i++ {
				switch {
				case fd.Message() != nil:
					scribble(l.Get(i).Message(), fill)
				case fd.Kind() == protoreflect.BytesKind:
					for j, b := 0, l.Get(i).Bytes(); j < len(b); j++ {
						b[j] = fill
					}
				case fd.Kind() == protoreflect.Int32Kind || fd.Kind() == protoreflect.Sint32Kind || fd.Kind() == protoreflect.Sfixed32Kind:
					l.Set(i, protoreflect.ValueOfInt32(int32(fill)+77))
				case fd.Kind() == protoreflect.StringKind:
					l.Set(i, protoreflect.ValueOfString("scribbled"))
				}
			}
		case fd.Message() != nil:
			scribble(v.Message(), fill)
		case fd.Kind() == protoreflect.BytesKind:
			for i, b := 0, v.Bytes(); i < len(b); i++ {
				b[i] = fill
			}
		case fd.Kind() == protoreflect.StringKind:
			m.Set(fd, protoreflect.ValueOfString("scribbled"))
		case fd.Kind() == protoreflect.Int64Kind || fd.Kind() == protoreflect.Sint64Kind || fd.Kind() == protoreflect.Sfixed64Kind:
			m.Set(fd, protoreflect.ValueOfInt64(int64(fill)+1234567))
		}
		return true
	})
	if len(m.GetUnknown()) > 0 {
		m.SetUnknown(protoreflect.RawFields{0x08, fill & 0x7f})
	}
}

func (c aliasCase) source() (protoreflect.Message, error) {
	if !c.Wired {
		return c.Build()
	}
	m := mcase.New(c.Type, c.Dynamic)
	buf := append([]byte(nil), c.Wire...)
	err := proto.UnmarshalOptions{AllowPartial: true, NoLazyDecoding: !c.Lazy}.Unmarshal(buf, m.Interface())
	return m, err
}

func checkAlias(c aliasCase) error {
	md := c.Desc()
	applyHist := func(m protoreflect.Message) error {
		for _, op := range c.Hist {
			if err := ops.ApplyMsg(m, op); err != nil {
				return err
			}
		}
		return nil
	}
	switch c.Mode {
	case "unmarshal":
		buf := append([]byte(nil), c.Wire...)
		m := mcase.New(c.Type, c.Dynamic)
		if err := (proto.UnmarshalOptions{AllowPartial: true, NoLazyDecoding: !c.Lazy}).Unmarshal(buf, m.Interface()); err != nil {
			return fmt.Errorf("Unmarshal failed: %v", err)
		}
		for i := range buf {
			buf[i] = c.Fill
		}
		// first access happens only now (lazy fields decode from whatever they retained)
		if d := model.Diff(md, c.M, model.Snapshot(m), eq, nil); d != "" {
			return fmt.Errorf("overwriting the input buffer after Unmarshal(lazy=%v) changed the message: %s", c.Lazy, d)
		}
		b, err := proto.MarshalOptions{AllowPartial: true}.Marshal(m.Interface())
		if err != nil {
			return fmt.Errorf("Marshal after buffer overwrite failed: %v", err)
		}
		m2 := mcase.New(c.Type, c.Dynamic)
		if err := (proto.UnmarshalOptions{AllowPartial: true}).Unmarshal(b, m2.Interface()); err != nil {
			return fmt.Errorf("re-decode after buffer overwrite failed: %v", err)
		}
		if d := model.Diff(md, c.M, model.Snapshot(m2), eq, nil); d != "" {
			return fmt.Errorf("Marshal after buffer overwrite encodes different content: %s", d)
		}
	case "clone-mutate-source", "clone-mutate-clone":
		src, err := c.source()
		if err != nil {
			return fmt.Errorf("harness: %v", err)
		}
		cl := proto.Clone(src.Interface()).ProtoReflect()
		victim, keeper := src, cl
		if c.Mode == "clone-mutate-clone" {
			victim, keeper = cl, src
		}
		if err := applyHist(victim); err != nil {
			return err
		}
		scribble(victim, c.Fill)
		if d := model.Diff(md, c.M, model.Snapshot(keeper), eq, nil); d != "" {
			return fmt.Errorf("%s: mutating one side of a Clone changed the other: %s", c.Mode, d)
		}
	case "merge":
		dst := mcase.New(c.Type, c.Dynamic)
		if err := model.Apply(dst, c.Dst, nil); err != nil {
			return fmt.Errorf("harness: %v", err)
		}
		src, err := c.source()
		if err != nil {
			return fmt.Errorf("harness: %v", err)
		}
		proto.Merge(dst.Interface(), src.Interface())
		want := model.Merge(md, c.Dst, c.M, nil)
		if d := model.Diff(md, want, model.Snapshot(dst), eq, nil); d != "" {
			return fmt.Errorf("Merge result differs from the model: %s", d)
		}
		if err := applyHist(src); err != nil {
			return err
		}
		scribble(src, c.Fill)
		if d := model.Diff(md, want, model.Snapshot(dst), eq, nil); d != "" {
			return fmt.Errorf("mutating src after Merge(dst, src) changed dst: %s", d)
		}
	}
	return nil
}

var lazyTypes = corpus.LazyCapable()

func hasBytes(md protoreflect.MessageDescriptor, v *model.Msg) bool {
	if v == nil {
		return false
	}
	if len(v.Unknown) > 0 {
		return true
	}
	for _, f := range v.Fields {
		fd := model.FieldDesc(md, f.Num, nil)
		if fd == nil {
			continue
		}
		k := fd.Kind()
		sub := fd.Message()
		if fd.IsMap() {
			k = fd.MapValue().Kind()
			sub = fd.MapValue().Message()
		}
		if k == protoreflect.BytesKind {
			return true
		}
		if sub != nil {
			for _, x := range f.Vals {
				if hasBytes(sub, x.M) {
					return true
				}
			}
		}
	}
	return false
}

func TestAlias(t *testing.T) {
	mo := gen.DefaultMsgOpts
	pbt.Run(t, pbt.Prop[aliasCase]{
		Name: "alias",
		Rule: "types: modern linked types (1/4 lazy-capable), generated or dynamicpb; content from the generator; modes: decode then overwrite the input buffer; clone then mutate the source / the clone; Merge then mutate src; the mutated side gets a legal reflection history plus in-place scribbling of every reachable []byte, list element, map value, submessage field and the unknown fields. non-trivial = content holds a bytes field or unknown bytes, or a lazy-capable type decoded lazily",
		Draw: func(t *rapid.T) aliasCase {
			var c aliasCase
			if rapid.IntRange(0, 3).Draw(t, "lazytype") == 0 {
				c.Case = mcase.Draw(t, lazyTypes, lazyTypes, mo, model.AllPerturbations)
				c.Dynamic = false
			} else {
				c.Case = mcase.Draw(t, corpus.Modern(), corpus.ModernRich(20), mo, model.AllPerturbations)
			}
			c.Mode = rapid.SampledFrom([]string{"unmarshal", "clone-mutate-source", "clone-mutate-clone", "merge"}).Draw(t, "mode")
			c.Lazy = rapid.Bool().Draw(t, "lazy")
			c.Wired = rapid.Bool().Draw(t, "wired")
			c.Fill = rapid.SampledFrom([]byte{0x00, 0xff, 0x80, 0x0a, 0x41}).Draw(t, "fill")
			if c.Mode == "merge" {
				c.Dst = gen.DrawColliding(t, c.Desc(), c.M, mo)
			}
			if c.Mode != "unmarshal" {
				n := rapid.IntRange(0, 8).Draw(t, "hist")
				c.Hist, _ = ops.DrawHistory(t, c.Desc(), c.M, n, ops.GenOpts{Msg: mo, MaxDepth: 3})
			}
			return c
		},
		Check: checkAlias,
		NonTrivial: func(c aliasCase) bool {
			lazy := c.Lazy && !c.Dynamic && (c.Mode == "unmarshal" || c.Wired) && isLazy(c.Type)
			return hasBytes(c.Desc(), c.M) || lazy
		},
		Classes: func(c aliasCase) []string {
			cl := []string{"mode-" + c.Mode}
			if c.Lazy && !c.Dynamic && (c.Mode == "unmarshal" || c.Wired) && isLazy(c.Type) {
				cl = append(cl, "lazy-decoded")
			}
			if hasBytes(c.Desc(), c.M) {
				cl = append(cl, "has-bytes-or-unknown")
			}
			return cl
		},
		Quick: 8000, Thorough: 200000,
	})
}

func isLazy(n string) bool {
	for _, x := range lazyTypes {
		if x == n {
			return true
		}
	}
	return false
}
