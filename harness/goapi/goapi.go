// Package goapi drives the *generated Go API* of a message (as opposed to protoreflect) through
// Go reflection: opaque/hybrid setters SetX/ClearX, and the getters GetX/HasX that every API
// flavour has. It converts between model values and the Go types the generated methods use
// (int32, *T, []T, map[K]V, named enum types, []byte …).
package goapi

import (
	"fmt"
	"math"
	"reflect"

	"google.golang.org/protobuf/internal/strs"
	"google.golang.org/protobuf/proto"
	"google.golang.org/protobuf/reflect/protoreflect"
	"google.golang.org/protobuf/zverif/model"
)

// GoName is the Go identifier protoc-gen-go derives from a field name (before uniquing).
func GoName(fd protoreflect.FieldDescriptor) string {
	return strs.GoCamelCase(string(fd.Name()))
}

func method(v reflect.Value, name string) (reflect.Value, bool) {
	m := v.MethodByName(name)
	return m, m.IsValid()
}

// HasSetters reports whether the message's Go type has generated setters (opaque or hybrid API).
func HasSetters(m proto.Message) bool {
	rt := reflect.TypeOf(m)
	for i := 0; i < rt.NumMethod(); i++ {
		if n := rt.Method(i).Name; len(n) > 3 && n[:3] == "Set" {
			return true
		}
	}
	return false
}

// toGo converts a model value of field fd to a Go value of type t.
func toGo(fd protoreflect.FieldDescriptor, v model.Val, t reflect.Type, viaSetters bool) (reflect.Value, error) {
	switch fd.Kind() {
	case protoreflect.MessageKind, protoreflect.GroupKind:
		if t.Kind() != reflect.Ptr {
			return reflect.Value{}, fmt.Errorf("message field %s: Go type %v is not a pointer", fd.FullName(), t)
		}
		nv := reflect.New(t.Elem())
		pm, ok := nv.Interface().(proto.Message)
		if !ok {
			return reflect.Value{}, fmt.Errorf("%v is not a proto.Message", t)
		}
		if v.M != nil {
			if viaSetters && HasSetters(pm) {
				if _, err := Populate(pm, v.M); err != nil {
					return reflect.Value{}, err
				}
			} else if err := model.Apply(pm.ProtoReflect(), v.M, nil); err != nil {
				return reflect.Value{}, err
			}
		}
		return nv, nil
	case protoreflect.BoolKind:
		return reflect.ValueOf(v.U != 0).Convert(t), nil
	case protoreflect.StringKind:
		return reflect.ValueOf(string(v.B)).Convert(t), nil
	case protoreflect.BytesKind:
		return reflect.ValueOf(append([]byte{}, v.B...)).Convert(t), nil
	case protoreflect.FloatKind:
		return reflect.ValueOf(math.Float32frombits(uint32(v.U))).Convert(t), nil
	case protoreflect.DoubleKind:
		return reflect.ValueOf(math.Float64frombits(v.U)).Convert(t), nil
	case protoreflect.EnumKind, protoreflect.Int32Kind, protoreflect.Sint32Kind, protoreflect.Sfixed32Kind:
		return reflect.ValueOf(int32(v.U)).Convert(t), nil
	case protoreflect.Int64Kind, protoreflect.Sint64Kind, protoreflect.Sfixed64Kind:
		return reflect.ValueOf(int64(v.U)).Convert(t), nil
	case protoreflect.Uint32Kind, protoreflect.Fixed32Kind:
		return reflect.ValueOf(uint32(v.U)).Convert(t), nil
	case protoreflect.Uint64Kind, protoreflect.Fixed64Kind:
		return reflect.ValueOf(v.U).Convert(t), nil
	}
	return reflect.Value{}, fmt.Errorf("unsupported kind %v", fd.Kind())
}

// Set calls the generated setter of field f. ok=false when the type has no setter of the
// expected name (the caller falls back to reflection and counts it).
func Set(m proto.Message, fd protoreflect.FieldDescriptor, f model.Field) (ok bool, err error) {
	rv := reflect.ValueOf(m)
	set, found := method(rv, "Set"+GoName(fd))
	if !found || set.Type().NumIn() != 1 {
		return false, nil
	}
	pt := set.Type().In(0)
	var arg reflect.Value
	switch {
	case fd.IsMap():
		if pt.Kind() != reflect.Map {
			return false, nil
		}
		arg = reflect.MakeMap(pt)
		for i := range f.Keys {
			k, err := toGo(fd.MapKey(), f.Keys[i], pt.Key(), true)
			if err != nil {
				return true, err
			}
			v, err := toGo(fd.MapValue(), f.Vals[i], pt.Elem(), true)
			if err != nil {
				return true, err
			}
			arg.SetMapIndex(k, v)
		}
	case fd.IsList():
		if pt.Kind() != reflect.Slice {
			return false, nil
		}
		arg = reflect.MakeSlice(pt, 0, len(f.Vals))
		for _, x := range f.Vals {
			v, err := toGo(fd, x, pt.Elem(), true)
			if err != nil {
				return true, err
			}
			arg = reflect.Append(arg, v)
		}
	default:
		arg, err = toGo(fd, f.Vals[0], pt, true)
		if err != nil {
			return true, err
		}
	}
	set.Call([]reflect.Value{arg})
	return true, nil
}

// Populate fills m with the model value using generated setters where they exist and
// protoreflect for the rest (extensions, unknown fields, fields without a setter).
// It returns how many fields went through setters.
func Populate(m proto.Message, v *model.Msg) (viaSetters int, err error) {
	md := m.ProtoReflect().Descriptor()
	rest := &model.Msg{Unknown: v.Unknown}
	for _, f := range v.Fields {
		fd := md.Fields().ByNumber(protoreflect.FieldNumber(f.Num))
		if fd == nil {
			rest.Fields = append(rest.Fields, f)
			continue
		}
		ok, err := Set(m, fd, f)
		if err != nil {
			return viaSetters, err
		}
		if ok {
			viaSetters++
		} else {
			rest.Fields = append(rest.Fields, f)
		}
	}
	if len(rest.Fields) > 0 || len(rest.Unknown) > 0 {
		if err := model.Apply(m.ProtoReflect(), rest, nil); err != nil {
			return viaSetters, err
		}
	}
	return viaSetters, nil
}

// fromGo converts the Go value a getter returned into a model value.
func fromGo(fd protoreflect.FieldDescriptor, v reflect.Value) (model.Val, error) {
	switch fd.Kind() {
	case protoreflect.MessageKind, protoreflect.GroupKind:
		if v.Kind() != reflect.Ptr {
			return model.Val{}, fmt.Errorf("getter of %s returned %v", fd.FullName(), v.Type())
		}
		if v.IsNil() {
			return model.Val{}, nil
		}
		pm, ok := v.Interface().(proto.Message)
		if !ok {
			return model.Val{}, fmt.Errorf("%v is not a proto.Message", v.Type())
		}
		return model.Val{M: model.Snapshot(pm.ProtoReflect())}, nil
	case protoreflect.BoolKind:
		if v.Bool() {
			return model.Val{U: 1}, nil
		}
		return model.Val{}, nil
	case protoreflect.StringKind:
		return model.Val{B: []byte(v.String())}, nil
	case protoreflect.BytesKind:
		return model.Val{B: append([]byte(nil), v.Bytes()...)}, nil
	case protoreflect.FloatKind:
		return model.Val{U: uint64(math.Float32bits(float32(v.Float())))}, nil
	case protoreflect.DoubleKind:
		return model.Val{U: math.Float64bits(v.Float())}, nil
	case protoreflect.EnumKind, protoreflect.Int32Kind, protoreflect.Sint32Kind, protoreflect.Sfixed32Kind,
		protoreflect.Int64Kind, protoreflect.Sint64Kind, protoreflect.Sfixed64Kind:
		return model.Val{U: uint64(v.Int())}, nil
	default:
		return model.Val{U: v.Uint()}, nil
	}
}

// Get calls GetX and converts the result: vals/keys as in model.Field (singular: one value;
// a nil message getter result gives Vals[0].M == nil). ok=false when there is no such getter.
func Get(m proto.Message, fd protoreflect.FieldDescriptor) (f model.Field, ok bool, err error) {
	get, found := method(reflect.ValueOf(m), "Get"+GoName(fd))
	if !found || get.Type().NumIn() != 0 || get.Type().NumOut() != 1 {
		return f, false, nil
	}
	out := get.Call(nil)[0]
	f.Num = int32(fd.Number())
	switch {
	case fd.IsMap():
		if out.Kind() != reflect.Map {
			return f, false, nil
		}
		for _, k := range out.MapKeys() {
			kv, err := fromGo(fd.MapKey(), k)
			if err != nil {
				return f, true, err
			}
			vv, err := fromGo(fd.MapValue(), out.MapIndex(k))
			if err != nil {
				return f, true, err
			}
			f.Keys = append(f.Keys, kv)
			f.Vals = append(f.Vals, vv)
		}
	case fd.IsList():
		if out.Kind() != reflect.Slice {
			return f, false, nil
		}
		for i := 0; i < out.Len(); i++ {
			vv, err := fromGo(fd, out.Index(i))
			if err != nil {
				return f, true, err
			}
			f.Vals = append(f.Vals, vv)
		}
	default:
		vv, err := fromGo(fd, out)
		if err != nil {
			return f, true, err
		}
		f.Vals = []model.Val{vv}
	}
	return f, true, nil
}

// Has calls HasX; ok=false when the generated type has no such method.
func Has(m proto.Message, fd protoreflect.FieldDescriptor) (has, ok bool) {
	h, found := method(reflect.ValueOf(m), "Has"+GoName(fd))
	if !found || h.Type().NumIn() != 0 || h.Type().NumOut() != 1 || h.Type().Out(0).Kind() != reflect.Bool {
		return false, false
	}
	return h.Call(nil)[0].Bool(), true
}

// Clear calls ClearX; ok=false when there is no such method.
func Clear(m proto.Message, fd protoreflect.FieldDescriptor) bool {
	c, found := method(reflect.ValueOf(m), "Clear"+GoName(fd))
	if !found || c.Type().NumIn() != 0 {
		return false
	}
	c.Call(nil)
	return true
}

// CheckGetters compares every generated getter (and HasX where present) of m with the model
// value v, recursively through message getters. It returns the number of getters compared.
func CheckGetters(m proto.Message, v *model.Msg) (int, error) {
	if v == nil {
		v = &model.Msg{}
	}
	md := m.ProtoReflect().Descriptor()
	n := 0
	fs := md.Fields()
	for i := 0; i < fs.Len(); i++ {
		fd := fs.Get(i)
		want := v.Get(int32(fd.Number()))
		got, ok, err := Get(m, fd)
		if err != nil {
			return n, err
		}
		if !ok {
			continue
		}
		n++
		if has, hok := Has(m, fd); hok && has != (want != nil) {
			return n, fmt.Errorf("Has%s() = %v, model populated = %v", GoName(fd), has, want != nil)
		}
		if want == nil {
			// unpopulated: getter returns the default / nil / empty
			switch {
			case fd.IsList() || fd.IsMap():
				if len(got.Vals) != 0 {
					return n, fmt.Errorf("Get%s() of an unpopulated field has %d elements", GoName(fd), len(got.Vals))
				}
			case fd.Message() != nil:
				if got.Vals[0].M != nil {
					return n, fmt.Errorf("Get%s() of an unpopulated message field is not nil", GoName(fd))
				}
			default:
				if d := model.Diff1(fd, model.FromValue(fd, fd.Default()), got.Vals[0]); d != "" {
					return n, fmt.Errorf("Get%s() of an unpopulated field: %s (want the default)", GoName(fd), d)
				}
			}
			continue
		}
		one := &model.Msg{Fields: []model.Field{*want}}
		gotm := &model.Msg{Fields: []model.Field{got}}
		if fd.Message() != nil && !fd.IsList() && !fd.IsMap() && got.Vals[0].M == nil {
			return n, fmt.Errorf("Get%s() returned nil for a populated message field", GoName(fd))
		}
		if d := model.Diff(md, one, gotm, model.EqualOpts{BitwiseFloats: true}, nil); d != "" {
			return n, fmt.Errorf("Get%s(): %s", GoName(fd), d)
		}
	}
	return n, nil
}
