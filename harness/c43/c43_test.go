package c43

// C43: Timestamp and Duration helpers convert exactly.
//
// Oracles (all independent of the helpers under test):
//   - exact arithmetic in math/big for seconds*10^9+nanos and its clamp to int64;
//   - the documented validity ranges, rebuilt from the documentation: Timestamp seconds between
//     0001-01-01T00:00:00Z and 9999-12-31T23:59:59Z (computed with a proleptic-Gregorian
//     days-from-civil routine), nanos in [0, 10^9); Duration |seconds| <= 10000 * 365.25 days,
//     |nanos| < 10^9, signs not opposed;
//   - for time.Time values: the (seconds, nanoseconds) the value was constructed from
//     (time.Unix arguments, or civil date fields converted with the same days-from-civil routine).

import (
	"fmt"
	"math"
	"math/big"
	"strings"
	"testing"
	"time"

	"google.golang.org/protobuf/types/known/durationpb"
	"google.golang.org/protobuf/types/known/timestamppb"
	"google.golang.org/protobuf/zverif/gen"
	"google.golang.org/protobuf/zverif/pbt"
	"pgregory.net/rapid"
)

const kfClampID = "KF-duration-asduration-mixed-sign-clamp"

// ---- reference ------------------------------------------------------------------------------------

var (
	bigE9  = big.NewInt(1_000_000_000)
	bigMin = big.NewInt(math.MinInt64)
	bigMax = big.NewInt(math.MaxInt64)
)

func exactNanos(s int64, n int64) *big.Int {
	x := new(big.Int).Mul(big.NewInt(s), bigE9)
	return x.Add(x, big.NewInt(n))
}

func inInt64(x *big.Int) bool { return x.Cmp(bigMin) >= 0 && x.Cmp(bigMax) <= 0 }

func clampInt64(x *big.Int) int64 {
	switch {
	case x.Cmp(bigMin) < 0:
		return math.MinInt64
	case x.Cmp(bigMax) > 0:
		return math.MaxInt64
	}
	return x.Int64()
}

// daysFromCivil: days since 1970-01-01 of a proleptic Gregorian date (any year).
func daysFromCivil(y, m, d int64) int64 {
	if m <= 2 {
		y--
	}
	era := floorDiv(y, 400)
	yoe := y - era*400
	mp := (m + 9) % 12
	doy := (153*mp+2)/5 + d - 1
	doe := yoe*365 + yoe/4 - yoe/100 + doy
	return era*146097 + doe - 719468
}

// civilYear: the proleptic Gregorian year containing Unix second s.
func civilYear(s int64) int64 {
	z := floorDiv(s, 86400) + 719468
	era := floorDiv(z, 146097)
	doe := z - era*146097
	yoe := (doe - doe/1460 + doe/36524 - doe/146096) / 365
	y := yoe + era*400
	doy := doe - (365*yoe + yoe/4 - yoe/100)
	mp := (5*doy + 2) / 153
	m := mp + 3
	if m > 12 {
		m -= 12
	}
	if m <= 2 {
		y++
	}
	return y
}

func floorDiv(a, b int64) int64 {
	q := a / b
	if (a%b != 0) && ((a < 0) != (b < 0)) {
		q--
	}
	return q
}

var (
	tsMin  = daysFromCivil(1, 1, 1) * 86400        // 0001-01-01T00:00:00Z
	tsMax  = daysFromCivil(10000, 1, 1)*86400 - 1 // 9999-12-31T23:59:59Z
	durMax = int64(10000) * 36525 * 864            // 10000 years * 365.25 days * 86400 s
)

const nanosPerSec = 1_000_000_000

func tsValid(s int64, n int32) bool { return s >= tsMin && s <= tsMax && n >= 0 && n < nanosPerSec }
func durValid(s int64, n int32) bool {
	return s >= -durMax && s <= durMax && n > -nanosPerSec && n < nanosPerSec && !(s > 0 && n < 0) && !(s < 0 && n > 0)
}

// error phrases of the defects that actually apply to a pair (any one of them may be reported)
func tsDefects(s int64, n int32) []string {
	var out []string
	if s < tsMin {
		out = append(out, "before 0001-01-01")
	}
	if s > tsMax {
		out = append(out, "after 9999-12-31")
	}
	if n < 0 || n >= nanosPerSec {
		out = append(out, "out-of-range nanos")
	}
	return out
}
func durDefects(s int64, n int32) []string {
	var out []string
	if s < -durMax {
		out = append(out, "exceeds -10000 years")
	}
	if s > durMax {
		out = append(out, "exceeds +10000 years")
	}
	if n <= -nanosPerSec || n >= nanosPerSec {
		out = append(out, "out-of-range nanos")
	}
	if (s > 0 && n < 0) || (s < 0 && n > 0) {
		out = append(out, "different signs")
	}
	return out
}

func mentionsOne(err error, phrases []string) bool {
	for _, p := range phrases {
		if strings.Contains(err.Error(), p) {
			return true
		}
	}
	return false
}

// ---- (seconds, nanos) pairs -------------------------------------------------------------------------

type pairCase struct {
	S int64
	N int32
}

// isKnownClamp recognises exactly the root cause of kfClampID: the product seconds*10^9 alone
// leaves the int64 range, the exact sum with the opposite-signed nanos is back inside it, and
// AsDuration returned the clamp on the side of seconds.
func isKnownClamp(c pairCase, got int64) bool {
	prod := exactNanos(c.S, 0)
	sum := exactNanos(c.S, int64(c.N))
	if inInt64(prod) || !inInt64(sum) {
		return false
	}
	return (c.S > 0 && c.N < 0 && got == math.MaxInt64) || (c.S < 0 && c.N > 0 && got == math.MinInt64)
}

func checkPair(c pairCase) error {
	exact := exactNanos(c.S, int64(c.N))

	// --- Duration
	d := &durationpb.Duration{Seconds: c.S, Nanos: c.N}
	want := clampInt64(exact)
	if got := int64(d.AsDuration()); got != want {
		if !(isKnownClamp(c, got) && pbt.ExcludeKnown(kfClampID)) {
			return fmt.Errorf("Duration{%d,%d}.AsDuration() = %d, exact value %s clamps to %d", c.S, c.N, got, exact, want)
		}
	}
	dv := durValid(c.S, c.N)
	if got := d.IsValid(); got != dv {
		return fmt.Errorf("Duration{%d,%d}.IsValid() = %v, documented range says %v", c.S, c.N, got, dv)
	}
	err := d.CheckValid()
	if (err == nil) != dv {
		return fmt.Errorf("Duration{%d,%d}.CheckValid() = %v, documented range says valid=%v", c.S, c.N, err, dv)
	}
	if err != nil && !mentionsOne(err, durDefects(c.S, c.N)) {
		return fmt.Errorf("Duration{%d,%d}.CheckValid() = %q names none of the defects that apply %v", c.S, c.N, err, durDefects(c.S, c.N))
	}
	if dv && inInt64(exact) {
		// a valid Duration that fits time.Duration converts there and back unchanged
		back := durationpb.New(d.AsDuration())
		if back.GetSeconds() != c.S || back.GetNanos() != c.N {
			return fmt.Errorf("durationpb.New(Duration{%d,%d}.AsDuration()) = {%d,%d}", c.S, c.N, back.GetSeconds(), back.GetNanos())
		}
	}

	// --- Timestamp
	ts := &timestamppb.Timestamp{Seconds: c.S, Nanos: c.N}
	tv := tsValid(c.S, c.N)
	if got := ts.IsValid(); got != tv {
		return fmt.Errorf("Timestamp{%d,%d}.IsValid() = %v, documented range says %v", c.S, c.N, got, tv)
	}
	err = ts.CheckValid()
	if (err == nil) != tv {
		return fmt.Errorf("Timestamp{%d,%d}.CheckValid() = %v, documented range says valid=%v", c.S, c.N, err, tv)
	}
	if err != nil && !mentionsOne(err, tsDefects(c.S, c.N)) {
		return fmt.Errorf("Timestamp{%d,%d}.CheckValid() = %q names none of the defects that apply %v", c.S, c.N, err, tsDefects(c.S, c.N))
	}
	if c.S > -(1<<55) && c.S < 1<<55 { // well inside what time.Time represents without wrap-around
		t := ts.AsTime()
		inst := exactNanos(t.Unix(), int64(t.Nanosecond()))
		if inst.Cmp(exact) != 0 || t.Nanosecond() < 0 || t.Nanosecond() >= nanosPerSec {
			return fmt.Errorf("Timestamp{%d,%d}.AsTime() = %v: instant %s ns, exact %s ns", c.S, c.N, t, inst, exact)
		}
		if t.Location() != time.UTC {
			return fmt.Errorf("Timestamp{%d,%d}.AsTime() is in location %v, documented UTC", c.S, c.N, t.Location())
		}
		if tv {
			if t.Unix() != c.S || int32(t.Nanosecond()) != c.N {
				return fmt.Errorf("Timestamp{%d,%d}.AsTime() = (%d s, %d ns)", c.S, c.N, t.Unix(), t.Nanosecond())
			}
			if y := t.Year(); y < 1 || y > 9999 || int64(y) != civilYear(c.S) {
				return fmt.Errorf("valid Timestamp{%d,%d}.AsTime() has year %d (reference %d)", c.S, c.N, y, civilYear(c.S))
			}
			back := timestamppb.New(t)
			if back.GetSeconds() != c.S || back.GetNanos() != c.N {
				return fmt.Errorf("timestamppb.New(Timestamp{%d,%d}.AsTime()) = {%d,%d}", c.S, c.N, back.GetSeconds(), back.GetNanos())
			}
		} else if c.N >= 0 && c.N < nanosPerSec {
			if y := civilYear(c.S); y >= 1 && y <= 9999 {
				return fmt.Errorf("harness: range constants inconsistent for %d (year %d)", c.S, y)
			}
		}
	}
	return nil
}

var secBoundaries = []int64{
	math.MinInt64, math.MaxInt64, 0,
	9223372036, -9223372036, // MaxInt64 / 10^9
	9223372039, -9223372039, // last seconds value whose product can be pulled back by int32 nanos
	315576000000, -315576000000, // Duration range
	-62135596800, 253402300799, // Timestamp range
	1 << 31, -(1 << 31), 1 << 32, -(1 << 32), 1_000_000_000, -1_000_000_000,
	1 << 55, -(1 << 55),
}

var nanoBoundaries = []int32{
	math.MinInt32, math.MaxInt32, 0,
	999_999_999, -999_999_999, 1_000_000_000, -1_000_000_000,
	854_775_807, -854_775_808, // MaxInt64 mod 10^9, MinInt64 rem 10^9
	145_224_193, -145_224_192, // 9223372037*10^9 - MaxInt64, and the mirror
	1_145_224_193, -1_145_224_192,
	2_145_224_193, -2_145_224_192,
	500_000_000, -500_000_000,
}

func nearS(s int64, r int64) bool {
	for _, b := range secBoundaries {
		d := new(big.Int).Sub(big.NewInt(s), big.NewInt(b))
		if d.Abs(d).Cmp(big.NewInt(r)) <= 0 {
			return true
		}
	}
	return false
}
func nearN(n int32, r int64) bool {
	for _, b := range nanoBoundaries {
		d := int64(n) - int64(b)
		if d < 0 {
			d = -d
		}
		if d <= r {
			return true
		}
	}
	return false
}

func pairNonTrivial(c pairCase) bool {
	return nearS(c.S, 2) || nearN(c.N, 2) || (c.S > 0 && c.N < 0) || (c.S < 0 && c.N > 0)
}

func pairClasses(c pairCase) []string {
	var out []string
	add := func(b bool, yes, no string) {
		if b {
			out = append(out, yes)
		} else if no != "" {
			out = append(out, no)
		}
	}
	add(durValid(c.S, c.N), "dur-valid", "dur-invalid")
	add(tsValid(c.S, c.N), "ts-valid", "ts-invalid")
	add((c.S > 0 && c.N < 0) || (c.S < 0 && c.N > 0), "mixed-sign", "")
	exact := exactNanos(c.S, int64(c.N))
	switch {
	case exact.Cmp(bigMax) > 0:
		out = append(out, "asduration-clamp-hi")
	case exact.Cmp(bigMin) < 0:
		out = append(out, "asduration-clamp-lo")
	default:
		out = append(out, "asduration-fits")
	}
	add(!inInt64(exactNanos(c.S, 0)) && inInt64(exact), "product-overflows-sum-fits", "")
	add(nearS(c.S, 2), "sec-near-boundary", "")
	add(nearN(c.N, 2), "nanos-near-boundary", "")
	for _, p := range durDefects(c.S, c.N) {
		out = append(out, "dur:"+p)
	}
	for _, p := range tsDefects(c.S, c.N) {
		out = append(out, "ts:"+p)
	}
	return out
}

func drawSeconds(t *rapid.T) int64 {
	switch rapid.IntRange(0, 5).Draw(t, "secclass") {
	case 0, 1: // near a boundary (wrap-around at the int64 ends is fine: it lands near the other end)
		b := rapid.SampledFrom(secBoundaries).Draw(t, "secb")
		return b + int64(rapid.IntRange(-4, 4).Draw(t, "secd"))
	case 2:
		return rapid.Int64Range(tsMin-10, tsMax+10).Draw(t, "sects")
	case 3:
		return rapid.Int64Range(-durMax-10, durMax+10).Draw(t, "secdur")
	case 4:
		return rapid.Int64Range(-9223372040, 9223372040).Draw(t, "secfit")
	default:
		return gen.Int64().Draw(t, "secany")
	}
}

func drawNanos(t *rapid.T) int32 {
	switch rapid.IntRange(0, 4).Draw(t, "nanoclass") {
	case 0, 1:
		b := rapid.SampledFrom(nanoBoundaries).Draw(t, "nanob")
		return b + int32(rapid.IntRange(-3, 3).Draw(t, "nanod"))
	case 2:
		return rapid.Int32Range(-999_999_999, 999_999_999).Draw(t, "nanovalid")
	case 3:
		return rapid.Int32Range(0, 999_999_999).Draw(t, "nanopos")
	default:
		return rapid.Int32().Draw(t, "nanoany")
	}
}

func TestPairs(t *testing.T) {
	pbt.Run(t, pbt.Prop[pairCase]{
		Name: "pairs",
		Rule: "(seconds, nanos): seconds within 4 of int64 ends / +-9223372036..39 / Duration and Timestamp range ends / powers of two, or uniform inside the Timestamp, Duration and time.Duration ranges, or any int64; nanos within 3 of int32 ends / +-999999999 / +-10^9 / the overflow thresholds, or uniform valid, or any int32. Checked: AsDuration vs math/big clamp, IsValid/CheckValid of both types vs the documented ranges (both directions, error names an applicable defect), AsTime instant/UTC, New(As*()) identity for valid values. non-trivial = a component within 2 of a boundary, or mixed signs",
		Draw: func(t *rapid.T) pairCase {
			return pairCase{S: drawSeconds(t), N: drawNanos(t)}
		},
		Check: checkPair, NonTrivial: pairNonTrivial, Classes: pairClasses,
		Quick: 150000, Thorough: 1500000,
	})
}

func TestPairsEnum(t *testing.T) {
	pbt.Enumerate(t, "pairs-enum", "every combination of {seconds boundary + d, d in -4..4} x {nanos boundary + d, d in -3..3} (int64/int32 ends, +-9223372036..39, range ends of both types, overflow thresholds); non-trivial = all", true,
		func(yield func(pairCase, bool) bool) {
			seenS := map[int64]bool{}
			var secs []int64
			for _, b := range secBoundaries {
				for d := int64(-4); d <= 4; d++ {
					if s := b + d; !seenS[s] {
						seenS[s] = true
						secs = append(secs, s)
					}
				}
			}
			seenN := map[int32]bool{}
			var nanos []int32
			for _, b := range nanoBoundaries {
				for d := int32(-3); d <= 3; d++ {
					if n := b + d; !seenN[n] {
						seenN[n] = true
						nanos = append(nanos, n)
					}
				}
			}
			for _, s := range secs {
				for _, n := range nanos {
					if !yield(pairCase{S: s, N: n}, true) {
						return
					}
				}
			}
		}, checkPair)
}

// ---- time.Duration ------------------------------------------------------------------------------------

type durCase struct{ D int64 }

func checkDur(c durCase) error {
	x := durationpb.New(time.Duration(c.D))
	if x == nil {
		return fmt.Errorf("durationpb.New(%d) = nil", c.D)
	}
	if got := int64(x.AsDuration()); got != c.D {
		return fmt.Errorf("durationpb.New(%d).AsDuration() = %d (message {%d,%d})", c.D, got, x.Seconds, x.Nanos)
	}
	if e := exactNanos(x.Seconds, int64(x.Nanos)); e.Cmp(big.NewInt(c.D)) != 0 {
		return fmt.Errorf("durationpb.New(%d) = {%d,%d}, which is %s ns", c.D, x.Seconds, x.Nanos, e)
	}
	if !durValid(x.Seconds, x.Nanos) {
		return fmt.Errorf("durationpb.New(%d) = {%d,%d} is not a valid normalised Duration", c.D, x.Seconds, x.Nanos)
	}
	if !x.IsValid() || x.CheckValid() != nil {
		return fmt.Errorf("durationpb.New(%d) = {%d,%d}: IsValid=%v CheckValid=%v", c.D, x.Seconds, x.Nanos, x.IsValid(), x.CheckValid())
	}
	return nil
}

var durBoundaries = []int64{math.MinInt64, math.MaxInt64, 0, 1_000_000_000, -1_000_000_000, 9223372036_000_000_000, -9223372036_000_000_000, 1 << 31, -(1 << 31), 1 << 32, 1 << 53}

func TestDurations(t *testing.T) {
	pbt.Run(t, pbt.Prop[durCase]{
		Name: "durations",
		Rule: "time.Duration d: int64 ends, multiples of 10^9 +- 2, whole-second ends +-9223372036 s, boundary-biased and uniform int64; New(d).AsDuration()==d, New(d) exact (math/big), valid and normalised. non-trivial = negative, or within 2 ns of a multiple of one second, or |d| > 2^62",
		Draw: func(t *rapid.T) durCase {
			switch rapid.IntRange(0, 3).Draw(t, "durclass") {
			case 0:
				return durCase{rapid.SampledFrom(durBoundaries).Draw(t, "b") + int64(rapid.IntRange(-3, 3).Draw(t, "d"))}
			case 1:
				return durCase{rapid.Int64Range(-9223372036, 9223372036).Draw(t, "s")*1_000_000_000 + int64(rapid.IntRange(-2, 2).Draw(t, "d"))}
			case 2:
				return durCase{gen.Int64().Draw(t, "biased")}
			default:
				return durCase{rapid.Int64().Draw(t, "any")}
			}
		},
		Check: checkDur,
		NonTrivial: func(c durCase) bool {
			r := c.D % 1_000_000_000
			return c.D < 0 || (r >= -2 && r <= 2) || r >= 999_999_998 || c.D > 1<<62
		},
		Classes: func(c durCase) []string {
			var out []string
			switch {
			case c.D < 0:
				out = append(out, "negative")
			case c.D > 0:
				out = append(out, "positive")
			default:
				out = append(out, "zero")
			}
			if c.D%1_000_000_000 == 0 {
				out = append(out, "whole-seconds")
			}
			if c.D > -1_000_000_000 && c.D < 1_000_000_000 {
				out = append(out, "sub-second")
			}
			if c.D > 1<<62 || c.D < -(1<<62) {
				out = append(out, "near-int64-end")
			}
			return out
		},
		Quick: 80000, Thorough: 1500000,
	})
}

// ---- time.Time ---------------------------------------------------------------------------------------

type timeCase struct {
	Mode string // "unix" | "date" | "mono"
	Sec  int64  // unix, mono
	Nsec int64  // unix (any int64 when Sec is moderate), mono
	Zone int    // 0 UTC, 1 Local, otherwise a fixed zone of Off seconds
	Off  int
	Y    int // date
	Mo   int
	D    int
	H    int
	Mi   int
	S    int
	Ns   int
}

func (c timeCase) loc() *time.Location {
	switch c.Zone {
	case 0:
		return time.UTC
	case 1:
		return time.Local
	}
	return time.FixedZone("z", c.Off)
}

// build returns the time.Time and the (seconds, nanos) it denotes according to its construction.
func (c timeCase) build() (t time.Time, sec int64, nsec int64, ok bool) {
	switch c.Mode {
	case "unix":
		total := exactNanos(c.Sec, c.Nsec)
		q, r := new(big.Int).DivMod(total, bigE9, new(big.Int)) // Euclidean: 0 <= r < 10^9
		if !q.IsInt64() {
			return t, 0, 0, false
		}
		return time.Unix(c.Sec, c.Nsec).In(c.loc()), q.Int64(), r.Int64(), true
	case "date":
		off := 0
		if c.Zone > 1 {
			off = c.Off
		}
		loc := time.UTC
		if c.Zone > 1 {
			loc = time.FixedZone("z", c.Off)
		}
		sec = daysFromCivil(int64(c.Y), int64(c.Mo), int64(c.D))*86400 + int64(c.H)*3600 + int64(c.Mi)*60 + int64(c.S) - int64(off)
		return time.Date(c.Y, time.Month(c.Mo), c.D, c.H, c.Mi, c.S, c.Ns, loc), sec, int64(c.Ns), true
	case "mono":
		// a value that carries a monotonic clock reading and whose wall clock is the wanted instant
		now := time.Now()
		target := time.Unix(c.Sec, c.Nsec)
		return now.Add(target.Sub(now)).In(c.loc()), c.Sec, c.Nsec, true
	}
	return t, 0, 0, false
}

func checkTime(c timeCase) error {
	t, sec, nsec, ok := c.build()
	if !ok {
		return nil
	}
	ts := timestamppb.New(t)
	if ts == nil {
		return fmt.Errorf("timestamppb.New(%v) = nil", t)
	}
	if ts.Seconds != sec || int64(ts.Nanos) != nsec {
		return fmt.Errorf("timestamppb.New(%v) = {%d,%d}, the instant is (%d s, %d ns)", t, ts.Seconds, ts.Nanos, sec, nsec)
	}
	got := ts.AsTime()
	if !got.Equal(t) || got.Before(t) || got.After(t) {
		return fmt.Errorf("timestamppb.New(t).AsTime() = %v, not equal to t = %v", got, t)
	}
	if got.Unix() != t.Unix() || got.Nanosecond() != t.Nanosecond() {
		return fmt.Errorf("timestamppb.New(t).AsTime() = (%d s, %d ns), t = (%d s, %d ns)", got.Unix(), got.Nanosecond(), t.Unix(), t.Nanosecond())
	}
	if got.Location() != time.UTC {
		return fmt.Errorf("AsTime() location %v, documented UTC", got.Location())
	}
	y := civilYear(sec)
	wantValid := y >= 1 && y <= 9999
	if v := ts.IsValid(); v != wantValid {
		return fmt.Errorf("timestamppb.New(%v).IsValid() = %v, year is %d", t, v, y)
	}
	if err := ts.CheckValid(); (err == nil) != wantValid {
		return fmt.Errorf("timestamppb.New(%v).CheckValid() = %v, year is %d", t, err, y)
	}
	return nil
}

func drawTime(t *rapid.T) timeCase {
	c := timeCase{}
	switch rapid.IntRange(0, 5).Draw(t, "zone") {
	case 0, 1:
		c.Zone = 0
	case 2:
		c.Zone = 1
	default:
		c.Zone = 2
		c.Off = rapid.SampledFrom([]int{0, 1, -1, 3600, -3600, 19800, 20700, 50400, -43200, 64800, -64800, 86399, -86399}).Draw(t, "off")
	}
	switch rapid.IntRange(0, 6).Draw(t, "mode") {
	case 0: // range ends of the Timestamp type, +- a little
		c.Mode = "unix"
		c.Sec = rapid.SampledFrom([]int64{tsMin, tsMax, 0, -1, 1 << 31, 1 << 32, 1 << 33, -(1 << 31), -2208988800, 4102444800}).Draw(t, "b") + int64(rapid.IntRange(-2, 2).Draw(t, "d"))
		c.Nsec = rapid.SampledFrom([]int64{0, 1, 999_999_999, 999_999_998, 500_000_000, 123_456_789}).Draw(t, "ns")
	case 1: // years -10000..+20000
		c.Mode = "unix"
		c.Sec = rapid.Int64Range(daysFromCivil(-10000, 1, 1)*86400, daysFromCivil(20000, 1, 1)*86400).Draw(t, "sec")
		c.Nsec = rapid.Int64Range(0, 999_999_999).Draw(t, "ns")
	case 2: // time.Unix with nanoseconds outside [0, 10^9)
		c.Mode = "unix"
		c.Sec = rapid.Int64Range(tsMin-100, tsMax+100).Draw(t, "sec")
		c.Nsec = gen.Int64().Draw(t, "bigns")
	case 3: // anything time.Unix accepts (the internal representation wraps; Equal/Unix still agree)
		c.Mode = "unix"
		c.Sec = gen.Int64().Draw(t, "anysec")
		c.Nsec = rapid.Int64Range(0, 999_999_999).Draw(t, "ns")
	case 4, 5:
		c.Mode = "date"
		if c.Zone == 1 {
			c.Zone = 0
		}
		c.Y = rapid.SampledFrom([]int{-10000, -1, 0, 1, 2, 4, 100, 400, 1582, 1600, 1899, 1900, 1969, 1970, 2000, 2024, 2038, 2100, 9999, 10000, 20000}).Draw(t, "y")
		if rapid.Bool().Draw(t, "anyyear") {
			c.Y = rapid.IntRange(-10000, 20000).Draw(t, "year")
		}
		c.Mo = rapid.IntRange(1, 12).Draw(t, "mo")
		dim := []int{31, 28, 31, 30, 31, 30, 31, 31, 30, 31, 30, 31}[c.Mo-1]
		if c.Mo == 2 && (c.Y%4 == 0 && (c.Y%100 != 0 || c.Y%400 == 0)) {
			dim = 29
		}
		c.D = rapid.IntRange(1, dim).Draw(t, "d")
		if rapid.Bool().Draw(t, "edge") {
			c.D = rapid.SampledFrom([]int{1, dim}).Draw(t, "dedge")
			c.H, c.Mi, c.S = rapid.SampledFrom([]int{0, 23}).Draw(t, "h"), rapid.SampledFrom([]int{0, 59}).Draw(t, "mi"), rapid.SampledFrom([]int{0, 59}).Draw(t, "s")
			c.Ns = rapid.SampledFrom([]int{0, 1, 999_999_999}).Draw(t, "ns")
		} else {
			c.H, c.Mi, c.S = rapid.IntRange(0, 23).Draw(t, "h"), rapid.IntRange(0, 59).Draw(t, "mi"), rapid.IntRange(0, 59).Draw(t, "s")
			c.Ns = rapid.IntRange(0, 999_999_999).Draw(t, "ns")
		}
	default:
		c.Mode = "mono"
		c.Sec = rapid.Int64Range(-2208988800+86400, 5900000000).Draw(t, "sec") // 1900 .. 2156: monotonic reading survives Add
		c.Nsec = rapid.Int64Range(0, 999_999_999).Draw(t, "ns")
	}
	return c
}

func TestTimes(t *testing.T) {
	pbt.Run(t, pbt.Prop[timeCase]{
		Name: "times",
		Rule: "time.Time built by time.Unix (range ends of Timestamp, years -10000..20000, nanosecond arguments outside [0,10^9), any int64 seconds), by time.Date (civil fields, leap days, fixed zones with odd offsets) and by Now().Add (carries a monotonic reading), in UTC / Local / fixed zones; New(t) holds the instant computed independently (math/big, days-from-civil), AsTime() equals t and is UTC, validity <=> year in 1..9999. non-trivial = non-UTC location, or negative seconds, or nanos within 2 of 0/10^9, or a monotonic reading, or outside years 1..9999",
		Draw: drawTime, Check: checkTime,
		NonTrivial: func(c timeCase) bool {
			_, sec, nsec, ok := c.build()
			if !ok {
				return false
			}
			y := civilYear(sec)
			return c.Zone != 0 || sec < 0 || nsec <= 2 || nsec >= 999_999_997 || c.Mode == "mono" || y < 1 || y > 9999
		},
		Classes: func(c timeCase) []string {
			out := []string{"mode-" + c.Mode, []string{"utc", "local", "fixed-zone"}[c.Zone]}
			_, sec, _, ok := c.build()
			if !ok {
				return append(out, "unbuildable")
			}
			switch y := civilYear(sec); {
			case y < 1:
				out = append(out, "before-year-1")
			case y > 9999:
				out = append(out, "after-year-9999")
			default:
				out = append(out, "valid-range")
			}
			if sec < 0 {
				out = append(out, "negative-seconds")
			}
			if c.Mode == "unix" && (c.Nsec < 0 || c.Nsec >= nanosPerSec) {
				out = append(out, "unnormalised-nsec-argument")
			}
			return out
		},
		Quick: 80000, Thorough: 1000000,
	})
}

// ---- nil receivers and the fixed witness of the known deviation ------------------------------------------

type nilCase struct{ Kind string }

func TestNil(t *testing.T) {
	pbt.Enumerate(t, "nil", "nil *Duration / *Timestamp: invalid, CheckValid reports an error naming nil, As* do not panic; non-trivial = all", true,
		func(yield func(nilCase, bool) bool) {
			_ = yield(nilCase{"duration"}, true) && yield(nilCase{"timestamp"}, true)
		}, func(c nilCase) error {
			switch c.Kind {
			case "duration":
				var d *durationpb.Duration
				if d.IsValid() || d.CheckValid() == nil {
					return fmt.Errorf("nil Duration reported valid")
				}
				if !strings.Contains(d.CheckValid().Error(), "nil") {
					return fmt.Errorf("nil Duration: CheckValid() = %q", d.CheckValid())
				}
				_ = d.AsDuration() // must not panic
			case "timestamp":
				var x *timestamppb.Timestamp
				if x.IsValid() || x.CheckValid() == nil {
					return fmt.Errorf("nil Timestamp reported valid")
				}
				if !strings.Contains(x.CheckValid().Error(), "nil") {
					return fmt.Errorf("nil Timestamp: CheckValid() = %q", x.CheckValid())
				}
				_ = x.AsTime() // must not panic
			}
			return nil
		})
}

func TestKnownClampWitness(t *testing.T) {
	if pbt.ReplayPath != "" {
		t.Skip()
	}
	d := &durationpb.Duration{Seconds: 9223372037, Nanos: math.MinInt32}
	exact := exactNanos(d.Seconds, int64(d.Nanos)) // 9223372034852516352, inside int64
	got := int64(d.AsDuration())
	pbt.Witness(t, kfClampID, inInt64(exact) && got != exact.Int64(),
		fmt.Sprintf("Duration{9223372037,-2147483648}.AsDuration() = %d, exact value %s fits int64", got, exact))
}
