package corpus

import (
	"reflect"
	"sort"
	"strings"

	"google.golang.org/protobuf/reflect/protoreflect"
	"google.golang.org/protobuf/reflect/protoregistry"
)

// Messages returns every registered message type, sorted by full name.
func Messages() []protoreflect.MessageType {
	var out []protoreflect.MessageType
	protoregistry.GlobalTypes.RangeMessages(func(mt protoreflect.MessageType) bool {
		out = append(out, mt)
		return true
	})
	sort.Slice(out, func(i, j int) bool { return out[i].Descriptor().FullName() < out[j].Descriptor().FullName() })
	return out
}

// Names returns the full names of Messages().
func Names() []string {
	var out []string
	for _, mt := range Messages() {
		out = append(out, string(mt.Descriptor().FullName()))
	}
	return out
}

// ByName finds a registered message type (panics when absent: corpus names are constants).
func ByName(name string) protoreflect.MessageType {
	mt, err := protoregistry.GlobalTypes.FindMessageByName(protoreflect.FullName(name))
	if err != nil {
		panic("corpus: " + name + ": " + err.Error())
	}
	return mt
}

// IsMessageSet reports whether md (or anything reachable from it) uses the MessageSet wire format.
func UsesMessageSet(md protoreflect.MessageDescriptor) bool {
	return usesMessageSet(md, map[protoreflect.FullName]bool{})
}

func usesMessageSet(md protoreflect.MessageDescriptor, seen map[protoreflect.FullName]bool) bool {
	if seen[md.FullName()] {
		return false
	}
	seen[md.FullName()] = true
	if isMessageSet(md) {
		return true
	}
	fs := md.Fields()
	for i := 0; i < fs.Len(); i++ {
		if m := fs.Get(i).Message(); m != nil && usesMessageSet(m, seen) {
			return true
		}
	}
	return false
}

func isMessageSet(md protoreflect.MessageDescriptor) bool {
	xmd, ok := md.(interface{ IsMessageSet() bool })
	return ok && xmd.IsMessageSet()
}

// Filter returns the names of corpus messages matching any of the given package prefixes.
func Filter(prefixes ...string) []string {
	var out []string
	for _, n := range Names() {
		for _, p := range prefixes {
			if strings.HasPrefix(n, p) {
				out = append(out, n)
				break
			}
		}
	}
	return out
}

// PreservesUnknown reports whether messages of this type can hold unknown fields. Only the
// historical generations under internal/testprotos/legacy (code generated before unknown-field
// preservation existed for proto3) may answer false; every other type must preserve them.
func PreservesUnknown(mt protoreflect.MessageType) bool {
	path := mt.Descriptor().ParentFile().Path()
	if !(strings.HasPrefix(path, "proto2_20") || strings.HasPrefix(path, "proto3_20")) {
		return true
	}
	m := mt.New()
	m.SetUnknown(protoreflect.RawFields{0x08, 0x00})
	return len(m.GetUnknown()) > 0
}

// Standard returns the message types general properties quantify over: everything linked except
// (a) types that use the MessageSet wire format (rejected by design without -tags protolegacy;
// covered by C47) and (b) the hand-written "irregular" aberrant implementations, whose nested
// message is a custom type outside the generated/dynamic contract (covered by C46).
func Standard() []string {
	var out []string
	for _, mt := range Messages() {
		md := mt.Descriptor()
		if UsesMessageSet(md) || strings.HasPrefix(string(md.FullName()), "goproto.proto.irregular.") {
			continue
		}
		out = append(out, string(md.FullName()))
	}
	return out
}

// Rich returns the Standard() types with at least minFields declared fields.
func Rich(minFields int) []string {
	var out []string
	for _, n := range Standard() {
		if ByName(n).Descriptor().Fields().Len() >= minFields {
			out = append(out, n)
		}
	}
	return out
}

// LazyCapable returns the Standard() types whose generated Go struct carries lazy-decoding state
// (opaque API with at least one [lazy = true] message field) in this build.
func LazyCapable() []string {
	var out []string
	for _, n := range Standard() {
		rt := reflect.TypeOf(ByName(n).New().Interface())
		if rt.Kind() == reflect.Ptr && rt.Elem().Kind() == reflect.Struct {
			if _, ok := rt.Elem().FieldByName("XXX_lazyUnmarshalInfo"); ok {
				out = append(out, n)
			}
		}
	}
	return out
}

// LazyFields returns the numbers of the lazy message fields of md.
func LazyFields(md protoreflect.MessageDescriptor) []protoreflect.FieldNumber {
	var out []protoreflect.FieldNumber
	fs := md.Fields()
	for i := 0; i < fs.Len(); i++ {
		if x, ok := fs.Get(i).(interface{ IsLazy() bool }); ok && x.IsLazy() && fs.Get(i).Message() != nil && !fs.Get(i).IsList() && !fs.Get(i).IsMap() {
			out = append(out, fs.Get(i).Number())
		}
	}
	return out
}

// HasRequired reports whether a required field is reachable from md.
func HasRequired(md protoreflect.MessageDescriptor) bool {
	return hasRequired(md, map[protoreflect.FullName]bool{})
}

func hasRequired(md protoreflect.MessageDescriptor, seen map[protoreflect.FullName]bool) bool {
	if seen[md.FullName()] {
		return false
	}
	seen[md.FullName()] = true
	if md.RequiredNumbers().Len() > 0 {
		return true
	}
	fs := md.Fields()
	for i := 0; i < fs.Len(); i++ {
		sub := fs.Get(i).Message()
		if fs.Get(i).IsMap() {
			sub = fs.Get(i).MapValue().Message()
		}
		if sub != nil && hasRequired(sub, seen) {
			return true
		}
	}
	// extensions of md with message type
	found := false
	protoregistry.GlobalTypes.RangeExtensionsByMessage(md.FullName(), func(xt protoreflect.ExtensionType) bool {
		if sub := xt.TypeDescriptor().Message(); sub != nil && hasRequired(sub, seen) {
			found = true
			return false
		}
		return true
	})
	return found
}

// RequiredBearing returns the Standard() types from which a required field is reachable.
func RequiredBearing() []string {
	var out []string
	for _, n := range Standard() {
		if HasRequired(ByName(n).Descriptor()) {
			out = append(out, n)
		}
	}
	return out
}

// Modern returns Standard() without the historical generated-code generations under
// internal/testprotos/legacy (wrapped legacy messages are the subject of C46).
func Modern() []string {
	var out []string
	for _, n := range Standard() {
		path := ByName(n).Descriptor().ParentFile().Path()
		if strings.HasPrefix(path, "proto2_20") || strings.HasPrefix(path, "proto3_20") || strings.HasPrefix(n, "google.golang.org.") {
			continue
		}
		out = append(out, n)
	}
	return out
}

// ModernRich returns the Modern() types with at least minFields fields.
func ModernRich(minFields int) []string {
	var out []string
	for _, n := range Modern() {
		if ByName(n).Descriptor().Fields().Len() >= minFields {
			out = append(out, n)
		}
	}
	return out
}
