package c47

import (
	"fmt"
	"testing"

	"google.golang.org/protobuf/proto"
	"google.golang.org/protobuf/zverif/pbt"
)

// TestWitnessLazyDupItem replays the fixed input of KF-messageset-lazy-dup-item: two items for
// type id 1000 (Ext1), first ext1_field1 = 1, then ext1_field2 = 2; Marshal with default options
// right after Unmarshal; the output must decode to both fields again.
func TestWitnessLazyDupItem(t *testing.T) {
	ok, err := legacyLeg()
	if err != nil {
		t.Fatalf("%v", err)
	}
	if !ok {
		t.Skip("build without MessageSet support")
	}
	loadTypes()
	st := setByName["goproto.proto.messageset.MessageSet"]
	if st == nil {
		t.Fatalf("harness: goproto.proto.messageset.MessageSet not linked")
	}
	in := []byte{0x0b, 0x10, 0xe8, 0x07, 0x1a, 0x02, 0x08, 0x01, 0x0c, 0x0b, 0x10, 0xe8, 0x07, 0x1a, 0x02, 0x10, 0x02, 0x0c}
	m := st.mt.New()
	if err := proto.Unmarshal(in, m.Interface()); err != nil {
		t.Fatalf("harness: witness input rejected: %v", err)
	}
	out, err := proto.Marshal(m.Interface())
	if err != nil {
		t.Fatalf("harness: Marshal: %v", err)
	}
	m2 := st.mt.New()
	err = proto.Unmarshal(out, m2.Interface())
	_, perr := parseItemsStrict(out)
	reproduces := err != nil || perr != nil || !proto.Equal(m.Interface(), m2.Interface())
	pbt.Witness(t, "KF-messageset-lazy-dup-item", reproduces,
		fmt.Sprintf("Unmarshal(%x) then Marshal gives %x (strict item parse: %v); decoding that again: err=%v, Equal=%v", in, out, perr, err, err == nil && proto.Equal(m.Interface(), m2.Interface())))
}
