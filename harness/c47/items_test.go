package c47

// Independent MessageSet item encoder and parser, written from the format
//
//	message MessageSet { repeated group Item = 1 { required int32 type_id = 2; required bytes message = 3; } }
//
// with the harness's own wire primitives (harness/ref). Nothing here calls protowire or
// internal/encoding/messageset.

import (
	"fmt"

	"google.golang.org/protobuf/zverif/model"
	"google.golang.org/protobuf/zverif/ref"
)

// part is one field inside an item, in wire order.
type part struct {
	Kind string     `json:"kind"`          // "id" | "msg" | "raw" | "junk"
	ID   uint64     `json:"id,omitempty"`  // id: the varint written for type_id
	M    *model.Msg `json:"m,omitempty"`   // msg: payload = reference encoding of this value of the extension's message type
	Raw  []byte     `json:"raw,omitempty"` // raw: payload bytes of a message field; junk: one or more well-formed records that are neither (2,varint) nor (3,bytes)
	Pad  int        `json:"pad,omitempty"` // extra bytes in the varint of the value (id) or of the length (msg/raw)
	TPad int        `json:"tpad,omitempty"` // extra bytes in the tag varint
}

type item struct {
	Parts    []part `json:"parts"`
	StartPad int    `json:"startpad,omitempty"`
	EndPad   int    `json:"endpad,omitempty"`
	WrongEnd int64  `json:"wrongend,omitempty"` // != 0: the group is closed with this field number instead of 1 (malformed)
	NoEnd    bool   `json:"noend,omitempty"`    // the end-group tag is missing (malformed; last element only)
}

// top is one top-level element: an item or junk (well-formed records that are not a field-1 group).
type top struct {
	Item *item  `json:"item,omitempty"`
	Junk []byte `json:"junk,omitempty"`
}

func paddedVarint(b []byte, v uint64, pad int) []byte {
	if pad <= 0 {
		return ref.Varint(b, v)
	}
	n := ref.VarintLen(v) + pad
	if n > 10 {
		n = 10
	}
	if n <= ref.VarintLen(v) {
		return ref.Varint(b, v)
	}
	return ref.VarintPadded(b, v, n)
}

func paddedTag(b []byte, num int64, typ int, pad int) []byte {
	return paddedVarint(b, uint64(num)<<3|uint64(typ), pad)
}

// payloadOf returns the payload bytes of a msg/raw part; enc encodes model values.
func payloadOf(p part, enc func(*model.Msg) []byte) []byte {
	if p.Kind == "msg" {
		return enc(p.M)
	}
	return p.Raw
}

func encodeItem(b []byte, it *item, enc func(*model.Msg) []byte) []byte {
	b = paddedTag(b, 1, 3, it.StartPad)
	for _, p := range it.Parts {
		switch p.Kind {
		case "id":
			b = paddedTag(b, 2, 0, p.TPad)
			b = paddedVarint(b, p.ID, p.Pad)
		case "msg", "raw":
			pl := payloadOf(p, enc)
			b = paddedTag(b, 3, 2, p.TPad)
			b = paddedVarint(b, uint64(len(pl)), p.Pad)
			b = append(b, pl...)
		case "junk":
			b = append(b, p.Raw...)
		}
	}
	switch {
	case it.NoEnd:
	case it.WrongEnd != 0:
		b = paddedTag(b, it.WrongEnd, 4, it.EndPad)
	default:
		b = paddedTag(b, 1, 4, it.EndPad)
	}
	return b
}

func encodeSet(tops []top, enc func(id uint64, m *model.Msg) []byte) []byte {
	var b []byte
	for _, t := range tops {
		if t.Item == nil {
			b = append(b, t.Junk...)
			continue
		}
		id := effectiveID(t.Item)
		b = encodeItem(b, t.Item, func(m *model.Msg) []byte { return enc(id, m) })
	}
	return b
}

// effectiveID: the last type_id field of the item counts (a singular field written twice); 0 = none.
func effectiveID(it *item) uint64 {
	var id uint64
	for _, p := range it.Parts {
		if p.Kind == "id" {
			id = p.ID
		}
	}
	return id
}

// wireItem is one item as found by the strict parser.
type wireItem struct {
	ID      uint64
	Payload []byte
	IDFirst bool
}

// parseItemsStrict parses what Marshal must write: nothing but field-1 groups, each holding
// exactly one type_id varint and one message bytes field (either order), properly closed.
func parseItemsStrict(b []byte) ([]wireItem, error) {
	var out []wireItem
	for len(b) > 0 {
		num, typ, n, d := ref.ConsumeTag(b)
		if d != ref.OK {
			return nil, fmt.Errorf("bad tag at top level (%v)", d)
		}
		if num != 1 || typ != 3 {
			return nil, fmt.Errorf("top-level field %d wire type %d is not an item", num, typ)
		}
		b = b[n:]
		var it wireItem
		seenID, seenMsg := false, false
		for {
			num, typ, n, d := ref.ConsumeTag(b)
			if d != ref.OK {
				return nil, fmt.Errorf("bad tag inside an item (%v)", d)
			}
			b = b[n:]
			if num == 1 && typ == 4 {
				break
			}
			switch {
			case num == 2 && typ == 0:
				if seenID {
					return nil, fmt.Errorf("item with two type_id fields")
				}
				v, n, d := ref.ConsumeVarint(b)
				if d != ref.OK {
					return nil, fmt.Errorf("bad type_id varint")
				}
				b = b[n:]
				it.ID, seenID = v, true
				it.IDFirst = !seenMsg
			case num == 3 && typ == 2:
				if seenMsg {
					return nil, fmt.Errorf("item with two message fields")
				}
				l, n, d := ref.ConsumeVarint(b)
				if d != ref.OK || l > uint64(len(b)-n) {
					return nil, fmt.Errorf("bad message length")
				}
				it.Payload = append([]byte{}, b[n:n+int(l)]...)
				b = b[n+int(l):]
				seenMsg = true
			default:
				return nil, fmt.Errorf("item holds field %d wire type %d", num, typ)
			}
		}
		if !seenID || !seenMsg {
			return nil, fmt.Errorf("item lacks type_id or message (id=%v message=%v)", seenID, seenMsg)
		}
		if it.ID < 1 || it.ID > 1<<31-1 {
			return nil, fmt.Errorf("item with type_id %d", it.ID)
		}
		out = append(out, it)
	}
	return out, nil
}

// unknownItems reads a message's unknown fields as MessageSet leftovers: every record must be
// bytes-typed; the record's number is the type id.
func unknownItems(u []byte) ([]wireItem, error) {
	recs, ok := ref.Split(u)
	if !ok {
		return nil, fmt.Errorf("unknown fields are not a well-formed field sequence: %x", u)
	}
	var out []wireItem
	for _, r := range recs {
		if r.Typ != 2 {
			return nil, fmt.Errorf("unknown fields hold field %d with wire type %d", r.Num, r.Typ)
		}
		out = append(out, wireItem{ID: uint64(r.Num), Payload: append([]byte{}, r.Payload()...)})
	}
	return out, nil
}

// perID groups payloads by type id, keeping the order within one id.
func perID(items []wireItem) map[uint64][][]byte {
	out := map[uint64][][]byte{}
	for _, it := range items {
		out[it.ID] = append(out[it.ID], it.Payload)
	}
	return out
}

func diffPerID(want, got map[uint64][][]byte) string {
	for id, w := range want {
		g := got[id]
		if len(w) != len(g) {
			return fmt.Sprintf("type id %d: %d unknown items, want %d", id, len(g), len(w))
		}
		for i := range w {
			if string(w[i]) != string(g[i]) {
				return fmt.Sprintf("type id %d, item %d: payload %x, want %x", id, i, g[i], w[i])
			}
		}
	}
	for id, g := range got {
		if _, ok := want[id]; !ok {
			return fmt.Sprintf("type id %d: %d unexpected unknown items", id, len(g))
		}
	}
	return ""
}

func appendUnknownRecord(u []byte, id uint64, payload []byte) []byte {
	u = ref.Tag(u, int64(id), 2)
	u = ref.Varint(u, uint64(len(payload)))
	return append(u, payload...)
}

// sameItems: two Marshal outputs hold the same items in the same order.
func sameItems(a, b []byte) bool {
	ia, ea := parseItemsStrict(a)
	ib, eb := parseItemsStrict(b)
	if ea != nil || eb != nil || len(ia) != len(ib) {
		return false
	}
	for i := range ia {
		if ia[i].ID != ib[i].ID || string(ia[i].Payload) != string(ib[i].Payload) {
			return false
		}
	}
	return true
}

// lazyDupSignature recognises the root cause of KF-messageset-lazy-dup-item in a Marshal output:
// an item that, besides its type_id X and message, holds a plain bytes field numbered X (a second
// occurrence of the extension copied in its non-MessageSet encoding).
func lazyDupSignature(b []byte) bool {
	for len(b) > 0 {
		num, typ, n, d := ref.ConsumeTag(b)
		if d != ref.OK {
			return false
		}
		b = b[n:]
		if num != 1 || typ != 3 {
			m, d := ref.ConsumeValue(num, typ, b, ref.DefaultDepth)
			if d != ref.OK {
				return false
			}
			b = b[m:]
			continue
		}
		var id uint64
		var plain []int64
		for {
			num, typ, n, d := ref.ConsumeTag(b)
			if d != ref.OK {
				return false
			}
			b = b[n:]
			if num == 1 && typ == 4 {
				break
			}
			if num == 2 && typ == 0 {
				v, _, _ := ref.ConsumeVarint(b)
				id = v
			} else if typ == 2 && num != 3 {
				plain = append(plain, num)
			}
			m, d := ref.ConsumeValue(num, typ, b, ref.DefaultDepth)
			if d != ref.OK {
				return false
			}
			b = b[m:]
		}
		for _, p := range plain {
			if uint64(p) == id {
				return true
			}
		}
	}
	return false
}
