package c47

// Leg "default" (built without -tags protolegacy): MessageSet support is compiled out. What the
// package documentation and the error texts promise is checked here: descriptor-driven Marshal /
// Unmarshal (dynamicpb) refuse MessageSet messages, protojson / prototext refuse them for every
// implementation, and protodesc.NewFile refuses files that declare one.
//
// Not asserted: what the table-driven code of a *generated* MessageSet type does in this build
// (it treats the message as an ordinary extendable message — it neither writes nor reads items and
// does not fail); the count of such silent encodings is recorded in the evidence as a note.

import (
	"fmt"
	"strings"
	"testing"

	"google.golang.org/protobuf/encoding/protojson"
	"google.golang.org/protobuf/encoding/prototext"
	"google.golang.org/protobuf/proto"
	"google.golang.org/protobuf/reflect/protodesc"
	"google.golang.org/protobuf/reflect/protoreflect"
	"google.golang.org/protobuf/reflect/protoregistry"
	"google.golang.org/protobuf/types/dynamicpb"
	"google.golang.org/protobuf/zverif/pbt"
	"pgregory.net/rapid"
)

type rejectCase struct {
	Content contentCase `json:"content"`
	Wire    wireCase    `json:"wire"`
}

func checkRejected(c rejectCase) error {
	loadTypes()
	st := setByName[c.Content.Type]
	if st == nil {
		return fmt.Errorf("harness: unknown type %q", c.Content.Type)
	}
	want := c.Content.content()
	d := dynamicpb.NewMessage(st.md)
	if err := apply(st, d, want); err != nil {
		return err
	}
	if b, err := (proto.MarshalOptions{AllowPartial: true}).Marshal(d); err == nil {
		return fmt.Errorf("dynamicpb %s: Marshal succeeded in a build without MessageSet support (bytes %x)", st.name, b)
	}
	g := st.mt.New()
	if err := apply(st, g, want); err != nil {
		return err
	}
	for _, m := range []protoreflect.Message{g, d} {
		if b, err := (protojson.MarshalOptions{AllowPartial: true}).Marshal(m.Interface()); err == nil {
			return fmt.Errorf("%T %s: protojson.Marshal succeeded in a build without MessageSet support: %s", m.Interface(), st.name, b)
		}
		if b, err := (prototext.MarshalOptions{AllowPartial: true}).Marshal(m.Interface()); err == nil {
			return fmt.Errorf("%T %s: prototext.Marshal succeeded in a build without MessageSet support: %s", m.Interface(), st.name, b)
		}
	}
	wst := setByName[c.Wire.Type]
	if wst == nil {
		return fmt.Errorf("harness: unknown type %q", c.Wire.Type)
	}
	in := c.Wire.wire(wst)
	if err := (proto.UnmarshalOptions{AllowPartial: true}).Unmarshal(in, dynamicpb.NewMessage(wst.md)); err == nil {
		return fmt.Errorf("dynamicpb %s: Unmarshal succeeded in a build without MessageSet support (bytes %x)", wst.name, in)
	}
	// observation only: the generated type in this build
	if b, err := (proto.MarshalOptions{AllowPartial: true}).Marshal(g.Interface()); err == nil && len(b) > 0 {
		if _, perr := parseItemsStrict(b); perr != nil {
			pbt.S.AddExtra("default_build_generated_marshal_not_rejected_and_not_item_format", 1)
		}
	}
	return nil
}

func TestRejectedWithoutLegacy(t *testing.T) {
	ok, err := legacyLeg()
	if err != nil {
		t.Fatalf("%v", err)
	}
	if ok {
		t.Skip("build with MessageSet support")
	}
	pbt.Run(t, pbt.Prop[rejectCase]{
		Name: "rejected",
		Rule: "default build: MessageSet type + content (as in sub-check content) and a perturbed item encoding (as in sub-check wire); dynamicpb Marshal / Unmarshal, protojson and prototext Marshal of generated and dynamicpb messages must all fail; every case is non-trivial",
		Draw: func(t *rapid.T) rejectCase {
			c := rejectCase{Content: drawContent(t), Wire: drawWire(t)}
			c.Content.Wrap, c.Wire.Wrap = "", ""
			return c
		},
		Check: checkRejected,
		Classes: func(c rejectCase) []string {
			return []string{"path:default", fmt.Sprintf("known:%d", len(c.Content.Known)), fmt.Sprintf("unknown:%d", len(c.Content.Unknown))}
		},
		Quick: 2000, Thorough: 20000,
	})
}

type fileCase struct {
	Path string `json:"path"`
}

func setFiles() []protoreflect.FileDescriptor {
	loadTypes()
	seen := map[string]bool{}
	var out []protoreflect.FileDescriptor
	for _, st := range setTypes {
		fd := st.md.ParentFile()
		if !seen[fd.Path()] {
			seen[fd.Path()] = true
			out = append(out, fd)
		}
	}
	return out
}

// TestProtodesc: files declaring a MessageSet are refused by protodesc.NewFile without legacy
// support ("… is a MessageSet, which is a legacy proto1 feature that is no longer supported") and
// accepted with it, the rebuilt message still being a MessageSet with the same extension ranges.
func TestProtodesc(t *testing.T) {
	legacy, err := legacyLeg()
	if err != nil {
		t.Fatalf("%v", err)
	}
	pbt.Enumerate(t, "protodesc", "every linked file that declares a MessageSet message: NewFile(ToFileDescriptorProto(fd)) fails without legacy support and succeeds with it (message still a MessageSet, same extension ranges)", true,
		func(yield func(c fileCase, nt bool) bool) {
			for _, fd := range setFiles() {
				if !yield(fileCase{Path: fd.Path()}, true) {
					return
				}
			}
		},
		func(c fileCase) error {
			for _, fd := range setFiles() {
				if fd.Path() != c.Path {
					continue
				}
				p := protodesc.ToFileDescriptorProto(fd)
				fd2, err := protodesc.NewFile(p, protoregistry.GlobalFiles)
				if !legacy {
					if err == nil {
						return fmt.Errorf("%s: NewFile accepted a file declaring a MessageSet in a build without legacy support", c.Path)
					}
					if !strings.Contains(err.Error(), "MessageSet") {
						return fmt.Errorf("%s: NewFile failed for another reason: %v", c.Path, err)
					}
					return nil
				}
				if err != nil {
					return fmt.Errorf("%s: NewFile failed in a build with legacy support: %v", c.Path, err)
				}
				for _, st := range setTypes {
					if st.md.ParentFile().Path() != c.Path {
						continue
					}
					var md2 protoreflect.MessageDescriptor
					var find func(ms protoreflect.MessageDescriptors)
					find = func(ms protoreflect.MessageDescriptors) {
						for i := 0; i < ms.Len(); i++ {
							if ms.Get(i).FullName() == st.md.FullName() {
								md2 = ms.Get(i)
							}
							find(ms.Get(i).Messages())
						}
					}
					find(fd2.Messages())
					if md2 == nil {
						return fmt.Errorf("%s: rebuilt file lacks %s", c.Path, st.name)
					}
					if !isMessageSet(md2) {
						return fmt.Errorf("%s: rebuilt %s is no longer a MessageSet", c.Path, st.name)
					}
					if a, b := st.md.ExtensionRanges(), md2.ExtensionRanges(); a.Len() != b.Len() || a.Len() > 0 && a.Get(0) != b.Get(0) {
						return fmt.Errorf("%s: rebuilt %s has other extension ranges", c.Path, st.name)
					}
				}
				return nil
			}
			return fmt.Errorf("harness: no file %q", c.Path)
		})
}
