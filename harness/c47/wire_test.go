package c47

// Sub-check "wire": structured, perturbed MessageSet encodings written by the independent item
// encoder, decoded by the generated type and by dynamicpb.
//
// What is expected is decided from the structure of the input alone:
//
//	exact      every item closed properly, every type_id written is in [1, MaxInt32], every item has
//	           a type_id, payloads of registered extensions are reference encodings of model values:
//	           decoding must succeed and give — by the documented equivalence with
//	           `repeated group Item = 1 { type_id = 2; message = 3 }` — per item the last type_id and
//	           the concatenation of its message fields; items of one registered id merge, items of
//	           other ids are kept as unknown items, everything else is discarded
//	malformed  unterminated / wrongly terminated item: every implementation must fail
//	agree      undocumented corners (item without type_id, type_id 0 or > MaxInt32, arbitrary bytes
//	           as payload of a registered extension): the implementations must agree on the verdict
//	           and, on success, on the content
//
// In every successful case the decoded message's own Marshal output must again be a strict item
// sequence for its content, with Size equal to its length, and decode back to the same content.

import (
	"fmt"
	"testing"

	"google.golang.org/protobuf/proto"
	"google.golang.org/protobuf/reflect/protoreflect"
	"google.golang.org/protobuf/types/dynamicpb"
	"google.golang.org/protobuf/zverif/gen"
	"google.golang.org/protobuf/zverif/model"
	"google.golang.org/protobuf/zverif/pbt"
	"google.golang.org/protobuf/zverif/ref"
	"pgregory.net/rapid"
)

type wireCase struct {
	Type  string `json:"type"`
	Tops  []top  `json:"tops"`
	Trunc int    `json:"trunc,omitempty"` // bytes cut from the end, inside the last item (malformed)
	Wrap  string `json:"wrap,omitempty"`
}

func (c wireCase) wire(st *setType) []byte {
	b := encodeSet(c.Tops, encoderFor(st))
	if c.Trunc > 0 && c.Trunc < len(b) {
		b = b[:len(b)-c.Trunc]
	}
	return b
}

// expectation derives level and (for level "exact") the content from the structure.
func expectation(st *setType, c wireCase) (level string, want *content, tags map[string]bool) {
	want = &content{Known: map[uint64]*model.Msg{}}
	tags = map[string]bool{}
	level = "exact"
	lower := func(l string) {
		if level == "exact" || l == "malformed" {
			level = l
		}
	}
	if c.Trunc > 0 {
		lower("malformed")
		tags["truncated"] = true
	}
	seenKnown := map[uint64]int{}
	for _, t := range c.Tops {
		if t.Item == nil {
			tags["junk-top"] = true
			continue
		}
		it := t.Item
		if it.NoEnd || it.WrongEnd != 0 {
			lower("malformed")
			tags["bad-end"] = true
		}
		if it.StartPad > 0 || it.EndPad > 0 {
			tags["denorm"] = true
		}
		nid, nmsg := 0, 0
		firstKind := ""
		for _, p := range it.Parts {
			if p.Pad > 0 || p.TPad > 0 {
				tags["denorm"] = true
			}
			switch p.Kind {
			case "id":
				nid++
				if p.ID < 1 || p.ID > 1<<31-1 {
					lower("agree")
					tags["id-out-of-range"] = true
				}
				if firstKind == "" {
					firstKind = "id"
				}
			case "msg", "raw":
				nmsg++
				if firstKind == "" {
					firstKind = "msg"
				}
			case "junk":
				tags["junk-in-item"] = true
			}
		}
		if firstKind == "msg" && nid > 0 {
			tags["message-before-id"] = true
		}
		if nid > 1 {
			tags["dup-id"] = true
		}
		if nmsg > 1 {
			tags["dup-message"] = true
		}
		if nmsg == 0 {
			tags["no-message"] = true
		}
		if nid == 0 {
			lower("agree")
			tags["no-id"] = true
			continue
		}
		eff := effectiveID(it)
		if eff >= 1<<29 && eff <= 1<<31-1 {
			tags["id>=2^29"] = true
		}
		if xt := st.ext(eff); xt != nil {
			tags["known-item"] = true
			seenKnown[eff]++
			if seenKnown[eff] == 2 {
				tags["merge-same-id"] = true
			}
			xmd := xt.TypeDescriptor().Message()
			acc := want.Known[eff]
			if acc == nil {
				acc = &model.Msg{}
			}
			for _, p := range it.Parts {
				switch p.Kind {
				case "msg":
					acc = model.Merge(xmd, acc, p.M, nil)
				case "raw":
					lower("agree")
					tags["raw-payload-known"] = true
				}
			}
			want.Known[eff] = acc
		} else {
			tags["unknown-item"] = true
			var pl []byte
			for _, p := range it.Parts {
				if p.Kind == "raw" {
					pl = append(pl, p.Raw...)
				}
			}
			want.Unknown = append(want.Unknown, wireItem{ID: eff, Payload: pl})
		}
	}
	return level, want, tags
}

func checkWire(c wireCase) error {
	loadTypes()
	st := setByName[c.Type]
	if st == nil {
		return fmt.Errorf("harness: unknown type %q", c.Type)
	}
	level, want, tags := expectation(st, c)
	b := c.wire(st)
	if _, ok := ref.Split(b); ok != (level != "malformed") {
		return fmt.Errorf("harness: level %s but wire grammar says well-formed=%v (bytes %x)", level, ok, b)
	}
	var ct *container
	input := b
	if c.Wrap != "" {
		if ct = findContainer(c.Wrap); ct == nil {
			return fmt.Errorf("harness: no container %q", c.Wrap)
		}
		input = appendUnknownRecord(nil, uint64(ct.fd.Number()), b)
	}
	type res struct {
		err  error
		snap *content
		det  []byte
	}
	var rs []res
	for i, mk := range st.impls() {
		m := mk()
		var err error
		if ct == nil {
			err = proto.UnmarshalOptions{AllowPartial: true}.Unmarshal(input, m.Interface())
		} else {
			// the set decoded as a field of its container (generated container for the generated
			// set, dynamicpb container for the dynamicpb set)
			cm := ct.mt.New()
			if i == 1 {
				cm = dynamicpb.NewMessage(ct.mt.Descriptor())
			}
			err = proto.UnmarshalOptions{AllowPartial: true}.Unmarshal(input, cm.Interface())
			if err == nil {
				if !cm.Has(ct.fd) {
					return fmt.Errorf("%s container %s: set field not populated after decoding (bytes %x)", implNames[i], ct.name, input)
				}
				m = cm.Get(ct.fd).Message()
			}
		}
		r := res{err: err}
		switch {
		case err != nil && level == "exact":
			return fmt.Errorf("%s %s rejects a valid MessageSet encoding: %v (bytes %x)", implNames[i], st.name, err, b)
		case err == nil && level == "malformed":
			return fmt.Errorf("%s %s accepts a malformed encoding (bytes %x)", implNames[i], st.name, b)
		}
		if err == nil {
			// first thing after decoding, before any field is read (extensions may still be held
			// in their lazily decoded form): Marshal and Size
			// (default options first: deterministic marshalling expands lazily held extensions)
			preSize := proto.MarshalOptions{AllowPartial: true}.Size(m.Interface())
			preND, perr := proto.MarshalOptions{AllowPartial: true}.Marshal(m.Interface())
			var preDet []byte
			if perr == nil {
				// (a lazily held extension is written as received under default options and
				// re-encoded under deterministic ones: the two outputs may differ in length)
				detSize := proto.MarshalOptions{AllowPartial: true, Deterministic: true}.Size(m.Interface())
				preDet, perr = proto.MarshalOptions{AllowPartial: true, Deterministic: true}.Marshal(m.Interface())
				if perr == nil && detSize != len(preDet) {
					return fmt.Errorf("%s %s: right after Unmarshal: deterministic Size %d, deterministic Marshal wrote %d bytes (input %x)", implNames[i], st.name, detSize, len(preDet), b)
				}
			}
			if perr != nil {
				return fmt.Errorf("%s %s: Marshal right after a successful Unmarshal failed: %v (input %x)", implNames[i], st.name, perr, b)
			}
			if preSize != len(preND) {
				return fmt.Errorf("%s %s: right after Unmarshal: Size %d, Marshal wrote %d bytes (input %x)", implNames[i], st.name, preSize, len(preND), b)
			}
			if r.snap, err = snapshot(st, m); err != nil {
				return fmt.Errorf("%s %s after decoding %x: %v", implNames[i], st.name, b, err)
			}
			if level == "exact" {
				if d := diffContent(st, want, r.snap); d != "" {
					return fmt.Errorf("%s %s decodes to different content than the items say: %s (bytes %x)", implNames[i], st.name, d, b)
				}
			}
			// whatever was decoded must be written back as a strict item sequence and round-trip
			if r.det, err = checkOutput(st, implNames[i], m, r.snap); err != nil {
				return fmt.Errorf("after decoding %x: %v", b, err)
			}
			// the early output: a strict item sequence with one item per extension / unknown item
			// (payload bytes may be the ones received), decoding to the same content
			for k, pre := range [][]byte{preDet, preND} {
				// KF-messageset-lazy-dup-item: several items for one registered type id, extension
				// still held lazily, default options: the later occurrences are copied into the
				// item as plain fields (recognised by exactly that shape in the output)
				if k == 1 && i == 0 && tags["merge-same-id"] && lazyDupSignature(pre) && pbt.ExcludeKnown("KF-messageset-lazy-dup-item") {
					continue
				}
				items, perr := parseItemsStrict(pre)
				if perr != nil {
					return fmt.Errorf("%s %s: Marshal output right after Unmarshal is not a sequence of well-formed items: %v (bytes %x, input %x)", implNames[i], st.name, perr, pre, b)
				}
				if len(items) != len(r.snap.Known)+len(r.snap.Unknown) {
					return fmt.Errorf("%s %s: Marshal right after Unmarshal wrote %d items for %d extensions + %d unknown items (bytes %x)", implNames[i], st.name, len(items), len(r.snap.Known), len(r.snap.Unknown), pre)
				}
				if err := checkDecodes(st, "the output written right after Unmarshal by "+implNames[i], pre, r.snap); err != nil {
					return err
				}
			}
			if err := checkDecodes(st, "the re-marshalled output of "+implNames[i], r.det, r.snap); err != nil {
				return err
			}
		}
		rs = append(rs, r)
	}
	if (rs[0].err == nil) != (rs[1].err == nil) {
		return fmt.Errorf("%s: verdicts differ: generated %v, dynamicpb %v (bytes %x)", st.name, rs[0].err, rs[1].err, b)
	}
	if rs[0].err == nil {
		if d := diffContent(st, rs[0].snap, rs[1].snap); d != "" {
			return fmt.Errorf("%s: generated type and dynamicpb decode to different content (generated vs dynamicpb): %s (bytes %x)", st.name, d, b)
		}
		// item by item (the table-driven decoder keeps an unknown item's length prefix as written,
		// padded or not; the reflection-driven one re-encodes it: both are valid encodings)
		if !sameItems(rs[0].det, rs[1].det) {
			return fmt.Errorf("%s: deterministic outputs after decoding differ:\n  %x\n  %x", st.name, rs[0].det, rs[1].det)
		}
	}
	return nil
}

// ---------------------------------------------------------------------------------------------
// generator

func drawJunkRecord(t *rapid.T, inItem bool, depth int) []byte {
	num := rapid.SampledFrom([]int64{1, 2, 3, 4, 5, 15, 16, 1000, 1001, 2047, 1<<29 - 1, 1 << 29, 1<<31 - 1}).Draw(t, "junknum")
	typ := rapid.SampledFrom([]int{0, 1, 2, 5, 3}).Draw(t, "junktyp")
	if inItem {
		// not a type_id varint, not a message bytes field
		if num == 2 && typ == 0 || num == 3 && typ == 2 {
			typ = 5
		}
	} else if num == 1 && typ == 3 {
		typ = 0 // a field-1 group at top level would be an item
	}
	b := ref.Tag(nil, num, typ)
	switch typ {
	case 0:
		b = ref.Varint(b, gen.Uint64().Draw(t, "junkvarint"))
	case 1:
		b = ref.Fixed64(b, gen.Uint64().Draw(t, "junkfixed64"))
	case 5:
		b = ref.Fixed32(b, gen.Uint32().Draw(t, "junkfixed32"))
	case 2:
		p := gen.Bytes(12).Draw(t, "junkbytes")
		b = ref.Varint(b, uint64(len(p)))
		b = append(b, p...)
	case 3:
		if depth > 0 && rapid.Bool().Draw(t, "junknested") {
			b = append(b, drawJunkRecord(t, false, depth-1)...)
		}
		b = ref.Tag(b, num, 4)
	}
	return b
}

func pad(t *rapid.T, label string) int {
	if rapid.IntRange(0, 5).Draw(t, label+"?") == 0 {
		return rapid.IntRange(1, 4).Draw(t, label)
	}
	return 0
}

func drawItem(t *rapid.T, st *setType, prevIDs []uint64) *item {
	it := &item{StartPad: pad(t, "startpad"), EndPad: pad(t, "endpad")}
	// effective type id
	var eff uint64
	known := false
	switch k := rapid.IntRange(0, 39).Draw(t, "idclass"); {
	case k < 22 && len(st.exts) > 0:
		eff = uint64(st.exts[rapid.IntRange(0, len(st.exts)-1).Draw(t, "ext")].TypeDescriptor().Number())
		known = true
	case k < 27 && len(prevIDs) > 0:
		eff = prevIDs[rapid.IntRange(0, len(prevIDs)-1).Draw(t, "sameid")] // another item for an id seen before
		known = st.ext(eff) != nil
	case k < 38:
		eff = drawUnknownID(t, st)
	case k == 38:
		eff = rapid.SampledFrom([]uint64{0, 1 << 31, 1<<31 + 1000, 1<<32 + 1000, 1 << 63, 1<<64 - 1}).Draw(t, "badid")
	default:
		eff = 0 // no type_id at all
	}
	noID := eff == 0 && rapid.Bool().Draw(t, "noid")
	nid := 1
	if rapid.IntRange(0, 5).Draw(t, "dupid?") == 0 {
		nid = rapid.IntRange(2, 3).Draw(t, "nid")
	}
	if noID {
		nid = 0
	}
	nmsg := 1
	switch rapid.IntRange(0, 9).Draw(t, "nmsg?") {
	case 0:
		nmsg = 0
	case 1, 2:
		nmsg = rapid.IntRange(2, 3).Draw(t, "nmsg")
	}
	njunk := 0
	if rapid.IntRange(0, 3).Draw(t, "junk?") == 0 {
		njunk = rapid.IntRange(1, 2).Draw(t, "njunk")
	}
	kinds := make([]string, 0, nid+nmsg+njunk)
	for i := 0; i < nid; i++ {
		kinds = append(kinds, "id")
	}
	for i := 0; i < nmsg; i++ {
		kinds = append(kinds, "msg")
	}
	for i := 0; i < njunk; i++ {
		kinds = append(kinds, "junk")
	}
	if rapid.IntRange(0, 2).Draw(t, "shuffle?") > 0 {
		kinds = rapid.Permutation(kinds).Draw(t, "order")
	}
	lastID := -1
	for i, k := range kinds {
		if k == "id" {
			lastID = i
		}
	}
	var xmd protoreflect.MessageDescriptor
	if known && lastID >= 0 {
		xmd = st.ext(eff).TypeDescriptor().Message()
	}
	for i, k := range kinds {
		switch k {
		case "id":
			p := part{Kind: "id", ID: eff, Pad: pad(t, "idpad"), TPad: pad(t, "idtagpad")}
			if i != lastID {
				// an overwritten type_id: any valid id, now and then an invalid one
				p.ID = uint64(rapid.Int32Range(1, 1<<31-1).Draw(t, "overwritten"))
				if len(st.exts) > 0 && rapid.Bool().Draw(t, "overwrittenknown") {
					p.ID = uint64(st.exts[rapid.IntRange(0, len(st.exts)-1).Draw(t, "overwrittenext")].TypeDescriptor().Number())
				}
				if rapid.IntRange(0, 24).Draw(t, "overwrittenbad") == 0 {
					p.ID = rapid.SampledFrom([]uint64{0, 1 << 31, 1 << 40}).Draw(t, "overwrittenbadid")
				}
			}
			it.Parts = append(it.Parts, p)
		case "msg":
			p := part{Pad: pad(t, "lenpad"), TPad: pad(t, "msgtagpad")}
			if xmd != nil && rapid.IntRange(0, 24).Draw(t, "rawknown?") > 0 {
				p.Kind, p.M = "msg", gen.DrawMessage(t, xmd, payloadOpts)
			} else {
				p.Kind, p.Raw = "raw", gen.Bytes(16).Draw(t, "rawpayload")
				if xmd == nil && rapid.Bool().Draw(t, "wellformedraw") {
					p.Raw = gen.FieldSeq(1, 3, false, nil).Draw(t, "fieldseq")
				}
			}
			it.Parts = append(it.Parts, p)
		case "junk":
			it.Parts = append(it.Parts, part{Kind: "junk", Raw: drawJunkRecord(t, true, 1)})
		}
	}
	return it
}

func drawWire(t *rapid.T) wireCase {
	loadTypes()
	st := setTypes[rapid.IntRange(0, len(setTypes)-1).Draw(t, "type")]
	c := wireCase{Type: st.name}
	n := rapid.IntRange(1, 5).Draw(t, "ntops")
	var ids []uint64
	for i := 0; i < n; i++ {
		if rapid.IntRange(0, 5).Draw(t, "topjunk?") == 0 {
			c.Tops = append(c.Tops, top{Junk: drawJunkRecord(t, false, 1)})
			continue
		}
		it := drawItem(t, st, ids)
		if id := effectiveID(it); id >= 1 && id <= 1<<31-1 {
			ids = append(ids, id)
		}
		c.Tops = append(c.Tops, top{Item: it})
	}
	if last := c.Tops[len(c.Tops)-1].Item; last != nil && rapid.IntRange(0, 11).Draw(t, "malform?") == 0 {
		switch rapid.IntRange(0, 2).Draw(t, "malformation") {
		case 0:
			last.NoEnd = true
		case 1:
			last.WrongEnd = rapid.SampledFrom([]int64{2, 3, 1000}).Draw(t, "wrongend")
		case 2:
			l := len(encodeItem(nil, last, func(m *model.Msg) []byte { return encoderFor(st)(effectiveID(last), m) }))
			c.Trunc = rapid.IntRange(1, l-1).Draw(t, "trunc")
		}
	}
	var wraps []string
	for _, ct := range containers {
		if ct.set == st {
			wraps = append(wraps, ct.name)
		}
	}
	if len(wraps) > 0 && rapid.IntRange(0, 4).Draw(t, "wrap?") == 0 {
		c.Wrap = rapid.SampledFrom(wraps).Draw(t, "wrap")
	}
	return c
}

func TestWire(t *testing.T) {
	skipUnlessLegacy(t)
	pbt.Run(t, pbt.Prop[wireCase]{
		Name: "wire",
		Rule: "1..5 top-level elements written by the independent item encoder: items (type id of a registered extension / a repeated earlier id / an unknown id incl. 1..3, 2^29-1..MaxInt32 / 0 or > MaxInt32 / none; 0..3 message fields whose payloads are reference encodings of model values, arbitrary bytes or well-formed field sequences; duplicated type_id fields; fields in any order; junk fields of every wire type inside) and junk top-level fields; padded varints in tags, ids and lengths; now and then a missing / wrong end-group tag or a truncation inside the last item; optionally nested in a container message; non-trivial = >= 2 items with an unknown id or a message written before its type_id",
		Draw: drawWire, Check: checkWire,
		NonTrivial: func(c wireCase) bool {
			loadTypes()
			_, _, tags := expectation(setByName[c.Type], c)
			n := 0
			for _, tp := range c.Tops {
				if tp.Item != nil {
					n++
				}
			}
			return n >= 2 && (tags["unknown-item"] || tags["message-before-id"])
		},
		Classes: func(c wireCase) []string {
			loadTypes()
			level, _, tags := expectation(setByName[c.Type], c)
			cl := []string{pathLabel(), "level:" + level}
			for k := range tags {
				cl = append(cl, k)
			}
			if c.Wrap != "" {
				cl = append(cl, "in-container")
			}
			return cl
		},
		Quick: 6000, Thorough: 120000,
	})
}
