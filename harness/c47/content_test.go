package c47

import (
	"fmt"
	"sort"
	"testing"

	"google.golang.org/protobuf/proto"
	"google.golang.org/protobuf/reflect/protoreflect"
	"google.golang.org/protobuf/types/dynamicpb"
	"google.golang.org/protobuf/zverif/corpus"
	"google.golang.org/protobuf/zverif/gen"
	"google.golang.org/protobuf/zverif/model"
	"google.golang.org/protobuf/zverif/pbt"
	"pgregory.net/rapid"
)

// checkOutput: Marshal's output for a message holding `want`, parsed with the independent item
// parser: one item per set extension (ascending type ids when deterministic) plus the unknown
// items, each known payload decoding to the extension's value; Size equals the encoded length.
func checkOutput(st *setType, who string, m protoreflect.Message, want *content) (det []byte, err error) {
	det, nd, size, err := marshalBoth(m)
	if err != nil {
		return nil, fmt.Errorf("%s %s: Marshal failed on valid content: %v", who, st.name, err)
	}
	if size != len(det) || size != len(nd) {
		return nil, fmt.Errorf("%s %s: Size %d, Marshal wrote %d bytes (deterministic %d)", who, st.name, size, len(nd), len(det))
	}
	for i, b := range [][]byte{det, nd} {
		mode := []string{"deterministic", "default"}[i]
		items, err := parseItemsStrict(b)
		if err != nil {
			return nil, fmt.Errorf("%s %s: %s Marshal output is not a sequence of well-formed items: %v (bytes %x)", who, st.name, mode, err, b)
		}
		var known, unknown []wireItem
		for _, it := range items {
			if _, ok := want.Known[it.ID]; ok {
				known = append(known, it)
			} else {
				unknown = append(unknown, it)
			}
		}
		if len(known) != len(want.Known) {
			return nil, fmt.Errorf("%s %s: %s Marshal wrote %d items for %d set extensions (bytes %x)", who, st.name, mode, len(known), len(want.Known), b)
		}
		seen := map[uint64]bool{}
		for j, it := range known {
			if seen[it.ID] {
				return nil, fmt.Errorf("%s %s: %s Marshal wrote two items for type id %d", who, st.name, mode, it.ID)
			}
			seen[it.ID] = true
			if i == 0 && j > 0 && known[j-1].ID > it.ID {
				return nil, fmt.Errorf("%s %s: deterministic Marshal wrote type id %d before %d", who, st.name, known[j-1].ID, it.ID)
			}
			xmd := st.ext(it.ID).TypeDescriptor().Message()
			sub := dynamicpb.NewMessage(xmd)
			if err := (proto.UnmarshalOptions{AllowPartial: true}).Unmarshal(it.Payload, sub); err != nil {
				return nil, fmt.Errorf("%s %s: payload of item %d does not decode as %s: %v", who, st.name, it.ID, xmd.FullName(), err)
			}
			if d := model.Diff(xmd, want.Known[it.ID], model.Snapshot(sub), exact, nil); d != "" {
				return nil, fmt.Errorf("%s %s: payload of item %d carries different content: %s", who, st.name, it.ID, d)
			}
		}
		if d := diffPerID(perID(want.Unknown), perID(unknown)); d != "" {
			return nil, fmt.Errorf("%s %s: unknown items in the %s Marshal output: %s (bytes %x)", who, st.name, mode, d, b)
		}
	}
	return det, nil
}

// checkDecodes: every implementation decodes b to want.
func checkDecodes(st *setType, what string, b []byte, want *content) error {
	for i, mk := range st.impls() {
		m := mk()
		if err := (proto.UnmarshalOptions{AllowPartial: true}).Unmarshal(b, m.Interface()); err != nil {
			return fmt.Errorf("%s %s cannot decode %s: %v (bytes %x)", implNames[i], st.name, what, err, b)
		}
		got, err := snapshot(st, m)
		if err != nil {
			return fmt.Errorf("%s after decoding %s: %v", implNames[i], what, err)
		}
		if d := diffContent(st, want, got); d != "" {
			return fmt.Errorf("%s %s decodes %s to different content: %s (bytes %x)", implNames[i], st.name, what, d, b)
		}
	}
	return nil
}

// ---------------------------------------------------------------------------------------------
// sub-check "content": a set built through reflection

type knownExt struct {
	ID uint64     `json:"id"`
	M  *model.Msg `json:"m"`
}

type unknownItem struct {
	ID      uint64 `json:"id"`
	Payload []byte `json:"payload"`
}

type contentCase struct {
	Type    string        `json:"type"`
	Known   []knownExt    `json:"known"`
	Unknown []unknownItem `json:"unknown"`
	Wrap    string        `json:"wrap,omitempty"` // container message holding the set in a field ("" = stand-alone)
}

func (c contentCase) content() *content {
	out := &content{Known: map[uint64]*model.Msg{}}
	for _, k := range c.Known {
		out.Known[k.ID] = k.M
	}
	for _, u := range c.Unknown {
		out.Unknown = append(out.Unknown, wireItem{ID: u.ID, Payload: u.Payload})
	}
	return out
}

// payloadOpts: payload values stay clear of nested MessageSets (the reference encoder writes plain
// messages only; nested sets are exercised through the container messages).
var payloadOpts = gen.MsgOpts{Depth: 1, MaxFields: 4, MaxList: 3, MaxBytes: 24, FillRequired: false, Unknown: true, Extensions: true,
	SkipField: func(fd protoreflect.FieldDescriptor) bool {
		sub := fd.Message()
		if fd.IsMap() {
			sub = fd.MapValue().Message()
		}
		return sub != nil && corpus.UsesMessageSet(sub)
	}}

// drawUnknownID draws a type id that is not a registered extension of st: small numbers outside
// the extension range (1..3), boundaries of the tag size classes, 2^29-1 .. MaxInt32.
func drawUnknownID(t *rapid.T, st *setType) uint64 {
	for {
		id := rapid.SampledFrom([]uint64{1, 2, 3, 4, 5, 15, 16, 999, 2047, 2048, 1 << 20, 1<<28 - 1, 1 << 28, 1<<29 - 1, 1 << 29, 1<<29 + 1, 1<<30 + 7, 1<<31 - 2, 1<<31 - 1}).Draw(t, "unknownid")
		if rapid.IntRange(0, 3).Draw(t, "anyid?") == 0 {
			id = uint64(rapid.Int32Range(1, 1<<31-1).Draw(t, "id"))
		}
		if st.ext(id) == nil {
			return id
		}
	}
}

func drawContent(t *rapid.T) contentCase {
	loadTypes()
	st := setTypes[rapid.IntRange(0, len(setTypes)-1).Draw(t, "type")]
	c := contentCase{Type: st.name}
	if len(st.exts) > 0 {
		n := rapid.IntRange(0, min(len(st.exts), 4)).Draw(t, "nknown")
		perm := rapid.Permutation(st.exts).Draw(t, "exts")
		for _, xt := range perm[:n] {
			xd := xt.TypeDescriptor()
			c.Known = append(c.Known, knownExt{ID: uint64(xd.Number()), M: gen.DrawMessage(t, xd.Message(), payloadOpts)})
		}
	}
	nu := rapid.IntRange(0, 3).Draw(t, "nunknown")
	for i := 0; i < nu; i++ {
		id := drawUnknownID(t, st)
		if i > 0 && rapid.Bool().Draw(t, "sameid") {
			id = c.Unknown[i-1].ID
		}
		c.Unknown = append(c.Unknown, unknownItem{ID: id, Payload: gen.Bytes(20).Draw(t, "payload")})
	}
	var wraps []string
	for _, ct := range containers {
		if ct.set == st {
			wraps = append(wraps, ct.name)
		}
	}
	if len(wraps) > 0 && rapid.IntRange(0, 3).Draw(t, "wrap?") == 0 {
		c.Wrap = rapid.SampledFrom(wraps).Draw(t, "wrap")
	}
	return c
}

func findContainer(name string) *container {
	for _, ct := range containers {
		if ct.name == name {
			return ct
		}
	}
	return nil
}

func checkContent(c contentCase) error {
	loadTypes()
	st := setByName[c.Type]
	if st == nil {
		return fmt.Errorf("harness: unknown type %q", c.Type)
	}
	want := c.content()
	var dets [][]byte
	for i, mk := range st.impls() {
		m := mk()
		if err := apply(st, m, want); err != nil {
			return err
		}
		got, err := snapshot(st, m)
		if err != nil {
			return err
		}
		if d := diffContent(st, want, got); d != "" {
			return fmt.Errorf("%s %s: reflection view differs from the content written: %s", implNames[i], st.name, d)
		}
		det, err := checkOutput(st, implNames[i], m, want)
		if err != nil {
			return err
		}
		dets = append(dets, det)
		if err := checkDecodes(st, "the output of "+implNames[i], det, want); err != nil {
			return err
		}
		if i == 0 && c.Wrap != "" {
			if err := checkWrapped(findContainer(c.Wrap), m, det, want); err != nil {
				return err
			}
		}
	}
	if string(dets[0]) != string(dets[1]) {
		return fmt.Errorf("%s: deterministic outputs of the generated type and dynamicpb differ:\n  %x\n  %x", st.name, dets[0], dets[1])
	}
	// an independent encoding of the same content: unknown items first, known in descending order, message before type_id
	var tops []top
	for _, u := range c.Unknown {
		tops = append(tops, top{Item: &item{Parts: []part{{Kind: "raw", Raw: u.Payload}, {Kind: "id", ID: u.ID}}}})
	}
	ks := append([]knownExt{}, c.Known...)
	sort.Slice(ks, func(i, j int) bool { return ks[i].ID > ks[j].ID })
	for _, k := range ks {
		tops = append(tops, top{Item: &item{Parts: []part{{Kind: "msg", M: k.M}, {Kind: "id", ID: k.ID}}}})
	}
	return checkDecodes(st, "the reference item encoding", encodeSet(tops, encoderFor(st)), want)
}

// encoderFor encodes a payload model with the reference encoder for the extension with that id.
func encoderFor(st *setType) func(id uint64, m *model.Msg) []byte {
	return func(id uint64, m *model.Msg) []byte {
		xt := st.ext(id)
		if xt == nil {
			panic(fmt.Sprintf("harness: model payload for type id %d, which %s does not know", id, st.name))
		}
		return model.Encode(xt.TypeDescriptor().Message(), m, nil, model.EncOpts{}, nil)
	}
}

// checkWrapped: the set as a field of a container message is the length-delimited item sequence.
func checkWrapped(ct *container, set protoreflect.Message, det []byte, want *content) error {
	if ct == nil {
		return fmt.Errorf("harness: no such container")
	}
	for _, dyn := range []bool{false, true} {
		m := ct.mt.New()
		if dyn {
			m = dynamicpb.NewMessage(ct.mt.Descriptor())
		}
		sub := m.Mutable(ct.fd).Message()
		if err := apply(ct.set, sub, want); err != nil {
			return err
		}
		b, err := proto.MarshalOptions{Deterministic: true, AllowPartial: true}.Marshal(m.Interface())
		if err != nil {
			return fmt.Errorf("container %s (dynamic=%v): Marshal: %v", ct.name, dyn, err)
		}
		wantB := appendUnknownRecord(nil, uint64(ct.fd.Number()), det)
		if string(b) != string(wantB) {
			return fmt.Errorf("container %s (dynamic=%v): bytes are not field %d holding the set's stand-alone encoding:\n  %x\n  %x", ct.name, dyn, ct.fd.Number(), b, wantB)
		}
		if n := (proto.MarshalOptions{AllowPartial: true}).Size(m.Interface()); n != len(b) {
			return fmt.Errorf("container %s (dynamic=%v): Size %d, Marshal wrote %d bytes", ct.name, dyn, n, len(b))
		}
		m2 := m.New()
		if err := (proto.UnmarshalOptions{AllowPartial: true}).Unmarshal(wantB, m2.Interface()); err != nil {
			return fmt.Errorf("container %s (dynamic=%v): Unmarshal: %v", ct.name, dyn, err)
		}
		if !m2.Has(ct.fd) {
			return fmt.Errorf("container %s (dynamic=%v): set field not populated after decoding", ct.name, dyn)
		}
		got, err := snapshot(ct.set, m2.Get(ct.fd).Message())
		if err != nil {
			return err
		}
		if d := diffContent(ct.set, want, got); d != "" {
			return fmt.Errorf("container %s (dynamic=%v) decodes to different content: %s", ct.name, dyn, d)
		}
	}
	return nil
}

func skipUnlessLegacy(t *testing.T) bool {
	ok, err := legacyLeg()
	if err != nil {
		t.Fatalf("%v", err)
	}
	if !ok {
		t.Skip("build without MessageSet support: see the rejection checks")
	}
	return ok
}

func TestContent(t *testing.T) {
	skipUnlessLegacy(t)
	pbt.Run(t, pbt.Prop[contentCase]{
		Name: "content",
		Rule: "MessageSet type drawn from every linked MessageSet message (messagesetpb open/hybrid/opaque, textpb2/textpbeditions, conformance MessageSetCorrect, benchmark Message0); content = a subset of its registered extensions with random payload values (descriptor-directed generator) + 0..3 unknown items (type ids 1..3, tag-size boundaries, 2^29-1..MaxInt32, repeated ids) written through protoreflect into the generated type and dynamicpb, optionally inside a container message; non-trivial = >= 2 items including an unknown one",
		Draw: drawContent, Check: checkContent,
		NonTrivial: func(c contentCase) bool { return len(c.Known)+len(c.Unknown) >= 2 && len(c.Unknown) >= 1 },
		Classes: func(c contentCase) []string {
			cl := []string{pathLabel(), fmt.Sprintf("known:%d", len(c.Known)), fmt.Sprintf("unknown:%d", len(c.Unknown))}
			if c.Wrap != "" {
				cl = append(cl, "in-container")
			}
			for _, u := range c.Unknown {
				if u.ID >= 1<<29 {
					cl = append(cl, "unknown-id>=2^29")
					break
				}
			}
			for _, k := range c.Known {
				if k.ID >= 1<<29 {
					cl = append(cl, "known-id>=2^29")
				}
			}
			return cl
		},
		Quick: 4000, Thorough: 60000,
	})
}
