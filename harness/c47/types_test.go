package c47

// The MessageSet-using types of the linked corpus, the build leg, and the abstract content of a
// MessageSet message: a set of extensions (type id -> message value) plus unknown items.

import (
	"fmt"
	"os"
	"sort"
	"sync"

	"google.golang.org/protobuf/internal/flags"
	"google.golang.org/protobuf/proto"
	"google.golang.org/protobuf/reflect/protoreflect"
	"google.golang.org/protobuf/reflect/protoregistry"
	"google.golang.org/protobuf/types/dynamicpb"
	"google.golang.org/protobuf/zverif/corpus"
	"google.golang.org/protobuf/zverif/model"
)

var leg = os.Getenv("VERIF_LEG")

// legacyLeg: this binary must have MessageSet support. The driver names the leg; the flag says
// what was compiled in; a disagreement is a harness error, never a verdict.
func legacyLeg() (bool, error) {
	want := leg == "legacy" || leg == "legrefl"
	if leg == "" {
		want = flags.ProtoLegacy // stand-alone run: follow the build
	}
	if want != flags.ProtoLegacy {
		return false, fmt.Errorf("harness: leg %q but flags.ProtoLegacy=%v", leg, flags.ProtoLegacy)
	}
	return want, nil
}

func pathLabel() string {
	switch leg {
	case "legrefl":
		return "path:reflection"
	case "legacy":
		return "path:fast"
	}
	return "path:" + leg
}

type setType struct {
	name string
	mt   protoreflect.MessageType
	md   protoreflect.MessageDescriptor
	exts []protoreflect.ExtensionType // ascending by number
}

var (
	setOnce  sync.Once
	setTypes []*setType
	setByName = map[string]*setType{}
	// containers: messages with a singular field whose type is a MessageSet
	containers []*container
)

type container struct {
	name string
	mt   protoreflect.MessageType
	fd   protoreflect.FieldDescriptor
	set  *setType
}

func isMessageSet(md protoreflect.MessageDescriptor) bool {
	x, ok := md.(interface{ IsMessageSet() bool })
	return ok && x.IsMessageSet()
}

func loadTypes() {
	setOnce.Do(func() {
		for _, mt := range corpus.Messages() {
			md := mt.Descriptor()
			if !isMessageSet(md) {
				continue
			}
			st := &setType{name: string(md.FullName()), mt: mt, md: md}
			protoregistry.GlobalTypes.RangeExtensionsByMessage(md.FullName(), func(xt protoreflect.ExtensionType) bool {
				st.exts = append(st.exts, xt)
				return true
			})
			sort.Slice(st.exts, func(i, j int) bool { return st.exts[i].TypeDescriptor().Number() < st.exts[j].TypeDescriptor().Number() })
			setTypes = append(setTypes, st)
			setByName[st.name] = st
		}
		sort.Slice(setTypes, func(i, j int) bool { return setTypes[i].name < setTypes[j].name })
		for _, mt := range corpus.Messages() {
			md := mt.Descriptor()
			if isMessageSet(md) || !corpus.UsesMessageSet(md) {
				continue
			}
			for i := 0; i < md.Fields().Len(); i++ {
				fd := md.Fields().Get(i)
				if fd.Message() != nil && !fd.IsList() && !fd.IsMap() && isMessageSet(fd.Message()) && fd.ContainingOneof() == nil {
					if st := setByName[string(fd.Message().FullName())]; st != nil {
						containers = append(containers, &container{name: string(md.FullName()), mt: mt, fd: fd, set: st})
					}
				}
			}
		}
		sort.Slice(containers, func(i, j int) bool { return containers[i].name < containers[j].name })
	})
}

func (st *setType) ext(id uint64) protoreflect.ExtensionType {
	if id > 1<<31-1 {
		return nil
	}
	for _, xt := range st.exts {
		if uint64(xt.TypeDescriptor().Number()) == id {
			return xt
		}
	}
	return nil
}

// impls: the generated type (table-driven code in the "legacy" leg, reflection-driven in the
// "legrefl" leg) and dynamicpb of the same descriptor (always reflection-driven).
func (st *setType) impls() []func() protoreflect.Message {
	return []func() protoreflect.Message{
		func() protoreflect.Message { return st.mt.New() },
		func() protoreflect.Message { return dynamicpb.NewMessage(st.md) },
	}
}

var implNames = []string{"generated", "dynamicpb"}

// content is the abstract value of a MessageSet message.
type content struct {
	Known   map[uint64]*model.Msg // set extensions
	Unknown []wireItem            // unknown items in order of arrival
}

// snapshot reads m through protoreflect only.
func snapshot(st *setType, m protoreflect.Message) (*content, error) {
	c := &content{Known: map[uint64]*model.Msg{}}
	var err error
	m.Range(func(fd protoreflect.FieldDescriptor, v protoreflect.Value) bool {
		if !fd.IsExtension() || fd.Message() == nil || fd.IsList() {
			err = fmt.Errorf("MessageSet %s ranges over %s, which is not a singular message extension", st.name, fd.FullName())
			return false
		}
		c.Known[uint64(fd.Number())] = model.Snapshot(v.Message())
		return true
	})
	if err != nil {
		return nil, err
	}
	c.Unknown, err = unknownItems(m.GetUnknown())
	return c, err
}

var exact = model.EqualOpts{BitwiseFloats: true}

func diffContent(st *setType, want, got *content) string {
	var ids []uint64
	for id := range want.Known {
		ids = append(ids, id)
	}
	for id := range got.Known {
		if _, ok := want.Known[id]; !ok {
			ids = append(ids, id)
		}
	}
	sort.Slice(ids, func(i, j int) bool { return ids[i] < ids[j] })
	for _, id := range ids {
		w, g := want.Known[id], got.Known[id]
		if w == nil || g == nil {
			return fmt.Sprintf("extension with type id %d: set=%v, want set=%v", id, g != nil, w != nil)
		}
		xt := st.ext(id)
		if xt == nil {
			return fmt.Sprintf("type id %d is not a registered extension of %s", id, st.name)
		}
		if d := model.Diff(xt.TypeDescriptor().Message(), w, g, exact, nil); d != "" {
			return fmt.Sprintf("extension with type id %d: %s", id, d)
		}
	}
	return diffPerID(perID(want.Unknown), perID(got.Unknown))
}

// apply writes c into m through protoreflect.
func apply(st *setType, m protoreflect.Message, c *content) error {
	for id, v := range c.Known {
		xt := st.ext(id)
		if xt == nil {
			return fmt.Errorf("harness: type id %d is not a registered extension of %s", id, st.name)
		}
		if err := model.Apply(m.Mutable(xt.TypeDescriptor()).Message(), v, nil); err != nil {
			return fmt.Errorf("harness: %v", err)
		}
	}
	var u []byte
	for _, it := range c.Unknown {
		u = appendUnknownRecord(u, it.ID, it.Payload)
	}
	if len(u) > 0 {
		m.SetUnknown(u)
	}
	return nil
}

func marshalBoth(m protoreflect.Message) (det, nd []byte, size int, err error) {
	det, err = proto.MarshalOptions{Deterministic: true, AllowPartial: true}.Marshal(m.Interface())
	if err != nil {
		return nil, nil, 0, err
	}
	nd, err = proto.MarshalOptions{AllowPartial: true}.Marshal(m.Interface())
	if err != nil {
		return nil, nil, 0, err
	}
	return det, nd, proto.MarshalOptions{AllowPartial: true}.Size(m.Interface()), nil
}
