package c20

import (
	"encoding/json"
	"fmt"
	"sort"
	"strings"
	"testing"

	"google.golang.org/protobuf/encoding/protojson"
	"google.golang.org/protobuf/proto"
	"google.golang.org/protobuf/reflect/protoreflect"
	"google.golang.org/protobuf/zverif/corpus"
	"google.golang.org/protobuf/zverif/gen"
	"google.golang.org/protobuf/zverif/mcase"
	"google.golang.org/protobuf/zverif/model"
	"google.golang.org/protobuf/zverif/pbt"
	"pgregory.net/rapid"
)

// jcase: a message value and a few of the 64 option combinations.
type jcase struct {
	Type    string
	Dynamic bool
	M       *model.Msg
	Opts    []int  // bit0 Multiline, bit1 Indent != "", bit2 UseProtoNames, bit3 UseEnumNumbers, bit4 EmitUnpopulated, bit5 EmitDefaultValues
	Indent  string // used when bit1 is set
}

var (
	stdTypes  = corpus.Standard()
	richTypes = corpus.Rich(12)
	// types that embed the well-known types, extensions, maps of every key kind, groups
	wktBearing = pick(stdTypes, func(n string) bool {
		return strings.HasSuffix(n, ".KnownTypes") || strings.HasSuffix(n, ".TestAllTypesProto3") || n == "google.golang.org.Article" || n == "google.protobuf.Option"
	})
	textpb = pick(stdTypes, func(n string) bool {
		return strings.HasPrefix(n, "pb2.") || strings.HasPrefix(n, "pb3.") || strings.HasPrefix(n, "pbeditions.") ||
			strings.HasPrefix(n, "hybrid.pbeditions.") || strings.HasPrefix(n, "opaque.pbeditions.")
	})
	// extensions, groups, maps of every key kind
	shapeTypes = pick(stdTypes, func(n string) bool {
		switch n {
		case "pb2.Extensions", "pb2.Nests", "pb2.Maps", "pb3.Maps", "pbeditions.Nests", "pbeditions.Extensions", "pbeditions.Maps",
			"goproto.proto.test.TestAllExtensions", "goproto.proto.test.TestAllTypes", "goproto.proto.test3.TestAllTypes",
			"goproto.proto.testeditions.TestAllTypes", "goproto.proto.testeditions.TestAllExtensions", "opaque.goproto.proto.testeditions.TestAllTypes",
			"protobuf_test_messages.proto2.TestAllTypesProto2", "protobuf_test_messages.editions.TestAllTypesEdition2023":
			return true
		}
		return false
	})
	wktTypes = pick(stdTypes, func(n string) bool {
		return specialJSON(protoreflect.FullName(n))
	})
	// payload types for Any: the special forms, small and large regular messages, extendable ones, Any itself
	anyTypes = append(append([]string{}, wktTypes...), pick(stdTypes, func(n string) bool {
		switch n {
		case "pb2.Nested", "pb2.Scalars", "pb2.Enums", "pb2.Repeats", "pb2.Maps", "pb2.Nests", "pb2.Extensions", "pb2.KnownTypes", "pb2.PartialRequired",
			"pb3.Scalars", "pb3.Nested", "pb3.Maps", "pb3.Oneofs", "pb3.JSONNames", "pb3.Proto3Optional", "pb3.Enums",
			"pbeditions.Scalars", "pbeditions.Nests", "pbeditions.KnownTypes",
			"goproto.proto.test.TestAllTypes", "goproto.proto.test.TestAllExtensions", "goproto.proto.test3.TestAllTypes",
			"goproto.proto.testeditions.TestAllTypes", "protobuf_test_messages.proto3.TestAllTypesProto3",
			"google.protobuf.FileDescriptorProto", "google.protobuf.Api", "google.golang.org.Article":
			return true
		}
		return false
	})...)
)

func pick(all []string, f func(string) bool) []string {
	var out []string
	for _, n := range all {
		if f(n) {
			out = append(out, n)
		}
	}
	return out
}

var msgOpts = gen.MsgOpts{Depth: 3, MaxFields: 6, MaxList: 3, MaxBytes: 60, FillRequired: true, Unknown: true, Extensions: true}

func drawType(t *rapid.T) string {
	switch rapid.IntRange(0, 9).Draw(t, "typeclass") {
	case 0, 1, 2:
		return rapid.SampledFrom(wktBearing).Draw(t, "type")
	case 3:
		return rapid.SampledFrom(wktTypes).Draw(t, "type")
	case 4, 5:
		return rapid.SampledFrom(textpb).Draw(t, "type")
	case 6:
		return rapid.SampledFrom(richTypes).Draw(t, "type")
	case 7, 8:
		return rapid.SampledFrom(shapeTypes).Draw(t, "type")
	default:
		return rapid.SampledFrom(stdTypes).Draw(t, "type")
	}
}

func drawCase(t *rapid.T) jcase {
	c := jcase{Type: drawType(t), Dynamic: rapid.IntRange(0, 3).Draw(t, "dyn") == 0}
	mo := msgOpts
	// invalid UTF-8 in (unvalidated) string fields in one case out of eight
	mo.ValidUTF8 = rapid.IntRange(0, 7).Draw(t, "rawstrings") != 0
	wo := gen.WKTOpts{Bad: 12, BadUTF8: true, AnyTypes: anyTypes, P: 3, AnyDepth: 2}
	if rapid.IntRange(0, 3).Draw(t, "allgood") == 0 {
		wo.Bad = 0
	}
	c.M = gen.DrawMessageWKT(t, mcase.Desc(c.Type), mo, wo)
	n := rapid.IntRange(1, 4).Draw(t, "nopts")
	for i := 0; i < n; i++ {
		c.Opts = append(c.Opts, rapid.IntRange(0, 63).Draw(t, "opts"))
	}
	c.Indent = rapid.SampledFrom([]string{" ", "  ", "\t", "    ", " \t", "\t\t "}).Draw(t, "indent")
	return c
}

func marshalOpts(bits int, indent string) protojson.MarshalOptions {
	o := optsOf(bits)
	mo := protojson.MarshalOptions{Multiline: o.Multiline, UseProtoNames: o.ProtoNames, UseEnumNumbers: o.EnumNumbers,
		EmitUnpopulated: o.Unpopulated, EmitDefaultValues: o.Defaults, AllowPartial: true}
	if o.HasIndent {
		mo.Indent = indent
	}
	return mo
}

func checkCase(c jcase) error {
	md := mcase.Desc(c.Type)
	m := mcase.New(c.Type, c.Dynamic)
	if err := model.Apply(m, c.M, nil); err != nil {
		return fmt.Errorf("harness: %v", err)
	}
	bit := model.EqualOpts{BitwiseFloats: true}
	if d := model.Diff(md, c.M, model.Snapshot(m), bit, nil); d != "" {
		return fmt.Errorf("harness: message built through reflection does not read back as the model: %s", d)
	}
	why := representable(md, c.M)
	if strings.HasPrefix(why, "harness:") {
		return fmt.Errorf("%s", why)
	}
	sem, exact, nanInAny := gen.Textual(md, c.M, nil)
	stripped := exact // c.M without unknown fields (field structure of the original)
	want := mcase.New(c.Type, c.Dynamic)
	if err := model.Apply(want, exact, nil); err != nil {
		return fmt.Errorf("harness: %v", err)
	}
	for _, bits := range c.Opts {
		mo := marshalOpts(bits, c.Indent)
		o := optsOf(bits)
		tag := fmt.Sprintf("opts %+v", o)
		b, err := mo.Marshal(m.Interface())
		// (1) Marshal fails <=> the mapping cannot represent the content
		if err != nil && why == "" {
			return fmt.Errorf("%s: Marshal failed on JSON-representable content: %v", tag, err)
		}
		if err == nil && why != "" {
			return fmt.Errorf("%s: Marshal accepted content the mapping cannot represent (%s): %s", tag, why, clip(b))
		}
		if err != nil {
			continue
		}
		// (3) the output, as a JSON value, is what the mapping prescribes under these options
		if !json.Valid(b) {
			return fmt.Errorf("%s: output is not valid JSON: %s", tag, clip(b))
		}
		tree, err := parseJSON(b)
		if err != nil {
			return fmt.Errorf("%s: output does not parse: %v: %s", tag, err, clip(b))
		}
		exp, err := expMessage(md, c.M, o)
		if err != nil {
			return err
		}
		if d := match(exp, tree, "$"); d != "" {
			return fmt.Errorf("%s: output differs from the JSON mapping at %s\noutput: %s", tag, d, clip(b))
		}
		indent := ""
		if o.HasIndent {
			indent = c.Indent
		}
		if d := layout(b, o.Multiline || o.HasIndent, indent); d != "" {
			return fmt.Errorf("%s: layout: %s\noutput: %q", tag, d, clip(b))
		}
		// (2) round trip, into the same and into the other implementation of the type
		for _, dyn := range []bool{c.Dynamic, !c.Dynamic} {
			m2 := mcase.New(c.Type, dyn)
			if err := (protojson.UnmarshalOptions{AllowPartial: true}).Unmarshal(b, m2.Interface()); err != nil {
				return fmt.Errorf("%s: Unmarshal(Marshal(m)) failed (dynamic=%v): %v\noutput: %s", tag, dyn, err, clip(b))
			}
			got := model.Snapshot(m2)
			gsem, _, _ := gen.Textual(md, got, nil)
			d := model.Diff(md, sem, gsem, bit, nil)
			if d != "" && o.Unpopulated {
				// null written for an unset Value / NullValue field reads back as a set null
				var outside, inside int
				nullReadback(md, c.M, false, &outside, &inside)
				if outside+inside > 0 && pbt.ExcludeKnown(kfNullReadback) {
					if inside > 0 {
						continue // inside an Any payload: the decoded content is not comparable field by field
					}
					maskNullReadback(md, stripped, got)
					gsem, _, _ = gen.Textual(md, got, nil)
					if d = model.Diff(md, sem, gsem, bit, nil); d == "" {
						continue
					}
				}
			}
			if d != "" {
				return fmt.Errorf("%s: Unmarshal(Marshal(m)) differs from m without unknown fields (dynamic=%v): %s\noutput: %s", tag, dyn, d, clip(b))
			}
			if len(m2.GetUnknown()) != 0 {
				return fmt.Errorf("%s: Unmarshal produced unknown fields %x", tag, m2.GetUnknown())
			}
			if !nanInAny {
				if !proto.Equal(want.Interface(), m2.Interface()) || !proto.Equal(m2.Interface(), want.Interface()) {
					return fmt.Errorf("%s: proto.Equal(m without unknown fields, Unmarshal(Marshal(m))) = false (dynamic=%v)\noutput: %s", tag, dyn, clip(b))
				}
			}
		}
	}
	return nil
}

func clip(b []byte) string {
	if len(b) > 1200 {
		return string(b[:1200]) + "…"
	}
	return string(b)
}

// ---------------------------------------------------------------------------------------------
// classes

func walk(md protoreflect.MessageDescriptor, m *model.Msg, set map[string]bool, n *int, inAny bool) {
	if m == nil {
		return
	}
	name := md.FullName()
	if specialJSON(name) {
		k := strings.ToLower(string(md.Name()))
		if wrappers[name] {
			k = "wrapper"
		}
		set["wkt:"+k] = true
		if inAny {
			set["any-special-payload"] = true
		}
	}
	if name == "google.protobuf.Any" {
		if len(m.Fields) == 0 {
			set["any-empty"] = true
		} else if emd, emb, ok := gen.DecodeAny(m); ok {
			if inAny {
				set["any-nested"] = true
			}
			if len(emb.Unknown) > 0 {
				set["any-payload-unknown"] = true
			}
			walk(emd, emb, set, n, true)
		}
		return
	}
	if len(m.Unknown) > 0 {
		set["unknown"] = true
	}
	for _, f := range m.Fields {
		fd := model.FieldDesc(md, f.Num, nil)
		if fd == nil {
			continue
		}
		*n++
		switch {
		case fd.IsExtension():
			set["extension"] = true
		case fd.IsMap():
			set["map:"+fd.MapKey().Kind().String()] = true
		case fd.ContainingOneof() != nil && !fd.ContainingOneof().IsSynthetic():
			set["oneof"] = true
		case fd.Kind() == protoreflect.GroupKind:
			set["group"] = true
		case fd.IsList():
			set["list"] = true
		}
		vd := fd
		if fd.IsMap() {
			vd = fd.MapValue()
		}
		switch vd.Kind() {
		case protoreflect.FloatKind, protoreflect.DoubleKind:
			set["float"] = true
		case protoreflect.Int64Kind, protoreflect.Uint64Kind, protoreflect.Sint64Kind, protoreflect.Fixed64Kind, protoreflect.Sfixed64Kind:
			set["int64"] = true
		case protoreflect.EnumKind:
			set["enum"] = true
			for _, v := range f.Vals {
				if vd.Enum().Values().ByNumber(protoreflect.EnumNumber(int32(v.U))) == nil {
					set["enum-undeclared"] = true
				}
			}
		case protoreflect.BytesKind:
			set["bytes"] = true
		}
		if fd.HasJSONName() && fd.JSONName() != lowerCamel(string(fd.Name())) {
			set["explicit-json-name"] = true
		}
		if vd.Message() != nil {
			for _, v := range f.Vals {
				walk(vd.Message(), v.M, set, n, inAny)
			}
		}
	}
}

// the framework asks for NonTrivial and Classes of the same case in turn: remember the last answer
var lastClasses struct {
	m   *model.Msg
	set map[string]bool
	n   int
	why string
}

func (c jcase) classes() (set map[string]bool, populated int, why string) {
	if lastClasses.m == c.M && c.M != nil {
		return lastClasses.set, lastClasses.n, lastClasses.why
	}
	defer func() { lastClasses.m, lastClasses.set, lastClasses.n, lastClasses.why = c.M, set, populated, why }()
	set = map[string]bool{}
	md := mcase.Desc(c.Type)
	walk(md, c.M, set, &populated, false)
	why = representable(md, c.M)
	if why != "" {
		set["unrepresentable:"+strings.TrimPrefix(strings.TrimPrefix(why, "any-content:"), "any-content:")] = true
		if strings.HasPrefix(why, "any-content:") {
			set["unrepresentable-inside-any"] = true
		}
	} else {
		set["representable"] = true
	}
	if c.Dynamic {
		set["dynamicpb"] = true
	}
	for _, b := range c.Opts {
		for i, n := range []string{"Multiline", "Indent", "UseProtoNames", "UseEnumNumbers", "EmitUnpopulated", "EmitDefaultValues"} {
			if b>>i&1 != 0 {
				set["opt:"+n] = true
			}
		}
	}
	return
}

func TestRoundTrip(t *testing.T) {
	pbt.Run(t, pbt.Prop[jcase]{
		Name: "json-roundtrip",
		Rule: "type: 30% messages embedding every well-known type (KnownTypes of textpb2/editions(+hybrid/opaque), conformance TestAllTypesProto3, Article, Option), 10% the well-known types themselves, 20% textpb2/textpb3/textpbeditions, 10% rich corpus types, 20% types with extensions / groups / maps of every key kind, 10% any Standard() type; generated or dynamicpb (and decoded into both). content: descriptor-directed draw (boundary scalars, NaN/-0, maps of every key kind, groups, extensions, unknown fields, 1/8 cases with raw bytes in unvalidated strings) plus own content generators for Timestamp/Duration (range ends +-1, sign mixes), FieldMask (reversible / irreversible / invalid paths), Value/Struct/ListValue (incl. non-finite, kind-less, invalid UTF-8), Any (registered type incl. the special forms and nested Any, canonical or perturbed payload with unknown fields; unresolvable URL, empty URL, malformed payload); 1..4 of the 64 option combinations per message. non-trivial = unrepresentable content (Marshal must fail), or representable content with >= 3 populated fields and a well-known type / Any / extension / group / map",
		Draw: drawCase, Check: checkCase,
		NonTrivial: func(c jcase) bool {
			set, n, why := c.classes()
			if why != "" {
				return true
			}
			if n < 3 {
				return false
			}
			for k := range set {
				if strings.HasPrefix(k, "wkt:") || strings.HasPrefix(k, "map:") || k == "extension" || k == "group" || k == "any-nested" {
					return true
				}
			}
			return false
		},
		Classes: func(c jcase) []string {
			set, _, _ := c.classes()
			var out []string
			for k := range set {
				out = append(out, k)
			}
			sort.Strings(out)
			return out
		},
		Quick: 30000, Thorough: 120000,
	})
}
