package c20

import (
	"fmt"
	"math"
	"runtime"
	"sync"
	"sync/atomic"
	"testing"

	"google.golang.org/protobuf/encoding/protojson"
	"google.golang.org/protobuf/internal/testprotos/textpb2"
	"google.golang.org/protobuf/zverif/pbt"
)

// floatCase: bit patterns sent through protojson in one repeated field.
type floatCase struct {
	Bits   []uint64
	Double bool
}

func nan32(x uint32) bool { return x&0x7f800000 == 0x7f800000 && x&0x007fffff != 0 }
func nan64(x uint64) bool { return x&0x7ff0000000000000 == 0x7ff0000000000000 && x&0x000fffffffffffff != 0 }

func floatBad(c floatCase) (int, error) {
	in := &textpb2.Repeats{}
	for _, u := range c.Bits {
		if c.Double {
			in.RptDouble = append(in.RptDouble, math.Float64frombits(u))
		} else {
			in.RptFloat = append(in.RptFloat, math.Float32frombits(uint32(u)))
		}
	}
	b, err := protojson.Marshal(in)
	if err != nil {
		return 0, fmt.Errorf("Marshal: %v", err)
	}
	var out textpb2.Repeats
	if err := protojson.Unmarshal(b, &out); err != nil {
		return 0, fmt.Errorf("Unmarshal: %v", err)
	}
	if len(out.RptDouble)+len(out.RptFloat) != len(c.Bits) {
		return 0, fmt.Errorf("%d elements read back, want %d", len(out.RptDouble)+len(out.RptFloat), len(c.Bits))
	}
	for i, u := range c.Bits {
		if c.Double {
			if g := math.Float64bits(out.RptDouble[i]); g != u && !(nan64(g) && nan64(u)) {
				return i, fmt.Errorf("float64 bits %#016x read back as %#016x (element %d of a repeated double)", u, g, i)
			}
		} else if g := math.Float32bits(out.RptFloat[i]); g != uint32(u) && !(nan32(g) && nan32(uint32(u))) {
			return i, fmt.Errorf("float32 bits %#08x read back as %#08x (element %d of a repeated float)", uint32(u), g, i)
		}
	}
	return -1, nil
}

func init() {
	pbt.Register(pbt.Prop[floatCase]{Name: "float-sample", Check: func(c floatCase) error { _, err := floatBad(c); return err }})
}

const batch = 4096

func sweep(n uint64, at func(i uint64) uint64, double bool) (*floatCase, error) {
	var next atomic.Uint64
	var mu sync.Mutex
	var bad *floatCase
	var badErr error
	var wg sync.WaitGroup
	for w := 0; w < runtime.GOMAXPROCS(0); w++ {
		wg.Add(1)
		go func() {
			defer wg.Done()
			buf := make([]uint64, 0, batch)
			for {
				lo := next.Add(batch) - batch
				mu.Lock()
				stop := bad != nil
				mu.Unlock()
				if lo >= n || stop {
					return
				}
				buf = buf[:0]
				for i := lo; i < lo+batch && i < n; i++ {
					buf = append(buf, at(i))
				}
				if idx, err := floatBad(floatCase{Bits: buf, Double: double}); err != nil {
					mu.Lock()
					if bad == nil {
						one := floatCase{Bits: []uint64{buf[idx]}, Double: double}
						if _, e1 := floatBad(one); e1 != nil {
							bad, badErr = &one, e1
						} else {
							bad, badErr = &floatCase{Bits: append([]uint64(nil), buf...), Double: double}, err
						}
					}
					mu.Unlock()
					return
				}
			}
		}()
	}
	wg.Wait()
	return bad, badErr
}

func splitmix(x *uint64) uint64 {
	*x += 0x9e3779b97f4a7c15
	z := *x
	z = (z ^ z>>30) * 0xbf58476d1ce4e5b9
	z = (z ^ z>>27) * 0x94d049bb133111eb
	return z ^ z>>31
}

// TestFloatSample: float32 / float64 bit patterns through protojson (shortest decimal at the
// field's width, 'e' notation outside [1e-6, 1e21), "NaN" / "Infinity" strings) and back.
func TestFloatSample(t *testing.T) {
	if pbt.Skip() {
		t.Skip("replay or peer mode")
	}
	n := uint64(pbt.N(1000000, 6000000))
	start := uint32(pbt.DeriveSeed("float32-sample"))
	const stride = 0x9e3779b1
	centres := []uint32{0x00000000, 0x00800000, 0x7f7fffff, 0x7f800000, 0x3f800000, 0x358637bd /* 1e-6 */, 0x60ad78ec /* 1e20 */, 0x6258d727 /* 1e21 */, 0x15ae43fd, 0x80000000}
	const win = 1 << 12
	bad, err := sweep(n+uint64(len(centres))*2*win, func(i uint64) uint64 {
		if i < n {
			return uint64(start + uint32(i)*stride)
		}
		i -= n
		return uint64(centres[i/(2*win)] - win + uint32(i%(2*win)))
	}, false)
	if bad != nil {
		pbt.ReportViolation(t, "float-sample", *bad, fmt.Errorf("float32-sample: %v", err))
		return
	}
	pbt.Count("float32-sample", int64(n)+int64(len(centres))*2*win, int64(n), fmt.Sprintf("float32 bit patterns start+i*0x9e3779b1 (start from the seed and shard; all distinct) plus +-2^12 windows around %d boundary patterns (zero, smallest normal, largest finite, 1, the 1e-6 / 1e21 notation switches) in batches of %d in a repeated float through protojson Marshal -> Unmarshal; bit-for-bit, all NaNs one class", len(centres), batch),
		false, map[string]any{"start": fmt.Sprintf("%#08x", start), "n": n})

	n64 := uint64(pbt.N(400000, 2000000))
	seed := pbt.DeriveSeed("float64-sample")
	bad, err = sweep(n64, func(i uint64) uint64 {
		x := seed + i*0x9e3779b97f4a7c15
		r := splitmix(&x)
		switch i % 4 {
		case 0:
			return r
		case 1:
			return r&0x800fffffffffffff | (1023-40+(r>>52)%110)<<52 // 1e-12 .. 1e21: both notations
		case 2:
			return r&0x800fffffffffffff | []uint64{0, 0, 1, 2, 2045, 2046}[(r>>52)%6]<<52
		default:
			m := float64(r%100000) * math.Pow(10, float64(int(r>>20%61)-30))
			return math.Float64bits(m) + (r>>40)%5 - 2
		}
	}, true)
	if bad != nil {
		pbt.ReportViolation(t, "float-sample", *bad, fmt.Errorf("float64-sample: %v", err))
		return
	}
	pbt.Count("float64-sample", int64(n64), int64(n64), fmt.Sprintf("float64 bit patterns from a splitmix stream of the seed (uniform bits; exponents spanning both notations; subnormal / extreme exponents; neighbours of short decimals) in batches of %d in a repeated double through protojson; bit-for-bit, all NaNs one class", batch),
		false, map[string]any{"seed": seed, "n": n64})
}
