package c20

// An independent model -> JSON-value mapping written from the proto3 JSON mapping specification
// (https://protobuf.dev/programming-guides/json/) and the MarshalOptions documentation. It never
// calls protojson. The result is an *expected value* that the parsed protojson output is matched
// against (as a JSON value: object member order and number spelling are free).

import (
	"bytes"
	"encoding/base64"
	"encoding/json"
	"fmt"
	"io"
	"math"
	"math/big"
	"sort"
	"strconv"
	"strings"

	"google.golang.org/protobuf/reflect/protoreflect"
	"google.golang.org/protobuf/zverif/gen"
	"google.golang.org/protobuf/zverif/model"
)

type jopts struct {
	Multiline, HasIndent, ProtoNames, EnumNumbers, Unpopulated, Defaults bool
}

func optsOf(bits int) jopts {
	return jopts{bits&1 != 0, bits&2 != 0, bits&4 != 0, bits&8 != 0, bits&16 != 0, bits&32 != 0}
}

// expected JSON values
type (
	eObj struct {
		m       map[string]any
		nullable map[string]bool // member may also be absent (see below)
	}
	eArr   []any
	eStr   string
	eBool  bool
	eNull  struct{}
	eInt   struct{ v *big.Int }            // a JSON number with exactly this value
	eFloat struct {                        // a JSON number that reads back (at this width) as these bits
		bits uint64
		size int
	}
	eEnum struct { // a JSON string naming a value of ed with this number
		ed  protoreflect.EnumDescriptor
		num int32
	}
)

func newObj() *eObj { return &eObj{m: map[string]any{}, nullable: map[string]bool{}} }

func lowerCamel(s string) string {
	var b []byte
	up := false
	for i := 0; i < len(s); i++ {
		c := s[i]
		switch {
		case c == '_':
			up = true
		case up && c >= 'a' && c <= 'z':
			b = append(b, c-'a'+'A')
			up = false
		default:
			b = append(b, c)
			up = false
		}
	}
	return string(b)
}

// groupLike: the field is the synthetic field of a proto2-style group (lower-cased name of a
// message declared next to it, in the same file); text format and UseProtoNames name such a
// field by its message (protoreflect.FieldDescriptor.TextName documentation).
func groupLike(fd protoreflect.FieldDescriptor) bool {
	if fd.Kind() != protoreflect.GroupKind {
		return false
	}
	md := fd.Message()
	if strings.ToLower(string(md.Name())) != string(fd.Name()) || md.ParentFile().Path() != fd.ParentFile().Path() {
		return false
	}
	return md.FullName().Parent() == fd.FullName().Parent()
}

func fieldKey(fd protoreflect.FieldDescriptor, o jopts) string {
	if fd.IsExtension() {
		return "[" + string(fd.FullName()) + "]"
	}
	if o.ProtoNames {
		if groupLike(fd) {
			return string(fd.Message().Name())
		}
		return string(fd.Name())
	}
	if fd.HasJSONName() {
		return fd.JSONName() // explicit json_name option
	}
	return lowerCamel(string(fd.Name()))
}

func expScalar(fd protoreflect.FieldDescriptor, v model.Val, o jopts) any {
	switch fd.Kind() {
	case protoreflect.BoolKind:
		return eBool(v.U != 0)
	case protoreflect.Int32Kind, protoreflect.Sint32Kind, protoreflect.Sfixed32Kind:
		return eInt{big.NewInt(int64(int32(v.U)))}
	case protoreflect.Uint32Kind, protoreflect.Fixed32Kind:
		return eInt{big.NewInt(int64(uint32(v.U)))}
	case protoreflect.Int64Kind, protoreflect.Sint64Kind, protoreflect.Sfixed64Kind:
		return eStr(strconv.FormatInt(int64(v.U), 10))
	case protoreflect.Uint64Kind, protoreflect.Fixed64Kind:
		return eStr(strconv.FormatUint(v.U, 10))
	case protoreflect.FloatKind:
		return expFloat(float64(math.Float32frombits(uint32(v.U))), uint64(uint32(v.U)), 32)
	case protoreflect.DoubleKind:
		return expFloat(math.Float64frombits(v.U), v.U, 64)
	case protoreflect.StringKind:
		return eStr(v.B)
	case protoreflect.BytesKind:
		return eStr(base64.StdEncoding.EncodeToString(v.B))
	case protoreflect.EnumKind:
		if fd.Enum().FullName() == "google.protobuf.NullValue" {
			return eNull{}
		}
		n := int32(v.U)
		if o.EnumNumbers || fd.Enum().Values().ByNumber(protoreflect.EnumNumber(n)) == nil {
			return eInt{big.NewInt(int64(n))}
		}
		return eEnum{fd.Enum(), n}
	}
	panic("expScalar: " + fd.Kind().String())
}

func expFloat(x float64, bits uint64, size int) any {
	switch {
	case math.IsNaN(x):
		return eStr("NaN")
	case math.IsInf(x, 1):
		return eStr("Infinity")
	case math.IsInf(x, -1):
		return eStr("-Infinity")
	}
	return eFloat{bits, size}
}

func mapKeyString(kd protoreflect.FieldDescriptor, k model.Val) string {
	switch kd.Kind() {
	case protoreflect.StringKind:
		return string(k.B)
	case protoreflect.BoolKind:
		if k.U != 0 {
			return "true"
		}
		return "false"
	case protoreflect.Int32Kind, protoreflect.Sint32Kind, protoreflect.Sfixed32Kind:
		return strconv.FormatInt(int64(int32(k.U)), 10)
	case protoreflect.Int64Kind, protoreflect.Sint64Kind, protoreflect.Sfixed64Kind:
		return strconv.FormatInt(int64(k.U), 10)
	case protoreflect.Uint32Kind, protoreflect.Fixed32Kind:
		return strconv.FormatUint(uint64(uint32(k.U)), 10)
	default:
		return strconv.FormatUint(k.U, 10)
	}
}

func expVal(fd protoreflect.FieldDescriptor, v model.Val, o jopts) (any, error) {
	if fd.Message() != nil {
		return expMessage(fd.Message(), v.M, o)
	}
	return expScalar(fd, v, o), nil
}

func expField(fd protoreflect.FieldDescriptor, f *model.Field, o jopts) (any, error) {
	switch {
	case fd.IsMap():
		obj := newObj()
		for i := range f.Keys {
			x, err := expVal(fd.MapValue(), f.Vals[i], o)
			if err != nil {
				return nil, err
			}
			obj.m[mapKeyString(fd.MapKey(), f.Keys[i])] = x
		}
		return obj, nil
	case fd.IsList():
		arr := eArr{}
		for _, v := range f.Vals {
			x, err := expVal(fd, v, o)
			if err != nil {
				return nil, err
			}
			arr = append(arr, x)
		}
		return arr, nil
	}
	return expVal(fd, f.Vals[0], o)
}

// civil converts days since 1970-01-01 to a proleptic Gregorian date.
func civil(z int64) (y int64, m, d int) {
	z += 719468
	era := z / 146097
	if z < 0 {
		era = (z - 146096) / 146097
	}
	doe := z - era*146097
	yoe := (doe - doe/1460 + doe/36524 - doe/146096) / 365
	y = yoe + era*400
	doy := doe - (365*yoe + yoe/4 - yoe/100)
	mp := (5*doy + 2) / 153
	d = int(doy - (153*mp+2)/5 + 1)
	if mp < 10 {
		m = int(mp + 3)
	} else {
		m = int(mp - 9)
	}
	if m <= 2 {
		y++
	}
	return
}

func frac369(n int64) string {
	if n == 0 {
		return ""
	}
	s := fmt.Sprintf("%09d", n)
	switch {
	case n%1000000 == 0:
		return "." + s[:3]
	case n%1000 == 0:
		return "." + s[:6]
	}
	return "." + s
}

func expTimestamp(m *model.Msg) string {
	var s, n int64
	if f := m.Get(1); f != nil {
		s = int64(f.Vals[0].U)
	}
	if f := m.Get(2); f != nil {
		n = int64(int32(f.Vals[0].U))
	}
	days, rem := s/86400, s%86400
	if rem < 0 {
		rem += 86400
		days--
	}
	y, mo, d := civil(days)
	return fmt.Sprintf("%04d-%02d-%02dT%02d:%02d:%02d%sZ", y, mo, d, rem/3600, rem%3600/60, rem%60, frac369(n))
}

func expDuration(m *model.Msg) string {
	var s, n int64
	if f := m.Get(1); f != nil {
		s = int64(f.Vals[0].U)
	}
	if f := m.Get(2); f != nil {
		n = int64(int32(f.Vals[0].U))
	}
	sign := ""
	if s < 0 || n < 0 {
		sign, s, n = "-", -s, -n
	}
	return fmt.Sprintf("%s%d%ss", sign, s, frac369(n))
}

var wrappers = map[protoreflect.FullName]bool{
	"google.protobuf.BoolValue": true, "google.protobuf.Int32Value": true, "google.protobuf.Int64Value": true,
	"google.protobuf.UInt32Value": true, "google.protobuf.UInt64Value": true, "google.protobuf.FloatValue": true,
	"google.protobuf.DoubleValue": true, "google.protobuf.StringValue": true, "google.protobuf.BytesValue": true,
}

// specialJSON: the type has a JSON form of its own (and is wrapped as {"@type":…,"value":…} in Any).
func specialJSON(name protoreflect.FullName) bool {
	return wrappers[name] || gen.ConstrainedJSON[name] || name == "google.protobuf.Empty"
}

func expMessage(md protoreflect.MessageDescriptor, m *model.Msg, o jopts) (any, error) {
	if m == nil {
		m = &model.Msg{}
	}
	name := md.FullName()
	switch {
	case wrappers[name]:
		fd := md.Fields().ByNumber(1)
		v := model.Val{}
		if f := m.Get(1); f != nil {
			v = f.Vals[0]
		}
		return expScalar(fd, v, o), nil
	case name == "google.protobuf.Empty":
		return newObj(), nil
	case name == "google.protobuf.Timestamp":
		return eStr(expTimestamp(m)), nil
	case name == "google.protobuf.Duration":
		return eStr(expDuration(m)), nil
	case name == "google.protobuf.FieldMask":
		var ps []string
		if f := m.Get(1); f != nil {
			for _, v := range f.Vals {
				ps = append(ps, lowerCamel(string(v.B)))
			}
		}
		return eStr(strings.Join(ps, ",")), nil
	case name == "google.protobuf.Struct":
		if f := m.Get(1); f != nil {
			return expField(md.Fields().ByNumber(1), f, o)
		}
		return newObj(), nil
	case name == "google.protobuf.ListValue":
		if f := m.Get(1); f != nil {
			return expField(md.Fields().ByNumber(1), f, o)
		}
		return eArr{}, nil
	case name == "google.protobuf.Value":
		if len(m.Fields) != 1 {
			return nil, fmt.Errorf("harness: Value with %d kinds", len(m.Fields))
		}
		f := &m.Fields[0]
		return expField(md.Fields().ByNumber(protoreflect.FieldNumber(f.Num)), f, o)
	case name == "google.protobuf.Any":
		if len(m.Fields) == 0 {
			return newObj(), nil
		}
		emd, emb, ok := gen.DecodeAny(m)
		if !ok {
			return nil, fmt.Errorf("harness: undecodable Any in a representable message")
		}
		inner, err := expMessage(emd, emb, o)
		if err != nil {
			return nil, err
		}
		url := eStr(m.Get(1).Vals[0].B)
		if specialJSON(emd.FullName()) && emd.FullName() != "google.protobuf.Empty" {
			// "value" wrapping is for types with a special JSON mapping; the specification says
			// explicitly that Empty is not one of them (programming-guides/json#any)
			obj := newObj()
			obj.m["@type"], obj.m["value"] = url, inner
			return obj, nil
		}
		obj := inner.(*eObj)
		obj.m["@type"] = url
		return obj, nil
	}

	obj := newObj()
	put := func(k string, v any) error {
		if _, dup := obj.m[k]; dup {
			return fmt.Errorf("harness: two fields of %s map to the JSON name %q", name, k)
		}
		obj.m[k] = v
		return nil
	}
	for i := range m.Fields {
		f := &m.Fields[i]
		fd := model.FieldDesc(md, f.Num, nil)
		if fd == nil {
			return nil, fmt.Errorf("harness: field %d of %s not resolvable", f.Num, name)
		}
		x, err := expField(fd, f, o)
		if err != nil {
			return nil, err
		}
		if err := put(fieldKey(fd, o), x); err != nil {
			return nil, err
		}
	}
	if !o.Unpopulated && !o.Defaults {
		return obj, nil
	}
	// Unpopulated declared fields. EmitUnpopulated: null for fields with presence (proto2 scalars,
	// messages), the zero value / [] / {} for the others; never for members of a oneof and never for
	// extensions. EmitDefaultValues: the same without the nulls ("presence-sensing fields that are
	// omitted will remain omitted"). EmitUnpopulated takes precedence.
	fs := md.Fields()
	for i := 0; i < fs.Len(); i++ {
		fd := fs.Get(i)
		if m.Get(int32(fd.Number())) != nil {
			continue
		}
		if od := fd.ContainingOneof(); od != nil {
			if od.IsSynthetic() && o.Unpopulated {
				// a proto3 `optional` field: the documentation lists neither "oneof member" nor
				// "proto2 scalar" for it; absent and null are both accepted.
				k := fieldKey(fd, o)
				obj.m[k], obj.nullable[k] = eNull{}, true
			}
			continue
		}
		var x any
		switch {
		case fd.IsList():
			x = eArr{}
		case fd.IsMap():
			x = newObj()
		case fd.HasPresence():
			if !o.Unpopulated {
				continue
			}
			x = eNull{}
		default:
			x = expScalar(fd, model.Val{}, o)
		}
		if err := put(fieldKey(fd, o), x); err != nil {
			return nil, err
		}
	}
	return obj, nil
}

// ---------------------------------------------------------------------------------------------
// parsing the output with encoding/json (duplicate object members are an error)

func parseJSON(b []byte) (any, error) {
	dec := json.NewDecoder(bytes.NewReader(b))
	dec.UseNumber()
	v, err := parseValue(dec)
	if err != nil {
		return nil, err
	}
	if _, err := dec.Token(); err != io.EOF {
		return nil, fmt.Errorf("trailing data after the JSON value")
	}
	return v, nil
}

func parseValue(dec *json.Decoder) (any, error) {
	tok, err := dec.Token()
	if err != nil {
		return nil, err
	}
	d, ok := tok.(json.Delim)
	if !ok {
		return tok, nil
	}
	switch d {
	case '{':
		m := map[string]any{}
		for dec.More() {
			kt, err := dec.Token()
			if err != nil {
				return nil, err
			}
			k := kt.(string)
			if _, dup := m[k]; dup {
				return nil, fmt.Errorf("duplicate object member %q", k)
			}
			if m[k], err = parseValue(dec); err != nil {
				return nil, err
			}
		}
		_, err := dec.Token()
		return m, err
	case '[':
		a := []any{}
		for dec.More() {
			v, err := parseValue(dec)
			if err != nil {
				return nil, err
			}
			a = append(a, v)
		}
		_, err := dec.Token()
		return a, err
	}
	return nil, fmt.Errorf("unexpected delimiter %v", d)
}

// match compares the parsed output with the expected value; "" when they agree.
func match(exp, act any, path string) string {
	switch e := exp.(type) {
	case *eObj:
		a, ok := act.(map[string]any)
		if !ok {
			return fmt.Sprintf("%s: want an object, got %s", path, show(act))
		}
		var keys []string
		for k := range e.m {
			keys = append(keys, k)
		}
		sort.Strings(keys)
		for _, k := range keys {
			av, present := a[k]
			if !present {
				if e.nullable[k] {
					continue
				}
				return fmt.Sprintf("%s: member %q missing (want %s)", path, k, showExp(e.m[k]))
			}
			if d := match(e.m[k], av, path+"."+k); d != "" {
				return d
			}
		}
		for k := range a {
			if _, want := e.m[k]; !want {
				return fmt.Sprintf("%s: unexpected member %q = %s", path, k, show(a[k]))
			}
		}
	case eArr:
		a, ok := act.([]any)
		if !ok {
			return fmt.Sprintf("%s: want an array, got %s", path, show(act))
		}
		if len(a) != len(e) {
			return fmt.Sprintf("%s: want %d elements, got %d", path, len(e), len(a))
		}
		for i := range e {
			if d := match(e[i], a[i], fmt.Sprintf("%s[%d]", path, i)); d != "" {
				return d
			}
		}
	case eStr:
		if a, ok := act.(string); !ok || a != string(e) {
			return fmt.Sprintf("%s: want string %q, got %s", path, string(e), show(act))
		}
	case eBool:
		if a, ok := act.(bool); !ok || a != bool(e) {
			return fmt.Sprintf("%s: want %v, got %s", path, bool(e), show(act))
		}
	case eNull:
		if act != nil {
			return fmt.Sprintf("%s: want null, got %s", path, show(act))
		}
	case eInt:
		a, ok := act.(json.Number)
		r, ok2 := new(big.Rat).SetString(string(a))
		if !ok || !ok2 || !r.IsInt() || r.Num().Cmp(e.v) != 0 {
			return fmt.Sprintf("%s: want the number %v, got %s", path, e.v, show(act))
		}
	case eFloat:
		a, ok := act.(json.Number)
		if !ok {
			return fmt.Sprintf("%s: want a number, got %s", path, show(act))
		}
		x, err := strconv.ParseFloat(string(a), e.size)
		got := math.Float64bits(x)
		if e.size == 32 {
			got = uint64(math.Float32bits(float32(x)))
		}
		if err != nil || got != e.bits {
			return fmt.Sprintf("%s: want a number reading back as float%d bits %#x, got %s (bits %#x)", path, e.size, e.bits, a, got)
		}
	case eEnum:
		a, ok := act.(string)
		if !ok {
			return fmt.Sprintf("%s: want an enum name for %d, got %s", path, e.num, show(act))
		}
		ev := e.ed.Values().ByName(protoreflect.Name(a))
		if ev == nil || int32(ev.Number()) != e.num {
			return fmt.Sprintf("%s: want a name of %s value %d, got %q", path, e.ed.FullName(), e.num, a)
		}
	default:
		return fmt.Sprintf("%s: harness: unknown expected node %T", path, exp)
	}
	return ""
}

func show(v any) string {
	b, _ := json.Marshal(v)
	if len(b) > 120 {
		b = append(b[:120], "…"...)
	}
	return string(b)
}

func showExp(v any) string {
	switch e := v.(type) {
	case *eObj:
		return fmt.Sprintf("object of %d members", len(e.m))
	case eArr:
		return fmt.Sprintf("array of %d", len(e))
	case eInt:
		return e.v.String()
	}
	return fmt.Sprintf("%T %v", v, v)
}

// ---------------------------------------------------------------------------------------------
// layout: Multiline / Indent

// layout checks the documented shape of the output. Compact: a single line. Multiline: "every
// entry is preceded by Indent and terminated by a newline" — every member / element starts on its
// own line indented by depth x Indent, closing brackets of non-empty containers on their own line.
// indent == "" with Multiline means "an arbitrary indent": the unit is inferred from the output.
func layout(b []byte, multiline bool, indent string) string {
	if !multiline {
		if bytes.IndexByte(b, '\n') >= 0 {
			return "compact output contains a newline"
		}
		return ""
	}
	depth := 0
	i := 0
	expectLine := func(d int) string { // at b[i] == '\n': the following indentation must be d units
		if i >= len(b) || b[i] != '\n' {
			return fmt.Sprintf("offset %d: expected a newline", i)
		}
		i++
		j := i
		for j < len(b) && (b[j] == ' ' || b[j] == '\t') {
			j++
		}
		ws := string(b[i:j])
		if indent == "" && d > 0 {
			if len(ws)%d != 0 || len(ws) == 0 {
				return fmt.Sprintf("offset %d: indentation %q at depth %d", i, ws, d)
			}
			indent = ws[:len(ws)/d]
		}
		if ws != strings.Repeat(indent, d) {
			return fmt.Sprintf("offset %d: indentation %q at depth %d, want %d x %q", i, ws, d, d, indent)
		}
		i = j
		return ""
	}
	for i < len(b) {
		switch c := b[i]; c {
		case '"':
			i++
			for i < len(b) && b[i] != '"' {
				if b[i] == '\\' {
					i++
				}
				i++
			}
			i++
		case '{', '[':
			i++
			if i < len(b) && (b[i] == '}' || b[i] == ']') {
				i++
				continue
			}
			depth++
			if d := expectLine(depth); d != "" {
				return d
			}
		case ',':
			i++
			if d := expectLine(depth); d != "" {
				return d
			}
		case '\n':
			// only legal directly before a closing bracket
			depth--
			if depth < 0 {
				return fmt.Sprintf("offset %d: stray newline", i)
			}
			if d := expectLine(depth); d != "" {
				return d
			}
			if i >= len(b) || b[i] != '}' && b[i] != ']' {
				return fmt.Sprintf("offset %d: newline not followed by a member, element or closing bracket", i)
			}
			i++
		case '}', ']':
			return fmt.Sprintf("offset %d: closing bracket of a non-empty container not on its own line", i)
		default:
			i++
		}
	}
	return ""
}
