package c20

import (
	"fmt"
	"math"
	"strings"
	"unicode/utf8"

	"google.golang.org/protobuf/reflect/protoreflect"
	"google.golang.org/protobuf/zverif/gen"
	"google.golang.org/protobuf/zverif/model"
)

// representable is the independent predicate "the proto3 JSON mapping can represent this
// content", written from the JSON mapping specification and the well-known types' own
// documentation (timestamp.proto, duration.proto, field_mask.proto, struct.proto, any.proto):
//
//	strings (fields, map keys, type URLs, mask paths) are valid UTF-8;
//	Timestamp: 0001-01-01T00:00:00Z <= seconds <= 9999-12-31T23:59:59Z, 0 <= nanos <= 999999999;
//	Duration: |seconds| <= 315576000000, |nanos| <= 999999999, signs agree;
//	FieldMask: every path is a dotted list of identifiers and survives snake->lowerCamel->snake;
//	Value: a kind is set, numbers are finite; Struct/ListValue recursively;
//	Any: empty, or a type URL naming a registered type whose payload is a well-formed encoding of
//	     that type with representable content.
//
// Returns "" when representable, else the first reason. A reason starting with "harness:" means
// the predicate could not be evaluated.
func representable(md protoreflect.MessageDescriptor, m *model.Msg) string {
	if m == nil {
		m = &model.Msg{}
	}
	i64 := func(num int32) int64 {
		if f := m.Get(num); f != nil {
			return int64(f.Vals[0].U)
		}
		return 0
	}
	switch md.FullName() {
	case "google.protobuf.Timestamp":
		s, n := i64(1), int64(int32(i64(2)))
		if s < -62135596800 || s > 253402300799 {
			return "timestamp-seconds-range"
		}
		if n < 0 || n > 999999999 {
			return "timestamp-nanos-range"
		}
		return ""
	case "google.protobuf.Duration":
		s, n := i64(1), int64(int32(i64(2)))
		if s < -315576000000 || s > 315576000000 {
			return "duration-seconds-range"
		}
		if n < -999999999 || n > 999999999 {
			return "duration-nanos-range"
		}
		if s > 0 && n < 0 || s < 0 && n > 0 {
			return "duration-signs"
		}
		return ""
	case "google.protobuf.FieldMask":
		if f := m.Get(1); f != nil {
			for _, v := range f.Vals {
				if why := maskPath(string(v.B)); why != "" {
					return why
				}
			}
		}
		return ""
	case "google.protobuf.Value":
		if len(m.Fields) == 0 {
			return "value-no-kind"
		}
		if f := m.Get(2); f != nil {
			x := math.Float64frombits(f.Vals[0].U)
			if math.IsNaN(x) || math.IsInf(x, 0) {
				return "value-non-finite"
			}
		}
	case "google.protobuf.Any":
		url, payload := "", []byte(nil)
		if f := m.Get(1); f != nil {
			url = string(f.Vals[0].B)
		}
		if f := m.Get(2); f != nil {
			payload = f.Vals[0].B
		}
		if url == "" && len(payload) == 0 {
			return ""
		}
		if url == "" {
			return "any-no-type"
		}
		if !utf8.ValidString(url) {
			return "invalid-utf8"
		}
		mt := gen.AnyTarget(url)
		if mt == nil {
			return "any-unresolvable"
		}
		if ok, _ := model.WellFormed(mt.Descriptor(), payload, 10000, nil, gen.EnforcesUTF8); !ok {
			return "any-malformed"
		}
		emd, emb, ok := gen.DecodeAny(m)
		if !ok {
			return "harness: reference walker accepts an Any payload that proto.Unmarshal rejects"
		}
		if why := representable(emd, emb); why != "" {
			if strings.HasPrefix(why, "harness:") {
				return why
			}
			return "any-content:" + why
		}
		return ""
	}
	for _, f := range m.Fields {
		fd := model.FieldDesc(md, f.Num, nil)
		if fd == nil {
			return fmt.Sprintf("harness: field %d of %s not resolvable", f.Num, md.FullName())
		}
		if fd.IsMap() {
			for i := range f.Keys {
				if fd.MapKey().Kind() == protoreflect.StringKind && !utf8.Valid(f.Keys[i].B) {
					return "invalid-utf8"
				}
				if why := reprVal(fd.MapValue(), f.Vals[i]); why != "" {
					return why
				}
			}
			continue
		}
		for _, v := range f.Vals {
			if why := reprVal(fd, v); why != "" {
				return why
			}
		}
	}
	return ""
}

func reprVal(fd protoreflect.FieldDescriptor, v model.Val) string {
	switch fd.Kind() {
	case protoreflect.StringKind:
		if !utf8.Valid(v.B) {
			return "invalid-utf8"
		}
	case protoreflect.MessageKind, protoreflect.GroupKind:
		return representable(fd.Message(), v.M)
	}
	return ""
}

// maskPath: "" when the path is a valid dotted identifier list that converts to lowerCamelCase
// and back unchanged (no upper-case letter, every '_' directly followed by a lower-case letter).
func maskPath(p string) string {
	if !utf8.ValidString(p) {
		return "invalid-utf8"
	}
	if p == "" {
		return "fieldmask-invalid"
	}
	for _, seg := range strings.Split(p, ".") {
		if seg == "" {
			return "fieldmask-invalid"
		}
		for i := 0; i < len(seg); i++ {
			c := seg[i]
			letter := c >= 'a' && c <= 'z' || c >= 'A' && c <= 'Z' || c == '_'
			digit := c >= '0' && c <= '9'
			if !(letter || digit && i > 0) {
				return "fieldmask-invalid"
			}
		}
	}
	for i := 0; i < len(p); i++ {
		c := p[i]
		if c >= 'A' && c <= 'Z' {
			return "fieldmask-irreversible"
		}
		if c == '_' && !(i+1 < len(p) && p[i+1] >= 'a' && p[i+1] <= 'z') {
			return "fieldmask-irreversible"
		}
	}
	return ""
}
