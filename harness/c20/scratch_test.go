package c20

import (
	"fmt"
	"testing"

	"google.golang.org/protobuf/reflect/protoreflect"
	"google.golang.org/protobuf/zverif/corpus"
	"google.golang.org/protobuf/zverif/gen"
)

func TestScratch(t *testing.T) {
	for _, n := range corpus.Standard() {
		md := corpus.ByName(n).Descriptor()
		fs := md.Fields()
		var w []string
		for i := 0; i < fs.Len(); i++ {
			fd := fs.Get(i)
			sub := fd.Message()
			if fd.IsMap() {
				sub = fd.MapValue().Message()
			}
			if sub != nil && (gen.ConstrainedJSON[sub.FullName()]) {
				w = append(w, string(fd.Name())+":"+string(sub.Name()))
			}
			if fd.Enum() != nil && fd.Enum().FullName() == "google.protobuf.NullValue" {
				w = append(w, string(fd.Name())+":NULLVALUE hasPresence="+fmt.Sprint(fd.HasPresence()))
			}
			if fd.Kind() == protoreflect.GroupKind {
				w = append(w, string(fd.Name())+":group:"+fd.TextName())
			}
		}
		if len(w) > 0 {
			fmt.Println(n, w)
		}
	}
}
