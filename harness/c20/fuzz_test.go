package c20

import (
	"fmt"
	"os"
	"path/filepath"
	"runtime/debug"
	"strings"
	"testing"

	"google.golang.org/protobuf/encoding/protojson"
	"google.golang.org/protobuf/reflect/protoreflect"
	"google.golang.org/protobuf/zverif/gen"
	"google.golang.org/protobuf/zverif/mcase"
	"google.golang.org/protobuf/zverif/model"
	"google.golang.org/protobuf/zverif/pbt"
	"pgregory.net/rapid"
)

// Native fuzz target (thorough tier; `go test -fuzz`): fuzzer-chosen JSON BYTES are parsed into one
// of ~25 corpus types. Whatever protojson.Unmarshal accepts is a message; its snapshot becomes the
// model value of the package's round-trip check, so the assertions are exactly those of checkCase
// under one fuzzer-chosen combination of the 2^6 options: Marshal fails iff the representability
// predicate says so, the output is the JSON the mapping prescribes, and Unmarshal(Marshal(m))
// (generated and dynamicpb) equals the content, proto.Equal both ways (the registered known finding
// KF-json-emitunpopulated-null-readback is recognised inside checkCase). Unmarshal itself must not
// panic on any input.
var fuzzTypes = pick(stdTypes, func(n string) bool {
	switch n {
	case "pb2.Scalars", "pb2.Enums", "pb2.Repeats", "pb2.Nests", "pb2.Maps", "pb2.Extensions", "pb2.KnownTypes", "pb2.Requireds",
		"pb3.Scalars", "pb3.Maps", "pb3.Oneofs", "pb3.Proto3Optional", "pb3.JSONNames", "pb3.Enums",
		"pbeditions.Scalars", "pbeditions.Nests", "opaque.pbeditions.KnownTypes",
		"goproto.proto.test.TestAllTypes", "goproto.proto.test.TestAllExtensions", "goproto.proto.test3.TestAllTypes",
		"opaque.goproto.proto.testeditions.TestAllTypes", "goproto.proto.fuzz.Fuzz",
		"protobuf_test_messages.proto3.TestAllTypesProto3", "protobuf_test_messages.editions.TestAllTypesEdition2023",
		"google.protobuf.Any", "google.protobuf.Struct", "google.protobuf.Value", "google.protobuf.FieldMask", "google.protobuf.Timestamp", "google.protobuf.Duration",
		"google.protobuf.FileDescriptorProto":
		return true
	}
	return false
})

type fzCase struct {
	Type    string
	Dynamic bool
	Opts    int
	Indent  string
	JSON    []byte
}

var fuzzIndents = []string{" ", "  ", "\t", "    ", " \t", "\t\t "}

func checkFuzzJSON(c fzCase) error {
	m := mcase.New(c.Type, c.Dynamic)
	if err := (protojson.UnmarshalOptions{AllowPartial: true}).Unmarshal(c.JSON, m.Interface()); err != nil {
		return nil // rejected: nothing to round-trip (a panic is caught by the caller)
	}
	jc := jcase{Type: c.Type, Dynamic: c.Dynamic, M: model.Snapshot(m), Opts: []int{c.Opts & 63}, Indent: c.Indent}
	if outsideDomain(mcase.Desc(c.Type), jc.M, 0) {
		return nil
	}
	if err := checkCase(jc); err != nil {
		if strings.HasPrefix(err.Error(), "harness:") {
			return nil // the model could not be rebuilt through reflection / classified: no verdict
		}
		return fmt.Errorf("input %s parsed into %s: %w", clip(c.JSON), c.Type, err)
	}
	return nil
}

// outsideDomain recognises accepted content that the rapid property does not quantify over
// (the round-trip check has no rule for it, so the fuzz target must not judge it either):
//
//   - a google.protobuf.NullValue enum field holding an undeclared number (the decoder accepts
//     {"optNull": 1}; null is the only JSON form of the type; the generator draws the declared value only),
//
//   - an Any whose non-empty type URL has no '/' (any.proto requires one; the registry resolves
//     "pb2.Nested" all the same; every URL of the generator has a prefix ending in '/').
//
//   - Any nested in Any payloads more than 4 deep (generator: 2; the reference normaliser decodes
//     every level again and again, so its cost explodes with the depth).
//
// Any payloads are searched too.
func outsideDomain(md protoreflect.MessageDescriptor, m *model.Msg, anyDepth int) bool {
	if m == nil {
		return false
	}
	if md.FullName() == "google.protobuf.Any" {
		if anyDepth >= 4 {
			return true
		}
		if f := m.Get(1); f != nil && len(f.Vals[0].B) > 0 && !strings.Contains(string(f.Vals[0].B), "/") {
			return true
		}
		if emd, emb, ok := gen.DecodeAny(m); ok {
			return outsideDomain(emd, emb, anyDepth+1)
		}
		return false
	}
	for _, f := range m.Fields {
		fd := model.FieldDesc(md, f.Num, nil)
		if fd == nil {
			continue
		}
		vd := fd
		if fd.IsMap() {
			vd = fd.MapValue()
		}
		for _, v := range f.Vals {
			if ed := vd.Enum(); ed != nil && ed.FullName() == "google.protobuf.NullValue" && int32(v.U) != 0 {
				return true
			}
			if vd.Message() != nil && outsideDomain(vd.Message(), v.M, anyDepth) {
				return true
			}
		}
	}
	return false
}

func fuzzSeeds() []fzCase {
	var out []fzCase
	// valid documents: the rapid generator's own (representable) messages, marshalled
	for i, ty := range fuzzTypes {
		g := rapid.Custom(func(t *rapid.T) *model.Msg {
			mo := msgOpts
			mo.ValidUTF8 = true
			return gen.DrawMessageWKT(t, mcase.Desc(ty), mo, gen.WKTOpts{Bad: 0, AnyTypes: anyTypes, P: 3, AnyDepth: 2})
		})
		for k := 0; k < 4; k++ {
			v := g.Example(i*5 + k)
			m := mcase.New(ty, false)
			if model.Apply(m, v, nil) != nil {
				continue
			}
			mo := marshalOpts([]int{0, 1 | 4, 8 | 16, 32}[k], "  ")
			if b, err := mo.Marshal(m.Interface()); err == nil && len(b) < 1<<12 {
				out = append(out, fzCase{Type: ty, Dynamic: k == 2, Opts: (i*7 + k*13) & 63, Indent: fuzzIndents[(i+k)%len(fuzzIndents)], JSON: b})
			}
		}
	}
	hostile := []string{
		``, `{}`, `[]`, `null`, `{`, `{"":1}`, `{"optInt32":1,"optInt32":2}`, `{"optInt32":1,"opt_int32":2}`, "\xef\xbb\xbf{}", `{} {}`, `{"optInt32":1,}`,
		`{"optInt32":2147483647,"optInt64":"-9223372036854775808","optUint64":18446744073709551615,"optUint32":4294967295}`,
		`{"optInt32":2147483648}`, `{"optInt32":"1"}`, `{"optInt32":" 1"}`, `{"optInt32":1.0}`, `{"optInt32":1e0}`, `{"optInt32":10e-1}`, `{"optInt32":1.5}`, `{"optInt32":-0}`, `{"optInt32":1e}`, `{"optInt32":01}`, `{"optInt32":0x1}`, `{"optInt32":"1e2"}`, `{"optInt64":1e18}`, `{"optUint64":1.8446744073709551615e19}`,
		`{"optFloat":3.4028235e38,"optDouble":1.7976931348623157e308}`, `{"optFloat":3.4028236e38}`, `{"optFloat":1e39}`, `{"optDouble":1e309}`, `{"optFloat":"NaN","optDouble":"-Infinity"}`, `{"optFloat":"Infinity","optDouble":"nan"}`, `{"optFloat":-0.0,"optDouble":"-0"}`, `{"optFloat":1e-46,"optDouble":4.9e-324}`, `{"optFloat":"1.5","optDouble":" 1"}`, `{"optFloat":7.038531e-26}`,
		`{"optBool":true}`, `{"optBool":"true"}`, `{"optBool":1}`, `{"optString":"\u0000😀\ud800"}`, `{"optString":"\ud800"}`, `{"optString":"éé\/\b\f"}`, "{\"optString\":\"\xff\"}", `{"optString":1}`, `{"optString":"\ufffd"}`, "{\"optString\":\"a\xef\xbf\xbdb\"}", `{"strToNested":{"\ufffd":{}}}`, `{"optBytes":"AQID"}`, `{"optBytes":"AQI"}`, `{"optBytes":"-_8="}`, `{"optBytes":"+/8"}`, `{"optBytes":"A==="}`, `{"optBytes":"A Q"}`,
		`{"optNestedEnum":"ONE"}`, `{"optNestedEnum":1}`, `{"optNestedEnum":99}`, `{"optNestedEnum":"one"}`, `{"optNestedEnum":null}`, `{"optNestedEnum":"1"}`, `{"rptNestedEnum":["ONE",2,null]}`,
		`{"rptInt32":[1,2,3]}`, `{"rptInt32":null}`, `{"rptInt32":[null]}`, `{"rptInt32":[]}`, `{"rptInt32":1}`, `{"rptNested":[{},{"optString":"x"}]}`, `{"rptNested":[null]}`,
		`{"int32ToStr":{"1":"a","-1":"b","01":"c"}}`, `{"int32ToStr":{"1":"a","1":"b"}}`, `{"boolToUint32":{"true":1,"false":0}}`, `{"boolToUint32":{"True":1}}`, `{"uint64ToEnum":{"18446744073709551615":"ONE"}}`, `{"strToNested":{"":{},"k":{"optString":"v"}}}`, `{"strToNested":{"k":null}}`, `{"strToOneofs":{"k":{"oneofString":"x"}}}`, `{"int32ToStr":null}`,
		`{"optNested":{"optNested":{"optNested":{"optString":"deep"}}}}`, `{"optNested":null}`, `{"optgroup":{"optString":"g"}}`, `{"OptGroup":{}}`, `{"rptgroup":[{"rptString":["x"]}]}`,
		`{"[pb2.opt_ext_bool]":true,"[pb2.opt_ext_nested]":{"optString":"x"},"[pb2.rpt_ext_fixed32]":[1,2]}`, `{"[pb2.ExtensionsContainer.opt_ext_string]":"s"}`, `{"[pb2.no_such_ext]":1}`, `{"[]":1}`, `{"[pb2.opt_ext_bool]":null}`,
		`{"oneofEnum":"ONE","oneofString":"x"}`, `{"oneofEnum":null,"oneofString":"x"}`, `{"oneofNested":{}}`, `{"optInt32":null,"optString":null}`, `{"reqBool":true}`, `{"unknownField":1}`, `{"optInt32":{}}`,
		`{"optDuration":"1s","optTimestamp":"1970-01-01T00:00:00Z","optStruct":{"k":[null,1,"s",true,{}]},"optValue":null,"optEmpty":{},"optFieldmask":"a.b,cD","optBool":true,"optInt32":1,"optInt64":"1","optUint32":1,"optUint64":"1","optFloat":1,"optDouble":1,"optString":"s","optBytes":"AQ==","optList":[[],[[]]],"optNull":null,"optAny":{"@type":"x/google.protobuf.Empty"}}`,
		`{"optDuration":"-315576000000.999999999s"}`, `{"optDuration":"315576000001s"}`, `{"optDuration":"1.0000000001s"}`, `{"optDuration":".5s"}`, `{"optDuration":"+1s"}`, `{"optDuration":"1e3s"}`, `{"optDuration":"-0.5s"}`, `{"optDuration":"1"}`,
		`{"optTimestamp":"0001-01-01T00:00:00Z"}`, `{"optTimestamp":"9999-12-31T23:59:59.999999999Z"}`, `{"optTimestamp":"10000-01-01T00:00:00Z"}`, `{"optTimestamp":"2000-01-01T00:00:00.1234567890Z"}`, `{"optTimestamp":"2000-01-01T00:00:00+24:00"}`, `{"optTimestamp":"2000-01-01t00:00:00z"}`, `{"optTimestamp":"2000-02-30T00:00:00Z"}`, `{"optTimestamp":"2000-01-01T00:00:00,5Z"}`, `{"optTimestamp":"2016-12-31T23:59:60Z"}`, `{"optTimestamp":"0000-12-31T23:59:59-01:00"}`,
		`{"optFieldmask":"fooBar,foo_bar,a.bC.d"}`, `{"optFieldmask":""}`, `{"optFieldmask":","}`, `{"optFieldmask":"a..b"}`, `{"optFieldmask":"A"}`, `{"optFieldmask":"a1B,_x"}`,
		`{"optValue":1e400}`, `{"optValue":"NaN"}`, `{"optValue":{"a":{"b":[{"c":null}]}}}`, `{"optStruct":{"":null}}`, `{"optStruct":null}`, `{"optList":null}`, `{"optNull":"NULL_VALUE"}`, `{"optNull":0}`, `{"optNull":1}`,
		`{"optAny":{"@type":"type.googleapis.com/pb2.Nested","optString":"in any"}}`, `{"optAny":{"optString":"x","@type":"x/pb2.Nested"}}`, `{"optAny":{"@type":"x/google.protobuf.Duration","value":"1s"}}`, `{"optAny":{"@type":"x/google.protobuf.Any","value":{"@type":"y/google.protobuf.Empty","value":{}}}}`, `{"optAny":{"@type":"x/google.protobuf.Value","value":null}}`, `{"optAny":{"@type":"x/google.protobuf.Struct","value":{"k":1}}}`,
		`{"optAny":{}}`, `{"optAny":{"@type":""}}`, `{"optAny":{"@type":"x/no.such.Type"}}`, `{"optAny":{"@type":"pb2.Nested"}}`, `{"optAny":{"@type":"/pb2.Nested"}}`, `{"optAny":{"@type":"x/pb2.Nested","@type":"y/pb2.Nested"}}`, `{"optAny":{"@type":"x/pb2.Requireds"}}`, `{"optAny":{"@type":"x/pb3.Maps","int32ToStr":{"2":"b","1":"a"}}}`, `{"optAny":{"@type":"x/google.protobuf.FieldMask","value":"a_b"}}`, `{"optAny":{"@type":"x/google.protobuf.Int64Value","value":"1"}}`, `{"optAny":null}`,
		`{"@type":"type.googleapis.com/google.protobuf.Timestamp","value":"1970-01-01T00:00:00.000000001Z"}`, `{"@type":"a/b/c/pb2.Nests","optgroup":{}}`, `{"value":{},"@type":"x/google.protobuf.Empty"}`,
		`"1s"`, `"-1.5s"`, `"1970-01-01T00:00:00Z"`, `"a,b"`, `1`, `"s"`, `true`, `[1,[2,[3]]]`, `{"a":{"b":{"c":{}}}}`, `1e999`, `"Infinity"`,
		`{"sString":"x","sFloat":"NaN","sDouble":-0}`, `{"optBool":true,"optInt32":0,"optString":""}`, `{"fooBar":"x","foo_bar":"y"}`, `{"B":"x"}`, `{"name":"f.proto","messageType":[{"name":"M","field":[{"name":"f","number":1,"type":"TYPE_INT32","label":1,"options":{"packed":true}}]}],"options":{"goPackage":"p"}}`,
		"{ \"optInt32\" :\t1 ,\r\n\"optString\" : \"x\" }", "{\"optInt32\":1}\x00", "{\"opt\\u0049nt32\":1}",
	}
	hostile = append(hostile, strings.Repeat(`{"optNested":`, 200)+`{}`+strings.Repeat(`}`, 200), strings.Repeat(`[`, 300)+strings.Repeat(`]`, 300),
		strings.Repeat(`{"a":`, 150)+`null`+strings.Repeat(`}`, 150), `{"optAny":`+strings.Repeat(`{"@type":"x/google.protobuf.Any","value":`, 4)+`{}`+strings.Repeat(`}`, 4)+`}`,
		`{"optInt32":`+strings.Repeat("0", 400)+`1e-400}`, `{"optDouble":1`+strings.Repeat("0", 900)+`e-900}`)
	for i, ty := range fuzzTypes {
		for k, h := range hostile {
			if (i+k)%5 == 0 || (strings.HasPrefix(ty, "pb2.") || strings.HasSuffix(ty, "KnownTypes")) && k%2 == 0 {
				out = append(out, fzCase{Type: ty, Dynamic: (i+k)%3 == 0, Opts: (i*11 + k*7) & 63, Indent: fuzzIndents[k%len(fuzzIndents)], JSON: []byte(h)})
			}
		}
	}
	return out
}

func fuzzSafe[C any](check func(C) error, c C) (err error) {
	defer func() {
		if r := recover(); r != nil {
			err = fmt.Errorf("PANIC: %v\n%s", r, debug.Stack())
		}
	}()
	return check(c)
}

// TestFuzzSeeds registers the fuzz check for replay and runs the seed corpus in every tier.
func TestFuzzSeeds(t *testing.T) {
	pbt.Enumerate(t, "fuzz-json", "native fuzz target FuzzJSON (thorough tier): fuzzer-chosen JSON bytes parsed into one of "+fmt.Sprint(len(fuzzTypes))+" corpus types (generated or dynamicpb); the snapshot of every accepted message goes through the json-roundtrip check under one of the 64 option combinations; this sub-check replays the seed corpus (documents of generated messages + hostile documents)", false,
		func(yield func(fzCase, bool) bool) {
			for _, c := range fuzzSeeds() {
				if !yield(c, len(c.JSON) > 16) {
					return
				}
			}
		}, checkFuzzJSON)
}

func FuzzJSON(f *testing.F) {
	repo := os.Getenv("VERIF_REPO")
	if repo == "" {
		repo = "/repo"
	}
	index := map[string]int{}
	for i, n := range fuzzTypes {
		index[n] = i
	}
	indentIndex := map[string]int{}
	for i, s := range fuzzIndents {
		indentIndex[s] = i
	}
	for _, c := range fuzzSeeds() {
		fl := uint8(indentIndex[c.Indent])
		if c.Dynamic {
			fl |= 8
		}
		f.Add(c.JSON, uint8(index[c.Type]), uint8(c.Opts), fl)
	}
	files, _ := filepath.Glob(filepath.Join(repo, "internal/fuzz/jsonfuzz/corpus/*"))
	for _, p := range files {
		if b, err := os.ReadFile(p); err == nil && len(b) < 1<<12 {
			f.Add(b, uint8(index["goproto.proto.fuzz.Fuzz"]), uint8(0), uint8(0))
		}
	}
	f.Fuzz(func(t *testing.T, doc []byte, ti uint8, opts uint8, flags uint8) {
		if len(doc) > 1<<13 {
			return
		}
		c := fzCase{Type: fuzzTypes[int(ti)%len(fuzzTypes)], Dynamic: flags&8 != 0, Opts: int(opts & 63), Indent: fuzzIndents[int(flags&7)%len(fuzzIndents)], JSON: doc}
		if err := fuzzSafe(checkFuzzJSON, c); err != nil {
			reportOnce("fuzz-json", c, err)
			t.Fatal(err)
		}
	})
}

// reportOnce writes the replay file of a failing input; while the fuzzing engine minimises it, the
// check fails again and again with smaller inputs: only the latest replay file of this process is kept.
var lastReplay string

func reportOnce(test string, c any, err error) {
	n := len(pbt.S.Violation)
	pbt.ReportViolation(nil, test, c, err)
	if len(pbt.S.Violation) > n {
		cur := pbt.S.Violation[len(pbt.S.Violation)-1]
		if lastReplay != "" && lastReplay != cur {
			os.Remove(lastReplay)
		}
		lastReplay = cur
	}
}
