package c20

import (
	"testing"

	"google.golang.org/protobuf/encoding/protojson"
	"google.golang.org/protobuf/reflect/protoreflect"
	"google.golang.org/protobuf/zverif/gen"
	"google.golang.org/protobuf/zverif/mcase"
	"google.golang.org/protobuf/zverif/model"
	"google.golang.org/protobuf/zverif/pbt"
)

// KF-json-emitunpopulated-null-readback: with EmitUnpopulated an unset singular field of type
// google.protobuf.Value, or of enum type google.protobuf.NullValue with presence, is written as
// null; Unmarshal gives null a meaning for exactly these two types (Value{null_value} /
// NULL_VALUE), so the field comes back populated.
const kfNullReadback = "KF-json-emitunpopulated-null-readback"

func nullMeaningful(fd protoreflect.FieldDescriptor) bool {
	if fd.IsList() || fd.IsMap() || fd.ContainingOneof() != nil || !fd.HasPresence() {
		return false
	}
	if md := fd.Message(); md != nil {
		return md.FullName() == "google.protobuf.Value"
	}
	return fd.Enum() != nil && fd.Enum().FullName() == "google.protobuf.NullValue"
}

// nullReadback counts the unset fields of that kind in the tree, outside and inside Any payloads.
func nullReadback(md protoreflect.MessageDescriptor, m *model.Msg, inAny bool, outside, inside *int) {
	if m == nil {
		m = &model.Msg{}
	}
	if md.FullName() == "google.protobuf.Any" {
		if emd, emb, ok := gen.DecodeAny(m); ok {
			nullReadback(emd, emb, true, outside, inside)
		}
		return
	}
	if specialJSON(md.FullName()) {
		return
	}
	fs := md.Fields()
	for i := 0; i < fs.Len(); i++ {
		if fd := fs.Get(i); nullMeaningful(fd) && m.Get(int32(fd.Number())) == nil {
			if inAny {
				*inside++
			} else {
				*outside++
			}
		}
	}
	for _, f := range m.Fields {
		fd := model.FieldDesc(md, f.Num, nil)
		if fd == nil {
			continue
		}
		sub := fd.Message()
		if fd.IsMap() {
			sub = fd.MapValue().Message()
		}
		if sub != nil {
			for _, v := range f.Vals {
				nullReadback(sub, v.M, inAny, outside, inside)
			}
		}
	}
}

// maskNullReadback removes from got (a snapshot of the decoded message) exactly the fields the
// finding describes: unset in orig, null-meaningful, and read back holding nothing but null.
func maskNullReadback(md protoreflect.MessageDescriptor, orig, got *model.Msg) {
	if orig == nil {
		orig = &model.Msg{}
	}
	if got == nil || specialJSON(md.FullName()) {
		return
	}
	fs := md.Fields()
	for i := 0; i < fs.Len(); i++ {
		fd := fs.Get(i)
		num := int32(fd.Number())
		if !nullMeaningful(fd) || orig.Get(num) != nil {
			continue
		}
		g := got.Get(num)
		if g == nil || len(g.Vals) != 1 {
			continue
		}
		if fd.Message() != nil {
			v := g.Vals[0].M
			if v == nil || len(v.Fields) != 1 || v.Fields[0].Num != 1 || v.Fields[0].Vals[0].U != 0 {
				continue
			}
		} else if g.Vals[0].U != 0 {
			continue
		}
		got.Del(num)
	}
	for _, f := range orig.Fields {
		fd := model.FieldDesc(md, f.Num, nil)
		g := got.Get(f.Num)
		if fd == nil || g == nil || len(g.Vals) != len(f.Vals) {
			continue
		}
		sub := fd.Message()
		if fd.IsMap() {
			sub = fd.MapValue().Message()
		}
		if sub == nil {
			continue
		}
		if fd.IsMap() { // entries of both sides in key order
			cf := model.Canon(md, &model.Msg{Fields: []model.Field{f}}, nil).Fields[0]
			for j := range cf.Vals {
				maskNullReadback(sub, cf.Vals[j].M, g.Vals[j].M)
			}
			continue
		}
		for j := range f.Vals {
			maskNullReadback(sub, f.Vals[j].M, g.Vals[j].M)
		}
	}
}

func TestKnownFindings(t *testing.T) {
	// witness: empty pb2.KnownTypes, EmitUnpopulated
	m := mcase.New("pb2.KnownTypes", false)
	b, err := protojson.MarshalOptions{EmitUnpopulated: true}.Marshal(m.Interface())
	repro := false
	if err == nil {
		m2 := mcase.New("pb2.KnownTypes", false)
		if protojson.Unmarshal(b, m2.Interface()) == nil {
			repro = len(model.Snapshot(m2).Fields) != 0
		}
	}
	pbt.Witness(t, kfNullReadback, repro, "protojson.Unmarshal(MarshalOptions{EmitUnpopulated:true}.Marshal(&pb2.KnownTypes{})) has opt_value / opt_null populated")
}
