package descsnap

import (
	"bytes"
	"compress/gzip"
	"io"
	"reflect"
	"sort"

	"google.golang.org/protobuf/internal/flags"
	"google.golang.org/protobuf/reflect/protoreflect"
	"google.golang.org/protobuf/reflect/protoregistry"
)

// LinkedFiles returns every file registered in protoregistry.GlobalFiles, sorted by path (the
// caller links the corpus by importing google.golang.org/protobuf/zverif/corpus).
func LinkedFiles() []protoreflect.FileDescriptor {
	var out []protoreflect.FileDescriptor
	protoregistry.GlobalFiles.RangeFiles(func(fd protoreflect.FileDescriptor) bool {
		out = append(out, fd)
		return true
	})
	sort.Slice(out, func(i, j int) bool { return out[i].Path() < out[j].Path() })
	return out
}

// OutOfDomain explains why a linked file cannot be rebuilt with protodesc.NewFile in this build
// ("" when it can): it declares a MessageSet message and the binary is built without
// -tags protolegacy (NewFile rejects those by design), or one of its imports is not registered.
func OutOfDomain(fd protoreflect.FileDescriptor) string {
	imps := fd.Imports()
	for i := 0; i < imps.Len(); i++ {
		if imps.Get(i).IsPlaceholder() {
			return "import " + imps.Get(i).Path() + " is not registered"
		}
		if _, err := protoregistry.GlobalFiles.FindFileByPath(imps.Get(i).Path()); err != nil {
			return "import " + imps.Get(i).Path() + " is not registered"
		}
	}
	if !flags.ProtoLegacy && DeclaresMessageSet(fd) {
		return "declares a MessageSet message (needs -tags protolegacy)"
	}
	return ""
}

// DeclaresMessageSet reports whether some message of the file uses the MessageSet wire format.
func DeclaresMessageSet(fd protoreflect.FileDescriptor) bool {
	var has func(ms protoreflect.MessageDescriptors) bool
	has = func(ms protoreflect.MessageDescriptors) bool {
		for i := 0; i < ms.Len(); i++ {
			m := ms.Get(i)
			if x, ok := m.(interface{ IsMessageSet() bool }); ok && x.IsMessageSet() {
				return true
			}
			if has(m.Messages()) {
				return true
			}
		}
		return false
	}
	return has(fd.Messages())
}

// LegacyLegOnly reports whether the running binary is the protolegacy leg of a check; that leg
// only adds the files the default build cannot accept (MessageSet-declaring files).
func LegacyLegOnly() bool { return flags.ProtoLegacy }

// EmbeddedRaw returns the raw descriptor bytes that the generated package of fd embeds, when
// some message type of the file still has the legacy `Descriptor() ([]byte, []int)` method
// (open-API generated code); nil otherwise. These are the exact bytes filedesc.Builder was given.
func EmbeddedRaw(fd protoreflect.FileDescriptor) []byte {
	var raw []byte
	protoregistry.GlobalTypes.RangeMessages(func(mt protoreflect.MessageType) bool {
		if mt.Descriptor().ParentFile() != fd {
			return true
		}
		m := reflect.ValueOf(mt.Zero().Interface()).MethodByName("Descriptor")
		if !m.IsValid() || m.Type().NumIn() != 0 || m.Type().NumOut() != 2 {
			return true
		}
		out := m.Call(nil)
		zb, ok := out[0].Interface().([]byte)
		if !ok {
			return true
		}
		zr, err := gzip.NewReader(bytes.NewReader(zb))
		if err != nil {
			return true
		}
		b, err := io.ReadAll(zr)
		if err != nil {
			return true
		}
		raw = b
		return false
	})
	return raw
}
