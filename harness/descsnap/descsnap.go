// Package descsnap takes a full accessor snapshot of a protoreflect.FileDescriptor: for every
// declaration reachable from the file it calls every accessor of the protoreflect descriptor
// interfaces (plus the pseudo-internal ones the runtime itself consults through interface
// assertions: Edition, OptionImports, IsMessageSet, Visibility, IsLazy, EnforceUTF8) and records
// the answers as "key = value" entries. Two descriptors built in different ways from the same
// schema must have equal snapshots (C34, C37; C36 / C38 / C41 reuse the walk).
//
//	s := descsnap.Of(fd, descsnap.Opts{})         // map-like, order independent
//	if d := descsnap.Diff(a, b); d != "" { … }    // first differing entries, human readable
//
// What is recorded
//
//	file     path, package, name, full name, syntax, edition, placeholder flag, options, imports (path, public
//	         flag, placeholder flag), option imports, lengths of the four declaration lists, source locations
//	message  name, full name, index, parent, parent file, syntax, placeholder, map-entry and MessageSet flags,
//	         visibility, options, reserved names, reserved ranges, extension ranges and their options, required
//	         numbers, list lengths
//	field /  name, full name, index, parent, number, kind, cardinality, HasPresence, HasOptionalKeyword, IsPacked,
//	extension IsExtension, IsWeak, IsLazy, IsList, IsMap, map key / value (reference + kind), JSON name (+ Has),
//	         text name, default (bit exact), default enum value, containing oneof (+ index), containing message,
//	         enum and message references, EnforceUTF8, options
//	oneof    name, full name, index, parent, IsSynthetic, member names, options
//	enum     name, full name, index, parent, IsClosed, visibility, reserved names / ranges, options, value count
//	value    name, full name, index, parent, number, options
//	service / method  name, full name, index, parent, input / output references, streaming flags, options
//
// References to other declarations are recorded as "full.name@file/path.proto" (+ "(placeholder)"),
// never followed, so a snapshot is about one file. Options are recorded as canonical bytes:
// deterministic Marshal, re-parsed with the global type registry and marshalled again, so that an
// option held as a known extension and the same option held as unknown bytes compare equal;
// "nil" when the accessor returns the invalid (nil) options message, so nil and empty differ.
//
// Opts.Reverse visits everything in the opposite order (last declaration first, children before
// their parent, a declaration's accessors last-to-first): for descriptors that initialise lazily
// (filedesc.Builder) this changes which accessor triggers the initialisation and what has been
// read before it ran.
package descsnap

import (
	"fmt"
	"math"
	"sort"
	"strings"

	"google.golang.org/protobuf/proto"
	"google.golang.org/protobuf/reflect/protoreflect"
)

// Opts configures the walk.
type Opts struct {
	Reverse           bool // opposite visiting order (see package doc)
	NoSourceLocations bool // leave SourceLocations out (builders that drop source info by design)
	SizeHint          int  // expected number of entries (see Hint); only an allocation hint
}

// Snap is an accessor snapshot: key -> value.
type Snap map[string]string

type attr struct {
	name string
	fn   func() string
}

type walker struct {
	o   Opts
	out Snap
}

// Of snapshots fd.
func Of(fd protoreflect.FileDescriptor, o Opts) Snap {
	w := &walker{o: o, out: make(Snap, o.SizeHint)}
	w.file(fd)
	return w.out
}

// Diff describes the differences between two snapshots ("" when equal): up to 12 entries, sorted by key.
func Diff(a, b Snap) string {
	var keys []string
	for k, v := range a {
		if bv, ok := b[k]; !ok || bv != v {
			keys = append(keys, k)
		}
	}
	for k := range b {
		if _, ok := a[k]; !ok {
			keys = append(keys, k)
		}
	}
	if len(keys) == 0 {
		return ""
	}
	sort.Strings(keys)
	var sb strings.Builder
	fmt.Fprintf(&sb, "%d accessor answers differ", len(keys))
	for i, k := range keys {
		if i == 12 {
			sb.WriteString("; …")
			break
		}
		av, aok := a[k]
		bv, bok := b[k]
		if !aok {
			av = "<absent>"
		}
		if !bok {
			bv = "<absent>"
		}
		fmt.Fprintf(&sb, "; [%s] %s != %s", k, clip(av), clip(bv))
	}
	return sb.String()
}

// DiffKeys returns the keys whose values differ (or that exist on one side only), sorted.
func DiffKeys(a, b Snap) []string {
	var keys []string
	for k, v := range a {
		if bv, ok := b[k]; !ok || bv != v {
			keys = append(keys, k)
		}
	}
	for k := range b {
		if _, ok := a[k]; !ok {
			keys = append(keys, k)
		}
	}
	sort.Strings(keys)
	return keys
}

func clip(s string) string {
	if len(s) > 160 {
		return s[:160] + "…"
	}
	return s
}

func (w *walker) run(key string, attrs []attr, children []func()) {
	do := func() {
		if w.o.Reverse {
			for i := len(attrs) - 1; i >= 0; i-- {
				w.out[key+"#"+attrs[i].name] = attrs[i].fn()
			}
			return
		}
		for _, a := range attrs {
			w.out[key+"#"+a.name] = a.fn()
		}
	}
	if w.o.Reverse {
		for i := len(children) - 1; i >= 0; i-- {
			children[i]()
		}
		do()
		return
	}
	do()
	for _, c := range children {
		c()
	}
}

// each visits indexes 0..n-1 (or n-1..0).
func (w *walker) each(n int, f func(i int)) {
	if w.o.Reverse {
		for i := n - 1; i >= 0; i-- {
			f(i)
		}
		return
	}
	for i := 0; i < n; i++ {
		f(i)
	}
}

// ---------------------------------------------------------------------------------------------
// value formatting

func ref(d protoreflect.Descriptor) string {
	if d == nil {
		return "<nil>"
	}
	s := string(d.FullName())
	if pf := d.ParentFile(); pf != nil {
		s += "@" + pf.Path()
	} else {
		s += "@<no file>"
	}
	if d.IsPlaceholder() {
		s += "(placeholder)"
	}
	return s
}

// Options renders an options message canonically (see package doc).
func Options(m proto.Message) string {
	if m == nil {
		return "<nil interface>"
	}
	mr := m.ProtoReflect()
	if !mr.IsValid() {
		return "nil"
	}
	b, err := proto.MarshalOptions{Deterministic: true, AllowPartial: true}.Marshal(m)
	if err != nil {
		return "marshal error: " + err.Error()
	}
	fresh := mr.Type().New().Interface()
	if err := (proto.UnmarshalOptions{AllowPartial: true}).Unmarshal(b, fresh); err != nil {
		return "unmarshal error: " + err.Error()
	}
	b2, err := proto.MarshalOptions{Deterministic: true, AllowPartial: true}.Marshal(fresh)
	if err != nil {
		return "marshal error: " + err.Error()
	}
	return fmt.Sprintf("%s{%x}", mr.Descriptor().Name(), b2)
}

func value(v protoreflect.Value, k protoreflect.Kind) string {
	if !v.IsValid() {
		return "<invalid>"
	}
	switch x := v.Interface().(type) {
	case bool:
		return fmt.Sprintf("bool:%v", x)
	case int32:
		return fmt.Sprintf("int32:%d", x)
	case int64:
		return fmt.Sprintf("int64:%d", x)
	case uint32:
		return fmt.Sprintf("uint32:%d", x)
	case uint64:
		return fmt.Sprintf("uint64:%d", x)
	case float32:
		if x != x {
			return "float32:nan"
		}
		return fmt.Sprintf("float32:%#08x", math.Float32bits(x))
	case float64:
		if x != x {
			return "float64:nan"
		}
		return fmt.Sprintf("float64:%#016x", math.Float64bits(x))
	case string:
		return fmt.Sprintf("string:%q", x)
	case []byte:
		return fmt.Sprintf("bytes:%x", x)
	case protoreflect.EnumNumber:
		return fmt.Sprintf("enum:%d", x)
	}
	return fmt.Sprintf("%T:%v", v.Interface(), v.Interface())
}

func names(l protoreflect.Names) string {
	var s []string
	for i := 0; i < l.Len(); i++ {
		s = append(s, string(l.Get(i)))
	}
	return strings.Join(s, ",")
}

func common(d protoreflect.Descriptor) []attr {
	return []attr{
		{"Name", func() string { return string(d.Name()) }},
		{"FullName", func() string { return string(d.FullName()) }},
		{"Index", func() string { return fmt.Sprint(d.Index()) }},
		{"Parent", func() string {
			p := d.Parent()
			if p == nil {
				return "<nil>"
			}
			if f, ok := p.(protoreflect.FileDescriptor); ok {
				return "file:" + f.Path()
			}
			return string(p.FullName())
		}},
		{"ParentFile", func() string {
			if pf := d.ParentFile(); pf != nil {
				return pf.Path()
			}
			return "<nil>"
		}},
		{"Syntax", func() string { return d.Syntax().String() }},
		{"IsPlaceholder", func() string { return fmt.Sprint(d.IsPlaceholder()) }},
		{"Options", func() string { return Options(d.Options()) }},
	}
}

// ---------------------------------------------------------------------------------------------
// declarations

func (w *walker) file(fd protoreflect.FileDescriptor) {
	key := "file " + fd.Path()
	attrs := []attr{
		{"Path", func() string { return fd.Path() }},
		{"Package", func() string { return string(fd.Package()) }},
		{"Name", func() string { return string(fd.Name()) }},
		{"FullName", func() string { return string(fd.FullName()) }},
		{"Syntax", func() string { return fd.Syntax().String() }},
		{"Edition", func() string {
			if x, ok := fd.(interface{ Edition() int32 }); ok {
				if fd.Syntax() != protoreflect.Editions {
					return "n/a (not editions)"
				}
				return fmt.Sprint(x.Edition())
			}
			return "n/a"
		}},
		{"IsPlaceholder", func() string { return fmt.Sprint(fd.IsPlaceholder()) }},
		{"Index", func() string { return fmt.Sprint(fd.Index()) }},
		{"Parent", func() string { return fmt.Sprint(fd.Parent() == nil) }},
		{"ParentFile", func() string { return fd.ParentFile().Path() }},
		{"Options", func() string { return Options(fd.Options()) }},
		{"Imports", func() string {
			imps := fd.Imports()
			var s []string
			for i := 0; i < imps.Len(); i++ {
				imp := imps.Get(i)
				s = append(s, fmt.Sprintf("%s public=%v placeholder=%v", imp.Path(), imp.IsPublic, imp.IsPlaceholder()))
			}
			return strings.Join(s, "; ")
		}},
		{"OptionImports", func() string {
			x, ok := fd.(interface {
				OptionImports() protoreflect.FileImports
			})
			if !ok {
				return "n/a"
			}
			imps := x.OptionImports()
			var s []string
			for i := 0; i < imps.Len(); i++ {
				imp := imps.Get(i)
				s = append(s, fmt.Sprintf("%s placeholder=%v", imp.Path(), imp.IsPlaceholder()))
			}
			return strings.Join(s, "; ")
		}},
		{"Lens", func() string {
			return fmt.Sprintf("enums=%d messages=%d extensions=%d services=%d", fd.Enums().Len(), fd.Messages().Len(), fd.Extensions().Len(), fd.Services().Len())
		}},
	}
	if !w.o.NoSourceLocations {
		attrs = append(attrs, attr{"SourceLocations", func() string {
			locs := fd.SourceLocations()
			var s []string
			for i := 0; i < locs.Len(); i++ {
				l := locs.Get(i)
				s = append(s, fmt.Sprintf("%v %d:%d-%d:%d %q %q %q next=%d", []int32(l.Path), l.StartLine, l.StartColumn, l.EndLine, l.EndColumn, l.LeadingDetachedComments, l.LeadingComments, l.TrailingComments, l.Next))
			}
			return fmt.Sprintf("%d: %s", locs.Len(), strings.Join(s, " | "))
		}})
	}
	children := []func(){
		func() { w.each(fd.Enums().Len(), func(i int) { w.enum(fd.Enums().Get(i)) }) },
		func() { w.each(fd.Messages().Len(), func(i int) { w.message(fd.Messages().Get(i)) }) },
		func() { w.each(fd.Extensions().Len(), func(i int) { w.field("ext", fd.Extensions().Get(i)) }) },
		func() { w.each(fd.Services().Len(), func(i int) { w.service(fd.Services().Get(i)) }) },
	}
	w.run(key, attrs, children)
}

func (w *walker) message(md protoreflect.MessageDescriptor) {
	key := "msg " + string(md.FullName())
	attrs := append(common(md),
		attr{"IsMapEntry", func() string { return fmt.Sprint(md.IsMapEntry()) }},
		attr{"IsMessageSet", func() string {
			if x, ok := md.(interface{ IsMessageSet() bool }); ok {
				return fmt.Sprint(x.IsMessageSet())
			}
			return "n/a"
		}},
		attr{"Visibility", func() string {
			if x, ok := md.(interface{ Visibility() int32 }); ok {
				return fmt.Sprint(x.Visibility())
			}
			return "n/a"
		}},
		attr{"ReservedNames", func() string { return names(md.ReservedNames()) }},
		attr{"ReservedRanges", func() string {
			var s []string
			for i := 0; i < md.ReservedRanges().Len(); i++ {
				r := md.ReservedRanges().Get(i)
				s = append(s, fmt.Sprintf("[%d,%d)", r[0], r[1]))
			}
			return strings.Join(s, "")
		}},
		attr{"ExtensionRanges", func() string {
			var s []string
			for i := 0; i < md.ExtensionRanges().Len(); i++ {
				r := md.ExtensionRanges().Get(i)
				s = append(s, fmt.Sprintf("[%d,%d) %s", r[0], r[1], Options(md.ExtensionRangeOptions(i))))
			}
			return strings.Join(s, "; ")
		}},
		attr{"RequiredNumbers", func() string {
			var s []string
			for i := 0; i < md.RequiredNumbers().Len(); i++ {
				s = append(s, fmt.Sprint(md.RequiredNumbers().Get(i)))
			}
			return strings.Join(s, ",")
		}},
		attr{"Lens", func() string {
			return fmt.Sprintf("fields=%d oneofs=%d enums=%d messages=%d extensions=%d", md.Fields().Len(), md.Oneofs().Len(), md.Enums().Len(), md.Messages().Len(), md.Extensions().Len())
		}},
	)
	children := []func(){
		func() { w.each(md.Fields().Len(), func(i int) { w.field("field", md.Fields().Get(i)) }) },
		func() { w.each(md.Oneofs().Len(), func(i int) { w.oneof(md.Oneofs().Get(i)) }) },
		func() { w.each(md.Enums().Len(), func(i int) { w.enum(md.Enums().Get(i)) }) },
		func() { w.each(md.Messages().Len(), func(i int) { w.message(md.Messages().Get(i)) }) },
		func() { w.each(md.Extensions().Len(), func(i int) { w.field("ext", md.Extensions().Get(i)) }) },
	}
	w.run(key, attrs, children)
}

func (w *walker) field(kind string, fd protoreflect.FieldDescriptor) {
	key := kind + " " + string(fd.FullName())
	attrs := append(common(fd),
		attr{"Number", func() string { return fmt.Sprint(fd.Number()) }},
		attr{"Kind", func() string { return fd.Kind().String() }},
		attr{"Cardinality", func() string { return fd.Cardinality().String() }},
		attr{"HasPresence", func() string { return fmt.Sprint(fd.HasPresence()) }},
		attr{"HasOptionalKeyword", func() string { return fmt.Sprint(fd.HasOptionalKeyword()) }},
		attr{"IsPacked", func() string { return fmt.Sprint(fd.IsPacked()) }},
		attr{"IsExtension", func() string { return fmt.Sprint(fd.IsExtension()) }},
		attr{"IsWeak", func() string { return fmt.Sprint(fd.IsWeak()) }},
		attr{"IsLazy", func() string {
			if x, ok := fd.(interface{ IsLazy() bool }); ok {
				return fmt.Sprint(x.IsLazy())
			}
			return "n/a"
		}},
		attr{"IsList", func() string { return fmt.Sprint(fd.IsList()) }},
		attr{"IsMap", func() string { return fmt.Sprint(fd.IsMap()) }},
		attr{"MapKey", func() string {
			if k := fd.MapKey(); k != nil {
				return ref(k) + " " + k.Kind().String()
			}
			return "<nil>"
		}},
		attr{"MapValue", func() string {
			if v := fd.MapValue(); v != nil {
				s := ref(v) + " " + v.Kind().String()
				if v.Message() != nil {
					s += " " + ref(v.Message())
				}
				if v.Enum() != nil {
					s += " " + ref(v.Enum())
				}
				return s
			}
			return "<nil>"
		}},
		attr{"HasJSONName", func() string { return fmt.Sprint(fd.HasJSONName()) }},
		attr{"JSONName", func() string { return fd.JSONName() }},
		attr{"TextName", func() string { return fd.TextName() }},
		attr{"HasDefault", func() string { return fmt.Sprint(fd.HasDefault()) }},
		attr{"Default", func() string { return value(fd.Default(), fd.Kind()) }},
		attr{"DefaultEnumValue", func() string {
			if ev := fd.DefaultEnumValue(); ev != nil {
				return fmt.Sprintf("%s=%d", ref(ev), ev.Number())
			}
			return "<nil>"
		}},
		attr{"ContainingOneof", func() string {
			if od := fd.ContainingOneof(); od != nil {
				return fmt.Sprintf("%s[%d]", ref(od), od.Index())
			}
			return "<nil>"
		}},
		attr{"ContainingMessage", func() string { return ref(fd.ContainingMessage()) }},
		attr{"Enum", func() string { return ref(enumRef(fd)) }},
		attr{"Message", func() string { return ref(msgRef(fd)) }},
		attr{"EnforceUTF8", func() string {
			if x, ok := fd.(interface{ EnforceUTF8() bool }); ok {
				return fmt.Sprint(x.EnforceUTF8())
			}
			return "n/a"
		}},
	)
	w.run(key, attrs, nil)
}

func enumRef(fd protoreflect.FieldDescriptor) protoreflect.Descriptor {
	if e := fd.Enum(); e != nil {
		return e
	}
	return nil
}

func msgRef(fd protoreflect.FieldDescriptor) protoreflect.Descriptor {
	if m := fd.Message(); m != nil {
		return m
	}
	return nil
}

func (w *walker) oneof(od protoreflect.OneofDescriptor) {
	key := "oneof " + string(od.FullName())
	attrs := append(common(od),
		attr{"IsSynthetic", func() string { return fmt.Sprint(od.IsSynthetic()) }},
		attr{"Fields", func() string {
			var s []string
			for i := 0; i < od.Fields().Len(); i++ {
				s = append(s, fmt.Sprintf("%s=%d", od.Fields().Get(i).Name(), od.Fields().Get(i).Number()))
			}
			return strings.Join(s, ",")
		}},
	)
	w.run(key, attrs, nil)
}

func (w *walker) enum(ed protoreflect.EnumDescriptor) {
	key := "enum " + string(ed.FullName())
	attrs := append(common(ed),
		attr{"IsClosed", func() string { return fmt.Sprint(ed.IsClosed()) }},
		attr{"Visibility", func() string {
			if x, ok := ed.(interface{ Visibility() int32 }); ok {
				return fmt.Sprint(x.Visibility())
			}
			return "n/a"
		}},
		attr{"ReservedNames", func() string { return names(ed.ReservedNames()) }},
		attr{"ReservedRanges", func() string {
			var s []string
			for i := 0; i < ed.ReservedRanges().Len(); i++ {
				r := ed.ReservedRanges().Get(i)
				s = append(s, fmt.Sprintf("[%d,%d]", r[0], r[1]))
			}
			return strings.Join(s, "")
		}},
		attr{"Values", func() string { return fmt.Sprint(ed.Values().Len()) }},
	)
	children := []func(){
		func() {
			w.each(ed.Values().Len(), func(i int) {
				v := ed.Values().Get(i)
				// aliases and scoping make value full names unique per scope, the index keeps keys unique per enum
				vkey := fmt.Sprintf("value %s[%d] %s", ed.FullName(), i, v.Name())
				w.run(vkey, append(common(v), attr{"Number", func() string { return fmt.Sprint(v.Number()) }}), nil)
			})
		},
	}
	w.run(key, attrs, children)
}

func (w *walker) service(sd protoreflect.ServiceDescriptor) {
	key := "service " + string(sd.FullName())
	attrs := append(common(sd), attr{"Methods", func() string { return fmt.Sprint(sd.Methods().Len()) }})
	children := []func(){
		func() {
			w.each(sd.Methods().Len(), func(i int) {
				m := sd.Methods().Get(i)
				w.run("method "+string(m.FullName()), append(common(m),
					attr{"Input", func() string { return ref(m.Input()) }},
					attr{"Output", func() string { return ref(m.Output()) }},
					attr{"IsStreamingClient", func() string { return fmt.Sprint(m.IsStreamingClient()) }},
					attr{"IsStreamingServer", func() string { return fmt.Sprint(m.IsStreamingServer()) }},
				), nil)
			})
		},
	}
	w.run(key, attrs, children)
}
