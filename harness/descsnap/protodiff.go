package descsnap

import (
	"bytes"
	"fmt"

	"google.golang.org/protobuf/proto"
	"google.golang.org/protobuf/reflect/protoreflect"
)

// ProtoDiff locates the first difference between two messages of the same type ("" when
// proto.Equal): a path such as message_type[1].field[0].default_value with both values.
func ProtoDiff(a, b proto.Message) string {
	if proto.Equal(a, b) {
		return ""
	}
	if d := diffMsg(a.ProtoReflect(), b.ProtoReflect(), ""); d != "" {
		return d
	}
	return "messages differ (proto.Equal is false) but no differing field was located"
}

func diffMsg(a, b protoreflect.Message, path string) string {
	if a.IsValid() != b.IsValid() {
		return fmt.Sprintf("%s: nil-ness differs: present=%v vs present=%v", path, a.IsValid(), b.IsValid())
	}
	fds := a.Descriptor().Fields()
	var ext []protoreflect.FieldDescriptor
	for _, m := range []protoreflect.Message{a, b} {
		m.Range(func(fd protoreflect.FieldDescriptor, _ protoreflect.Value) bool {
			if fd.IsExtension() {
				ext = append(ext, fd)
			}
			return true
		})
	}
	all := make([]protoreflect.FieldDescriptor, 0, fds.Len()+len(ext))
	for i := 0; i < fds.Len(); i++ {
		all = append(all, fds.Get(i))
	}
	all = append(all, ext...)
	for _, fd := range all {
		p := path + "." + string(fd.Name())
		if fd.IsExtension() {
			p = path + ".[" + string(fd.FullName()) + "]"
		}
		if path == "" {
			p = p[1:]
		}
		ha, hb := a.Has(fd), b.Has(fd)
		if ha != hb {
			return fmt.Sprintf("%s: set=%v (%s) vs set=%v (%s)", p, ha, show(a, fd), hb, show(b, fd))
		}
		if !ha {
			continue
		}
		va, vb := a.Get(fd), b.Get(fd)
		switch {
		case fd.IsList():
			la, lb := va.List(), vb.List()
			if la.Len() != lb.Len() {
				return fmt.Sprintf("%s: %d elements vs %d", p, la.Len(), lb.Len())
			}
			for i := 0; i < la.Len(); i++ {
				if d := diffVal(fd, la.Get(i), lb.Get(i), fmt.Sprintf("%s[%d]", p, i)); d != "" {
					return d
				}
			}
		case fd.IsMap():
			if !proto.Equal(a.Interface(), b.Interface()) && va.Map().Len() != vb.Map().Len() {
				return fmt.Sprintf("%s: map sizes differ", p)
			}
		default:
			if d := diffVal(fd, va, vb, p); d != "" {
				return d
			}
		}
	}
	if !bytes.Equal(a.GetUnknown(), b.GetUnknown()) {
		return fmt.Sprintf("%s: unknown fields %x vs %x", path, a.GetUnknown(), b.GetUnknown())
	}
	return ""
}

func show(m protoreflect.Message, fd protoreflect.FieldDescriptor) string {
	if !m.Has(fd) {
		return "unset"
	}
	s := m.Get(fd).String()
	if len(s) > 120 {
		s = s[:120] + "…"
	}
	return s
}

func diffVal(fd protoreflect.FieldDescriptor, a, b protoreflect.Value, path string) string {
	if fd.Message() != nil {
		return diffMsg(a.Message(), b.Message(), path)
	}
	if fd.Kind() == protoreflect.BytesKind {
		if !bytes.Equal(a.Bytes(), b.Bytes()) {
			return fmt.Sprintf("%s: %x vs %x", path, a.Bytes(), b.Bytes())
		}
		return ""
	}
	if !a.Equal(b) {
		return fmt.Sprintf("%s: %q vs %q", path, fmt.Sprint(a.Interface()), fmt.Sprint(b.Interface()))
	}
	return ""
}
