package descsnap

import (
	"fmt"

	"google.golang.org/protobuf/types/descriptorpb"
)

// Expected is one accessor answer on which filedesc.Builder and protodesc.NewFile are known to
// disagree for a given descriptor proto (a registered finding), with both answers.
type Expected struct {
	Key       string
	Builder   string
	Protodesc string
}

// EnumFeatureDisagreements lists the IsClosed answers affected by the finding
// "filedesc.Builder ignores features set in EnumOptions": editions enums whose own options set
// features.enum_type to something else than the file resolves. protodesc applies the override,
// the builder keeps the file's value.
func EnumFeatureDisagreements(p *descriptorpb.FileDescriptorProto) []Expected {
	if p.GetSyntax() != "editions" {
		return nil
	}
	fileClosed := false // editions 2023 and 2024 default to OPEN
	if fs := p.GetOptions().GetFeatures(); fs != nil && fs.EnumType != nil {
		fileClosed = fs.GetEnumType() == descriptorpb.FeatureSet_CLOSED
	}
	var out []Expected
	var enums func(prefix string, es []*descriptorpb.EnumDescriptorProto)
	enums = func(prefix string, es []*descriptorpb.EnumDescriptorProto) {
		for _, e := range es {
			fs := e.GetOptions().GetFeatures()
			if fs == nil || fs.EnumType == nil {
				continue
			}
			own := fs.GetEnumType() == descriptorpb.FeatureSet_CLOSED
			if own != fileClosed {
				out = append(out, Expected{Key: "enum " + join(prefix, e.GetName()) + "#IsClosed", Builder: fmt.Sprint(fileClosed), Protodesc: fmt.Sprint(own)})
			}
		}
	}
	var msgs func(prefix string, ms []*descriptorpb.DescriptorProto)
	msgs = func(prefix string, ms []*descriptorpb.DescriptorProto) {
		for _, m := range ms {
			full := join(prefix, m.GetName())
			enums(full, m.EnumType)
			msgs(full, m.NestedType)
		}
	}
	enums(p.GetPackage(), p.EnumType)
	msgs(p.GetPackage(), p.MessageType)
	return out
}

// ExtensionLazyDisagreements lists the IsLazy answers affected by the finding "protodesc.NewFile
// does not record [lazy = true] of extension fields": the builder answers true, protodesc false.
func ExtensionLazyDisagreements(p *descriptorpb.FileDescriptorProto) []Expected {
	var out []Expected
	exts := func(prefix string, xs []*descriptorpb.FieldDescriptorProto) {
		for _, x := range xs {
			if x.GetOptions().GetLazy() {
				out = append(out, Expected{Key: "ext " + join(prefix, x.GetName()) + "#IsLazy", Builder: "true", Protodesc: "false"})
			}
		}
	}
	var msgs func(prefix string, ms []*descriptorpb.DescriptorProto)
	msgs = func(prefix string, ms []*descriptorpb.DescriptorProto) {
		for _, m := range ms {
			full := join(prefix, m.GetName())
			exts(full, m.Extension)
			msgs(full, m.NestedType)
		}
	}
	exts(p.GetPackage(), p.Extension)
	msgs(p.GetPackage(), p.MessageType)
	return out
}

func join(prefix, name string) string {
	if prefix == "" {
		return name
	}
	return prefix + "." + name
}

// Without returns the differing keys of (builder, protodesc) that are NOT explained by exp, and
// how many were explained (key present in the difference with exactly the expected two answers).
func Without(builder, protodesc Snap, exp []Expected) (rest []string, explained int) {
	want := map[string]Expected{}
	for _, e := range exp {
		want[e.Key] = e
	}
	for _, k := range DiffKeys(builder, protodesc) {
		if e, ok := want[k]; ok && builder[k] == e.Builder && protodesc[k] == e.Protodesc {
			explained++
			continue
		}
		rest = append(rest, k)
	}
	return rest, explained
}

// Describe renders the given differing keys of two snapshots.
func Describe(a, b Snap, keys []string) string {
	s := fmt.Sprintf("%d accessor answers differ", len(keys))
	for i, k := range keys {
		if i == 12 {
			s += "; …"
			break
		}
		av, aok := a[k]
		bv, bok := b[k]
		if !aok {
			av = "<absent>"
		}
		if !bok {
			bv = "<absent>"
		}
		s += fmt.Sprintf("; [%s] %s != %s", k, clip(av), clip(bv))
	}
	return s
}

// Hint estimates the number of snapshot entries of the file described by p (allocation hint for Opts.SizeHint).
func Hint(p *descriptorpb.FileDescriptorProto) int {
	n := 20
	var enums func(es []*descriptorpb.EnumDescriptorProto)
	enums = func(es []*descriptorpb.EnumDescriptorProto) {
		for _, e := range es {
			n += 13 + 9*len(e.Value)
		}
	}
	var msgs func(ms []*descriptorpb.DescriptorProto)
	msgs = func(ms []*descriptorpb.DescriptorProto) {
		for _, m := range ms {
			n += 16 + 35*(len(m.Field)+len(m.Extension)) + 10*len(m.OneofDecl)
			enums(m.EnumType)
			msgs(m.NestedType)
		}
	}
	msgs(p.MessageType)
	enums(p.EnumType)
	n += 35 * len(p.Extension)
	for _, s := range p.Service {
		n += 9 + 12*len(s.Method)
	}
	return n
}
