package jdoc

import (
	"encoding/base64"
	"fmt"
	"math"
	"sort"
	"strconv"
	"strings"
	"sync"
	"unicode/utf8"

	"google.golang.org/protobuf/reflect/protoreflect"
	"google.golang.org/protobuf/reflect/protoregistry"
	"google.golang.org/protobuf/zverif/gen"
	"pgregory.net/rapid"
)

// Node is a generated JSON document: scalars carry their exact token text.
type Node struct {
	K     byte   // 's' scalar, 'a' array, 'o' object
	Tok   string // scalar token text (strings include their quotes)
	Class byte   // scalar class: 'n' number, 'q' string, 'l' literal
	Elems []*Node
	Mem   []Mem
}

// Mem is one object member. Key is the raw token text (with quotes).
type Mem struct {
	Key      string
	Val      *Node
	Injected bool // member added by the duplicate-field operator
}

// Tok is one lexical token of a rendered document.
type Tok struct {
	Text  string
	Class byte // 'n' number, 'q' string value, 'k' member name, 'l' literal, 'p' punctuation
	Inj   bool
}

func scalar(class byte, tok string) *Node { return &Node{K: 's', Class: class, Tok: tok} }

// Render flattens the tree into tokens; members flagged Injected are left out unless withInjected.
func Render(n *Node, withInjected bool) []Tok {
	var out []Tok
	var rec func(n *Node, inj bool)
	rec = func(n *Node, inj bool) {
		switch n.K {
		case 's':
			out = append(out, Tok{n.Tok, n.Class, inj})
		case 'a':
			out = append(out, Tok{"[", 'p', inj})
			for i, e := range n.Elems {
				if i > 0 {
					out = append(out, Tok{",", 'p', inj})
				}
				rec(e, inj)
			}
			out = append(out, Tok{"]", 'p', inj})
		case 'o':
			out = append(out, Tok{"{", 'p', inj})
			first := true
			for _, m := range n.Mem {
				if m.Injected && !withInjected {
					continue
				}
				mi := inj || m.Injected
				if !first {
					out = append(out, Tok{",", 'p', mi})
				}
				first = false
				out = append(out, Tok{m.Key, 'k', mi}, Tok{":", 'p', mi})
				rec(m.Val, mi)
			}
			out = append(out, Tok{"}", 'p', inj})
		}
	}
	rec(n, false)
	return out
}

var wsPool = []string{"", "", "", "", "", " ", " ", "\n", "\t", "\r\n", "  ", " \n\t"}

// Join concatenates tokens with insignificant whitespace drawn per gap (style 0: none at all).
func Join(t *rapid.T, toks []Tok) []byte {
	style := rapid.IntRange(0, 2).Draw(t, "wsstyle")
	var b []byte
	if style == 2 {
		b = append(b, rapid.SampledFrom(wsPool).Draw(t, "ws")...)
	}
	for _, k := range toks {
		b = append(b, k.Text...)
		switch style {
		case 1:
			b = append(b, ' ')
		case 2:
			b = append(b, rapid.SampledFrom(wsPool).Draw(t, "ws")...)
		}
	}
	return b
}

// Injection describes what the duplicate operator did.
type Injection struct {
	Kind    string // "singular" | "oneof"
	Message string
	Field   string
	Number  int32
	Names   string // e.g. "json+proto"
	Level   int    // message nesting level of the node (1 = top)
	Via     string // how the node is reached: top / field / list / map / any
}

// Gen draws JSON documents for message descriptors.
type Gen struct {
	T         *rapid.T
	Unknown   bool // add members no field matches (for DiscardUnknown runs)
	Depth     int  // nesting budget for message values
	MaxFields int

	// duplicate operator: inject at the InjectAt-th plain message node that offers a candidate
	InjectAt    int // -1: never
	InjectOneof bool
	Injected    *Injection

	Labels map[string]bool
	seenMsg int
}

func NewGen(t *rapid.T) *Gen {
	return &Gen{T: t, Depth: 3, MaxFields: 5, InjectAt: -1, Labels: map[string]bool{}}
}

func (g *Gen) n(lo, hi int, label string) int { return rapid.IntRange(lo, hi).Draw(g.T, label) }
func (g *Gen) label(s string)                 { g.Labels[s] = true }

// LabelList returns the sorted labels.
func (g *Gen) LabelList() []string {
	out := make([]string, 0, len(g.Labels))
	for k := range g.Labels {
		out = append(out, k)
	}
	sort.Strings(out)
	return out
}

// ---------------------------------------------------------------------------------------------
// strings

const hexLower, hexUpper = "0123456789abcdef", "0123456789ABCDEF"

func u4(r rune, upper bool) string {
	h := hexLower
	if upper {
		h = hexUpper
	}
	return string([]byte{'\\', 'u', h[r>>12&15], h[r>>8&15], h[r>>4&15], h[r&15]})
}

func escRune(r rune, upper bool) string {
	if r > 0xffff {
		r -= 0x10000
		return u4(0xd800+(r>>10), upper) + u4(0xdc00+(r&0x3ff), upper)
	}
	return u4(r, upper)
}

var shortEsc = map[rune]string{'"': `\"`, '\\': `\\`, '\b': `\b`, '\f': `\f`, '\n': `\n`, '\r': `\r`, '\t': `\t`}

// Quote writes s (valid UTF-8) as a JSON string token, varying the escape style.
func (g *Gen) Quote(s string) string {
	mode := g.n(0, 3, "escmode") // 0 minimal, 1 \u for must-escape, 2 \u for all non-ASCII, 3 per-rune
	if len(s) > 40 && mode == 3 {
		mode = 2
	}
	var b strings.Builder
	b.WriteByte('"')
	for _, r := range s {
		must := r < 0x20 || r == '"' || r == '\\'
		switch {
		case must:
			if se, ok := shortEsc[r]; ok && mode != 1 {
				b.WriteString(se)
			} else {
				b.WriteString(escRune(r, mode == 1))
			}
			g.label("esc")
		case r == '/' && mode >= 2:
			b.WriteString(`\/`)
			g.label("esc")
		case mode == 2 && r >= 0x80:
			b.WriteString(escRune(r, false))
			g.label("esc")
		case mode == 3 && g.n(0, 3, "escrune") == 0:
			b.WriteString(escRune(r, g.n(0, 1, "upper") == 1))
			g.label("esc")
		default:
			b.WriteRune(r)
		}
	}
	b.WriteByte('"')
	return b.String()
}

func (g *Gen) str() string { return gen.ValidString(24).Draw(g.T, "s") }

// ---------------------------------------------------------------------------------------------
// numbers

// IntSpelling writes the integer (-1)^neg * mag in one of the notations JSON offers for it.
func (g *Gen) IntSpelling(neg bool, mag uint64) string {
	d := strconv.FormatUint(mag, 10)
	e := "e"
	if g.n(0, 1, "E") == 1 {
		e = "E"
	}
	s := d
	quoted := false
	switch g.n(0, 11, "intform") {
	case 0, 1, 2, 3, 4:
	case 5:
		quoted = true
	case 6:
		s = d + "." + strings.Repeat("0", g.n(1, 3, "z"))
		g.label("num-frac")
	case 7:
		if len(d) > 1 {
			k := g.n(1, len(d)-1, "shift")
			s = d[:len(d)-k] + "." + d[len(d)-k:] + e + []string{"", "+"}[g.n(0, 1, "plus")] + strconv.Itoa(k)
			g.label("num-frac")
			g.label("num-exp")
		}
	case 8:
		k := g.n(1, 4, "pad")
		s = d + strings.Repeat("0", k) + e + "-" + strconv.Itoa(k)
		g.label("num-exp")
	case 9:
		s = d + e + []string{"0", "+0", "-0", "00"}[g.n(0, 3, "e0")]
		g.label("num-exp")
	case 10:
		quoted = true
		s = d + ".0" + e + "0"
		g.label("num-exp")
	case 11:
		// trailing zeros moved into the exponent
		z := len(d) - len(strings.TrimRight(d, "0"))
		if z > 0 && z < len(d) {
			s = d[:len(d)-z] + e + strconv.Itoa(z)
			g.label("num-exp")
		}
	}
	if neg {
		s = "-" + s
	}
	if quoted {
		g.label("num-quoted")
		return `"` + s + `"`
	}
	return s
}

func (g *Gen) intTok(kind protoreflect.Kind) string {
	switch kind {
	case protoreflect.Int32Kind, protoreflect.Sint32Kind, protoreflect.Sfixed32Kind:
		v := int64(gen.Int32().Draw(g.T, "i32"))
		return g.IntSpelling(v < 0, mag(v))
	case protoreflect.Uint32Kind, protoreflect.Fixed32Kind:
		return g.IntSpelling(false, uint64(gen.Uint32().Draw(g.T, "u32")))
	case protoreflect.Int64Kind, protoreflect.Sint64Kind, protoreflect.Sfixed64Kind:
		v := gen.Int64().Draw(g.T, "i64")
		return g.IntSpelling(v < 0, mag(v))
	default:
		return g.IntSpelling(false, gen.Uint64().Draw(g.T, "u64"))
	}
}

func mag(v int64) uint64 {
	if v < 0 {
		return uint64(-(v + 1)) + 1
	}
	return uint64(v)
}

func (g *Gen) floatTok(bits int) string {
	var f float64
	if bits == 32 {
		f = float64(math.Float32frombits(gen.Float32Bits().Draw(g.T, "f32")))
	} else {
		f = math.Float64frombits(gen.Float64Bits().Draw(g.T, "f64"))
	}
	switch {
	case math.IsNaN(f):
		return `"NaN"`
	case math.IsInf(f, 1):
		return `"Infinity"`
	case math.IsInf(f, -1):
		return `"-Infinity"`
	}
	var s string
	switch g.n(0, 4, "floatform") {
	case 0:
		s = strconv.FormatFloat(f, 'g', -1, bits)
	case 1:
		s = strconv.FormatFloat(f, 'e', -1, bits)
	case 2:
		if a := math.Abs(f); a == 0 || (a > 1e-15 && a < 1e18) {
			s = strconv.FormatFloat(f, 'f', -1, bits)
		} else {
			s = strconv.FormatFloat(f, 'E', -1, bits)
		}
	case 3:
		s = strconv.FormatFloat(f, 'G', g.n(1, 17, "prec"), bits)
	default:
		return g.IntSpelling(g.n(0, 1, "neg") == 1, uint64(g.n(0, 1000, "small")))
	}
	if strings.ContainsAny(s, "eE") {
		g.label("num-exp")
	}
	if strings.Contains(s, ".") {
		g.label("num-frac")
	}
	if g.n(0, 5, "fquote") == 0 {
		g.label("num-quoted")
		return `"` + s + `"`
	}
	return s
}

// ---------------------------------------------------------------------------------------------
// arbitrary JSON (Struct / Value / ListValue / unknown members)

var oddNumbers = []string{"0", "-0", "1", "-1", "0.5", "1e2", "1E+2", "1e-2", "1.5e300", "123456789012345678901234567890", "0.000001", "1e308", "-1.7976931348623157e308", "5e-324", "2.5E0", "1e400", "-1e400", "0e0", "0.0", "1.0e+00"}

func (g *Gen) AnyJSON(depth int) *Node {
	hi := 7
	if depth <= 0 {
		hi = 4
	}
	switch g.n(0, hi, "jkind") {
	case 0:
		return scalar('l', "null")
	case 1:
		return scalar('l', []string{"true", "false"}[g.n(0, 1, "b")])
	case 2:
		s := rapid.SampledFrom(oddNumbers).Draw(g.T, "odd")
		if strings.ContainsAny(s, "eE") {
			g.label("num-exp")
		}
		if strings.Contains(s, ".") {
			g.label("num-frac")
		}
		return scalar('n', s)
	case 3:
		return scalar('n', g.floatTok(64))
	case 4:
		return scalar('q', g.Quote(g.str()))
	case 5, 6:
		n := &Node{K: 'a'}
		for i, k := 0, g.n(0, 3, "alen"); i < k; i++ {
			n.Elems = append(n.Elems, g.AnyJSON(depth-1))
		}
		return n
	default:
		return g.anyObject(depth)
	}
}

func (g *Gen) anyObject(depth int) *Node {
	n := &Node{K: 'o'}
	seen := map[string]bool{}
	for i, k := 0, g.n(0, 3, "olen"); i < k; i++ {
		key := g.str()
		if seen[key] {
			continue
		}
		seen[key] = true
		n.Mem = append(n.Mem, Mem{Key: g.Quote(key), Val: g.AnyJSON(depth - 1)})
	}
	return n
}

func (g *Gen) anyArray(depth int) *Node {
	n := &Node{K: 'a'}
	for i, k := 0, g.n(0, 3, "alen"); i < k; i++ {
		n.Elems = append(n.Elems, g.AnyJSON(depth-1))
	}
	return n
}

// ---------------------------------------------------------------------------------------------
// descriptor-directed values

var anyTargets = []string{
	"goproto.proto.test.TestAllTypes", "goproto.proto.test3.TestAllTypes", "goproto.proto.test.TestAllTypes.NestedMessage",
	"google.protobuf.Duration", "google.protobuf.Timestamp", "google.protobuf.Int32Value", "google.protobuf.StringValue",
	"google.protobuf.Struct", "google.protobuf.Value", "google.protobuf.ListValue", "google.protobuf.Empty",
	"google.protobuf.FieldMask", "google.protobuf.Any", "goproto.proto.test.TestAllExtensions",
}

// IsSpecial reports whether the JSON form of md is not the plain object-of-fields mapping.
func IsSpecial(md protoreflect.MessageDescriptor) bool {
	if md.FullName().Parent() != "google.protobuf" {
		return false
	}
	switch md.Name() {
	case "Any", "Timestamp", "Duration", "FieldMask", "Struct", "Value", "ListValue",
		"BoolValue", "Int32Value", "Int64Value", "UInt32Value", "UInt64Value", "FloatValue", "DoubleValue", "StringValue", "BytesValue":
		return true
	}
	return false
}

// Message draws a JSON value for a message of type md. level is the message nesting level.
func (g *Gen) Message(md protoreflect.MessageDescriptor, depth, level int, via string) *Node {
	if IsSpecial(md) {
		return g.special(md, depth, level)
	}
	return g.plain(md, depth, level, via, nil)
}

func (g *Gen) special(md protoreflect.MessageDescriptor, depth, level int) *Node {
	g.label("wkt-" + string(md.Name()))
	switch md.Name() {
	case "Any":
		if depth <= 0 || g.n(0, 5, "emptyany") == 0 {
			return &Node{K: 'o'}
		}
		name := rapid.SampledFrom(anyTargets).Draw(g.T, "anytype")
		mt, err := protoregistry.GlobalTypes.FindMessageByName(protoreflect.FullName(name))
		if err != nil {
			return &Node{K: 'o'}
		}
		url := scalar('q', g.Quote([]string{"type.googleapis.com/", "", "example.com/x/"}[g.n(0, 2, "urlprefix")]+name))
		typ := Mem{Key: `"@type"`, Val: url}
		if IsSpecial(mt.Descriptor()) {
			ms := []Mem{typ, {Key: `"value"`, Val: g.Message(mt.Descriptor(), depth-1, level+1, "any")}}
			if g.n(0, 1, "swap") == 1 {
				ms[0], ms[1] = ms[1], ms[0]
			}
			return &Node{K: 'o', Mem: ms}
		}
		return g.plain(mt.Descriptor(), depth-1, level+1, "any", &typ)
	case "Timestamp":
		s := fmt.Sprintf("%04d-%02d-%02dT%02d:%02d:%02d", g.n(1, 9999, "Y"), g.n(1, 12, "M"), g.n(1, 28, "D"), g.n(0, 23, "h"), g.n(0, 59, "m"), g.n(0, 59, "s"))
		if k := g.n(0, 3, "fracdigits") * 3; k > 0 {
			s += "." + fmt.Sprintf("%0*d", k, g.n(0, 999, "frac"))
		}
		s += []string{"Z", "Z", "+00:00", "-08:00", "+05:30"}[g.n(0, 4, "zone")]
		return scalar('q', g.Quote(s))
	case "Duration":
		s := strconv.FormatInt(gen.Int64().Draw(g.T, "secs")%315576000001, 10)
		if k := g.n(0, 9, "fracdigits"); k > 0 {
			s += "." + fmt.Sprintf("%0*d", k, g.n(0, 9, "frac"))
		}
		return scalar('q', g.Quote(s+"s"))
	case "FieldMask":
		paths := []string{"", "foo", "fooBar", "foo.bar", "fooBar.bazQux,abc", "a,b,c", "f1.f2"}
		return scalar('q', g.Quote(rapid.SampledFrom(paths).Draw(g.T, "mask")))
	case "Struct":
		return g.anyObject(depth)
	case "ListValue":
		return g.anyArray(depth)
	case "Value":
		return g.AnyJSON(depth)
	}
	// wrappers
	return g.scalarValue(md.Fields().ByNumber(1))
}

func (g *Gen) scalarValue(fd protoreflect.FieldDescriptor) *Node {
	switch fd.Kind() {
	case protoreflect.BoolKind:
		return scalar('l', []string{"true", "false"}[g.n(0, 1, "b")])
	case protoreflect.EnumKind:
		if fd.Enum().FullName() == "google.protobuf.NullValue" {
			return scalar('l', "null")
		}
		vals := fd.Enum().Values()
		ev := vals.Get(g.n(0, vals.Len()-1, "enumidx"))
		if g.n(0, 2, "enumnum") == 0 {
			return scalar('n', g.IntSpelling(ev.Number() < 0, mag(int64(ev.Number()))))
		}
		return scalar('q', g.Quote(string(ev.Name())))
	case protoreflect.FloatKind:
		return numOrQuoted(g.floatTok(32))
	case protoreflect.DoubleKind:
		return numOrQuoted(g.floatTok(64))
	case protoreflect.StringKind:
		return scalar('q', g.Quote(g.str()))
	case protoreflect.BytesKind:
		b := gen.Bytes(24).Draw(g.T, "bytes")
		enc := []*base64.Encoding{base64.StdEncoding, base64.RawStdEncoding, base64.URLEncoding, base64.RawURLEncoding}[g.n(0, 3, "b64")]
		return scalar('q', `"`+enc.EncodeToString(b)+`"`)
	default:
		return numOrQuoted(g.intTok(fd.Kind()))
	}
}

func numOrQuoted(tok string) *Node {
	if strings.HasPrefix(tok, `"`) {
		return scalar('q', tok)
	}
	return scalar('n', tok)
}

func (g *Gen) singular(fd protoreflect.FieldDescriptor, depth, level int, via string) *Node {
	if sub := fd.Message(); sub != nil {
		if depth <= 0 && !IsSpecial(sub) {
			return &Node{K: 'o'}
		}
		return g.Message(sub, depth-1, level+1, via)
	}
	return g.scalarValue(fd)
}

func (g *Gen) mapKey(fd protoreflect.FieldDescriptor) string {
	switch fd.Kind() {
	case protoreflect.StringKind:
		return g.str()
	case protoreflect.BoolKind:
		return []string{"true", "false"}[g.n(0, 1, "b")]
	case protoreflect.Int32Kind, protoreflect.Sint32Kind, protoreflect.Sfixed32Kind:
		return strconv.FormatInt(int64(gen.Int32().Draw(g.T, "k")), 10)
	case protoreflect.Uint32Kind, protoreflect.Fixed32Kind:
		return strconv.FormatUint(uint64(gen.Uint32().Draw(g.T, "k")), 10)
	case protoreflect.Int64Kind, protoreflect.Sint64Kind, protoreflect.Sfixed64Kind:
		return strconv.FormatInt(gen.Int64().Draw(g.T, "k"), 10)
	default:
		return strconv.FormatUint(gen.Uint64().Draw(g.T, "k"), 10)
	}
}

// FieldValue draws a non-null JSON value for field fd.
func (g *Gen) FieldValue(fd protoreflect.FieldDescriptor, depth, level int) *Node {
	switch {
	case fd.IsMap():
		g.label("map")
		n := &Node{K: 'o'}
		seen := map[string]bool{}
		for i, k := 0, g.n(0, 3, "maplen"); i < k; i++ {
			key := g.mapKey(fd.MapKey())
			if seen[key] {
				continue
			}
			seen[key] = true
			n.Mem = append(n.Mem, Mem{Key: g.Quote(key), Val: g.singular(fd.MapValue(), depth, level, "map")})
		}
		return n
	case fd.IsList():
		g.label("list")
		n := &Node{K: 'a'}
		for i, k := 0, g.n(0, 3, "listlen"); i < k; i++ {
			n.Elems = append(n.Elems, g.singular(fd, depth, level, "list"))
		}
		return n
	}
	return g.singular(fd, depth, level, "field")
}

var extCache sync.Map

func extensionsOf(md protoreflect.MessageDescriptor) []protoreflect.FieldDescriptor {
	if md.ExtensionRanges().Len() == 0 {
		return nil
	}
	if v, ok := extCache.Load(md.FullName()); ok {
		return v.([]protoreflect.FieldDescriptor)
	}
	var out []protoreflect.FieldDescriptor
	protoregistry.GlobalTypes.RangeExtensionsByMessage(md.FullName(), func(xt protoreflect.ExtensionType) bool {
		out = append(out, xt.TypeDescriptor())
		return true
	})
	sort.Slice(out, func(i, j int) bool { return out[i].Number() < out[j].Number() })
	extCache.Store(md.FullName(), out)
	return out
}

// Names returns the spellings protojson documents for a field: the JSON name and the proto name
// (extensions: the bracketed full name only).
func Names(fd protoreflect.FieldDescriptor) []string {
	if fd.IsExtension() {
		return []string{"[" + string(fd.FullName()) + "]"}
	}
	out := []string{fd.JSONName()}
	if n := fd.TextName(); n != out[0] {
		out = append(out, n)
	}
	// group-like fields: the lower-case field name is accepted next to the type name
	if n := string(fd.Name()); n != out[0] && n != out[len(out)-1] {
		out = append(out, n)
	}
	return out
}

func (g *Gen) name(fd protoreflect.FieldDescriptor) (string, string) {
	ns := Names(fd)
	i := g.n(0, len(ns)-1, "name")
	kind := "json"
	if fd.IsExtension() {
		kind = "ext"
		g.label("ext")
	} else if i >= 1 {
		kind = "proto"
		g.label("proto-name")
	}
	return g.Quote(ns[i]), kind
}

func isRealOneof(fd protoreflect.FieldDescriptor) bool {
	od := fd.ContainingOneof()
	return od != nil && !od.IsSynthetic()
}

func (g *Gen) plain(md protoreflect.MessageDescriptor, depth, level int, via string, extra *Mem) *Node {
	node := &Node{K: 'o'}
	fs := md.Fields()
	var cands, msgs []protoreflect.FieldDescriptor
	for i := 0; i < fs.Len(); i++ {
		cands = append(cands, fs.Get(i))
	}
	cands = append(cands, extensionsOf(md)...)
	for _, fd := range cands {
		if fd.Message() != nil {
			msgs = append(msgs, fd)
		}
	}
	chosen := map[protoreflect.FieldNumber]bool{}
	oneofs := map[protoreflect.FullName]bool{}
	if len(cands) > 0 {
		for i, k := 0, g.n(0, g.MaxFields, "nfields"); i < k; i++ {
			pool := cands
			if len(msgs) > 0 && depth > 0 && g.n(0, 2, "prefermsg") == 0 {
				pool = msgs
			}
			fd := pool[g.n(0, len(pool)-1, "field")]
			if chosen[fd.Number()] {
				continue
			}
			if isRealOneof(fd) {
				if oneofs[fd.ContainingOneof().FullName()] {
					continue
				}
				oneofs[fd.ContainingOneof().FullName()] = true
				g.label("oneof")
			}
			chosen[fd.Number()] = true
			key, _ := g.name(fd)
			var val *Node
			if g.n(0, 11, "null") == 0 {
				val = scalar('l', "null")
				g.label("null-field")
				// (the field still counts as seen by the decoder: its number stays in chosen)
			} else {
				val = g.FieldValue(fd, depth, level)
			}
			node.Mem = append(node.Mem, Mem{Key: key, Val: val})
		}
	}
	if g.Unknown && g.n(0, 2, "unknown") == 0 {
		g.label("unknown-member")
		for i, k := 0, g.n(1, 2, "nunknown"); i < k; i++ {
			m := Mem{Key: g.Quote(fmt.Sprintf("zz_unknown_%d", i)), Val: g.AnyJSON(2)}
			node.Mem = insertAt(node.Mem, g.n(0, len(node.Mem), "unkpos"), m)
		}
	}
	if g.InjectAt >= 0 && g.Injected == nil {
		if g.seenMsg >= g.InjectAt || level == 1 { // the top-level node comes last: fallback
			g.inject(md, node, cands, chosen, oneofs, depth, level, via)
		}
		g.seenMsg++
	}
	if extra != nil {
		node.Mem = insertAt(node.Mem, g.n(0, len(node.Mem), "typepos"), *extra)
	}
	return node
}

func insertAt(ms []Mem, i int, m Mem) []Mem {
	ms = append(ms, Mem{})
	copy(ms[i+1:], ms[i:])
	ms[i] = m
	return ms
}

// inject adds the duplicate: either a second (non-null) member for a singular field, or two
// (non-null) members of one oneof. The un-injected rendering stays a document without it.
func (g *Gen) inject(md protoreflect.MessageDescriptor, node *Node, cands []protoreflect.FieldDescriptor, chosen map[protoreflect.FieldNumber]bool, oneofs map[protoreflect.FullName]bool, depth, level int, via string) {
	nonNull := func(n *Node) bool { return !(n.K == 's' && n.Tok == "null") }
	keyOf := map[string]protoreflect.FieldDescriptor{}
	for _, fd := range cands {
		for _, nm := range Names(fd) {
			keyOf[nm] = fd
		}
	}
	present := map[protoreflect.FieldNumber]int{} // number -> member index of a non-null member
	nullSeen := map[protoreflect.FieldNumber]bool{}
	for i, m := range node.Mem {
		r := Recognise([]byte(m.Key), Grammar{}, true)
		if !r.OK {
			continue
		}
		if fd := keyOf[r.Value.Raw]; fd != nil {
			if nonNull(m.Val) {
				present[fd.Number()] = i
			} else {
				nullSeen[fd.Number()] = true
			}
		}
	}
	var ods []protoreflect.OneofDescriptor
	for i := 0; i < md.Oneofs().Len(); i++ {
		if od := md.Oneofs().Get(i); !od.IsSynthetic() && od.Fields().Len() >= 2 {
			ods = append(ods, od)
		}
	}
	if g.InjectOneof && len(ods) > 0 {
		// pick a oneof with >= 2 members; ensure one non-null member exists, then add another
		od := ods[g.n(0, len(ods)-1, "injoneof")]
		var first protoreflect.FieldDescriptor
		for i := 0; i < od.Fields().Len(); i++ {
			if _, ok := present[od.Fields().Get(i).Number()]; ok {
				first = od.Fields().Get(i)
			}
		}
		var free []protoreflect.FieldDescriptor
		for i := 0; i < od.Fields().Len(); i++ {
			fd := od.Fields().Get(i)
			if _, ok := present[fd.Number()]; !ok && !nullSeen[fd.Number()] && (first == nil || fd.Number() != first.Number()) {
				free = append(free, fd)
			}
		}
		if first == nil {
			if len(free) < 2 {
				return
			}
			i := g.n(0, len(free)-1, "injfirst")
			first = free[i]
			free = append(free[:i:i], free[i+1:]...)
			key, _ := g.name(first)
			// the first member belongs to the base document
			node.Mem = insertAt(node.Mem, g.n(0, len(node.Mem), "injpos0"), Mem{Key: key, Val: g.nonNullValue(first, depth, level)})
		}
		if len(free) == 0 {
			return
		}
		second := free[g.n(0, len(free)-1, "injsecond")]
		key, kind := g.name(second)
		node.Mem = insertAt(node.Mem, g.n(0, len(node.Mem), "injpos"), Mem{Key: key, Val: g.nonNullValue(second, depth, level), Injected: true})
		g.Injected = &Injection{Kind: "oneof", Message: string(md.FullName()), Field: string(first.Name()) + "+" + string(second.Name()), Number: int32(second.Number()), Names: kind, Level: level, Via: via}
		return
	}
	// singular duplicate
	var sing []protoreflect.FieldDescriptor
	for _, fd := range cands {
		if !fd.IsList() && !fd.IsMap() && !nullSeen[fd.Number()] {
			sing = append(sing, fd)
		}
	}
	if len(sing) == 0 {
		return
	}
	// prefer a field that is already present (half of the time), else add both
	var fd protoreflect.FieldDescriptor
	var havePresent []protoreflect.FieldDescriptor
	for _, f := range sing {
		if _, ok := present[f.Number()]; ok {
			havePresent = append(havePresent, f)
		}
	}
	firstKind := ""
	if len(havePresent) > 0 && g.n(0, 1, "usepresent") == 0 {
		fd = havePresent[g.n(0, len(havePresent)-1, "injfield")]
		r := Recognise([]byte(node.Mem[present[fd.Number()]].Key), Grammar{}, true)
		firstKind = "json"
		if fd.IsExtension() {
			firstKind = "ext"
		} else if r.Value.Raw != fd.JSONName() {
			firstKind = "proto"
		}
	} else {
		var free []protoreflect.FieldDescriptor
		for _, f := range sing {
			if _, ok := present[f.Number()]; ok {
				continue
			}
			if isRealOneof(f) && oneofs[f.ContainingOneof().FullName()] {
				continue // would make the base document invalid
			}
			free = append(free, f)
		}
		if len(free) == 0 {
			return
		}
		// bias towards large field numbers (bitset/map boundary at 64)
		fd = free[g.n(0, len(free)-1, "injfield")]
		if g.n(0, 2, "bignum") == 0 {
			for _, f := range free {
				if f.Number() >= 64 && (fd.Number() < 64 || g.n(0, 3, "swapbig") == 0) {
					fd = f
				}
			}
		}
		var key string
		key, firstKind = g.name(fd)
		node.Mem = insertAt(node.Mem, g.n(0, len(node.Mem), "injpos0"), Mem{Key: key, Val: g.nonNullValue(fd, depth, level)})
	}
	key, kind := g.name(fd)
	node.Mem = insertAt(node.Mem, g.n(0, len(node.Mem), "injpos"), Mem{Key: key, Val: g.nonNullValue(fd, depth, level), Injected: true})
	g.Injected = &Injection{Kind: "singular", Message: string(md.FullName()), Field: string(fd.Name()), Number: int32(fd.Number()), Names: firstKind + "+" + kind, Level: level, Via: via}
}

// nonNullValue draws a value that is not the JSON null literal (Value / NullValue fields accept
// null as a value; the duplicate operators stay away from that corner).
func (g *Gen) nonNullValue(fd protoreflect.FieldDescriptor, depth, level int) *Node {
	if fd.Enum() != nil && fd.Enum().FullName() == "google.protobuf.NullValue" {
		return scalar('q', `"NULL_VALUE"`)
	}
	for i := 0; i < 8; i++ {
		n := g.FieldValue(fd, depth, level)
		if !(n.K == 's' && n.Tok == "null") {
			return n
		}
	}
	if fd.Message() != nil && fd.Message().FullName() == "google.protobuf.Value" {
		return scalar('n', "1")
	}
	return &Node{K: 'o'}
}

// Document draws a document for md.
func (g *Gen) Document(md protoreflect.MessageDescriptor) *Node {
	return g.Message(md, g.Depth, 1, "top")
}

// Text returns the decoded text of a JSON string token (helper for callers).
func Text(tok string) (string, bool) {
	r := Recognise([]byte(tok), Grammar{}, true)
	if !r.OK || r.Value.K != Str {
		return "", false
	}
	return r.Value.Raw, utf8.ValidString(r.Value.Raw)
}
