// Package jdoc holds what the C21 and C26 checks share: an RFC 8259 recogniser/parser written
// from the grammar of the RFC (independent of protobuf-go's tokenizer and of encoding/json),
// a descriptor-directed generator of JSON documents for protobuf message types, and
// token-/byte-level mutators.
package jdoc

import (
	"math/big"
	"sort"
	"unicode/utf8"
)

// Kind of a JSON value.
type Kind uint8

const (
	Null Kind = iota
	Bool
	Num
	Str
	Arr
	Obj
)

// Value is a parsed JSON value. Object members keep their textual order and duplicates.
type Value struct {
	K     Kind
	B     bool
	Raw   string // Num: the literal; Str: the decoded text (lone surrogates as U+FFFD)
	Elems []*Value
	Keys  []string
	Vals  []*Value
}

// Grammar switches. The zero value is RFC 8259.
type Grammar struct {
	// ExpDigitsOptional additionally admits numbers whose exponent part has no digits
	// ("1e", "1E+"): used only to recognise one catalogued defect narrowly.
	ExpDigitsOptional bool
}

// Result of a recognition run.
type Result struct {
	OK       bool
	ErrPos   int // offset of the first byte that cannot continue a JSON text (len(b) = premature end)
	Tokens   int // tokens consumed before the error / in total
	MaxDepth int
	Value    *Value // nil unless OK and parse requested
	// lexical features seen (in accepted prefix)
	FracOrExp bool // a number with a fraction or an exponent
	Escape    bool // a string with an escape sequence
}

type parser struct {
	b     []byte
	i     int
	g     Grammar
	build bool
	res   *Result
	depth int
}

// Recognise decides whether b is exactly one JSON text (RFC 8259 §2: ws value ws).
func Recognise(b []byte, g Grammar, build bool) Result {
	r := Result{}
	p := &parser{b: b, g: g, build: build, res: &r}
	p.ws()
	v, ok := p.value()
	if ok {
		p.ws()
		if p.i != len(b) {
			ok = false
		}
	}
	r.OK = ok
	r.ErrPos = p.i
	if ok && build {
		r.Value = v
	}
	return r
}

// Valid reports whether b is a JSON text per RFC 8259.
func Valid(b []byte) bool { return Recognise(b, Grammar{}, false).OK }

func (p *parser) ws() {
	for p.i < len(p.b) {
		switch p.b[p.i] {
		case ' ', '\t', '\n', '\r':
			p.i++
		default:
			return
		}
	}
}

func (p *parser) lit(s string) bool {
	for k := 0; k < len(s); k++ {
		if p.i >= len(p.b) || p.b[p.i] != s[k] {
			return false
		}
		p.i++
	}
	p.res.Tokens++
	return true
}

func (p *parser) value() (*Value, bool) {
	if p.i >= len(p.b) {
		return nil, false
	}
	switch c := p.b[p.i]; {
	case c == 'n':
		return p.mk(Null, false), p.lit("null")
	case c == 't':
		return p.mk(Bool, true), p.lit("true")
	case c == 'f':
		return p.mk(Bool, false), p.lit("false")
	case c == '"':
		s, ok := p.str()
		if !ok {
			return nil, false
		}
		if p.build {
			return &Value{K: Str, Raw: s}, true
		}
		return nil, true
	case c == '-' || (c >= '0' && c <= '9'):
		start := p.i
		if !p.num() {
			return nil, false
		}
		if p.build {
			return &Value{K: Num, Raw: string(p.b[start:p.i])}, true
		}
		return nil, true
	case c == '[':
		return p.arr()
	case c == '{':
		return p.obj()
	}
	return nil, false
}

func (p *parser) mk(k Kind, b bool) *Value {
	if !p.build {
		return nil
	}
	return &Value{K: k, B: b}
}

func (p *parser) push() {
	p.depth++
	if p.depth > p.res.MaxDepth {
		p.res.MaxDepth = p.depth
	}
}

func (p *parser) arr() (*Value, bool) {
	p.i++ // [
	p.res.Tokens++
	p.push()
	defer func() { p.depth-- }()
	var v *Value
	if p.build {
		v = &Value{K: Arr}
	}
	p.ws()
	if p.i < len(p.b) && p.b[p.i] == ']' {
		p.i++
		p.res.Tokens++
		return v, true
	}
	for {
		p.ws()
		e, ok := p.value()
		if !ok {
			return nil, false
		}
		if p.build {
			v.Elems = append(v.Elems, e)
		}
		p.ws()
		if p.i >= len(p.b) {
			return nil, false
		}
		switch p.b[p.i] {
		case ',':
			p.i++
			p.res.Tokens++
		case ']':
			p.i++
			p.res.Tokens++
			return v, true
		default:
			return nil, false
		}
	}
}

func (p *parser) obj() (*Value, bool) {
	p.i++ // {
	p.res.Tokens++
	p.push()
	defer func() { p.depth-- }()
	var v *Value
	if p.build {
		v = &Value{K: Obj}
	}
	p.ws()
	if p.i < len(p.b) && p.b[p.i] == '}' {
		p.i++
		p.res.Tokens++
		return v, true
	}
	for {
		p.ws()
		if p.i >= len(p.b) || p.b[p.i] != '"' {
			return nil, false
		}
		k, ok := p.str()
		if !ok {
			return nil, false
		}
		p.ws()
		if p.i >= len(p.b) || p.b[p.i] != ':' {
			return nil, false
		}
		p.i++
		p.res.Tokens++
		p.ws()
		e, ok := p.value()
		if !ok {
			return nil, false
		}
		if p.build {
			v.Keys = append(v.Keys, k)
			v.Vals = append(v.Vals, e)
		}
		p.ws()
		if p.i >= len(p.b) {
			return nil, false
		}
		switch p.b[p.i] {
		case ',':
			p.i++
			p.res.Tokens++
		case '}':
			p.i++
			p.res.Tokens++
			return v, true
		default:
			return nil, false
		}
	}
}

func isDigit(c byte) bool { return c >= '0' && c <= '9' }

// num = [ "-" ] int [ frac ] [ exp ]   (RFC 8259 §6)
func (p *parser) num() bool {
	b := p.b
	if p.i < len(b) && b[p.i] == '-' {
		p.i++
	}
	if p.i >= len(b) {
		return false
	}
	switch {
	case b[p.i] == '0':
		p.i++
	case b[p.i] >= '1' && b[p.i] <= '9':
		for p.i < len(b) && isDigit(b[p.i]) {
			p.i++
		}
	default:
		return false
	}
	if p.i < len(b) && b[p.i] == '.' {
		p.i++
		if p.i >= len(b) || !isDigit(b[p.i]) {
			return false
		}
		for p.i < len(b) && isDigit(b[p.i]) {
			p.i++
		}
		p.res.FracOrExp = true
	}
	if p.i < len(b) && (b[p.i] == 'e' || b[p.i] == 'E') {
		p.i++
		if p.i < len(b) && (b[p.i] == '+' || b[p.i] == '-') {
			p.i++
		}
		if p.i >= len(b) || !isDigit(b[p.i]) {
			if !p.g.ExpDigitsOptional {
				return false
			}
		}
		for p.i < len(b) && isDigit(b[p.i]) {
			p.i++
		}
		p.res.FracOrExp = true
	}
	p.res.Tokens++
	return true
}

func hexv(c byte) (rune, bool) {
	switch {
	case c >= '0' && c <= '9':
		return rune(c - '0'), true
	case c >= 'a' && c <= 'f':
		return rune(c-'a') + 10, true
	case c >= 'A' && c <= 'F':
		return rune(c-'A') + 10, true
	}
	return 0, false
}

// str = quotation-mark *char quotation-mark   (RFC 8259 §7); any byte >= 0x20 other than
// '"' and '\' is an unescaped character (the grammar is over code points; whether the bytes are
// well-formed UTF-8 is an encoding question, §8.1, which a *syntax* recogniser does not decide —
// encoding/json.Valid takes the same position).
func (p *parser) str() (string, bool) {
	b := p.b
	p.i++ // opening quote
	var out []byte
	var pendingHi rune = -1
	flush := func() {
		if pendingHi >= 0 {
			out = utf8.AppendRune(out, utf8.RuneError)
			pendingHi = -1
		}
	}
	for {
		if p.i >= len(b) {
			return "", false
		}
		c := b[p.i]
		switch {
		case c == '"':
			p.i++
			p.res.Tokens++
			if p.build {
				flush()
			}
			return string(out), true
		case c < 0x20:
			return "", false
		case c == '\\':
			p.res.Escape = true
			p.i++
			if p.i >= len(b) {
				return "", false
			}
			e := b[p.i]
			var r rune
			switch e {
			case '"', '\\', '/':
				r = rune(e)
			case 'b':
				r = '\b'
			case 'f':
				r = '\f'
			case 'n':
				r = '\n'
			case 'r':
				r = '\r'
			case 't':
				r = '\t'
			case 'u':
				r = 0
				for k := 1; k <= 4; k++ {
					if p.i+k >= len(b) {
						p.i = len(b)
						return "", false
					}
					h, ok := hexv(b[p.i+k])
					if !ok {
						p.i += k
						return "", false
					}
					r = r<<4 | h
				}
				p.i += 4
				if p.build {
					switch {
					case r >= 0xd800 && r < 0xdc00:
						flush()
						pendingHi = r
						p.i++
						continue
					case r >= 0xdc00 && r < 0xe000:
						if pendingHi >= 0 {
							r = 0x10000 + (pendingHi-0xd800)<<10 + (r - 0xdc00)
							pendingHi = -1
						} else {
							r = utf8.RuneError
						}
					}
				}
			default:
				return "", false
			}
			p.i++
			if p.build {
				flush()
				out = utf8.AppendRune(out, r)
			}
		default:
			if p.build {
				flush()
				out = append(out, c)
			}
			p.i++
		}
	}
}

// ---------------------------------------------------------------------------------------------
// value equality (RFC 8259 data model: objects are unordered collections of members,
// numbers compare by numeric value)

func numEqual(a, b string) bool {
	if a == b {
		return true
	}
	x, ok1 := new(big.Rat).SetString(a)
	y, ok2 := new(big.Rat).SetString(b)
	return ok1 && ok2 && x.Cmp(y) == 0
}

type member struct {
	k string
	v *Value
}

func sortedMembers(v *Value) []member {
	ms := make([]member, len(v.Keys))
	for i := range v.Keys {
		ms[i] = member{v.Keys[i], v.Vals[i]}
	}
	sort.SliceStable(ms, func(i, j int) bool { return ms[i].k < ms[j].k })
	return ms
}

// Equal compares two parsed values. Duplicate names (which the RFC leaves to the receiver) are
// compared as multisets in their textual order per name.
func Equal(a, b *Value) bool {
	if a == nil || b == nil {
		return a == b
	}
	if a.K != b.K {
		return false
	}
	switch a.K {
	case Null:
		return true
	case Bool:
		return a.B == b.B
	case Num:
		return numEqual(a.Raw, b.Raw)
	case Str:
		return a.Raw == b.Raw
	case Arr:
		if len(a.Elems) != len(b.Elems) {
			return false
		}
		for i := range a.Elems {
			if !Equal(a.Elems[i], b.Elems[i]) {
				return false
			}
		}
		return true
	case Obj:
		if len(a.Keys) != len(b.Keys) {
			return false
		}
		x, y := sortedMembers(a), sortedMembers(b)
		for i := range x {
			if x[i].k != y[i].k || !Equal(x[i].v, y[i].v) {
				return false
			}
		}
		return true
	}
	return false
}

// CountNodes returns the number of values in the tree (evidence only).
func CountNodes(v *Value) int {
	if v == nil {
		return 0
	}
	n := 1
	for _, e := range v.Elems {
		n += CountNodes(e)
	}
	for _, e := range v.Vals {
		n += CountNodes(e)
	}
	return n
}
