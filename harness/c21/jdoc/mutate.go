package jdoc

import (
	"pgregory.net/rapid"
)

// Hostile constants: each is *not* a JSON number / string / literal (or is one that decoders
// commonly get wrong), to be spliced where a value is expected.
var BadNumbers = []string{
	"1e", "1E", "1e+", "1e-", "1E+", "0e", "0.0e", "12E", "1.5e+", "-1e", "-0E-", "10e", "1e ", // exponent without digits
	"-", "--1", "+1", "01", "-01", "00", "1.", "1.e1", ".5", "-.5", "0.", "1..2", "1.2.3",
	"0x10", "0X1F", "1_000", "1,5", "1e1.5", "1ee1", "1e+-1", "1e1e1", "1f", "1d", "1L", "١", "1e٣",
	"Infinity", "-Infinity", "NaN", "inf", "nan", "-nan", "1/2", "1e0x1", "0b1", "0o7", "1.5.", "- 1", "1 e1",
}

var BadStrings = []string{
	`"\v"`, `"\x41"`, `"\u12"`, `"\u123g"`, `"\u 123"`, `"\u+123"`, `"\U00000041"`, `"\a"`, `"\0"`, `"\'"`, `"\ "`, `"\`, `"abc`, `'abc'`, `"a` + "\n" + `b"`, `"a` + "\t" + `b"`,
	`"a` + "\x00" + `b"`, `"a` + "\x1f" + `b"`, `"\u00"`, `"\u"`, `"\`, `"\"`, `"\\\"`, "\"\xff\"", "\"\xc0\x80\"", "\"\xed\xa0\x80\"", `"\ud800"`, `"\udc00\ud800"`, `"\ud800A"`,
	`"\ud800\ud800"`, `"𝄞"`, `"a"b"`, `""""`, `"\"`, "\"\x7f\"", `“abc”`, "`abc`", `"\u-123"`, `"\u0x41"`, `"\u1_23"`,
}

var BadLiterals = []string{
	"nul", "nulll", "NULL", "Null", "nil", "None", "undefined", "tru", "truee", "True", "TRUE", "fals", "falsee", "False", "false1", "null_", "null-", "true.", "truefalse",
	"nullnull", "t", "f", "n", "yes", "no", "null+", "true1", "nulL", "void", "-null", "-true",
}

var structurePool = []string{"{", "}", "[", "]", ",", ":", ",,", "}{", "][", "{}", "[]", ";", "=", "(", ")", "//c\n", "/*c*/", "#c\n", "\xef\xbb\xbf", "\x00", "\x0b", "\x0c", " ", " ", "\ufeff", "<", ">", "'", `"`}

var soupPool = []string{
	"{", "}", "[", "]", ",", ":", "null", "true", "false", "0", "-1", "1.5", "1e2", "1e", "1E+", "-", "01", `"a"`, `""`, `"\n"`, `"A"`, `"\v"`, `"a`, " ", "\n", "\t",
	`"x":`, `"optionalInt32"`, `"optional_int32"`, `"@type"`, `"value"`, "{}", "[]", `"k":1`, "1.", ".5", "nul", "tru", "\r", "\x00", "\xef\xbb\xbf", "//", "1e+1", "-0", "0.0", "[[", "]]", "{{", "}}",
}

// Mutation applies 1..3 drawn operators to the token list / rendered bytes and reports their labels.
// The result is only *probably* invalid: the check recomputes validity with the oracle.
func Mutate(t *rapid.T, toks []Tok) ([]byte, []string) {
	return MutateWith(t, toks, JSONPools)
}

// Pools parametrises the mutator for a concrete syntax (JSON here, the text format in C26).
type Pools struct {
	Numbers, Strings, Literals, Structure, Tails, Heads []string
	Join                                                func(*rapid.T, []Tok) []byte
}

var JSONPools = Pools{
	Numbers: BadNumbers, Strings: BadStrings, Literals: BadLiterals, Structure: structurePool,
	Tails: []string{"}", "]", " x", ",", "{}", "null", "//c", "\x00", "\xef\xbb\xbf", " 1", "\"", "\n\n0"},
	Heads: []string{"\xef\xbb\xbf", "\x00", ",", "x", ")]}'\n", " ", "\x0b", "\x0c"},
	Join:  Join,
}

func MutateWith(t *rapid.T, toks []Tok, p Pools) ([]byte, []string) {
	var labels []string
	n := rapid.IntRange(1, 3).Draw(t, "nmut")
	toks = append([]Tok(nil), toks...)
	idx := func(class string) int {
		var c []int
		for i, k := range toks {
			for j := 0; j < len(class); j++ {
				if k.Class == class[j] {
					c = append(c, i)
				}
			}
		}
		if len(c) == 0 {
			return -1
		}
		return c[rapid.IntRange(0, len(c)-1).Draw(t, "tokidx")]
	}
	byteOps := 0
	for m := 0; m < n; m++ {
		if len(toks) == 0 {
			break
		}
		switch op := rapid.IntRange(0, 13).Draw(t, "mutop"); op {
		case 0, 1, 2: // hostile number where a value stands (numbers first, then any scalar)
			i := idx("n")
			if i < 0 || rapid.IntRange(0, 3).Draw(t, "anyscalar") == 0 {
				i = idx("nql")
			}
			if i >= 0 {
				toks[i] = Tok{rapid.SampledFrom(p.Numbers).Draw(t, "badnum"), 'x', false}
				labels = append(labels, "mut-badnumber")
			}
		case 3, 4: // hostile string (values and names)
			if i := idx("qk"); i >= 0 {
				toks[i] = Tok{rapid.SampledFrom(p.Strings).Draw(t, "badstr"), 'x', false}
				labels = append(labels, "mut-badstring")
			} else if i := idx("nl"); i >= 0 {
				toks[i] = Tok{rapid.SampledFrom(p.Strings).Draw(t, "badstr"), 'x', false}
				labels = append(labels, "mut-badstring")
			}
		case 5: // hostile literal
			if i := idx("lnq"); i >= 0 {
				toks[i] = Tok{rapid.SampledFrom(p.Literals).Draw(t, "badlit"), 'x', false}
				labels = append(labels, "mut-badliteral")
			}
		case 6: // delete a token
			i := rapid.IntRange(0, len(toks)-1).Draw(t, "del")
			toks = append(toks[:i:i], toks[i+1:]...)
			labels = append(labels, "mut-delete-token")
		case 7: // duplicate a token
			i := rapid.IntRange(0, len(toks)-1).Draw(t, "dup")
			toks = append(toks[:i+1:i+1], toks[i:]...)
			labels = append(labels, "mut-dup-token")
		case 8: // swap neighbours
			if len(toks) >= 2 {
				i := rapid.IntRange(0, len(toks)-2).Draw(t, "swap")
				toks[i], toks[i+1] = toks[i+1], toks[i]
				labels = append(labels, "mut-swap-tokens")
			}
		case 9: // insert structural noise
			i := rapid.IntRange(0, len(toks)).Draw(t, "ins")
			x := Tok{rapid.SampledFrom(p.Structure).Draw(t, "noise"), 'x', false}
			toks = append(toks[:i:i], append([]Tok{x}, toks[i:]...)...)
			labels = append(labels, "mut-insert-structure")
		case 10: // replace punctuation
			if i := idx("p"); i >= 0 {
				toks[i] = Tok{rapid.SampledFrom(p.Structure).Draw(t, "punct"), 'x', false}
				labels = append(labels, "mut-replace-punct")
			}
		case 11: // value directly after value (missing comma) / trailing comma
			if i := idx("p"); i >= 0 && toks[i].Text == "," {
				if rapid.Bool().Draw(t, "dropcomma") {
					toks = append(toks[:i:i], toks[i+1:]...)
					labels = append(labels, "mut-missing-comma")
				} else {
					toks[i].Text = ",,"
					labels = append(labels, "mut-double-comma")
				}
			} else if len(toks) >= 2 {
				// trailing comma before the last closer
				i := len(toks) - 1
				toks = append(toks[:i:i], append([]Tok{{",", 'x', false}}, toks[i:]...)...)
				labels = append(labels, "mut-trailing-comma")
			}
		case 12: // unquote / requote a member name
			if i := idx("k"); i >= 0 && len(toks[i].Text) >= 2 {
				in := toks[i].Text[1 : len(toks[i].Text)-1]
				toks[i].Text = []string{in, "'" + in + "'", in + `"`, `"` + in}[rapid.IntRange(0, 3).Draw(t, "qstyle")]
				labels = append(labels, "mut-name-quoting")
			}
		default:
			byteOps++
		}
	}
	b := p.Join(t, toks)
	for ; byteOps > 0; byteOps-- {
		switch rapid.IntRange(0, 4).Draw(t, "byteop") {
		case 0: // truncate
			if len(b) > 0 {
				b = b[:rapid.IntRange(0, len(b)-1).Draw(t, "cut")]
				labels = append(labels, "mut-truncate")
			}
		case 1: // trailing garbage
			b = append(b, rapid.SampledFrom(p.Tails).Draw(t, "tail")...)
			labels = append(labels, "mut-trailing-garbage")
		case 2: // leading garbage
			b = append([]byte(rapid.SampledFrom(p.Heads).Draw(t, "head")), b...)
			labels = append(labels, "mut-leading-garbage")
		case 3: // overwrite one byte
			if len(b) > 0 {
				i := rapid.IntRange(0, len(b)-1).Draw(t, "pos")
				b = append([]byte(nil), b...)
				b[i] = rapid.Byte().Draw(t, "byte")
				labels = append(labels, "mut-byte-overwrite")
			}
		default: // delete one byte
			if len(b) > 0 {
				i := rapid.IntRange(0, len(b)-1).Draw(t, "pos")
				b = append(b[:i:i], b[i+1:]...)
				labels = append(labels, "mut-byte-delete")
			}
		}
	}
	return b, labels
}

// Soup draws a token soup.
func Soup(t *rapid.T) []byte {
	var b []byte
	for i, n := 0, rapid.IntRange(1, 12).Draw(t, "soup"); i < n; i++ {
		switch rapid.IntRange(0, 9).Draw(t, "souppool") {
		case 0:
			b = append(b, rapid.SampledFrom(BadNumbers).Draw(t, "n")...)
		case 1:
			b = append(b, rapid.SampledFrom(BadStrings).Draw(t, "s")...)
		case 2:
			b = append(b, rapid.SampledFrom(BadLiterals).Draw(t, "l")...)
		default:
			b = append(b, rapid.SampledFrom(soupPool).Draw(t, "p")...)
		}
	}
	return b
}
