package c21

// Native fuzz target (coverage-guided; thorough use only, bounded by -fuzztime). The seed corpus
// (jsonfuzz corpus of the repository + hostile constants) also runs as a plain test in every tier.
//
//	cd /verif/harness && go test ./c21 -run '^$' -fuzz '^FuzzUnmarshalAcceptsOnlyJSON$' -fuzztime 180s

import (
	"os"
	"path/filepath"
	"strings"
	"testing"

	"google.golang.org/protobuf/zverif/c21/jdoc"
	"google.golang.org/protobuf/zverif/pbt"
)

func repoDir() string {
	if d := os.Getenv("VERIF_REPO"); d != "" {
		return d
	}
	return "/repo"
}

func FuzzUnmarshalAcceptsOnlyJSON(f *testing.F) {
	files, _ := filepath.Glob(filepath.Join(repoDir(), "internal/fuzz/jsonfuzz/corpus/*"))
	for _, p := range files {
		if b, err := os.ReadFile(p); err == nil {
			f.Add(b)
		}
	}
	for _, k := range append(append(append([]string{}, jdoc.BadNumbers...), jdoc.BadStrings...), jdoc.BadLiterals...) {
		f.Add([]byte(`{"optional_int32":` + k + `,"zz":[` + k + `]}`))
		f.Add([]byte(k))
	}
	targets := []struct {
		typ     string
		discard bool
	}{
		{"goproto.proto.test.TestAllTypes", false}, {"goproto.proto.test3.TestAllTypes", true},
		{"google.protobuf.Value", false}, {"google.protobuf.Any", true},
	}
	f.Fuzz(func(t *testing.T, in []byte) {
		if len(in) > 1<<16 {
			return
		}
		for _, tg := range targets {
			c := inCase{Type: tg.typ, Discard: tg.discard, Source: "fuzz", Input: in, Show: strings.ToValidUTF8(string(in), "?")}
			if err := checkInput(c); err != nil {
				pbt.ReportViolation(nil, "unmarshal-accepts-only-json", c, err)
				t.Fatal(err)
			}
		}
	})
}
