package c21

import (
	"bytes"
	stdjson "encoding/json"
	"fmt"
	"strconv"
	"strings"
	"testing"

	"google.golang.org/protobuf/encoding/protojson"
	pjson "google.golang.org/protobuf/internal/encoding/json"
	"google.golang.org/protobuf/zverif/c21/jdoc"
	"google.golang.org/protobuf/zverif/corpus"
	"google.golang.org/protobuf/zverif/gen"
	"google.golang.org/protobuf/zverif/model"
	"google.golang.org/protobuf/zverif/pbt"
	"pgregory.net/rapid"
)

const kfExp = "KF-json-exp-nodigits"

var (
	types, rich = corpus.Standard(), corpus.Rich(20)
	wktTargets  = []string{"google.protobuf.Value", "google.protobuf.Struct", "google.protobuf.ListValue", "google.protobuf.Any", "google.protobuf.Value", "google.protobuf.ListValue"}
)

// ---------------------------------------------------------------------------------------------
// oracle: own RFC 8259 recogniser, guarded by encoding/json.Valid

type verdict struct {
	valid   bool
	lenient bool // valid once "exponent marker without digits" is admitted (the catalogued defect)
	res     jdoc.Result
}

func oracle(in []byte) (verdict, error) {
	r := jdoc.Recognise(in, jdoc.Grammar{}, false)
	if r.MaxDepth <= 9000 { // encoding/json refuses nesting beyond 10000 by policy, not by grammar
		if std := stdjson.Valid(in); std != r.OK {
			return verdict{}, fmt.Errorf("ORACLE GUARD: own RFC 8259 recogniser says valid=%v, encoding/json.Valid says %v for %q", r.OK, std, in)
		}
	}
	v := verdict{valid: r.OK, res: r}
	if !r.OK {
		v.lenient = jdoc.Recognise(in, jdoc.Grammar{ExpDigitsOptional: true}, false).OK
	}
	return v, nil
}

// accepted is called when a decoder took the whole input without error.
func accepted(who string, in []byte, v verdict) error {
	if v.valid {
		return nil
	}
	if v.lenient && pbt.ExcludeKnown(kfExp) {
		return nil
	}
	return fmt.Errorf("%s accepted input that is not a JSON text (RFC 8259): %q — first defect at byte %d", who, in, v.res.ErrPos)
}

// tokenLoop drives the internal tokenizer to EOF, as protojson does for values it does not interpret.
func tokenLoop(in []byte) bool {
	d := pjson.NewDecoder(in)
	for i := 0; i <= len(in)+2; i++ {
		tok, err := d.Read()
		if err != nil {
			return false
		}
		if tok.Kind() == pjson.EOF {
			// the bare tokenizer has no notion of "one document": EOF as the very first token is
			// not an error for it (every protojson caller treats it as an unexpected token), so a
			// value must have been read for the loop to count as acceptance
			return i > 0
		}
	}
	panic("json.Decoder.Read does not reach EOF within len(input)+2 tokens")
}

// ---------------------------------------------------------------------------------------------
// inputs -> Unmarshal

type inCase struct {
	Type    string
	Discard bool
	Source  string // document | mutated | soup | bytes
	Input   []byte
	Show    string // Input as a quoted Go string (for the reader of a replay file; not used by Check)
	Labels  []string
}

type outcome struct {
	v              verdict
	tokOK, protoOK bool
	protoErr       string
}

var memoKey string
var memoOut outcome

func evaluate(c inCase) (outcome, error) {
	key := c.Type + "|" + strconv.FormatBool(c.Discard) + "|" + string(c.Input)
	if key == memoKey {
		return memoOut, nil
	}
	var o outcome
	v, err := oracle(c.Input)
	if err != nil {
		return o, err
	}
	o.v = v
	o.tokOK = tokenLoop(c.Input)
	if o.tokOK {
		if err := accepted("internal/encoding/json.Decoder (token loop to EOF)", c.Input, v); err != nil {
			return o, err
		}
	}
	m := corpus.ByName(c.Type).New().Interface()
	uerr := protojson.UnmarshalOptions{DiscardUnknown: c.Discard, AllowPartial: true}.Unmarshal(c.Input, m)
	o.protoOK = uerr == nil
	if uerr != nil {
		o.protoErr = uerr.Error()
	}
	if o.protoOK {
		if err := accepted(fmt.Sprintf("protojson.Unmarshal(%s, DiscardUnknown=%v)", c.Type, c.Discard), c.Input, v); err != nil {
			return o, err
		}
		if !o.tokOK {
			return o, fmt.Errorf("protojson.Unmarshal(%s) accepted %q but the tokenizer alone rejects it", c.Type, c.Input)
		}
	}
	memoKey, memoOut = key, o
	return o, nil
}

func checkInput(c inCase) error {
	_, err := evaluate(c)
	return err
}

func drawTarget(t *rapid.T) string {
	switch rapid.IntRange(0, 9).Draw(t, "target") {
	case 0, 1:
		return rapid.SampledFrom(wktTargets).Draw(t, "wkt")
	case 2, 3, 4, 5:
		return rapid.SampledFrom(rich).Draw(t, "rich")
	default:
		return rapid.SampledFrom(types).Draw(t, "type")
	}
}

func drawInput(t *rapid.T) inCase {
	c := inCase{Type: drawTarget(t), Discard: rapid.Bool().Draw(t, "discard")}
	md := corpus.ByName(c.Type).Descriptor()
	switch k := rapid.IntRange(0, 19).Draw(t, "source"); {
	case k < 6:
		c.Source = "document"
	case k < 17:
		c.Source = "mutated"
	case k < 19:
		c.Source = "soup"
	default:
		c.Source = "bytes"
	}
	switch c.Source {
	case "document", "mutated":
		g := jdoc.NewGen(t)
		g.Unknown = c.Discard || rapid.IntRange(0, 9).Draw(t, "unknown-anyway") == 0
		toks := jdoc.Render(g.Document(md), false)
		c.Labels = g.LabelList()
		if c.Source == "document" {
			c.Input = jdoc.Join(t, toks)
		} else {
			var ls []string
			c.Input, ls = jdoc.Mutate(t, toks)
			c.Labels = append(c.Labels, ls...)
		}
	case "soup":
		c.Input = jdoc.Soup(t)
	default:
		c.Input = rapid.SliceOfN(rapid.Byte(), 0, 24).Draw(t, "raw")
	}
	c.Show = strconv.Quote(string(c.Input))
	return c
}

func inputClasses(c inCase) []string {
	o, err := evaluate(c)
	if err != nil {
		return nil
	}
	out := []string{"source-" + c.Source}
	switch {
	case o.v.valid && o.protoOK:
		out = append(out, "valid-json/accepted")
	case o.v.valid:
		out = append(out, "valid-json/rejected-by-protojson")
	case o.protoOK || o.tokOK:
		out = append(out, "invalid-json/accepted(known finding)")
	default:
		out = append(out, "invalid-json/rejected")
	}
	if o.tokOK {
		out = append(out, "tokenizer-accepts")
	}
	if o.v.lenient {
		out = append(out, "invalid-only-by-exponent-without-digits")
	}
	if c.Discard {
		out = append(out, "discard-unknown")
	}
	if jdoc.IsSpecial(corpus.ByName(c.Type).Descriptor()) {
		out = append(out, "target-"+c.Type)
	}
	for _, l := range c.Labels {
		if strings.HasPrefix(l, "mut-") || l == "esc" || l == "num-exp" || l == "num-frac" || l == "num-quoted" || l == "ext" || l == "unknown-member" {
			out = append(out, l)
		}
	}
	return out
}

func inputNonTrivial(c inCase) bool {
	o, err := evaluate(c)
	if err != nil {
		return false
	}
	if o.protoOK || o.tokOK {
		return o.v.res.Tokens >= 3 && (o.v.res.FracOrExp || o.v.res.Escape)
	}
	if o.v.valid {
		return len(c.Input) > 3
	}
	return o.v.res.ErrPos > 3
}

func TestUnmarshalAcceptsOnlyJSON(t *testing.T) {
	pbt.Run(t, pbt.Prop[inCase]{
		Name: "unmarshal-accepts-only-json",
		Rule: "target = any linked message type (rich test messages, structpb Value/Struct/ListValue, Any favoured), DiscardUnknown on/off; input = descriptor-directed valid document with syntax variety (JSON/proto names, quoted/exponent/fraction numbers, escapes, whitespace) | 1-3 token/byte mutations of one (hostile numbers such as 1e / 01 / 1. / .5, bad escapes, bad literals, structure damage, truncation, garbage) | token soup | random bytes. Oracle: own RFC 8259 recogniser, which must agree with encoding/json.Valid on every input; whatever protojson.Unmarshal or the raw token loop accepts must be valid. non-trivial = accepted input of >= 3 tokens with a fraction/exponent number or an escape, or rejected input whose first defect lies after byte 3",
		Draw: drawInput, Check: checkInput, NonTrivial: inputNonTrivial, Classes: inputClasses,
		Quick: 60000, Thorough: 500000,
	})
}

// ---------------------------------------------------------------------------------------------
// hostile constants in fixed frames: exhaustive, seed-independent

type frameCase struct {
	Type    string
	Discard bool
	Frame   string // %s is replaced by the constant
	Const   string
	Tail    string
}

var frames = []struct {
	typ     string
	discard bool
	frame   string
}{
	{"goproto.proto.test.TestAllTypes", false, `{"optional_int32":%s}`},
	{"goproto.proto.test.TestAllTypes", false, `{"optionalInt64":%s}`},
	{"goproto.proto.test.TestAllTypes", false, `{"optional_uint32":%s}`},
	{"goproto.proto.test.TestAllTypes", false, `{"optional_double":%s}`},
	{"goproto.proto.test.TestAllTypes", false, `{"optional_float":%s}`},
	{"goproto.proto.test.TestAllTypes", false, `{"optional_string":%s}`},
	{"goproto.proto.test.TestAllTypes", false, `{"optional_bytes":%s}`},
	{"goproto.proto.test.TestAllTypes", false, `{"optional_bool":%s}`},
	{"goproto.proto.test.TestAllTypes", false, `{"optional_nested_enum":%s}`},
	{"goproto.proto.test.TestAllTypes", false, `{"repeated_int32":[1,%s]}`},
	{"goproto.proto.test.TestAllTypes", false, `{"repeated_sint64":[%s,2]}`},
	{"goproto.proto.test.TestAllTypes", false, `{"map_int32_int32":{"1":%s}}`},
	{"goproto.proto.test.TestAllTypes", false, `{"map_int32_int32":{%s:1}}`},
	{"goproto.proto.test.TestAllTypes", false, `{"optional_nested_message":{"a":%s}}`},
	{"goproto.proto.test.TestAllTypes", false, `{%s:1}`},
	{"goproto.proto.test.TestAllTypes", true, `{"zz":%s}`},
	{"goproto.proto.test.TestAllTypes", true, `{"zz":[{"y":[%s]}],"optional_int32":1}`},
	{"goproto.proto.test.TestAllTypes", true, `{%s:1}`},
	{"goproto.proto.test3.TestAllTypes", false, `{"singularFixed64":%s}`},
	{"goproto.proto.test3.TestAllTypes", false, `{"oneofUint32":%s}`},
	{"google.protobuf.Value", false, `%s`},
	{"google.protobuf.Value", false, `[%s]`},
	{"google.protobuf.Value", false, `{"k":%s}`},
	{"google.protobuf.ListValue", false, `[null,%s]`},
	{"google.protobuf.Struct", false, `{"a":%s}`},
	{"google.protobuf.Struct", false, `{%s:null}`},
	{"google.protobuf.Int32Value", false, `%s`},
	{"google.protobuf.UInt64Value", false, `%s`},
	{"google.protobuf.DoubleValue", false, `%s`},
	{"google.protobuf.StringValue", false, `%s`},
	{"google.protobuf.Duration", false, `%s`},
	{"google.protobuf.Any", false, `{"@type":"type.googleapis.com/google.protobuf.Int32Value","value":%s}`},
	{"google.protobuf.Any", true, `{"@type":"type.googleapis.com/google.protobuf.Empty","value":{},"zz":%s}`},
	{"google.protobuf.Any", true, `{"zz":%s}`},
	{"google.protobuf.Any", false, `{"@type":"type.googleapis.com/goproto.proto.test.TestAllTypes","optional_int32":%s}`},
	{"google.protobuf.Any", false, `{"optional_int32":%s,"@type":"type.googleapis.com/goproto.proto.test.TestAllTypes"}`},
	{"google.protobuf.Any", false, `{"@type":%s}`},
	{"google.protobuf.Empty", true, `{"zz":%s}`},
}

func checkFrame(c frameCase) error {
	in := []byte(strings.Replace(c.Frame, "%s", c.Const, 1) + c.Tail)
	return checkInput(inCase{Type: c.Type, Discard: c.Discard, Input: in})
}

func TestHostileConstants(t *testing.T) {
	var consts []string
	consts = append(consts, jdoc.BadNumbers...)
	consts = append(consts, jdoc.BadStrings...)
	consts = append(consts, jdoc.BadLiterals...)
	// quoted variants: numbers inside strings go through the tokenizer a second time
	for _, n := range jdoc.BadNumbers {
		consts = append(consts, `"`+n+`"`)
	}
	consts = append(consts, "1", "-0", "1.5e+10", `"x"`, "null", "true", "{}", "[]", `"\u00e9\ud834\udd1e"`)
	pbt.Enumerate(t, "hostile-constants-in-frames",
		"every hostile constant (malformed numbers incl. exponent without digits, malformed strings/escapes, malformed literals; bare and quoted) x every frame (scalar fields of each kind, list element, map key/value, nested message, member name position, unknown member under DiscardUnknown, Value/ListValue/Struct/wrappers/Any) x tail in {\"\", \" \", \"\\n\"}; same oracle as unmarshal-accepts-only-json",
		true,
		func(yield func(frameCase, bool) bool) {
			for _, f := range frames {
				for _, k := range consts {
					for _, tail := range []string{"", " ", "\n"} {
						if !yield(frameCase{Type: f.typ, Discard: f.discard, Frame: f.frame, Const: k, Tail: tail}, true) {
							return
						}
					}
				}
			}
		}, checkFrame)
}

// every byte value at every position of the escape forms of a string literal: exhaustive
func TestEscapeBytes(t *testing.T) {
	strFrames := []struct {
		typ     string
		discard bool
		frame   string
	}{
		{"goproto.proto.test.TestAllTypes", false, `{"optional_string":%s}`},
		{"goproto.proto.test.TestAllTypes", false, `{"map_string_string":{%s:"v"}}`},
		{"goproto.proto.test.TestAllTypes", true, `{"zz":%s}`},
		{"goproto.proto.test.TestAllTypes", true, `{%s:1}`},
		{"google.protobuf.Value", false, `%s`},
		{"google.protobuf.Struct", false, `{%s:[%s]}`},
		{"google.protobuf.StringValue", false, `%s`},
		{"google.protobuf.Any", false, `{"@type":"type.googleapis.com/google.protobuf.StringValue","value":%s}`},
	}
	templates := []struct {
		text string
		at   []int // byte offsets that take every value
	}{
		{`"\u00e9"`, []int{1, 2, 3, 4, 5, 6}},          // backslash, u, four hex digits
		{`"\ud834\udd1e"`, []int{7, 8, 9, 10, 11, 12}}, // the second half of a surrogate pair
		{`"a\nb"`, []int{2, 3}},                        // the character after a backslash
		{`"axb"`, []int{2}},                            // a raw byte in the body
		{`"\u0041\u0042"`, []int{6, 7, 8}},             // where one escape ends and the next begins
	}
	pbt.Enumerate(t, "escape-bytes",
		"string literals in which one byte of an escape form (backslash, 'u', each of the four hex digits, both halves of a surrogate pair, the character after a backslash, a raw body byte) takes every value 0..255, in every string-bearing frame (scalar field, map key, unknown member, Value, Struct key and element, StringValue, Any payload); same oracle as unmarshal-accepts-only-json; every case non-trivial",
		true,
		func(yield func(frameCase, bool) bool) {
			for _, f := range strFrames {
				for _, tp := range templates {
					for _, at := range tp.at {
						for b := 0; b < 256; b++ {
							k := []byte(tp.text)
							k[at] = byte(b)
							if !yield(frameCase{Type: f.typ, Discard: f.discard, Frame: f.frame, Const: string(k)}, true) {
								return
							}
						}
					}
				}
			}
		}, func(c frameCase) error {
			in := []byte(strings.ReplaceAll(c.Frame, "%s", c.Const))
			return checkInput(inCase{Type: c.Type, Discard: c.Discard, Input: in})
		})
}

// ---------------------------------------------------------------------------------------------
// Marshal outputs

type outCase struct {
	Type         string
	M            *model.Msg
	Indent       string
	ProtoNames   bool
	EnumNumbers  bool
	EmitUnpop    bool
	EmitDefaults bool
}

type outResult struct {
	err     bool
	size    int
	nodes   int
	feature bool
}

var outMemoKey string
var outMemo outResult

func evalOut(c outCase) (res outResult, err error) {
	key := fmt.Sprintf("%p|%s|%q|%v%v%v%v", c.M, c.Type, c.Indent, c.ProtoNames, c.EnumNumbers, c.EmitUnpop, c.EmitDefaults)
	if key == outMemoKey {
		return outMemo, nil
	}
	defer func() {
		if err == nil {
			outMemoKey, outMemo = key, res
		}
	}()
	var r outResult
	mt := corpus.ByName(c.Type)
	m := mt.New()
	if err := model.Apply(m, c.M, nil); err != nil {
		return r, fmt.Errorf("harness: %v", err)
	}
	base := protojson.MarshalOptions{AllowPartial: true, UseProtoNames: c.ProtoNames, UseEnumNumbers: c.EnumNumbers, EmitUnpopulated: c.EmitUnpop, EmitDefaultValues: c.EmitDefaults}
	compact, err1 := base.Marshal(m.Interface())
	ml := base
	ml.Multiline, ml.Indent = true, c.Indent
	indented, err2 := ml.Marshal(m.Interface())
	if (err1 == nil) != (err2 == nil) {
		return r, fmt.Errorf("Marshal error depends on Multiline/Indent: compact err=%v, multiline err=%v", err1, err2)
	}
	if err1 != nil {
		r.err = true
		return r, nil
	}
	var trees [2]*jdoc.Value
	for i, out := range [][]byte{compact, indented} {
		name := []string{"compact", "multiline"}[i]
		res := jdoc.Recognise(out, jdoc.Grammar{}, true)
		if std := stdjson.Valid(out); std != res.OK {
			return r, fmt.Errorf("ORACLE GUARD: recogniser %v vs encoding/json.Valid %v on %s output %q", res.OK, std, name, out)
		}
		if !res.OK {
			return r, fmt.Errorf("%s Marshal output is not a JSON text (first defect at byte %d): %q", name, res.ErrPos, out)
		}
		trees[i] = res.Value
		r.feature = r.feature || res.FracOrExp || res.Escape
	}
	if !jdoc.Equal(trees[0], trees[1]) {
		return r, fmt.Errorf("compact and multiline(indent %q) outputs parse to different JSON values:\n%s\n---\n%s", c.Indent, compact, indented)
	}
	// insignificant whitespace is the only permitted difference (sanity of the comparison itself)
	var a, b bytes.Buffer
	if stdjson.Compact(&a, compact) == nil && stdjson.Compact(&b, indented) == nil && !bytes.Equal(a.Bytes(), b.Bytes()) {
		pbt.S.AddExtra("outputs_equal_as_values_but_not_after_json.Compact", 1)
	}
	r.size, r.nodes = len(compact), jdoc.CountNodes(trees[0])
	return r, nil
}

func TestMarshalOutputsAreJSON(t *testing.T) {
	pbt.Run(t, pbt.Prop[outCase]{
		Name: "marshal-output-is-json",
		Rule: "message of any linked type from the descriptor-directed generator (valid UTF-8 strings, NaN/Inf/-0, maps, oneofs, groups, extensions, well-known types populated field-wise), options UseProtoNames/UseEnumNumbers/EmitUnpopulated/EmitDefaultValues drawn; marshalled compact and with Multiline + Indent in {\"\", \" \", \"\\t\", \"  \\t\"}. Oracle: both outputs valid per own recogniser == encoding/json.Valid, and both parse (own parser) to equal JSON values (objects unordered, numbers by value). non-trivial = Marshal succeeded, output has >= 8 values and contains an escape or a fraction/exponent number",
		Draw: func(t *rapid.T) outCase {
			c := outCase{Type: gen.TypeName(types, rich).Draw(t, "type")}
			if rapid.IntRange(0, 7).Draw(t, "wkt") == 0 {
				c.Type = rapid.SampledFrom([]string{"google.protobuf.Value", "google.protobuf.Struct", "google.protobuf.ListValue", "google.protobuf.Any", "google.protobuf.Timestamp", "google.protobuf.Duration", "google.protobuf.FieldMask", "google.protobuf.BytesValue", "google.protobuf.DoubleValue", "google.protobuf.StringValue"}).Draw(t, "wkttype")
			}
			mo := gen.DefaultMsgOpts
			mo.ValidUTF8 = true
			mo.Depth = 4
			mo.MaxFields = 8
			c.M = gen.DrawMessage(t, corpus.ByName(c.Type).Descriptor(), mo)
			c.Indent = rapid.SampledFrom([]string{"", " ", "\t", "  \t", "    "}).Draw(t, "indent")
			c.ProtoNames = rapid.Bool().Draw(t, "protonames")
			c.EnumNumbers = rapid.Bool().Draw(t, "enumnumbers")
			c.EmitUnpop = rapid.IntRange(0, 3).Draw(t, "unpop") == 0
			c.EmitDefaults = rapid.IntRange(0, 3).Draw(t, "defaults") == 0
			return c
		},
		Check: func(c outCase) error { _, err := evalOut(c); return err },
		NonTrivial: func(c outCase) bool {
			r, err := evalOut(c)
			return err == nil && !r.err && r.nodes >= 8 && r.feature
		},
		Classes: func(c outCase) []string {
			r, err := evalOut(c)
			if err != nil {
				return nil
			}
			out := []string{}
			if r.err {
				return []string{"marshal-error(allowed)"}
			}
			out = append(out, "marshal-ok")
			switch {
			case r.nodes < 8:
				out = append(out, "values<8")
			case r.nodes < 64:
				out = append(out, "values-8..63")
			default:
				out = append(out, "values>=64")
			}
			if r.feature {
				out = append(out, "escape-or-frac/exp")
			}
			if c.EmitUnpop {
				out = append(out, "emit-unpopulated")
			}
			if jdoc.IsSpecial(corpus.ByName(c.Type).Descriptor()) {
				out = append(out, "wkt-top-level")
			}
			return out
		},
		Quick: 16000, Thorough: 80000,
	})
}

// ---------------------------------------------------------------------------------------------
// known finding witness

func TestWitnessExponentWithoutDigits(t *testing.T) {
	in := []byte(`{"optional_int32":1e}`)
	m := corpus.ByName("goproto.proto.test.TestAllTypes").New().Interface()
	err := protojson.Unmarshal(in, m)
	reproduces := err == nil && !jdoc.Valid(in) && !stdjson.Valid(in)
	pbt.Witness(t, kfExp, reproduces, fmt.Sprintf("protojson.Unmarshal(%s) into test.TestAllTypes returned nil; encoding/json.Valid=false", in))
}
