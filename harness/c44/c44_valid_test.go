package c44

// C44, part 2: New / Append / IsValid accept exactly the paths that name a field reachable through
// singular message fields.
//
// Model: split the path at dots and walk the message descriptors; every segment must name a field
// of the current message (a group-like field is named by its type name, as the package spells
// groups), and every segment but the last must be a singular message field.

import (
	"fmt"
	"strings"
	"testing"
	"unicode"

	"google.golang.org/protobuf/proto"
	"google.golang.org/protobuf/reflect/protoreflect"
	"google.golang.org/protobuf/types/dynamicpb"
	"google.golang.org/protobuf/types/known/fieldmaskpb"
	"google.golang.org/protobuf/zverif/corpus"
	"google.golang.org/protobuf/zverif/pbt"
	"pgregory.net/rapid"
)

const kfDelimitedID = "KF-fieldmask-delimited-not-grouplike"

type verdict int

const (
	vInvalid verdict = iota
	vValid
	vKnownDelimited // valid by the model; passes through a DELIMITED field that is not group-like (kfDelimitedID)
	vUnasserted     // a group-like field spelled by its lower-case field name: accepted by other runtimes, rejected here; not asserted
)

// groupLike: the field looks like the synthetic field of a proto2 group (editions rule): delimited
// encoding, field name = lower-cased type name, type declared in the same file and scope as the field.
func groupLike(fd protoreflect.FieldDescriptor) bool {
	if fd.Kind() != protoreflect.GroupKind {
		return false
	}
	md := fd.Message()
	if strings.ToLower(string(md.Name())) != string(fd.Name()) {
		return false
	}
	if md.ParentFile().Path() != fd.ParentFile().Path() {
		return false
	}
	return md.FullName().Parent() == fd.FullName().Parent()
}

func resolve(md protoreflect.MessageDescriptor, path string) verdict {
	known := false
	cur := md
	for _, seg := range strings.Split(path, ".") {
		if cur == nil {
			return vInvalid // the previous segment was not a singular message field
		}
		var hit protoreflect.FieldDescriptor
		fs := cur.Fields()
		for i := 0; i < fs.Len() && hit == nil; i++ {
			fd := fs.Get(i)
			switch {
			case groupLike(fd):
				if string(fd.Message().Name()) == seg {
					hit = fd
				} else if string(fd.Name()) == seg {
					return vUnasserted
				}
			case string(fd.Name()) == seg:
				hit = fd
				if fd.Kind() == protoreflect.GroupKind {
					known = true
				}
			}
		}
		if hit == nil {
			return vInvalid
		}
		cur = nil
		if !hit.IsList() && !hit.IsMap() {
			cur = hit.Message()
		}
	}
	if known {
		return vKnownDelimited
	}
	return vValid
}

type validCase struct {
	Type  string
	Msg   string   // "new" | "zero" (typed nil pointer) | "dynamic"
	Pre   []string // paths already in the mask before Append (arbitrary, never validated)
	Paths []string
}

func (c validCase) message() proto.Message {
	mt := corpus.ByName(c.Type)
	switch c.Msg {
	case "zero":
		return mt.Zero().Interface()
	case "dynamic":
		return dynamicpb.NewMessage(mt.Descriptor())
	}
	return mt.New().Interface()
}

// effective drops the paths the check does not assert (see verdict) and returns the verdicts of the rest.
func (c validCase) effective() (paths []string, vs []verdict, dropped map[verdict]int) {
	md := corpus.ByName(c.Type).Descriptor()
	dropped = map[verdict]int{}
	knownListed := pbt.Known(kfDelimitedID)
	for _, p := range c.Paths {
		v := resolve(md, p)
		switch {
		case v == vUnasserted, v == vKnownDelimited && knownListed:
			dropped[v]++
			continue
		case v == vKnownDelimited:
			v = vValid // finding not listed: assert the model
		}
		paths = append(paths, p)
		vs = append(vs, v)
	}
	return
}

func checkValid(c validCase) error {
	paths, vs, dropped := c.effective()
	for i := 0; i < dropped[vKnownDelimited]; i++ {
		pbt.ExcludeKnown(kfDelimitedID)
	}
	m := c.message()
	name := m.ProtoReflect().Descriptor().FullName()
	nValid := len(paths)
	for i, v := range vs {
		if v != vValid {
			nValid = i
			break
		}
	}
	allValid := nValid == len(paths)

	// every path on its own, both directions
	for i, p := range paths {
		fm, err := fieldmaskpb.New(m, p)
		if (err == nil) != (vs[i] == vValid) {
			return fmt.Errorf("fieldmaskpb.New(%s, %q): err = %v, model says valid = %v", name, p, err, vs[i] == vValid)
		}
		if got := (&fieldmaskpb.FieldMask{Paths: []string{p}}).IsValid(m); got != (vs[i] == vValid) {
			return fmt.Errorf("FieldMask{%q}.IsValid(%s) = %v, model says %v", p, name, got, vs[i] == vValid)
		}
		if err == nil && !equalLists(fm.GetPaths(), []string{p}) {
			return fmt.Errorf("fieldmaskpb.New(%s, %q) holds %q", name, p, fm.GetPaths())
		}
	}
	// the list as a whole
	fm, err := fieldmaskpb.New(m, paths...)
	if (err == nil) != allValid {
		return fmt.Errorf("fieldmaskpb.New(%s, %q): err = %v, model says the first invalid index is %d of %d", name, paths, err, nValid, len(paths))
	}
	if fm == nil || !equalLists(fm.GetPaths(), paths[:nValid]) {
		return fmt.Errorf("fieldmaskpb.New(%s, %q) holds %q, want the valid prefix %q", name, paths, fm.GetPaths(), paths[:nValid])
	}
	if got := (&fieldmaskpb.FieldMask{Paths: append([]string(nil), paths...)}).IsValid(m); got != allValid {
		return fmt.Errorf("FieldMask{%q}.IsValid(%s) = %v, model says %v", paths, name, got, allValid)
	}
	if (*fieldmaskpb.FieldMask)(nil).IsValid(m) {
		return fmt.Errorf("nil FieldMask reported valid")
	}
	// Append to a mask that already holds something
	x := &fieldmaskpb.FieldMask{Paths: append([]string(nil), c.Pre...)}
	err = x.Append(m, paths...)
	if (err == nil) != allValid {
		return fmt.Errorf("Append(%s, %q): err = %v, model says the first invalid index is %d", name, paths, err, nValid)
	}
	if want := append(append([]string(nil), c.Pre...), paths[:nValid]...); !equalLists(x.Paths, want) {
		return fmt.Errorf("Append(%s, %q) onto %q left %q, want %q", name, paths, c.Pre, x.Paths, want)
	}
	return nil
}

// ---- path generator: a walk over the descriptors with right and nearly-right spellings ------------------------

func upperFirst(s string) string {
	if s == "" {
		return s
	}
	r := []rune(s)
	r[0] = unicode.ToUpper(r[0])
	return string(r)
}

// spellings of one field: index 0 is the spelling the model accepts
func spellings(fd protoreflect.FieldDescriptor) []string {
	name := string(fd.Name())
	canon := name
	if groupLike(fd) {
		canon = string(fd.Message().Name())
	}
	out := []string{canon, name, fd.JSONName(), fd.TextName(), strings.ToLower(canon), strings.ToUpper(name), upperFirst(name), name + "_", "_" + name, name[:len(name)-1], string(fd.FullName()), "[" + string(fd.FullName()) + "]", fmt.Sprint(fd.Number())}
	if fd.Message() != nil {
		out = append(out, string(fd.Message().Name()), strings.ToLower(string(fd.Message().Name())))
	}
	if od := fd.ContainingOneof(); od != nil {
		out = append(out, string(od.Name()))
	}
	return out
}

func drawPath(t *rapid.T, md protoreflect.MessageDescriptor) string {
	depth := rapid.IntRange(1, 4).Draw(t, "depth")
	sloppy := rapid.IntRange(0, 2).Draw(t, "sloppy") == 0 // one third of the paths may contain a wrong spelling
	var segs []string
	cur := md
	for i := 0; i < depth; i++ {
		if cur == nil || cur.Fields().Len() == 0 {
			segs = append(segs, rapid.SampledFrom([]string{"a", "value", "key", "optional_int32", "zz", ""}).Draw(t, "junk"))
			continue
		}
		fs := cur.Fields()
		// prefer fields one can continue through when more segments follow
		var pick protoreflect.FieldDescriptor
		if i+1 < depth && rapid.IntRange(0, 9).Draw(t, "deep?") < 8 {
			var msgs []protoreflect.FieldDescriptor
			for j := 0; j < fs.Len(); j++ {
				if fd := fs.Get(j); fd.Message() != nil && (!fd.IsList() && !fd.IsMap() || rapid.IntRange(0, 5).Draw(t, "viaRepeated?") == 0) {
					msgs = append(msgs, fd)
				}
			}
			if len(msgs) > 0 {
				pick = msgs[rapid.IntRange(0, len(msgs)-1).Draw(t, "msgfield")]
			}
		}
		if pick == nil {
			pick = fs.Get(rapid.IntRange(0, fs.Len()-1).Draw(t, "field"))
		}
		sp := spellings(pick)
		seg := sp[0]
		if sloppy && rapid.IntRange(0, 2).Draw(t, "wrong?") == 0 {
			seg = sp[rapid.IntRange(1, len(sp)-1).Draw(t, "spelling")]
		}
		segs = append(segs, seg)
		cur = pick.Message()
		if pick.IsMap() {
			cur = pick.MapValue().Message()
		}
	}
	p := strings.Join(segs, ".")
	if sloppy {
		switch rapid.IntRange(0, 11).Draw(t, "decorate") {
		case 0:
			p += "."
		case 1:
			p = "." + p
		case 2:
			p = strings.Replace(p, ".", "..", 1)
		case 3:
			p += " "
		}
	}
	return p
}

var (
	validTypes   = corpus.Standard()
	groupyTypes  []string // types with a delimited (group-kind) field within two levels
	messageTypes []string // types with at least one singular message field
	coreTypes    = []string{
		"goproto.proto.test.TestAllTypes", "goproto.proto.test3.TestAllTypes", "goproto.proto.testeditions.TestAllTypes",
		"opaque.goproto.proto.testeditions.TestAllTypes", "hybrid.goproto.proto.testeditions.TestAllTypes",
		"pbeditions.Nests", "protobuf_test_messages.editions.TestAllTypesEdition2023",
		"protobuf_test_messages.editions.proto2.TestAllTypesProto2", "goproto.proto.test.TestAllTypesProto2Editions",
		"goproto.proto.testrequired.Group", "google.protobuf.FileDescriptorProto", "google.protobuf.Value", "pb2.Nests",
	}
)

func hasGroupWithin(md protoreflect.MessageDescriptor, depth int) bool {
	fs := md.Fields()
	for i := 0; i < fs.Len(); i++ {
		fd := fs.Get(i)
		if fd.Kind() == protoreflect.GroupKind {
			return true
		}
		if depth > 1 && fd.Message() != nil && fd.Message().FullName() != md.FullName() && hasGroupWithin(fd.Message(), depth-1) {
			return true
		}
	}
	return false
}

func init() {
	var core []string
	std := map[string]bool{}
	for _, n := range validTypes {
		std[n] = true
	}
	for _, n := range coreTypes {
		if std[n] {
			core = append(core, n)
		}
	}
	coreTypes = core
	for _, n := range validTypes {
		md := corpus.ByName(n).Descriptor()
		if hasGroupWithin(md, 2) {
			groupyTypes = append(groupyTypes, n)
		}
		fs := md.Fields()
		for i := 0; i < fs.Len(); i++ {
			if fd := fs.Get(i); fd.Message() != nil && !fd.IsList() && !fd.IsMap() {
				messageTypes = append(messageTypes, n)
				break
			}
		}
	}
}

func drawValid(t *rapid.T) validCase {
	c := validCase{Msg: rapid.SampledFrom([]string{"new", "new", "zero", "dynamic"}).Draw(t, "msg")}
	switch rapid.IntRange(0, 3).Draw(t, "typeclass") {
	case 0:
		c.Type = rapid.SampledFrom(coreTypes).Draw(t, "core")
	case 1:
		c.Type = rapid.SampledFrom(groupyTypes).Draw(t, "groupy")
	case 2:
		c.Type = rapid.SampledFrom(messageTypes).Draw(t, "withmsg")
	default:
		c.Type = rapid.SampledFrom(validTypes).Draw(t, "any")
	}
	md := corpus.ByName(c.Type).Descriptor()
	for i, n := 0, rapid.IntRange(0, 4).Draw(t, "npaths"); i < n; i++ {
		c.Paths = append(c.Paths, drawPath(t, md))
	}
	for i, n := 0, rapid.IntRange(0, 2).Draw(t, "npre"); i < n; i++ {
		c.Pre = append(c.Pre, rapid.SampledFrom([]string{"x", "a.b", "", "optional_int32", "not a path"}).Draw(t, "pre"))
	}
	return c
}

func pathShape(md protoreflect.MessageDescriptor, p string) []string {
	var out []string
	cur := md
	for _, seg := range strings.Split(p, ".") {
		if cur == nil {
			break
		}
		var hit protoreflect.FieldDescriptor
		for i := 0; i < cur.Fields().Len(); i++ {
			fd := cur.Fields().Get(i)
			if string(fd.Name()) == seg || (groupLike(fd) && string(fd.Message().Name()) == seg) {
				hit = fd
			}
		}
		if hit == nil {
			break
		}
		switch {
		case groupLike(hit):
			out = append(out, "through-group")
		case hit.Kind() == protoreflect.GroupKind:
			out = append(out, "through-delimited-not-grouplike")
		case hit.IsMap():
			out = append(out, "through-map")
		case hit.IsList():
			out = append(out, "through-repeated")
		case hit.ContainingOneof() != nil && !hit.ContainingOneof().IsSynthetic():
			out = append(out, "through-oneof-member")
		}
		cur = nil
		if !hit.IsList() && !hit.IsMap() {
			cur = hit.Message()
		}
	}
	return out
}

func validClasses(c validCase) []string {
	md := corpus.ByName(c.Type).Descriptor()
	set := map[string]bool{"msg-" + c.Msg: true, fmt.Sprintf("paths-%d", len(c.Paths)): true}
	for _, p := range c.Paths {
		switch resolve(md, p) {
		case vValid:
			set[fmt.Sprintf("valid-depth-%d", strings.Count(p, ".")+1)] = true
			set["has-valid"] = true
		case vInvalid:
			set["has-invalid"] = true
			if malformed(p) {
				set["invalid-malformed"] = true
			}
		case vKnownDelimited:
			set["known-delimited"] = true
		case vUnasserted:
			set["unasserted-group-by-field-name"] = true
		}
		for _, s := range pathShape(md, p) {
			set[s] = true
		}
	}
	if set["has-valid"] && set["has-invalid"] {
		set["mixed-list"] = true
	}
	return keys(set)
}

func validNonTrivial(c validCase) bool {
	md := corpus.ByName(c.Type).Descriptor()
	for _, p := range c.Paths {
		if strings.Contains(p, ".") && len(pathShape(md, p)) > 0 {
			return true // at least two segments and a group / repeated / map / oneof member on the way
		}
	}
	return false
}

func TestValidRandom(t *testing.T) {
	pbt.Run(t, pbt.Prop[validCase]{
		Name: "valid-random",
		Rule: "message type from the corpus (core test messages with proto2 groups and editions DELIMITED fields, types with groups within two levels, types with message fields, any type; generated, typed-nil or dynamicpb); 0..4 paths from a walk over the descriptors to depth 4, steering through message fields (sometimes through repeated/map fields), spelling each segment correctly or by a near miss (field name of a group, JSON name, text name, case changes, type name, oneof name, full name, number, truncated), sometimes decorated with empty segments; New, IsValid and Append (onto a non-empty mask) vs the descriptor-walk model, per path and per list. non-trivial = a path of >= 2 segments that meets a group, delimited, repeated, map or oneof-member field",
		Draw: drawValid, Check: checkValid, NonTrivial: validNonTrivial, Classes: validClasses,
		Quick: 30000, Thorough: 300000,
	})
}

// every depth-1 and depth-2 path built from all spellings, for the core types
func TestValidEnum(t *testing.T) {
	pbt.Enumerate(t, "valid-enum", "for each core test message (proto2 groups, editions DELIMITED, proto3, descriptor.proto): every spelling variant of every field as a one-segment path, and (correct spelling of every field) x (every spelling variant of every field of its message type, or two junk names when it has none) as two-segment paths; non-trivial = two segments", true,
		func(yield func(validCase, bool) bool) {
			idx := int64(0)
			emit := func(typ, p string, nt bool) bool {
				idx++
				if idx%pbt.NShards != pbt.Shard {
					return true
				}
				return yield(validCase{Type: typ, Msg: "new", Paths: []string{p}}, nt)
			}
			for _, typ := range coreTypes {
				md := corpus.ByName(typ).Descriptor()
				fs := md.Fields()
				for i := 0; i < fs.Len(); i++ {
					fd := fs.Get(i)
					for _, s := range spellings(fd) {
						if !emit(typ, s, false) {
							return
						}
					}
					first := spellings(fd)[0]
					sub := fd.Message()
					if fd.IsMap() {
						sub = fd.MapValue().Message()
					}
					if sub == nil {
						if !emit(typ, first+".value", true) || !emit(typ, first+"."+first, true) {
							return
						}
						continue
					}
					for j := 0; j < sub.Fields().Len(); j++ {
						for _, s := range spellings(sub.Fields().Get(j)) {
							if !emit(typ, first+"."+s, true) {
								return
							}
						}
					}
				}
			}
		}, checkValid)
}

func TestKnownDelimitedWitness(t *testing.T) {
	if pbt.ReplayPath != "" {
		t.Skip()
	}
	m := corpus.ByName("goproto.proto.testeditions.TestAllTypes").New().Interface()
	fd := m.ProtoReflect().Descriptor().Fields().ByName("not_group_like_delimited")
	if fd == nil {
		t.Fatal("harness: testeditions.TestAllTypes.not_group_like_delimited is gone")
	}
	_, err1 := fieldmaskpb.New(m, "not_group_like_delimited")
	_, err2 := fieldmaskpb.New(m, "not_group_like_delimited.a")
	_, err3 := fieldmaskpb.New(m, "OptionalGroup.a") // the group-like sibling of the same type is reachable
	pbt.Witness(t, kfDelimitedID, err1 != nil && err2 != nil && err3 == nil,
		fmt.Sprintf("fieldmaskpb.New(&testeditions.TestAllTypes{}, \"not_group_like_delimited\") = %v; field %s exists, kind %v, message %s", err1, fd.FullName(), fd.Kind(), fd.Message().FullName()))
}
