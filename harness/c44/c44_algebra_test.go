package c44

// C44, part 1: Normalize / Union / Intersect against a coverage model.
//
// Model (written from the FieldMask documentation, shares nothing with the implementation):
// a listed path p covers a path q iff q == p or q begins with p + ".". Two lists cover the same
// paths iff their sets of minimal elements (paths not strictly covered by another listed path)
// are equal, so the expected result of every operation is a unique *set*:
//   Normalize(L)      = minimal(L)
//   Union(A, B, …)    = minimal(A ∪ B ∪ …)
//   Intersect(A, B, …) = minimal({ the longer of p, q : p ∈ A, q ∈ B, one covers the other }) folded over the masks
// plus: sorted (dot ranks below every other byte), idempotent, subset of the inputs, inputs untouched.
// The coverage statement is also evaluated directly on probe paths (every input path, every
// segment prefix of one, and each of those extended by one more segment).

import (
	"fmt"
	"sort"
	"strings"
	"testing"

	"google.golang.org/protobuf/types/known/fieldmaskpb"
	"google.golang.org/protobuf/zverif/corpus"
	"google.golang.org/protobuf/zverif/pbt"
	"pgregory.net/rapid"
)

func covers(p, q string) bool { return p == q || strings.HasPrefix(q, p+".") }

func coveredBy(list []string, q string) bool {
	for _, p := range list {
		if covers(p, q) {
			return true
		}
	}
	return false
}

func minimal(paths []string) map[string]bool {
	out := map[string]bool{}
	for _, p := range paths {
		strictlyCovered := false
		for _, o := range paths {
			if o != p && covers(o, p) {
				strictlyCovered = true
				break
			}
		}
		if !strictlyCovered {
			out[p] = true
		}
	}
	return out
}

func modelIntersect(masks [][]string) map[string]bool {
	cur := append([]string(nil), masks[0]...)
	for _, b := range masks[1:] {
		var next []string
		for _, p := range cur {
			for _, q := range b {
				switch {
				case covers(p, q):
					next = append(next, q)
				case covers(q, p):
					next = append(next, p)
				}
			}
		}
		cur = next
	}
	return minimal(cur)
}

// refOrder: -1 x before y, +1 after, 0 equal or unspecified. '.' ranks below every other byte and a
// proper prefix before its extensions; bytes above '.' (every character a field name can contain)
// compare bytewise; the relative order of bytes below '.' is not documented and not asserted.
func refOrder(x, y string) int {
	for i := 0; i < len(x) && i < len(y); i++ {
		if x[i] == y[i] {
			continue
		}
		switch {
		case x[i] == '.':
			return -1
		case y[i] == '.':
			return +1
		case x[i] < '.' || y[i] < '.':
			return 0
		case x[i] < y[i]:
			return -1
		}
		return +1
	}
	switch {
	case len(x) < len(y):
		return -1
	case len(x) > len(y):
		return +1
	}
	return 0
}

func setOf(l []string) map[string]bool {
	m := map[string]bool{}
	for _, p := range l {
		m[p] = true
	}
	return m
}

func sameSet(got []string, want map[string]bool) bool {
	if len(got) != len(want) {
		return false
	}
	for _, p := range got {
		if !want[p] {
			return false
		}
	}
	return true
}

func keys(m map[string]bool) []string {
	var out []string
	for k := range m {
		out = append(out, k)
	}
	sort.Strings(out)
	return out
}

func equalLists(a, b []string) bool {
	if len(a) != len(b) {
		return false
	}
	for i := range a {
		if a[i] != b[i] {
			return false
		}
	}
	return true
}

// canonical checks what every result of the three operations must satisfy.
func canonical(op string, out []string, inputs [][]string) error {
	all := map[string]bool{}
	for _, in := range inputs {
		for _, p := range in {
			all[p] = true
		}
	}
	for i, p := range out {
		if !all[p] {
			return fmt.Errorf("%s result %q contains %q which is in no input", op, out, p)
		}
		if i > 0 {
			if out[i-1] == p {
				return fmt.Errorf("%s result %q lists %q twice", op, out, p)
			}
			if refOrder(out[i-1], p) > 0 {
				return fmt.Errorf("%s result %q is not sorted: %q before %q", op, out, out[i-1], p)
			}
		}
		for j, o := range out {
			if i != j && covers(o, p) {
				return fmt.Errorf("%s result %q is not prefix-free: %q covers %q", op, out, o, p)
			}
		}
	}
	return nil
}

func probes(inputs [][]string) []string {
	seen := map[string]bool{}
	var out []string
	add := func(q string) {
		if !seen[q] {
			seen[q] = true
			out = append(out, q)
		}
	}
	for _, in := range inputs {
		for _, p := range in {
			add(p)
			add(p + ".zz")
			for i := 0; i < len(p); i++ {
				if p[i] == '.' {
					add(p[:i])
					add(p[:i] + ".zz")
				}
			}
		}
	}
	return out
}

type algCase struct {
	Masks [][]string
	Nil   []bool // Nil[i]: pass a nil *FieldMask for mask i (treated as the empty mask)
}

func (c algCase) mask(i int) *fieldmaskpb.FieldMask {
	if i < len(c.Nil) && c.Nil[i] {
		return nil
	}
	return &fieldmaskpb.FieldMask{Paths: append([]string(nil), c.Masks[i]...)}
}

func (c algCase) paths(i int) []string {
	if i < len(c.Nil) && c.Nil[i] {
		return nil
	}
	return c.Masks[i]
}

func checkAlg(c algCase) error {
	var inputs [][]string
	for i := range c.Masks {
		inputs = append(inputs, c.paths(i))
	}
	// Normalize, every mask on its own
	for i, in := range inputs {
		if i < len(c.Nil) && c.Nil[i] {
			continue
		}
		m := c.mask(i)
		m.Normalize()
		out := append([]string(nil), m.Paths...)
		if err := canonical("Normalize", out, [][]string{in}); err != nil {
			return fmt.Errorf("input %q: %v", in, err)
		}
		if want := minimal(in); !sameSet(out, want) {
			return fmt.Errorf("Normalize(%q) = %q, paths covering exactly the same set are %q", in, out, keys(want))
		}
		for _, q := range probes([][]string{in}) {
			if coveredBy(out, q) != coveredBy(in, q) {
				return fmt.Errorf("Normalize(%q) = %q: coverage of %q changed from %v to %v", in, out, q, coveredBy(in, q), coveredBy(out, q))
			}
		}
		m.Normalize()
		if !equalLists(m.Paths, out) {
			return fmt.Errorf("Normalize is not idempotent: %q -> %q -> %q", in, out, m.Paths)
		}
	}
	if len(inputs) < 2 {
		return nil
	}
	ms := make([]*fieldmaskpb.FieldMask, len(inputs))
	for i := range inputs {
		ms[i] = c.mask(i)
	}
	unchanged := func(op string) error {
		for i, m := range ms {
			if m != nil && !equalLists(m.Paths, inputs[i]) {
				return fmt.Errorf("%s modified its input mask %d: %q -> %q", op, i, inputs[i], m.Paths)
			}
		}
		return nil
	}
	qs := probes(inputs)

	u := fieldmaskpb.Union(ms[0], ms[1], ms[2:]...)
	if u == nil {
		return fmt.Errorf("Union returned nil")
	}
	if err := unchanged("Union"); err != nil {
		return err
	}
	if err := canonical("Union", u.Paths, inputs); err != nil {
		return fmt.Errorf("inputs %q: %v", inputs, err)
	}
	var cat []string
	for _, in := range inputs {
		cat = append(cat, in...)
	}
	if want := minimal(cat); !sameSet(u.Paths, want) {
		return fmt.Errorf("Union(%q) = %q, want the set %q", inputs, u.Paths, keys(want))
	}
	for _, q := range qs {
		want := false
		for _, in := range inputs {
			want = want || coveredBy(in, q)
		}
		if got := coveredBy(u.Paths, q); got != want {
			return fmt.Errorf("Union(%q) = %q: covers %q = %v, want %v", inputs, u.Paths, q, got, want)
		}
	}

	x := fieldmaskpb.Intersect(ms[0], ms[1], ms[2:]...)
	if x == nil {
		return fmt.Errorf("Intersect returned nil")
	}
	if err := unchanged("Intersect"); err != nil {
		return err
	}
	if err := canonical("Intersect", x.Paths, inputs); err != nil {
		return fmt.Errorf("inputs %q: %v", inputs, err)
	}
	if want := modelIntersect(inputs); !sameSet(x.Paths, want) {
		return fmt.Errorf("Intersect(%q) = %q, want the set %q", inputs, x.Paths, keys(want))
	}
	for _, q := range qs {
		want := true
		for _, in := range inputs {
			want = want && coveredBy(in, q)
		}
		if got := coveredBy(x.Paths, q); got != want {
			return fmt.Errorf("Intersect(%q) = %q: covers %q = %v, want %v", inputs, x.Paths, q, got, want)
		}
	}
	return nil
}

// ---- classification -----------------------------------------------------------------------------------

func hasStrictCover(l []string) bool {
	for _, p := range l {
		for _, q := range l {
			if p != q && covers(p, q) {
				return true
			}
		}
	}
	return false
}

// sandwich: p strictly covers q and some listed r, unrelated to p, lies between them bytewise — the
// arrangement in which plain string sorting separates a path from the prefix that makes it redundant.
func hasSandwich(l []string) bool {
	for _, p := range l {
		for _, q := range l {
			if p == q || !covers(p, q) {
				continue
			}
			for _, r := range l {
				if !covers(p, r) && p < r && r < q {
					return true
				}
			}
		}
	}
	return false
}

func hasDup(l []string) bool { return len(setOf(l)) < len(l) }

func malformed(p string) bool {
	return p == "" || strings.HasPrefix(p, ".") || strings.HasSuffix(p, ".") || strings.Contains(p, "..")
}

func algNonTrivial(c algCase) bool {
	var cat []string
	n := 0
	for i := range c.Masks {
		cat = append(cat, c.paths(i)...)
		if len(c.paths(i)) > 0 {
			n++
		}
	}
	if len(c.Masks) == 1 {
		return hasStrictCover(cat) && len(setOf(cat)) >= 3
	}
	return n >= 2 && hasStrictCover(cat) && len(setOf(cat)) >= 3
}

func algClasses(c algCase) []string {
	out := []string{fmt.Sprintf("masks-%d", len(c.Masks))}
	var cat []string
	for i := range c.Masks {
		cat = append(cat, c.paths(i)...)
		if i < len(c.Nil) && c.Nil[i] {
			out = append(out, "nil-mask")
		} else if len(c.Masks[i]) == 0 {
			out = append(out, "empty-mask")
		}
	}
	if hasStrictCover(cat) {
		out = append(out, "prefix-pair")
	}
	if hasSandwich(cat) {
		out = append(out, "bytewise-sandwich")
	}
	if hasDup(cat) {
		out = append(out, "duplicates")
	}
	for _, p := range cat {
		if malformed(p) {
			out = append(out, "malformed-path")
			break
		}
	}
	for _, p := range cat {
		if strings.ContainsAny(p, "-+ ,!$") {
			out = append(out, "byte-below-dot")
			break
		}
	}
	if len(c.Masks) >= 2 {
		inputs := [][]string{}
		for i := range c.Masks {
			inputs = append(inputs, c.paths(i))
		}
		if len(modelIntersect(inputs)) > 0 {
			out = append(out, "intersection-nonempty")
		} else {
			out = append(out, "intersection-empty")
		}
	}
	return out
}

// ---- exhaustive universes -----------------------------------------------------------------------------

func pathsOver(segs []string, depth int) []string {
	var out []string
	var rec func(prefix string, d int)
	rec = func(prefix string, d int) {
		for _, s := range segs {
			p := s
			if prefix != "" {
				p = prefix + "." + s
			}
			out = append(out, p)
			if d+1 < depth {
				rec(p, d+1)
			}
		}
	}
	rec("", 0)
	return out
}

// universe1: every path of depth <= 3 over {a, b, ab}, plus the depth <= 2 paths over {a, a-, b}
// that contain the segment "a-" ('-' is the byte just below '.').
func universe1() []string {
	out := pathsOver([]string{"a", "b", "ab"}, 3)
	for _, p := range pathsOver([]string{"a", "a-", "b"}, 2) {
		if strings.Contains(p, "-") {
			out = append(out, p)
		}
	}
	return out
}

var universe2 = []string{"a", "b", "ab", "a.a", "a.b", "a.ab", "ab.a", "a.b.a", "a-", "a-.b", "a.a-"}

func TestNormalizeEnum(t *testing.T) {
	u := universe1()
	maxLen := 3
	if pbt.Thorough() {
		maxLen = 4
	}
	rule := fmt.Sprintf("Normalize on every ordered list of <= %d paths over a %d-path universe (depth <= 3 over segments a, b, ab; depth <= 2 with the segment a-); thorough tier: <= 4 paths, split over the shards. non-trivial = some path strictly covers another and >= 3 distinct paths", maxLen, len(u))
	pbt.Enumerate(t, "normalize-enum", rule, true,
		func(yield func(algCase, bool) bool) {
			idx := int64(0)
			var rec func(cur []string) bool
			rec = func(cur []string) bool {
				idx++
				if idx%pbt.NShards == pbt.Shard {
					c := algCase{Masks: [][]string{append([]string{}, cur...)}}
					if !yield(c, algNonTrivial(c)) {
						return false
					}
				}
				if len(cur) == maxLen {
					return true
				}
				for _, p := range u {
					if !rec(append(cur, p)) {
						return false
					}
				}
				return true
			}
			rec(nil)
		}, checkAlg)
}

func TestSetOpsEnum(t *testing.T) {
	var masks [][]string
	masks = append(masks, []string{})
	for _, p := range universe2 {
		masks = append(masks, []string{p})
	}
	for _, p := range universe2 {
		for _, q := range universe2 {
			masks = append(masks, []string{p, q})
		}
	}
	arity := 2
	if pbt.Thorough() {
		arity = 3
	}
	rule := fmt.Sprintf("Union and Intersect of every %d-tuple of masks, each mask an ordered list of <= 2 paths over the %d-path universe %q (%d masks); thorough tier: triples, split over the shards. non-trivial = >= 2 non-empty masks, a strict prefix pair, >= 3 distinct paths", arity, len(universe2), universe2, len(masks))
	pbt.Enumerate(t, "setops-enum", rule, true,
		func(yield func(algCase, bool) bool) {
			idx := int64(0)
			for _, a := range masks {
				for _, b := range masks {
					if arity == 2 {
						idx++
						c := algCase{Masks: [][]string{a, b}}
						if !yield(c, algNonTrivial(c)) {
							return
						}
						continue
					}
					for _, d := range masks {
						idx++
						if idx%pbt.NShards != pbt.Shard {
							continue
						}
						c := algCase{Masks: [][]string{a, b, d}}
						if !yield(c, algNonTrivial(c)) {
							return
						}
					}
				}
			}
		}, checkAlg)
}

// ---- random lists ------------------------------------------------------------------------------------

var smallSegs = []string{"a", "b", "ab", "a-", "a_", "aa", "A", "a0", "ba"}
var oddSegs = []string{"", "a b", "a+", "a,", "a/", "a:", "`k.v`", "é", "a.", "-"}

// realPaths: paths made of real field names of a corpus message (names only; validity is not at stake here).
func drawRealPath(t *rapid.T, typ string) string {
	md := corpus.ByName(typ).Descriptor()
	depth := rapid.IntRange(1, 4).Draw(t, "depth")
	var segs []string
	for i := 0; i < depth && md != nil && md.Fields().Len() > 0; i++ {
		fd := md.Fields().Get(rapid.IntRange(0, md.Fields().Len()-1).Draw(t, "field"))
		segs = append(segs, string(fd.Name()))
		md = fd.Message()
	}
	return strings.Join(segs, ".")
}

var algTypes = []string{"goproto.proto.test.TestAllTypes", "goproto.proto.test3.TestAllTypes", "goproto.proto.testeditions.TestAllTypes", "google.protobuf.FileDescriptorProto", "google.protobuf.FieldOptions"}

func drawAlg(t *rapid.T) algCase {
	mode := rapid.IntRange(0, 3).Draw(t, "alphabet") // 0,1 small alphabet; 2 corpus names; 3 small + odd segments
	typ := ""
	if mode == 2 {
		typ = rapid.SampledFrom(algTypes).Draw(t, "type")
	}
	drawPath := func(label string) string {
		if mode == 2 {
			return drawRealPath(t, typ)
		}
		n := rapid.IntRange(1, 4).Draw(t, label+"depth")
		segs := make([]string, n)
		for i := range segs {
			if mode == 3 && rapid.IntRange(0, 3).Draw(t, "odd?") == 0 {
				segs[i] = rapid.SampledFrom(oddSegs).Draw(t, "oddseg")
			} else {
				segs[i] = rapid.SampledFrom(smallSegs).Draw(t, "seg")
			}
		}
		return strings.Join(segs, ".")
	}
	// a pool with planted prefix relations, shared by all masks so that they overlap
	var pool []string
	for i, n := 0, rapid.IntRange(2, 7).Draw(t, "poolsize"); i < n; i++ {
		p := drawPath("pool")
		pool = append(pool, p)
		switch rapid.IntRange(0, 4).Draw(t, "derive") {
		case 0:
			if j := strings.LastIndexByte(p, '.'); j >= 0 {
				pool = append(pool, p[:j])
			}
		case 1:
			if j := strings.IndexByte(p, '.'); j >= 0 {
				pool = append(pool, p[:j])
			}
		case 2:
			pool = append(pool, p+"."+drawPath("ext"))
		case 3: // a sibling that shares the text but not the segment boundary: "ab" next to "a.b"
			pool = append(pool, strings.Replace(p, ".", "", 1), p+"x", p+"-")
		}
	}
	sandwich := mode != 2 && rapid.IntRange(0, 2).Draw(t, "sandwich?") == 1
	if sandwich {
		// p, an extension of p, and an unrelated sibling that sorts between them bytewise
		p := pool[0]
		pool = append(pool, p+rapid.SampledFrom([]string{"-", "-a", "+", " ", ",b", "!"}).Draw(t, "between"), p+"."+drawPath("sext"))
	}
	c := algCase{}
	for i, n := 0, rapid.IntRange(1, 4).Draw(t, "nmasks"); i < n; i++ {
		if rapid.IntRange(0, 29).Draw(t, "nil?") == 17 {
			c.Masks = append(c.Masks, nil)
			c.Nil = append(c.Nil, true)
			continue
		}
		k := rapid.IntRange(1, 6).Draw(t, "npaths")
		if rapid.IntRange(0, 19).Draw(t, "empty?") == 13 {
			k = 0
		}
		m := []string{}
		for j := 0; j < k; j++ {
			if sandwich && rapid.Bool().Draw(t, "fromSandwich") {
				m = append(m, pool[rapid.SampledFrom([]int{0, len(pool) - 2, len(pool) - 1}).Draw(t, "sw")])
				continue
			}
			m = append(m, rapid.SampledFrom(pool).Draw(t, "path"))
		}
		c.Masks = append(c.Masks, m)
		c.Nil = append(c.Nil, false)
	}
	return c
}

func TestAlgebraRandom(t *testing.T) {
	pbt.Run(t, pbt.Prop[algCase]{
		Name: "algebra-random",
		Rule: "1..4 masks (occasionally nil) of 0..6 paths drawn from a shared pool with planted prefixes, extensions and look-alike siblings (ab / a.b / a.bx / a.b-); segments from a small alphabet, from real field names of corpus messages, or odd (empty segments, bytes below '.', quoted map keys); Normalize of each mask and Union/Intersect of all of them vs the coverage model. non-trivial = a strict prefix pair, >= 3 distinct paths and (for several masks) >= 2 non-empty masks",
		Draw: drawAlg, Check: checkAlg, NonTrivial: algNonTrivial, Classes: algClasses,
		Quick: 40000, Thorough: 400000,
	})
}
