package c18

import (
	"bytes"
	"strings"
	"encoding/json"
	"fmt"
	"reflect"
	"runtime"
	"sort"
	"sync"
	"sync/atomic"
	"testing"
	"time"
	"unsafe"

	"google.golang.org/protobuf/encoding/protojson"
	"google.golang.org/protobuf/encoding/prototext"
	"google.golang.org/protobuf/internal/impl"
	"google.golang.org/protobuf/proto"
	"google.golang.org/protobuf/reflect/protoreflect"
	"google.golang.org/protobuf/zverif/corpus"
	"google.golang.org/protobuf/zverif/gen"
	"google.golang.org/protobuf/zverif/mcase"
	"google.golang.org/protobuf/zverif/model"
	"google.golang.org/protobuf/zverif/pbt"
	"pgregory.net/rapid"
)

// a read-only operation of one reader
type readOp struct {
	Kind string  // get | has | size | marshal | detmarshal | equal | clone | json | text | checkinit | range
	Path []int32 // chain of singular message field numbers to descend first
	Num  int32   // field for get/has
}

type concCase struct {
	Type     string
	M        *model.Msg
	Wire     []byte
	Readers  [][]readOp
	Barrier  int   // how many decoders of one field wait for each other before publishing (0 = none)
	Yields   []int // per hook arrival (cyclic): number of Gosched calls
	Procs    int
	AllowPar bool
	NonMin   bool // the encoding is not the minimal one (any perturbation applied)
}

func descend(m protoreflect.Message, path []int32) (protoreflect.Message, bool) {
	for _, n := range path {
		fd := m.Descriptor().Fields().ByNumber(protoreflect.FieldNumber(n))
		if fd == nil || fd.Message() == nil || fd.IsList() || fd.IsMap() {
			return nil, false
		}
		if !m.Has(fd) {
			return nil, false
		}
		m = m.Get(fd).Message()
	}
	return m, true
}

func ident(m protoreflect.Message) uintptr {
	v := reflect.ValueOf(m.Interface())
	if v.Kind() == reflect.Ptr {
		return v.Pointer()
	}
	return 0
}

// perform runs one read-only op and returns a comparable observation plus, for get of a message
// field, the identity of the submessage obtained.
func perform(root protoreflect.Message, op readOp) (string, uintptr, error) {
	m, ok := descend(root, op.Path)
	if !ok {
		return "unreachable", 0, nil
	}
	switch op.Kind {
	case "has", "get":
		fd := m.Descriptor().Fields().ByNumber(protoreflect.FieldNumber(op.Num))
		if fd == nil {
			return "nofield", 0, nil
		}
		if op.Kind == "has" {
			return fmt.Sprint(m.Has(fd)), 0, nil
		}
		v := m.Get(fd)
		switch {
		case fd.IsList():
			return fmt.Sprintf("list-%d", v.List().Len()), 0, nil
		case fd.IsMap():
			return fmt.Sprintf("map-%d", v.Map().Len()), 0, nil
		case fd.Message() != nil:
			js, _ := json.Marshal(model.Snapshot(v.Message()))
			var id uintptr
			if m.Has(fd) {
				id = ident(v.Message())
			}
			return string(js), id, nil
		}
		return fmt.Sprintf("%+v", model.FromValue(fd, v)), 0, nil
	case "size":
		return fmt.Sprint(proto.Size(m.Interface()) >= 0), 0, nil
	case "marshal":
		b, err := proto.MarshalOptions{AllowPartial: true}.Marshal(m.Interface())
		if err != nil {
			return "", 0, err
		}
		d := m.New()
		if err := (proto.UnmarshalOptions{AllowPartial: true, NoLazyDecoding: true}).Unmarshal(b, d.Interface()); err != nil {
			return "", 0, fmt.Errorf("Marshal output does not decode: %v", err)
		}
		js, _ := json.Marshal(model.Snapshot(d))
		return string(js), 0, nil
	case "detmarshal":
		b, err := proto.MarshalOptions{AllowPartial: true, Deterministic: true}.Marshal(m.Interface())
		return fmt.Sprintf("%x", b), 0, err
	case "equal":
		return fmt.Sprint(proto.Equal(m.Interface(), m.Interface()), proto.Equal(m.Interface(), m.New().Interface())), 0, nil
	case "clone":
		c := proto.Clone(m.Interface())
		js, _ := json.Marshal(model.Snapshot(c.ProtoReflect()))
		return string(js), 0, nil
	case "json":
		b, err := protojson.MarshalOptions{AllowPartial: true}.Marshal(m.Interface())
		return string(b), 0, err
	case "text":
		b, err := prototext.MarshalOptions{AllowPartial: true}.Marshal(m.Interface())
		return string(b), 0, err
	case "checkinit":
		return fmt.Sprint(proto.CheckInitialized(m.Interface()) == nil), 0, nil
	case "range":
		n := 0
		m.Range(func(protoreflect.FieldDescriptor, protoreflect.Value) bool { n++; return true })
		return fmt.Sprint(n), 0, nil
	}
	return "", 0, fmt.Errorf("harness: unknown op %s", op.Kind)
}

var (
	casWon, casLost, barriers atomic.Int64
	hookMu                    sync.Mutex // serialises cases (the hook is global)
)

type fieldKey struct {
	msg unsafe.Pointer
	num protoreflect.FieldNumber
}

func checkConc(c concCase) error {
	hookMu.Lock()
	defer hookMu.Unlock()
	old := runtime.GOMAXPROCS(c.Procs)
	defer runtime.GOMAXPROCS(old)

	// sequential reference: an eagerly decoded twin
	eager := mcase.New(c.Type, false)
	if err := (proto.UnmarshalOptions{AllowPartial: c.AllowPar, NoLazyDecoding: true}).Unmarshal(c.Wire, eager.Interface()); err != nil {
		return nil // (verdict agreement is C17's business)
	}
	want := make([][]string, len(c.Readers))
	for i, ops := range c.Readers {
		for _, op := range ops {
			o, _, err := perform(eager, op)
			if err != nil {
				return fmt.Errorf("sequential reference failed: %v", err)
			}
			want[i] = append(want[i], o)
		}
	}

	lazy := mcase.New(c.Type, false)
	if err := (proto.UnmarshalOptions{AllowPartial: c.AllowPar}).Unmarshal(c.Wire, lazy.Interface()); err != nil {
		return fmt.Errorf("lazy Unmarshal failed where eager succeeded: %v", err)
	}

	// schedule plan through the hook
	var mu sync.Mutex
	waiting := map[fieldKey]*sync.WaitGroup{}
	arrivals := map[fieldKey]int{}
	winners := map[fieldKey]int{}
	var arrivalNo atomic.Int64
	hook := &impl.VerifLazyHook{
		Decoded: func(_ *impl.MessageInfo, msg unsafe.Pointer, num protoreflect.FieldNumber) {
			n := int(arrivalNo.Add(1))
			if len(c.Yields) > 0 {
				for i := 0; i < c.Yields[n%len(c.Yields)]; i++ {
					runtime.Gosched()
				}
			}
			if c.Barrier < 2 {
				return
			}
			k := fieldKey{msg, num}
			mu.Lock()
			arrivals[k]++
			a := arrivals[k]
			wg := waiting[k]
			if wg == nil {
				wg = &sync.WaitGroup{}
				wg.Add(1)
				waiting[k] = wg
			}
			mu.Unlock()
			if a == c.Barrier {
				barriers.Add(1)
				wg.Done() // release everybody who decoded this field
				return
			}
			if a < c.Barrier {
				done := make(chan struct{})
				go func() { wg.Wait(); close(done) }()
				select {
				case <-done:
				case <-time.After(2 * time.Millisecond): // fewer than k readers came: do not deadlock
				}
			}
		},
		Published: func(_ *impl.MessageInfo, msg unsafe.Pointer, num protoreflect.FieldNumber, won bool) {
			if won {
				casWon.Add(1)
				mu.Lock()
				winners[fieldKey{msg, num}]++
				mu.Unlock()
			} else {
				casLost.Add(1)
			}
		},
	}
	impl.SetVerifLazyHook(hook)
	defer impl.SetVerifLazyHook(nil)

	type result struct {
		obs  []string
		ids  map[string]uintptr
		err  error
	}
	res := make([]result, len(c.Readers))
	var start, wg sync.WaitGroup
	start.Add(1)
	for i := range c.Readers {
		wg.Add(1)
		go func(i int) {
			defer wg.Done()
			defer func() {
				if r := recover(); r != nil {
					res[i].err = fmt.Errorf("PANIC in reader %d: %v", i, r)
				}
			}()
			res[i].ids = map[string]uintptr{}
			start.Wait()
			for _, op := range c.Readers[i] {
				o, id, err := perform(lazy, op)
				if err != nil {
					res[i].err = fmt.Errorf("reader %d op %+v: %v", i, op, err)
					return
				}
				res[i].obs = append(res[i].obs, o)
				if id != 0 {
					res[i].ids[fmt.Sprint(op.Path, op.Num)] = id
				}
			}
		}(i)
	}
	start.Done()
	wg.Wait()
	impl.SetVerifLazyHook(nil)

	ids := map[string]uintptr{}
	for _, r := range res {
		// known finding: Marshal racing with the expansion of a non-minimally encoded lazy field
		if r.err != nil && c.NonMin && strings.Contains(r.err.Error(), "size mismatch (see https://github.com/golang/protobuf/issues/1609)") {
			if pbt.ExcludeKnown("KF-lazy-concurrent-marshal-size-mismatch") {
				return nil
			}
		}
	}
	for i, r := range res {
		if r.err != nil {
			return r.err
		}
		for j := range want[i] {
			if r.obs[j] != want[i][j] {
				return fmt.Errorf("reader %d op %d %+v observed %.300s, sequential eager result %.300s", i, j, c.Readers[i][j], r.obs[j], want[i][j])
			}
		}
		for k, id := range r.ids {
			if prev, ok := ids[k]; ok && prev != id {
				return fmt.Errorf("two readers obtained different instances of the lazy submessage at %s", k)
			}
			ids[k] = id
		}
	}
	for k, n := range winners {
		if n != 1 {
			return fmt.Errorf("field %d of one message instance was published %d times", k.num, n)
		}
	}
	// afterwards the message still equals the eager twin
	if !proto.Equal(lazy.Interface(), eager.Interface()) {
		return fmt.Errorf("after concurrent reads the lazy message differs from the eager twin")
	}
	a, _ := proto.MarshalOptions{Deterministic: true, AllowPartial: true}.Marshal(lazy.Interface())
	b, _ := proto.MarshalOptions{Deterministic: true, AllowPartial: true}.Marshal(eager.Interface())
	if !bytes.Equal(a, b) {
		return fmt.Errorf("after concurrent reads deterministic bytes differ from the eager twin")
	}
	return nil
}

var lazyTypes = corpus.LazyCapable()

// lazyChains lists paths (chains of populated singular message fields) in the model.
func chains(md protoreflect.MessageDescriptor, v *model.Msg, prefix []int32, depth int, out *[][]int32) {
	*out = append(*out, append([]int32(nil), prefix...))
	if v == nil || depth == 0 {
		return
	}
	for _, f := range v.Fields {
		fd := model.FieldDesc(md, f.Num, nil)
		if fd == nil || fd.IsExtension() || fd.Message() == nil || fd.IsList() || fd.IsMap() {
			continue
		}
		chains(fd.Message(), f.Vals[0].M, append(prefix, f.Num), depth-1, out)
	}
}

func descAt(md protoreflect.MessageDescriptor, path []int32) protoreflect.MessageDescriptor {
	for _, n := range path {
		md = md.Fields().ByNumber(protoreflect.FieldNumber(n)).Message()
	}
	return md
}

func drawConc(t *rapid.T) concCase {
	c := concCase{Type: rapid.SampledFrom(lazyTypes).Draw(t, "type"), AllowPar: true}
	md := mcase.Desc(c.Type)
	mo := gen.DefaultMsgOpts
	mo.Depth = 6
	mo.Extensions = false
	mo.ValidUTF8 = true
	mo.SkipField = gen.SkipConstrainedJSON
	c.M = gen.DrawMessage(t, md, mo)
	// force lazy fields along a chain
	cur, cmd := c.M, md
	for d := 0; d < rapid.IntRange(1, 5).Draw(t, "lazydepth"); d++ {
		lf := corpus.LazyFields(cmd)
		if len(lf) == 0 {
			break
		}
		num := lf[rapid.IntRange(0, len(lf)-1).Draw(t, "lf")]
		f := cur.Get(int32(num))
		if f == nil {
			sub := gen.DrawMessage(t, cmd.Fields().ByNumber(num).Message(), mo)
			cur.Put(model.Field{Num: int32(num), Vals: []model.Val{{M: sub}}})
			f = cur.Get(int32(num))
		}
		if f.Vals[0].M == nil {
			f.Vals[0].M = &model.Msg{}
		}
		cur, cmd = f.Vals[0].M, cmd.Fields().ByNumber(num).Message()
	}
	eo := model.AllPerturbations
	eo.Interleave = true
	var labels []string
	eo.Labels = &labels
	c.Wire = model.Encode(md, c.M, gen.RapidChooser{T: t}, eo, nil)
	c.NonMin = len(labels) > 0
	var ps [][]int32
	chains(md, c.M, nil, 5, &ps)
	n := rapid.IntRange(2, 16).Draw(t, "readers")
	kinds := []string{"get", "get", "get", "has", "size", "marshal", "detmarshal", "equal", "clone", "json", "text", "checkinit", "range"}
	for i := 0; i < n; i++ {
		var ops []readOp
		k := rapid.IntRange(1, 6).Draw(t, "nops")
		for j := 0; j < k; j++ {
			op := readOp{Kind: rapid.SampledFrom(kinds).Draw(t, "op"), Path: ps[rapid.IntRange(0, len(ps)-1).Draw(t, "path")]}
			d := descAt(md, op.Path)
			if op.Kind == "get" || op.Kind == "has" {
				if lf := corpus.LazyFields(d); len(lf) > 0 && rapid.IntRange(0, 3).Draw(t, "lazyfield") > 0 {
					op.Num = int32(lf[rapid.IntRange(0, len(lf)-1).Draw(t, "lfi")])
				} else if d.Fields().Len() > 0 {
					op.Num = int32(d.Fields().Get(rapid.IntRange(0, d.Fields().Len()-1).Draw(t, "field")).Number())
				}
			}
			ops = append(ops, op)
		}
		c.Readers = append(c.Readers, ops)
	}
	c.Barrier = rapid.SampledFrom([]int{0, 2, 2, 3, 4}).Draw(t, "barrier")
	c.Yields = rapid.SliceOfN(rapid.IntRange(0, 20), 0, 8).Draw(t, "yields")
	c.Procs = rapid.SampledFrom([]int{1, 2, 4, 16}).Draw(t, "procs")
	return c
}

func TestConcurrentReaders(t *testing.T) {
	pbt.Run(t, pbt.Prop[concCase]{
		Name: "concurrent-readers",
		Rule: "lazy-capable types with a forced chain of lazy fields (depth 1..5), perturbed encodings; 2..16 readers x 1..6 read-only ops (getter chains, Has, Size, Marshal, deterministic Marshal, Equal, Clone, JSON, text, CheckInitialized, Range) biased to the lazy fields; schedule plan: barrier of k in {none,2,3,4} decoders before the compare-and-swap of each (message, field), 0..20 yields per hook arrival, GOMAXPROCS in {1,2,4,16}. non-trivial = >= 2 readers touch the same lazy field; the measured number of lost compare-and-swaps is reported as cas_lost",
		Draw:  drawConc,
		Check: checkConc,
		NonTrivial: func(c concCase) bool {
			touch := map[string]int{}
			for _, ops := range c.Readers {
				seen := map[string]bool{}
				for _, op := range ops {
					k := fmt.Sprint(op.Path)
					if !seen[k] {
						seen[k] = true
						touch[k]++
					}
				}
			}
			for _, n := range touch {
				if n >= 2 {
					return true
				}
			}
			return false
		},
		Classes: func(c concCase) []string {
			return []string{fmt.Sprintf("barrier-%d", c.Barrier), fmt.Sprintf("procs-%d", c.Procs), fmt.Sprintf("readers-%d", (len(c.Readers)+3)/4*4)}
		},
		Quick: 1500, Thorough: 40000,
	})
	pbt.S.SetExtra("cas_won", casWon.Load())
	pbt.S.SetExtra("cas_lost", casLost.Load())
	pbt.S.SetExtra("barriers_completed", barriers.Load())
	if !pbt.Skip() && casLost.Load() == 0 {
		pbt.S.Note("no contended publication was observed in this run")
	}
}

var _ = sort.Strings

// witness of the known finding: a Marshal racing with the first read of a lazy field that
// arrived with padded varints. Reproduction depends on the schedule; it is attempted repeatedly.
func TestWitnessConcurrentMarshal(t *testing.T) {
	if pbt.Skip() {
		t.Skip()
	}
	name := "opaque.lazy_tree.Node"
	md := mcase.Desc(name)
	// nested (lazy, field 99) holds many values whose varints are padded: re-encoding shrinks it
	var inner []byte
	for i := 0; i < 4000; i++ {
		inner = append(inner, 0x88, 0x80, 0x00, 0x81, 0x80, 0x00) // field 1 (padded tag) = 1 (padded)
	}
	_ = md
	wrap := func(body []byte) []byte {
		out := []byte{0x9a, 0x06} // field 99, bytes
		n := len(body)
		for n >= 0x80 {
			out = append(out, byte(n)|0x80)
			n >>= 7
		}
		out = append(out, byte(n))
		return append(out, body...)
	}
	// root { nested: X { nested: G { padded... } } }: X is expanded first, G stays lazy inside X
	wire := wrap(wrap(inner))
	reproduced := false
	deadline := time.Now().Add(4 * time.Second)
	for attempt := 0; attempt < 20000 && !reproduced && time.Now().Before(deadline); attempt++ {
		m := mcase.New(name, false)
		if err := proto.Unmarshal(wire, m.Interface()); err != nil {
			t.Skipf("witness input rejected: %v", err)
		}
		fd := m.Descriptor().Fields().ByNumber(99)
		x := m.Get(fd).Message() // expands X only
		var wg sync.WaitGroup
		var merr atomic.Value
		wg.Add(2)
		go func() {
			defer wg.Done()
			for i := 0; i < 3; i++ {
				if _, err := proto.Marshal(m.Interface()); err != nil {
					merr.Store(err.Error())
					return
				}
			}
		}()
		go func() {
			defer wg.Done()
			for i := 0; i < attempt%7; i++ {
				runtime.Gosched()
			}
			x.Get(fd).Message().Has(fd) // expands G while Marshal(root) may be between its size and write passes
		}()
		wg.Wait()
		if e, _ := merr.Load().(string); strings.Contains(e, "size mismatch") {
			reproduced = true
		}
	}
	pbt.Witness(t, "KF-lazy-concurrent-marshal-size-mismatch", reproduced, "proto.Marshal failed with size mismatch while another goroutine expanded the lazy field")
}
