package c34

import (
	"fmt"
	"math"
	"strconv"
	"strings"
	"testing"

	"google.golang.org/protobuf/proto"
	"google.golang.org/protobuf/reflect/protodesc"
	"google.golang.org/protobuf/reflect/protoreflect"
	"google.golang.org/protobuf/reflect/protoregistry"
	"google.golang.org/protobuf/types/descriptorpb"
	_ "google.golang.org/protobuf/zverif/corpus"
	"google.golang.org/protobuf/zverif/descsnap"
	"google.golang.org/protobuf/zverif/pbt"
	"google.golang.org/protobuf/zverif/schema"
	"pgregory.net/rapid"
)

// Findings of other properties that surface here because linked descriptors are made by
// filedesc.Builder (the subject of C37).
const (
	kfEnumFeatures = "KF-filedesc-enum-features"
	kfExtLazy      = "KF-protodesc-ext-lazy"
)

// ---------------------------------------------------------------------------------------------
// (a) every linked file: d -> ToFileDescriptorProto -> NewFile reproduces d

type linkedCase struct {
	Path string
}

var linked = func() map[string]protoreflect.FileDescriptor {
	m := map[string]protoreflect.FileDescriptor{}
	for _, fd := range descsnap.LinkedFiles() {
		m[fd.Path()] = fd
	}
	return m
}()

func checkLinked(c linkedCase) error {
	d := linked[c.Path]
	if d == nil {
		return fmt.Errorf("harness: %s is not linked in", c.Path)
	}
	p := protodesc.ToFileDescriptorProto(d)
	d2, err := protodesc.NewFile(p, protoregistry.GlobalFiles)
	if err != nil {
		return fmt.Errorf("NewFile(ToFileDescriptorProto(%s)) failed: %v", c.Path, err)
	}
	p2 := protodesc.ToFileDescriptorProto(d2)
	if diff := descsnap.ProtoDiff(p, p2); diff != "" {
		return fmt.Errorf("ToFileDescriptorProto(NewFile(p)) != p for p = ToFileDescriptorProto(%s): %s", c.Path, diff)
	}
	// the descriptor protoc compiled into the package (where the generated code still exposes it) is p
	if raw := descsnap.EmbeddedRaw(d); raw != nil {
		praw := &descriptorpb.FileDescriptorProto{}
		if err := proto.Unmarshal(raw, praw); err != nil {
			return fmt.Errorf("harness: embedded descriptor of %s does not parse: %v", c.Path, err)
		}
		if diff := descsnap.ProtoDiff(normalize(praw), normalize(proto.Clone(p).(*descriptorpb.FileDescriptorProto))); diff != "" {
			return fmt.Errorf("ToFileDescriptorProto(%s) differs from the descriptor embedded in the generated code: %s", c.Path, diff)
		}
	}
	for _, rev := range []bool{false, true} {
		s1 := descsnap.Of(d, descsnap.Opts{Reverse: rev, SizeHint: descsnap.Hint(p)})
		s2 := descsnap.Of(d2, descsnap.Opts{Reverse: !rev, SizeHint: descsnap.Hint(p)})
		rest, explained := descsnap.Without(s1, s2, descsnap.EnumFeatureDisagreements(p))
		if explained > 0 && !pbt.ExcludeKnown(kfEnumFeatures) {
			rest = descsnap.DiffKeys(s1, s2)
		} else if len(rest) > 0 {
			// linked descriptors are builder-made: a lazy extension shows KF-protodesc-ext-lazy here too
			if r2, n := descsnap.Without(s1, s2, append(descsnap.EnumFeatureDisagreements(p), descsnap.ExtensionLazyDisagreements(p)...)); n > explained && pbt.ExcludeKnown(kfExtLazy) {
				rest = r2
			}
		}
		if len(rest) > 0 {
			return fmt.Errorf("NewFile(ToFileDescriptorProto(d)) does not reproduce d = %s: %s", c.Path, descsnap.Describe(s1, s2, rest))
		}
	}
	return nil
}

func TestLinkedFiles(t *testing.T) {
	skipped := map[string]string{}
	n := 0
	pbt.Enumerate(t, "linked-files",
		"every file registered in protoregistry.GlobalFiles (all generated packages of the repository are linked) except files NewFile cannot accept in this build: files declaring a MessageSet message (rejected by design without -tags protolegacy; they are in the domain of the legacy leg) and files whose imports are not registered (legacy.proto); non-trivial = at least 3 of {extension, map, oneof, proto3 optional, default, editions feature, nesting >= 2, import}",
		true,
		func(yield func(linkedCase, bool) bool) {
			for i, fd := range descsnap.LinkedFiles() {
				if int64(i)%pbt.NShards != pbt.Shard {
					continue // thorough tier: the enumeration is split over the shards
				}
				if why := descsnap.OutOfDomain(fd); why != "" {
					skipped[fd.Path()] = why
					continue
				}
				if descsnap.LegacyLegOnly() && !descsnap.DeclaresMessageSet(fd) {
					continue // already covered by the default leg
				}
				n++
				rich := schema.Rich(schema.Constructs([]*descriptorpb.FileDescriptorProto{protodesc.ToFileDescriptorProto(fd)}))
				if !yield(linkedCase{Path: fd.Path()}, rich) {
					return
				}
			}
		}, checkLinked)
	pbt.S.SetExtra("linked_files_checked", n)
	pbt.S.SetExtra("linked_files_out_of_domain", skipped)
	if min := map[bool]int{false: 40, true: 5}[descsnap.LegacyLegOnly()]; pbt.NShards == 1 && n < min {
		t.Errorf("only %d linked files: the corpus is not linked in", n)
	}
}

// ---------------------------------------------------------------------------------------------
// (b) random schema sets

type schemaCase struct {
	Raw  [][]byte
	Text []string // for readers of replay files; not used by the check
}

func drawCase(o schema.Opts) func(t *rapid.T) schemaCase {
	return func(t *rapid.T) schemaCase {
		files := schema.Draw(t, o)
		return schemaCase{Raw: schema.Marshal(files), Text: schema.Text(files)}
	}
}

// normalize applies the documented normalisations of ToFileDescriptorProto to a descriptor proto,
// in place: syntax "proto2" is written as absent; a span of four elements on a single line is
// written with three; float and double defaults are compared by value (rewritten to the shortest
// decimal that parses back to the same value; nan / inf spellings kept).
func normalize(p *descriptorpb.FileDescriptorProto) *descriptorpb.FileDescriptorProto {
	if p.GetSyntax() == "proto2" {
		p.Syntax = nil
	}
	for _, l := range p.GetSourceCodeInfo().GetLocation() {
		if len(l.Span) == 4 && l.Span[0] == l.Span[2] {
			l.Span = []int32{l.Span[0], l.Span[1], l.Span[3]}
		}
	}
	var fields func(fs []*descriptorpb.FieldDescriptorProto)
	fields = func(fs []*descriptorpb.FieldDescriptorProto) {
		for _, f := range fs {
			if f.DefaultValue == nil {
				continue
			}
			bits := 0
			switch f.GetType() {
			case descriptorpb.FieldDescriptorProto_TYPE_FLOAT:
				bits = 32
			case descriptorpb.FieldDescriptorProto_TYPE_DOUBLE:
				bits = 64
			default:
				continue
			}
			s := f.GetDefaultValue()
			if s == "nan" || s == "inf" || s == "-inf" {
				continue
			}
			if v, err := strconv.ParseFloat(s, bits); err == nil && !math.IsInf(v, 0) {
				f.DefaultValue = proto.String(strconv.FormatFloat(v, 'g', -1, bits))
			}
		}
	}
	var msgs func(ms []*descriptorpb.DescriptorProto)
	msgs = func(ms []*descriptorpb.DescriptorProto) {
		for _, m := range ms {
			fields(m.Field)
			fields(m.Extension)
			msgs(m.NestedType)
		}
	}
	msgs(p.MessageType)
	fields(p.Extension)
	return p
}

func checkSchema(loose bool) func(c schemaCase) error {
	return func(c schemaCase) error {
		files, err := schema.Unmarshal(c.Raw)
		if err != nil {
			return fmt.Errorf("harness: %v", err)
		}
		// the registry that plays the role of "already loaded imports": well-known files first
		reg, err := schema.NewRegistry(files)
		if err != nil {
			return fmt.Errorf("harness: %v", err)
		}
		for i, p := range files {
			orig := proto.Clone(p).(*descriptorpb.FileDescriptorProto)
			d, err := protodesc.NewFile(p, reg)
			if err != nil {
				return fmt.Errorf("NewFile rejected valid file %d (%s): %v", i, p.GetName(), err)
			}
			if !proto.Equal(p, orig) {
				return fmt.Errorf("NewFile modified its input (file %d): %s", i, descsnap.ProtoDiff(orig, p))
			}
			p2 := protodesc.ToFileDescriptorProto(d)
			want := orig
			got := p2
			if loose {
				want = normalize(proto.Clone(orig).(*descriptorpb.FileDescriptorProto))
				got = normalize(proto.Clone(p2).(*descriptorpb.FileDescriptorProto))
			}
			if diff := descsnap.ProtoDiff(want, got); diff != "" {
				return fmt.Errorf("ToFileDescriptorProto(NewFile(p)) != p (file %d, %s; left = p): %s", i, p.GetName(), diff)
			}
			// d -> proto -> d'' reproduces d in every accessor
			d2, err := protodesc.NewFile(p2, reg)
			if err != nil {
				return fmt.Errorf("NewFile(ToFileDescriptorProto(d)) failed (file %d): %v", i, err)
			}
			hint := descsnap.Hint(orig)
			s1 := descsnap.Of(d, descsnap.Opts{SizeHint: hint})
			s2 := descsnap.Of(d2, descsnap.Opts{Reverse: true, SizeHint: hint})
			if diff := descsnap.Diff(s1, s2); diff != "" {
				return fmt.Errorf("NewFile(ToFileDescriptorProto(d)) does not reproduce d (file %d, %s): %s", i, p.GetName(), diff)
			}
			// the snapshot is a faithful reading of p: spot-check it against the proto itself
			if err := crossCheck(orig, s1); err != nil {
				return fmt.Errorf("file %d (%s): %v", i, p.GetName(), err)
			}
			if err := reg.RegisterFile(d); err != nil {
				return fmt.Errorf("RegisterFile rejected file %d (%s): %v", i, p.GetName(), err)
			}
		}
		return nil
	}
}

// crossCheck reads a handful of facts straight from the descriptor proto and requires the
// accessor snapshot of NewFile's result to state the same (names, numbers, declared type and
// label for non-editions files, json_name, oneof membership, default presence, list lengths): it
// keeps the two-way conversion honest — a loss that NewFile and ToFileDescriptorProto agree on
// (e.g. both dropping the same field) would otherwise cancel out.
func crossCheck(p *descriptorpb.FileDescriptorProto, s descsnap.Snap) error {
	want := func(key, val string) error {
		if got, ok := s[key]; !ok || got != val {
			return fmt.Errorf("accessor %s = %q, the descriptor proto says %q", key, got, val)
		}
		return nil
	}
	fkey := "file " + p.GetName()
	if err := want(fkey+"#Package", p.GetPackage()); err != nil {
		return err
	}
	if err := want(fkey+"#Lens", fmt.Sprintf("enums=%d messages=%d extensions=%d services=%d", len(p.EnumType), len(p.MessageType), len(p.Extension), len(p.Service))); err != nil {
		return err
	}
	editions := p.GetSyntax() == "editions"
	field := func(kind, prefix string, f *descriptorpb.FieldDescriptorProto, m *descriptorpb.DescriptorProto) error {
		k := kind + " " + join(prefix, f.GetName())
		if err := want(k+"#Number", fmt.Sprint(f.GetNumber())); err != nil {
			return err
		}
		if !editions {
			if err := want(k+"#Kind", strings.ToLower(strings.TrimPrefix(f.GetType().String(), "TYPE_"))); err != nil {
				return err
			}
			if err := want(k+"#Cardinality", strings.ToLower(strings.TrimPrefix(f.GetLabel().String(), "LABEL_"))); err != nil {
				return err
			}
		}
		if err := want(k+"#HasDefault", fmt.Sprint(f.DefaultValue != nil)); err != nil {
			return err
		}
		if kind == "field" {
			if err := want(k+"#HasJSONName", fmt.Sprint(f.JsonName != nil)); err != nil {
				return err
			}
			if f.JsonName != nil {
				if err := want(k+"#JSONName", f.GetJsonName()); err != nil {
					return err
				}
			}
			oo := "<nil>"
			if f.OneofIndex != nil {
				oo = fmt.Sprintf("%s@%s[%d]", join(prefix, m.OneofDecl[f.GetOneofIndex()].GetName()), p.GetName(), f.GetOneofIndex())
			}
			if err := want(k+"#ContainingOneof", oo); err != nil {
				return err
			}
		}
		if f.TypeName != nil {
			acc := "#Message"
			if f.GetType() == descriptorpb.FieldDescriptorProto_TYPE_ENUM {
				acc = "#Enum"
			}
			if got := s[k+acc]; !strings.HasPrefix(got, strings.TrimPrefix(f.GetTypeName(), ".")+"@") {
				return fmt.Errorf("accessor %s = %q, the descriptor proto says type %s", k+acc, got, f.GetTypeName())
			}
		}
		return nil
	}
	var msgs func(prefix string, ms []*descriptorpb.DescriptorProto) error
	msgs = func(prefix string, ms []*descriptorpb.DescriptorProto) error {
		for i, m := range ms {
			full := join(prefix, m.GetName())
			if err := want("msg "+full+"#Index", fmt.Sprint(i)); err != nil {
				return err
			}
			if err := want("msg "+full+"#Lens", fmt.Sprintf("fields=%d oneofs=%d enums=%d messages=%d extensions=%d", len(m.Field), len(m.OneofDecl), len(m.EnumType), len(m.NestedType), len(m.Extension))); err != nil {
				return err
			}
			for _, f := range m.Field {
				if err := field("field", full, f, m); err != nil {
					return err
				}
			}
			for _, x := range m.Extension {
				if err := field("ext", full, x, m); err != nil {
					return err
				}
			}
			for j, e := range m.EnumType {
				if err := want("enum "+join(full, e.GetName())+"#Index", fmt.Sprint(j)); err != nil {
					return err
				}
				if err := want("enum "+join(full, e.GetName())+"#Values", fmt.Sprint(len(e.Value))); err != nil {
					return err
				}
			}
			if err := msgs(full, m.NestedType); err != nil {
				return err
			}
		}
		return nil
	}
	if err := msgs(p.GetPackage(), p.MessageType); err != nil {
		return err
	}
	for _, x := range p.Extension {
		if err := field("ext", p.GetPackage(), x, nil); err != nil {
			return err
		}
	}
	return nil
}

func join(prefix, name string) string {
	if prefix == "" {
		return name
	}
	return prefix + "." + name
}

func classes(c schemaCase) []string {
	files, err := schema.Unmarshal(c.Raw)
	if err != nil {
		return nil
	}
	var out []string
	for _, l := range schema.Constructs(files) {
		// keep the distribution readable: drop the per-kind breakdowns
		if strings.HasPrefix(l, "kind:") || strings.HasPrefix(l, "map-value:") || strings.HasPrefix(l, "extension-kind:") || strings.HasPrefix(l, "options:") {
			continue
		}
		out = append(out, l)
	}
	return out
}

func rich(c schemaCase) bool {
	files, err := schema.Unmarshal(c.Raw)
	return err == nil && schema.Rich(schema.Constructs(files))
}

const ruleRandom = "schema sets from the shared generator (harness/schema): 1-3 files with imports, proto2 / proto3 / editions 2023 / 2024, nested messages, all field kinds, maps, groups / DELIMITED, oneofs, proto3 optional, extensions, services, reserved ranges, defaults of every kind, json_name, feature overrides at every allowed level, well-known imports and custom options, lazy, source info; non-trivial = at least 3 of {extension, map, oneof, proto3 optional, default, editions feature, nesting >= 2, import}"

func TestRandomCanonical(t *testing.T) {
	pbt.Run(t, pbt.Prop[schemaCase]{
		Name:       "random-canonical",
		Rule:       ruleRandom + "; canonical descriptor-proto form, compared with proto.Equal without any normalisation",
		Draw:       drawCase(schema.Opts{WellKnown: true, Lazy: true, SourceInfo: true}),
		Check:      checkSchema(false),
		NonTrivial: rich,
		Classes:    classes,
		Quick:      3500, Thorough: 30000,
	})
}

func TestRandomLoose(t *testing.T) {
	pbt.Run(t, pbt.Prop[schemaCase]{
		Name:       "random-loose",
		Rule:       ruleRandom + "; with the non-canonical spellings the documentation calls equivalent (syntax \"proto2\" written out, protoc-style float default text, four-element single-line spans, empty options messages), compared after the documented normalisations only",
		Draw:       drawCase(schema.Opts{WellKnown: true, SourceInfo: true, Loose: true, MaxFiles: 2}),
		Check:      checkSchema(true),
		NonTrivial: rich,
		Classes:    classes,
		Quick:      1000, Thorough: 10000,
	})
}

func TestRandomBig(t *testing.T) {
	pbt.Run(t, pbt.Prop[schemaCase]{
		Name:       "random-big",
		Rule:       ruleRandom + "; larger sets (up to 4 files, 14 fields, depth 4, 6 ranges per message), closed (no well-known imports), adversarial identifier vocabulary",
		Draw:       drawCase(schema.Opts{MaxFiles: 4, MaxMessages: 6, MaxFields: 14, MaxDepth: 4, MaxEnums: 3, MaxValues: 9, MaxOneofs: 3, MaxExtensions: 6, MaxServices: 2, MaxRanges: 6, Lazy: true, AdversarialNames: true}),
		Check:      checkSchema(false),
		NonTrivial: rich,
		Classes:    classes,
		Quick:      200, Thorough: 2500,
	})
}

// ---------------------------------------------------------------------------------------------
// witnesses of registered findings

// KF-filedesc-enum-features (root cause in internal/filedesc, property C37): the linked descriptor
// of an editions enum that overrides features.enum_type reports the file's IsClosed(); rebuilding
// the same file from its own descriptor proto with protodesc gives the other answer, so the
// "reproduces d in every accessor" half of C34 fails on that accessor.
func TestWitnessEnumFeatures(t *testing.T) {
	d := linked["internal/testprotos/editionsfuzztest/test2editions.proto"]
	if d == nil {
		t.Skip("test2editions.proto not linked")
	}
	p := protodesc.ToFileDescriptorProto(d)
	d2, err := protodesc.NewFile(p, protoregistry.GlobalFiles)
	if err != nil {
		t.Fatalf("NewFile: %v", err)
	}
	name := protoreflect.FullName("goproto.proto.test.TestAllTypesProto2Editions.NestedEnum")
	find := func(fd protoreflect.FileDescriptor) protoreflect.EnumDescriptor {
		return fd.Messages().ByName("TestAllTypesProto2Editions").Enums().ByName("NestedEnum")
	}
	e1, e2 := find(d), find(d2)
	if e1 == nil || e2 == nil {
		t.Fatalf("%s not found", name)
	}
	declared := e1.Options().(*descriptorpb.EnumOptions).GetFeatures().GetEnumType() == descriptorpb.FeatureSet_CLOSED
	repro := declared && !e1.IsClosed() && e2.IsClosed()
	pbt.Witness(t, kfEnumFeatures, repro, fmt.Sprintf("%s declares features.enum_type=CLOSED; linked descriptor IsClosed()=%v, NewFile(ToFileDescriptorProto(d)) IsClosed()=%v", name, e1.IsClosed(), e2.IsClosed()))
}
