package c09

import (
	"bytes"
	"fmt"
	"os"
	"path/filepath"
	"runtime/debug"
	"sort"
	"sync"
	"testing"

	"google.golang.org/protobuf/proto"
	"google.golang.org/protobuf/reflect/protoreflect"
	"google.golang.org/protobuf/reflect/protoregistry"
	"google.golang.org/protobuf/types/dynamicpb"
	"google.golang.org/protobuf/types/known/emptypb"
	"google.golang.org/protobuf/zverif/corpus"
	"google.golang.org/protobuf/zverif/gen"
	"google.golang.org/protobuf/zverif/mcase"
	"google.golang.org/protobuf/zverif/model"
	"google.golang.org/protobuf/zverif/pbt"
	"google.golang.org/protobuf/zverif/ref"
	"pgregory.net/rapid"
)

// Native fuzz target (thorough tier; `go test -fuzz`): unknown-field preservation on
// fuzzer-chosen BYTES and a fuzzer-chosen subset schema (bit mask over the deletable fields).
//
//  1. raw input, schema that knows nothing (google.protobuf.Empty, fast path, and a dynamicpb
//     message of a field-less descriptor, reflection path): when the input is a well-formed field
//     sequence and is accepted, GetUnknown holds every record in input order with number, wire
//     type and payload unchanged (the fast path re-encodes the tag varint in shortest form: both
//     sides are compared after model.NormalizeUnknown), Marshal re-emits exactly those bytes, and
//     DiscardUnknown leaves nothing.
//  2. when the full schema accepts the input: b' = Marshal(decoded message) is what checkEvo calls
//     b; then, exactly as checkEvo: decode b' with the subset schema (dynamicpb) -> the package's
//     reference splitter expectUnknown says which records must sit in GetUnknown at every level;
//     re-encode; decode with the full schema -> same content as decoding b' directly; the same
//     through Empty; DiscardUnknown leaves no unknown field anywhere and the known content intact.
//
// Precondition of step 2 (the input is skipped, never failed, otherwise): no message of the decoded tree holds an
// unknown record whose number is a declared field of its own descriptor (a known field in another
// wire type, or an unrecognised value of a closed enum). The rapid generator never produces such
// records either (unknown fields are drawn from free numbers) and expectUnknown has no rule for them.
var fuzzTypes = func() []string {
	want := []string{
		"goproto.proto.test.TestAllTypes",
		"goproto.proto.test.TestAllExtensions",
		"goproto.proto.test3.TestAllTypes",
		"opaque.goproto.proto.test3.TestAllTypes",
		"goproto.proto.testeditions.TestAllTypes",
		"hybrid.goproto.proto.testeditions.TestAllTypes",
		"opaque.goproto.proto.testeditions.TestAllTypes",
		"opaque.goproto.proto.testeditions.TestRequiredLazy",
		"opaque.lazy_tree.Node",
		"hybrid.lazy_tree.Node",
		"goproto.proto.test.OpaqueLazy",
		"goproto.proto.test.TestPackedTypes",
		"goproto.proto.fuzz.Fuzz",
		"protobuf_test_messages.proto3.TestAllTypesProto3",
		"protobuf_test_messages.editions.TestAllTypesEdition2023",
		"google.protobuf.FileDescriptorProto",
		"google.protobuf.Struct",
		"benchmarks.proto2.GoogleMessage2",
		"pb2.Nests",
	}
	var out []string
	for _, n := range want {
		for _, e := range evoTypes {
			if e == n {
				out = append(out, n)
			}
		}
	}
	return out
}()

var lazyCapable = func() map[string]bool {
	m := map[string]bool{}
	for _, n := range corpus.LazyCapable() {
		m[n] = true
	}
	return m
}()

type fzCase struct {
	Type    string
	Dynamic bool
	Lazy    bool
	Deleted map[string][]int32
	B       []byte
}

// deletedFromMask: candidate i (messages sorted by name, fields in declaration order) is deleted
// iff bit i%64 of mask is set.
func deletedFromMask(typ string, mask uint64) map[string][]int32 {
	cands := deletableOf(typ)
	names := make([]string, 0, len(cands))
	for k := range cands {
		names = append(names, k)
	}
	sort.Strings(names)
	out := map[string][]int32{}
	i := 0
	// the top-level message first, so that the low mask bits hit populated content
	sort.SliceStable(names, func(a, b int) bool { return names[a] == typ && names[b] != typ })
	for _, name := range names {
		for _, n := range cands[name] {
			if mask>>(uint(i)%64)&1 != 0 {
				out[name] = append(out[name], n)
			}
			i++
		}
	}
	return out
}

var (
	subMu    sync.Mutex
	subCache = map[string]protoreflect.MessageDescriptor{}
)

func cachedSubset(typ string, md protoreflect.MessageDescriptor, deleted map[string][]int32) (protoreflect.MessageDescriptor, error) {
	names := make([]string, 0, len(deleted))
	for k := range deleted {
		names = append(names, k)
	}
	sort.Strings(names)
	key := typ
	for _, n := range names {
		key += fmt.Sprintf("|%s%v", n, deleted[n])
	}
	subMu.Lock()
	defer subMu.Unlock()
	if d, ok := subCache[key]; ok {
		return d, nil
	}
	d, err := subset(md, deleted)
	if err != nil {
		return nil, err
	}
	if len(subCache) > 4000 {
		subCache = map[string]protoreflect.MessageDescriptor{}
	}
	subCache[key] = d
	return d, nil
}

// collides reports whether some message of the tree holds an unknown record with the number of
// one of its declared fields (see the precondition above).
func collides(m protoreflect.Message) bool {
	if recs, ok := ref.Split(m.GetUnknown()); ok {
		for _, r := range recs {
			if m.Descriptor().Fields().ByNumber(protoreflect.FieldNumber(r.Num)) != nil {
				return true
			}
		}
	} else {
		return true
	}
	found := false
	m.Range(func(fd protoreflect.FieldDescriptor, v protoreflect.Value) bool {
		switch {
		case fd.IsMap():
			if fd.MapValue().Message() != nil {
				v.Map().Range(func(_ protoreflect.MapKey, mv protoreflect.Value) bool {
					found = collides(mv.Message())
					return !found
				})
			}
		case fd.IsList():
			if fd.Message() != nil {
				for i := 0; i < v.List().Len() && !found; i++ {
					found = collides(v.List().Get(i).Message())
				}
			}
		case fd.Message() != nil:
			found = collides(v.Message())
		}
		return !found
	})
	return found
}

var nothingKnown = func() protoreflect.MessageDescriptor {
	return (&emptypb.Empty{}).ProtoReflect().Descriptor()
}()

func checkFuzzEvo(c fzCase) error {
	md := mcase.Desc(c.Type)
	uo := proto.UnmarshalOptions{AllowPartial: true, NoLazyDecoding: !c.Lazy}

	// 1. a schema that knows nothing, on the raw input
	if recs, ok := ref.Split(c.B); ok {
		want := model.NormalizeUnknown(c.B)
		for _, dyn := range []bool{false, true} {
			var e proto.Message = &emptypb.Empty{}
			if dyn {
				e = dynamicpb.NewMessage(nothingKnown)
			}
			if err := uo.Unmarshal(c.B, e); err != nil {
				break // not accepted (field number out of range, …): acceptance is C02/C06's subject
			}
			got := []byte(e.ProtoReflect().GetUnknown())
			if !bytes.Equal(model.NormalizeUnknown(got), want) {
				return fmt.Errorf("Empty(dynamic=%v).GetUnknown() = %x, want every one of the %d records in order %x", dyn, got, len(recs), want)
			}
			eb, err := proto.Marshal(e)
			if err != nil || !bytes.Equal(eb, got) {
				return fmt.Errorf("Marshal(Empty(dynamic=%v) holding everything as unknown) = %x (err %v), want %x", dyn, eb, err, got)
			}
			d := e.ProtoReflect().New().Interface()
			duo := uo
			duo.DiscardUnknown = true
			if err := duo.Unmarshal(c.B, d); err != nil {
				return fmt.Errorf("Empty(dynamic=%v): accepted without DiscardUnknown, rejected with it: %v", dyn, err)
			}
			if u := d.ProtoReflect().GetUnknown(); len(u) != 0 {
				return fmt.Errorf("Empty(dynamic=%v) decoded with DiscardUnknown retains %x", dyn, u)
			}
		}
	}

	// 2. schema evolution on the canonical re-encoding of whatever the full schema accepts
	first := mcase.New(c.Type, false)
	if err := (proto.UnmarshalOptions{AllowPartial: true, NoLazyDecoding: true}).Unmarshal(c.B, first.Interface()); err != nil {
		return nil
	}
	if collides(first) {
		return nil
	}
	b, err := proto.MarshalOptions{AllowPartial: true}.Marshal(first.Interface())
	if err != nil {
		return fmt.Errorf("Marshal of accepted content failed: %v", err)
	}
	direct := mcase.New(c.Type, c.Dynamic)
	if err := uo.Unmarshal(b, direct.Interface()); err != nil {
		return fmt.Errorf("Unmarshal(Marshal(m)): %v", err)
	}
	snapDirect := model.Snapshot(direct)

	smd, err := cachedSubset(c.Type, md, c.Deleted)
	if err != nil {
		return fmt.Errorf("harness: subset schema rejected: %v", err)
	}
	s := dynamicpb.NewMessage(smd)
	if err := (proto.UnmarshalOptions{AllowPartial: true, Resolver: &protoregistry.Types{}}).Unmarshal(b, s); err != nil {
		return fmt.Errorf("decode with subset schema failed: %v", err)
	}
	if err := expectUnknown(smd, b, s, string(md.Name())); err != nil {
		return err
	}
	sb, err := proto.MarshalOptions{AllowPartial: true}.Marshal(s)
	if err != nil {
		return fmt.Errorf("Marshal of subset-decoded message failed: %v", err)
	}
	back := mcase.New(c.Type, c.Dynamic)
	if err := uo.Unmarshal(sb, back.Interface()); err != nil {
		return fmt.Errorf("full-schema decode of the re-encoded subset message failed: %v", err)
	}
	if d := model.Diff(md, snapDirect, model.Snapshot(back), eq, nil); d != "" {
		return fmt.Errorf("decode(subset) -> encode -> decode(full) differs from decode(full): %s", d)
	}

	e := &emptypb.Empty{}
	if err := uo.Unmarshal(b, e); err != nil {
		return fmt.Errorf("decode as Empty failed: %v", err)
	}
	if got, want := []byte(e.ProtoReflect().GetUnknown()), model.NormalizeUnknown(b); !bytes.Equal(got, want) {
		return fmt.Errorf("Empty.GetUnknown() = %x, want every record in order %x", got, want)
	}
	eb, err := proto.Marshal(e)
	if err != nil || !bytes.Equal(eb, model.NormalizeUnknown(b)) {
		return fmt.Errorf("Marshal(Empty holding everything as unknown) = %x (err %v), want %x", eb, err, model.NormalizeUnknown(b))
	}
	back2 := mcase.New(c.Type, c.Dynamic)
	if err := uo.Unmarshal(eb, back2.Interface()); err != nil {
		return fmt.Errorf("full-schema decode of Marshal(Empty) failed: %v", err)
	}
	if d := model.Diff(md, snapDirect, model.Snapshot(back2), eq, nil); d != "" {
		return fmt.Errorf("decode(Empty) -> encode -> decode(full) differs: %s", d)
	}

	for _, dyn := range []bool{false, true} {
		dm := mcase.New(c.Type, dyn)
		duo := uo
		duo.DiscardUnknown = true
		if err := duo.Unmarshal(b, dm.Interface()); err != nil {
			return fmt.Errorf("Unmarshal(DiscardUnknown) failed: %v", err)
		}
		if err := noUnknown(dm); err != nil {
			return fmt.Errorf("DiscardUnknown (dynamic=%v lazy=%v): %v", dyn, c.Lazy, err)
		}
		if d := model.Diff(md, stripUnknown(snapDirect), model.Snapshot(dm), eq, nil); d != "" {
			return fmt.Errorf("DiscardUnknown changed known content (dynamic=%v): %s", dyn, d)
		}
	}
	return nil
}

type fzSeed struct {
	fzCase
	Mask uint64
}

func fuzzSeeds() []fzSeed {
	var out []fzSeed
	masks := []uint64{0, 0x5, 0xffffffffffffffff, 0xaaaaaaaa55555555, 0x1111111111111110, 0x8000000000000001}
	for i, ty := range fuzzTypes {
		g := rapid.Custom(func(t *rapid.T) mcase.Case {
			return mcase.Draw(t, []string{ty}, []string{ty}, gen.DefaultMsgOpts, model.AllPerturbations)
		})
		for k := 0; k < 4; k++ {
			c := g.Example(i*11 + k)
			if len(c.Wire) < 1<<12 {
				out = append(out, fzSeed{fzCase{Type: ty, Lazy: k%2 == 0, Dynamic: k == 3, B: c.Wire}, masks[(i+k)%len(masks)]})
			}
		}
	}
	deepGroup := append(bytes.Repeat([]byte{0x83, 0x01}, 100), bytes.Repeat([]byte{0x84, 0x01}, 100)...)
	hostile := [][]byte{
		{},
		{0x08, 0xff, 0xff, 0xff, 0xff, 0xff, 0xff, 0xff, 0xff, 0xff, 0x01},
		{0x88, 0x80, 0x80, 0x80, 0x00, 0x01},                                                     // overlong tag
		{0xf8, 0xff, 0xff, 0xff, 0x0f, 0x01},                                                     // field number 2^29-1
		{0xf8, 0xff, 0xff, 0xff, 0x1f, 0x01},                                                     // beyond
		{0x00, 0x00},                                                                             // field number 0
		{0xc0, 0x3e, 0x80, 0x80, 0x00},                                                           // unknown varint, padded value
		{0xc3, 0x3e, 0xc8, 0x3e, 0x01, 0xc4, 0x3e},                                               // unknown group holding a field
		{0xc3, 0x3e, 0xc3, 0xbe, 0x80, 0x00, 0xc4, 0x3e, 0xc4, 0x3e},                             // unknown group, nested start tag padded, mismatched end
		{0xc2, 0x3e, 0x03, 0x08, 0x96, 0x01},                                                     // unknown bytes that look like a message
		{0xc5, 0x3e, 1, 2, 3, 4, 0xc1, 0x3e, 1, 2, 3, 4, 5, 6, 7, 8},                             // unknown fixed32 + fixed64
		{0x92, 0x01, 0x05, 0xc0, 0x3e, 0x01, 0x08, 0x01, 0x92, 0x01, 0x03, 0xc8, 0x3e, 0x02},     // nested message in two parts, each with unknowns
		{0x0a, 0x07, 0xc0, 0x3e, 0x01, 0x0a, 0x02, 0xc8, 0x3e},                                   // truncated nested unknown
		{0x08, 0x01, 0xc0, 0x3e, 0x01, 0x08, 0x02, 0xc0, 0x3e, 0x02},                             // known / unknown interleaved
		{0x9a, 0x06, 0x00, 0x4b}, {0xa0, 0x04, 0x00}, {0x08, 0x2a, 0x0a, 0x03, 0x88, 0x00, 0x01}, // lazy-field shapes: a record with the lazy field's number in another wire type
		{0x0a, 0x03, 0x08, 0x80, 0x00, 0x0a, 0x02, 0x08, 0x01}, // lazy submessage in two parts, non-minimal varint inside
		deepGroup,
	}
	for i, ty := range fuzzTypes {
		// every hostile constant for every type; with lazy decoding as well where the type has lazy fields
		for k, h := range hostile {
			out = append(out, fzSeed{fzCase{Type: ty, Dynamic: (i+k)%3 == 0, B: h}, masks[(i*3+k)%len(masks)]})
			if lazyCapable[ty] {
				out = append(out, fzSeed{fzCase{Type: ty, Lazy: true, B: h}, masks[(i*3+k+1)%len(masks)]})
			}
		}
	}
	for i := range out {
		out[i].Deleted = deletedFromMask(out[i].Type, out[i].Mask)
	}
	return out
}

func fuzzSafe[C any](check func(C) error, c C) (err error) {
	defer func() {
		if r := recover(); r != nil {
			err = fmt.Errorf("PANIC: %v\n%s", r, debug.Stack())
		}
	}()
	return check(c)
}

// TestFuzzSeeds registers the fuzz check for replay and runs the seed corpus in every tier.
func TestFuzzSeeds(t *testing.T) {
	pbt.Enumerate(t, "fuzz-evolution", "native fuzz target FuzzEvolution (thorough tier): fuzzer-chosen bytes, one of "+fmt.Sprint(len(fuzzTypes))+" types, subset schema from a fuzzer-chosen bit mask over the deletable fields; raw input through a schema that knows nothing, and the canonical re-encoding of accepted content through the subset schema, as in the evolution check; this sub-check replays the seed corpus", false,
		func(yield func(fzCase, bool) bool) {
			for _, c := range fuzzSeeds() {
				if !yield(c.fzCase, len(c.B) > 8 && len(c.Deleted) > 0) {
					return
				}
			}
		}, checkFuzzEvo)
}

func FuzzEvolution(f *testing.F) {
	repo := os.Getenv("VERIF_REPO")
	if repo == "" {
		repo = "/repo"
	}
	index := map[string]int{}
	for i, n := range fuzzTypes {
		index[n] = i
	}
	for _, c := range fuzzSeeds() {
		fl := uint8(0)
		if c.Lazy {
			fl |= 1
		}
		if c.Dynamic {
			fl |= 2
		}
		f.Add(c.B, uint8(index[c.Type]), fl, c.Mask)
	}
	files, _ := filepath.Glob(filepath.Join(repo, "internal/fuzz/wirefuzz/corpus/*"))
	for i, p := range files {
		if b, err := os.ReadFile(p); err == nil && len(b) < 1<<12 {
			f.Add(b, uint8(i), uint8(i>>2), uint64(i)*0x9e3779b97f4a7c15)
		}
	}
	f.Fuzz(func(t *testing.T, b []byte, ti uint8, flags uint8, mask uint64) {
		if len(b) > 1<<13 {
			return
		}
		c := fzCase{Type: fuzzTypes[int(ti)%len(fuzzTypes)], Lazy: flags&1 != 0, Dynamic: flags&2 != 0, B: b}
		c.Deleted = deletedFromMask(c.Type, mask)
		err := fuzzSafe(checkFuzzEvo, c)
		if err != nil && len(err.Error()) >= 8 && err.Error()[:8] == "harness:" {
			return // the check could not be carried out: never a verdict
		}
		if err != nil {
			reportOnce("fuzz-evolution", c, err)
			t.Fatal(err)
		}
	})
}

// reportOnce writes the replay file of a failing input; while the fuzzing engine minimises it, the
// check fails again and again with smaller inputs: only the latest replay file of this process is kept.
var lastReplay string

func reportOnce(test string, c any, err error) {
	n := len(pbt.S.Violation)
	pbt.ReportViolation(nil, test, c, err)
	if len(pbt.S.Violation) > n {
		cur := pbt.S.Violation[len(pbt.S.Violation)-1]
		if lastReplay != "" && lastReplay != cur {
			os.Remove(lastReplay)
		}
		lastReplay = cur
	}
}
