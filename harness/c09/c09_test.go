package c09

import (
	"bytes"
	"fmt"
	"sort"
	"sync"
	"testing"

	"google.golang.org/protobuf/proto"
	"google.golang.org/protobuf/reflect/protodesc"
	"google.golang.org/protobuf/reflect/protoreflect"
	"google.golang.org/protobuf/reflect/protoregistry"
	"google.golang.org/protobuf/types/descriptorpb"
	"google.golang.org/protobuf/types/dynamicpb"
	"google.golang.org/protobuf/types/known/emptypb"
	"google.golang.org/protobuf/zverif/corpus"
	"google.golang.org/protobuf/zverif/gen"
	"google.golang.org/protobuf/zverif/mcase"
	"google.golang.org/protobuf/zverif/model"
	"google.golang.org/protobuf/zverif/pbt"
	"google.golang.org/protobuf/zverif/ref"
	"pgregory.net/rapid"
)

type evoCase struct {
	mcase.Case
	Deleted map[string][]int32 // message full name -> deleted field numbers (subset schema)
	Lazy    bool
}

var eq = model.EqualOpts{BitwiseFloats: true}

// subset builds the file of md with the given fields deleted, and returns md's counterpart.
func subset(md protoreflect.MessageDescriptor, deleted map[string][]int32) (protoreflect.MessageDescriptor, error) {
	fdp := protodesc.ToFileDescriptorProto(md.ParentFile())
	var edit func(prefix string, ms []*descriptorpb.DescriptorProto)
	edit = func(prefix string, ms []*descriptorpb.DescriptorProto) {
		for _, m := range ms {
			full := prefix + m.GetName()
			del := map[int32]bool{}
			for _, n := range deleted[full] {
				del[n] = true
			}
			if len(del) > 0 {
				var keep []*descriptorpb.FieldDescriptorProto
				for _, f := range m.Field {
					if !del[f.GetNumber()] {
						keep = append(keep, f)
					}
				}
				m.Field = keep
			}
			edit(full+".", m.NestedType)
		}
	}
	pkg := fdp.GetPackage()
	if pkg != "" {
		pkg += "."
	}
	edit(pkg, fdp.MessageType)
	fd, err := protodesc.NewFile(fdp, protoregistry.GlobalFiles)
	if err != nil {
		return nil, err
	}
	d := fd.Messages().ByName(md.FullName().Name())
	if md.Parent() != md.ParentFile() {
		// nested message: walk down by full name
		var find func(ms protoreflect.MessageDescriptors) protoreflect.MessageDescriptor
		find = func(ms protoreflect.MessageDescriptors) protoreflect.MessageDescriptor {
			for i := 0; i < ms.Len(); i++ {
				if ms.Get(i).FullName() == md.FullName() {
					return ms.Get(i)
				}
				if r := find(ms.Get(i).Messages()); r != nil {
					return r
				}
			}
			return nil
		}
		d = find(fd.Messages())
	}
	if d == nil {
		return nil, fmt.Errorf("subset: %s not found", md.FullName())
	}
	return d, nil
}

// deletable lists, per message reachable from md, the fields that can be deleted while keeping
// the schema valid: not map-entry fields, not the sole member of a oneof.
func deletable(md protoreflect.MessageDescriptor, out map[string][]int32, seen map[protoreflect.FullName]bool) {
	if seen[md.FullName()] || md.ParentFile() == nil {
		return
	}
	seen[md.FullName()] = true
	fs := md.Fields()
	for i := 0; i < fs.Len(); i++ {
		fd := fs.Get(i)
		// a oneof must keep at least one member: its first member is never deleted
		if od := fd.ContainingOneof(); od != nil && od.Fields().Get(0) == fd {
			continue
		}
		if !md.IsMapEntry() {
			out[string(md.FullName())] = append(out[string(md.FullName())], int32(fd.Number()))
		}
		sub := fd.Message()
		if sub != nil && sub.ParentFile() == md.ParentFile() {
			deletable(sub, out, seen)
		}
	}
}

var (
	delMu    sync.Mutex
	delCache = map[string]map[string][]int32{}
)

func deletableOf(name string) map[string][]int32 {
	delMu.Lock()
	defer delMu.Unlock()
	if d, ok := delCache[name]; ok {
		return d
	}
	d := map[string][]int32{}
	deletable(corpus.ByName(name).Descriptor(), d, map[protoreflect.FullName]bool{})
	delCache[name] = d
	return d
}

// expectUnknown walks the bytes b of a message of full schema fmd alongside the subset schema
// smd and checks that msg (decoded with smd) holds, at every level, exactly the records whose
// numbers smd does not know, in input order, bytes unchanged.
func expectUnknown(smd protoreflect.MessageDescriptor, b []byte, msg protoreflect.Message, path string) error {
	recs, ok := ref.Split(b)
	if !ok {
		return fmt.Errorf("harness: marshal output not splittable at %s", path)
	}
	var want []byte
	bySub := map[int32][][]byte{}
	for _, r := range recs {
		fd := smd.Fields().ByNumber(protoreflect.FieldNumber(r.Num))
		if fd == nil {
			want = append(want, r.Raw...)
			continue
		}
		if fd.Message() != nil && !fd.IsMap() {
			switch r.Typ {
			case 2:
				bySub[int32(r.Num)] = append(bySub[int32(r.Num)], r.Payload())
			case 3:
				bySub[int32(r.Num)] = append(bySub[int32(r.Num)], r.Val[:len(r.Val)-ref.VarintLen(uint64(r.Num)<<3|4)])
			}
		}
	}
	if got := []byte(msg.GetUnknown()); !bytes.Equal(got, want) {
		return fmt.Errorf("%s: unknown fields after subset decode = %x, want the deleted fields' records in input order %x", path, got, want)
	}
	// recurse into kept singular and repeated message fields (one record per element as Marshal wrote them)
	for num, payloads := range bySub {
		fd := smd.Fields().ByNumber(protoreflect.FieldNumber(num))
		if fd.IsList() {
			l := msg.Get(fd).List()
			if l.Len() != len(payloads) {
				return fmt.Errorf("%s.%s: %d elements decoded, %d records", path, fd.Name(), l.Len(), len(payloads))
			}
			for i, p := range payloads {
				if err := expectUnknown(fd.Message(), p, l.Get(i).Message(), fmt.Sprintf("%s.%s[%d]", path, fd.Name(), i)); err != nil {
					return err
				}
			}
		} else if len(payloads) == 1 {
			if err := expectUnknown(fd.Message(), payloads[0], msg.Get(fd).Message(), path+"."+string(fd.Name())); err != nil {
				return err
			}
		}
	}
	return nil
}

func noUnknown(m protoreflect.Message) error {
	if len(m.GetUnknown()) > 0 {
		return fmt.Errorf("%s retains unknown fields %x", m.Descriptor().FullName(), m.GetUnknown())
	}
	var err error
	m.Range(func(fd protoreflect.FieldDescriptor, v protoreflect.Value) bool {
		switch {
		case fd.IsMap():
			if fd.MapValue().Message() != nil {
				v.Map().Range(func(_ protoreflect.MapKey, mv protoreflect.Value) bool {
					err = noUnknown(mv.Message())
					return err == nil
				})
			}
		case fd.IsList():
			if fd.Message() != nil {
				for i := 0; i < v.List().Len() && err == nil; i++ {
					err = noUnknown(v.List().Get(i).Message())
				}
			}
		case fd.Message() != nil:
			err = noUnknown(v.Message())
		}
		return err == nil
	})
	return err
}

func stripUnknown(v *model.Msg) *model.Msg {
	if v == nil {
		return nil
	}
	o := &model.Msg{}
	for _, f := range v.Fields {
		g := model.Field{Num: f.Num, Keys: f.Keys}
		for _, x := range f.Vals {
			g.Vals = append(g.Vals, model.Val{U: x.U, B: x.B, M: stripUnknown(x.M)})
		}
		o.Fields = append(o.Fields, g)
	}
	return o
}

func checkEvo(c evoCase) error {
	md := c.Desc()
	m, err := c.Build()
	if err != nil {
		return err
	}
	b, err := proto.MarshalOptions{AllowPartial: true}.Marshal(m.Interface())
	if err != nil {
		return err
	}
	uo := proto.UnmarshalOptions{AllowPartial: true, NoLazyDecoding: !c.Lazy}
	direct := mcase.New(c.Type, c.Dynamic)
	if err := uo.Unmarshal(b, direct.Interface()); err != nil {
		return fmt.Errorf("Unmarshal(Marshal(m)): %v", err)
	}

	// (a) subset schema through dynamicpb (reflection path), extensions unknown (empty resolver)
	smd, err := subset(md, c.Deleted)
	if err != nil {
		return fmt.Errorf("harness: subset schema rejected: %v", err)
	}
	s := dynamicpb.NewMessage(smd)
	if err := (proto.UnmarshalOptions{AllowPartial: true, Resolver: &protoregistry.Types{}}).Unmarshal(b, s); err != nil {
		return fmt.Errorf("decode with subset schema failed: %v", err)
	}
	if err := expectUnknown(smd, b, s, string(md.Name())); err != nil {
		return err
	}
	sb, err := proto.MarshalOptions{AllowPartial: true}.Marshal(s)
	if err != nil {
		return fmt.Errorf("Marshal of subset-decoded message failed: %v", err)
	}
	back := mcase.New(c.Type, c.Dynamic)
	if err := uo.Unmarshal(sb, back.Interface()); err != nil {
		return fmt.Errorf("full-schema decode of the re-encoded subset message failed: %v", err)
	}
	if d := model.Diff(md, model.Snapshot(direct), model.Snapshot(back), eq, nil); d != "" {
		return fmt.Errorf("decode(subset) -> encode -> decode(full) differs from decode(full): %s", d)
	}
	if d := model.Diff(md, c.M, model.Snapshot(back), eq, nil); d != "" {
		return fmt.Errorf("schema-evolution round trip differs from the generated content: %s", d)
	}

	// (b) generated subset schema on the fast path: google.protobuf.Empty knows nothing
	e := &emptypb.Empty{}
	if err := uo.Unmarshal(b, e); err != nil {
		return fmt.Errorf("decode as Empty failed: %v", err)
	}
	if got, want := []byte(e.ProtoReflect().GetUnknown()), model.NormalizeUnknown(b); !bytes.Equal(got, want) {
		return fmt.Errorf("Empty.GetUnknown() = %x, want every record in order %x", got, want)
	}
	eb, err := proto.Marshal(e)
	if err != nil || !bytes.Equal(eb, model.NormalizeUnknown(b)) {
		return fmt.Errorf("Marshal(Empty holding everything as unknown) = %x (err %v), want %x", eb, err, model.NormalizeUnknown(b))
	}
	back2 := mcase.New(c.Type, c.Dynamic)
	if err := uo.Unmarshal(eb, back2.Interface()); err != nil {
		return err
	}
	if d := model.Diff(md, c.M, model.Snapshot(back2), eq, nil); d != "" {
		return fmt.Errorf("decode(Empty) -> encode -> decode(full) differs: %s", d)
	}

	// (c) DiscardUnknown: nothing retained anywhere, known content unchanged
	for _, dyn := range []bool{false, true} {
		dm := mcase.New(c.Type, dyn)
		duo := uo
		duo.DiscardUnknown = true
		if err := duo.Unmarshal(b, dm.Interface()); err != nil {
			return fmt.Errorf("Unmarshal(DiscardUnknown) failed: %v", err)
		}
		// before anything reads dm (a lazily held submessage is still raw bytes): what Marshal writes
		// must already be free of the discarded records
		raw, err := proto.MarshalOptions{AllowPartial: true}.Marshal(dm.Interface())
		if err != nil {
			return fmt.Errorf("Marshal after Unmarshal(DiscardUnknown) failed: %v", err)
		}
		probe := mcase.New(c.Type, true)
		if err := (proto.UnmarshalOptions{AllowPartial: true}).Unmarshal(raw, probe.Interface()); err != nil {
			return fmt.Errorf("output of a message decoded with DiscardUnknown does not decode: %v", err)
		}
		if err := noUnknown(probe); err != nil {
			return fmt.Errorf("DiscardUnknown (dynamic=%v lazy=%v): Marshal of the untouched message still writes discarded records: %v", dyn, c.Lazy, err)
		}
		if err := noUnknown(dm); err != nil {
			return fmt.Errorf("DiscardUnknown (dynamic=%v lazy=%v): %v", dyn, c.Lazy, err)
		}
		if d := model.Diff(md, stripUnknown(c.M), model.Snapshot(dm), eq, nil); d != "" {
			return fmt.Errorf("DiscardUnknown changed known content (dynamic=%v): %s", dyn, d)
		}
	}
	return nil
}

func deletedDepth(c evoCase) (n int, nested bool) {
	top := string(c.Desc().FullName())
	for k, v := range c.Deleted {
		n += len(v)
		if k != top && len(v) > 0 {
			nested = true
		}
	}
	return
}

// types whose file protodesc can rebuild in this build (files declaring MessageSet messages are
// rejected without -tags protolegacy; the legacy generations have unregistered imports)
var evoTypes, evoRich = func() (all, rich []string) {
	okFile := map[string]bool{}
	for _, n := range corpus.Standard() {
		md := corpus.ByName(n).Descriptor()
		path := md.ParentFile().Path()
		ok, seen := okFile[path]
		if !seen {
			_, err := protodesc.NewFile(protodesc.ToFileDescriptorProto(md.ParentFile()), protoregistry.GlobalFiles)
			ok = err == nil && gen.TreePreservesUnknown(md)
			okFile[path] = ok
		}
		if ok && gen.TreePreservesUnknown(md) {
			all = append(all, n)
			if md.Fields().Len() >= 20 {
				rich = append(rich, n)
			}
		}
	}
	return
}()

func TestEvolution(t *testing.T) {
	pbt.Run(t, pbt.Prop[evoCase]{
		Name: "evolution",
		Rule: "content from the descriptor-directed generator (unknown fields at every depth) over all linked types; subset schema = each deletable field (not a map-entry field, not a sole oneof member) of each message of the same file deleted with probability 1/3; non-trivial = >= 1 populated field deleted and >= 1 field deleted in a nested message",
		Draw: func(t *rapid.T) evoCase {
			c := evoCase{Case: mcase.Draw(t, evoTypes, evoRich, gen.DefaultMsgOpts, model.EncOpts{}), Lazy: rapid.Bool().Draw(t, "lazy")}
			c.Deleted = map[string][]int32{}
			cands := deletableOf(c.Type)
			names := make([]string, 0, len(cands))
			for k := range cands {
				names = append(names, k)
			}
			sort.Strings(names)
			// always consider the populated fields first so deletions hit content
			pop := map[int32]bool{}
			for _, f := range c.M.Fields {
				pop[f.Num] = true
			}
			for _, name := range names {
				for _, n := range cands[name] {
					p := 6
					if name == string(c.Desc().FullName()) && pop[n] {
						p = 2
					}
					if rapid.IntRange(0, p-1).Draw(t, "del") == 0 {
						c.Deleted[name] = append(c.Deleted[name], n)
					}
				}
			}
			return c
		},
		Check: checkEvo,
		NonTrivial: func(c evoCase) bool {
			_, nested := deletedDepth(c)
			top := string(c.Desc().FullName())
			hit := false
			for _, n := range c.Deleted[top] {
				if c.M.Get(n) != nil {
					hit = true
				}
			}
			return hit && nested
		},
		Classes: func(c evoCase) []string {
			cl := c.Classes()
			if _, nested := deletedDepth(c); nested {
				cl = append(cl, "nested-deletion")
			}
			return cl
		},
		Quick: 3000, Thorough: 50000,
	})
}
