package c02

import (
	"bytes"
	"fmt"
	"io"
	"testing"

	"google.golang.org/protobuf/encoding/protowire"
	"google.golang.org/protobuf/zverif/gen"
	"google.golang.org/protobuf/zverif/pbt"
	"google.golang.org/protobuf/zverif/ref"
	"pgregory.net/rapid"
)

type parseCase struct {
	B      []byte
	Source string
	Num    int64 // field number used for ConsumeGroup / ConsumeFieldValue of a group
}

// documented ParseError mapping for each defect class; generic "parse error" for depth.
func wantErr(d ref.Defect, err error) bool {
	if err == nil {
		return false
	}
	switch d {
	case ref.Truncated:
		return err == io.ErrUnexpectedEOF
	case ref.Overflow:
		return err.Error() == "proto: variable length integer overflow" || containsAll(err.Error(), "variable length integer overflow")
	case ref.FieldNumber:
		return containsAll(err.Error(), "invalid field number")
	case ref.Reserved:
		return containsAll(err.Error(), "cannot parse reserved wire type")
	case ref.EndGroup:
		return containsAll(err.Error(), "mismatching end group marker")
	case ref.Depth:
		return containsAll(err.Error(), "parse error")
	}
	return false
}

func containsAll(s, sub string) bool { return bytes.Contains([]byte(s), []byte(sub)) }

// poisoned returns b placed in front of poison bytes inside a larger allocation, sliced with
// full capacity so that any read past len(b) sees poison (and cap-limited variant).
func poisoned(b []byte, poison byte) []byte {
	buf := make([]byte, len(b)+32)
	copy(buf, b)
	for i := len(b); i < len(buf); i++ {
		buf[i] = poison
	}
	return buf[:len(b)]
}

func checkParse(c parseCase) error {
	b := c.B
	variants := [][]byte{b[:len(b):len(b)], poisoned(b, 0x80), poisoned(b, 0x00), poisoned(b, 0x0c)}

	// ConsumeVarint
	rv, rn, rd := ref.ConsumeVarint(b)
	for i, in := range variants {
		v, n := protowire.ConsumeVarint(in)
		if n > len(b) {
			return fmt.Errorf("ConsumeVarint reports length %d > input %d", n, len(b))
		}
		if rd == ref.OK {
			if n != rn || v != rv {
				return fmt.Errorf("ConsumeVarint(%x) variant %d = (%#x,%d), reference (%#x,%d)", b, i, v, n, rv, rn)
			}
		} else if n >= 0 || !wantErr(rd, protowire.ParseError(n)) {
			return fmt.Errorf("ConsumeVarint(%x) variant %d = n %d (%v), reference defect %v", b, i, n, protowire.ParseError(n), rd)
		}
	}
	// ConsumeTag
	tnum, ttyp, tn, td := ref.ConsumeTag(b)
	for i, in := range variants {
		num, typ, n := protowire.ConsumeTag(in)
		if n > len(b) {
			return fmt.Errorf("ConsumeTag reports length %d > input %d", n, len(b))
		}
		if td == ref.OK {
			if n != tn || int64(num) != tnum || int(typ) != ttyp {
				return fmt.Errorf("ConsumeTag(%x) variant %d = (%d,%d,%d), reference (%d,%d,%d)", b, i, num, typ, n, tnum, ttyp, tn)
			}
		} else if n >= 0 || !wantErr(td, protowire.ParseError(n)) {
			return fmt.Errorf("ConsumeTag(%x) variant %d = n %d (%v), reference defect %v", b, i, n, protowire.ParseError(n), td)
		}
	}
	// ConsumeField
	fnum, ftyp, fn, fd := ref.ConsumeField(b)
	for i, in := range variants {
		num, typ, n := protowire.ConsumeField(in)
		if n > len(b) {
			return fmt.Errorf("ConsumeField reports length %d > input %d", n, len(b))
		}
		if fd == ref.OK {
			if n != fn || int64(num) != fnum || int(typ) != ftyp {
				return fmt.Errorf("ConsumeField(%x) variant %d = (%d,%d,%d), reference (%d,%d,%d)", b, i, num, typ, n, fnum, ftyp, fn)
			}
		} else if n >= 0 || !wantErr(fd, protowire.ParseError(n)) {
			return fmt.Errorf("ConsumeField(%x) variant %d = n %d (%v), reference first defect %v", b, i, n, protowire.ParseError(n), fd)
		}
	}
	// ConsumeFieldValue for every wire type (incl. reserved 6, 7 and end-group 4) and ConsumeGroup
	for typ := 0; typ < 8; typ++ {
		wn, wd := ref.ConsumeValue(c.Num, typ, b, ref.DefaultDepth)
		for i, in := range variants {
			n := protowire.ConsumeFieldValue(protowire.Number(c.Num), protowire.Type(typ), in)
			if n > len(b) {
				return fmt.Errorf("ConsumeFieldValue reports length %d > input %d", n, len(b))
			}
			if wd == ref.OK {
				if n != wn {
					return fmt.Errorf("ConsumeFieldValue(%d,%d,%x) variant %d = %d, reference %d", c.Num, typ, b, i, n, wn)
				}
			} else if n >= 0 || !wantErr(wd, protowire.ParseError(n)) {
				return fmt.Errorf("ConsumeFieldValue(%d,%d,%x) variant %d = %d (%v), reference first defect %v", c.Num, typ, b, i, n, protowire.ParseError(n), wd)
			}
		}
	}
	gn, gd := ref.ConsumeValue(c.Num, 3, b, ref.DefaultDepth)
	for i, in := range variants {
		v, n := protowire.ConsumeGroup(protowire.Number(c.Num), in)
		if n > len(b) {
			return fmt.Errorf("ConsumeGroup reports length %d > input %d", n, len(b))
		}
		if gd == ref.OK {
			// body = everything before the end tag; find the end tag start by re-walking
			body := groupBody(c.Num, b[:gn])
			if n != gn || !bytes.Equal(v, body) {
				return fmt.Errorf("ConsumeGroup(%d,%x) variant %d = (%x,%d), reference (%x,%d)", c.Num, b, i, v, n, body, gn)
			}
		} else if n >= 0 || !wantErr(gd, protowire.ParseError(n)) {
			return fmt.Errorf("ConsumeGroup(%d,%x) variant %d = n %d (%v), reference first defect %v", c.Num, b, i, n, protowire.ParseError(n), gd)
		}
	}
	// ConsumeBytes
	bn, bd := ref.ConsumeValue(1, 2, b, 0)
	for i, in := range variants {
		v, n := protowire.ConsumeBytes(in)
		if n > len(b) {
			return fmt.Errorf("ConsumeBytes reports length %d > input %d", n, len(b))
		}
		if bd == ref.OK {
			_, ln, _ := ref.ConsumeVarint(b)
			if n != bn || !bytes.Equal(v, b[ln:bn]) {
				return fmt.Errorf("ConsumeBytes(%x) variant %d = (%x,%d), reference (%x,%d)", b, i, v, n, b[ln:bn], bn)
			}
		} else if n >= 0 || !wantErr(bd, protowire.ParseError(n)) {
			return fmt.Errorf("ConsumeBytes(%x) variant %d = n %d (%v), reference defect %v", b, i, n, protowire.ParseError(n), bd)
		}
	}
	return nil
}

// groupBody walks a well-formed group value (fields then the matching end tag) and returns the
// bytes before the end tag.
func groupBody(num int64, b []byte) []byte {
	pos := 0
	for {
		n2, typ, n, _ := ref.ConsumeTag(b[pos:])
		if typ == 4 && n2 == num {
			return b[:pos]
		}
		m, _ := ref.ConsumeValue(n2, typ, b[pos+n:], ref.DefaultDepth)
		pos += n + m
	}
}

func drawCase(t *rapid.T) parseCase {
	c := parseCase{Num: gen.FieldNum().Draw(t, "gnum")}
	switch rapid.IntRange(0, 4).Draw(t, "source") {
	case 0: // one well-formed field followed by anything
		c.Source = "wellformed"
		c.B = gen.FieldSeq(3, 3, true, nil).Draw(t, "seq")
		c.B = append(c.B, rapid.SliceOfN(rapid.Byte(), 0, 6).Draw(t, "suffix")...)
	case 1: // well-formed group value for c.Num: fields + end tag
		c.Source = "group"
		c.B = gen.FieldSeq(3, 3, true, nil).Draw(t, "body")
		end := uint64(c.Num)<<3 | 4
		if rapid.Bool().Draw(t, "padend") {
			c.B = ref.VarintPadded(c.B, end, ref.VarintLen(end)+rapid.IntRange(1, 3).Draw(t, "pad"))
		} else {
			c.B = ref.Varint(c.B, end)
		}
		c.B = append(c.B, rapid.SliceOfN(rapid.Byte(), 0, 4).Draw(t, "suffix")...)
	case 2: // mutation of a well-formed sequence
		base := gen.FieldSeq(3, 3, true, nil).Draw(t, "seq")
		if rapid.Bool().Draw(t, "asgroup") {
			base = ref.Varint(base, uint64(c.Num)<<3|4)
		}
		var kind string
		c.B, kind = gen.Mutate(t, base)
		c.Source = "mutated-" + kind
	case 3: // raw bytes biased to tag-like and continuation bytes
		c.Source = "raw"
		c.B = rapid.SliceOfN(rapid.OneOf(rapid.Byte(), rapid.SampledFrom([]byte{0x08, 0x0a, 0x0b, 0x0c, 0x0d, 0x09, 0x80, 0xff, 0x01, 0x00, 0x7f, 0x0e, 0x0f})), 0, 40).Draw(t, "raw")
	default: // long varints at the 9/10/11-byte boundary
		c.Source = "longvarint"
		n := rapid.IntRange(8, 12).Draw(t, "n")
		for i := 0; i < n-1; i++ {
			c.B = append(c.B, 0x80|rapid.Byte().Draw(t, "cont"))
		}
		c.B = append(c.B, rapid.SampledFrom([]byte{0, 1, 2, 0x7f, 0x80}).Draw(t, "last"))
		c.B = append(c.B, rapid.SliceOfN(rapid.Byte(), 0, 10).Draw(t, "suffix")...)
	}
	return c
}

func nonTrivial(c parseCase) bool {
	_, _, n, d := ref.ConsumeField(c.B)
	if d == ref.OK {
		recs, _ := ref.Split(c.B[:n])
		return len(recs) > 0 && (recs[0].Typ == 3 || n > 3)
	}
	// malformed: defect not decidable from the first byte alone
	return len(c.B) > 1
}

func TestParse(t *testing.T) {
	pbt.Run(t, pbt.Prop[parseCase]{
		Name: "parse",
		Rule: "byte strings: well-formed field sequences (+ suffix), well-formed group values, 11 kinds of mutation, raw tag-biased bytes, 8..12-byte varints; each parsed by ConsumeVarint/Tag/Field/FieldValue(all 8 wire types)/Group/Bytes in 4 memory layouts (exact-capacity slice and three poison suffixes) and compared with the reference recogniser (accept/reject, length, number, type, first-defect error). non-trivial = well-formed first field that is a group or longer than 3 bytes, or malformed input of >= 2 bytes",
		Draw: drawCase, Check: checkParse, NonTrivial: nonTrivial,
		Classes: func(c parseCase) []string {
			_, _, _, d := ref.ConsumeField(c.B)
			return []string{c.Source, "field-" + d.String()}
		},
		Quick: 40000, Thorough: 1500000,
	})
}

type depthCase struct {
	Depth int
	Num   int64
}

func TestDepth(t *testing.T) {
	pbt.Enumerate(t, "group-depth", "chains of nested groups of depth 1..40, 9990..10010 and 20000: accepted iff the reference nesting limit (10000 below the outermost) allows; non-trivial = every case", true,
		func(yield func(depthCase, bool) bool) {
			for _, num := range []int64{1, 2047, 1<<29 - 1} {
				ds := []int{}
				for d := 1; d <= 40; d++ {
					ds = append(ds, d)
				}
				for d := 9990; d <= 10010; d++ {
					ds = append(ds, d)
				}
				ds = append(ds, 20000)
				for _, d := range ds {
					if !yield(depthCase{Depth: d, Num: num}, true) {
						return
					}
				}
			}
		},
		func(c depthCase) error {
			var b []byte
			for i := 0; i < c.Depth; i++ {
				b = ref.Tag(b, c.Num, 3)
			}
			for i := 0; i < c.Depth; i++ {
				b = ref.Tag(b, c.Num, 4)
			}
			return checkParse(parseCase{B: b, Num: c.Num})
		})
}
