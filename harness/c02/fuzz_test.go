package c02

import (
	"os"
	"path/filepath"
	"testing"

	"google.golang.org/protobuf/zverif/pbt"
	"google.golang.org/protobuf/zverif/ref"
)

// Native fuzz target (thorough tier; `go test -fuzz`): the same check function as the rapid
// property, driven by coverage-guided byte mutation. Seeds: the repository's wire fuzz corpus and
// hostile constants.
func FuzzParse(f *testing.F) {
	repo := os.Getenv("VERIF_REPO")
	if repo == "" {
		repo = "/repo"
	}
	files, _ := filepath.Glob(filepath.Join(repo, "internal/fuzz/wirefuzz/corpus/*"))
	for _, p := range files {
		if b, err := os.ReadFile(p); err == nil && len(b) < 1<<12 {
			f.Add(b, int64(1))
		}
	}
	f.Add([]byte{0x0b, 0x0c}, int64(1))
	f.Add([]byte{0xff, 0xff, 0xff, 0xff, 0xff, 0xff, 0xff, 0xff, 0xff, 0x02}, int64(5))
	f.Add(ref.Tag(ref.Tag(nil, 3, 3), 3, 4), int64(3))
	f.Add([]byte{0x0a, 0x80, 0x80, 0x80, 0x80, 0x08}, int64(1))
	f.Fuzz(func(t *testing.T, b []byte, num int64) {
		if len(b) > 1<<14 {
			return
		}
		if num < 1 || num > 1<<29-1 {
			num = 1 + (num&0x7fffffff)%(1<<29-1)
		}
		c := parseCase{B: b, Source: "fuzz", Num: num}
		if err := checkParse(c); err != nil {
			pbt.ReportViolation(nil, "parse", c, err)
			t.Fatal(err)
		}
	})
}
