package ref

// Reference reader/writer for text-format string literals, written from the text-format
// language specification (protobuf.dev/reference/protobuf/textformat-spec, section "String
// Literals") and from CEscape in protobuf's strutil.cc. Independent of /repo's
// internal/encoding/text: shares no code with it. Used by C25 (text literals) and C39 (bytes
// default values, which are C-escaped without the surrounding quotes).

import (
	"fmt"
	"unicode/utf8"
)

// TextUnquote parses ONE quoted literal (single or double quotes) that must span the whole of lit
// and returns the denoted bytes.
//
//	ESCAPE = "\a" | "\b" | "\f" | "\n" | "\r" | "\t" | "\v" | "\?" | "\\" | "\'" | "\""
//	       | "\" OCT [OCT [OCT]] | "\x" HEX [HEX] | "\u" HEX*4 | "\U000" HEX*5 | "\U0010" HEX*4
//
// Unescaped content: any character except NUL, newline, backslash and the delimiting quote;
// it must be valid UTF-8. A "\u" high surrogate must be followed by a "\u" low surrogate.
func TextUnquote(lit []byte) ([]byte, error) {
	if len(lit) < 2 || (lit[0] != '"' && lit[0] != '\'') {
		return nil, fmt.Errorf("ref: literal does not start with a quote: %q", lit)
	}
	q := lit[0]
	in := lit[1:]
	var out []byte
	for {
		if len(in) == 0 {
			return nil, fmt.Errorf("ref: unterminated literal %q", lit)
		}
		c := in[0]
		switch {
		case c == q:
			if len(in) != 1 {
				return nil, fmt.Errorf("ref: closing quote before the end of %q (at %d)", lit, len(lit)-len(in))
			}
			return out, nil
		case c == 0 || c == '\n':
			return nil, fmt.Errorf("ref: raw NUL/newline in literal %q", lit)
		case c == '\\':
			if len(in) < 2 {
				return nil, fmt.Errorf("ref: dangling backslash in %q", lit)
			}
			e := in[1]
			in = in[2:]
			switch e {
			case 'a':
				out = append(out, 7)
			case 'b':
				out = append(out, 8)
			case 'f':
				out = append(out, 12)
			case 'n':
				out = append(out, 10)
			case 'r':
				out = append(out, 13)
			case 't':
				out = append(out, 9)
			case 'v':
				out = append(out, 11)
			case '?', '\\', '\'', '"':
				out = append(out, e)
			case '0', '1', '2', '3', '4', '5', '6', '7':
				v := int(e - '0')
				for k := 0; k < 2 && len(in) > 0 && in[0] >= '0' && in[0] <= '7'; k++ {
					v = v*8 + int(in[0]-'0')
					in = in[1:]
				}
				if v > 255 {
					return nil, fmt.Errorf("ref: octal escape > 0377 in %q", lit)
				}
				out = append(out, byte(v))
			case 'x':
				v, k := 0, 0
				for k < 2 && len(in) > 0 && hexVal(in[0]) >= 0 {
					v = v*16 + hexVal(in[0])
					in = in[1:]
					k++
				}
				if k == 0 {
					return nil, fmt.Errorf("ref: \\x without digits in %q", lit)
				}
				out = append(out, byte(v))
			case 'u', 'U':
				nd := 4
				if e == 'U' {
					nd = 8
				}
				r, rest, err := hexN(in, nd)
				if err != nil {
					return nil, fmt.Errorf("ref: %v in %q", err, lit)
				}
				in = rest
				if r >= 0xd800 && r <= 0xdbff { // high surrogate: needs a \uDC00..\uDFFF partner
					if len(in) < 6 || in[0] != '\\' || in[1] != 'u' {
						return nil, fmt.Errorf("ref: lone high surrogate in %q", lit)
					}
					lo, rest, err := hexN(in[2:], 4)
					if err != nil || lo < 0xdc00 || lo > 0xdfff {
						return nil, fmt.Errorf("ref: bad low surrogate in %q", lit)
					}
					in = rest
					r = 0x10000 + (r-0xd800)<<10 + (lo - 0xdc00)
				} else if r >= 0xdc00 && r <= 0xdfff {
					return nil, fmt.Errorf("ref: lone low surrogate in %q", lit)
				}
				if r > 0x10ffff {
					return nil, fmt.Errorf("ref: code point beyond U+10FFFF in %q", lit)
				}
				out = utf8.AppendRune(out, rune(r))
			default:
				return nil, fmt.Errorf("ref: unknown escape \\%c in %q", e, lit)
			}
		default:
			if c < utf8.RuneSelf {
				out = append(out, c)
				in = in[1:]
				break
			}
			r, n := utf8.DecodeRune(in)
			if r == utf8.RuneError && n <= 1 {
				return nil, fmt.Errorf("ref: raw invalid UTF-8 in literal %q", lit)
			}
			out = append(out, in[:n]...)
			in = in[n:]
		}
	}
}

func hexVal(c byte) int {
	switch {
	case c >= '0' && c <= '9':
		return int(c - '0')
	case c >= 'a' && c <= 'f':
		return int(c-'a') + 10
	case c >= 'A' && c <= 'F':
		return int(c-'A') + 10
	}
	return -1
}

func hexN(in []byte, n int) (int, []byte, error) {
	if len(in) < n {
		return 0, nil, fmt.Errorf("short \\u escape")
	}
	v := 0
	for i := 0; i < n; i++ {
		h := hexVal(in[i])
		if h < 0 {
			return 0, nil, fmt.Errorf("non-hex digit in \\u escape")
		}
		v = v*16 + h
		if v > 0x7fffffff>>4 {
			return 0, nil, fmt.Errorf("\\U escape too large")
		}
	}
	return v, in[n:], nil
}

// CEscape is protobuf's CEscape (strutil.cc): \n \r \t \" \' \\ as two-character escapes, other
// bytes outside 0x20..0x7e as exactly three octal digits, everything else verbatim. This is the form
// protoc writes into FieldDescriptorProto.default_value for bytes fields.
func CEscape(b []byte) string {
	var out []byte
	for _, c := range b {
		switch c {
		case '\n':
			out = append(out, '\\', 'n')
		case '\r':
			out = append(out, '\\', 'r')
		case '\t':
			out = append(out, '\\', 't')
		case '"':
			out = append(out, '\\', '"')
		case '\'':
			out = append(out, '\\', '\'')
		case '\\':
			out = append(out, '\\', '\\')
		default:
			if c >= 0x20 && c <= 0x7e {
				out = append(out, c)
			} else {
				out = append(out, '\\', '0'+c>>6, '0'+(c>>3)&7, '0'+c&7)
			}
		}
	}
	return string(out)
}

// Escape styles for TextQuoteStyled.
const (
	StyleRaw     = iota // verbatim when the grammar allows it, else the shortest safe escape
	StyleSimple         // \a \b \f \n \r \t \v \? \\ \' \" when one exists
	StyleOctal3         // \ooo
	StyleOctalMin       // \o, \oo or \ooo: as few digits as are unambiguous before the next character
	StyleHex2           // \xhh
	StyleHexMin         // \xh when unambiguous
	StyleHexUpper       // \xHH
	StyleU4             // \uhhhh for a whole valid rune (surrogate pair above U+FFFF)
	StyleU8             // \Uhhhhhhhh for a whole valid rune
	NStyles
)

// TextQuoteStyled writes s as one literal delimited by quote, choosing for the i-th *unit* (a valid
// UTF-8 rune or one stray byte) the escape form styles[i%len(styles)]. Every form used is one the
// specification defines; the result denotes exactly s.
func TextQuoteStyled(s []byte, quote byte, styles []int) []byte {
	out := []byte{quote}
	in := s
	for i := 0; len(in) > 0; i++ {
		st := StyleRaw
		if len(styles) > 0 {
			st = styles[i%len(styles)] % NStyles
		}
		r, n := utf8.DecodeRune(in)
		valid := !(r == utf8.RuneError && n <= 1)
		unit := in[:n]
		in = in[n:]
		var next byte
		if len(in) > 0 {
			next = in[0]
		}
		// The byte that will follow in the OUTPUT matters for minimal-digit escapes; to stay
		// independent of the next unit's style, minimal forms are used only when the next input
		// byte can be written, whatever its style, starting with a non-digit: every style starts
		// with '\\' except raw, and raw starts with the byte itself.
		nextIsOct := next >= '0' && next <= '7'
		nextIsHex := hexVal(next) >= 0
		if valid && n > 1 { // multi-byte rune
			switch st {
			case StyleU4:
				if r <= 0xffff {
					out = append(out, fmt.Sprintf(`\u%04x`, r)...)
				} else {
					r2 := r - 0x10000
					out = append(out, fmt.Sprintf(`\u%04X\u%04x`, 0xd800+(r2>>10), 0xdc00+(r2&0x3ff))...)
				}
				continue
			case StyleU8:
				out = append(out, fmt.Sprintf(`\U%08x`, r)...)
				continue
			case StyleRaw, StyleSimple:
				out = append(out, unit...)
				continue
			}
			// byte-wise escapes of each UTF-8 byte
			for j, c := range unit {
				last := j == len(unit)-1
				out = appendByteEscape(out, c, st, quote, !last || nextIsOct, !last || nextIsHex)
			}
			continue
		}
		c := unit[0]
		if valid && (st == StyleU4 || st == StyleU8) { // ASCII rune as \u
			if st == StyleU4 {
				out = append(out, fmt.Sprintf(`\u%04X`, c)...)
			} else {
				out = append(out, fmt.Sprintf(`\U%08X`, c)...)
			}
			continue
		}
		out = appendByteEscape(out, c, st, quote, nextIsOct, nextIsHex)
	}
	return append(out, quote)
}

func appendByteEscape(out []byte, c byte, st int, quote byte, nextIsOct, nextIsHex bool) []byte {
	simple := map[byte]byte{7: 'a', 8: 'b', 12: 'f', 10: 'n', 13: 'r', 9: 't', 11: 'v', '?': '?', '\\': '\\', '\'': '\'', '"': '"'}
	switch st {
	case StyleRaw:
		if c != 0 && c != '\n' && c != '\\' && c != quote && c < 0x80 {
			return append(out, c)
		}
		if e, ok := simple[c]; ok {
			return append(out, '\\', e)
		}
		return append(out, fmt.Sprintf(`\x%02x`, c)...)
	case StyleSimple:
		if e, ok := simple[c]; ok {
			return append(out, '\\', e)
		}
		if c != 0 && c < 0x80 {
			return append(out, c)
		}
		return append(out, fmt.Sprintf(`\%03o`, c)...)
	case StyleOctalMin:
		if !nextIsOct {
			return append(out, fmt.Sprintf(`\%o`, c)...)
		}
		return append(out, fmt.Sprintf(`\%03o`, c)...)
	case StyleHexMin:
		if !nextIsHex {
			return append(out, fmt.Sprintf(`\x%x`, c)...)
		}
		return append(out, fmt.Sprintf(`\x%02x`, c)...)
	case StyleHexUpper:
		return append(out, fmt.Sprintf(`\x%02X`, c)...)
	case StyleHex2:
		return append(out, fmt.Sprintf(`\x%02x`, c)...)
	default: // StyleOctal3 and the rune styles applied to a stray byte
		return append(out, fmt.Sprintf(`\%03o`, c)...)
	}
}
