// Package ref holds reference implementations written from the protobuf encoding
// specification, independent of /repo's code: varints, zigzag, tags, and a recursive-descent
// recogniser for the wire grammar. They are the oracles of C01/C02 and the foundation of the
// reference message encoder in package model.
package ref

import (
	"encoding/binary"
	"math/big"
)

// Varint appends v in base-128 little-endian groups, shortest form.
func Varint(b []byte, v uint64) []byte {
	for v >= 0x80 {
		b = append(b, byte(v)|0x80)
		v >>= 7
	}
	return append(b, byte(v))
}

// VarintPadded appends v using exactly n bytes (n >= minimal length, n <= 10): a non-minimal
// ("denormalised") varint.
func VarintPadded(b []byte, v uint64, n int) []byte {
	min := VarintLen(v)
	if n < min {
		n = min
	}
	if n > 10 {
		n = 10
	}
	for i := 0; i < n-1; i++ {
		b = append(b, byte(v)|0x80)
		v >>= 7
	}
	return append(b, byte(v))
}

func VarintLen(v uint64) int {
	n := 1
	for v >= 0x80 {
		v >>= 7
		n++
	}
	return n
}

// Defect classes of the wire grammar, in the vocabulary of protowire.ParseError.
type Defect int

const (
	OK Defect = iota
	Truncated
	Overflow
	FieldNumber
	Reserved
	EndGroup
	Depth
)

func (d Defect) String() string {
	return [...]string{"ok", "truncated", "overflow", "fieldnumber", "reserved", "endgroup", "depth"}[d]
}

// ConsumeVarint: at most 10 bytes, the 10th byte at most 1.
func ConsumeVarint(b []byte) (v uint64, n int, d Defect) {
	for i := 0; i < 10; i++ {
		if i >= len(b) {
			return 0, 0, Truncated
		}
		c := b[i]
		if i == 9 && c > 1 {
			return 0, 0, Overflow
		}
		v |= uint64(c&0x7f) << (7 * uint(i))
		if c < 0x80 {
			return v, i + 1, OK
		}
	}
	return 0, 0, Overflow
}

// ConsumeTag: varint; field number (v>>3) must be in [1, 2^31-1] at this layer.
func ConsumeTag(b []byte) (num int64, typ int, n int, d Defect) {
	v, n, d := ConsumeVarint(b)
	if d != OK {
		return 0, 0, 0, d
	}
	num = int64(v >> 3)
	if v>>3 > 0x7fffffff || num < 1 {
		return 0, 0, 0, FieldNumber
	}
	return num, int(v & 7), n, OK
}

// ConsumeValue recognises one field value of wire type typ for field num. depth is the number
// of further group levels allowed below this one (protowire: 10000 at top level).
func ConsumeValue(num int64, typ int, b []byte, depth int) (n int, d Defect) {
	switch typ {
	case 0:
		_, n, d = ConsumeVarint(b)
		return n, d
	case 5:
		if len(b) < 4 {
			return 0, Truncated
		}
		return 4, OK
	case 1:
		if len(b) < 8 {
			return 0, Truncated
		}
		return 8, OK
	case 2:
		l, n, d := ConsumeVarint(b)
		if d != OK {
			return 0, d
		}
		if l > uint64(len(b)-n) {
			return 0, Truncated
		}
		return n + int(l), OK
	case 3:
		if depth < 0 {
			return 0, Depth
		}
		pos := 0
		for {
			num2, typ2, n, d := ConsumeTag(b[pos:])
			if d != OK {
				return 0, d
			}
			pos += n
			if typ2 == 4 {
				if num2 != num {
					return 0, EndGroup
				}
				return pos, OK
			}
			n, d = ConsumeValue(num2, typ2, b[pos:], depth-1)
			if d != OK {
				return 0, d
			}
			pos += n
		}
	case 4:
		return 0, EndGroup
	default:
		return 0, Reserved
	}
}

const DefaultDepth = 10000

// ConsumeField recognises tag+value.
func ConsumeField(b []byte) (num int64, typ int, n int, d Defect) {
	num, typ, n, d = ConsumeTag(b)
	if d != OK {
		return 0, 0, 0, d
	}
	m, d := ConsumeValue(num, typ, b[n:], DefaultDepth)
	if d != OK {
		return 0, 0, 0, d
	}
	return num, typ, n + m, OK
}

// ZigZag by the arithmetic definition n>=0 ? 2n : -2n-1, in math/big.
func ZigZag(x int64) uint64 {
	n := big.NewInt(x)
	r := new(big.Int)
	if x >= 0 {
		r.Lsh(n, 1)
	} else {
		r.Neg(n)
		r.Lsh(r, 1)
		r.Sub(r, big.NewInt(1))
	}
	return r.Uint64()
}

func Fixed32(b []byte, v uint32) []byte { return binary.LittleEndian.AppendUint32(b, v) }
func Fixed64(b []byte, v uint64) []byte { return binary.LittleEndian.AppendUint64(b, v) }

// Tag appends the tag of (num, typ) in shortest form.
func Tag(b []byte, num int64, typ int) []byte { return Varint(b, uint64(num)<<3|uint64(typ)) }

// Record is one top-level field record of a well-formed field sequence.
type Record struct {
	Num int64
	Typ int
	Raw []byte // whole record incl. tag (and end-group tag)
	Val []byte // value part only: varint bytes / 4 / 8 / length-prefixed payload incl. prefix / group body incl. end tag
}

// Split cuts a well-formed field sequence into records; ok=false if malformed.
func Split(b []byte) (recs []Record, ok bool) {
	for len(b) > 0 {
		num, typ, n, d := ConsumeTag(b)
		if d != OK || typ == 4 {
			return nil, false
		}
		m, d := ConsumeValue(num, typ, b[n:], DefaultDepth)
		if d != OK {
			return nil, false
		}
		recs = append(recs, Record{Num: num, Typ: typ, Raw: b[:n+m], Val: b[n : n+m]})
		b = b[n+m:]
	}
	return recs, true
}

// Payload returns the payload of a bytes-typed record value (without the length prefix).
func (r Record) Payload() []byte {
	if r.Typ != 2 {
		return nil
	}
	_, n, _ := ConsumeVarint(r.Val)
	return r.Val[n:]
}

// VarintValue returns the value of a varint-typed record.
func (r Record) VarintValue() uint64 {
	v, _, _ := ConsumeVarint(r.Val)
	return v
}
