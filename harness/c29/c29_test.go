package c29

import (
	"bytes"
	"fmt"
	"sort"
	"strings"
	"testing"

	"google.golang.org/protobuf/encoding/protojson"
	"google.golang.org/protobuf/encoding/prototext"
	"google.golang.org/protobuf/proto"
	"google.golang.org/protobuf/reflect/protoreflect"
	"google.golang.org/protobuf/types/dynamicpb"
	"google.golang.org/protobuf/zverif/corpus"
	"google.golang.org/protobuf/zverif/gen"
	"google.golang.org/protobuf/zverif/goapi"
	"google.golang.org/protobuf/zverif/model"
	"google.golang.org/protobuf/zverif/pbt"
	"pgregory.net/rapid"
)

// family = base full name -> flavour full names ("", "hybrid.", "opaque." prefixes)
type family struct {
	Base     string
	Flavours []string
}

var families = func() []family {
	names := map[string]bool{}
	for _, n := range corpus.Modern() {
		names[n] = true
	}
	var out []family
	for n := range names {
		if strings.HasPrefix(n, "hybrid.") || strings.HasPrefix(n, "opaque.") {
			continue
		}
		f := family{Base: n, Flavours: []string{n}}
		for _, p := range []string{"hybrid.", "opaque."} {
			if names[p+n] {
				f.Flavours = append(f.Flavours, p+n)
			}
		}
		if len(f.Flavours) > 1 {
			out = append(out, f)
		}
	}
	sort.Slice(out, func(i, j int) bool { return out[i].Base < out[j].Base })
	return out
}()

var richFamilies = func() []family {
	var out []family
	for _, f := range families {
		if corpus.ByName(f.Base).Descriptor().Fields().Len() >= 15 {
			out = append(out, f)
		}
	}
	return out
}()

type flavCase struct {
	Base string
	M    *model.Msg
}

func stripPkg(s string) string {
	s = strings.ReplaceAll(s, "hybrid.", "")
	return strings.ReplaceAll(s, "opaque.", "")
}

var eq = model.EqualOpts{BitwiseFloats: true}
var det = proto.MarshalOptions{Deterministic: true, AllowPartial: true}

func checkFlavours(c flavCase) error {
	var fam *family
	for i := range families {
		if families[i].Base == c.Base {
			fam = &families[i]
		}
	}
	if fam == nil {
		return fmt.Errorf("harness: unknown family %s", c.Base)
	}
	type real struct {
		name string
		m    protoreflect.Message
		md   protoreflect.MessageDescriptor
	}
	var reals []real
	for _, fl := range fam.Flavours {
		mt := corpus.ByName(fl)
		m := mt.New()
		if err := model.Apply(m, c.M, nil); err != nil {
			return fmt.Errorf("harness: %s: %v", fl, err)
		}
		reals = append(reals, real{fl + " via protoreflect", m, mt.Descriptor()})
		if goapi.HasSetters(m.Interface()) {
			m2 := mt.New()
			n, err := goapi.Populate(m2.Interface(), c.M)
			if err != nil {
				return fmt.Errorf("%s: generated setters: %v", fl, err)
			}
			pbt.S.AddExtra("fields_set_through_generated_setters", int64(n))
			reals = append(reals, real{fl + " via generated setters", m2, mt.Descriptor()})
		}
		d := dynamicpb.NewMessage(mt.Descriptor())
		if err := model.Apply(d, c.M, nil); err != nil {
			return fmt.Errorf("harness: dynamicpb %s: %v", fl, err)
		}
		reals = append(reals, real{"dynamicpb of " + fl, d, mt.Descriptor()})
	}
	var wantDet []byte
	var wantJSON, wantText string
	for i, r := range reals {
		if d := model.Diff(r.md, c.M, model.Snapshot(r.m), eq, nil); d != "" {
			return fmt.Errorf("%s does not read back as the model: %s", r.name, d)
		}
		n, err := goapi.CheckGetters(r.m.Interface(), c.M)
		if err != nil {
			return fmt.Errorf("%s: generated getter disagrees with the model: %v", r.name, err)
		}
		pbt.S.AddExtra("generated_getters_compared", int64(n))
		b, err := det.Marshal(r.m.Interface())
		if err != nil {
			return fmt.Errorf("%s: Marshal: %v", r.name, err)
		}
		js, jerr := protojson.MarshalOptions{AllowPartial: true}.Marshal(r.m.Interface())
		tx, terr := prototext.MarshalOptions{AllowPartial: true}.Marshal(r.m.Interface())
		if jerr != nil || terr != nil {
			return fmt.Errorf("%s: protojson/prototext Marshal: %v / %v", r.name, jerr, terr)
		}
		if i == 0 {
			wantDet, wantJSON, wantText = b, stripPkg(string(js)), stripPkg(string(tx))
			continue
		}
		if !bytes.Equal(b, wantDet) {
			return fmt.Errorf("deterministic bytes differ between %q and %q:\n %x\n %x", reals[0].name, r.name, wantDet, b)
		}
		if got := stripPkg(string(js)); got != wantJSON {
			return fmt.Errorf("JSON output differs between %q and %q:\n %s\n %s", reals[0].name, r.name, wantJSON, got)
		}
		if got := stripPkg(string(tx)); got != wantText {
			return fmt.Errorf("text output differs between %q and %q:\n %s\n %s", reals[0].name, r.name, wantText, got)
		}
	}
	// each flavour decodes the common bytes to the same content, lazily and eagerly
	for _, fl := range fam.Flavours {
		for _, lazy := range []bool{true, false} {
			m := corpus.ByName(fl).New()
			if err := (proto.UnmarshalOptions{AllowPartial: true, NoLazyDecoding: !lazy}).Unmarshal(wantDet, m.Interface()); err != nil {
				return fmt.Errorf("%s cannot decode the common encoding: %v", fl, err)
			}
			if n, err := goapi.CheckGetters(m.Interface(), c.M); err != nil {
				return fmt.Errorf("%s decoded (lazy=%v): generated getter disagrees with the model: %v", fl, lazy, err)
			} else {
				pbt.S.AddExtra("generated_getters_compared", int64(n))
			}
			if d := model.Diff(m.Descriptor(), c.M, model.Snapshot(m), eq, nil); d != "" {
				return fmt.Errorf("%s decoded the common encoding to different content: %s", fl, d)
			}
		}
	}
	return nil
}

func TestFlavours(t *testing.T) {
	mo := gen.DefaultMsgOpts
	mo.ValidUTF8 = true
	mo.SkipField = gen.SkipConstrainedJSON
	mo.MaxFields = 10
	pbt.Run(t, pbt.Prop[flavCase]{
		Name: "flavours",
		Rule: "families: every modern linked message that also exists under the hybrid. and/or opaque. package prefix; content from the descriptor-directed generator on the open descriptor (extensions by number, unknown fields, valid UTF-8, no well-known types with constrained JSON); realisations: protoreflect, generated setters (hybrid/opaque), dynamicpb, for each flavour. non-trivial = content populates >= 3 fields incl. a oneof, map, repeated message or an explicit-presence scalar holding its zero value",
		Draw: func(t *rapid.T) flavCase {
			fams := families
			if rapid.IntRange(0, 3).Draw(t, "rich") > 0 && len(richFamilies) > 0 {
				fams = richFamilies
			}
			f := fams[rapid.IntRange(0, len(fams)-1).Draw(t, "family")]
			return flavCase{Base: f.Base, M: gen.DrawMessage(t, corpus.ByName(f.Base).Descriptor(), mo)}
		},
		Check: checkFlavours,
		NonTrivial: func(c flavCase) bool {
			md := corpus.ByName(c.Base).Descriptor()
			set := map[string]bool{}
			for _, f := range c.M.Fields {
				fd := model.FieldDesc(md, f.Num, nil)
				if fd == nil {
					continue
				}
				switch {
				case fd.IsMap():
					set["map"] = true
				case fd.ContainingOneof() != nil && !fd.ContainingOneof().IsSynthetic():
					set["oneof"] = true
				case fd.IsList() && fd.Message() != nil:
					set["msglist"] = true
				case fd.HasPresence() && fd.Message() == nil && model.IsZero(fd, f.Vals[0]):
					set["explicit-zero"] = true
				}
			}
			return len(c.M.Fields) >= 3 && len(set) >= 1
		},
		Classes: func(c flavCase) []string {
			for _, f := range families {
				if f.Base == c.Base {
					return []string{fmt.Sprintf("%d-flavours", len(f.Flavours))}
				}
			}
			return nil
		},
		Quick: 4000, Thorough: 100000,
	})
}
