package c28

import (
	"fmt"
	"sort"
	"testing"

	"google.golang.org/protobuf/proto"
	"google.golang.org/protobuf/reflect/protoreflect"
	"google.golang.org/protobuf/reflect/protoregistry"
	"google.golang.org/protobuf/zverif/corpus"
	"google.golang.org/protobuf/zverif/gen"
	"google.golang.org/protobuf/zverif/mcase"
	"google.golang.org/protobuf/zverif/model"
	"google.golang.org/protobuf/zverif/ops"
	"google.golang.org/protobuf/zverif/pbt"
	"pgregory.net/rapid"
)

type histCase struct {
	Type    string
	Dynamic bool
	Start   *model.Msg
	Ops     []ops.Op // kinds of package ops plus "clone" and "roundtrip"
}

func checkHistory(c histCase) error {
	md := mcase.Desc(c.Type)
	m := mcase.New(c.Type, c.Dynamic)
	if err := model.Apply(m, c.Start, nil); err != nil {
		return fmt.Errorf("harness: %v", err)
	}
	cur := c.Start.Clone()
	if cur == nil {
		cur = &model.Msg{}
	}
	if err := ops.Verify(m, cur); err != nil {
		return fmt.Errorf("after building the start state: %v", err)
	}
	for i, op := range c.Ops {
		switch op.Kind {
		case "clone":
			m = proto.Clone(m.Interface()).ProtoReflect()
		case "roundtrip":
			b, err := proto.MarshalOptions{AllowPartial: true}.Marshal(m.Interface())
			if err != nil {
				return fmt.Errorf("step %d: Marshal failed: %v", i, err)
			}
			m2 := mcase.New(c.Type, c.Dynamic)
			if err := (proto.UnmarshalOptions{AllowPartial: true}).Unmarshal(b, m2.Interface()); err != nil {
				return fmt.Errorf("step %d: Unmarshal failed: %v", i, err)
			}
			m = m2
		default:
			if err := ops.ApplyModel(md, cur, op); err != nil {
				return err
			}
			if err := ops.ApplyMsg(m, op); err != nil {
				return err
			}
		}
		if err := ops.Verify(m, cur); err != nil {
			return fmt.Errorf("after step %d %v: %v", i, op, err)
		}
	}
	return nil
}

var types, rich = corpus.Modern(), corpus.ModernRich(20)

func drawHistory(t *rapid.T) histCase {
	c := histCase{Type: gen.TypeName(types, rich).Draw(t, "type"), Dynamic: rapid.IntRange(0, 3).Draw(t, "dyn") == 0}
	md := mcase.Desc(c.Type)
	mo := gen.DefaultMsgOpts
	mo.Extensions = false
	mo.MaxFields = 4
	if rapid.Bool().Draw(t, "startpopulated") {
		c.Start = gen.DrawMessage(t, md, mo)
	} else {
		c.Start = &model.Msg{}
	}
	n := rapid.IntRange(1, 30).Draw(t, "steps")
	cur := c.Start.Clone()
	o := ops.GenOpts{Msg: mo, MaxDepth: 3}
	for i := 0; i < n; i++ {
		if k := rapid.IntRange(0, 11).Draw(t, "shake"); k == 0 {
			c.Ops = append(c.Ops, ops.Op{Kind: "clone"})
			continue
		} else if k == 1 {
			c.Ops = append(c.Ops, ops.Op{Kind: "roundtrip"})
			continue
		}
		op := ops.DrawOp(t, md, cur, o)
		if err := ops.ApplyModel(md, cur, op); err != nil {
			panic(err)
		}
		c.Ops = append(c.Ops, op)
	}
	return c
}

func kinds(c histCase) map[string]int {
	k := map[string]int{}
	for _, op := range c.Ops {
		k[op.Kind]++
		if len(op.Path) > 0 {
			k["nested"]++
		}
	}
	return k
}

func TestHistory(t *testing.T) {
	pbt.Run(t, pbt.Prop[histCase]{
		Name: "history",
		Rule: "types: every linked message type except the wrapped legacy generations (generated open/hybrid/opaque, or dynamicpb of the descriptor); start state empty or generated; 1..30 steps, each legal for the current model state, 1/6 of them Clone or binary round trip; paths up to 3 levels deep through populated message fields, list elements and map values. non-trivial = >= 8 steps including a nested operation or a truncate/clear after populating",
		Draw:  drawHistory,
		Check: checkHistory,
		NonTrivial: func(c histCase) bool {
			k := kinds(c)
			return len(c.Ops) >= 8 && (k["nested"] > 0 || k["truncate"] > 0 || k["clear"] > 0 || k["mapclear"] > 0)
		},
		Classes: func(c histCase) []string {
			var out []string
			for k := range kinds(c) {
				out = append(out, k)
			}
			sort.Strings(out)
			if c.Dynamic {
				out = append(out, "dynamicpb")
			}
			return out
		},
		Quick: 6000, Thorough: 150000,
	})
}

// ---- extensions through the proto package ----------------------------------------------------

type extOp struct {
	Kind string // set | clear
	Num  int32
	F    model.Field
}

type extCase struct {
	Type    string
	Dynamic bool
	Ops     []extOp
}

var extTypes = func() []string {
	var out []string
	for _, n := range corpus.Modern() {
		md := corpus.ByName(n).Descriptor()
		if md.ExtensionRanges().Len() > 0 && protoregistry.GlobalTypes.NumExtensionsByMessage(md.FullName()) > 0 {
			out = append(out, n)
		}
	}
	return out
}()

func extsOf(name protoreflect.FullName) []protoreflect.ExtensionType {
	var out []protoreflect.ExtensionType
	protoregistry.GlobalTypes.RangeExtensionsByMessage(name, func(xt protoreflect.ExtensionType) bool {
		out = append(out, xt)
		return true
	})
	sort.Slice(out, func(i, j int) bool { return out[i].TypeDescriptor().Number() < out[j].TypeDescriptor().Number() })
	return out
}

func checkExt(c extCase) error {
	md := mcase.Desc(c.Type)
	m := mcase.New(c.Type, c.Dynamic).Interface()
	cur := map[int32]model.Field{}
	xts := map[int32]protoreflect.ExtensionType{}
	for _, xt := range extsOf(md.FullName()) {
		xts[int32(xt.TypeDescriptor().Number())] = xt
	}
	for i, op := range c.Ops {
		xt := xts[op.Num]
		xd := xt.TypeDescriptor()
		switch op.Kind {
		case "set":
			// build the Go value through a scratch dynamic/generated message's reflection, then SetExtension
			tmp := mcase.New(c.Type, c.Dynamic)
			if err := model.Apply(tmp, &model.Msg{Fields: []model.Field{op.F}}, nil); err != nil {
				return fmt.Errorf("harness: %v", err)
			}
			proto.SetExtension(m, xt, xt.InterfaceOf(tmp.Get(xd)))
			cur[op.Num] = op.F
		case "clear":
			proto.ClearExtension(m, xt)
			delete(cur, op.Num)
		}
		// full comparison
		for num, x := range xts {
			f, pop := cur[num]
			if has := proto.HasExtension(m, x); has != pop {
				return fmt.Errorf("step %d: HasExtension(%s) = %v, model %v", i, x.TypeDescriptor().FullName(), has, pop)
			}
			got := x.ValueOf(proto.GetExtension(m, x))
			if pop {
				want := &model.Msg{Fields: []model.Field{f}}
				tmp := mcase.New(c.Type, c.Dynamic)
				tmp.Set(x.TypeDescriptor(), got)
				if d := model.Diff(md, want, model.Snapshot(tmp), model.EqualOpts{BitwiseFloats: true}, nil); d != "" {
					return fmt.Errorf("step %d: GetExtension(%s) differs: %s", i, x.TypeDescriptor().FullName(), d)
				}
			} else {
				xd := x.TypeDescriptor()
				switch {
				case xd.IsList():
					if got.List().Len() != 0 {
						return fmt.Errorf("step %d: GetExtension of unset repeated extension is non-empty", i)
					}
				case xd.Message() != nil:
					if got.Message().IsValid() {
						return fmt.Errorf("step %d: GetExtension of unset message extension %s is a valid message", i, xd.FullName())
					}
				default:
					if d := model.Diff1(xd, model.FromValue(xd, xd.Default()), model.FromValue(xd, got)); d != "" {
						return fmt.Errorf("step %d: GetExtension of unset %s = %v, want default %v", i, xd.FullName(), got, xd.Default())
					}
				}
			}
		}
		seen := map[int32]int{}
		proto.RangeExtensions(m, func(x protoreflect.ExtensionType, _ any) bool {
			seen[int32(x.TypeDescriptor().Number())]++
			return true
		})
		if len(seen) != len(cur) {
			return fmt.Errorf("step %d: RangeExtensions visited %d extensions, model has %d", i, len(seen), len(cur))
		}
		for n, k := range seen {
			if _, ok := cur[n]; !ok || k != 1 {
				return fmt.Errorf("step %d: RangeExtensions visited extension %d %d times (populated %v)", i, n, k, ok)
			}
		}
		if len(cur) >= 2 {
			calls := 0
			proto.RangeExtensions(m, func(protoreflect.ExtensionType, any) bool {
				calls++
				return false
			})
			if calls != 1 {
				return fmt.Errorf("step %d: RangeExtensions called f %d times although f returned false at the first call (%d extensions populated)", i, calls, len(cur))
			}
		}
		// and the reflection view agrees
		want := &model.Msg{}
		for _, f := range cur {
			want.Fields = append(want.Fields, f)
		}
		if d := model.Diff(md, want, model.Snapshot(m.ProtoReflect()), model.EqualOpts{BitwiseFloats: true}, nil); d != "" {
			return fmt.Errorf("step %d: reflection view differs from the extension model: %s", i, d)
		}
	}
	return nil
}

func TestExtensions(t *testing.T) {
	mo := gen.DefaultMsgOpts
	mo.Depth = 1
	pbt.Run(t, pbt.Prop[extCase]{
		Name: "extensions",
		Rule: "extendable linked types with registered extensions; 1..15 steps of proto.SetExtension (scalar, repeated, message, group values from the generator) and proto.ClearExtension on drawn extensions; after each step HasExtension/GetExtension (defaults, invalid empty messages) for every extension, RangeExtensions exactly-once, and the reflection snapshot are compared with a map model. non-trivial = >= 4 steps with a clear followed by a set of the same extension",
		Draw: func(t *rapid.T) extCase {
			c := extCase{Type: rapid.SampledFrom(extTypes).Draw(t, "type"), Dynamic: rapid.IntRange(0, 3).Draw(t, "dyn") == 0}
			xs := extsOf(mcase.Desc(c.Type).FullName())
			n := rapid.IntRange(1, 15).Draw(t, "steps")
			for i := 0; i < n; i++ {
				xt := xs[rapid.IntRange(0, len(xs)-1).Draw(t, "ext")]
				num := int32(xt.TypeDescriptor().Number())
				if rapid.IntRange(0, 2).Draw(t, "clear") == 0 {
					c.Ops = append(c.Ops, extOp{Kind: "clear", Num: num})
					continue
				}
				f, ok := gen.DrawField(t, xt.TypeDescriptor(), mo)
				if !ok {
					c.Ops = append(c.Ops, extOp{Kind: "clear", Num: num})
					continue
				}
				c.Ops = append(c.Ops, extOp{Kind: "set", Num: num, F: f})
			}
			return c
		},
		Check: checkExt,
		NonTrivial: func(c extCase) bool {
			cleared := map[int32]bool{}
			for _, op := range c.Ops {
				if op.Kind == "clear" {
					cleared[op.Num] = true
				} else if cleared[op.Num] && len(c.Ops) >= 4 {
					return true
				}
			}
			return false
		},
		Quick: 4000, Thorough: 100000,
	})
}

// regression witness of the fixed opaque synthetic-oneof defect
func TestOpaqueSyntheticOneofWitness(t *testing.T) {
	n := "opaque.goproto.proto.test3.TestAllTypes"
	m := corpus.ByName(n).New()
	fd := m.Descriptor().Fields().ByName("optional_import_message")
	if fd == nil || fd.ContainingOneof() == nil {
		t.Skip("field not found")
	}
	m.Mutable(fd)
	w := m.WhichOneof(fd.ContainingOneof())
	pbt.Witness(t, "KF-opaque-synthetic-oneof", m.Has(fd) && w == nil, "opaque test3.TestAllTypes: Has(optional_import_message) true but WhichOneof(synthetic oneof) nil")
}
