package c36

// Random schema generator for C36. It emits a FileDescriptorProto that protodesc.NewFile accepts
// by construction, with the features that stress the lazily built indexes:
//   - 0..80 reserved / extension ranges per message (sizes 1..2^29, adjacent ranges, the full
//     number space), listed in shuffled order so the sort inside lazyInit matters;
//   - 0..40 inclusive reserved ranges per enum over the whole int32 space, enum aliases;
//   - field names / explicit json_name values chosen to collide as JSON names (foo_bar, fooBar,
//     foo__bar ...) both across a message and inside one oneof;
//   - messages with > 100 fields; field numbers next to range boundaries and at 2^29-1;
//   - proto2 groups, editions DELIMITED fields (group-like and not), maps, required and
//     LEGACY_REQUIRED fields, real and synthetic oneofs, nested declarations, extensions, services.

import (
	"fmt"
	"math"
	"sort"
	"strings"

	"google.golang.org/protobuf/proto"
	"google.golang.org/protobuf/types/descriptorpb"
	"pgregory.net/rapid"
)

const maxField = 1<<29 - 1

type interval struct{ lo, hi int64 } // inclusive

type extendee struct {
	full   string
	ranges []interval
}

type sgen struct {
	t         *rapid.T
	syntax    string // proto2 | proto3 | editions
	pkg       string
	topMsgs   []string // absolute names of the top-level messages (decided up front)
	extendees []extendee
	allMsgs   []*descriptorpb.DescriptorProto // every non-entry message, for placing nested extensions
	allScopes []string
}

func (g *sgen) n(lo, hi int, label string) int { return rapid.IntRange(lo, hi).Draw(g.t, label) }

// p is a weighted coin. rapid's integer draws are biased towards small values, so the coin is
// built from a permuted comparison: nominal percentages are only approximate (see the class
// distribution in the evidence file for the real frequencies).
func (g *sgen) p(percent int, label string) bool {
	return (rapid.IntRange(0, 99).Draw(g.t, label)*37+11)%100 < percent
}

func abs(scope, name string) string { return "." + joinStr(scope, name) }
func joinStr(scope, name string) string {
	if scope == "" {
		return name
	}
	return scope + "." + name
}

// intervals draws up to want disjoint, sorted, inclusive intervals inside [lo, hi].
func (g *sgen) intervals(want int, lo, hi int64) []interval {
	var out []interval
	cur := lo
	if g.p(50, "lead-gap") {
		cur += g.size("lead")
	}
	for len(out) < want && cur <= hi {
		size := g.size("size")
		end := cur + size - 1
		if end > hi {
			end = hi
		}
		out = append(out, interval{cur, end})
		cur = end + 1
		if !g.p(25, "adjacent") { // 25%: the next range starts right after this one
			cur += g.size("gap")
		}
	}
	return out
}

// size draws a range size / gap: mostly tiny, sometimes huge.
func (g *sgen) size(label string) int64 {
	switch g.n(0, 9, label+"-class") {
	case 0, 1, 2, 3:
		return 1
	case 4, 5:
		return int64(g.n(2, 3, label))
	case 6, 7:
		return int64(g.n(4, 1000, label))
	case 8:
		return int64(g.n(1000, 1<<22, label))
	default:
		return int64(g.n(1<<22, 1<<29, label))
	}
}

func inAny(rs []interval, n int64) bool {
	for _, r := range rs {
		if r.lo <= n && n <= r.hi {
			return true
		}
	}
	return false
}

// nextFree returns the smallest number >= n that is in no interval, not in skip and not used.
func nextFree(n, max int64, rs []interval, used map[int64]bool, skipLo, skipHi int64) (int64, bool) {
	for n <= max {
		moved := false
		for _, r := range rs {
			if r.lo <= n && n <= r.hi {
				n, moved = r.hi+1, true
			}
		}
		if skipLo <= n && n <= skipHi {
			n, moved = skipHi+1, true
		}
		if used[n] {
			n, moved = n+1, true
		}
		if !moved {
			return n, true
		}
	}
	return 0, false
}

var fieldVocab = []string{"foo_bar", "fooBar", "FooBar", "foo__bar", "foo_Bar", "Foo_bar", "foobar", "x", "X", "_x", "x_", "a1", "a_1", "A1", "key", "value", "data", "foo_bar_", "_foo_bar"}
var jsonVocab = []string{"fooBar", "FooBar", "foo_bar", "x", "X", "", "a1", "FOO", "foo"}

var scalarTypes = []descriptorpb.FieldDescriptorProto_Type{
	descriptorpb.FieldDescriptorProto_TYPE_INT32, descriptorpb.FieldDescriptorProto_TYPE_INT64, descriptorpb.FieldDescriptorProto_TYPE_UINT32,
	descriptorpb.FieldDescriptorProto_TYPE_SINT32, descriptorpb.FieldDescriptorProto_TYPE_STRING, descriptorpb.FieldDescriptorProto_TYPE_BYTES,
	descriptorpb.FieldDescriptorProto_TYPE_BOOL, descriptorpb.FieldDescriptorProto_TYPE_DOUBLE, descriptorpb.FieldDescriptorProto_TYPE_FIXED32,
}

func (g *sgen) enum(scope, name string) *descriptorpb.EnumDescriptorProto {
	ed := &descriptorpb.EnumDescriptorProto{Name: proto.String(name)}
	closed := g.syntax == "proto2"
	if g.syntax == "editions" && g.p(40, "closed-enum") {
		closed = true
		ed.Options = &descriptorpb.EnumOptions{Features: &descriptorpb.FeatureSet{EnumType: descriptorpb.FeatureSet_CLOSED.Enum()}}
	}
	// reserved ranges first, values avoid them
	var rs []interval
	switch g.n(0, 9, "enum-ranges-class") {
	case 0, 1, 2, 3:
	case 4, 5, 6, 7:
		rs = g.enumIntervals(g.n(1, 5, "enum-ranges"))
	default:
		rs = g.enumIntervals(g.n(6, 40, "enum-ranges"))
	}
	perm := rapid.Permutation(rs).Draw(g.t, "enum-range-order")
	for _, r := range perm {
		ed.ReservedRange = append(ed.ReservedRange, &descriptorpb.EnumDescriptorProto_EnumReservedRange{Start: proto.Int32(int32(r.lo)), End: proto.Int32(int32(r.hi))})
	}
	nv := g.n(1, 8, "values")
	if g.p(5, "many-values") {
		nv = g.n(20, 60, "values")
	}
	used := map[int64]bool{}
	var nums []int64
	alias := false
	for i := 0; i < nv; i++ {
		var num int64
		first := len(ed.Value) == 0
		switch {
		case first && !(closed && name != "E0" && g.p(40, "nonzero-first")):
			num = 0 // open enums (and E0, the map value / field target) start at zero
		case len(nums) > 0 && g.p(30, "alias"):
			num = nums[g.n(0, len(nums)-1, "alias-of")]
		default:
			switch g.n(0, 5, "value-class") {
			case 0:
				num = int64(g.n(-3, 10, "value"))
			case 1:
				num = []int64{math.MinInt32, math.MaxInt32, math.MinInt32 + 1, math.MaxInt32 - 1, -1, 1}[g.n(0, 5, "value")]
			case 2:
				if len(rs) > 0 { // next to a reserved range
					r := rs[g.n(0, len(rs)-1, "near")]
					num = []int64{r.lo - 1, r.hi + 1}[g.n(0, 1, "side")]
				}
			default:
				num = int64(rapid.Int32().Draw(g.t, "value"))
			}
		}
		if num < math.MinInt32 {
			num = math.MinInt32
		}
		if num > math.MaxInt32 {
			num = math.MaxInt32
		}
		if inAny(rs, num) {
			free, ok := nextFree(num, math.MaxInt32, rs, nil, 1, 0)
			if !ok {
				continue
			}
			num = free
		}
		if first && num != 0 && !closed {
			num = 0 // zero is never reserved
		}
		if used[num] {
			alias = true
		}
		used[num] = true
		nums = append(nums, num)
		ed.Value = append(ed.Value, &descriptorpb.EnumValueDescriptorProto{Name: proto.String(fmt.Sprintf("%s_V%d", strings.ToUpper(name), i)), Number: proto.Int32(int32(num))})
	}
	if len(ed.Value) == 0 { // cannot happen for open enums unless 0 is reserved: then drop the ranges
		ed.ReservedRange = nil
		ed.Value = []*descriptorpb.EnumValueDescriptorProto{{Name: proto.String(strings.ToUpper(name) + "_V0"), Number: proto.Int32(0)}}
	}
	if alias {
		if ed.Options == nil {
			ed.Options = &descriptorpb.EnumOptions{}
		}
		ed.Options.AllowAlias = proto.Bool(true)
	}
	for i, k := 0, g.n(0, 2, "enum-reserved-names"); i < k; i++ {
		ed.ReservedName = append(ed.ReservedName, fmt.Sprintf("RESERVED_%d", i))
	}
	return ed
}

func (g *sgen) enumIntervals(want int) []interval {
	// spread over the whole int32 space: draw in a shifted non-negative space
	lo := int64(math.MinInt32)
	if g.p(50, "enum-ranges-near-zero") {
		lo = -int64(g.n(0, 50, "enum-lo"))
	}
	var out []interval
	cur := lo
	for len(out) < want && cur <= math.MaxInt32 {
		if !(len(out) > 0 && g.p(25, "enum-adjacent")) {
			cur += g.enumSize("gap")
		}
		if cur > math.MaxInt32 {
			break
		}
		end := cur + g.enumSize("size") - 1
		if end > math.MaxInt32 {
			end = math.MaxInt32
		}
		// never reserve zero: open enums need it
		if cur <= 0 && 0 <= end {
			cur = 1
			continue
		}
		out = append(out, interval{cur, end})
		cur = end + 1
	}
	return out
}

func (g *sgen) enumSize(label string) int64 {
	switch g.n(0, 9, label+"-class") {
	case 0, 1, 2, 3, 4:
		return 1
	case 5, 6:
		return int64(g.n(2, 20, label))
	case 7, 8:
		return int64(g.n(20, 1<<20, label))
	default:
		return int64(g.n(1<<20, 1<<31-1, label))
	}
}

// message builds one message declaration.
func (g *sgen) message(scope, name string, depth int) *descriptorpb.DescriptorProto {
	full := joinStr(scope, name)
	md := &descriptorpb.DescriptorProto{Name: proto.String(name)}
	g.allMsgs = append(g.allMsgs, md)
	g.allScopes = append(g.allScopes, full)

	// ---- ranges
	var nr int
	switch g.n(0, 9, "ranges-class") {
	case 0, 1, 2:
		nr = 0
	case 3, 4, 5, 6:
		nr = g.n(1, 6, "ranges")
	case 7, 8:
		nr = g.n(7, 40, "ranges")
	default:
		nr = g.n(41, 80, "ranges")
	}
	all := g.intervals(nr, 1, maxField)
	var reserved, extension []interval
	for _, r := range all {
		if g.syntax != "proto3" && g.p(50, "is-extension-range") {
			extension = append(extension, r)
		} else {
			reserved = append(reserved, r)
		}
	}
	for _, r := range rapid.Permutation(reserved).Draw(g.t, "reserved-order") {
		md.ReservedRange = append(md.ReservedRange, &descriptorpb.DescriptorProto_ReservedRange{Start: proto.Int32(int32(r.lo)), End: proto.Int32(int32(r.hi + 1))})
	}
	for _, r := range rapid.Permutation(extension).Draw(g.t, "extension-order") {
		md.ExtensionRange = append(md.ExtensionRange, &descriptorpb.DescriptorProto_ExtensionRange{Start: proto.Int32(int32(r.lo)), End: proto.Int32(int32(r.hi + 1))})
	}
	if len(extension) > 0 {
		g.extendees = append(g.extendees, extendee{"." + full, extension})
	}
	for i, k := 0, g.n(0, 2, "reserved-names"); i < k; i++ {
		md.ReservedName = append(md.ReservedName, fmt.Sprintf("reserved_%d", i))
	}

	// ---- field plan: segments of plain fields and oneofs
	nf := g.n(0, 10, "fields")
	if g.p(3, "big-message") {
		nf = g.n(101, 125, "fields")
	}
	usedNames := map[string]bool{}
	usedNums := map[int64]bool{}
	uniq := func(s string) string {
		for usedNames[s] {
			s = fmt.Sprintf("%s_%d", s, len(usedNames))
		}
		usedNames[s] = true
		return s
	}
	nextNum := int64(1)
	number := func() (int64, bool) {
		var cand int64
		switch g.n(0, 9, "number-class") {
		case 0, 1, 2, 3:
			cand = nextNum
		case 4, 5:
			if len(all) > 0 { // right before / after a range
				r := all[g.n(0, len(all)-1, "near-range")]
				cand = []int64{r.lo - 1, r.hi + 1}[g.n(0, 1, "side")]
			} else {
				cand = nextNum
			}
		case 6:
			cand = []int64{maxField, maxField - 1, 18999, 20000, 1, 2, 15, 16, 2047, 2048}[g.n(0, 9, "special")]
		default:
			cand = int64(g.n(1, maxField, "number"))
		}
		if cand < 1 {
			cand = 1
		}
		num, ok := nextFree(cand, maxField, all, usedNums, 19000, 19999)
		if !ok {
			num, ok = nextFree(1, maxField, all, usedNums, 19000, 19999)
		}
		if ok {
			usedNums[num] = true
			if num < 1<<20 {
				nextNum = num + 1
			}
		}
		return num, ok
	}
	optional := descriptorpb.FieldDescriptorProto_LABEL_OPTIONAL.Enum
	nestedCount := 0
	addField := func(inOneof int) {
		num, ok := number()
		if !ok {
			return
		}
		f := &descriptorpb.FieldDescriptorProto{Number: proto.Int32(int32(num)), Label: optional()}
		i := len(md.Field)
		kind := g.n(0, 19, "field-kind")
		if nf > 100 && kind >= 14 {
			kind = 0 // big messages: mostly scalars
		}
		switch {
		case kind < 10: // scalar
			f.Type = scalarTypes[g.n(0, len(scalarTypes)-1, "scalar")].Enum()
		case kind < 12: // enum
			f.Type = descriptorpb.FieldDescriptorProto_TYPE_ENUM.Enum()
			f.TypeName = proto.String(abs(g.pkg, "E0"))
		case kind < 14: // message: self or a top-level message
			f.Type = descriptorpb.FieldDescriptorProto_TYPE_MESSAGE.Enum()
			if g.p(30, "self") {
				f.TypeName = proto.String("." + full)
			} else {
				f.TypeName = proto.String(g.topMsgs[g.n(0, len(g.topMsgs)-1, "target")])
			}
		case kind < 17 && g.syntax != "proto3": // group / delimited
			nestedCount++
			gname := fmt.Sprintf("Grp%d", i)
			usedNames[gname] = true
			md.NestedType = append(md.NestedType, &descriptorpb.DescriptorProto{Name: proto.String(gname),
				Field: []*descriptorpb.FieldDescriptorProto{{Name: proto.String("a"), Number: proto.Int32(1), Label: optional(), Type: descriptorpb.FieldDescriptorProto_TYPE_INT32.Enum()}}})
			f.TypeName = proto.String(abs(full, gname))
			f.Name = proto.String(strings.ToLower(gname))
			if g.syntax == "proto2" {
				f.Type = descriptorpb.FieldDescriptorProto_TYPE_GROUP.Enum()
			} else {
				f.Type = descriptorpb.FieldDescriptorProto_TYPE_MESSAGE.Enum()
				f.Options = &descriptorpb.FieldOptions{Features: &descriptorpb.FeatureSet{MessageEncoding: descriptorpb.FeatureSet_DELIMITED.Enum()}}
				if g.p(40, "not-group-like") {
					f.Name = proto.String(fmt.Sprintf("delim%d", i))
				}
			}
			if g.p(30, "group-json") { // explicit JSON name in another case: the lower-cased alias differs
				f.JsonName = proto.String(strings.ToUpper(f.GetName()))
			}
			usedNames[f.GetName()] = true
		case kind < 19 && inOneof < 0: // map
			fname := fmt.Sprintf("mp%d", i)
			ename := fmt.Sprintf("Mp%dEntry", i)
			usedNames[fname], usedNames[ename] = true, true
			val := &descriptorpb.FieldDescriptorProto{Name: proto.String("value"), Number: proto.Int32(2), Label: optional(), Type: descriptorpb.FieldDescriptorProto_TYPE_STRING.Enum()}
			switch g.n(0, 2, "map-value") {
			case 0:
				val.Type, val.TypeName = descriptorpb.FieldDescriptorProto_TYPE_MESSAGE.Enum(), proto.String("."+full)
			case 1:
				val.Type, val.TypeName = descriptorpb.FieldDescriptorProto_TYPE_ENUM.Enum(), proto.String(abs(g.pkg, "E0"))
			}
			keyT := []descriptorpb.FieldDescriptorProto_Type{descriptorpb.FieldDescriptorProto_TYPE_INT32, descriptorpb.FieldDescriptorProto_TYPE_STRING, descriptorpb.FieldDescriptorProto_TYPE_BOOL, descriptorpb.FieldDescriptorProto_TYPE_UINT64}[g.n(0, 3, "map-key")]
			md.NestedType = append(md.NestedType, &descriptorpb.DescriptorProto{Name: proto.String(ename), Options: &descriptorpb.MessageOptions{MapEntry: proto.Bool(true)},
				Field: []*descriptorpb.FieldDescriptorProto{{Name: proto.String("key"), Number: proto.Int32(1), Label: optional(), Type: keyT.Enum()}, val}})
			f.Name = proto.String(fname)
			f.Type = descriptorpb.FieldDescriptorProto_TYPE_MESSAGE.Enum()
			f.TypeName = proto.String(abs(full, ename))
			f.Label = descriptorpb.FieldDescriptorProto_LABEL_REPEATED.Enum()
		default:
			f.Type = descriptorpb.FieldDescriptorProto_TYPE_STRING.Enum()
		}
		if f.Name == nil {
			base := fieldVocab[g.n(0, len(fieldVocab)-1, "field-name")]
			if nf > 100 && g.p(80, "plain-name") {
				base = fmt.Sprintf("f%d", i)
			}
			f.Name = proto.String(uniq(base))
		}
		isMapField := f.GetLabel() == descriptorpb.FieldDescriptorProto_LABEL_REPEATED
		if inOneof >= 0 {
			f.OneofIndex = proto.Int32(int32(inOneof))
		} else if !isMapField {
			switch lab := g.n(0, 9, "label"); {
			case lab < 2:
				f.Label = descriptorpb.FieldDescriptorProto_LABEL_REPEATED.Enum()
			case lab < 4 && g.syntax == "proto2":
				f.Label = descriptorpb.FieldDescriptorProto_LABEL_REQUIRED.Enum()
			case lab < 4 && g.syntax == "editions":
				if f.Options == nil {
					f.Options = &descriptorpb.FieldOptions{}
				}
				if f.Options.Features == nil {
					f.Options.Features = &descriptorpb.FeatureSet{}
				}
				f.Options.Features.FieldPresence = descriptorpb.FeatureSet_LEGACY_REQUIRED.Enum()
			case lab < 4 && g.syntax == "proto3":
				f.Proto3Optional = proto.Bool(true) // gets its synthetic oneof below
			}
		}
		if f.JsonName == nil && g.p(20, "explicit-json") {
			if len(md.Field) > 0 && g.p(40, "copy-json") { // the JSON name another field already has
				o := md.Field[g.n(0, len(md.Field)-1, "copy-from")]
				if o.JsonName != nil {
					f.JsonName = proto.String(o.GetJsonName())
				} else {
					f.JsonName = proto.String(o.GetName())
				}
			} else {
				f.JsonName = proto.String(jsonVocab[g.n(0, len(jsonVocab)-1, "json")])
			}
		}
		md.Field = append(md.Field, f)
	}
	noneofs := 0
	if g.p(50, "has-oneofs") {
		noneofs = g.n(1, 3, "oneofs")
	}
	remaining := nf
	for o := 0; o < noneofs; o++ {
		for i, k := 0, g.n(0, 3, "plain-run"); i < k && remaining > 0; i++ {
			addField(-1)
			remaining--
		}
		oname := uniq([]string{"o", "choice", "foo_bar", "x"}[g.n(0, 3, "oneof-name")])
		idx := len(md.OneofDecl)
		before := len(md.Field)
		for i, k := 0, g.n(1, 5, "members"); i < k; i++ {
			addField(idx)
		}
		if len(md.Field) == before {
			usedNames[oname] = true
			continue // no number left: no members, no oneof
		}
		md.OneofDecl = append(md.OneofDecl, &descriptorpb.OneofDescriptorProto{Name: proto.String(oname)})
	}
	for ; remaining > 0; remaining-- {
		addField(-1)
	}
	// synthetic oneofs after the real ones
	for _, f := range md.Field {
		if f.GetProto3Optional() {
			f.OneofIndex = proto.Int32(int32(len(md.OneofDecl)))
			md.OneofDecl = append(md.OneofDecl, &descriptorpb.OneofDescriptorProto{Name: proto.String(uniq("_" + f.GetName()))})
		}
	}

	// ---- nested declarations
	if depth < 2 {
		for i, k := 0, g.n(0, 2-depth, "nested-messages"); i < k; i++ {
			md.NestedType = append(md.NestedType, g.message(full, uniq(fmt.Sprintf("N%d", i)), depth+1))
		}
	}
	for i, k := 0, g.n(0, 2, "nested-enums"); i < k; i++ {
		md.EnumType = append(md.EnumType, g.enum(full, uniq(fmt.Sprintf("NE%d", i))))
	}
	return md
}

func (g *sgen) extension(i int) *descriptorpb.FieldDescriptorProto {
	e := g.extendees[g.n(0, len(g.extendees)-1, "extendee")]
	r := e.ranges[g.n(0, len(e.ranges)-1, "ext-range")]
	num := []int64{r.lo, r.hi, (r.lo + r.hi) / 2}[g.n(0, 2, "ext-pos")]
	if 19000 <= num && num <= 19999 {
		num = r.lo
		if 19000 <= num && num <= 19999 {
			return nil
		}
	}
	x := &descriptorpb.FieldDescriptorProto{
		Name: proto.String(fmt.Sprintf("ext%d", i)), Number: proto.Int32(int32(num)), Extendee: proto.String(e.full),
		Label: descriptorpb.FieldDescriptorProto_LABEL_OPTIONAL.Enum(), Type: descriptorpb.FieldDescriptorProto_TYPE_INT32.Enum(),
	}
	switch g.n(0, 3, "ext-kind") {
	case 0:
		x.Label = descriptorpb.FieldDescriptorProto_LABEL_REPEATED.Enum()
	case 1:
		x.Type, x.TypeName = descriptorpb.FieldDescriptorProto_TYPE_MESSAGE.Enum(), proto.String(g.topMsgs[0])
	case 2:
		x.Type, x.TypeName = descriptorpb.FieldDescriptorProto_TYPE_ENUM.Enum(), proto.String(abs(g.pkg, "E0"))
	}
	return x
}

func drawSchema(t *rapid.T) *descriptorpb.FileDescriptorProto {
	g := &sgen{t: t}
	g.syntax = rapid.SampledFrom([]string{"proto2", "proto2", "proto3", "editions"}).Draw(t, "syntax")
	g.pkg = rapid.SampledFrom([]string{"", "p", "p.q"}).Draw(t, "package")
	fdp := &descriptorpb.FileDescriptorProto{Name: proto.String("c36/random.proto")}
	if g.pkg != "" {
		fdp.Package = proto.String(g.pkg)
	}
	switch g.syntax {
	case "editions":
		fdp.Syntax, fdp.Edition = proto.String("editions"), descriptorpb.Edition_EDITION_2023.Enum()
	default:
		fdp.Syntax = proto.String(g.syntax)
	}
	nm := g.n(1, 3, "messages")
	for i := 0; i < nm; i++ {
		g.topMsgs = append(g.topMsgs, abs(g.pkg, fmt.Sprintf("M%d", i)))
	}
	fdp.EnumType = append(fdp.EnumType, g.enum(g.pkg, "E0"))
	for i, k := 0, g.n(0, 2, "enums"); i < k; i++ {
		fdp.EnumType = append(fdp.EnumType, g.enum(g.pkg, fmt.Sprintf("E%d", i+1)))
	}
	for i := 0; i < nm; i++ {
		fdp.MessageType = append(fdp.MessageType, g.message(g.pkg, fmt.Sprintf("M%d", i), 0))
	}
	if len(g.extendees) > 0 {
		for i, k := 0, g.n(0, 4, "extensions"); i < k; i++ {
			x := g.extension(i)
			if x == nil {
				continue
			}
			if g.p(50, "nested-extension") {
				m := g.allMsgs[g.n(0, len(g.allMsgs)-1, "ext-scope")]
				m.Extension = append(m.Extension, x)
			} else {
				fdp.Extension = append(fdp.Extension, x)
			}
		}
	}
	for i, k := 0, g.n(0, 2, "services"); i < k; i++ {
		sd := &descriptorpb.ServiceDescriptorProto{Name: proto.String(fmt.Sprintf("S%d", i))}
		for j, m := 0, g.n(0, 3, "methods"); j < m; j++ {
			sd.Method = append(sd.Method, &descriptorpb.MethodDescriptorProto{Name: proto.String(fmt.Sprintf("Do%d", j)),
				InputType: proto.String(g.topMsgs[g.n(0, nm-1, "in")]), OutputType: proto.String(g.topMsgs[g.n(0, nm-1, "out")])})
		}
		fdp.Service = append(fdp.Service, sd)
	}
	return fdp
}

var _ = sort.Ints
