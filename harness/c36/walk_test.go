package c36

// The consistency checker: a linear-scan reference over the indexed view (Len/Get) of every
// descriptor list, compared with the keyed views (ByName/ByNumber/ByJSONName/ByTextName), the
// range sets (Has), the name/parent links and the oneof/map/enum/message cross links.
// It uses nothing but the public protoreflect interfaces, so it applies to descriptors from
// generated code, protodesc.NewFile and filedesc.Builder alike.

import (
	"fmt"
	"math"
	"strings"

	"google.golang.org/protobuf/reflect/protoreflect"
	"google.golang.org/protobuf/zverif/pbt"
)

const kfOneofJSON = "KF-oneof-fields-byjsonname-last-wins"

type walker struct {
	file  protoreflect.FileDescriptor
	extra []int32 // additional numbers to query on every range set / number index

	checks      int64 // individual accessor comparisons
	descriptors int64
	maxRanges   int  // largest reserved+extension range count on one message/enum
	aliases     int  // enum values that share a number with an earlier value
	dupJSON     int  // fields whose JSON/text key is already held by an earlier field of the same list
	bigMsgs     int  // messages with > 100 fields
	oneofDupKey int  // oneofs with two members sharing a JSON name
	groupLike   int
	maps        int
	required    int
	knownHits   int // occurrences of the known oneof ByJSONName deviation
	noExclude   bool // report the known deviation as an error (witness)
	statsOnly   bool // classification pass: never touch the known-finding counters
}

func (w *walker) errf(d protoreflect.Descriptor, format string, a ...any) error {
	return fmt.Errorf("file %q, %T %q: %s", w.file.Path(), d, d.FullName(), fmt.Sprintf(format, a...))
}

func joinName(scope protoreflect.FullName, name protoreflect.Name) protoreflect.FullName {
	if scope == "" {
		return protoreflect.FullName(name)
	}
	return scope + "." + protoreflect.FullName(name)
}

func lastName(full protoreflect.FullName) protoreflect.Name {
	if i := strings.LastIndexByte(string(full), '.'); i >= 0 {
		return protoreflect.Name(full[i+1:])
	}
	return protoreflect.Name(full)
}

// checkDecl checks the facts shared by every declaration: index, parent links, full name.
func (w *walker) checkDecl(d, parent protoreflect.Descriptor, i int) error {
	w.descriptors++
	w.checks += 6
	if d.Index() != i {
		return w.errf(d, "Get(%d).Index() = %d", i, d.Index())
	}
	if d.Parent() != parent {
		return w.errf(d, "Parent() is %T %q, but it is element %d of a list of %T %q", d.Parent(), fullNameOf(d.Parent()), i, parent, parent.FullName())
	}
	if d.ParentFile() != w.file {
		return w.errf(d, "ParentFile() is not the file it was reached from")
	}
	scope := parent.FullName()
	if _, isValue := d.(protoreflect.EnumValueDescriptor); isValue {
		scope = parent.Parent().FullName() // enum values are siblings of their enum
	}
	if want := joinName(scope, d.Name()); d.FullName() != want {
		return w.errf(d, "FullName() = %q, parent scope %q joined with Name() %q gives %q", d.FullName(), scope, d.Name(), want)
	}
	if d.Name() != lastName(d.FullName()) {
		return w.errf(d, "Name() = %q is not the last component of FullName()", d.Name())
	}
	if d.IsPlaceholder() {
		return w.errf(d, "declared descriptor reports IsPlaceholder")
	}
	// Parent chain ends at the file.
	cur, steps := d, 0
	for cur.Parent() != nil {
		cur = cur.Parent()
		if steps++; steps > 100 {
			return w.errf(d, "Parent chain does not terminate")
		}
		if cur.ParentFile() != w.file {
			return w.errf(d, "ancestor %q has another ParentFile", cur.FullName())
		}
	}
	if cur != protoreflect.Descriptor(w.file) {
		return w.errf(d, "Parent chain ends at %T %q, not at the file", cur, cur.FullName())
	}
	return nil
}

func fullNameOf(d protoreflect.Descriptor) protoreflect.FullName {
	if d == nil {
		return "<nil>"
	}
	return d.FullName()
}

// checkByName: ByName(k) is the first element named k (or nil), for every element name and probes.
func checkByName[D protoreflect.Descriptor](w *walker, owner protoreflect.Descriptor, what string, n int, get func(int) D, byName func(protoreflect.Name) D) error {
	names := make([]protoreflect.Name, n)
	probes := []protoreflect.Name{"", "x", "no_such_name"}
	seen := map[protoreflect.Name]bool{}
	for i := 0; i < n; i++ {
		nm := get(i).Name()
		names[i] = nm
		cand := []protoreflect.Name{nm, nm + "x", protoreflect.Name(strings.ToLower(string(nm))), protoreflect.Name(strings.ToUpper(string(nm)))}
		if len(nm) > 1 {
			cand = append(cand, nm[:len(nm)-1])
		}
		for _, p := range cand {
			if !seen[p] {
				seen[p] = true
				probes = append(probes, p)
			}
		}
	}
	for _, k := range probes {
		var want D
		for j := 0; j < n; j++ { // the linear scan is the reference
			if names[j] == k {
				want = get(j)
				break
			}
		}
		w.checks++
		if got := byName(k); protoreflect.Descriptor(got) != protoreflect.Descriptor(want) {
			return w.errf(owner, "%s.ByName(%q) = %v, linear scan finds %v", what, k, descStr(got), descStr(want))
		}
	}
	return nil
}

func descStr(d protoreflect.Descriptor) string {
	if d == nil {
		return "nil"
	}
	return fmt.Sprintf("%q(index %d)", d.FullName(), d.Index())
}

// ---- file ---------------------------------------------------------------------------------------

func (w *walker) checkFile() error {
	fd := w.file
	w.checks += 4
	if fd.Parent() != nil || fd.ParentFile() != fd {
		return w.errf(fd, "file Parent()/ParentFile() wrong")
	}
	if fd.FullName() != fd.Package() || fd.Name() != lastName(fd.Package()) {
		return w.errf(fd, "file FullName()/Name() disagree with Package() %q", fd.Package())
	}
	if err := w.checkEnums(fd, fd.Enums()); err != nil {
		return err
	}
	if err := w.checkMessages(fd, fd.Messages()); err != nil {
		return err
	}
	if err := w.checkExtensions(fd, fd.Extensions()); err != nil {
		return err
	}
	svcs := fd.Services()
	for i := 0; i < svcs.Len(); i++ {
		sd := svcs.Get(i)
		if err := w.checkDecl(sd, fd, i); err != nil {
			return err
		}
		ms := sd.Methods()
		for j := 0; j < ms.Len(); j++ {
			m := ms.Get(j)
			if err := w.checkDecl(m, sd, j); err != nil {
				return err
			}
			w.checks += 2
			if m.Input() == nil || m.Output() == nil {
				return w.errf(m, "method without Input()/Output()")
			}
		}
		if err := checkByName(w, sd, "Methods()", ms.Len(), ms.Get, ms.ByName); err != nil {
			return err
		}
	}
	return checkByName(w, fd, "Services()", svcs.Len(), svcs.Get, svcs.ByName)
}

func (w *walker) checkMessages(parent protoreflect.Descriptor, ms protoreflect.MessageDescriptors) error {
	for i := 0; i < ms.Len(); i++ {
		if err := w.checkDecl(ms.Get(i), parent, i); err != nil {
			return err
		}
		if err := w.checkMessage(ms.Get(i)); err != nil {
			return err
		}
	}
	return checkByName(w, parent, "Messages()", ms.Len(), ms.Get, ms.ByName)
}

func (w *walker) checkExtensions(parent protoreflect.Descriptor, xs protoreflect.ExtensionDescriptors) error {
	for i := 0; i < xs.Len(); i++ {
		x := xs.Get(i)
		if err := w.checkDecl(x, parent, i); err != nil {
			return err
		}
		w.checks += 4
		if !x.IsExtension() || x.ContainingMessage() == nil || x.ContainingOneof() != nil {
			return w.errf(x, "extension with IsExtension()=%v ContainingMessage()=%v ContainingOneof()=%v", x.IsExtension(), x.ContainingMessage(), x.ContainingOneof())
		}
		if md := x.ContainingMessage(); !md.IsPlaceholder() {
			// The extendee's range set answers consistently for the extension's own number.
			if got, want := md.ExtensionRanges().Has(x.Number()), inFieldRanges(md.ExtensionRanges(), x.Number()); got != want {
				return w.errf(x, "extendee %q: ExtensionRanges().Has(%d) = %v, membership in the listed ranges = %v", md.FullName(), x.Number(), got, want)
			}
		}
		if err := w.checkFieldLinks(x); err != nil {
			return err
		}
	}
	return checkByName(w, parent, "Extensions()", xs.Len(), xs.Get, xs.ByName)
}

// ---- enums ----------------------------------------------------------------------------------------

func (w *walker) checkEnums(parent protoreflect.Descriptor, es protoreflect.EnumDescriptors) error {
	for i := 0; i < es.Len(); i++ {
		ed := es.Get(i)
		if err := w.checkDecl(ed, parent, i); err != nil {
			return err
		}
		vs := ed.Values()
		nums := []int64{0, 1, -1, math.MinInt32, math.MaxInt32}
		for j := 0; j < vs.Len(); j++ {
			v := vs.Get(j)
			if err := w.checkDecl(v, ed, j); err != nil {
				return err
			}
			n := int64(v.Number())
			nums = append(nums, n, n-1, n+1)
			for k := 0; k < j; k++ {
				if vs.Get(k).Number() == v.Number() {
					w.aliases++
					break
				}
			}
		}
		if err := checkByName(w, ed, "Values()", vs.Len(), vs.Get, vs.ByName); err != nil {
			return err
		}
		rr := ed.ReservedRanges()
		for j := 0; j < rr.Len(); j++ {
			r := rr.Get(j)
			nums = append(nums, int64(r[0])-1, int64(r[0]), int64(r[0])+1, int64(r[1])-1, int64(r[1]), int64(r[1])+1)
		}
		for _, x := range w.extra {
			nums = append(nums, int64(x))
		}
		if rr.Len() > w.maxRanges {
			w.maxRanges = rr.Len()
		}
		for _, n64 := range nums {
			if n64 < math.MinInt32 || n64 > math.MaxInt32 {
				continue
			}
			n := protoreflect.EnumNumber(n64)
			var want protoreflect.EnumValueDescriptor
			for j := 0; j < vs.Len(); j++ {
				if vs.Get(j).Number() == n {
					want = vs.Get(j)
					break
				}
			}
			w.checks += 2
			if got := vs.ByNumber(n); got != want {
				return w.errf(ed, "Values().ByNumber(%d) = %v, first value with that number is %v", n, descStr(got), descStr(want))
			}
			in := false
			for j := 0; j < rr.Len(); j++ {
				if r := rr.Get(j); r[0] <= n && n <= r[1] { // enum ranges are end-inclusive
					in = true
				}
			}
			if got := rr.Has(n); got != in {
				return w.errf(ed, "ReservedRanges().Has(%d) = %v, membership in the %d listed ranges = %v", n, got, rr.Len(), in)
			}
		}
		if err := w.checkNames(ed, ed.ReservedNames(), vs.Len(), func(j int) protoreflect.Name { return vs.Get(j).Name() }); err != nil {
			return err
		}
	}
	return checkByName(w, parent, "Enums()", es.Len(), es.Get, es.ByName)
}

func (w *walker) checkNames(owner protoreflect.Descriptor, names protoreflect.Names, n int, declared func(int) protoreflect.Name) error {
	probes := []protoreflect.Name{"", "x", "reserved"}
	for i := 0; i < names.Len(); i++ {
		probes = append(probes, names.Get(i), names.Get(i)+"_")
	}
	for i := 0; i < n && i < 50; i++ {
		probes = append(probes, declared(i))
	}
	for _, k := range probes {
		in := false
		for i := 0; i < names.Len(); i++ {
			if names.Get(i) == k {
				in = true
			}
		}
		w.checks++
		if got := names.Has(k); got != in {
			return w.errf(owner, "ReservedNames().Has(%q) = %v, listed = %v", k, got, in)
		}
	}
	return nil
}

// ---- messages -------------------------------------------------------------------------------------

func inFieldRanges(rs protoreflect.FieldRanges, n protoreflect.FieldNumber) bool {
	return inListed(listed(rs), n)
}

// listed copies the indexed view of a range set.
func listed(rs protoreflect.FieldRanges) [][2]protoreflect.FieldNumber {
	out := make([][2]protoreflect.FieldNumber, rs.Len())
	for i := range out {
		out[i] = rs.Get(i)
	}
	return out
}

func inListed(rs [][2]protoreflect.FieldNumber, n protoreflect.FieldNumber) bool {
	for _, r := range rs {
		if r[0] <= n && n < r[1] { // message ranges are end-exclusive
			return true
		}
	}
	return false
}

// isGroupLike re-states the documented rule (proto2 group shape): a group-kind field named as the
// lower-cased name of a message declared in the same file and in the same scope as the field.
func isGroupLike(fd protoreflect.FieldDescriptor) bool {
	if fd.Kind() != protoreflect.GroupKind || fd.Message() == nil {
		return false
	}
	md := fd.Message()
	if strings.ToLower(string(md.Name())) != string(fd.Name()) || md.ParentFile() != fd.ParentFile() {
		return false
	}
	if fd.IsExtension() {
		return fd.Parent() == md.Parent()
	}
	return protoreflect.Descriptor(fd.ContainingMessage()) == md.Parent()
}

type keyed struct {
	what   string
	key    func(protoreflect.FieldDescriptor) string
	lookup func(string) protoreflect.FieldDescriptor
}

// checkFieldKeys checks ByNumber/ByJSONName/ByTextName of a field list (a message's or a oneof's).
// aliasLower: the list also indexes group-like fields under their lower-cased JSON/text name
// (message field lists do; the package documents this as the proto2-group compatibility rule).
func (w *walker) checkFieldKeys(owner protoreflect.Descriptor, what string, fs protoreflect.FieldDescriptors, aliasLower, isOneof bool) error {
	n := fs.Len()
	// numbers
	nums := []int64{0, 1, -1, 1<<29 - 1, 1 << 29, math.MaxInt32, math.MinInt32}
	numbers := make([]protoreflect.FieldNumber, n)
	for i := 0; i < n; i++ {
		numbers[i] = fs.Get(i).Number()
		x := int64(numbers[i])
		nums = append(nums, x, x-1, x+1)
	}
	for _, x := range w.extra {
		nums = append(nums, int64(x))
	}
	for _, x := range nums {
		if x < math.MinInt32 || x > math.MaxInt32 {
			continue
		}
		num := protoreflect.FieldNumber(x)
		var want protoreflect.FieldDescriptor
		for j := 0; j < n; j++ { // the linear scan is the reference
			if numbers[j] == num {
				want = fs.Get(j)
				break
			}
		}
		w.checks++
		if got := fs.ByNumber(num); got != want {
			return w.errf(owner, "%s.ByNumber(%d) = %v, linear scan finds %v", what, num, descStr(got), descStr(want))
		}
	}
	// string keys
	groupLike := make([]bool, n)
	for i := 0; i < n; i++ {
		groupLike[i] = isGroupLike(fs.Get(i))
	}
	for _, kv := range []keyed{
		{"ByJSONName", protoreflect.FieldDescriptor.JSONName, fs.ByJSONName},
		{"ByTextName", protoreflect.FieldDescriptor.TextName, fs.ByTextName},
	} {
		keys, lower := make([]string, n), make([]string, n)
		probes := []string{"", "x", "no_such_name"}
		seen := map[string]bool{}
		firstWith := map[string]int{}
		for i := 0; i < n; i++ {
			f := fs.Get(i)
			keys[i] = kv.key(f)
			lower[i] = strings.ToLower(keys[i])
			for _, p := range []string{keys[i], lower[i], string(f.Name()), f.JSONName(), f.TextName(), keys[i] + "x"} {
				if !seen[p] {
					seen[p] = true
					probes = append(probes, p)
				}
			}
			if _, dup := firstWith[keys[i]]; dup {
				if kv.what == "ByJSONName" {
					w.dupJSON++
					if isOneof {
						w.oneofDupKey++
					}
				}
			} else {
				firstWith[keys[i]] = i
			}
		}
		for _, k := range probes {
			var strict, withAlias, last protoreflect.FieldDescriptor // first exact match; first match counting lower-cased group-like aliases; last exact match
			for j := 0; j < n; j++ { // the linear scan is the reference
				exact := keys[j] == k
				if exact {
					if strict == nil {
						strict = fs.Get(j)
					}
					last = fs.Get(j)
				}
				if withAlias == nil && (exact || (groupLike[j] && lower[j] == k)) {
					withAlias = fs.Get(j)
				}
			}
			w.checks++
			got := kv.lookup(k)
			ok := got == strict
			if aliasLower {
				ok = got == withAlias
			} else if !ok && strict == nil && got == withAlias {
				ok = true // a oneof's list may or may not honour the group-like alias; both are accepted
			}
			if !ok && isOneof && kv.what == "ByJSONName" && strict != nil && got == last && last != strict {
				// known deviation: the oneof member index is built last-wins for duplicate JSON names
				w.knownHits++
				if w.statsOnly || (!w.noExclude && pbt.ExcludeKnown(kfOneofJSON)) {
					continue
				}
			}
			if !ok {
				want := strict
				if aliasLower {
					want = withAlias
				}
				return w.errf(owner, "%s.%s(%q) = %v, the first element with that key is %v", what, kv.what, k, descStr(got), descStr(want))
			}
		}
	}
	return nil
}

func (w *walker) checkMessage(md protoreflect.MessageDescriptor) error {
	fs := md.Fields()
	if fs.Len() > 100 {
		w.bigMsgs++
	}
	var required []protoreflect.FieldNumber
	for i := 0; i < fs.Len(); i++ {
		f := fs.Get(i)
		if err := w.checkDecl(f, md, i); err != nil {
			return err
		}
		w.checks += 3
		if f.IsExtension() || protoreflect.Descriptor(f.ContainingMessage()) != protoreflect.Descriptor(md) {
			return w.errf(f, "field with IsExtension()=%v ContainingMessage()=%q", f.IsExtension(), fullNameOf(f.ContainingMessage()))
		}
		if f.Cardinality() == protoreflect.Required {
			required = append(required, f.Number())
			w.required++
		}
		if md.ExtensionRanges().Has(f.Number()) {
			return w.errf(f, "field number %d is also inside an extension range", f.Number())
		}
		if err := w.checkFieldLinks(f); err != nil {
			return err
		}
		// oneof membership, seen from the field
		if od := f.ContainingOneof(); od != nil {
			w.checks += 3
			if od.Parent() != protoreflect.Descriptor(md) || md.Oneofs().Get(od.Index()) != od {
				return w.errf(f, "ContainingOneof() %q is not a oneof of the field's message", od.FullName())
			}
			cnt := 0
			for j := 0; j < od.Fields().Len(); j++ {
				if od.Fields().Get(j) == f {
					cnt++
				}
			}
			if cnt != 1 {
				return w.errf(f, "field appears %d times in ContainingOneof().Fields()", cnt)
			}
		}
	}
	if err := checkByName(w, md, "Fields()", fs.Len(), fs.Get, fs.ByName); err != nil {
		return err
	}
	if err := w.checkFieldKeys(md, "Fields()", fs, true, false); err != nil {
		return err
	}

	// oneofs, seen from the oneof
	os := md.Oneofs()
	inOneof := map[protoreflect.FieldDescriptor]bool{}
	for i := 0; i < os.Len(); i++ {
		od := os.Get(i)
		if err := w.checkDecl(od, md, i); err != nil {
			return err
		}
		ofs := od.Fields()
		prev := -1
		for j := 0; j < ofs.Len(); j++ {
			f := ofs.Get(j)
			w.checks += 3
			if f.ContainingOneof() != od {
				return w.errf(od, "Fields().Get(%d) = %q whose ContainingOneof() is %q", j, f.FullName(), fullNameOf(f.ContainingOneof()))
			}
			if f.Index() < 0 || f.Index() >= fs.Len() || fs.Get(f.Index()) != f {
				return w.errf(od, "Fields().Get(%d) = %q is not the message's field at its Index() %d", j, f.FullName(), f.Index())
			}
			if f.Index() <= prev {
				return w.errf(od, "Fields() lists %q twice or out of declaration order", f.FullName())
			}
			prev = f.Index()
			inOneof[f] = true
		}
		if od.IsSynthetic() && (ofs.Len() != 1 || !ofs.Get(0).HasOptionalKeyword()) {
			return w.errf(od, "synthetic oneof with %d fields", ofs.Len())
		}
		if err := checkByName(w, od, "Oneof.Fields()", ofs.Len(), ofs.Get, ofs.ByName); err != nil {
			return err
		}
		if err := w.checkFieldKeys(od, "Oneof.Fields()", ofs, false, true); err != nil {
			return err
		}
	}
	for i := 0; i < fs.Len(); i++ {
		w.checks++
		if f := fs.Get(i); (f.ContainingOneof() != nil) != inOneof[f] {
			return w.errf(f, "ContainingOneof() = %v but membership in some Oneofs().Get(i).Fields() = %v", fullNameOf(f.ContainingOneof()), inOneof[f])
		}
	}
	if err := checkByName(w, md, "Oneofs()", os.Len(), os.Get, os.ByName); err != nil {
		return err
	}

	// RequiredNumbers lists exactly the required fields.
	rn := md.RequiredNumbers()
	w.checks++
	if rn.Len() != len(required) {
		return w.errf(md, "RequiredNumbers() has %d entries, %d fields are required", rn.Len(), len(required))
	}
	for i := 0; i < rn.Len(); i++ {
		found := false
		for _, r := range required {
			found = found || r == rn.Get(i)
		}
		if !found {
			return w.errf(md, "RequiredNumbers().Get(%d) = %d is not a required field", i, rn.Get(i))
		}
	}

	// Range sets and the number index at every boundary.
	rr, xr := md.ReservedRanges(), md.ExtensionRanges()
	rrList, xrList := listed(rr), listed(xr)
	if rr.Len()+xr.Len() > w.maxRanges {
		w.maxRanges = rr.Len() + xr.Len()
	}
	nums := []int64{0, 1, 2, -1, 1<<29 - 1, 1 << 29, 1<<29 + 1, math.MaxInt32, math.MinInt32, 18999, 19000, 19999, 20000}
	for _, rs := range []protoreflect.FieldRanges{rr, xr} {
		for i := 0; i < rs.Len(); i++ {
			r := rs.Get(i)
			nums = append(nums, int64(r[0])-1, int64(r[0]), int64(r[0])+1, int64(r[1])-2, int64(r[1])-1, int64(r[1]), int64(r[1])+1)
		}
	}
	for i := 0; i < fs.Len(); i++ {
		nums = append(nums, int64(fs.Get(i).Number()))
	}
	for _, x := range w.extra {
		nums = append(nums, int64(x))
	}
	for _, x := range nums {
		if x < math.MinInt32 || x > math.MaxInt32 {
			continue
		}
		n := protoreflect.FieldNumber(x)
		w.checks += 3
		if got, want := rr.Has(n), inListed(rrList, n); got != want {
			return w.errf(md, "ReservedRanges().Has(%d) = %v, membership in the %d listed ranges = %v", n, got, rr.Len(), want)
		}
		if got, want := xr.Has(n), inListed(xrList, n); got != want {
			return w.errf(md, "ExtensionRanges().Has(%d) = %v, membership in the %d listed ranges = %v", n, got, xr.Len(), want)
		}
		isReq := false
		for _, r := range required {
			isReq = isReq || r == n
		}
		if got := rn.Has(n); got != isReq {
			return w.errf(md, "RequiredNumbers().Has(%d) = %v, field is required = %v", n, got, isReq)
		}
	}
	if err := w.checkNames(md, md.ReservedNames(), fs.Len(), func(j int) protoreflect.Name { return fs.Get(j).Name() }); err != nil {
		return err
	}

	if err := w.checkEnums(md, md.Enums()); err != nil {
		return err
	}
	if err := w.checkMessages(md, md.Messages()); err != nil {
		return err
	}
	return w.checkExtensions(md, md.Extensions())
}

// checkFieldLinks: Kind <-> Enum()/Message(), map entry links, list/map classification.
func (w *walker) checkFieldLinks(f protoreflect.FieldDescriptor) error {
	w.checks += 6
	k := f.Kind()
	if (f.Enum() != nil) != (k == protoreflect.EnumKind) {
		return w.errf(f, "Kind() = %v but Enum() = %v", k, fullNameOf(f.Enum()))
	}
	if (f.Message() != nil) != (k == protoreflect.MessageKind || k == protoreflect.GroupKind) {
		return w.errf(f, "Kind() = %v but Message() = %v", k, fullNameOf(f.Message()))
	}
	if isGroupLike(f) {
		w.groupLike++
	}
	isMap := f.Message() != nil && f.Message().IsMapEntry()
	if f.IsMap() != isMap {
		return w.errf(f, "IsMap() = %v, Message() is a map entry = %v", f.IsMap(), isMap)
	}
	if f.IsList() != (f.Cardinality() == protoreflect.Repeated && !isMap) {
		return w.errf(f, "IsList() = %v with cardinality %v and IsMap() %v", f.IsList(), f.Cardinality(), isMap)
	}
	if !isMap {
		if f.MapKey() != nil || f.MapValue() != nil {
			return w.errf(f, "non-map field with MapKey()/MapValue()")
		}
		return nil
	}
	w.maps++
	entry := f.Message()
	var key, val protoreflect.FieldDescriptor
	for i := 0; i < entry.Fields().Len(); i++ {
		switch e := entry.Fields().Get(i); e.Number() {
		case 1:
			if key == nil {
				key = e
			}
		case 2:
			if val == nil {
				val = e
			}
		}
	}
	w.checks += 4
	if key == nil || val == nil || f.MapKey() != key || f.MapValue() != val {
		return w.errf(f, "MapKey()/MapValue() = %v/%v, entry message fields 1/2 are %v/%v", descStr(f.MapKey()), descStr(f.MapValue()), descStr(key), descStr(val))
	}
	if protoreflect.Descriptor(key.ContainingMessage()) != protoreflect.Descriptor(entry) || protoreflect.Descriptor(val.ContainingMessage()) != protoreflect.Descriptor(entry) {
		return w.errf(f, "MapKey()/MapValue() do not point back to the entry message")
	}
	return nil
}
