package c36

import (
	"fmt"
	"strings"
	"testing"

	"google.golang.org/protobuf/encoding/protojson"
	"google.golang.org/protobuf/internal/filedesc"
	"google.golang.org/protobuf/proto"
	"google.golang.org/protobuf/reflect/protodesc"
	"google.golang.org/protobuf/reflect/protoreflect"
	"google.golang.org/protobuf/reflect/protoregistry"
	"google.golang.org/protobuf/types/descriptorpb"
	"google.golang.org/protobuf/zverif/gen"
	"google.golang.org/protobuf/zverif/pbt"
	"pgregory.net/rapid"
)

// schemaCase: a random schema (FileDescriptorProto in its JSON form, so that the replay file is
// readable), how the descriptor is built from it, and extra numbers to query everywhere.
type schemaCase struct {
	Via   string // "protodesc": protodesc.NewFile; "filedesc": filedesc.Builder on the marshalled proto
	FDP   string // protojson of the FileDescriptorProto
	Extra []int32
	Shape shape // generator-side statistics (classification only)
}

type shape struct {
	Syntax                                                                         string
	MaxRanges, Aliases, DupKeys, BigMsgs, OneofDupJSON, GroupLike, Maps, Required int
}

// camel is the documented default JSON name: underscores dropped, the following lower-case letter capitalised.
func camel(s string) string {
	var b []byte
	up := false
	for i := 0; i < len(s); i++ {
		c := s[i]
		if c == '_' {
			up = true
			continue
		}
		if up && 'a' <= c && c <= 'z' {
			c -= 'a' - 'A'
		}
		up = false
		b = append(b, c)
	}
	return string(b)
}

// shapeOf classifies a schema from the descriptor proto alone (no descriptor is built).
func shapeOf(fdp *descriptorpb.FileDescriptorProto) shape {
	sh := shape{Syntax: fdp.GetSyntax()}
	enum := func(ed *descriptorpb.EnumDescriptorProto) {
		if n := len(ed.ReservedRange); n > sh.MaxRanges {
			sh.MaxRanges = n
		}
		seen := map[int32]bool{}
		for _, v := range ed.Value {
			if seen[v.GetNumber()] {
				sh.Aliases++
			}
			seen[v.GetNumber()] = true
		}
	}
	var msg func(md *descriptorpb.DescriptorProto)
	msg = func(md *descriptorpb.DescriptorProto) {
		if n := len(md.ReservedRange) + len(md.ExtensionRange); n > sh.MaxRanges {
			sh.MaxRanges = n
		}
		if len(md.Field) > 100 {
			sh.BigMsgs++
		}
		entries := map[string]bool{}
		for _, n := range md.NestedType {
			if n.GetOptions().GetMapEntry() {
				entries[n.GetName()] = true
			}
		}
		inMsg := map[string]bool{}
		inOneof := map[int32]map[string]bool{}
		for _, f := range md.Field {
			js := camel(f.GetName())
			if f.JsonName != nil {
				js = f.GetJsonName()
			}
			if inMsg[js] {
				sh.DupKeys++
			}
			inMsg[js] = true
			if f.OneofIndex != nil {
				if inOneof[f.GetOneofIndex()] == nil {
					inOneof[f.GetOneofIndex()] = map[string]bool{}
				}
				if inOneof[f.GetOneofIndex()][js] {
					sh.OneofDupJSON++
				}
				inOneof[f.GetOneofIndex()][js] = true
			}
			tn := f.GetTypeName()
			last := tn[strings.LastIndexByte(tn, '.')+1:]
			if entries[last] && f.GetLabel() == descriptorpb.FieldDescriptorProto_LABEL_REPEATED {
				sh.Maps++
			}
			delimited := f.GetType() == descriptorpb.FieldDescriptorProto_TYPE_GROUP || f.GetOptions().GetFeatures().GetMessageEncoding() == descriptorpb.FeatureSet_DELIMITED
			if delimited && strings.ToLower(last) == f.GetName() {
				sh.GroupLike++
			}
			if f.GetLabel() == descriptorpb.FieldDescriptorProto_LABEL_REQUIRED || f.GetOptions().GetFeatures().GetFieldPresence() == descriptorpb.FeatureSet_LEGACY_REQUIRED {
				sh.Required++
			}
		}
		for _, e := range md.EnumType {
			enum(e)
		}
		for _, n := range md.NestedType {
			msg(n)
		}
	}
	for _, e := range fdp.EnumType {
		enum(e)
	}
	for _, m := range fdp.MessageType {
		msg(m)
	}
	return sh
}

func build(fdp *descriptorpb.FileDescriptorProto, via string) (protoreflect.FileDescriptor, error) {
	switch via {
	case "protodesc":
		return protodesc.NewFile(fdp, nil)
	case "filedesc":
		b, err := proto.MarshalOptions{Deterministic: true}.Marshal(fdp)
		if err != nil {
			return nil, err
		}
		return filedesc.Builder{RawDescriptor: b, FileRegistry: new(protoregistry.Files)}.Build().File, nil
	}
	return nil, fmt.Errorf("unknown builder %q", via)
}

func checkSchema(c schemaCase) error {
	fdp := new(descriptorpb.FileDescriptorProto)
	if err := protojson.Unmarshal([]byte(c.FDP), fdp); err != nil {
		return fmt.Errorf("harness: bad schema JSON: %v", err)
	}
	fd, err := build(fdp, c.Via)
	if err != nil {
		// Not a harness error: the generator emits disjoint ranges, distinct numbers and unique names by
		// construction, and protodesc validates through the same lazily sorted range sets and lookup
		// maps this property is about (FieldRanges.CheckValid / CheckOverlap, ByNumber, Names.Has).
		return fmt.Errorf("schema that is valid by construction is rejected via %s: %v", c.Via, err)
	}
	w := &walker{file: fd, extra: c.Extra}
	return w.checkFile()
}

func drawSchemaCase(t *rapid.T) schemaCase {
	fdp := drawSchema(t)
	c := schemaCase{Via: rapid.SampledFrom([]string{"protodesc", "filedesc"}).Draw(t, "via")}
	for i, n := 0, rapid.IntRange(0, 6).Draw(t, "extra"); i < n; i++ {
		c.Extra = append(c.Extra, gen.Int32().Draw(t, "q"))
	}
	js, err := protojson.Marshal(fdp)
	if err != nil {
		t.Fatalf("harness: %v", err)
	}
	c.FDP = string(js)
	c.Shape = shapeOf(fdp)
	return c
}

func schemaClasses(c schemaCase) []string {
	out := []string{"via:" + c.Via, "syntax:" + c.Shape.Syntax}
	add := func(cond bool, s string) {
		if cond {
			out = append(out, s)
		}
	}
	s := c.Shape
	add(s.MaxRanges >= 4, "ranges>=4")
	add(s.MaxRanges >= 16, "ranges>=16")
	add(s.MaxRanges >= 41, "ranges>=41")
	add(s.Aliases > 0, "enum-alias")
	add(s.DupKeys > 0, "duplicate-json-key")
	add(s.OneofDupJSON > 0, "duplicate-json-key-in-oneof")
	add(s.BigMsgs > 0, "message>100-fields")
	add(s.GroupLike > 0, "group-like")
	add(s.Maps > 0, "map")
	add(s.Required > 0, "required")
	add(len(c.Extra) > 0, "extra-queries")
	return out
}

func TestRandomSchemas(t *testing.T) {
	pbt.Run(t, pbt.Prop[schemaCase]{
		Name: "random-schemas",
		Rule: "random proto2/proto3/editions-2023 file (0..80 shuffled reserved/extension ranges per message with sizes 1..2^29 and adjacent ranges, 0..40 inclusive enum ranges over int32, enum aliases, colliding JSON names across a message and inside oneofs, > 100-field messages, groups / DELIMITED fields, maps, required / LEGACY_REQUIRED, real + synthetic oneofs, nested declarations, extensions, services) built by protodesc.NewFile or by internal/filedesc.Builder from the marshalled proto; same linear-scan reference as linked-files, plus drawn extra query numbers. non-trivial = some declaration with >= 4 ranges, or an enum alias, or a duplicate JSON key",
		Draw:  drawSchemaCase,
		Check: checkSchema,
		NonTrivial: func(c schemaCase) bool {
			return c.Shape.MaxRanges >= 4 || c.Shape.Aliases > 0 || c.Shape.DupKeys > 0
		},
		Classes: schemaClasses,
		Quick:   2000, Thorough: 25000,
	})
}

// TestWitnessOneofJSON replays the fixed witness of the known finding on every run.
func TestWitnessOneofJSON(t *testing.T) {
	opt := descriptorpb.FieldDescriptorProto_LABEL_OPTIONAL.Enum()
	i32 := descriptorpb.FieldDescriptorProto_TYPE_INT32.Enum()
	fdp := &descriptorpb.FileDescriptorProto{
		Name: proto.String("c36/witness.proto"), Package: proto.String("p"), Syntax: proto.String("proto2"),
		MessageType: []*descriptorpb.DescriptorProto{{
			Name: proto.String("M"),
			Field: []*descriptorpb.FieldDescriptorProto{
				{Name: proto.String("foo_bar"), Number: proto.Int32(1), Label: opt, Type: i32, OneofIndex: proto.Int32(0)},
				{Name: proto.String("fooBar"), Number: proto.Int32(2), Label: opt, Type: i32, OneofIndex: proto.Int32(0)},
			},
			OneofDecl: []*descriptorpb.OneofDescriptorProto{{Name: proto.String("o")}},
		}},
	}
	for _, via := range []string{"protodesc", "filedesc"} {
		fd, err := build(fdp, via)
		if err != nil {
			t.Fatalf("harness: %v", err)
		}
		md := fd.Messages().Get(0)
		viaMessage, viaOneof := md.Fields().ByJSONName("fooBar"), md.Oneofs().Get(0).Fields().ByJSONName("fooBar")
		reproduces := viaMessage == md.Fields().Get(0) && viaOneof == md.Fields().Get(1)
		pbt.Witness(t, kfOneofJSON, reproduces, fmt.Sprintf("%s: M.Fields().ByJSONName(\"fooBar\") = %s but M.Oneofs().Get(0).Fields().ByJSONName(\"fooBar\") = %s", via, viaMessage.FullName(), viaOneof.FullName()))
		// and the walker itself must flag it when the exclusion is off
		w := &walker{file: fd, noExclude: true}
		if err := w.checkFile(); err == nil && reproduces {
			t.Errorf("walker did not notice the witness (%s)", via)
		}
	}
}
