package c36

import (
	"fmt"
	"sort"
	"testing"

	"google.golang.org/protobuf/reflect/protoreflect"
	"google.golang.org/protobuf/reflect/protoregistry"
	_ "google.golang.org/protobuf/zverif/corpus" // links every generated package of /repo
	"google.golang.org/protobuf/zverif/pbt"
)

type linkedCase struct {
	Path string // file path in protoregistry.GlobalFiles
}

func linkedPaths() []string {
	var out []string
	protoregistry.GlobalFiles.RangeFiles(func(fd protoreflect.FileDescriptor) bool {
		out = append(out, fd.Path())
		return true
	})
	sort.Strings(out)
	return out
}

var linkedTotals walker

func checkLinked(c linkedCase) error {
	fd, err := protoregistry.GlobalFiles.FindFileByPath(c.Path)
	if err != nil {
		return fmt.Errorf("harness: %q: %v", c.Path, err)
	}
	w := &walker{file: fd}
	if err := w.checkFile(); err != nil {
		return err
	}
	linkedTotals.checks += w.checks
	linkedTotals.descriptors += w.descriptors
	linkedTotals.aliases += w.aliases
	linkedTotals.dupJSON += w.dupJSON
	linkedTotals.bigMsgs += w.bigMsgs
	linkedTotals.groupLike += w.groupLike
	linkedTotals.maps += w.maps
	linkedTotals.required += w.required
	if w.maxRanges > linkedTotals.maxRanges {
		linkedTotals.maxRanges = w.maxRanges
	}
	return nil
}

// TestLinked walks every descriptor reachable from every file linked into the test binary.
func TestLinked(t *testing.T) {
	paths := linkedPaths()
	pbt.Enumerate(t, "linked-files",
		"complete enumeration: every file in protoregistry.GlobalFiles (all generated packages of /repo are linked through zverif/corpus), every descriptor reachable from it; each keyed view / range set / link compared with a linear scan over Len/Get at every key, every range boundary +-1, 0, 1, 2^29-1, 2^29; non-trivial = file declares at least one message or enum",
		true,
		func(yield func(linkedCase, bool) bool) {
			for _, p := range paths {
				fd, _ := protoregistry.GlobalFiles.FindFileByPath(p)
				if !yield(linkedCase{Path: p}, fd != nil && fd.Messages().Len()+fd.Enums().Len() > 0) {
					return
				}
			}
		},
		checkLinked)
	pbt.Count("linked-descriptors", linkedTotals.descriptors, linkedTotals.descriptors,
		fmt.Sprintf("every declaration (message, field, oneof, enum, value, extension, service, method) of the %d linked files; %d accessor comparisons; %d enum aliases, %d duplicate JSON/text keys, %d messages > 100 fields, %d group-like fields, %d map fields, %d required fields, max %d ranges on one declaration",
			len(paths), linkedTotals.checks, linkedTotals.aliases, linkedTotals.dupJSON, linkedTotals.bigMsgs, linkedTotals.groupLike, linkedTotals.maps, linkedTotals.required, linkedTotals.maxRanges),
		true)
	if len(paths) < 50 {
		t.Errorf("only %d linked files: the corpus is not linked", len(paths))
	}
}
