// Package ops is the operation-history engine shared by the stateful properties: a serialisable
// list of protoreflect operations that is executed on a real message and, in lock step, on the
// abstract model; after every step the whole observable state of the message is compared with
// the model (Has/Get for every field incl. defaults, WhichOneof, Range, lists, maps, unknown).
package ops

import (
	"bytes"
	"fmt"

	"google.golang.org/protobuf/reflect/protoreflect"
	"google.golang.org/protobuf/zverif/gen"
	"google.golang.org/protobuf/zverif/model"
	"pgregory.net/rapid"
)

// Step addresses a submessage: field Num, then element Idx of a list, or entry Key of a map
// (Idx == -1 and Key == nil for a singular message field).
type Step struct {
	Num int32      `json:"n"`
	Idx int        `json:"i"`
	Key *model.Val `json:"k,omitempty"`
}

type Op struct {
	Kind string     `json:"op"`
	Path []Step     `json:"path,omitempty"`
	Num  int32      `json:"num,omitempty"`
	Val  model.Val  `json:"val,omitempty"`
	Key  *model.Val `json:"key,omitempty"`
	Idx  int        `json:"idx,omitempty"`
	Raw  []byte     `json:"raw,omitempty"`
}

func (o Op) String() string {
	return fmt.Sprintf("%s(path=%v num=%d idx=%d)", o.Kind, o.Path, o.Num, o.Idx)
}

// ---------------------------------------------------------------------------------------------
// navigation

func navModel(md protoreflect.MessageDescriptor, v *model.Msg, path []Step) (protoreflect.MessageDescriptor, *model.Msg, error) {
	for _, s := range path {
		fd := model.FieldDesc(md, s.Num, nil)
		f := v.Get(s.Num)
		if fd == nil || f == nil {
			return nil, nil, fmt.Errorf("harness: path step %d not populated in model", s.Num)
		}
		switch {
		case fd.IsMap():
			i := keyIndex(f, *s.Key)
			if i < 0 {
				return nil, nil, fmt.Errorf("harness: map key missing in model")
			}
			if f.Vals[i].M == nil {
				f.Vals[i].M = &model.Msg{}
			}
			md, v = fd.MapValue().Message(), f.Vals[i].M
		case fd.IsList():
			if f.Vals[s.Idx].M == nil {
				f.Vals[s.Idx].M = &model.Msg{}
			}
			md, v = fd.Message(), f.Vals[s.Idx].M
		default:
			if f.Vals[0].M == nil {
				f.Vals[0].M = &model.Msg{}
			}
			md, v = fd.Message(), f.Vals[0].M
		}
	}
	return md, v, nil
}

func navMsg(m protoreflect.Message, path []Step) (protoreflect.Message, error) {
	for _, s := range path {
		fd := model.FieldDesc(m.Descriptor(), s.Num, nil)
		if fd == nil {
			return nil, fmt.Errorf("harness: no field %d", s.Num)
		}
		switch {
		case fd.IsMap():
			m = m.Mutable(fd).Map().Get(model.ToValue(fd.MapKey(), *s.Key).MapKey()).Message()
		case fd.IsList():
			m = m.Mutable(fd).List().Get(s.Idx).Message()
		default:
			m = m.Mutable(fd).Message()
		}
	}
	return m, nil
}

func keyIndex(f *model.Field, k model.Val) int {
	for i, x := range f.Keys {
		if x.U == k.U && bytes.Equal(x.B, k.B) {
			return i
		}
	}
	return -1
}

func clearOneofSiblings(md protoreflect.MessageDescriptor, v *model.Msg, fd protoreflect.FieldDescriptor) {
	if od := fd.ContainingOneof(); od != nil {
		for i := 0; i < od.Fields().Len(); i++ {
			if n := int32(od.Fields().Get(i).Number()); n != int32(fd.Number()) {
				v.Del(n)
			}
		}
	}
}

// ---------------------------------------------------------------------------------------------
// execution

// ApplyModel executes op on the model.
func ApplyModel(md protoreflect.MessageDescriptor, root *model.Msg, op Op) error {
	md, v, err := navModel(md, root, op.Path)
	if err != nil {
		return err
	}
	fd := model.FieldDesc(md, op.Num, nil)
	if fd == nil && op.Kind != "setunknown" {
		return fmt.Errorf("harness: no field %d in %s", op.Num, md.FullName())
	}
	switch op.Kind {
	case "set": // singular scalar or message (replaces)
		clearOneofSiblings(md, v, fd)
		if fd.Message() == nil && !fd.HasPresence() && model.IsZero(fd, op.Val) {
			v.Del(op.Num) // implicit presence: storing zero leaves the field unpopulated
		} else {
			nv := op.Val
			if fd.Message() != nil && nv.M == nil {
				nv.M = &model.Msg{}
			}
			v.Put(model.Field{Num: op.Num, Vals: []model.Val{cloneVal(nv)}})
		}
	case "clear":
		v.Del(op.Num)
	case "mutable":
		switch {
		case fd.IsList(), fd.IsMap():
			// obtaining a mutable empty list/map does not populate the field
		default:
			if v.Get(op.Num) == nil {
				clearOneofSiblings(md, v, fd)
				v.Put(model.Field{Num: op.Num, Vals: []model.Val{{M: &model.Msg{}}}})
			}
		}
	case "append":
		nv := cloneVal(op.Val)
		if fd.Message() != nil && nv.M == nil {
			nv.M = &model.Msg{}
		}
		if f := v.Get(op.Num); f != nil {
			f.Vals = append(f.Vals, nv)
		} else {
			v.Put(model.Field{Num: op.Num, Vals: []model.Val{nv}})
		}
	case "appendmutable":
		nv := model.Val{M: &model.Msg{}}
		if f := v.Get(op.Num); f != nil {
			f.Vals = append(f.Vals, nv)
		} else {
			v.Put(model.Field{Num: op.Num, Vals: []model.Val{nv}})
		}
	case "listset":
		f := v.Get(op.Num)
		nv := cloneVal(op.Val)
		if fd.Message() != nil && nv.M == nil {
			nv.M = &model.Msg{}
		}
		f.Vals[op.Idx] = nv
	case "truncate":
		f := v.Get(op.Num)
		if f != nil {
			f.Vals = f.Vals[:op.Idx]
			if len(f.Vals) == 0 {
				v.Del(op.Num)
			}
		}
	case "mapset":
		nv := cloneVal(op.Val)
		if fd.MapValue().Message() != nil && nv.M == nil {
			nv.M = &model.Msg{}
		}
		f := v.Get(op.Num)
		if f == nil {
			v.Put(model.Field{Num: op.Num, Keys: []model.Val{*op.Key}, Vals: []model.Val{nv}})
		} else if i := keyIndex(f, *op.Key); i >= 0 {
			f.Vals[i] = nv
		} else {
			f.Keys = append(f.Keys, *op.Key)
			f.Vals = append(f.Vals, nv)
		}
	case "mapmutable":
		f := v.Get(op.Num)
		if f == nil {
			v.Put(model.Field{Num: op.Num, Keys: []model.Val{*op.Key}, Vals: []model.Val{{M: &model.Msg{}}}})
		} else if keyIndex(f, *op.Key) < 0 {
			f.Keys = append(f.Keys, *op.Key)
			f.Vals = append(f.Vals, model.Val{M: &model.Msg{}})
		}
	case "mapclear":
		if f := v.Get(op.Num); f != nil {
			if i := keyIndex(f, *op.Key); i >= 0 {
				f.Keys = append(f.Keys[:i:i], f.Keys[i+1:]...)
				f.Vals = append(f.Vals[:i:i], f.Vals[i+1:]...)
			}
			if len(f.Keys) == 0 {
				v.Del(op.Num)
			}
		}
	case "setunknown":
		v.Unknown = append([]byte(nil), op.Raw...)
	default:
		return fmt.Errorf("harness: unknown op %q", op.Kind)
	}
	return nil
}

func cloneVal(v model.Val) model.Val {
	return model.Val{U: v.U, B: append([]byte(nil), v.B...), M: v.M.Clone()}
}

// ApplyMsg executes op on the message through the protoreflect API.
func ApplyMsg(root protoreflect.Message, op Op) error {
	m, err := navMsg(root, op.Path)
	if err != nil {
		return err
	}
	md := m.Descriptor()
	fd := model.FieldDesc(md, op.Num, nil)
	if fd == nil && op.Kind != "setunknown" {
		return fmt.Errorf("harness: no field %d in %s", op.Num, md.FullName())
	}
	newMsg := func(d protoreflect.FieldDescriptor, holder func() protoreflect.Value, v model.Val) (protoreflect.Value, error) {
		nv := holder()
		if v.M != nil {
			if err := model.Apply(nv.Message(), v.M, nil); err != nil {
				return nv, err
			}
		}
		return nv, nil
	}
	switch op.Kind {
	case "set":
		if fd.Message() != nil {
			nv, err := newMsg(fd, func() protoreflect.Value { return m.NewField(fd) }, op.Val)
			if err != nil {
				return err
			}
			m.Set(fd, nv)
		} else {
			m.Set(fd, model.ToValue(fd, op.Val))
		}
	case "clear":
		m.Clear(fd)
	case "mutable":
		m.Mutable(fd)
	case "append":
		l := m.Mutable(fd).List()
		if fd.Message() != nil {
			nv, err := newMsg(fd, l.NewElement, op.Val)
			if err != nil {
				return err
			}
			l.Append(nv)
		} else {
			l.Append(model.ToValue(fd, op.Val))
		}
	case "appendmutable":
		m.Mutable(fd).List().AppendMutable()
	case "listset":
		l := m.Mutable(fd).List()
		if fd.Message() != nil {
			nv, err := newMsg(fd, l.NewElement, op.Val)
			if err != nil {
				return err
			}
			l.Set(op.Idx, nv)
		} else {
			l.Set(op.Idx, model.ToValue(fd, op.Val))
		}
	case "truncate":
		m.Mutable(fd).List().Truncate(op.Idx)
	case "mapset":
		mp := m.Mutable(fd).Map()
		k := model.ToValue(fd.MapKey(), *op.Key).MapKey()
		if fd.MapValue().Message() != nil {
			nv, err := newMsg(fd.MapValue(), mp.NewValue, op.Val)
			if err != nil {
				return err
			}
			mp.Set(k, nv)
		} else {
			mp.Set(k, model.ToValue(fd.MapValue(), op.Val))
		}
	case "mapmutable":
		m.Mutable(fd).Map().Mutable(model.ToValue(fd.MapKey(), *op.Key).MapKey())
	case "mapclear":
		m.Mutable(fd).Map().Clear(model.ToValue(fd.MapKey(), *op.Key).MapKey())
	case "setunknown":
		m.SetUnknown(append(protoreflect.RawFields(nil), op.Raw...))
	default:
		return fmt.Errorf("harness: unknown op %q", op.Kind)
	}
	return nil
}

// ---------------------------------------------------------------------------------------------
// full-state verification

// Verify compares every observable of m with the model v (recursively).
func Verify(m protoreflect.Message, v *model.Msg) error {
	return verify(m, v, string(m.Descriptor().Name()))
}

func verify(m protoreflect.Message, v *model.Msg, path string) error {
	if v == nil {
		v = &model.Msg{}
	}
	md := m.Descriptor()
	// snapshot (Range) equality, bit-exact floats
	snap := model.Snapshot(m)
	if d := model.Diff(md, v, snap, model.EqualOpts{BitwiseFloats: true}, nil); d != "" {
		return fmt.Errorf("%s: state differs from the model: %s", path, d)
	}
	// Range visits each populated field exactly once
	seen := map[protoreflect.FieldNumber]int{}
	m.Range(func(fd protoreflect.FieldDescriptor, _ protoreflect.Value) bool {
		seen[fd.Number()]++
		return true
	})
	for n, c := range seen {
		if c != 1 {
			return fmt.Errorf("%s: Range visited field %d %d times", path, n, c)
		}
		if v.Get(int32(n)) == nil {
			return fmt.Errorf("%s: Range visited unpopulated field %d", path, n)
		}
	}
	if len(seen) != len(v.Fields) {
		return fmt.Errorf("%s: Range visited %d fields, model has %d populated", path, len(seen), len(v.Fields))
	}
	// "Range returns immediately if f returns false": stop at the first call and in the middle
	for _, stopAt := range []int{1, (len(v.Fields) + 1) / 2} {
		if stopAt < 1 || stopAt >= len(v.Fields) {
			continue
		}
		calls := 0
		m.Range(func(protoreflect.FieldDescriptor, protoreflect.Value) bool {
			calls++
			return calls < stopAt
		})
		if calls != stopAt {
			return fmt.Errorf("%s: Range called f %d times although f returned false at call %d (%d populated fields)", path, calls, stopAt, len(v.Fields))
		}
	}
	// every declared field: Has, Get (defaults / read-only empties)
	fs := md.Fields()
	for i := 0; i < fs.Len(); i++ {
		fd := fs.Get(i)
		f := v.Get(int32(fd.Number()))
		if has := m.Has(fd); has != (f != nil) {
			return fmt.Errorf("%s.%s: Has = %v, model populated = %v", path, fd.Name(), has, f != nil)
		}
		got := m.Get(fd)
		if f != nil {
			// populated values were compared through the snapshot; container-level contracts here
			switch {
			case fd.IsMap():
				mp := got.Map()
				if mp.Len() != len(f.Keys) {
					return fmt.Errorf("%s.%s: Map.Len = %d, model has %d entries", path, fd.Name(), mp.Len(), len(f.Keys))
				}
				if len(f.Keys) >= 2 {
					calls := 0
					mp.Range(func(protoreflect.MapKey, protoreflect.Value) bool { calls++; return false })
					if calls != 1 {
						return fmt.Errorf("%s.%s: Map.Range called f %d times although f returned false at the first call", path, fd.Name(), calls)
					}
				}
				for _, k := range f.Keys {
					if !mp.Has(model.ToValue(fd.MapKey(), k).MapKey()) {
						return fmt.Errorf("%s.%s: Map.Has is false for a key Range reports", path, fd.Name())
					}
				}
			case fd.IsList():
				if got.List().Len() != len(f.Vals) {
					return fmt.Errorf("%s.%s: List.Len = %d, model has %d elements", path, fd.Name(), got.List().Len(), len(f.Vals))
				}
			}
			continue
		}
		switch {
		case fd.IsList():
			if got.List().Len() != 0 {
				return fmt.Errorf("%s.%s: unpopulated list has %d elements", path, fd.Name(), got.List().Len())
			}
		case fd.IsMap():
			if got.Map().Len() != 0 {
				return fmt.Errorf("%s.%s: unpopulated map has %d entries", path, fd.Name(), got.Map().Len())
			}
		case fd.Message() != nil:
			gm := got.Message()
			if gm.IsValid() {
				return fmt.Errorf("%s.%s: Get of an unpopulated message field returned a valid (mutable) message", path, fd.Name())
			}
			if n := countRange(gm); n != 0 || len(gm.GetUnknown()) != 0 {
				return fmt.Errorf("%s.%s: Get of an unpopulated message field is not empty", path, fd.Name())
			}
		default:
			want := fd.Default()
			if d := model.Diff1(fd, model.FromValue(fd, want), model.FromValue(fd, got)); d != "" {
				return fmt.Errorf("%s.%s: Get of unpopulated field = %v, want default %v", path, fd.Name(), got, want)
			}
		}
	}
	// oneofs
	os := md.Oneofs()
	for i := 0; i < os.Len(); i++ {
		od := os.Get(i)
		var active protoreflect.FieldDescriptor
		for j := 0; j < od.Fields().Len(); j++ {
			if v.Get(int32(od.Fields().Get(j).Number())) != nil {
				if active != nil {
					return fmt.Errorf("harness: model has two members of oneof %s", od.FullName())
				}
				active = od.Fields().Get(j)
			}
		}
		w := m.WhichOneof(od)
		switch {
		case active == nil && w != nil:
			return fmt.Errorf("%s: WhichOneof(%s) = %s, model has no member set", path, od.Name(), w.Name())
		case active != nil && w == nil:
			return fmt.Errorf("%s: WhichOneof(%s) = nil, model has %s set (Has=%v)", path, od.Name(), active.Name(), m.Has(active))
		case active != nil && w.Number() != active.Number():
			return fmt.Errorf("%s: WhichOneof(%s) = %s, model has %s", path, od.Name(), w.Name(), active.Name())
		}
	}
	if d := model.DiffUnknownRaw(v.Unknown, m.GetUnknown()); d != "" {
		return fmt.Errorf("%s: %s", path, d)
	}
	return nil
}

func countRange(m protoreflect.Message) int {
	n := 0
	m.Range(func(protoreflect.FieldDescriptor, protoreflect.Value) bool { n++; return true })
	return n
}

// ---------------------------------------------------------------------------------------------
// generation of a legal next operation against the current model state

type GenOpts struct {
	Msg        gen.MsgOpts
	MaxDepth   int  // how deep paths may go
	NoUnknown  bool // never generate setunknown
	OnlyFields func(protoreflect.FieldDescriptor) bool
}

// paths lists all addressable submessages of the model (incl. the root as the empty path).
func paths(md protoreflect.MessageDescriptor, v *model.Msg, prefix []Step, depth int, out *[][]Step, mds *[]protoreflect.MessageDescriptor) {
	*out = append(*out, append([]Step(nil), prefix...))
	*mds = append(*mds, md)
	if depth <= 0 || v == nil {
		return
	}
	for _, f := range v.Fields {
		fd := model.FieldDesc(md, f.Num, nil)
		if fd == nil {
			continue
		}
		switch {
		case fd.IsMap():
			if sub := fd.MapValue().Message(); sub != nil {
				for i := range f.Keys {
					k := f.Keys[i]
					paths(sub, f.Vals[i].M, append(prefix, Step{Num: f.Num, Idx: -1, Key: &k}), depth-1, out, mds)
				}
			}
		case fd.IsList():
			if fd.Message() != nil {
				for i := range f.Vals {
					paths(fd.Message(), f.Vals[i].M, append(prefix, Step{Num: f.Num, Idx: i}), depth-1, out, mds)
				}
			}
		case fd.Message() != nil:
			paths(fd.Message(), f.Vals[0].M, append(prefix, Step{Num: f.Num, Idx: -1}), depth-1, out, mds)
		}
	}
}

// DrawOp draws one operation that is legal for the current model state of a message of type md.
func DrawOp(t *rapid.T, md protoreflect.MessageDescriptor, root *model.Msg, o GenOpts) Op {
	var ps [][]Step
	var mds []protoreflect.MessageDescriptor
	paths(md, root, nil, o.MaxDepth, &ps, &mds)
	pi := 0
	if len(ps) > 1 && rapid.Bool().Draw(t, "nested") {
		pi = rapid.IntRange(0, len(ps)-1).Draw(t, "path")
	}
	cmd := mds[pi]
	_, cur, _ := navModel(md, root, ps[pi])
	op := Op{Path: ps[pi]}

	var cands []protoreflect.FieldDescriptor
	fs := cmd.Fields()
	for i := 0; i < fs.Len(); i++ {
		if o.OnlyFields == nil || o.OnlyFields(fs.Get(i)) {
			if o.Msg.SkipField != nil && o.Msg.SkipField(fs.Get(i)) {
				continue
			}
			cands = append(cands, fs.Get(i))
		}
	}
	if len(cands) == 0 || (!o.NoUnknown && gen.PreservesUnknown(cmd) && rapid.IntRange(0, 14).Draw(t, "unknownop") == 0) {
		if o.NoUnknown || !gen.PreservesUnknown(cmd) {
			op.Kind = "setunknown"
			op.Raw = nil
			return op
		}
		op.Kind = "setunknown"
		if rapid.Bool().Draw(t, "someunknown") {
			op.Raw = gen.DrawUnknown(t, cmd, o.Msg)
		}
		return op
	}
	// prefer fields that are already populated half of the time (so clears / overwrites / truncates matter)
	var fd protoreflect.FieldDescriptor
	if cur != nil && len(cur.Fields) > 0 && rapid.Bool().Draw(t, "populated") {
		f := cur.Fields[rapid.IntRange(0, len(cur.Fields)-1).Draw(t, "popfield")]
		fd = cmd.Fields().ByNumber(protoreflect.FieldNumber(f.Num))
		if fd != nil && o.OnlyFields != nil && !o.OnlyFields(fd) {
			fd = nil
		}
	}
	if fd == nil {
		// shape-balanced choice
		groups := map[string][]protoreflect.FieldDescriptor{}
		var order []string
		for _, c := range cands {
			s := shape(c)
			if groups[s] == nil {
				order = append(order, s)
			}
			groups[s] = append(groups[s], c)
		}
		g := groups[order[rapid.IntRange(0, len(order)-1).Draw(t, "shape")]]
		fd = g[rapid.IntRange(0, len(g)-1).Draw(t, "field")]
	}
	op.Num = int32(fd.Number())
	var f *model.Field
	if cur != nil {
		f = cur.Get(op.Num)
	}
	mo := o.Msg
	mo.Depth = 1
	mo.MaxFields = 3
	drawVal := func(d protoreflect.FieldDescriptor) model.Val {
		if d.Message() != nil {
			return model.Val{M: gen.DrawMessage(t, d.Message(), mo)}
		}
		return gen.DrawScalarOrZero(t, d, mo)
	}
	switch {
	case fd.IsMap():
		kinds := []string{"mapset", "mapset", "mapclear", "clear", "mutable"}
		if fd.MapValue().Message() != nil {
			kinds = append(kinds, "mapmutable")
		}
		op.Kind = rapid.SampledFrom(kinds).Draw(t, "mapop")
		if op.Kind == "mapset" || op.Kind == "mapclear" || op.Kind == "mapmutable" {
			var k model.Val
			if f != nil && len(f.Keys) > 0 && rapid.Bool().Draw(t, "existingkey") {
				k = f.Keys[rapid.IntRange(0, len(f.Keys)-1).Draw(t, "keyidx")]
			} else {
				k = gen.DrawScalarOrZero(t, fd.MapKey(), mo)
			}
			op.Key = &k
		}
		if op.Kind == "mapset" {
			op.Val = drawVal(fd.MapValue())
		}
	case fd.IsList():
		kinds := []string{"append", "append", "clear", "mutable"}
		if fd.Message() != nil {
			kinds = append(kinds, "appendmutable")
		}
		if f != nil {
			kinds = append(kinds, "truncate", "listset", "truncate")
		}
		op.Kind = rapid.SampledFrom(kinds).Draw(t, "listop")
		switch op.Kind {
		case "append":
			op.Val = drawVal(fd)
		case "listset":
			op.Idx = rapid.IntRange(0, len(f.Vals)-1).Draw(t, "idx")
			op.Val = drawVal(fd)
		case "truncate":
			op.Idx = rapid.IntRange(0, len(f.Vals)).Draw(t, "newlen")
		}
	case fd.Message() != nil:
		op.Kind = rapid.SampledFrom([]string{"set", "mutable", "mutable", "clear"}).Draw(t, "msgop")
		if op.Kind == "set" {
			op.Val = drawVal(fd)
		}
	default:
		op.Kind = rapid.SampledFrom([]string{"set", "set", "set", "clear"}).Draw(t, "scalarop")
		if op.Kind == "set" {
			op.Val = drawVal(fd)
		}
	}
	return op
}

func shape(fd protoreflect.FieldDescriptor) string {
	switch {
	case fd.IsMap():
		return "map"
	case fd.ContainingOneof() != nil && !fd.ContainingOneof().IsSynthetic():
		return "oneof"
	case fd.IsList():
		return "list"
	case fd.Message() != nil:
		return "message"
	case fd.HasPresence():
		return "explicit-scalar"
	}
	return "implicit-scalar"
}

// DrawHistory draws n legal operations starting from the model state start (which is not
// modified) and returns them with the final model state.
func DrawHistory(t *rapid.T, md protoreflect.MessageDescriptor, start *model.Msg, n int, o GenOpts) ([]Op, *model.Msg) {
	cur := start.Clone()
	if cur == nil {
		cur = &model.Msg{}
	}
	var out []Op
	for i := 0; i < n; i++ {
		op := DrawOp(t, md, cur, o)
		if err := ApplyModel(md, cur, op); err != nil {
			panic(err)
		}
		out = append(out, op)
	}
	return out, cur
}
