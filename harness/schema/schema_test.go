package schema_test

import (
	"flag"
	"fmt"
	"os"
	"sort"
	"strconv"
	"strings"
	"testing"

	"google.golang.org/protobuf/proto"
	"google.golang.org/protobuf/reflect/protodesc"
	"google.golang.org/protobuf/reflect/protoreflect"
	"google.golang.org/protobuf/types/descriptorpb"
	"google.golang.org/protobuf/types/dynamicpb"
	vgen "google.golang.org/protobuf/zverif/gen"
	"google.golang.org/protobuf/zverif/model"
	"google.golang.org/protobuf/zverif/schema"
	"pgregory.net/rapid"
)

// The shake-out: every drawn set must be accepted by protodesc.NewFiles (and by schema.Build),
// at several seeds and under every option mix; a sample of the sets is instantiated through
// dynamicpb and filled by gen.DrawMessage. Prints the construct histogram.
//
//	go test ./schema -run TestShakeOut -v            (20 000 sets per seed, seeds 1..3)
//	SCHEMA_N=200000 SCHEMA_SEEDS=1,2,3,4,5 go test ./schema -run TestShakeOut -v -timeout 2h

var configs = []struct {
	name string
	o    schema.Opts
}{
	{"default", schema.Opts{}},
	{"everything", schema.Opts{WellKnown: true, Lazy: true, SourceInfo: true, Loose: true}},
	{"adversarial", schema.Opts{AdversarialNames: true, WellKnown: true}},
	{"big", schema.Opts{MaxFiles: 4, MaxMessages: 6, MaxFields: 14, MaxDepth: 4, MaxEnums: 3, MaxValues: 9, MaxOneofs: 3, MaxExtensions: 6, MaxServices: 2, MaxRanges: 6, Lazy: true}},
	{"proto2", schema.Opts{Syntaxes: []string{"proto2"}}},
	{"proto3", schema.Opts{Syntaxes: []string{"proto3"}, WellKnown: true}},
	{"editions", schema.Opts{Syntaxes: []string{"2023", "2024"}, WellKnown: true}},
	{"restricted", schema.Opts{MaxFiles: 1, NoGroups: true, NoExtensions: true, NoServices: true, NoRequired: true, NoDefaults: true, NoMaps: true, NoOptions: true}},
}

// dump writes the failing schema to a scratch file (the text is too long for the test log).
func dump(files []*descriptorpb.FileDescriptorProto) string {
	os.MkdirAll("/tmp/schema", 0o755)
	p := "/tmp/schema/last-failure.txt"
	os.WriteFile(p, []byte(strings.Join(schema.Text(files), "\n")+"\n"), 0o644)
	return p
}

func envInt(k string, d int) int {
	if v, err := strconv.Atoi(os.Getenv(k)); err == nil {
		return v
	}
	return d
}

func TestShakeOut(t *testing.T) {
	n := envInt("SCHEMA_N", 20000)
	if testing.Short() {
		n = 2000
	}
	seeds := []int{1, 2, 3}
	if s := os.Getenv("SCHEMA_SEEDS"); s != "" {
		seeds = nil
		for _, x := range strings.Split(s, ",") {
			v, _ := strconv.Atoi(x)
			seeds = append(seeds, v)
		}
	}
	hist := map[string]int{}
	total, accepted, dynMsgs := 0, 0, 0
	for _, seed := range seeds {
		for ci, cfg := range configs {
			cfg := cfg
			flag.Set("rapid.checks", strconv.Itoa(n/len(configs)+1))
			flag.Set("rapid.seed", strconv.Itoa(seed*1000+ci+1))
			flag.Set("rapid.nofailfile", "true")
			t.Run(fmt.Sprintf("seed%d/%s", seed, cfg.name), func(t *testing.T) {
				rapid.Check(t, func(rt *rapid.T) {
					files := schema.Draw(rt, cfg.o)
					total++
					// (1) the literal acceptance test: protodesc.NewFiles on the set
					if _, err := protodesc.NewFiles(schema.FileSet(files)); err != nil {
						rt.Fatalf("protodesc.NewFiles rejected a generated set: %v (schema in %s)", err, dump(files))
					}
					// (2) Build (file by file, what the checks use)
					reg, err := schema.Build(files)
					if err != nil {
						rt.Fatalf("schema.Build: %v (schema in %s)", err, dump(files))
					}
					// (3) Marshal / Unmarshal is faithful
					back, err := schema.Unmarshal(schema.Marshal(files))
					if err != nil {
						rt.Fatalf("Unmarshal: %v", err)
					}
					for i := range files {
						if !proto.Equal(files[i], back[i]) {
							rt.Fatalf("file %d changed through Marshal/Unmarshal", i)
						}
					}
					accepted++
					for _, l := range schema.Constructs(files) {
						hist[l]++
					}
					// (4) option restrictions are honoured
					checkRestrictions(rt, cfg.o, files)
					// (5) dynamicpb usability on a sample
					if total%8 == 0 {
						dynMsgs += useDynamic(rt, reg, files)
					}
				})
			})
		}
	}
	t.Logf("sets drawn %d, accepted by protodesc.NewFiles %d (%.2f%%); dynamicpb messages built and round-tripped: %d", total, accepted, 100*float64(accepted)/float64(max(total, 1)), dynMsgs)
	if accepted != total {
		t.Errorf("acceptance is not 100%%")
	}
	keys := make([]string, 0, len(hist))
	for k := range hist {
		keys = append(keys, k)
	}
	sort.Strings(keys)
	var sb strings.Builder
	for _, k := range keys {
		fmt.Fprintf(&sb, "  %-52s %7d  %5.1f%%\n", k, hist[k], 100*float64(hist[k])/float64(total))
	}
	t.Logf("construct histogram (sets containing the construct):\n%s", sb.String())
	for _, must := range mustSee {
		if hist[must] == 0 {
			t.Errorf("construct %q never generated", must)
		}
	}
}

// constructs the task statement lists; each must occur (the histogram shows how often)
var mustSee = []string{
	"syntax:proto2", "syntax:proto3", "syntax:editions:2023", "syntax:editions:2024", "multi-file", "import", "import:public", "import:option", "import:option-unresolved",
	"nested-depth>=2", "nested-depth>=3", "required", "legacy-required", "repeated", "proto3-optional", "packed:true", "packed:false", "oneof", "oneof:multi-member",
	"map", "group", "delimited", "delimited:group-like", "delimited:not-group-like", "enum:alias", "enum:negative", "enum:boundary", "enum:first-nonzero",
	"extension-range", "extension-range:to-max", "extension:file-scope", "extension:message-scope", "extension:custom-option", "reserved-range", "reserved-name",
	"enum:reserved-range", "enum:reserved-name", "default-nan", "default-inf", "default-negzero", "default-bytes-escaped", "default-long-string", "default:enum",
	"json-name", "json-name:custom", "service", "streaming:client", "streaming:server", "lazy", "source-info", "custom-option-value", "empty-options", "visibility:local",
	"kind:double", "kind:float", "kind:int64", "kind:uint64", "kind:int32", "kind:fixed64", "kind:fixed32", "kind:bool", "kind:string", "kind:group", "kind:message", "kind:bytes",
	"kind:uint32", "kind:enum", "kind:sfixed32", "kind:sfixed64", "kind:sint32", "kind:sint64",
	"map-key:string", "map-key:int32", "map-key:int64", "map-key:uint32", "map-key:uint64", "map-key:sint32", "map-key:sint64", "map-key:fixed32", "map-key:fixed64", "map-key:sfixed32", "map-key:sfixed64", "map-key:bool",
	"default:double", "default:float", "default:int64", "default:uint64", "default:int32", "default:fixed64", "default:fixed32", "default:bool", "default:string", "default:bytes",
	"default:uint32", "default:sfixed32", "default:sfixed64", "default:sint32", "default:sint64",
	"feature:file:field_presence", "feature:file:enum_type", "feature:file:repeated_field_encoding", "feature:file:utf8_validation", "feature:file:message_encoding", "feature:file:json_format",
	"feature:message:json_format", "feature:enum:enum_type", "feature:enum:json_format", "feature:field:field_presence", "feature:field:repeated_field_encoding",
	"feature:field:utf8_validation", "feature:field:message_encoding", "feature:extension:repeated_field_encoding", "feature:extension:message_encoding", "feature:extension:utf8_validation",
	"feature:oneof:enforce_naming_style", "feature:enum-value:enforce_naming_style", "feature:extension-range:enforce_naming_style", "feature:service:enforce_naming_style",
	"feature:method:enforce_naming_style", "feature:file:default_symbol_visibility", "feature:file:pb.go", "feature:message:pb.go", "feature:enum:pb.go", "feature:enum-value:pb.go",
}

func checkRestrictions(rt *rapid.T, o schema.Opts, files []*descriptorpb.FileDescriptorProto) {
	has := map[string]bool{}
	for _, l := range schema.Constructs(files) {
		has[l] = true
	}
	bad := func(cond bool, what string) {
		if cond {
			rt.Fatalf("option violated: %s (schema in %s)", what, dump(files))
		}
	}
	bad(o.MaxFiles > 0 && len(files) > o.MaxFiles, "MaxFiles")
	bad(o.NoGroups && (has["group"] || has["delimited"]), "NoGroups")
	bad(o.NoExtensions && (has["extension"] || has["extension-range"]) && !has["extension:custom-option"], "NoExtensions")
	bad(o.NoServices && has["service"], "NoServices")
	bad(o.NoRequired && (has["required"] || has["legacy-required"]), "NoRequired")
	bad(o.NoDefaults && has["default"], "NoDefaults")
	bad(o.NoMaps && has["map"], "NoMaps")
	bad(!o.Lazy && has["lazy"], "Lazy")
	bad(!o.SourceInfo && has["source-info"], "SourceInfo")
	bad(!o.WellKnown && (has["import:well-known"] || has["custom-option-value"]), "WellKnown")
	if len(o.Syntaxes) > 0 {
		allowed := map[string]bool{}
		for _, s := range o.Syntaxes {
			switch s {
			case "2023", "2024":
				allowed["syntax:editions:"+s] = true
			default:
				allowed["syntax:"+s] = true
			}
		}
		for l := range has {
			bad(strings.HasPrefix(l, "syntax:") && !allowed[l], "Syntaxes: "+l)
		}
	}
	if !o.Loose {
		for l := range has {
			bad(strings.HasPrefix(l, "loose:") || l == "empty-options", "Loose: "+l)
		}
	}
}

// useDynamic instantiates every message of the set with dynamicpb, fills it with the shared message
// generator and round-trips it through the wire format.
func useDynamic(rt *rapid.T, reg interface {
	FindFileByPath(string) (protoreflect.FileDescriptor, error)
}, files []*descriptorpb.FileDescriptorProto) int {
	r, err := schema.Build(files)
	if err != nil {
		rt.Fatalf("Build: %v", err)
	}
	types, err := schema.Types(r, files)
	if err != nil {
		rt.Fatalf("schema.Types: %v (schema in %s)", err, dump(files))
	}
	mo := vgen.DefaultMsgOpts
	mo.Resolver = types
	mo.ExtTypes = schema.ExtTypesOf(r, files)
	mo.Depth = 2
	n := 0
	for _, md := range schema.Messages(r, files) {
		mv := vgen.DrawMessage(rt, md, mo)
		m := dynamicpb.NewMessage(md)
		if err := model.Apply(m, mv, types); err != nil {
			rt.Fatalf("model.Apply on %s: %v", md.FullName(), err)
		}
		b, err := proto.MarshalOptions{AllowPartial: true}.Marshal(m)
		if err != nil {
			rt.Fatalf("Marshal %s: %v", md.FullName(), err)
		}
		m2 := dynamicpb.NewMessage(md)
		if err := (proto.UnmarshalOptions{AllowPartial: true, Resolver: types}).Unmarshal(b, m2); err != nil {
			rt.Fatalf("Unmarshal %s: %v", md.FullName(), err)
		}
		if d := model.Diff(md, mv, model.Snapshot(m2), model.EqualOpts{BitwiseFloats: true}, types); d != "" {
			rt.Fatalf("dynamicpb round trip of %s differs: %s (schema in %s)", md.FullName(), d, dump(files))
		}
		n++
	}
	return n
}

// The generator's idea of where each feature may be set must be descriptor.proto's.
func TestFeatureTargetsMatchDescriptorProto(t *testing.T) {
	want := map[string][]string{
		"field_presence":            {"TARGET_TYPE_FIELD", "TARGET_TYPE_FILE"},
		"enum_type":                 {"TARGET_TYPE_ENUM", "TARGET_TYPE_FILE"},
		"repeated_field_encoding":   {"TARGET_TYPE_FIELD", "TARGET_TYPE_FILE"},
		"utf8_validation":           {"TARGET_TYPE_FIELD", "TARGET_TYPE_FILE"},
		"message_encoding":          {"TARGET_TYPE_FIELD", "TARGET_TYPE_FILE"},
		"json_format":               {"TARGET_TYPE_MESSAGE", "TARGET_TYPE_ENUM", "TARGET_TYPE_FILE"},
		"enforce_naming_style":      {"TARGET_TYPE_FILE", "TARGET_TYPE_EXTENSION_RANGE", "TARGET_TYPE_MESSAGE", "TARGET_TYPE_FIELD", "TARGET_TYPE_ONEOF", "TARGET_TYPE_ENUM", "TARGET_TYPE_ENUM_ENTRY", "TARGET_TYPE_SERVICE", "TARGET_TYPE_METHOD"},
		"default_symbol_visibility": {"TARGET_TYPE_FILE"},
	}
	fs := (&descriptorpb.FeatureSet{}).ProtoReflect().Descriptor().Fields()
	for i := 0; i < fs.Len(); i++ {
		f := fs.Get(i)
		var got []string
		for _, tt := range f.Options().(*descriptorpb.FieldOptions).GetTargets() {
			got = append(got, tt.String())
		}
		if fmt.Sprint(got) != fmt.Sprint(want[string(f.Name())]) {
			t.Errorf("feature %s: descriptor.proto targets %v, generator assumes %v", f.Name(), got, want[string(f.Name())])
		}
	}
}
