package schema

import (
	"fmt"
	"math"

	"google.golang.org/protobuf/proto"
	"google.golang.org/protobuf/types/descriptorpb"
	"pgregory.net/rapid"
)

type (
	fdp  = descriptorpb.FileDescriptorProto
	dp   = descriptorpb.DescriptorProto
	fldp = descriptorpb.FieldDescriptorProto
	edp  = descriptorpb.EnumDescriptorProto
	fset = descriptorpb.FeatureSet
)

// feats are the resolved editions features the generator needs to stay valid.
type feats struct {
	implicit  bool // field_presence = IMPLICIT
	enumOpen  bool
	packed    bool
	utf8      bool
	delimited bool
	jsonAllow bool
}

type fileCtx struct {
	idx      int
	fd       *fdp
	syntax   string // proto2 | proto3 | editions
	edition  descriptorpb.Edition
	ft       feats
	pkg      string
	deps     []*fileCtx
	public   map[*fileCtx]bool
	visible  []*fileCtx // files whose symbols may be referenced (self first)
	msgs     []*msgSym  // every skeleton message of the file (pre-order)
	enums    []*enumSym
	jsonMode int // 0: never json_name; 1: some explicit; 2: every field, protoc style
	wkDesc   bool // imports descriptor.proto
	wkTypes  bool // imports the well-known message types
	wkGo     bool // imports go_features.proto
	opts     []*customOpt
}

type customOpt struct {
	target string // "File", "Message", "Field", "Enum", "EnumValue", "Oneof", "Service", "Method", "ExtensionRange"
	num    int32
	kind   descriptorpb.FieldDescriptorProto_Type // int32, bool, string or message (a descriptor.proto message)
}

type msgSym struct {
	file     *fileCtx
	full     string // full name without the leading dot
	dp       *dp
	parent   *msgSym
	depth    int
	order    int // creation order over the whole set; group messages: maxInt
	reqBound int // required message fields declared here may only target messages with order < reqBound
	ranges   [][2]int32 // extension ranges [start,end)
	taken    [][2]int32 // reserved + extension ranges
	usedNums map[int32]bool
	extUsed  map[int32]bool
	sc       *scope
	jsonFree bool // JSON name conflicts are legal here (proto2, or json_format = LEGACY_BEST_EFFORT)
	jsonUsed map[string]bool
	lcUsed   map[string]bool
	wellKnown bool
	next      int32 // field number allocated for the field being drawn
}

type enumSym struct {
	file   *fileCtx
	full   string
	closed bool
	zero   bool // first value is 0
	names  []string
}

type gen struct {
	t        *rapid.T
	o        Opts
	files    []*fileCtx
	scopes   map[string]*scope
	order    int
	wkMsgs   []*msgSym
	wkOption map[string]*msgSym
}

func (g *gen) n(lo, hi int, label string) int {
	if hi < lo {
		hi = lo
	}
	return rapid.IntRange(lo, hi).Draw(g.t, label)
}

// repeat runs body between min and max times. It is built on rapid.SliceOfN over a rapid.Custom
// element so that the shrinker can delete a single iteration (a whole message, field, enum value …)
// instead of having to lower a count drawn up front, which would re-interpret everything after it.
func (g *gen) repeat(label string, min, max int, body func(i int)) {
	if max < min {
		max = min
	}
	i := 0
	elem := rapid.Custom(func(t *rapid.T) struct{} {
		old := g.t
		g.t = t
		defer func() { g.t = old }()
		rapid.Bool().Draw(t, "-") // an element must consume data even when body draws nothing
		body(i)
		i++
		return struct{}{}
	})
	rapid.SliceOfN(elem, min, max).Draw(g.t, label)
}

// chance is true with probability 1/den and false at the minimal draw (so shrinking removes the construct).
func (g *gen) chance(den int, label string) bool {
	return rapid.IntRange(0, den-1).Draw(g.t, label) == den-1
}

// weighted returns an index; index 0 is the one shrinking converges to.
func (g *gen) weighted(label string, w ...int) int {
	sum := 0
	for _, x := range w {
		sum += x
	}
	v := rapid.IntRange(0, sum-1).Draw(g.t, label)
	for i, x := range w {
		if v < x {
			return i
		}
		v -= x
	}
	return len(w) - 1
}

func pick[T any](g *gen, xs []T, label string) T {
	return xs[g.n(0, len(xs)-1, label)]
}

func (f *fileCtx) editions() bool { return f.syntax == "editions" }
func (f *fileCtx) is2024() bool {
	return f.editions() && f.edition >= descriptorpb.Edition_EDITION_2024
}

func (g *gen) vocab(normal, adv []string) []string {
	if g.o.AdversarialNames {
		return adv
	}
	return normal
}

// ---------------------------------------------------------------------------------------------

func (g *gen) run() []*fdp {
	if g.o.WellKnown {
		g.initWellKnown()
	}
	g.repeat("files", 1, g.o.MaxFiles, func(i int) { g.fileSkeleton(i) })
	for _, f := range g.files {
		g.fillFile(f)
	}
	out := make([]*fdp, len(g.files))
	for i, f := range g.files {
		out[i] = f.fd
	}
	return out
}

func (g *gen) fileSkeleton(i int) {
	f := &fileCtx{idx: i, public: map[*fileCtx]bool{}}
	g.files = append(g.files, f)
	dir := pick(g, []string{"", "dir/", "a/b/"}, "dir")
	f.fd = &fdp{Name: proto.String(fmt.Sprintf("%sf%d.proto", dir, i))}
	switch s := pick(g, g.o.Syntaxes, "syntax"); s {
	case "proto2":
		f.syntax = "proto2"
		f.ft = feats{}
		if g.o.Loose && g.chance(2, "syntax-written") {
			f.fd.Syntax = proto.String("proto2")
		}
	case "proto3":
		f.syntax = "proto3"
		f.ft = feats{implicit: true, enumOpen: true, packed: true, utf8: true, jsonAllow: true}
		f.fd.Syntax = proto.String("proto3")
	case "2023", "2024":
		f.syntax = "editions"
		f.edition = descriptorpb.Edition_EDITION_2023
		if s == "2024" {
			f.edition = descriptorpb.Edition_EDITION_2024
		}
		f.ft = feats{enumOpen: true, packed: true, utf8: true, jsonAllow: true}
		f.fd.Syntax = proto.String("editions")
		f.fd.Edition = f.edition.Enum()
	default:
		panic("schema: unknown syntax " + s)
	}
	f.pkg = pick(g, packages, "package")
	if f.pkg != "" {
		f.fd.Package = proto.String(f.pkg)
	}
	f.jsonMode = g.weighted("jsonmode", 3, 2, 1)

	// imports
	for _, d := range g.files[:i] {
		if g.weighted("import?", 1, 1) == 1 {
			f.deps = append(f.deps, d)
			f.fd.Dependency = append(f.fd.Dependency, d.fd.GetName())
			if g.chance(3, "public") {
				f.public[d] = true
				f.fd.PublicDependency = append(f.fd.PublicDependency, int32(len(f.fd.Dependency)-1))
			}
		}
	}
	if g.o.WellKnown {
		if g.chance(2, "wk-types") {
			f.wkTypes = true
			for _, p := range wellKnownTypeFiles {
				f.fd.Dependency = append(f.fd.Dependency, p)
			}
		}
		if g.chance(2, "wk-desc") {
			f.wkDesc = true
			f.fd.Dependency = append(f.fd.Dependency, "google/protobuf/descriptor.proto")
		}
		if f.editions() && g.chance(2, "wk-go") {
			f.wkGo = true
			f.fd.Dependency = append(f.fd.Dependency, "google/protobuf/go_features.proto")
		}
	}
	// visibility of symbols: self, direct imports, and what those import publicly (transitively)
	seen := map[*fileCtx]bool{f: true}
	f.visible = []*fileCtx{f}
	var addPublic func(d *fileCtx)
	addPublic = func(d *fileCtx) {
		if seen[d] {
			return
		}
		seen[d] = true
		f.visible = append(f.visible, d)
		for _, dd := range d.deps {
			if d.public[dd] {
				addPublic(dd)
			}
		}
	}
	for _, d := range f.deps {
		addPublic(d)
	}
	// edition 2024 option imports
	if f.is2024() && g.chance(2, "option-import") {
		// candidates: any earlier file whose symbols are not visible here (schema.Build builds files in
		// slice order, so it resolves; protodesc.NewFiles resolves it or leaves a placeholder depending on
		// its build order, and accepts the file either way), or a path that exists nowhere
		var cands []string
		for _, d := range g.files[:i] {
			if !seen[d] {
				cands = append(cands, d.fd.GetName())
			}
		}
		cands = append(cands, fmt.Sprintf("opt/unresolved%d.proto", i))
		f.fd.OptionDependency = append(f.fd.OptionDependency, pick(g, cands, "option-dep"))
	}

	g.planCustomOptions(f)
	g.fileOptions(f)

	sc := g.scope(f.pkg)
	// enums first (complete), then message skeletons
	g.repeat("file-enums", 0, g.o.MaxEnums, func(k int) {
		f.fd.EnumType = append(f.fd.EnumType, g.enum(f, sc, f.pkg, nil))
	})
	g.repeat("file-msgs", 0, g.o.MaxMessages, func(k int) {
		f.fd.MessageType = append(f.fd.MessageType, g.msgSkeleton(f, sc, f.pkg, nil).dp)
	})
}

func join(prefix, name string) string {
	if prefix == "" {
		return name
	}
	return prefix + "." + name
}

// ---------------------------------------------------------------------------------------------
// options and features

func (g *gen) fileOptions(f *fileCtx) {
	var o *descriptorpb.FileOptions
	get := func() *descriptorpb.FileOptions {
		if o == nil {
			o = &descriptorpb.FileOptions{}
		}
		return o
	}
	if !g.o.NoOptions {
		if g.chance(3, "go_package") {
			get().GoPackage = proto.String(fmt.Sprintf("example.com/gen/f%d;f%dpb", f.idx, f.idx))
		}
		if g.chance(5, "java") {
			get().JavaPackage = proto.String("com.example")
			get().JavaMultipleFiles = proto.Bool(true)
		}
		if g.chance(6, "optimize") {
			get().OptimizeFor = pick(g, []descriptorpb.FileOptions_OptimizeMode{descriptorpb.FileOptions_SPEED, descriptorpb.FileOptions_CODE_SIZE, descriptorpb.FileOptions_LITE_RUNTIME}, "mode").Enum()
		}
		if g.chance(8, "file-deprecated") {
			get().Deprecated = proto.Bool(true)
		}
		if g.chance(8, "arenas") {
			get().CcEnableArenas = proto.Bool(g.chance(2, "v"))
		}
	}
	if f.editions() {
		fs := &fset{}
		set := false
		if g.chance(3, "f-presence") {
			f.ft.implicit = g.chance(2, "implicit")
			fs.FieldPresence = descriptorpb.FeatureSet_EXPLICIT.Enum()
			if f.ft.implicit {
				fs.FieldPresence = descriptorpb.FeatureSet_IMPLICIT.Enum()
			}
			set = true
		}
		if g.chance(3, "f-enum") {
			f.ft.enumOpen = !g.chance(2, "closed")
			fs.EnumType = descriptorpb.FeatureSet_OPEN.Enum()
			if !f.ft.enumOpen {
				fs.EnumType = descriptorpb.FeatureSet_CLOSED.Enum()
			}
			set = true
		}
		if g.chance(3, "f-packed") {
			f.ft.packed = !g.chance(2, "expanded")
			fs.RepeatedFieldEncoding = descriptorpb.FeatureSet_PACKED.Enum()
			if !f.ft.packed {
				fs.RepeatedFieldEncoding = descriptorpb.FeatureSet_EXPANDED.Enum()
			}
			set = true
		}
		if g.chance(3, "f-utf8") {
			f.ft.utf8 = !g.chance(2, "none")
			fs.Utf8Validation = descriptorpb.FeatureSet_VERIFY.Enum()
			if !f.ft.utf8 {
				fs.Utf8Validation = descriptorpb.FeatureSet_NONE.Enum()
			}
			set = true
		}
		if !g.o.NoGroups && g.chance(4, "f-delimited") {
			f.ft.delimited = g.chance(2, "delimited")
			fs.MessageEncoding = descriptorpb.FeatureSet_LENGTH_PREFIXED.Enum()
			if f.ft.delimited {
				fs.MessageEncoding = descriptorpb.FeatureSet_DELIMITED.Enum()
			}
			set = true
		}
		if g.chance(3, "f-json") {
			f.ft.jsonAllow = !g.chance(2, "legacy")
			fs.JsonFormat = descriptorpb.FeatureSet_ALLOW.Enum()
			if !f.ft.jsonAllow {
				fs.JsonFormat = descriptorpb.FeatureSet_LEGACY_BEST_EFFORT.Enum()
			}
			set = true
		}
		if f.is2024() {
			// generated names do not follow STYLE2024, so a protoc-valid 2024 file says so
			fs.EnforceNamingStyle = descriptorpb.FeatureSet_STYLE_LEGACY.Enum()
			set = true
			if g.chance(3, "f-visibility") {
				fs.DefaultSymbolVisibility = pick(g, []descriptorpb.FeatureSet_VisibilityFeature_DefaultSymbolVisibility{
					descriptorpb.FeatureSet_VisibilityFeature_EXPORT_ALL, descriptorpb.FeatureSet_VisibilityFeature_EXPORT_TOP_LEVEL,
					descriptorpb.FeatureSet_VisibilityFeature_LOCAL_ALL, descriptorpb.FeatureSet_VisibilityFeature_STRICT}, "vis").Enum()
			}
		}
		if f.wkGo && g.chance(2, "f-go") {
			g.goFeatures(f, fs, "File")
			set = true
		}
		if set {
			get().Features = fs
		}
	}
	if o == nil && g.o.Loose && g.chance(10, "empty-file-options") {
		o = &descriptorpb.FileOptions{}
	}
	o = customize(g, f, "File", o)
	f.fd.Options = o
}

// namingStyle returns a FeatureSet with enforce_naming_style for the declarations where that is
// the only settable feature (edition 2024), or nil.
func (g *gen) namingStyle(f *fileCtx, label string) *fset {
	if !f.is2024() || !g.chance(8, label) {
		return nil
	}
	return &fset{EnforceNamingStyle: pick(g, []descriptorpb.FeatureSet_EnforceNamingStyle{descriptorpb.FeatureSet_STYLE_LEGACY, descriptorpb.FeatureSet_STYLE2024}, "style").Enum()}
}

// ---------------------------------------------------------------------------------------------
// enums

var enumNumbers = []int32{1, 2, 3, -1, 5, 10, 127, 128, -128, 1000, math.MaxInt32, math.MinInt32, math.MaxInt32 - 1, math.MinInt32 + 1, 1 << 16, -(1 << 20)}

func (g *gen) enum(f *fileCtx, sc *scope, prefix string, parent *msgSym) *edp {
	name := g.freshName(sc, g.vocab(enumNames, enumNamesAdv), "enum-name", nil)
	sc.take(name)
	e := &edp{Name: proto.String(name)}
	sym := &enumSym{file: f, full: join(prefix, name)}
	sym.closed = !f.ft.enumOpen
	var opts *descriptorpb.EnumOptions
	getOpts := func() *descriptorpb.EnumOptions {
		if opts == nil {
			opts = &descriptorpb.EnumOptions{}
		}
		return opts
	}
	if f.editions() {
		fs := &fset{}
		set := false
		if g.chance(3, "e-enum-type") {
			sym.closed = g.chance(2, "closed")
			fs.EnumType = descriptorpb.FeatureSet_OPEN.Enum()
			if sym.closed {
				fs.EnumType = descriptorpb.FeatureSet_CLOSED.Enum()
			}
			set = true
		}
		if g.chance(6, "e-json") {
			fs.JsonFormat = pick(g, []descriptorpb.FeatureSet_JsonFormat{descriptorpb.FeatureSet_ALLOW, descriptorpb.FeatureSet_LEGACY_BEST_EFFORT}, "v").Enum()
			set = true
		}
		if ns := g.namingStyle(f, "e-style"); ns != nil {
			fs.EnforceNamingStyle = ns.EnforceNamingStyle
			set = true
		}
		if f.wkGo && g.chance(4, "e-go") {
			g.goFeatures(f, fs, "Enum")
			set = true
		}
		if set {
			getOpts().Features = fs
		}
	}
	// values
	usedNum := map[int32]bool{}
	keys := map[string]int32{}
	var nums []int32
	alias := false
	g.repeat("values", 1, g.o.MaxValues, func(i int) {
		var num int32
		switch {
		case i == 0:
			// open enums (and most closed ones) start at zero
			if sym.closed && g.chance(4, "first-nonzero") {
				num = pick(g, enumNumbers, "first-number")
			}
		case g.chance(6, "alias"):
			num = nums[g.n(0, len(nums)-1, "alias-of")]
			alias = true
		default:
			num = int32(i)
			if g.chance(3, "odd-number") {
				num = pick(g, enumNumbers, "enum-number")
			}
			for usedNum[num] {
				if num == math.MaxInt32 {
					num = 0
				}
				num++
			}
		}
		// name: stems, with or without the enum name as prefix; unique in the enclosing scope and under
		// protoc's prefix-stripping conflict rule
		stemVocab := g.vocab(valueStems, valueStemsAdv)
		var vname string
		for try := 0; ; try++ {
			stem := stemVocab[g.n(0, len(stemVocab)-1, "value-stem")]
			switch g.weighted("value-form", 2, 2, 1) {
			case 0:
				vname = upperSnake(name) + "_" + stem
			case 1:
				vname = stem
			default:
				vname = name + "_" + stem
			}
			if try > 3 {
				vname = fmt.Sprintf("%s_%d", vname, try)
			}
			if !isIdent(vname) {
				continue
			}
			k := enumValueKey(name, vname)
			if prev, dup := keys[k]; sc.free(vname) && (!dup || prev == num) {
				keys[k] = num
				break
			}
		}
		sc.take(vname)
		usedNum[num] = true
		nums = append(nums, num)
		sym.names = append(sym.names, vname)
		v := &descriptorpb.EnumValueDescriptorProto{Name: proto.String(vname), Number: proto.Int32(num)}
		var vo *descriptorpb.EnumValueOptions
		if !g.o.NoOptions && g.chance(10, "value-deprecated") {
			vo = &descriptorpb.EnumValueOptions{Deprecated: proto.Bool(true)}
		}
		if ns := g.namingStyle(f, "v-style"); ns != nil {
			if vo == nil {
				vo = &descriptorpb.EnumValueOptions{}
			}
			vo.Features = ns
		}
		if f.wkGo && f.is2024() && g.chance(8, "v-go") {
			if vo == nil {
				vo = &descriptorpb.EnumValueOptions{}
			}
			if vo.Features == nil {
				vo.Features = &fset{}
			}
			g.goFeatures(f, vo.Features, "EnumEntry")
		}
		vo = customize(g, f, "EnumValue", vo)
		if vo == nil && g.o.Loose && g.chance(20, "empty-value-options") {
			vo = &descriptorpb.EnumValueOptions{}
		}
		v.Options = vo
		e.Value = append(e.Value, v)
	})
	sym.zero = nums[0] == 0
	if alias {
		getOpts().AllowAlias = proto.Bool(true)
	}
	if !g.o.NoOptions && g.chance(10, "enum-deprecated") {
		getOpts().Deprecated = proto.Bool(true)
	}
	// reserved ranges (inclusive) and names
	g.repeat("enum-reserved", 0, g.o.MaxRanges, func(k int) {
		lo := int64(pick(g, []int32{math.MinInt32, -100, -5, 4, 20, 200, 5000, math.MaxInt32 - 10, math.MaxInt32}, "lo"))
		hi := lo + int64(pick(g, []int32{0, 0, 1, 5, 100}, "len"))
		if hi > math.MaxInt32 {
			hi = math.MaxInt32
		}
		ok := true
		for _, x := range nums {
			if int64(x) >= lo && int64(x) <= hi {
				ok = false
			}
		}
		for _, r := range e.ReservedRange {
			if !(hi < int64(r.GetStart()) || int64(r.GetEnd()) < lo) {
				ok = false
			}
		}
		if ok {
			e.ReservedRange = append(e.ReservedRange, &descriptorpb.EnumDescriptorProto_EnumReservedRange{Start: proto.Int32(int32(lo)), End: proto.Int32(int32(hi))})
		}
	})
	if g.chance(6, "enum-reserved-names") {
		g.repeat("n", 1, 2, func(k int) {
			rn := fmt.Sprintf("RESERVED_%d", k)
			if sc.free(rn) {
				e.ReservedName = append(e.ReservedName, rn)
			}
		})
	}
	if f.is2024() && g.chance(5, "enum-visibility") {
		e.Visibility = pick(g, []descriptorpb.SymbolVisibility{descriptorpb.SymbolVisibility_VISIBILITY_LOCAL, descriptorpb.SymbolVisibility_VISIBILITY_EXPORT}, "v").Enum()
	}
	opts = customize(g, f, "Enum", opts)
	if opts == nil && g.o.Loose && g.chance(15, "empty-enum-options") {
		opts = &descriptorpb.EnumOptions{}
	}
	e.Options = opts
	f.enums = append(f.enums, sym)
	return e
}

func upperSnake(s string) string {
	var b []byte
	for i := 0; i < len(s); i++ {
		c := s[i]
		if 'A' <= c && c <= 'Z' && i > 0 && 'a' <= s[i-1] && s[i-1] <= 'z' {
			b = append(b, '_')
		}
		if 'a' <= c && c <= 'z' {
			c -= 'a' - 'A'
		}
		b = append(b, c)
	}
	return string(b)
}
