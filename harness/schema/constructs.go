package schema

import (
	"sort"
	"strings"

	"google.golang.org/protobuf/proto"
	"google.golang.org/protobuf/types/descriptorpb"
	"google.golang.org/protobuf/types/gofeaturespb"
)

// Constructs classifies a schema set by reading the descriptor protos only (not the generator's
// bookkeeping): the sorted set of construct labels present. Used for the shake-out histogram, for
// class distributions in evidence and for non-triviality rules.
func Constructs(files []*descriptorpb.FileDescriptorProto) []string {
	set := map[string]bool{}
	if len(files) > 1 {
		set["multi-file"] = true
	}
	pkgs := map[string]int{}
	for _, f := range files {
		pkgs[f.GetPackage()]++
		c := &classifier{set: set, file: f}
		c.doFile()
	}
	for _, n := range pkgs {
		if n > 1 {
			set["shared-package"] = true
		}
	}
	out := make([]string, 0, len(set))
	for k := range set {
		out = append(out, k)
	}
	sort.Strings(out)
	return out
}

// Rich reports the C34/C37 non-triviality rule: at least 3 of {extension, map, oneof, proto3
// optional, explicit default, editions override, nesting depth >= 2, import}.
func Rich(labels []string) bool {
	n := 0
	has := func(prefixes ...string) {
		for _, l := range labels {
			for _, p := range prefixes {
				if l == p || strings.HasPrefix(l, p+":") {
					n++
					return
				}
			}
		}
	}
	has("extension")
	has("map")
	has("oneof")
	has("proto3-optional")
	has("default")
	has("feature")
	has("nested-depth>=2")
	has("import")
	return n >= 3
}

type classifier struct {
	set  map[string]bool
	file *descriptorpb.FileDescriptorProto
}

func (c *classifier) add(l string) { c.set[l] = true }

func (c *classifier) features(level string, fs *descriptorpb.FeatureSet) {
	if fs == nil {
		return
	}
	if fs.FieldPresence != nil {
		c.add("feature:" + level + ":field_presence")
		if fs.GetFieldPresence() == descriptorpb.FeatureSet_LEGACY_REQUIRED {
			c.add("legacy-required")
		}
		if fs.GetFieldPresence() == descriptorpb.FeatureSet_IMPLICIT {
			c.add("implicit-presence")
		}
	}
	if fs.EnumType != nil {
		c.add("feature:" + level + ":enum_type")
	}
	if fs.RepeatedFieldEncoding != nil {
		c.add("feature:" + level + ":repeated_field_encoding")
	}
	if fs.Utf8Validation != nil {
		c.add("feature:" + level + ":utf8_validation")
	}
	if fs.MessageEncoding != nil {
		c.add("feature:" + level + ":message_encoding")
		if fs.GetMessageEncoding() == descriptorpb.FeatureSet_DELIMITED {
			c.add("delimited")
		}
	}
	if fs.JsonFormat != nil {
		c.add("feature:" + level + ":json_format")
	}
	if fs.EnforceNamingStyle != nil {
		c.add("feature:" + level + ":enforce_naming_style")
	}
	if fs.DefaultSymbolVisibility != nil {
		c.add("feature:" + level + ":default_symbol_visibility")
	}
	if proto.HasExtension(fs, gofeaturespb.E_Go) {
		c.add("feature:" + level + ":pb.go")
	}
}

func unknownOpt(m proto.Message) bool {
	return m.ProtoReflect().IsValid() && len(m.ProtoReflect().GetUnknown()) > 0
}

func (c *classifier) opts(m proto.Message) {
	if !m.ProtoReflect().IsValid() {
		return
	}
	if proto.Size(m) == 0 {
		c.add("empty-options")
	}
	if unknownOpt(m) {
		c.add("custom-option-value")
	}
}

func (c *classifier) doFile() {
	f := c.file
	switch f.GetSyntax() {
	case "", "proto2":
		c.add("syntax:proto2")
		if f.Syntax != nil {
			c.add("loose:syntax-proto2-written")
		}
	case "proto3":
		c.add("syntax:proto3")
	case "editions":
		c.add("syntax:editions:" + strings.TrimPrefix(f.GetEdition().String(), "EDITION_"))
	}
	if f.GetPackage() == "" {
		c.add("package:empty")
	} else if strings.Contains(f.GetPackage(), ".") {
		c.add("package:nested")
	}
	for _, d := range f.GetDependency() {
		if strings.HasPrefix(d, "google/protobuf/") {
			c.add("import:well-known")
		} else {
			c.add("import")
		}
	}
	if len(f.GetPublicDependency()) > 0 {
		c.add("import:public")
	}
	for _, d := range f.GetOptionDependency() {
		if strings.HasPrefix(d, "opt/unresolved") {
			c.add("import:option-unresolved")
		} else {
			c.add("import:option")
		}
	}
	if f.Options != nil {
		c.add("options:file")
		c.opts(f.Options)
		c.features("file", f.Options.Features)
	}
	if f.SourceCodeInfo != nil {
		c.add("source-info")
		for _, l := range f.SourceCodeInfo.Location {
			if len(l.Span) == 4 {
				c.add("source-info:span4")
				if l.Span[0] == l.Span[2] {
					c.add("loose:span4-one-line")
				}
			}
			if l.LeadingComments != nil || l.TrailingComments != nil || len(l.LeadingDetachedComments) > 0 {
				c.add("source-info:comments")
			}
		}
	}
	for _, m := range f.MessageType {
		c.doMessage(m, 1)
	}
	for _, e := range f.EnumType {
		c.doEnum(e)
	}
	for _, x := range f.Extension {
		c.add("extension:file-scope")
		c.doField(x, nil, true)
	}
	for _, s := range f.Service {
		c.add("service")
		if s.Options != nil {
			c.add("options:service")
			c.opts(s.Options)
			c.features("service", s.Options.Features)
		}
		for _, m := range s.Method {
			c.add("method")
			if m.GetClientStreaming() {
				c.add("streaming:client")
			}
			if m.GetServerStreaming() {
				c.add("streaming:server")
			}
			if m.Options != nil {
				c.add("options:method")
				c.opts(m.Options)
				c.features("method", m.Options.Features)
			}
		}
	}
}

func (c *classifier) doMessage(m *descriptorpb.DescriptorProto, depth int) {
	c.add("message")
	if depth >= 2 {
		c.add("nested-depth>=2")
	}
	if depth >= 3 {
		c.add("nested-depth>=3")
	}
	if len(m.Field) == 0 {
		c.add("message:empty")
	}
	if m.Options != nil {
		if !m.Options.GetMapEntry() {
			c.add("options:message")
		}
		c.opts(m.Options)
		c.features("message", m.Options.Features)
	}
	if m.Visibility != nil {
		c.add("visibility:" + strings.ToLower(strings.TrimPrefix(m.GetVisibility().String(), "VISIBILITY_")))
	}
	real := map[int32]int{}
	for _, f := range m.Field {
		if f.OneofIndex != nil && !f.GetProto3Optional() {
			real[f.GetOneofIndex()]++
		}
	}
	for i, o := range m.OneofDecl {
		if real[int32(i)] > 0 {
			c.add("oneof")
			if real[int32(i)] > 1 {
				c.add("oneof:multi-member")
			}
		}
		if o.Options != nil {
			c.add("options:oneof")
			c.opts(o.Options)
			c.features("oneof", o.Options.Features)
		}
	}
	for _, f := range m.Field {
		c.doField(f, m, false)
	}
	for _, x := range m.Extension {
		c.add("extension:message-scope")
		c.doField(x, m, true)
	}
	for _, r := range m.ExtensionRange {
		c.add("extension-range")
		if r.GetEnd() == maxFieldNumber+1 {
			c.add("extension-range:to-max")
		}
		if r.Options != nil {
			c.add("options:extension-range")
			c.opts(r.Options)
			c.features("extension-range", r.Options.Features)
		}
	}
	for _, r := range m.ReservedRange {
		c.add("reserved-range")
		if r.GetEnd() == maxFieldNumber+1 {
			c.add("reserved-range:to-max")
		}
	}
	if len(m.ReservedName) > 0 {
		c.add("reserved-name")
	}
	for _, e := range m.EnumType {
		c.add("enum:nested")
		c.doEnum(e)
	}
	for _, n := range m.NestedType {
		c.doMessage(n, depth+1)
	}
}

func (c *classifier) doField(f *descriptorpb.FieldDescriptorProto, m *descriptorpb.DescriptorProto, ext bool) {
	kind := strings.ToLower(strings.TrimPrefix(f.GetType().String(), "TYPE_"))
	if ext {
		c.add("extension")
		c.add("extension-kind:" + kind)
		if strings.HasPrefix(f.GetExtendee(), ".google.protobuf.") {
			c.add("extension:custom-option")
		}
	} else {
		c.add("kind:" + kind)
	}
	switch f.GetLabel() {
	case descriptorpb.FieldDescriptorProto_LABEL_REQUIRED:
		c.add("required")
	case descriptorpb.FieldDescriptorProto_LABEL_REPEATED:
		c.add("repeated")
	}
	if f.GetProto3Optional() {
		c.add("proto3-optional")
	}
	if f.GetType() == descriptorpb.FieldDescriptorProto_TYPE_GROUP {
		c.add("group")
	}
	if f.JsonName != nil {
		c.add("json-name")
		if f.GetJsonName() != jsonCamel(f.GetName()) {
			c.add("json-name:custom")
		}
	}
	if f.DefaultValue != nil {
		c.add("default")
		c.add("default:" + kind)
		switch v := f.GetDefaultValue(); {
		case kind == "float" || kind == "double":
			switch v {
			case "nan":
				c.add("default-nan")
			case "inf", "-inf":
				c.add("default-inf")
			case "-0":
				c.add("default-negzero")
			}
		case kind == "bytes" && strings.Contains(v, "\\"):
			c.add("default-bytes-escaped")
		case kind == "string" && len(v) >= 100:
			c.add("default-long-string")
		case kind == "string" && v == "":
			c.add("default-empty-string")
		}
	}
	if m != nil && !ext && f.GetType() == descriptorpb.FieldDescriptorProto_TYPE_MESSAGE && f.GetLabel() == descriptorpb.FieldDescriptorProto_LABEL_REPEATED {
		for _, n := range m.NestedType {
			if n.GetOptions().GetMapEntry() && strings.HasSuffix(f.GetTypeName(), "."+n.GetName()) && n.GetName() == mapEntryName(f.GetName()) {
				c.add("map")
				c.add("map-key:" + strings.ToLower(strings.TrimPrefix(n.Field[0].GetType().String(), "TYPE_")))
				c.add("map-value:" + strings.ToLower(strings.TrimPrefix(n.Field[1].GetType().String(), "TYPE_")))
			}
		}
	}
	if strings.HasPrefix(f.GetTypeName(), ".google.protobuf.") {
		c.add("well-known-field")
	}
	if o := f.Options; o != nil {
		c.add("options:field")
		c.opts(o)
		if o.Packed != nil {
			if o.GetPacked() {
				c.add("packed:true")
			} else {
				c.add("packed:false")
			}
		}
		if o.GetLazy() {
			c.add("lazy")
			if ext {
				c.add("lazy:extension")
			}
		}
		level := "field"
		if ext {
			level = "extension"
		}
		c.features(level, o.Features)
		if o.Features.GetMessageEncoding() == descriptorpb.FeatureSet_DELIMITED && m != nil {
			like := false
			for _, n := range m.NestedType {
				if strings.ToLower(n.GetName()) == f.GetName() && strings.HasSuffix(f.GetTypeName(), "."+n.GetName()) {
					like = true
				}
			}
			if like {
				c.add("delimited:group-like")
			} else {
				c.add("delimited:not-group-like")
			}
		}
	}
}

func (c *classifier) doEnum(e *descriptorpb.EnumDescriptorProto) {
	c.add("enum")
	if e.Options != nil {
		c.add("options:enum")
		c.opts(e.Options)
		c.features("enum", e.Options.Features)
		if e.Options.GetAllowAlias() {
			c.add("enum:alias")
		}
	}
	if e.Visibility != nil {
		c.add("visibility:enum")
	}
	if len(e.Value) > 0 && e.Value[0].GetNumber() != 0 {
		c.add("enum:first-nonzero")
	}
	for _, v := range e.Value {
		n := v.GetNumber()
		if n < 0 {
			c.add("enum:negative")
		}
		if n == 1<<31-1 || n == -1<<31 {
			c.add("enum:boundary")
		}
		if v.Options != nil {
			c.add("options:enum-value")
			c.opts(v.Options)
			c.features("enum-value", v.Options.Features)
		}
	}
	if len(e.ReservedRange) > 0 {
		c.add("enum:reserved-range")
	}
	if len(e.ReservedName) > 0 {
		c.add("enum:reserved-name")
	}
}
