package schema

import (
	"fmt"
	"math"
	"strconv"

	"google.golang.org/protobuf/types/descriptorpb"
	vgen "google.golang.org/protobuf/zverif/gen"
)

// The two float32 patterns whose shortest decimal text does not survive a parse at 64 bits followed
// by narrowing (DESIGN.md §7, properties C24 / C39). They are C39's subject; the schema generator
// leaves them out so that descriptor-level properties are not tripped by the text-parsing defect.
func doubleRounding32(bits uint32) bool { return bits&0x7fffffff == 0x15ae43fd }

// defaultValue draws a default in the canonical FieldDescriptorProto.default_value form.
func (g *gen) defaultValue(t descriptorpb.FieldDescriptorProto_Type, enum *enumSym) string {
	switch t {
	case descriptorpb.FieldDescriptorProto_TYPE_BOOL:
		if g.chance(2, "default-bool") {
			return "true"
		}
		return "false"
	case descriptorpb.FieldDescriptorProto_TYPE_ENUM:
		return pick(g, enum.names, "default-enum")
	case descriptorpb.FieldDescriptorProto_TYPE_INT32, descriptorpb.FieldDescriptorProto_TYPE_SINT32, descriptorpb.FieldDescriptorProto_TYPE_SFIXED32:
		return strconv.FormatInt(int64(vgen.Int32().Draw(g.t, "default-i32")), 10)
	case descriptorpb.FieldDescriptorProto_TYPE_INT64, descriptorpb.FieldDescriptorProto_TYPE_SINT64, descriptorpb.FieldDescriptorProto_TYPE_SFIXED64:
		return strconv.FormatInt(vgen.Int64().Draw(g.t, "default-i64"), 10)
	case descriptorpb.FieldDescriptorProto_TYPE_UINT32, descriptorpb.FieldDescriptorProto_TYPE_FIXED32:
		return strconv.FormatUint(uint64(vgen.Uint32().Draw(g.t, "default-u32")), 10)
	case descriptorpb.FieldDescriptorProto_TYPE_UINT64, descriptorpb.FieldDescriptorProto_TYPE_FIXED64:
		return strconv.FormatUint(vgen.Uint64().Draw(g.t, "default-u64"), 10)
	case descriptorpb.FieldDescriptorProto_TYPE_FLOAT:
		bits := vgen.Float32Bits().Draw(g.t, "default-f32")
		if doubleRounding32(bits) {
			bits = 0x3fc00000 // 1.5
		}
		return g.floatText(float64(math.Float32frombits(bits)), 32)
	case descriptorpb.FieldDescriptorProto_TYPE_DOUBLE:
		return g.floatText(math.Float64frombits(vgen.Float64Bits().Draw(g.t, "default-f64")), 64)
	case descriptorpb.FieldDescriptorProto_TYPE_STRING:
		return vgen.ValidString(140).Draw(g.t, "default-string")
	case descriptorpb.FieldDescriptorProto_TYPE_BYTES:
		return CEscape(vgen.Bytes(140).Draw(g.t, "default-bytes"))
	}
	panic(fmt.Sprintf("schema: no default for %v", t))
}

// floatText writes a float default: canonical = shortest round-trip decimal ('g'), "inf", "-inf",
// "nan"; with Opts.Loose sometimes the protoc (C++) spelling, which prints up to 15 (6 for float)
// significant digits when that round-trips and 17 (9) otherwise, e.g. "100000000" instead of "1e+08".
func (g *gen) floatText(v float64, bits int) string {
	switch {
	case math.IsNaN(v):
		return "nan"
	case math.IsInf(v, 1):
		return "inf"
	case math.IsInf(v, -1):
		return "-inf"
	}
	if g.o.Loose && g.chance(2, "protoc-float") {
		short, long := 15, 17
		if bits == 32 {
			short, long = 6, 9
		}
		s := strconv.FormatFloat(v, 'g', short, 64)
		if back, err := strconv.ParseFloat(s, bits); err != nil || back != v {
			s = strconv.FormatFloat(v, 'g', long, 64)
		}
		return s
	}
	return strconv.FormatFloat(v, 'g', -1, bits)
}

// CEscape is protoc's escaping of bytes defaults (descriptor.proto: "For bytes, contains the C
// escaped value. All bytes >= 128 are escaped"): \n \r \t \" \' \\ , printable ASCII as is, three
// octal digits for the rest.
func CEscape(b []byte) string {
	var s []byte
	for _, c := range b {
		switch c {
		case '\n':
			s = append(s, '\\', 'n')
		case '\r':
			s = append(s, '\\', 'r')
		case '\t':
			s = append(s, '\\', 't')
		case '"':
			s = append(s, '\\', '"')
		case '\'':
			s = append(s, '\\', '\'')
		case '\\':
			s = append(s, '\\', '\\')
		default:
			if c >= 0x20 && c < 0x7f {
				s = append(s, c)
			} else {
				s = append(s, '\\', '0'+c>>6, '0'+(c>>3)&7, '0'+c&7)
			}
		}
	}
	return string(s)
}
