package schema

import (
	"fmt"

	"google.golang.org/protobuf/encoding/protowire"
	"google.golang.org/protobuf/proto"
	"google.golang.org/protobuf/types/descriptorpb"
	"google.golang.org/protobuf/types/gofeaturespb"
)

var wellKnownTypeFiles = []string{
	"google/protobuf/any.proto", "google/protobuf/timestamp.proto", "google/protobuf/duration.proto", "google/protobuf/struct.proto",
	"google/protobuf/wrappers.proto", "google/protobuf/field_mask.proto", "google/protobuf/empty.proto",
}

var wellKnownMessages = []string{
	"google.protobuf.Any", "google.protobuf.Timestamp", "google.protobuf.Duration", "google.protobuf.Struct", "google.protobuf.Value",
	"google.protobuf.ListValue", "google.protobuf.Int32Value", "google.protobuf.StringValue", "google.protobuf.BytesValue",
	"google.protobuf.DoubleValue", "google.protobuf.BoolValue", "google.protobuf.UInt64Value", "google.protobuf.FieldMask", "google.protobuf.Empty",
}

func (g *gen) initWellKnown() {
	for _, n := range wellKnownMessages {
		g.wkMsgs = append(g.wkMsgs, &msgSym{full: n, wellKnown: true, order: 0})
	}
}

var customTargets = []string{"Field", "Message", "File", "Enum", "EnumValue", "Oneof", "Service", "Method", "ExtensionRange"}

// planCustomOptions decides, while the file skeleton is drawn, which custom options (extensions of
// the descriptor options messages) the file declares, so that declarations of this and later
// files can carry values for them.
func (g *gen) planCustomOptions(f *fileCtx) {
	if !f.wkDesc {
		return
	}
	g.repeat("custom-options", 0, 3, func(k int) {
		co := &customOpt{target: pick(g, customTargets, "option-target"), num: int32(77000 + 10*f.idx + k),
			kind: pick(g, []descriptorpb.FieldDescriptorProto_Type{descriptorpb.FieldDescriptorProto_TYPE_INT32, descriptorpb.FieldDescriptorProto_TYPE_BOOL, descriptorpb.FieldDescriptorProto_TYPE_STRING, descriptorpb.FieldDescriptorProto_TYPE_MESSAGE}, "option-kind")}
		f.opts = append(f.opts, co)
	})
}

// customOptionDecls emits the extension declarations of the planned custom options (file scope).
func (g *gen) customOptionDecls(f *fileCtx) {
	sc := g.scope(f.pkg)
	for _, co := range f.opts {
		name := g.freshName(sc, []string{"my_option", "opt", "annotation", "custom", "tag"}, "option-name", nil)
		sc.take(name)
		x := &fldp{Name: proto.String(name), Number: proto.Int32(co.num), Label: descriptorpb.FieldDescriptorProto_LABEL_OPTIONAL.Enum(),
			Type: co.kind.Enum(), Extendee: proto.String(".google.protobuf." + co.target + "Options")}
		if co.kind == descriptorpb.FieldDescriptorProto_TYPE_MESSAGE {
			// a message-typed option: its payload type is a descriptor.proto message (the file imports
			// descriptor.proto anyway); a generator that does not link the option sees the value as a
			// dynamic message with several populated fields
			x.TypeName = proto.String(".google.protobuf.FieldDescriptorProto")
		}
		if f.syntax == "proto3" && g.chance(3, "p3opt-ext") {
			x.Proto3Optional = proto.Bool(true)
		}
		if f.jsonMode == 2 {
			x.JsonName = proto.String(jsonCamel(name))
		}
		f.fd.Extension = append(f.fd.Extension, x)
	}
}

// customize sometimes sets a visible custom option on an options message, as an unknown field
// (which is how a program that does not link the option's Go package sees it).
func customize[T proto.Message](g *gen, f *fileCtx, target string, opts T) T {
	if !g.o.WellKnown {
		return opts
	}
	var cands []*customOpt
	for _, v := range f.visible {
		for _, co := range v.opts {
			if co.target == target {
				cands = append(cands, co)
			}
		}
	}
	if len(cands) == 0 || !g.chance(3, "use-custom-option") {
		return opts
	}
	co := pick(g, cands, "which-option")
	var b []byte
	switch co.kind {
	case descriptorpb.FieldDescriptorProto_TYPE_STRING:
		b = protowire.AppendTag(b, protowire.Number(co.num), protowire.BytesType)
		b = protowire.AppendString(b, pick(g, []string{"", "x", "hello world", "é"}, "option-string"))
	case descriptorpb.FieldDescriptorProto_TYPE_MESSAGE:
		payload := &descriptorpb.FieldDescriptorProto{Name: proto.String(pick(g, []string{"n", "payload", "é"}, "option-msg-name"))}
		if g.chance(2, "option-msg-number") {
			payload.Number = proto.Int32(pick(g, []int32{0, 1, -1, 42}, "option-msg-int"))
		}
		if g.chance(2, "option-msg-json") {
			payload.JsonName = proto.String("j")
		}
		if g.chance(2, "option-msg-type") {
			payload.Type = descriptorpb.FieldDescriptorProto_TYPE_BOOL.Enum()
		}
		if g.chance(2, "option-msg-default") {
			payload.DefaultValue = proto.String("d")
		}
		if g.chance(2, "option-msg-oneof") {
			payload.OneofIndex = proto.Int32(0)
		}
		if g.chance(3, "option-msg-options") {
			payload.Options = &descriptorpb.FieldOptions{Deprecated: proto.Bool(true), Lazy: proto.Bool(false)}
		}
		pb, err := proto.MarshalOptions{Deterministic: true}.Marshal(payload)
		if err != nil {
			panic(err)
		}
		b = protowire.AppendTag(b, protowire.Number(co.num), protowire.BytesType)
		b = protowire.AppendBytes(b, pb)
	case descriptorpb.FieldDescriptorProto_TYPE_BOOL:
		b = protowire.AppendTag(b, protowire.Number(co.num), protowire.VarintType)
		b = protowire.AppendVarint(b, uint64(g.n(0, 1, "option-bool")))
	default:
		b = protowire.AppendTag(b, protowire.Number(co.num), protowire.VarintType)
		b = protowire.AppendVarint(b, uint64(int64(pick(g, []int32{0, 1, -1, 42, 1 << 30}, "option-int"))))
	}
	if !opts.ProtoReflect().IsValid() {
		opts = opts.ProtoReflect().Type().New().Interface().(T)
	}
	opts.ProtoReflect().SetUnknown(append(opts.ProtoReflect().GetUnknown(), b...))
	return opts
}

// goFeatures sets the (pb.go) extension of a FeatureSet with what `target` allows.
func (g *gen) goFeatures(f *fileCtx, fs *fset, target string) {
	gf := &gofeaturespb.GoFeatures{}
	switch target {
	case "File":
		if g.chance(2, "go-api") {
			gf.ApiLevel = pick(g, []gofeaturespb.GoFeatures_APILevel{gofeaturespb.GoFeatures_API_OPEN, gofeaturespb.GoFeatures_API_HYBRID, gofeaturespb.GoFeatures_API_OPAQUE}, "api").Enum()
		}
		if g.chance(3, "go-legacy-json") {
			gf.LegacyUnmarshalJsonEnum = proto.Bool(g.chance(2, "v"))
		}
		if f.is2024() && g.chance(3, "go-strip") {
			gf.StripEnumPrefix = pick(g, []gofeaturespb.GoFeatures_StripEnumPrefix{gofeaturespb.GoFeatures_STRIP_ENUM_PREFIX_KEEP, gofeaturespb.GoFeatures_STRIP_ENUM_PREFIX_GENERATE_BOTH, gofeaturespb.GoFeatures_STRIP_ENUM_PREFIX_STRIP}, "strip").Enum()
		}
	case "Message":
		gf.ApiLevel = pick(g, []gofeaturespb.GoFeatures_APILevel{gofeaturespb.GoFeatures_API_OPEN, gofeaturespb.GoFeatures_API_HYBRID, gofeaturespb.GoFeatures_API_OPAQUE}, "api").Enum()
	case "Enum":
		if f.is2024() && g.chance(2, "go-strip") {
			gf.StripEnumPrefix = pick(g, []gofeaturespb.GoFeatures_StripEnumPrefix{gofeaturespb.GoFeatures_STRIP_ENUM_PREFIX_KEEP, gofeaturespb.GoFeatures_STRIP_ENUM_PREFIX_GENERATE_BOTH, gofeaturespb.GoFeatures_STRIP_ENUM_PREFIX_STRIP}, "strip").Enum()
		} else {
			gf.LegacyUnmarshalJsonEnum = proto.Bool(g.chance(2, "v"))
		}
	case "EnumEntry":
		gf.StripEnumPrefix = pick(g, []gofeaturespb.GoFeatures_StripEnumPrefix{gofeaturespb.GoFeatures_STRIP_ENUM_PREFIX_KEEP, gofeaturespb.GoFeatures_STRIP_ENUM_PREFIX_GENERATE_BOTH, gofeaturespb.GoFeatures_STRIP_ENUM_PREFIX_STRIP}, "strip").Enum()
	default:
		panic(fmt.Sprintf("schema: no go features for %s", target))
	}
	proto.SetExtension(fs, gofeaturespb.E_Go, gf)
}
