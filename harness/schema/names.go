package schema

import (
	"strconv"
	"strings"
	"unicode"
)

// scope is one protobuf naming scope (a package or a message): every declaration name in it must
// be unique. Scopes are shared by all files of a set that use the same package.
type scope struct {
	used map[string]bool
}

func (g *gen) scope(prefix string) *scope {
	s := g.scopes[prefix]
	if s == nil {
		s = &scope{used: map[string]bool{}}
		g.scopes[prefix] = s
	}
	return s
}

func (s *scope) free(names ...string) bool {
	for _, n := range names {
		if s.used[n] {
			return false
		}
	}
	return true
}

func (s *scope) take(names ...string) {
	for _, n := range names {
		s.used[n] = true
	}
}

// package segments are never used as declaration names (a package and a declaration may not share a full name)
var packages = []string{"pkga", "", "pkgb", "pkga.sub", "pkgb.v1", "pkgc.sub.v1", "pkga.sub.deep"}

var msgNames = []string{"Msg", "Item", "Node", "Outer", "Inner", "Request", "Reply", "Config", "Data", "Tree", "Leaf", "Record", "Event", "Point", "M", "A1", "Foo_Bar", "lower_msg", "HTTPServer"}
var msgNamesAdv = []string{"Msg", "Nested", "Foo", "FooBar", "Foo_Bar", "foo_bar", "String", "Reset", "ProtoMessage", "ProtoReflect", "Descriptor", "Type", "Builder", "Msg_builder", "GetFoo", "Has", "XXX_Msg", "Error", "Map", "Interface", "Func", "_Under", "Trailing_", "Dou__ble", "Enum", "Kind", "Value", "Number", "case_1"}

var fieldNames = []string{"id", "name", "value", "count", "flag", "data", "items", "child", "kind", "ratio", "big_number", "foo_bar", "foo_bar_baz", "x1", "field_2b", "payload", "ts", "labels", "parent", "score", "note", "tags", "mixedCase", "UPPER", "a", "b", "c", "opt_str", "rep_i32", "the_enum", "sub_msg"}
var fieldNamesAdv = []string{
	"foo", "foo_bar", "fooBar", "FooBar", "Foo_Bar", "foo_Bar", "get_foo", "set_foo", "has_foo", "clear_foo", "which_foo", "foo_builder", "_builder", "builder",
	"type", "func", "range", "map", "chan", "select", "go", "defer", "package", "import", "interface", "struct", "var", "const", "default", "switch", "case", "return", "break", "continue", "for", "if", "else", "goto", "fallthrough",
	"string", "int", "error", "nil", "true", "len", "new", "make", "bool", "byte", "any", "int32", "float64",
	"_foo", "foo_", "foo__bar", "__foo", "foo_1", "foo_1a", "foo1", "_1", "f_", "_",
	"reset", "proto_message", "proto_reflect", "descriptor", "xxx_foo", "XXX_unrecognized", "xxx_hidden_foo", "size_cache", "unknown_fields", "state",
	"nested", "Nested", "msg", "Msg", "get", "set", "has", "clear", "which", "get_", "has_foo_bar", "get_get_foo", "String", "Reset", "ProtoReflect", "Descriptor", "Get_foo", "GetFoo",
}

var oneofNames = []string{"choice", "payload_kind", "o", "variant", "alt", "one_of", "source", "target"}
var oneofNamesAdv = []string{"choice", "foo", "get_foo", "get_foo_", "nested", "Nested", "is_foo", "isFoo", "which", "type", "oneof", "foo_bar", "FooBar", "case", "which_foo", "msg", "has_choice"}

var enumNames = []string{"Kind", "Color", "State", "Mode", "Level", "E", "my_enum", "ErrorCode", "Type2"}
var enumNamesAdv = []string{"Kind", "Enum", "String", "Foo", "FooBar", "Foo_Bar", "Type", "Value", "Nested", "Msg", "Error", "_E", "E_", "name", "Descriptor", "Number"}

var valueStems = []string{"UNSPECIFIED", "UNKNOWN", "A", "B", "C", "ONE", "TWO", "RED", "GREEN", "ON", "OFF", "LOW", "HIGH", "FIRST", "LAST", "NEG", "MAX", "MIN", "x", "Mixed_Case", "ZERO"}
var valueStemsAdv = []string{"UNSPECIFIED", "A", "a", "Foo", "FOO", "foo_bar", "FOO_BAR", "String", "name", "value", "Enum", "_", "_A", "A_", "type", "nil", "TRUE", "Descriptor", "Type", "Number", "X1", "x_1"}

var extNames = []string{"ext", "my_ext", "opt_x", "extra", "e1", "ext_field", "plugin", "annotation", "meta"}
var extNamesAdv = []string{"ext", "foo", "E_foo", "e_foo", "type", "string", "Ext", "nested", "file", "default", "get_ext", "ext_", "_ext", "foo_bar", "FooBar"}

var groupNames = []string{"Group", "OptionalGroup", "Result", "Chunk", "Part", "G1", "Inner2", "Blob", "RepeatedGroup", "Grp_X"}
var groupNamesAdv = []string{"Group", "Nested", "String", "Foo", "FooBar", "Type", "Reset", "Msg", "Foo_bar", "GetFoo", "X_", "Builder"}

var serviceNames = []string{"Service", "Api", "Greeter", "Store", "svc", "Admin"}
var methodNames = []string{"Get", "List", "Call", "Put", "Watch", "stream_it", "Do", "get_foo", "String"}

func isIdent(s string) bool {
	if s == "" {
		return false
	}
	for i, c := range s {
		switch {
		case c == '_', 'a' <= c && c <= 'z', 'A' <= c && c <= 'Z':
		case '0' <= c && c <= '9' && i > 0:
		default:
			return false
		}
	}
	return true
}

// freshName picks a name from vocab and makes it unique in sc by appending a numeric suffix; ok
// reports further conditions on the candidate (e.g. the derived map entry name is free too).
func (g *gen) freshName(sc *scope, vocab []string, label string, ok func(string) bool) string {
	base := vocab[g.n(0, len(vocab)-1, label)]
	name := base
	for i := 2; !sc.free(name) || (ok != nil && !ok(name)); i++ {
		name = base + strconv.Itoa(i)
		if i == 40 {
			base = "f" + base // the base itself can never satisfy ok (e.g. "_1" as a map field)
		}
		if i > 10000 {
			panic("schema: cannot find a free name for " + base)
		}
	}
	return name
}

// jsonCamel is the protobuf JSON name of a field name (descriptor.proto: lowerCamelCase — drop
// underscores and upper-case the letter that follows one).
func jsonCamel(s string) string {
	var b []byte
	up := false
	for i := 0; i < len(s); i++ {
		c := s[i]
		if c == '_' {
			up = true
			continue
		}
		if up && 'a' <= c && c <= 'z' {
			c -= 'a' - 'A'
		}
		up = false
		b = append(b, c)
	}
	return string(b)
}

// lowerNoUnderscore is the key protoc's proto3 JSON-conflict rule compares.
func lowerNoUnderscore(s string) string {
	return strings.ToLower(strings.ReplaceAll(s, "_", ""))
}

// mapEntryName: protoc derives the entry message name by camel-casing the field name + "Entry".
func mapEntryName(s string) string {
	var b []byte
	up := true
	for i := 0; i < len(s); i++ {
		c := s[i]
		switch {
		case c == '_':
			up = true
		case up:
			b = append(b, byte(unicode.ToUpper(rune(c))))
			up = false
		default:
			b = append(b, c)
		}
	}
	return string(b) + "Entry"
}

// enumValueKey implements protoc's enum value conflict rule: strip the enum name as a
// case-insensitive, underscore-insensitive prefix, then PascalCase the rest. Two values of one
// enum with different numbers may not share a key.
func enumValueKey(enumName, value string) string {
	prefix := lowerNoUnderscore(enumName)
	s := value
	rest := s
	matched := true
	for len(rest) > 0 && len(prefix) > 0 {
		if rest[0] == '_' {
			rest = rest[1:]
			continue
		}
		if byte(unicode.ToLower(rune(rest[0]))) != prefix[0] {
			matched = false
			break
		}
		rest, prefix = rest[1:], prefix[1:]
	}
	if matched && len(prefix) == 0 {
		rest = strings.TrimLeft(rest, "_")
		if rest != "" {
			s = rest
		}
	}
	var b []byte
	up := true
	for i := 0; i < len(s); i++ {
		c := rune(s[i])
		switch {
		case c == '_':
			up = true
		case up:
			b = append(b, byte(unicode.ToUpper(c)))
			up = false
		default:
			b = append(b, byte(unicode.ToLower(c)))
		}
	}
	return string(b)
}
