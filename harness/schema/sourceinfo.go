package schema

import (
	"google.golang.org/protobuf/proto"
	"google.golang.org/protobuf/types/descriptorpb"
)

// sourceInfo attaches locations for the file, its top-level messages / enums and their fields /
// values: increasing lines, three-element spans (four-element when the declaration spans lines;
// with Opts.Loose also four-element spans on a single line), leading / trailing / detached comments.
func (g *gen) sourceInfo(f *fileCtx) {
	info := &descriptorpb.SourceCodeInfo{}
	line := int32(0)
	add := func(path []int32, lines int32) {
		loc := &descriptorpb.SourceCodeInfo_Location{Path: path}
		col := int32(g.n(0, 8, "col"))
		switch {
		case lines > 0:
			loc.Span = []int32{line, col, line + lines, int32(g.n(1, 40, "endcol"))}
		case g.o.Loose && g.chance(4, "span4-one-line"):
			loc.Span = []int32{line, col, line, col + int32(g.n(1, 40, "w"))}
		default:
			loc.Span = []int32{line, col, col + int32(g.n(1, 40, "w"))}
		}
		if g.chance(3, "leading") {
			loc.LeadingComments = proto.String(pick(g, []string{" a comment\n", " two\n lines\n", "*", " ünïcode ✓\n"}, "c"))
		}
		if g.chance(5, "trailing") {
			loc.TrailingComments = proto.String(" trailing\n")
		}
		if g.chance(6, "detached") {
			loc.LeadingDetachedComments = []string{" detached 1\n", " detached 2\n"}[:g.n(1, 2, "n")]
		}
		info.Location = append(info.Location, loc)
		line += lines + 1
	}
	add([]int32{}, int32(g.n(0, 50, "file-lines")))
	line = 0
	add([]int32{12}, 0) // syntax
	if f.fd.Package != nil {
		add([]int32{2}, 0)
	}
	for i, m := range f.fd.MessageType {
		add([]int32{4, int32(i)}, int32(len(m.Field))+1)
		add([]int32{4, int32(i), 1}, 0)
		for j := range m.Field {
			add([]int32{4, int32(i), 2, int32(j)}, 0)
			add([]int32{4, int32(i), 2, int32(j), 3}, 0)
		}
	}
	for i, e := range f.fd.EnumType {
		add([]int32{5, int32(i)}, int32(len(e.Value))+1)
		for j := range e.Value {
			add([]int32{5, int32(i), 2, int32(j)}, 0)
		}
	}
	f.fd.SourceCodeInfo = info
}
