package schema_test

import (
	"flag"
	"strings"
	"testing"
	"time"

	"google.golang.org/protobuf/zverif/schema"
	"pgregory.net/rapid"
)

func TestShrinkProbe(t *testing.T) {
	flag.Set("rapid.checks", "2000")
	flag.Set("rapid.seed", "5")
	flag.Set("rapid.nofailfile", "true")
	flag.Set("rapid.shrinktime", "20s")
	n := 0
	start := time.Now()
	var last string
	t.Run("x", func(t *testing.T) {
		rapid.Check(t, func(rt *rapid.T) {
			files := schema.Draw(rt, schema.Opts{WellKnown: true, Lazy: true})
			n++
			txt := strings.Join(schema.Text(files), "\n")
			if strings.Contains(txt, `default_value:"`) && strings.Contains(txt, `\\0`) && strings.Contains(txt, "TYPE_BYTES") {
				last = txt
				rt.Fatalf("boom")
			}
		})
	})
	t.Logf("evaluations %d in %v; final case (%d bytes): %s", n, time.Since(start), len(last), last)
}
