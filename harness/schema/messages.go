package schema

import (
	"fmt"
	"math"
	"strings"

	"google.golang.org/protobuf/proto"
	"google.golang.org/protobuf/types/descriptorpb"
)

const maxFieldNumber = 1<<29 - 1

var rangeStarts = []int32{100, 1000, 50, 2048, 16, 5000, 18990, 19000, 19500, 20000, 1 << 20, 1 << 28, maxFieldNumber - 10, maxFieldNumber, 8, 3, 1}
var rangeLens = []int32{1, 1, 2, 10, 100, 1000, 20000, math.MaxInt32}

func (g *gen) newMsgSym(f *fileCtx, full string, d *dp, parent *msgSym) *msgSym {
	m := &msgSym{file: f, full: full, dp: d, parent: parent, usedNums: map[int32]bool{}, extUsed: map[int32]bool{},
		sc: g.scope(full), jsonUsed: map[string]bool{}, lcUsed: map[string]bool{}}
	if parent != nil {
		m.depth = parent.depth + 1
	}
	return m
}

// drawRange draws a field-number interval [start,end) disjoint from m.taken, or ok=false.
func (g *gen) drawRange(m *msgSym, label string) (r [2]int32, ok bool) {
	start := int64(pick(g, rangeStarts, label+"-start"))
	end := start + int64(pick(g, rangeLens, label+"-len"))
	if end > maxFieldNumber+1 {
		end = maxFieldNumber + 1
	}
	for _, t := range m.taken {
		if start < int64(t[1]) && int64(t[0]) < end {
			return r, false
		}
	}
	return [2]int32{int32(start), int32(end)}, true
}

// msgSkeleton declares a message: name, nested enums (complete), nested message skeletons, extension
// and reserved ranges, message options. Fields come later (fillMessage), when every type of the
// file exists.
func (g *gen) msgSkeleton(f *fileCtx, sc *scope, prefix string, parent *msgSym) *msgSym {
	name := g.freshName(sc, g.vocab(msgNames, msgNamesAdv), "msg-name", nil)
	sc.take(name)
	d := &dp{Name: proto.String(name)}
	m := g.newMsgSym(f, join(prefix, name), d, parent)
	g.order++
	m.order, m.reqBound = g.order, g.order
	f.msgs = append(f.msgs, m)

	jsonAllow := f.ft.jsonAllow
	var opts *descriptorpb.MessageOptions
	getOpts := func() *descriptorpb.MessageOptions {
		if opts == nil {
			opts = &descriptorpb.MessageOptions{}
		}
		return opts
	}
	if f.editions() {
		fs := &fset{}
		set := false
		if g.chance(4, "m-json") {
			jsonAllow = !g.chance(2, "legacy")
			fs.JsonFormat = descriptorpb.FeatureSet_ALLOW.Enum()
			if !jsonAllow {
				fs.JsonFormat = descriptorpb.FeatureSet_LEGACY_BEST_EFFORT.Enum()
			}
			set = true
		}
		if ns := g.namingStyle(f, "m-style"); ns != nil {
			fs.EnforceNamingStyle = ns.EnforceNamingStyle
			set = true
		}
		if f.wkGo && g.chance(4, "m-go") {
			g.goFeatures(f, fs, "Message")
			set = true
		}
		if set {
			getOpts().Features = fs
		}
	}
	m.jsonFree = f.syntax == "proto2" || (f.editions() && !jsonAllow)
	if !g.o.NoOptions {
		if g.chance(10, "msg-deprecated") {
			getOpts().Deprecated = proto.Bool(true)
		}
		if g.chance(15, "no-std-accessor") {
			getOpts().NoStandardDescriptorAccessor = proto.Bool(true)
		}
	}
	if f.is2024() && g.chance(5, "msg-visibility") {
		d.Visibility = pick(g, []descriptorpb.SymbolVisibility{descriptorpb.SymbolVisibility_VISIBILITY_LOCAL, descriptorpb.SymbolVisibility_VISIBILITY_EXPORT}, "v").Enum()
	}
	opts = customize(g, f, "Message", opts)
	if opts == nil && g.o.Loose && g.chance(15, "empty-msg-options") {
		opts = &descriptorpb.MessageOptions{}
	}
	d.Options = opts

	// number space: extension ranges and reserved ranges first, fields avoid them
	if f.syntax != "proto3" && !g.o.NoExtensions {
		g.repeat("ext-ranges", 0, g.o.MaxRanges, func(k int) {
			if r, ok := g.drawRange(m, "xr"); ok {
				m.taken = append(m.taken, r)
				m.ranges = append(m.ranges, r)
				xr := &descriptorpb.DescriptorProto_ExtensionRange{Start: proto.Int32(r[0]), End: proto.Int32(r[1])}
				var xo *descriptorpb.ExtensionRangeOptions
				if !g.o.NoOptions && g.chance(6, "xr-verification") {
					xo = &descriptorpb.ExtensionRangeOptions{Verification: descriptorpb.ExtensionRangeOptions_UNVERIFIED.Enum()}
				}
				if ns := g.namingStyle(f, "xr-style"); ns != nil {
					if xo == nil {
						xo = &descriptorpb.ExtensionRangeOptions{}
					}
					xo.Features = ns
				}
				xo = customize(g, f, "ExtensionRange", xo)
				if xo == nil && g.o.Loose && g.chance(15, "empty-xr-options") {
					xo = &descriptorpb.ExtensionRangeOptions{}
				}
				xr.Options = xo
				d.ExtensionRange = append(d.ExtensionRange, xr)
			}
		})
	}
	g.repeat("reserved-ranges", 0, g.o.MaxRanges, func(k int) {
		if r, ok := g.drawRange(m, "rr"); ok {
			m.taken = append(m.taken, r)
			d.ReservedRange = append(d.ReservedRange, &descriptorpb.DescriptorProto_ReservedRange{Start: proto.Int32(r[0]), End: proto.Int32(r[1])})
		}
	})
	if g.chance(6, "reserved-names") {
		g.repeat("n", 1, 3, func(k int) {
			rn := pick(g, []string{"old_field", "legacy", "removed_1", "tmp", "foo", "Bar"}, "reserved-name")
			dup := false
			for _, x := range d.ReservedName {
				dup = dup || x == rn
			}
			if !dup && m.sc.free(rn) {
				d.ReservedName = append(d.ReservedName, rn)
				m.sc.take(rn) // nothing else in this message may use it (protoc: fields only; stricter is fine)
			}
		})
	}

	g.repeat("msg-enums", 0, g.o.MaxEnums, func(k int) {
		d.EnumType = append(d.EnumType, g.enum(f, m.sc, m.full, m))
	})
	if m.depth+1 < g.o.MaxDepth {
		g.repeat("nested-msgs", 0, 2, func(k int) {
			d.NestedType = append(d.NestedType, g.msgSkeleton(f, m.sc, m.full, m).dp)
		})
	}
	return m
}

// allocNumber picks an unused field number of m outside its reserved and extension ranges.
func (g *gen) allocNumber(m *msgSym) int32 {
	okNum := func(n int32) bool {
		if n < 1 || n > maxFieldNumber || (n >= 19000 && n <= 19999) || m.usedNums[n] {
			return false
		}
		for _, t := range m.taken {
			if n >= t[0] && n < t[1] {
				return false
			}
		}
		return true
	}
	if g.chance(4, "odd-field-number") {
		for try := 0; try < 4; try++ {
			n := pick(g, []int32{15, 16, 127, 128, 2047, 2048, 16383, 16384, 18999, 20000, 1 << 21, 1<<28 - 1, maxFieldNumber, maxFieldNumber - 1, 262143, 99, 1000}, "field-number")
			if g.chance(3, "random-number") {
				n = int32(g.n(1, maxFieldNumber, "n"))
			}
			if okNum(n) {
				m.usedNums[n] = true
				return n
			}
		}
	}
	for n := int64(1); n <= maxFieldNumber; n++ {
		jumped := false
		for _, t := range m.taken {
			if n >= int64(t[0]) && n < int64(t[1]) {
				n = int64(t[1]) - 1
				jumped = true
				break
			}
		}
		if jumped {
			continue
		}
		if n >= 19000 && n <= 19999 {
			n = 19999
			continue
		}
		if okNum(int32(n)) {
			m.usedNums[int32(n)] = true
			return int32(n)
		}
	}
	return 0 // the whole number space is reserved or extendable
}

// ---------------------------------------------------------------------------------------------

func (g *gen) fillFile(f *fileCtx) {
	for _, m := range f.msgs { // pre-order; group / map entry messages created on the way are not in f.msgs
		g.fillMessage(m)
	}
	g.customOptionDecls(f)
	if !g.o.NoExtensions {
		for _, m := range f.msgs {
			if g.chance(4, "msg-scoped-extensions") {
				g.extensions(f, m)
			}
		}
		g.extensions(f, nil)
	}
	if !g.o.NoServices {
		g.services(f)
	}
	if g.o.SourceInfo && g.chance(2, "source-info") {
		g.sourceInfo(f)
	}
}

type fieldCtx struct {
	f       *fileCtx
	m       *msgSym // containing message (nil for file-scoped extensions)
	scope   *scope  // where the field's name (and a group / entry message) lives
	prefix  string  // full name of that scope
	nested  *[]*dp  // where group / entry messages are appended
	isExt   bool
	inOneof bool
}

func (g *gen) fillMessage(m *msgSym) {
	f := m.file
	fc := &fieldCtx{f: f, m: m, scope: m.sc, prefix: m.full, nested: &m.dp.NestedType}
	var synthetic []*fldp
	g.repeat("fields", 0, g.o.MaxFields, func(int) {
		if m.next = g.allocNumber(m); m.next == 0 {
			return // the whole number space is taken
		}
		if len(m.dp.OneofDecl) < g.o.MaxOneofs && g.chance(5, "oneof") {
			// a real oneof: 1..3 consecutive members
			oname := g.freshName(m.sc, g.vocab(oneofNames, oneofNamesAdv), "oneof-name", nil)
			m.sc.take(oname)
			od := &descriptorpb.OneofDescriptorProto{Name: proto.String(oname)}
			var oo *descriptorpb.OneofOptions
			if ns := g.namingStyle(f, "o-style"); ns != nil {
				oo = &descriptorpb.OneofOptions{Features: ns}
			}
			oo = customize(g, f, "Oneof", oo)
			if oo == nil && g.o.Loose && g.chance(10, "empty-oneof-options") {
				oo = &descriptorpb.OneofOptions{}
			}
			od.Options = oo
			idx := int32(len(m.dp.OneofDecl))
			m.dp.OneofDecl = append(m.dp.OneofDecl, od)
			oc := *fc
			oc.inOneof = true
			g.repeat("members", 1, 3, func(k int) {
				if m.next == 0 {
					if m.next = g.allocNumber(m); m.next == 0 {
						return
					}
				}
				fd := g.field(&oc, shapeSingular)
				fd.OneofIndex = proto.Int32(idx)
				m.dp.Field = append(m.dp.Field, fd)
			})
			return
		}
		shape := g.drawShape(fc)
		fd := g.field(fc, shape)
		if shape == shapeProto3Optional {
			synthetic = append(synthetic, fd)
		}
		m.dp.Field = append(m.dp.Field, fd)
	})
	// synthetic oneofs of proto3 optional fields come after all real oneofs, in field order
	for _, fd := range synthetic {
		oname := "_" + fd.GetName()
		for !m.sc.free(oname) {
			oname = "X" + oname
		}
		m.sc.take(oname)
		fd.OneofIndex = proto.Int32(int32(len(m.dp.OneofDecl)))
		m.dp.OneofDecl = append(m.dp.OneofDecl, &descriptorpb.OneofDescriptorProto{Name: proto.String(oname)})
	}
}

type shape int

const (
	shapeSingular shape = iota
	shapeRepeated
	shapeMap
	shapeRequired
	shapeProto3Optional
)

func (g *gen) drawShape(fc *fieldCtx) shape {
	wMap, wReq, wP3 := 2, 0, 0
	if g.o.NoMaps || fc.isExt {
		wMap = 0
	}
	if !g.o.NoRequired && !fc.isExt && fc.f.syntax != "proto3" {
		wReq = 1
	}
	if fc.f.syntax == "proto3" && !fc.isExt {
		wP3 = 3
	}
	return []shape{shapeSingular, shapeRepeated, shapeMap, shapeRequired, shapeProto3Optional}[g.weighted("shape", 6, 3, wMap, wReq, wP3)]
}

var scalarTypes = []descriptorpb.FieldDescriptorProto_Type{
	descriptorpb.FieldDescriptorProto_TYPE_INT32, descriptorpb.FieldDescriptorProto_TYPE_STRING, descriptorpb.FieldDescriptorProto_TYPE_BOOL,
	descriptorpb.FieldDescriptorProto_TYPE_INT64, descriptorpb.FieldDescriptorProto_TYPE_UINT32, descriptorpb.FieldDescriptorProto_TYPE_UINT64,
	descriptorpb.FieldDescriptorProto_TYPE_SINT32, descriptorpb.FieldDescriptorProto_TYPE_SINT64, descriptorpb.FieldDescriptorProto_TYPE_FIXED32,
	descriptorpb.FieldDescriptorProto_TYPE_FIXED64, descriptorpb.FieldDescriptorProto_TYPE_SFIXED32, descriptorpb.FieldDescriptorProto_TYPE_SFIXED64,
	descriptorpb.FieldDescriptorProto_TYPE_FLOAT, descriptorpb.FieldDescriptorProto_TYPE_DOUBLE, descriptorpb.FieldDescriptorProto_TYPE_BYTES,
}

var mapKeyTypes = []descriptorpb.FieldDescriptorProto_Type{
	descriptorpb.FieldDescriptorProto_TYPE_STRING, descriptorpb.FieldDescriptorProto_TYPE_INT32, descriptorpb.FieldDescriptorProto_TYPE_INT64,
	descriptorpb.FieldDescriptorProto_TYPE_UINT32, descriptorpb.FieldDescriptorProto_TYPE_UINT64, descriptorpb.FieldDescriptorProto_TYPE_SINT32,
	descriptorpb.FieldDescriptorProto_TYPE_SINT64, descriptorpb.FieldDescriptorProto_TYPE_FIXED32, descriptorpb.FieldDescriptorProto_TYPE_FIXED64,
	descriptorpb.FieldDescriptorProto_TYPE_SFIXED32, descriptorpb.FieldDescriptorProto_TYPE_SFIXED64, descriptorpb.FieldDescriptorProto_TYPE_BOOL,
}

func packable(t descriptorpb.FieldDescriptorProto_Type) bool {
	switch t {
	case descriptorpb.FieldDescriptorProto_TYPE_STRING, descriptorpb.FieldDescriptorProto_TYPE_BYTES, descriptorpb.FieldDescriptorProto_TYPE_MESSAGE, descriptorpb.FieldDescriptorProto_TYPE_GROUP:
		return false
	}
	return true
}

// visibleEnums / visibleMsgs list what a field of file f may name.
func (g *gen) visibleEnums(f *fileCtx, needOpen, needZero bool) []*enumSym {
	var out []*enumSym
	for _, v := range f.visible {
		for _, e := range v.enums {
			if (needOpen && e.closed) || (needZero && !e.zero) {
				continue
			}
			out = append(out, e)
		}
	}
	return out
}

func (g *gen) visibleMsgs(f *fileCtx, maxOrder int) []*msgSym {
	var out []*msgSym
	for _, v := range f.visible {
		for _, m := range v.msgs {
			if m.order < maxOrder {
				out = append(out, m)
			}
		}
	}
	if f.wkTypes && maxOrder == math.MaxInt {
		out = append(out, g.wkMsgs...)
	}
	return out
}

// fieldName draws a field name that is free in the scope and respects the JSON-name rules.
func (g *gen) fieldName(fc *fieldCtx, vocab []string, extra func(string) bool) string {
	m := fc.m
	return g.freshName(fc.scope, vocab, "field-name", func(n string) bool {
		if extra != nil && !extra(n) {
			return false
		}
		if fc.isExt || m == nil {
			return true
		}
		if m.jsonFree && g.o.AdversarialNames {
			return true
		}
		return !m.jsonUsed[jsonCamel(n)] && !m.lcUsed[lowerNoUnderscore(n)]
	})
}

func (g *gen) noteFieldName(fc *fieldCtx, name string) {
	fc.scope.take(name)
	if fc.m != nil && !fc.isExt {
		fc.m.jsonUsed[jsonCamel(name)] = true
		fc.m.lcUsed[lowerNoUnderscore(name)] = true
	}
}

// field draws one field (or extension: the caller sets extendee and number afterwards).
func (g *gen) field(fc *fieldCtx, sh shape) *fldp {
	f := fc.f
	fd := &fldp{}
	var opts *descriptorpb.FieldOptions
	getOpts := func() *descriptorpb.FieldOptions {
		if opts == nil {
			opts = &descriptorpb.FieldOptions{}
		}
		return opts
	}
	var fs *fset
	getFS := func() *fset {
		if fs == nil {
			fs = &fset{}
		}
		return fs
	}
	if !fc.isExt {
		fd.Number = proto.Int32(fc.m.next)
		fc.m.next = 0
	}

	// ---- label and resolved presence
	label := descriptorpb.FieldDescriptorProto_LABEL_OPTIONAL
	implicit := f.ft.implicit // singular, not in a oneof, no message type
	legacyRequired := false
	switch sh {
	case shapeRepeated, shapeMap:
		label = descriptorpb.FieldDescriptorProto_LABEL_REPEATED
	case shapeRequired:
		if f.editions() {
			getFS().FieldPresence = descriptorpb.FeatureSet_LEGACY_REQUIRED.Enum()
			legacyRequired = true
		} else {
			label = descriptorpb.FieldDescriptorProto_LABEL_REQUIRED
		}
		implicit = false
	case shapeProto3Optional:
		fd.Proto3Optional = proto.Bool(true)
		implicit = false
	}
	fd.Label = label.Enum()
	singular := sh == shapeSingular || sh == shapeRequired || sh == shapeProto3Optional
	if fc.inOneof || fc.isExt {
		implicit = false
	}
	presenceOverride := false
	if f.editions() && sh == shapeSingular && !fc.inOneof && !fc.isExt && g.chance(4, "fld-presence") {
		presenceOverride = true
		implicit = g.chance(2, "implicit")
		getFS().FieldPresence = descriptorpb.FeatureSet_EXPLICIT.Enum()
		if implicit {
			getFS().FieldPresence = descriptorpb.FeatureSet_IMPLICIT.Enum()
		}
	}

	// ---- type
	const (
		tScalar = iota
		tEnum
		tMessage
		tGroup
	)
	wGroup := 0
	if !g.o.NoGroups && sh != shapeMap && sh != shapeProto3Optional && f.syntax != "proto3" {
		wGroup = 1
	}
	class := g.weighted("type-class", 6, 2, 2, wGroup)
	if sh == shapeMap {
		class = tMessage
	}
	var target *msgSym
	var enum *enumSym
	switch class {
	case tEnum:
		needOpen := f.syntax == "proto3" || (singular && implicit)
		if cands := g.visibleEnums(f, needOpen, false); len(cands) > 0 {
			enum = pick(g, cands, "enum")
		} else {
			class = tScalar
		}
	case tMessage:
		if sh == shapeMap {
			break
		}
		bound := math.MaxInt
		if sh == shapeRequired && fc.m != nil {
			bound = fc.m.reqBound
		}
		if cands := g.visibleMsgs(f, bound); len(cands) > 0 {
			target = pick(g, cands, "message")
		} else {
			class = tScalar
		}
	}
	if presenceOverride && implicit && (class == tMessage || class == tGroup) {
		// message fields cannot be IMPLICIT
		getFS().FieldPresence = descriptorpb.FeatureSet_EXPLICIT.Enum()
		implicit = false
	}

	var name string
	vocab := g.vocab(fieldNames, fieldNamesAdv)
	if fc.isExt {
		vocab = g.vocab(extNames, extNamesAdv)
	}
	delimited := false // resolved message_encoding for a message-typed, non-map field
	switch class {
	case tScalar:
		t := pick(g, scalarTypes, "scalar-type")
		fd.Type = t.Enum()
		name = g.fieldName(fc, vocab, nil)
	case tEnum:
		fd.Type = descriptorpb.FieldDescriptorProto_TYPE_ENUM.Enum()
		fd.TypeName = proto.String("." + enum.full)
		name = g.fieldName(fc, vocab, nil)
	case tMessage:
		fd.Type = descriptorpb.FieldDescriptorProto_TYPE_MESSAGE.Enum()
		if sh == shapeMap {
			name = g.fieldName(fc, vocab, func(n string) bool { return isIdent(mapEntryName(n)) && fc.scope.free(mapEntryName(n)) && mapEntryName(n) != n })
			entry := g.mapEntry(fc, name, getFS)
			fd.TypeName = proto.String("." + join(fc.prefix, entry.GetName()))
			*fc.nested = append(*fc.nested, entry)
			break
		}
		fd.TypeName = proto.String("." + target.full)
		name = g.fieldName(fc, vocab, nil)
		delimited = f.ft.delimited
		if f.editions() && !g.o.NoGroups && !target.wellKnown && g.chance(4, "fld-encoding") {
			delimited = g.chance(2, "delimited")
			getFS().MessageEncoding = descriptorpb.FeatureSet_LENGTH_PREFIXED.Enum()
			if delimited {
				getFS().MessageEncoding = descriptorpb.FeatureSet_DELIMITED.Enum()
			}
		}
	case tGroup:
		// proto2: `group Name = n { … }`; editions: the same shape spelled as a nested message plus
		// message_encoding = DELIMITED (group-like: field name is the lower-cased message name)
		gv := g.vocab(groupNames, groupNamesAdv)
		var gname string
		gname = g.freshName(fc.scope, gv, "group-name", func(n string) bool {
			ln := strings.ToLower(n)
			if ln == n || !fc.scope.free(ln) {
				return false
			}
			if fc.m != nil && !fc.isExt && !(fc.m.jsonFree && g.o.AdversarialNames) {
				return !fc.m.jsonUsed[jsonCamel(ln)] && !fc.m.lcUsed[lowerNoUnderscore(ln)]
			}
			return true
		})
		name = strings.ToLower(gname)
		fc.scope.take(gname)
		gd := &dp{Name: proto.String(gname)}
		gm := g.newMsgSym(f, join(fc.prefix, gname), gd, fc.m)
		gm.order = math.MaxInt
		gm.reqBound = 0
		if fc.m != nil {
			gm.reqBound = fc.m.reqBound
			gm.jsonFree = fc.m.jsonFree
		} else {
			gm.jsonFree = f.syntax == "proto2" || (f.editions() && !f.ft.jsonAllow)
		}
		*fc.nested = append(*fc.nested, gd)
		if gm.depth <= g.o.MaxDepth {
			g.fillMessage(gm)
		}
		fd.TypeName = proto.String("." + gm.full)
		if f.editions() {
			fd.Type = descriptorpb.FieldDescriptorProto_TYPE_MESSAGE.Enum()
			if !f.ft.delimited || g.chance(3, "explicit-delimited") {
				getFS().MessageEncoding = descriptorpb.FeatureSet_DELIMITED.Enum()
			}
		} else {
			fd.Type = descriptorpb.FieldDescriptorProto_TYPE_GROUP.Enum()
		}
		delimited = true
	}
	fd.Name = proto.String(name)
	g.noteFieldName(fc, name)
	typ := fd.GetType()

	// ---- repeated encoding
	if sh == shapeRepeated {
		if f.editions() {
			if g.chance(4, "fld-packed") {
				if packable(typ) && g.chance(2, "packed") {
					getFS().RepeatedFieldEncoding = descriptorpb.FeatureSet_PACKED.Enum()
				} else {
					getFS().RepeatedFieldEncoding = descriptorpb.FeatureSet_EXPANDED.Enum()
				}
			}
		} else if packable(typ) {
			switch g.weighted("packed", 2, 1, 1) {
			case 1:
				getOpts().Packed = proto.Bool(true)
			case 2:
				getOpts().Packed = proto.Bool(false)
			}
		}
	}
	// ---- utf8 validation on string fields
	if f.editions() && typ == descriptorpb.FieldDescriptorProto_TYPE_STRING && g.chance(4, "fld-utf8") {
		getFS().Utf8Validation = pick(g, []descriptorpb.FeatureSet_Utf8Validation{descriptorpb.FeatureSet_VERIFY, descriptorpb.FeatureSet_NONE}, "v").Enum()
	}
	if ns := g.namingStyle(f, "fld-style"); ns != nil {
		getFS().EnforceNamingStyle = ns.EnforceNamingStyle
	}

	// ---- default value
	hasPresence := singular && !implicit
	if !g.o.NoDefaults && hasPresence && f.syntax != "proto3" && class != tMessage && class != tGroup && g.chance(3, "default") {
		fd.DefaultValue = proto.String(g.defaultValue(typ, enum))
	}

	// ---- json_name
	switch {
	case fc.isExt:
		if f.jsonMode == 2 {
			fd.JsonName = proto.String(jsonCamel(name))
		}
	case f.jsonMode == 2:
		fd.JsonName = proto.String(jsonCamel(name))
	case f.jsonMode == 1 && g.chance(3, "json-name"):
		jn := pick(g, []string{"Custom", "customName", "@type", "with space", "x-y", "ünï", "0start", jsonCamel(name), name, strings.ToUpper(name)}, "json")
		if fc.m != nil {
			if !fc.m.jsonUsed[jn] || jn == jsonCamel(name) || (fc.m.jsonFree && g.o.AdversarialNames) {
				fd.JsonName = proto.String(jn)
				fc.m.jsonUsed[jn] = true
			}
		}
	}

	// ---- ordinary options
	if !g.o.NoOptions {
		if g.chance(12, "fld-deprecated") {
			getOpts().Deprecated = proto.Bool(true)
		}
		switch typ {
		case descriptorpb.FieldDescriptorProto_TYPE_INT64, descriptorpb.FieldDescriptorProto_TYPE_UINT64, descriptorpb.FieldDescriptorProto_TYPE_SINT64,
			descriptorpb.FieldDescriptorProto_TYPE_FIXED64, descriptorpb.FieldDescriptorProto_TYPE_SFIXED64:
			if g.chance(8, "jstype") {
				getOpts().Jstype = pick(g, []descriptorpb.FieldOptions_JSType{descriptorpb.FieldOptions_JS_STRING, descriptorpb.FieldOptions_JS_NUMBER, descriptorpb.FieldOptions_JS_NORMAL}, "v").Enum()
			}
		case descriptorpb.FieldDescriptorProto_TYPE_STRING, descriptorpb.FieldDescriptorProto_TYPE_BYTES:
			if !f.is2024() && g.chance(10, "ctype") {
				getOpts().Ctype = pick(g, []descriptorpb.FieldOptions_CType{descriptorpb.FieldOptions_CORD, descriptorpb.FieldOptions_STRING_PIECE, descriptorpb.FieldOptions_STRING}, "v").Enum()
			}
		}
		if g.chance(20, "debug-redact") {
			getOpts().DebugRedact = proto.Bool(true)
		}
		if g.chance(25, "retention") {
			getOpts().Retention = descriptorpb.FieldOptions_RETENTION_SOURCE.Enum()
		}
	}
	if g.o.Lazy && class == tMessage && sh != shapeMap && !delimited && g.chance(3, "lazy") {
		getOpts().Lazy = proto.Bool(true)
	}
	_ = legacyRequired
	if fs != nil {
		getOpts().Features = fs
	}
	opts = customize(g, f, "Field", opts)
	if opts == nil && g.o.Loose && g.chance(25, "empty-field-options") {
		opts = &descriptorpb.FieldOptions{}
	}
	fd.Options = opts
	return fd
}

// mapEntry synthesises the XxxEntry message of a map field the way protoc does.
func (g *gen) mapEntry(fc *fieldCtx, fieldName string, getFS func() *fset) *dp {
	f := fc.f
	ename := mapEntryName(fieldName)
	fc.scope.take(ename)
	kt := pick(g, mapKeyTypes, "map-key")
	key := &fldp{Name: proto.String("key"), Number: proto.Int32(1), Label: descriptorpb.FieldDescriptorProto_LABEL_OPTIONAL.Enum(), Type: kt.Enum()}
	val := &fldp{Name: proto.String("value"), Number: proto.Int32(2), Label: descriptorpb.FieldDescriptorProto_LABEL_OPTIONAL.Enum()}
	stringy := kt == descriptorpb.FieldDescriptorProto_TYPE_STRING
	switch g.weighted("map-value", 5, 2, 3) {
	case 0:
		vt := pick(g, scalarTypes, "map-value-type")
		val.Type = vt.Enum()
		stringy = stringy || vt == descriptorpb.FieldDescriptorProto_TYPE_STRING
	case 1:
		// the entry's value field is a plain singular field of the file: proto3 and IMPLICIT files need an
		// open enum, and every map value enum must start at zero
		needOpen := f.syntax == "proto3" || (f.editions() && f.ft.implicit)
		if cands := g.visibleEnums(f, needOpen, true); len(cands) > 0 {
			val.Type = descriptorpb.FieldDescriptorProto_TYPE_ENUM.Enum()
			val.TypeName = proto.String("." + pick(g, cands, "map-enum").full)
		} else {
			val.Type = descriptorpb.FieldDescriptorProto_TYPE_INT32.Enum()
		}
	default:
		if cands := g.visibleMsgs(f, math.MaxInt); len(cands) > 0 {
			val.Type = descriptorpb.FieldDescriptorProto_TYPE_MESSAGE.Enum()
			val.TypeName = proto.String("." + pick(g, cands, "map-msg").full)
		} else {
			val.Type = descriptorpb.FieldDescriptorProto_TYPE_BYTES.Enum()
		}
	}
	if f.jsonMode == 2 {
		key.JsonName = proto.String("key")
		val.JsonName = proto.String("value")
	}
	if f.editions() && stringy && g.chance(4, "map-utf8") {
		getFS().Utf8Validation = pick(g, []descriptorpb.FeatureSet_Utf8Validation{descriptorpb.FeatureSet_VERIFY, descriptorpb.FeatureSet_NONE}, "v").Enum()
	}
	return &dp{Name: proto.String(ename), Field: []*fldp{key, val}, Options: &descriptorpb.MessageOptions{MapEntry: proto.Bool(true)}}
}

// ---------------------------------------------------------------------------------------------
// extensions

func (g *gen) extendable(f *fileCtx) []*msgSym {
	var out []*msgSym
	for _, v := range f.visible {
		for _, m := range v.msgs {
			if len(m.ranges) > 0 {
				out = append(out, m)
			}
		}
	}
	return out
}

func (g *gen) extNumber(e *msgSym) (int32, bool) {
	for try := 0; try < 6; try++ {
		r := pick(g, e.ranges, "ext-range")
		hi := int64(r[1]) - 1
		var n int64
		switch g.weighted("ext-pos", 3, 1, 2) {
		case 0:
			n = int64(r[0]) + int64(try)
		case 1:
			n = hi
		default:
			span := hi - int64(r[0])
			if span > 1<<30 {
				span = 1 << 30
			}
			n = int64(r[0]) + int64(g.n(0, int(span), "ext-offset"))
		}
		if n > hi {
			n = hi
		}
		if n >= 19000 && n <= 19999 || e.extUsed[int32(n)] {
			continue
		}
		e.extUsed[int32(n)] = true
		return int32(n), true
	}
	return 0, false
}

// extensions declares extensions in the scope of message m, or of the file when m is nil.
func (g *gen) extensions(f *fileCtx, m *msgSym) {
	var fc *fieldCtx
	var list *[]*fldp
	if m == nil {
		fc = &fieldCtx{f: f, scope: g.scope(f.pkg), prefix: f.pkg, nested: &f.fd.MessageType, isExt: true}
		list = &f.fd.Extension
	} else {
		fc = &fieldCtx{f: f, m: m, scope: m.sc, prefix: m.full, nested: &m.dp.NestedType, isExt: true}
		list = &m.dp.Extension
	}
	g.repeat("extensions", 0, g.o.MaxExtensions, func(int) {
		var extendee string
		var num int32
		if f.syntax == "proto3" {
			return // proto3 may only extend the descriptor options messages (see customOptionDecls)
		}
		cands := g.extendable(f)
		if len(cands) == 0 {
			return
		}
		e := pick(g, cands, "extendee")
		var ok bool
		if num, ok = g.extNumber(e); !ok {
			return
		}
		extendee = "." + e.full
		sh := shapeSingular
		if g.chance(3, "ext-repeated") {
			sh = shapeRepeated
		}
		x := g.field(fc, sh)
		x.Number = proto.Int32(num)
		x.Extendee = proto.String(extendee)
		*list = append(*list, x)
	})
}

// ---------------------------------------------------------------------------------------------
// services

func (g *gen) services(f *fileCtx) {
	msgs := g.visibleMsgs(f, math.MaxInt)
	if len(msgs) == 0 {
		return
	}
	sc := g.scope(f.pkg)
	g.repeat("services", 0, g.o.MaxServices, func(k int) {
		name := g.freshName(sc, serviceNames, "service-name", nil)
		sc.take(name)
		s := &descriptorpb.ServiceDescriptorProto{Name: proto.String(name)}
		ssc := g.scope(join(f.pkg, name))
		var so *descriptorpb.ServiceOptions
		if !g.o.NoOptions && g.chance(6, "svc-deprecated") {
			so = &descriptorpb.ServiceOptions{Deprecated: proto.Bool(true)}
		}
		if ns := g.namingStyle(f, "svc-style"); ns != nil {
			if so == nil {
				so = &descriptorpb.ServiceOptions{}
			}
			so.Features = ns
		}
		so = customize(g, f, "Service", so)
		if so == nil && g.o.Loose && g.chance(10, "empty-svc-options") {
			so = &descriptorpb.ServiceOptions{}
		}
		s.Options = so
		g.repeat("methods", 0, 3, func(j int) {
			mn := g.freshName(ssc, methodNames, "method-name", nil)
			ssc.take(mn)
			md := &descriptorpb.MethodDescriptorProto{Name: proto.String(mn),
				InputType:  proto.String("." + pick(g, msgs, "input").full),
				OutputType: proto.String("." + pick(g, msgs, "output").full)}
			if g.chance(3, "client-streaming") {
				md.ClientStreaming = proto.Bool(true)
			}
			if g.chance(3, "server-streaming") {
				md.ServerStreaming = proto.Bool(true)
			}
			var mo *descriptorpb.MethodOptions
			if !g.o.NoOptions && g.chance(6, "idempotency") {
				mo = &descriptorpb.MethodOptions{IdempotencyLevel: pick(g, []descriptorpb.MethodOptions_IdempotencyLevel{descriptorpb.MethodOptions_NO_SIDE_EFFECTS, descriptorpb.MethodOptions_IDEMPOTENT, descriptorpb.MethodOptions_IDEMPOTENCY_UNKNOWN}, "v").Enum()}
			}
			if !g.o.NoOptions && g.chance(10, "method-deprecated") {
				if mo == nil {
					mo = &descriptorpb.MethodOptions{}
				}
				mo.Deprecated = proto.Bool(true)
			}
			if ns := g.namingStyle(f, "method-style"); ns != nil {
				if mo == nil {
					mo = &descriptorpb.MethodOptions{}
				}
				mo.Features = ns
			}
			mo = customize(g, f, "Method", mo)
			if mo == nil && g.o.Loose && g.chance(10, "empty-method-options") {
				mo = &descriptorpb.MethodOptions{}
			}
			md.Options = mo
			s.Method = append(s.Method, md)
		})
		f.fd.Service = append(f.fd.Service, s)
	})
}

var _ = fmt.Sprintf
