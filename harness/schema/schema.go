// Package schema is the shared random *schema* generator of the harness (DESIGN.md §2.2): it draws
// sets of google.protobuf.FileDescriptorProto messages that are valid by construction — valid for
// protoc's rules as far as a descriptor proto can express them, and therefore valid for
// protodesc.NewFile / NewFiles — and gives helpers to build, enumerate, serialise and classify them.
//
// # API
//
//	files := schema.Draw(t, schema.Opts{})            // 1..3 files, files[i] only imports files[j], j < i
//	reg, err := schema.Build(files)                   // *protoregistry.Files (protodesc.NewFile per file, in order)
//	mds := schema.Messages(reg, files)                // every message of the set, map entries excluded, stable order
//	xts := schema.ExtensionTypes(reg, files)          // dynamicpb extension types of every extension of the set
//	types := schema.Types(reg, files)                 // *protoregistry.Types with dynamicpb message/enum/extension types
//	raw := schema.Marshal(files)                      // [][]byte  — put THIS in a pbt case (JSON round-trips as base64)
//	files, err = schema.Unmarshal(raw)                // inverse (wire form keeps unknown option fields, unlike protojson)
//	txt := schema.Text(files)                         // one-line prototext per file, for humans reading a replay file
//	labels := schema.Constructs(files)                // sorted construct labels ("map", "default:bytes", "editions:2024", …)
//	reg0, err := schema.NewRegistry(files)            // registry with only the well-known imports, to build the set by hand
//	set := schema.FileSet(files)                      // FileDescriptorSet incl. the well-known files the set imports (for protodesc.NewFiles)
//
// A pbt case holds `Raw [][]byte` (+ optionally `Text []string`, never consulted by the check); the
// check function starts with schema.Unmarshal. All randomness goes through the *rapid.T, so cases
// shrink: every count has 0 (or 1) as its minimum and every optional construct is "off" at the minimal
// draw, so a shrunk schema is one file with the single declaration that matters.
//
// # What a drawn set contains
//
// syntax proto2 / proto3 / editions 2023 / editions 2024 per file; packages (incl. the empty package,
// nested packages and several files sharing a package); imports between the files of the set (plain
// and public, unused ones too; edition 2024: option imports, resolvable and not); messages nested to
// depth <= MaxDepth; all 18 field kinds; optional / required (proto2) / repeated; proto3 `optional`
// with its synthetic oneofs placed after the real oneofs; packed = true / false / unset; real oneofs
// (members consecutive, groups allowed); map fields with their synthesised XxxEntry message
// (map_entry option, every legal key kind, scalar / enum / message values); proto2 groups and editions
// DELIMITED fields (group-like and not, inherited from the file or set on the field); enums open and
// closed, allow_alias, negative and boundary numbers, first value 0 where the language demands it;
// extension ranges (up to 2^29-1, with and without options) and file- and message-scoped extensions of
// every kind (also of messages of imported files); reserved names and ranges (messages and enums);
// default values for every scalar kind in the canonical descriptor form (NaN, +-Inf, -0, boundary
// integers, arbitrary bytes C-escaped, strings with NUL / quotes / astral runes / 128-byte lengths,
// enum defaults incl. aliases); explicit json_name (some fields, or every field the way protoc writes
// it); services and methods with both streaming flags; ordinary options on every kind of declaration;
// for editions files, feature overrides at every place where descriptor.proto's `targets` allow them
// (file: all six features; message: json_format; enum: enum_type, json_format; field and extension:
// field_presence incl. LEGACY_REQUIRED, repeated_field_encoding, utf8_validation, message_encoding;
// edition 2024 additionally enforce_naming_style on file / message / field / oneof / enum / enum value /
// extension range / service / method, default_symbol_visibility on the file, and `export` / `local`
// visibility on messages and enums). protoc-only rules that protodesc does not check are respected
// too (JSON-name uniqueness per message unless the message resolves json_format=LEGACY_BEST_EFFORT
// or is proto2; no field_presence on oneof members / repeated fields / extensions; no defaults in
// proto3; no IMPLICIT presence on message fields; enum value names unique after prefix stripping;
// extension numbers unique per extendee over the whole set; no required cycles, so every message
// has a finite initialised value).
//
// Everything is emitted in the *canonical descriptor-proto form*, i.e. exactly what
// protodesc.ToFileDescriptorProto writes for the same schema: fully-qualified ".pkg.Type" names,
// type and label always present, canonical default strings, `syntax` absent for proto2, editions
// files with TYPE_MESSAGE + features instead of TYPE_GROUP and LABEL_OPTIONAL + LEGACY_REQUIRED
// instead of LABEL_REQUIRED, streaming flags only when true, options nil unless something is set.
// Opts.Loose adds the documented *non-canonical but equivalent* spellings (syntax "proto2" written
// out, protoc/C++-style float default strings such as "100000000" for 1e+08, four-element spans on
// one line, empty-but-present options messages) for C34's normalisation leg.
//
// # dynamicpb
//
// Sets are closed (every referenced type is in the set) unless Opts.WellKnown is true, in which case a
// file may import google/protobuf/{descriptor,any,timestamp,duration,struct,wrappers,field_mask,
// empty,go_features}.proto: message fields of well-known types, custom options (extensions of the
// *Options messages, used as unknown-field option values on later declarations) and the (pb.go)
// features. Build resolves those imports from protoregistry.GlobalFiles and registers the global
// descriptors in the returned registry. Messages of a set are meant to be instantiated with
// dynamicpb.NewMessage and filled by gen.DrawMessage (pass MsgOpts.ExtTypes built from
// ExtensionTypes, or use Types as the resolver): every enum has >= 1 value, required message
// fields never form a cycle, map keys are of the legal kinds, extension numbers never collide.
package schema

import (
	"fmt"
	"sort"
	"strings"

	"google.golang.org/protobuf/encoding/prototext"
	"google.golang.org/protobuf/proto"
	"google.golang.org/protobuf/reflect/protodesc"
	"google.golang.org/protobuf/reflect/protoreflect"
	"google.golang.org/protobuf/reflect/protoregistry"
	"google.golang.org/protobuf/types/descriptorpb"
	"google.golang.org/protobuf/types/dynamicpb"
	"pgregory.net/rapid"

	// the well-known files a set may import with Opts.WellKnown
	_ "google.golang.org/protobuf/types/gofeaturespb"
	_ "google.golang.org/protobuf/types/known/anypb"
	_ "google.golang.org/protobuf/types/known/durationpb"
	_ "google.golang.org/protobuf/types/known/emptypb"
	_ "google.golang.org/protobuf/types/known/fieldmaskpb"
	_ "google.golang.org/protobuf/types/known/structpb"
	_ "google.golang.org/protobuf/types/known/timestamppb"
	_ "google.golang.org/protobuf/types/known/wrapperspb"
)

// Opts steers Draw. The zero value gives the default mix (all four syntaxes, closed sets, canonical form).
type Opts struct {
	MaxFiles      int // files per set, 1..MaxFiles (default 3)
	MaxMessages   int // top-level messages per file, 0..MaxMessages (default 4)
	MaxFields     int // fields per message, 0..MaxFields (default 7)
	MaxDepth      int // message nesting depth (default 3)
	MaxEnums      int // enums per scope (default 2)
	MaxValues     int // values per enum, 1..MaxValues (default 5)
	MaxOneofs     int // real oneofs per message (default 2)
	MaxExtensions int // extension declarations per scope (default 3)
	MaxServices   int // services per file (default 1)
	MaxRanges     int // reserved / extension ranges per message or enum (default 3)

	// Syntaxes restricts the per-file syntax: any of "proto2", "proto3", "2023", "2024" (default: all).
	Syntaxes []string

	// AdversarialNames draws identifiers from the vocabulary that stresses the Go code generator:
	// names that collide after camel-casing (foo_bar / fooBar / FooBar), get_/set_/has_/clear_/which_
	// prefixes and _builder suffixes, Go keywords and predeclared identifiers, leading / doubled /
	// trailing underscores, digits after underscores, reset / string / proto_message / descriptor /
	// proto_reflect / xxx_*, names equal to a parent or sibling type. Off by default.
	AdversarialNames bool

	NoGroups     bool // no proto2 groups and no DELIMITED encoding
	NoExtensions bool // no extension ranges and no extensions
	NoServices   bool
	NoRequired   bool // no required / LEGACY_REQUIRED fields
	NoDefaults   bool // no explicit default values
	NoMaps       bool
	NoOptions    bool // no ordinary options (deprecated, jstype, …); features and packed still appear

	Lazy       bool // [lazy = true] on some message fields (and message-typed extensions)
	WellKnown  bool // allow imports of well-known files, custom options and (pb.go) features (see package doc)
	SourceInfo bool // attach source_code_info (locations with comments) to some files
	Loose      bool // add non-canonical but equivalent spellings (see package doc)
}

func (o Opts) withDefaults() Opts {
	def := func(p *int, v int) {
		if *p == 0 {
			*p = v
		}
	}
	def(&o.MaxFiles, 3)
	def(&o.MaxMessages, 4)
	def(&o.MaxFields, 7)
	def(&o.MaxDepth, 3)
	def(&o.MaxEnums, 2)
	def(&o.MaxValues, 5)
	def(&o.MaxOneofs, 2)
	def(&o.MaxExtensions, 3)
	def(&o.MaxServices, 1)
	def(&o.MaxRanges, 3)
	if len(o.Syntaxes) == 0 {
		o.Syntaxes = []string{"proto2", "proto3", "2023", "2024"}
	}
	return o
}

// Draw draws one schema set. files[i] imports only files[j] with j < i (and, with Opts.WellKnown,
// well-known files), so the slice is already in dependency order.
func Draw(t *rapid.T, o Opts) []*descriptorpb.FileDescriptorProto {
	g := &gen{t: t, o: o.withDefaults(), scopes: map[string]*scope{}}
	return g.run()
}

// Generator wraps Draw as a rapid generator.
func Generator(o Opts) *rapid.Generator[[]*descriptorpb.FileDescriptorProto] {
	return rapid.Custom(func(t *rapid.T) []*descriptorpb.FileDescriptorProto { return Draw(t, o) })
}

// ---------------------------------------------------------------------------------------------
// building

// wellKnownClosure returns the paths of the global (linked) files the set imports, transitively,
// dependencies first.
func wellKnownClosure(files []*descriptorpb.FileDescriptorProto) ([]protoreflect.FileDescriptor, error) {
	own := map[string]bool{}
	for _, f := range files {
		own[f.GetName()] = true
	}
	var out []protoreflect.FileDescriptor
	seen := map[string]bool{}
	var add func(path string) error
	add = func(path string) error {
		if seen[path] || own[path] {
			return nil
		}
		seen[path] = true
		fd, err := protoregistry.GlobalFiles.FindFileByPath(path)
		if err != nil {
			return fmt.Errorf("schema: import %q is neither in the set nor linked in: %v", path, err)
		}
		imps := fd.Imports()
		for i := 0; i < imps.Len(); i++ {
			if err := add(imps.Get(i).Path()); err != nil {
				return err
			}
		}
		out = append(out, fd)
		return nil
	}
	for _, f := range files {
		for _, d := range f.GetDependency() {
			if err := add(d); err != nil {
				return nil, err
			}
		}
	}
	return out, nil
}

// WellKnownImports returns the linked (global) files the set imports, transitively, dependencies first.
func WellKnownImports(files []*descriptorpb.FileDescriptorProto) ([]protoreflect.FileDescriptor, error) {
	return wellKnownClosure(files)
}

// NewRegistry returns a fresh registry holding only the well-known files the set imports: the
// starting point for building the set file by file.
func NewRegistry(files []*descriptorpb.FileDescriptorProto) (*protoregistry.Files, error) {
	reg := &protoregistry.Files{}
	wk, err := wellKnownClosure(files)
	if err != nil {
		return nil, err
	}
	for _, fd := range wk {
		if err := reg.RegisterFile(fd); err != nil {
			return nil, err
		}
	}
	return reg, nil
}

// Build turns a set into a fresh registry: protodesc.NewFile for each file in slice order, each
// registered before the next is built. Well-known imports are resolved from
// protoregistry.GlobalFiles and registered (the same descriptor values) in the result.
// Unresolvable edition-2024 option imports stay placeholders, as protodesc documents.
func Build(files []*descriptorpb.FileDescriptorProto) (*protoregistry.Files, error) {
	reg := &protoregistry.Files{}
	wk, err := wellKnownClosure(files)
	if err != nil {
		return nil, err
	}
	for _, fd := range wk {
		if err := reg.RegisterFile(fd); err != nil {
			return nil, err
		}
	}
	for _, p := range files {
		fd, err := protodesc.NewFile(p, reg)
		if err != nil {
			return nil, fmt.Errorf("schema: NewFile(%s): %w", p.GetName(), err)
		}
		if err := reg.RegisterFile(fd); err != nil {
			return nil, fmt.Errorf("schema: RegisterFile(%s): %w", p.GetName(), err)
		}
	}
	return reg, nil
}

// FileSet returns the set as a FileDescriptorSet for protodesc.NewFiles; the descriptor protos of
// the well-known files the set imports are added (NewFiles only resolves inside the set).
func FileSet(files []*descriptorpb.FileDescriptorProto) *descriptorpb.FileDescriptorSet {
	set := &descriptorpb.FileDescriptorSet{}
	wk, _ := wellKnownClosure(files)
	for _, fd := range wk {
		set.File = append(set.File, protodesc.ToFileDescriptorProto(fd))
	}
	set.File = append(set.File, files...)
	return set
}

// Files returns the built descriptors of the set's own files, in slice order.
func Files(reg *protoregistry.Files, files []*descriptorpb.FileDescriptorProto) []protoreflect.FileDescriptor {
	var out []protoreflect.FileDescriptor
	for _, p := range files {
		fd, err := reg.FindFileByPath(p.GetName())
		if err != nil {
			panic("schema.Files: " + err.Error())
		}
		out = append(out, fd)
	}
	return out
}

// Messages returns every message declared by the set's own files (nested ones and group messages
// included, map entries excluded), files in slice order, declarations in pre-order.
func Messages(reg *protoregistry.Files, files []*descriptorpb.FileDescriptorProto) []protoreflect.MessageDescriptor {
	var out []protoreflect.MessageDescriptor
	var walk func(ms protoreflect.MessageDescriptors)
	walk = func(ms protoreflect.MessageDescriptors) {
		for i := 0; i < ms.Len(); i++ {
			m := ms.Get(i)
			if !m.IsMapEntry() {
				out = append(out, m)
			}
			walk(m.Messages())
		}
	}
	for _, fd := range Files(reg, files) {
		walk(fd.Messages())
	}
	return out
}

// Extensions returns every extension declared by the set's own files (file- and message-scoped).
func Extensions(reg *protoregistry.Files, files []*descriptorpb.FileDescriptorProto) []protoreflect.ExtensionDescriptor {
	var out []protoreflect.ExtensionDescriptor
	addAll := func(xs protoreflect.ExtensionDescriptors) {
		for i := 0; i < xs.Len(); i++ {
			out = append(out, xs.Get(i))
		}
	}
	var walk func(ms protoreflect.MessageDescriptors)
	walk = func(ms protoreflect.MessageDescriptors) {
		for i := 0; i < ms.Len(); i++ {
			addAll(ms.Get(i).Extensions())
			walk(ms.Get(i).Messages())
		}
	}
	for _, fd := range Files(reg, files) {
		addAll(fd.Extensions())
		walk(fd.Messages())
	}
	return out
}

// ExtensionTypes returns a dynamicpb extension type for every extension of the set.
func ExtensionTypes(reg *protoregistry.Files, files []*descriptorpb.FileDescriptorProto) []protoreflect.ExtensionType {
	var out []protoreflect.ExtensionType
	for _, xd := range Extensions(reg, files) {
		out = append(out, dynamicpb.NewExtensionType(xd))
	}
	return out
}

// ExtTypesOf adapts ExtensionTypes to gen.MsgOpts.ExtTypes (extensions by extendee, sorted by number).
func ExtTypesOf(reg *protoregistry.Files, files []*descriptorpb.FileDescriptorProto) func(protoreflect.FullName) []protoreflect.ExtensionType {
	by := map[protoreflect.FullName][]protoreflect.ExtensionType{}
	for _, xt := range ExtensionTypes(reg, files) {
		n := xt.TypeDescriptor().ContainingMessage().FullName()
		by[n] = append(by[n], xt)
	}
	for _, l := range by {
		sort.Slice(l, func(i, j int) bool { return l[i].TypeDescriptor().Number() < l[j].TypeDescriptor().Number() })
	}
	return func(n protoreflect.FullName) []protoreflect.ExtensionType { return by[n] }
}

// Types returns a type registry holding dynamicpb types for every message, enum and extension of
// the set (usable as the Resolver of the codecs).
func Types(reg *protoregistry.Files, files []*descriptorpb.FileDescriptorProto) (*protoregistry.Types, error) {
	ts := &protoregistry.Types{}
	for _, md := range Messages(reg, files) {
		if err := ts.RegisterMessage(dynamicpb.NewMessageType(md)); err != nil {
			return nil, err
		}
	}
	var enums func(es protoreflect.EnumDescriptors) error
	enums = func(es protoreflect.EnumDescriptors) error {
		for i := 0; i < es.Len(); i++ {
			if err := ts.RegisterEnum(dynamicpb.NewEnumType(es.Get(i))); err != nil {
				return err
			}
		}
		return nil
	}
	var walk func(ms protoreflect.MessageDescriptors) error
	walk = func(ms protoreflect.MessageDescriptors) error {
		for i := 0; i < ms.Len(); i++ {
			if err := enums(ms.Get(i).Enums()); err != nil {
				return err
			}
			if err := walk(ms.Get(i).Messages()); err != nil {
				return err
			}
		}
		return nil
	}
	for _, fd := range Files(reg, files) {
		if err := enums(fd.Enums()); err != nil {
			return nil, err
		}
		if err := walk(fd.Messages()); err != nil {
			return nil, err
		}
	}
	for _, xt := range ExtensionTypes(reg, files) {
		if err := ts.RegisterExtension(xt); err != nil {
			return nil, err
		}
	}
	return ts, nil
}

// ---------------------------------------------------------------------------------------------
// serialisation

// Marshal returns the wire form of every file (deterministic); the representation to store in a case.
func Marshal(files []*descriptorpb.FileDescriptorProto) [][]byte {
	out := make([][]byte, len(files))
	for i, f := range files {
		b, err := proto.MarshalOptions{Deterministic: true}.Marshal(f)
		if err != nil {
			panic("schema.Marshal: " + err.Error())
		}
		if b == nil {
			b = []byte{}
		}
		out[i] = b
	}
	return out
}

// Unmarshal is the inverse of Marshal.
func Unmarshal(raw [][]byte) ([]*descriptorpb.FileDescriptorProto, error) {
	out := make([]*descriptorpb.FileDescriptorProto, len(raw))
	for i, b := range raw {
		out[i] = &descriptorpb.FileDescriptorProto{}
		if err := proto.Unmarshal(b, out[i]); err != nil {
			return nil, fmt.Errorf("schema.Unmarshal: file %d: %v", i, err)
		}
	}
	return out, nil
}

// Text renders each file as one line of prototext (for people reading replay files and samples).
func Text(files []*descriptorpb.FileDescriptorProto) []string {
	out := make([]string, len(files))
	for i, f := range files {
		out[i] = strings.Join(strings.Fields(prototext.MarshalOptions{}.Format(f)), " ")
	}
	return out
}
