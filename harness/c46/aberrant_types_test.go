package c46

// Struct-tag-only ("aberrant") message types in the style of internal/impl/legacy_aberrant_test.go:
// no Descriptor method, no generated code behind them — the runtime derives their descriptors from
// the `protobuf:"…"` struct tags golang/protobuf-era generators wrote. AbMsg2 is proto2-shaped
// (pointer scalars, defaults, required, group, packed and unpacked lists, extension range),
// AbMsg3 proto3-shaped (value scalars, "proto3" tag option).

import (
	gen2016 "google.golang.org/protobuf/internal/testprotos/legacy/proto2_20160225_2fc053c5"
	gen2019 "google.golang.org/protobuf/internal/testprotos/legacy/proto2_20190205_c823c79e"
	"google.golang.org/protobuf/runtime/protoiface"
	"google.golang.org/protobuf/runtime/protoimpl"
)

const abPkg = "google_golang_org.protobuf.zverif.c46" // what AberrantDeriveFullName makes of the package path

type AbEnum int32

type AbMsg2 struct {
	OptBool     *bool    `protobuf:"varint,1,opt,name=opt_bool,def=1"`
	OptInt32    *int32   `protobuf:"varint,2,opt,name=opt_int32,def=-12345"`
	OptSint32   *int32   `protobuf:"zigzag32,3,opt,name=opt_sint32,def=-3200"`
	OptUint32   *uint32  `protobuf:"varint,4,opt,name=opt_uint32,def=3200"`
	OptInt64    *int64   `protobuf:"varint,5,opt,name=opt_int64,def=-123456789"`
	OptSint64   *int64   `protobuf:"zigzag64,6,opt,name=opt_sint64,def=-6400"`
	OptUint64   *uint64  `protobuf:"varint,7,opt,name=opt_uint64,def=6400"`
	OptFixed32  *uint32  `protobuf:"fixed32,8,opt,name=opt_fixed32,def=320000"`
	OptSfixed32 *int32   `protobuf:"fixed32,9,opt,name=opt_sfixed32,def=-320000"`
	OptFloat    *float32 `protobuf:"fixed32,10,opt,name=opt_float,def=3.14159"`
	OptFixed64  *uint64  `protobuf:"fixed64,11,opt,name=opt_fixed64,def=640000"`
	OptSfixed64 *int64   `protobuf:"fixed64,12,opt,name=opt_sfixed64,def=-640000"`
	OptDouble   *float64 `protobuf:"fixed64,13,opt,name=opt_double,def=3.14159265359"`
	OptString   *string  `protobuf:"bytes,14,opt,name=opt_string,def=hello, \"world!\"\n"`
	OptBytes    []byte   `protobuf:"bytes,15,opt,name=opt_bytes,def=dead\\336\\255\\276\\357beef"`
	OptEnum     *AbEnum  `protobuf:"varint,16,opt,name=opt_enum,enum=google.golang.org.protobuf.zverif.c46.AbEnum"`
	OptMsg      *AbMsg2  `protobuf:"bytes,17,opt,name=opt_msg"`
	OptOther    *AbMsg3  `protobuf:"bytes,18,opt,name=opt_other"`
	OptJSON     *string  `protobuf:"bytes,19,opt,name=opt_json,json=customJson"`
	OptPlain    *int32   `protobuf:"varint,21,opt,name=opt_plain"`
	OptPlainStr *string  `protobuf:"bytes,22,opt,name=opt_plain_str"`

	ReqInt32 *int32  `protobuf:"varint,30,req,name=req_int32"`
	ReqMsg   *AbLeaf `protobuf:"bytes,31,req,name=req_msg"`

	PackBool     []bool    `protobuf:"varint,40,rep,packed,name=pack_bool"`
	PackInt32    []int32   `protobuf:"varint,41,rep,packed,name=pack_int32"`
	PackSint32   []int32   `protobuf:"zigzag32,42,rep,packed,name=pack_sint32"`
	PackUint64   []uint64  `protobuf:"varint,43,rep,packed,name=pack_uint64"`
	PackSint64   []int64   `protobuf:"zigzag64,44,rep,packed,name=pack_sint64"`
	PackFixed32  []uint32  `protobuf:"fixed32,45,rep,packed,name=pack_fixed32"`
	PackFloat    []float32 `protobuf:"fixed32,46,rep,packed,name=pack_float"`
	PackSfixed64 []int64   `protobuf:"fixed64,47,rep,packed,name=pack_sfixed64"`
	PackDouble   []float64 `protobuf:"fixed64,48,rep,packed,name=pack_double"`
	PackEnum     []AbEnum  `protobuf:"varint,49,rep,packed,name=pack_enum,enum=google.golang.org.protobuf.zverif.c46.AbEnum"`

	RepBool   []bool    `protobuf:"varint,60,rep,name=rep_bool"`
	RepInt32  []int32   `protobuf:"varint,61,rep,name=rep_int32"`
	RepSint64 []int64   `protobuf:"zigzag64,62,rep,name=rep_sint64"`
	RepFixed  []uint32  `protobuf:"fixed32,63,rep,name=rep_fixed"`
	RepDouble []float64 `protobuf:"fixed64,64,rep,name=rep_double"`
	RepString []string  `protobuf:"bytes,65,rep,name=rep_string"`
	RepBytes  [][]byte  `protobuf:"bytes,66,rep,name=rep_bytes"`
	RepEnum   []AbEnum  `protobuf:"varint,67,rep,name=rep_enum,enum=google.golang.org.protobuf.zverif.c46.AbEnum"`
	RepMsg    []*AbMsg2 `protobuf:"bytes,68,rep,name=rep_msg"`

	MapStringBool  map[string]bool    `protobuf:"bytes,80,rep,name=map_string_bool" protobuf_key:"bytes,1,opt,name=key" protobuf_val:"varint,2,opt,name=value"`
	MapInt32Sint   map[int32]int64    `protobuf:"bytes,81,rep,name=map_int32_sint" protobuf_key:"varint,1,opt,name=key" protobuf_val:"zigzag64,2,opt,name=value"`
	MapSint32Fix   map[int32]uint32   `protobuf:"bytes,82,rep,name=map_sint32_fix" protobuf_key:"zigzag32,1,opt,name=key" protobuf_val:"fixed32,2,opt,name=value"`
	MapUint64Bytes map[uint64][]byte  `protobuf:"bytes,83,rep,name=map_uint64_bytes" protobuf_key:"varint,1,opt,name=key" protobuf_val:"bytes,2,opt,name=value"`
	MapBoolDouble  map[bool]float64   `protobuf:"bytes,84,rep,name=map_bool_double" protobuf_key:"varint,1,opt,name=key" protobuf_val:"fixed64,2,opt,name=value"`
	MapFixed64Enum map[uint64]AbEnum  `protobuf:"bytes,85,rep,name=map_fixed64_enum" protobuf_key:"fixed64,1,opt,name=key" protobuf_val:"varint,2,opt,name=value,enum=google.golang.org.protobuf.zverif.c46.AbEnum"`
	MapStringMsg   map[string]*AbMsg2 `protobuf:"bytes,86,rep,name=map_string_msg" protobuf_key:"bytes,1,opt,name=key" protobuf_val:"bytes,2,opt,name=value"`
	MapSfixedStr   map[int32]string   `protobuf:"bytes,87,rep,name=map_sfixed_str" protobuf_key:"fixed32,1,opt,name=key" protobuf_val:"bytes,2,opt,name=value"`

	Union isAbMsg2Union `protobuf_oneof:"union"`
	Other isAbMsg2Other `protobuf_oneof:"other"`

	Ignored chan int

	XXX_InternalExtensions protoimpl.ExtensionFields
	XXX_unrecognized       []byte
}

func (m *AbMsg2) Reset()         { *m = AbMsg2{} }
func (m *AbMsg2) String() string { return "AbMsg2" }
func (m *AbMsg2) ProtoMessage()  {}
func (m *AbMsg2) ExtensionRangeArray() []protoiface.ExtensionRangeV1 {
	return []protoiface.ExtensionRangeV1{{Start: 200, End: 299}, {Start: 1000, End: 536870911}}
}
func (m *AbMsg2) XXX_OneofWrappers() []any {
	return []any{(*AbMsg2_UBool)(nil), (*AbMsg2_USint32)(nil), (*AbMsg2_UFixed64)(nil), (*AbMsg2_UFloat)(nil),
		(*AbMsg2_UString)(nil), (*AbMsg2_UBytes)(nil), (*AbMsg2_UEnum)(nil), (*AbMsg2_UMsg)(nil), (*AbMsg2_ULeaf)(nil),
		(*AbMsg2_OInt64)(nil), (*AbMsg2_OString)(nil)}
}

type isAbMsg2Union interface{ isAbMsg2Union() }
type isAbMsg2Other interface{ isAbMsg2Other() }

type AbMsg2_UBool struct {
	UBool bool `protobuf:"varint,100,opt,name=u_bool,oneof"`
}
type AbMsg2_USint32 struct {
	USint32 int32 `protobuf:"zigzag32,101,opt,name=u_sint32,oneof,def=-7"`
}
type AbMsg2_UFixed64 struct {
	UFixed64 uint64 `protobuf:"fixed64,102,opt,name=u_fixed64,oneof"`
}
type AbMsg2_UFloat struct {
	UFloat float32 `protobuf:"fixed32,103,opt,name=u_float,oneof,def=1.5"`
}
type AbMsg2_UString struct {
	UString string `protobuf:"bytes,104,opt,name=u_string,oneof,def=a,b"`
}
type AbMsg2_UBytes struct {
	UBytes []byte `protobuf:"bytes,105,opt,name=u_bytes,oneof"`
}
type AbMsg2_UEnum struct {
	UEnum AbEnum `protobuf:"varint,106,opt,name=u_enum,enum=google.golang.org.protobuf.zverif.c46.AbEnum,oneof"`
}
type AbMsg2_UMsg struct {
	UMsg *AbMsg2 `protobuf:"bytes,107,opt,name=u_msg,oneof"`
}
type AbMsg2_ULeaf struct {
	ULeaf *AbLeaf `protobuf:"bytes,108,opt,name=u_leaf,oneof"`
}
type AbMsg2_OInt64 struct {
	OInt64 int64 `protobuf:"varint,98,opt,name=o_int64,oneof"`
}
type AbMsg2_OString struct {
	OString string `protobuf:"bytes,99,opt,name=o_string,oneof"`
}

func (*AbMsg2_UBool) isAbMsg2Union()    {}
func (*AbMsg2_USint32) isAbMsg2Union()  {}
func (*AbMsg2_UFixed64) isAbMsg2Union() {}
func (*AbMsg2_UFloat) isAbMsg2Union()   {}
func (*AbMsg2_UString) isAbMsg2Union()  {}
func (*AbMsg2_UBytes) isAbMsg2Union()   {}
func (*AbMsg2_UEnum) isAbMsg2Union()    {}
func (*AbMsg2_UMsg) isAbMsg2Union()     {}
func (*AbMsg2_ULeaf) isAbMsg2Union()    {}
func (*AbMsg2_OInt64) isAbMsg2Other()   {}
func (*AbMsg2_OString) isAbMsg2Other()  {}

// AbGrp has group fields. A struct-tag-only type names its group message after the Go type, outside
// the scope of the field, which no .proto source can express; it is compared with dynamicpb of the
// derived descriptor only.
type AbGrp struct {
	OptGroup         *Group   `protobuf:"group,1,opt,name=Group"`
	RepGroup         []*Group `protobuf:"group,2,rep,name=RepGroup"`
	Str              *string  `protobuf:"bytes,3,opt,name=str"`
	Leaf             *AbLeaf  `protobuf:"bytes,4,opt,name=leaf"`
	XXX_unrecognized []byte
}

func (m *AbGrp) Reset()         { *m = AbGrp{} }
func (m *AbGrp) String() string { return "AbGrp" }
func (m *AbGrp) ProtoMessage()  {}

// Group is the message of AbGrp's group fields.
type Group struct {
	A                *int32   `protobuf:"varint,1,opt,name=a"`
	B                []string `protobuf:"bytes,2,rep,name=b"`
	C                *AbLeaf  `protobuf:"bytes,3,opt,name=c"`
	XXX_unrecognized []byte
}

func (m *Group) Reset()         { *m = Group{} }
func (m *Group) String() string { return "Group" }
func (m *Group) ProtoMessage()  {}

// AbLeaf has a required field and no unknown-field storage.
type AbLeaf struct {
	Req *string `protobuf:"bytes,1,req,name=req"`
	Opt *uint32 `protobuf:"fixed32,2,opt,name=opt,def=9"`
}

func (m *AbLeaf) Reset()         { *m = AbLeaf{} }
func (m *AbLeaf) String() string { return "AbLeaf" }
func (m *AbLeaf) ProtoMessage()  {}

type AbMsg3 struct {
	FBool     bool    `protobuf:"varint,1,opt,name=f_bool,proto3"`
	FInt32    int32   `protobuf:"varint,2,opt,name=f_int32,proto3"`
	FSint32   int32   `protobuf:"zigzag32,3,opt,name=f_sint32,proto3"`
	FUint32   uint32  `protobuf:"varint,4,opt,name=f_uint32,proto3"`
	FInt64    int64   `protobuf:"varint,5,opt,name=f_int64,proto3"`
	FSint64   int64   `protobuf:"zigzag64,6,opt,name=f_sint64,proto3"`
	FUint64   uint64  `protobuf:"varint,7,opt,name=f_uint64,proto3"`
	FFixed32  uint32  `protobuf:"fixed32,8,opt,name=f_fixed32,proto3"`
	FSfixed32 int32   `protobuf:"fixed32,9,opt,name=f_sfixed32,proto3"`
	FFloat    float32 `protobuf:"fixed32,10,opt,name=f_float,proto3"`
	FFixed64  uint64  `protobuf:"fixed64,11,opt,name=f_fixed64,proto3"`
	FSfixed64 int64   `protobuf:"fixed64,12,opt,name=f_sfixed64,proto3"`
	FDouble   float64 `protobuf:"fixed64,13,opt,name=f_double,proto3"`
	FString   string  `protobuf:"bytes,14,opt,name=f_string,proto3"`
	FBytes    []byte  `protobuf:"bytes,15,opt,name=f_bytes,proto3"`
	FEnum     AbEnum  `protobuf:"varint,16,opt,name=f_enum,proto3,enum=google.golang.org.protobuf.zverif.c46.AbEnum"`
	FMsg      *AbMsg3 `protobuf:"bytes,17,opt,name=f_msg,proto3"`
	FJSON     string  `protobuf:"bytes,18,opt,name=f_json,json=Other_Name,proto3"`

	RInt32  []int32   `protobuf:"varint,30,rep,packed,name=r_int32,proto3"`
	RSint64 []int64   `protobuf:"zigzag64,31,rep,packed,name=r_sint64,proto3"`
	RFloat  []float32 `protobuf:"fixed32,32,rep,packed,name=r_float,proto3"`
	RBool   []bool    `protobuf:"varint,33,rep,packed,name=r_bool,proto3"`
	REnum   []AbEnum  `protobuf:"varint,34,rep,packed,name=r_enum,proto3,enum=google.golang.org.protobuf.zverif.c46.AbEnum"`
	RString []string  `protobuf:"bytes,35,rep,name=r_string,proto3"`
	RBytes  [][]byte  `protobuf:"bytes,36,rep,name=r_bytes,proto3"`
	RMsg    []*AbMsg3 `protobuf:"bytes,37,rep,name=r_msg,proto3"`

	MStringInt32 map[string]int32   `protobuf:"bytes,50,rep,name=m_string_int32,proto3" protobuf_key:"bytes,1,opt,name=key,proto3" protobuf_val:"varint,2,opt,name=value,proto3"`
	MInt64String map[int64]string   `protobuf:"bytes,51,rep,name=m_int64_string,proto3" protobuf_key:"varint,1,opt,name=key,proto3" protobuf_val:"bytes,2,opt,name=value,proto3"`
	MUint32Msg   map[uint32]*AbMsg3 `protobuf:"bytes,52,rep,name=m_uint32_msg,proto3" protobuf_key:"varint,1,opt,name=key,proto3" protobuf_val:"bytes,2,opt,name=value,proto3"`
	MBoolFloat   map[bool]float32   `protobuf:"bytes,53,rep,name=m_bool_float,proto3" protobuf_key:"varint,1,opt,name=key,proto3" protobuf_val:"fixed32,2,opt,name=value,proto3"`
	MSfixedEnum  map[int64]AbEnum   `protobuf:"bytes,54,rep,name=m_sfixed_enum,proto3" protobuf_key:"fixed64,1,opt,name=key,proto3" protobuf_val:"varint,2,opt,name=value,proto3,enum=google.golang.org.protobuf.zverif.c46.AbEnum"`

	Choice isAbMsg3Choice `protobuf_oneof:"choice"`

	XXX_unrecognized []byte
}

func (m *AbMsg3) Reset()         { *m = AbMsg3{} }
func (m *AbMsg3) String() string { return "AbMsg3" }
func (m *AbMsg3) ProtoMessage()  {}
func (m *AbMsg3) XXX_OneofFuncs() []any {
	return []any{(*AbMsg3_CUint32)(nil), (*AbMsg3_CString)(nil), (*AbMsg3_CMsg)(nil), (*AbMsg3_CDouble)(nil), (*AbMsg3_CEnum)(nil)}
}

type isAbMsg3Choice interface{ isAbMsg3Choice() }

type AbMsg3_CUint32 struct {
	CUint32 uint32 `protobuf:"varint,70,opt,name=c_uint32,proto3,oneof"`
}
type AbMsg3_CString struct {
	CString string `protobuf:"bytes,71,opt,name=c_string,proto3,oneof"`
}
type AbMsg3_CMsg struct {
	CMsg *AbMsg3 `protobuf:"bytes,72,opt,name=c_msg,proto3,oneof"`
}
type AbMsg3_CDouble struct {
	CDouble float64 `protobuf:"fixed64,73,opt,name=c_double,proto3,oneof"`
}
type AbMsg3_CEnum struct {
	CEnum AbEnum `protobuf:"varint,74,opt,name=c_enum,proto3,enum=google.golang.org.protobuf.zverif.c46.AbEnum,oneof"`
}

func (*AbMsg3_CUint32) isAbMsg3Choice() {}
func (*AbMsg3_CString) isAbMsg3Choice() {}
func (*AbMsg3_CMsg) isAbMsg3Choice()    {}
func (*AbMsg3_CDouble) isAbMsg3Choice() {}
func (*AbMsg3_CEnum) isAbMsg3Choice()   {}

// Legacy-style extension declarations (only the deprecated exported fields are filled in, as
// golang/protobuf-era generated code did): the runtime converts them on first use.
var (
	abExtInt32 = &protoimpl.ExtensionInfo{ExtendedType: (*AbMsg2)(nil), ExtensionType: (*int32)(nil), Field: 200,
		Name: abPkg + ".ext_int32", Tag: "varint,200,opt,name=ext_int32,def=-5"}
	abExtString = &protoimpl.ExtensionInfo{ExtendedType: (*AbMsg2)(nil), ExtensionType: (*string)(nil), Field: 201,
		Name: abPkg + ".ext_string", Tag: "bytes,201,opt,name=ext_string"}
	abExtBytes = &protoimpl.ExtensionInfo{ExtendedType: (*AbMsg2)(nil), ExtensionType: ([]byte)(nil), Field: 202,
		Name: abPkg + ".ext_bytes", Tag: "bytes,202,opt,name=ext_bytes"}
	abExtRepSint = &protoimpl.ExtensionInfo{ExtendedType: (*AbMsg2)(nil), ExtensionType: ([]int64)(nil), Field: 203,
		Name: abPkg + ".ext_rep_sint", Tag: "zigzag64,203,rep,name=ext_rep_sint"}
	abExtPackFixed = &protoimpl.ExtensionInfo{ExtendedType: (*AbMsg2)(nil), ExtensionType: ([]uint32)(nil), Field: 204,
		Name: abPkg + ".ext_pack_fixed", Tag: "fixed32,204,rep,packed,name=ext_pack_fixed"}
	abExtRepString = &protoimpl.ExtensionInfo{ExtendedType: (*AbMsg2)(nil), ExtensionType: ([]string)(nil), Field: 205,
		Name: abPkg + ".ext_rep_string", Tag: "bytes,205,rep,name=ext_rep_string"}
	// message-typed extensions use generated legacy types: the conversion of a legacy declaration
	// finds a message descriptor only through the type's Descriptor method
	abExtMsg = &protoimpl.ExtensionInfo{ExtendedType: (*AbMsg2)(nil), ExtensionType: (*gen2016.Message_ChildMessage)(nil), Field: 1000,
		Name: abPkg + ".ext_msg", Tag: "bytes,1000,opt,name=ext_msg"}
	abExtRepLeaf = &protoimpl.ExtensionInfo{ExtendedType: (*AbMsg2)(nil), ExtensionType: ([]*gen2019.SiblingMessage)(nil), Field: 1001,
		Name: abPkg + ".ext_rep_sibling", Tag: "bytes,1001,rep,name=ext_rep_sibling"}
	abExtEnum = &protoimpl.ExtensionInfo{ExtendedType: (*AbMsg2)(nil), ExtensionType: (*gen2019.SiblingEnum)(nil), Field: 1002,
		Name: abPkg + ".ext_enum", Tag: "varint,1002,opt,name=ext_enum,enum=google.golang.org.proto2_20190205.SiblingEnum,def=10"}
	abExtDouble = &protoimpl.ExtensionInfo{ExtendedType: (*AbMsg2)(nil), ExtensionType: (*float64)(nil), Field: 536870911,
		Name: abPkg + ".ext_double", Tag: "fixed64,536870911,opt,name=ext_double"}
	abExtBool = &protoimpl.ExtensionInfo{ExtendedType: (*AbMsg2)(nil), ExtensionType: (*bool)(nil), Field: 299,
		Name: abPkg + ".ext_bool", Tag: "varint,299,opt,name=ext_bool,def=1"}

	abExts = []*protoimpl.ExtensionInfo{abExtInt32, abExtString, abExtBytes, abExtRepSint, abExtPackFixed, abExtRepString, abExtMsg, abExtRepLeaf, abExtEnum, abExtDouble, abExtBool}
)
