package c46

// Descriptor-level checks (fixed lists, run through pbt.Enumerate): the descriptors derived for
// legacy and struct-tag-only types survive a protodesc round trip with an equal accessor
// snapshot, agree across generations, agree with the hand-written expectation, and legacy-style
// extension declarations convert to what the schema declares.

import (
	"fmt"
	"regexp"
	"testing"

	"google.golang.org/protobuf/proto"
	"google.golang.org/protobuf/reflect/protodesc"
	"google.golang.org/protobuf/reflect/protoreflect"
	"google.golang.org/protobuf/reflect/protoregistry"
	"google.golang.org/protobuf/types/descriptorpb"
	"google.golang.org/protobuf/zverif/descsnap"
	"google.golang.org/protobuf/zverif/pbt"
)

type descCase struct {
	Kind   string `json:"kind"` // file-roundtrip | cross-generation | legacy-extension | aberrant-expectation | aberrant-roundtrip | aberrant-extension
	Syntax int    `json:"syntax,omitempty"`
	Gen    int    `json:"gen,omitempty"`
	Name   string `json:"name,omitempty"`
}

var genPathRE = regexp.MustCompile(`proto([23])_20[0-9]{6}(_[0-9a-f]{8})?`)

// allMessages lists md and every message nested in it (depth first).
func allMessages(ms protoreflect.MessageDescriptors, out []protoreflect.MessageDescriptor) []protoreflect.MessageDescriptor {
	for i := 0; i < ms.Len(); i++ {
		out = append(out, ms.Get(i))
		out = allMessages(ms.Get(i).Messages(), out)
	}
	return out
}

func mapSnapNames(s map[string]string) map[string]string {
	out := make(map[string]string, len(s))
	for k, v := range s {
		out[k] = genPathRE.ReplaceAllString(v, "proto${1}_GEN")
	}
	return out
}

func extSnap(xd protoreflect.FieldDescriptor) map[string]string {
	out := map[string]string{}
	fieldSnap(out, "ext", xd, false)
	return out
}

func checkDesc(c descCase) error {
	switch c.Kind {
	case "file-roundtrip":
		fd := genType(c.Syntax, c.Gen, "Message").Descriptor().ParentFile()
		p := protodesc.ToFileDescriptorProto(fd)
		fd2, err := protodesc.NewFile(p, protoregistry.GlobalFiles)
		if err != nil {
			return fmt.Errorf("derived file %s: NewFile(ToFileDescriptorProto(fd)) failed: %v", fd.Path(), err)
		}
		if d := descsnap.Diff(descsnap.Of(fd, descsnap.Opts{}), descsnap.Of(fd2, descsnap.Opts{})); d != "" {
			return fmt.Errorf("derived file %s differs from its protodesc round trip: %s", fd.Path(), d)
		}
		if d := descsnap.Diff(descsnap.Of(fd, descsnap.Opts{Reverse: true}), descsnap.Of(fd2, descsnap.Opts{Reverse: true})); d != "" {
			return fmt.Errorf("derived file %s differs from its protodesc round trip (reverse walk): %s", fd.Path(), d)
		}
		p2 := protodesc.ToFileDescriptorProto(fd2)
		if !proto.Equal(p, p2) {
			return fmt.Errorf("derived file %s: ToFileDescriptorProto is not stable over a round trip: %s", fd.Path(), descsnap.ProtoDiff(p, p2))
		}
		// the derived message descriptors are the ones of that file, found by name
		for _, root := range roots {
			md := genType(c.Syntax, c.Gen, root).Descriptor()
			if md.Syntax() != map[int]protoreflect.Syntax{2: protoreflect.Proto2, 3: protoreflect.Proto3}[c.Syntax] {
				return fmt.Errorf("%s: syntax %v", md.FullName(), md.Syntax())
			}
			if want := protoreflect.FullName(genName(c.Syntax, c.Gen, root)); md.FullName() != want {
				return fmt.Errorf("derived descriptor is named %s, the type was registered as %s", md.FullName(), want)
			}
		}
	case "cross-generation":
		a := allMessages(genType(c.Syntax, 0, "Message").Descriptor().ParentFile().Messages(), nil)
		b := allMessages(genType(c.Syntax, c.Gen, "Message").Descriptor().ParentFile().Messages(), nil)
		if len(a) != len(b) {
			return fmt.Errorf("generation %s declares %d messages, %s %d", genDates[0], len(a), genDates[c.Gen], len(b))
		}
		for i := range a {
			if d := diffSnap(mapSnapNames(mdSnap(a[i])), mapSnapNames(mdSnap(b[i]))); d != "" {
				return fmt.Errorf("%s vs %s: derived descriptors of the same schema differ: %s", a[i].FullName(), b[i].FullName(), d)
			}
		}
	case "legacy-extension":
		md := genType(2, c.Gen, "Message").Descriptor()
		n := 0
		var err error
		protoregistry.GlobalTypes.RangeExtensionsByMessage(md.FullName(), func(xt protoreflect.ExtensionType) bool {
			n++
			xd := xt.TypeDescriptor()
			// the declaration of the same extension inside the derived file
			decl := md.Extensions().ByName(xd.Name())
			if decl == nil {
				err = fmt.Errorf("%s: registered extension %s is not declared in the derived file", md.FullName(), xd.FullName())
				return false
			}
			if d := diffSnap(extSnap(decl), extSnap(xd)); d != "" {
				err = fmt.Errorf("extension %s: descriptor converted from the legacy declaration differs from the schema's declaration: %s", xd.FullName(), d)
				return false
			}
			if xd.ContainingMessage().FullName() != md.FullName() {
				err = fmt.Errorf("extension %s extends %s", xd.FullName(), xd.ContainingMessage().FullName())
				return false
			}
			return true
		})
		if err != nil {
			return err
		}
		if n != md.Extensions().Len() {
			return fmt.Errorf("%s: %d extensions registered, %d declared", md.FullName(), n, md.Extensions().Len())
		}
	case "aberrant-expectation":
		rs, err := reference()
		if err != nil {
			return err
		}
		t := abTypeByName(c.Name)
		got, want := mdSnap(wrap(t.new()).ProtoReflect().Descriptor()), mdSnap(rs.message(t.refName))
		if got["required"] == "" && want["required"] != "" && pbt.ExcludeKnown("KF-aberrant-required-numbers") {
			got["required"] = want["required"]
		}
		if d := diffSnap(want, got); d != "" {
			return fmt.Errorf("%s: derived descriptor differs from what the struct tags say (want vs got): %s", c.Name, d)
		}
	case "aberrant-extension":
		rs, err := reference()
		if err != nil {
			return err
		}
		for _, x := range abExts {
			xd := x.TypeDescriptor()
			if string(xd.FullName()) != c.Name {
				continue
			}
			want, err := rs.files.FindDescriptorByName(xd.FullName())
			if err != nil {
				return fmt.Errorf("harness: %v", err)
			}
			if d := diffSnap(extSnap(want.(protoreflect.FieldDescriptor)), extSnap(xd)); d != "" {
				return fmt.Errorf("extension %s: descriptor converted from the legacy declaration differs from what it says (want vs got): %s", c.Name, d)
			}
			return nil
		}
		return fmt.Errorf("harness: no extension %s", c.Name)
	case "aberrant-roundtrip":
		// the derived descriptors of the struct-tag-only family, written out and linked again
		enumFile := &descriptorpb.FileDescriptorProto{Name: proto.String("rt/enum.proto"), Package: proto.String(abPkg), Syntax: proto.String("proto3")}
		f3 := &descriptorpb.FileDescriptorProto{Name: proto.String("rt/m3.proto"), Package: proto.String(abPkg), Syntax: proto.String("proto3"), Dependency: []string{"rt/enum.proto"}}
		f2 := &descriptorpb.FileDescriptorProto{Name: proto.String("rt/m2.proto"), Package: proto.String(abPkg), Syntax: proto.String("proto2"), Dependency: []string{"rt/enum.proto", "rt/m3.proto"}}
		derived := map[string]protoreflect.MessageDescriptor{}
		for _, n := range []string{"AbMsg3", "AbMsg2", "AbLeaf"} {
			md := wrap(abTypeByName(n).new()).ProtoReflect().Descriptor()
			derived[n] = md
			if md.Syntax() == protoreflect.Proto3 {
				f3.MessageType = append(f3.MessageType, protodesc.ToDescriptorProto(md))
			} else {
				f2.MessageType = append(f2.MessageType, protodesc.ToDescriptorProto(md))
			}
		}
		enumFile.EnumType = append(enumFile.EnumType, protodesc.ToEnumDescriptorProto(derived["AbMsg3"].Fields().ByNumber(16).Enum()))
		files := new(protoregistry.Files)
		for _, p := range []*descriptorpb.FileDescriptorProto{enumFile, f3, f2} {
			fd, err := protodesc.NewFile(p, files)
			if err != nil {
				return fmt.Errorf("derived descriptors written with protodesc do not link again (%s): %v", p.GetName(), err)
			}
			if err := files.RegisterFile(fd); err != nil {
				return fmt.Errorf("harness: %v", err)
			}
		}
		for n, md := range derived {
			d2, err := files.FindDescriptorByName(md.FullName())
			if err != nil {
				return fmt.Errorf("harness: %v", err)
			}
			got, want := mdSnap(d2.(protoreflect.MessageDescriptor)), mdSnap(md)
			if want["required"] == "" && got["required"] != "" && pbt.ExcludeKnown("KF-aberrant-required-numbers") {
				want["required"] = got["required"]
			}
			if d := diffSnap(want, got); d != "" {
				return fmt.Errorf("%s: derived descriptor differs from its protodesc round trip (derived vs rebuilt): %s", n, d)
			}
		}
	default:
		return fmt.Errorf("harness: unknown kind %q", c.Kind)
	}
	return nil
}

func TestDescriptors(t *testing.T) {
	pbt.Enumerate(t, "descriptors", "fixed list: the 12 derived legacy files (protodesc round trip with full accessor snapshots, forward and reverse walks), generation 0 vs every other generation of its syntax (accessor snapshots of all messages, names mapped), every registered legacy extension of the six proto2 generations vs its declaration in the derived file, the struct-tag-only types vs the hand-written expectation and vs their protodesc round trip, their legacy-style extension declarations vs the expectation", true,
		func(yield func(c descCase, nt bool) bool) {
			for _, s := range []int{2, 3} {
				for g := range genDates {
					if !yield(descCase{Kind: "file-roundtrip", Syntax: s, Gen: g}, true) {
						return
					}
					if g > 0 && !yield(descCase{Kind: "cross-generation", Syntax: s, Gen: g}, true) {
						return
					}
				}
			}
			for g := range genDates {
				if !yield(descCase{Kind: "legacy-extension", Gen: g}, true) {
					return
				}
			}
			for _, n := range []string{"AbMsg2", "AbMsg3", "AbLeaf"} {
				if !yield(descCase{Kind: "aberrant-expectation", Name: n}, true) {
					return
				}
			}
			for _, x := range abExts {
				if !yield(descCase{Kind: "aberrant-extension", Name: x.Name}, true) {
					return
				}
			}
			yield(descCase{Kind: "aberrant-roundtrip"}, true)
		}, checkDesc)
}
