package c46

// The twelve historical generations of the legacy schema and the helpers shared by the checks:
// per-generation expectations (unknown-field capability), observation of a message (snapshot,
// deterministic bytes, JSON and text as parsed values) and type-name mapping between generations.

import (
	"bytes"
	"encoding/json"
	"fmt"
	"reflect"
	"regexp"
	"sort"
	"strings"

	"google.golang.org/protobuf/encoding/protojson"
	"google.golang.org/protobuf/encoding/prototext"
	"google.golang.org/protobuf/proto"
	"google.golang.org/protobuf/reflect/protoreflect"
	"google.golang.org/protobuf/zverif/corpus"
	"google.golang.org/protobuf/zverif/gen"
	"google.golang.org/protobuf/zverif/model"
)

var genDates = []string{"20160225", "20160519", "20180125", "20180430", "20180814", "20190205"}

// roots are the top-level message names every generation of one syntax declares.
var roots = []string{"Message", "SiblingMessage", "Message.ChildMessage"}

func genName(syntax, g int, root string) string {
	return fmt.Sprintf("google.golang.org.proto%d_%s.%s", syntax, genDates[g], root)
}

func genType(syntax, g int, root string) protoreflect.MessageType {
	return corpus.ByName(genName(syntax, g, root))
}

// preserves reports whether generation g of the syntax can hold unknown fields (a precondition,
// not an expectation of this property: proto3 code generated before 2018-04 has no storage for them).
func preserves(syntax, g int) bool {
	return gen.PreservesUnknown(genType(syntax, g, "Message").Descriptor())
}

// stripUnknown returns a deep copy of v without unknown fields anywhere in the tree.
func stripUnknown(v *model.Msg) *model.Msg {
	if v == nil {
		return nil
	}
	out := &model.Msg{}
	for _, f := range v.Fields {
		g := model.Field{Num: f.Num, Keys: f.Keys}
		for _, x := range f.Vals {
			if x.M != nil {
				g.Vals = append(g.Vals, model.Val{M: stripUnknown(x.M)})
			} else {
				g.Vals = append(g.Vals, x)
			}
		}
		out.Fields = append(out.Fields, g)
	}
	return out
}

func hasUnknown(v *model.Msg) bool {
	if v == nil {
		return false
	}
	if len(v.Unknown) > 0 {
		return true
	}
	for _, f := range v.Fields {
		for _, x := range f.Vals {
			if hasUnknown(x.M) {
				return true
			}
		}
	}
	return false
}

// expectFor is the content generation g must show for model value v.
func expectFor(syntax, g int, v *model.Msg) *model.Msg {
	if preserves(syntax, g) {
		return v
	}
	return stripUnknown(v)
}

// ---------------------------------------------------------------------------------------------
// observations

var genNameRE = regexp.MustCompile(`proto([23])_20[0-9]{6}\.`)

// mapTypeName replaces the generation-specific package name in a type or extension name.
func mapTypeName(s string) string { return genNameRE.ReplaceAllString(s, "proto${1}_GEN.") }

// parseJSON decodes protojson output with encoding/json (numbers kept as written) and maps the
// generation-specific package names inside object keys (extension names).
func parseJSON(b []byte) (any, error) {
	d := json.NewDecoder(bytes.NewReader(b))
	d.UseNumber()
	var v any
	if err := d.Decode(&v); err != nil {
		return nil, err
	}
	if d.More() {
		return nil, fmt.Errorf("trailing JSON input")
	}
	return mapKeys(v), nil
}

func mapKeys(v any) any {
	switch x := v.(type) {
	case map[string]any:
		out := make(map[string]any, len(x))
		for k, e := range x {
			if strings.HasPrefix(k, "[") {
				k = mapTypeName(k)
			}
			out[k] = mapKeys(e)
		}
		return out
	case []any:
		for i := range x {
			x[i] = mapKeys(x[i])
		}
	}
	return v
}

// textTokens cuts prototext output into tokens: quoted literals (kept raw), bracketed extension
// names (package name mapped), punctuation and bare words; white space is dropped. The writer
// emits one canonical spelling per value, so equal content gives equal token lists.
func textTokens(b []byte) ([]string, error) {
	var out []string
	for i := 0; i < len(b); {
		c := b[i]
		switch {
		case c == ' ' || c == '\n' || c == '\t' || c == '\r':
			i++
		case c == '"' || c == '\'':
			j := i + 1
			for j < len(b) && b[j] != c {
				if b[j] == '\\' {
					j++
				}
				j++
			}
			if j >= len(b) {
				return nil, fmt.Errorf("unterminated literal at %d", i)
			}
			out = append(out, string(b[i:j+1]))
			i = j + 1
		case c == '[':
			j := bytes.IndexByte(b[i:], ']')
			if j < 0 {
				return nil, fmt.Errorf("unterminated [ at %d", i)
			}
			out = append(out, mapTypeName(string(b[i:i+j+1])))
			i += j + 1
		case strings.IndexByte("{}<>:,;", c) >= 0:
			out = append(out, string(c))
			i++
		default:
			j := i
			for j < len(b) && strings.IndexByte(" \n\t\r\"'[{}<>:,;", b[j]) < 0 {
				j++
			}
			out = append(out, string(b[i:j]))
			i = j
		}
	}
	return out, nil
}

// obs is everything the property compares about one message.
type obs struct {
	Snap    *model.Msg
	Det     []byte
	DetErr  string
	Size    int
	JSON    any
	JSONErr bool
	Text    []string
	TextErr bool
	Init    bool
}

func observe(m protoreflect.Message) (o obs, err error) {
	o.Snap = model.Snapshot(m)
	pm := m.Interface()
	det, e := proto.MarshalOptions{Deterministic: true, AllowPartial: true}.Marshal(pm)
	if e != nil {
		o.DetErr = "error"
	}
	o.Det = det
	o.Size = proto.MarshalOptions{AllowPartial: true}.Size(pm)
	o.Init = proto.CheckInitialized(pm) == nil
	jb, e := protojson.MarshalOptions{AllowPartial: true}.Marshal(pm)
	if e != nil {
		o.JSONErr = true
	} else if o.JSON, err = parseJSON(jb); err != nil {
		return o, fmt.Errorf("protojson output of %s is not JSON: %v: %s", m.Descriptor().FullName(), err, jb)
	}
	tb, e := prototext.MarshalOptions{AllowPartial: true}.Marshal(pm)
	if e != nil {
		o.TextErr = true
	} else if o.Text, err = textTokens(tb); err != nil {
		return o, fmt.Errorf("prototext output of %s does not tokenise: %v: %s", m.Descriptor().FullName(), err, tb)
	}
	return o, nil
}

// diffObs compares everything but the snapshot (which is compared against the model).
func diffObs(a, b obs) string { return diffObsOpt(a, b, false) }

// diffObsOpt: skipInit leaves the CheckInitialized verdicts out (see KF-aberrant-required-numbers).
func diffObsOpt(a, b obs, skipInit bool) string {
	if skipInit {
		b.Init = a.Init
	}
	switch {
	case a.DetErr != b.DetErr:
		return fmt.Sprintf("deterministic Marshal verdicts differ: %q vs %q", a.DetErr, b.DetErr)
	case !bytes.Equal(a.Det, b.Det):
		return fmt.Sprintf("deterministic bytes differ:\n  %x\n  %x", a.Det, b.Det)
	case a.Size != b.Size:
		return fmt.Sprintf("Size differs: %d vs %d", a.Size, b.Size)
	case a.Init != b.Init:
		return fmt.Sprintf("CheckInitialized verdicts differ: %v vs %v", a.Init, b.Init)
	case a.JSONErr != b.JSONErr:
		return fmt.Sprintf("protojson.Marshal verdicts differ: failed=%v vs failed=%v", a.JSONErr, b.JSONErr)
	case !reflect.DeepEqual(a.JSON, b.JSON):
		return fmt.Sprintf("JSON outputs differ as values:\n  %v\n  %v", a.JSON, b.JSON)
	case a.TextErr != b.TextErr:
		return fmt.Sprintf("prototext.Marshal verdicts differ: failed=%v vs failed=%v", a.TextErr, b.TextErr)
	case !reflect.DeepEqual(a.Text, b.Text):
		return fmt.Sprintf("text outputs differ as token lists:\n  %q\n  %q", a.Text, b.Text)
	}
	return ""
}

var exact = model.EqualOpts{BitwiseFloats: true}

// ---------------------------------------------------------------------------------------------
// shapes of a model value (for classes / non-triviality)

func shapes(md protoreflect.MessageDescriptor, v *model.Msg, set map[string]bool) {
	shapesR(md, v, set, nil)
}

func shapesR(md protoreflect.MessageDescriptor, v *model.Msg, set map[string]bool, r model.Resolver) {
	if v == nil {
		return
	}
	if len(v.Unknown) > 0 {
		set["unknown"] = true
	}
	for _, f := range v.Fields {
		fd := model.FieldDesc(md, f.Num, r)
		if fd == nil {
			continue
		}
		switch {
		case fd.IsExtension():
			set["extension"] = true
		case fd.IsMap():
			set["map"] = true
		case fd.ContainingOneof() != nil:
			set["oneof"] = true
		case fd.IsList():
			set["list"] = true
		}
		k := fd.Kind()
		if fd.IsMap() {
			k = fd.MapValue().Kind()
		}
		switch k {
		case protoreflect.EnumKind:
			set["enum"] = true
		case protoreflect.GroupKind:
			set["group"] = true
			set["message"] = true
		case protoreflect.MessageKind:
			set["message"] = true
		}
		sub := fd.Message()
		if fd.IsMap() {
			sub = fd.MapValue().Message()
		}
		if sub != nil {
			for _, x := range f.Vals {
				shapesR(sub, x.M, set, r)
			}
		}
	}
}

func shapeList(md protoreflect.MessageDescriptor, v *model.Msg) []string {
	set := map[string]bool{}
	shapes(md, v, set)
	var out []string
	for k := range set {
		out = append(out, k)
	}
	sort.Strings(out)
	return out
}
