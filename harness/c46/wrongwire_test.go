package c46

// Records that carry a known field's number with a wire type the field cannot have are unknown
// fields: they must not populate the field in a legacy message any more than in a dynamicpb
// message of the same descriptor (regression area of KF-legacy-msg-wiretype, fixed in /repo).

import (
	"encoding/hex"
	"fmt"
	"testing"

	"google.golang.org/protobuf/proto"
	"google.golang.org/protobuf/reflect/protoreflect"
	"google.golang.org/protobuf/types/dynamicpb"
	"google.golang.org/protobuf/zverif/gen"
	"google.golang.org/protobuf/zverif/model"
	"google.golang.org/protobuf/zverif/pbt"
	"google.golang.org/protobuf/zverif/ref"
	"pgregory.net/rapid"
)

type wwCase struct {
	Syntax int        `json:"syntax"`
	Gen    int        `json:"gen"`
	Root   string     `json:"root"`
	M      *model.Msg `json:"m"`     // surrounding valid content
	Num    int32      `json:"num"`   // number of a declared field (or registered extension)
	Typ    int        `json:"typ"`   // a wire type that field never uses
	Rec    []byte     `json:"rec"`   // the whole record (tag + payload), well-formed wire
	After  bool       `json:"after"` // record placed after the valid content (else before)
	Shape  string     `json:"shape"` // shape of the field (for the class report)
}

// legalTypes lists the wire types records of fd may have.
func legalTypes(fd protoreflect.FieldDescriptor) map[int]bool {
	nat := map[protoreflect.Kind]int{
		protoreflect.BoolKind: 0, protoreflect.EnumKind: 0, protoreflect.Int32Kind: 0, protoreflect.Sint32Kind: 0, protoreflect.Uint32Kind: 0,
		protoreflect.Int64Kind: 0, protoreflect.Sint64Kind: 0, protoreflect.Uint64Kind: 0,
		protoreflect.Sfixed32Kind: 5, protoreflect.Fixed32Kind: 5, protoreflect.FloatKind: 5,
		protoreflect.Sfixed64Kind: 1, protoreflect.Fixed64Kind: 1, protoreflect.DoubleKind: 1,
		protoreflect.StringKind: 2, protoreflect.BytesKind: 2, protoreflect.MessageKind: 2, protoreflect.GroupKind: 3,
	}[fd.Kind()]
	out := map[int]bool{nat: true}
	if fd.IsList() && nat != 2 && nat != 3 {
		out[2] = true // packed form
	}
	return out
}

func fieldShape(fd protoreflect.FieldDescriptor) string {
	switch {
	case fd.IsExtension():
		return "extension"
	case fd.IsMap():
		return "map"
	case fd.ContainingOneof() != nil:
		if fd.Message() != nil {
			return "oneof-message"
		}
		return "oneof-scalar"
	case fd.Kind() == protoreflect.GroupKind:
		return "group"
	case fd.Message() != nil && fd.IsList():
		return "message-list"
	case fd.Message() != nil:
		return "message"
	case fd.IsList():
		return "scalar-list"
	}
	return "scalar"
}

func drawWrongWire(t *rapid.T) wwCase {
	c := wwCase{Syntax: rapid.SampledFrom([]int{2, 3}).Draw(t, "syntax"), Gen: rapid.IntRange(0, 5).Draw(t, "gen"), After: rapid.Bool().Draw(t, "after")}
	c.Root = rapid.SampledFrom([]string{"Message", "Message", "Message", "SiblingMessage", "Message.ChildMessage"}).Draw(t, "root")
	md := genType(c.Syntax, c.Gen, c.Root).Descriptor()
	o := gen.DefaultMsgOpts
	o.Depth, o.MaxFields, o.MaxBytes, o.FillRequired = 1, 4, 20, false
	c.M = gen.DrawMessage(t, md, o)
	// choose the field by shape first so that message-typed fields are not drowned by scalars
	byShape := map[string][]protoreflect.FieldDescriptor{}
	var order []string
	add := func(fd protoreflect.FieldDescriptor) {
		s := fieldShape(fd)
		if byShape[s] == nil {
			order = append(order, s)
		}
		byShape[s] = append(byShape[s], fd)
	}
	for i := 0; i < md.Fields().Len(); i++ {
		add(md.Fields().Get(i))
	}
	for _, xt := range model.ExtensionsOf(md.FullName()) {
		add(xt.TypeDescriptor())
	}
	c.Shape = order[rapid.IntRange(0, len(order)-1).Draw(t, "shape")]
	fds := byShape[c.Shape]
	fd := fds[rapid.IntRange(0, len(fds)-1).Draw(t, "field")]
	c.Num = int32(fd.Number())
	legal := legalTypes(fd)
	var wrong []int
	for _, w := range []int{0, 1, 2, 3, 5} {
		if !legal[w] {
			wrong = append(wrong, w)
		}
	}
	c.Typ = wrong[rapid.IntRange(0, len(wrong)-1).Draw(t, "wiretype")]
	b := ref.Tag(nil, int64(c.Num), c.Typ)
	if rapid.IntRange(0, 3).Draw(t, "denormtag") == 0 {
		b = ref.VarintPadded(nil, uint64(c.Num)<<3|uint64(c.Typ), rapid.IntRange(1, 3).Draw(t, "pad")+ref.VarintLen(uint64(c.Num)<<3))
	}
	switch c.Typ {
	case 0:
		b = ref.Varint(b, gen.Uint64().Draw(t, "varint"))
	case 1:
		b = ref.Fixed64(b, gen.Uint64().Draw(t, "fixed64"))
	case 5:
		b = ref.Fixed32(b, gen.Uint32().Draw(t, "fixed32"))
	case 2:
		p := gen.Bytes(12).Draw(t, "payload")
		b = ref.Varint(b, uint64(len(p)))
		b = append(b, p...)
	case 3:
		if rapid.Bool().Draw(t, "groupbody") {
			b = ref.Tag(b, 1, 0)
			b = ref.Varint(b, gen.Uint64().Draw(t, "inner"))
		}
		b = ref.Tag(b, int64(c.Num), 4)
	}
	c.Rec = b
	return c
}

func checkWrongWire(c wwCase) error {
	mt := genType(c.Syntax, c.Gen, c.Root)
	md := mt.Descriptor()
	if _, _, n, d := ref.ConsumeField(c.Rec); d != 0 || n != len(c.Rec) {
		return fmt.Errorf("harness: the record %x is not one well-formed field", c.Rec)
	}
	body := model.Encode(md, &model.Msg{Fields: c.M.Fields}, nil, model.EncOpts{}, nil)
	want := c.M.Clone()
	var wire []byte
	if c.After {
		wire = append(append(append(wire, body...), c.M.Unknown...), c.Rec...)
		want.Unknown = append(want.Unknown, c.Rec...)
	} else {
		wire = append(append(append(wire, c.Rec...), body...), c.M.Unknown...)
		want.Unknown = append(append([]byte(nil), c.Rec...), want.Unknown...)
	}
	for _, dyn := range []bool{false, true} {
		m, w := mt.New(), expectFor(c.Syntax, c.Gen, want)
		if dyn {
			m, w = dynamicpb.NewMessage(md), want
		}
		if err := (proto.UnmarshalOptions{AllowPartial: true}).Unmarshal(wire, m.Interface()); err != nil {
			return fmt.Errorf("%s (dynamic=%v): well-formed input rejected: %v (bytes %x)", md.FullName(), dyn, err, wire)
		}
		if d := model.Diff(md, w, model.Snapshot(m), exact, nil); d != "" {
			return fmt.Errorf("%s (dynamic=%v): record of field %d with wire type %d changed the content: %s (bytes %x)", md.FullName(), dyn, c.Num, c.Typ, d, wire)
		}
	}
	return nil
}

func TestWrongWireType(t *testing.T) {
	pbt.Run(t, pbt.Prop[wwCase]{
		Name: "wrongwire",
		Rule: "generation, root message, small valid content, plus one well-formed record carrying the number of a declared field or registered extension (chosen by shape: scalar, list, message, message list, group, map, oneof member, extension) with a wire type that field never uses (optionally a padded tag), before or after the content; the record must stay an unknown field in the legacy message and in dynamicpb of the derived descriptor; every case is non-trivial",
		Draw: drawWrongWire, Check: checkWrongWire,
		Classes: func(c wwCase) []string {
			return []string{fmt.Sprintf("proto%d", c.Syntax), "shape:" + c.Shape, fmt.Sprintf("wiretype:%d", c.Typ), fmt.Sprintf("after:%v", c.After)}
		},
		Quick: 5000, Thorough: 60000,
	})
}

// TestWitnessWireType replays the input of KF-legacy-msg-wiretype (fixed in /repo): it must not come back.
func TestWitnessWireType(t *testing.T) {
	in, _ := hex.DecodeString("98008000") // padded tag 0x18 = field 3 as a varint, padded value 0; f3 is a message field
	mt := genType(3, 0, "Message.ChildMessage")
	m := mt.New()
	err := proto.Unmarshal(in, m.Interface())
	f3 := mt.Descriptor().Fields().ByNumber(3)
	reproduces := err == nil && m.Has(f3)
	pbt.Witness(t, "KF-legacy-msg-wiretype", reproduces, fmt.Sprintf("Unmarshal(98008000) into %s: err=%v Has(f3)=%v", mt.Descriptor().FullName(), err, err == nil && m.Has(f3)))
}
