package c46

// Accessor-level snapshot of one message descriptor (and the map-entry messages of its fields),
// used to compare a derived descriptor with the hand-written expectation and with its protodesc
// round trip. Options() are left out on purpose: the property is about behaviour, and the
// best-effort derivation does not promise option messages.

import (
	"fmt"
	"math"
	"sort"
	"strings"

	"google.golang.org/protobuf/reflect/protoreflect"
)

func valueString(fd protoreflect.FieldDescriptor, v protoreflect.Value) string {
	if !v.IsValid() {
		return "<invalid>"
	}
	switch fd.Kind() {
	case protoreflect.FloatKind:
		return fmt.Sprintf("f32:%08x", math.Float32bits(float32(v.Float())))
	case protoreflect.DoubleKind:
		return fmt.Sprintf("f64:%016x", math.Float64bits(v.Float()))
	case protoreflect.BytesKind:
		return fmt.Sprintf("bytes:%x", v.Bytes())
	case protoreflect.StringKind:
		return fmt.Sprintf("string:%q", v.String())
	case protoreflect.MessageKind, protoreflect.GroupKind:
		return "<message>"
	}
	return fmt.Sprint(v.Interface())
}

func fieldSnap(out map[string]string, key string, fd protoreflect.FieldDescriptor, followMaps bool) {
	put := func(k string, v any) { out[key+"."+k] = fmt.Sprint(v) }
	put("name", fd.Name())
	put("fullname", fd.FullName())
	put("number", fd.Number())
	put("kind", fd.Kind())
	put("cardinality", fd.Cardinality())
	put("islist", fd.IsList())
	put("ismap", fd.IsMap())
	put("ispacked", fd.IsPacked())
	put("haspresence", fd.HasPresence())
	put("hasoptionalkeyword", fd.HasOptionalKeyword())
	put("isextension", fd.IsExtension())
	put("jsonname", fd.JSONName())
	put("textname", fd.TextName())
	put("hasdefault", fd.HasDefault())
	if !fd.IsList() && !fd.IsMap() {
		put("default", valueString(fd, fd.Default()))
	}
	if ev := fd.DefaultEnumValue(); ev != nil {
		put("defaultenum", ev.Name())
	}
	if od := fd.ContainingOneof(); od != nil {
		put("oneof", fmt.Sprintf("%s#%d synthetic=%v", od.Name(), od.Index(), od.IsSynthetic()))
	}
	if cm := fd.ContainingMessage(); cm != nil {
		put("containing", cm.FullName())
	}
	if ed := fd.Enum(); ed != nil {
		var vs []string
		for i := 0; i < ed.Values().Len(); i++ {
			vs = append(vs, fmt.Sprintf("%s=%d", ed.Values().Get(i).Name(), ed.Values().Get(i).Number()))
		}
		put("enum", fmt.Sprintf("%s closed=%v values=%v", ed.FullName(), ed.IsClosed(), vs))
	}
	if sub := fd.Message(); sub != nil {
		put("message", fmt.Sprintf("%s mapentry=%v", sub.FullName(), sub.IsMapEntry()))
		if fd.IsMap() && followMaps {
			fieldSnap(out, key+".key", fd.MapKey(), false)
			fieldSnap(out, key+".value", fd.MapValue(), false)
		}
	}
}

// mdSnap snapshots md: its own attributes and every field by number.
func mdSnap(md protoreflect.MessageDescriptor) map[string]string {
	out := map[string]string{}
	out["fullname"] = string(md.FullName())
	out["syntax"] = md.Syntax().String()
	out["ismapentry"] = fmt.Sprint(md.IsMapEntry())
	out["nfields"] = fmt.Sprint(md.Fields().Len())
	var order []string
	for i := 0; i < md.Fields().Len(); i++ {
		fd := md.Fields().Get(i)
		order = append(order, fmt.Sprint(fd.Number()))
		fieldSnap(out, fmt.Sprintf("field[%d]", fd.Number()), fd, true)
		if md.Fields().ByNumber(fd.Number()) != fd || md.Fields().ByName(fd.Name()) != fd {
			out[fmt.Sprintf("field[%d].lookup", fd.Number())] = "ByNumber/ByName do not find the field"
		}
	}
	out["fieldorder"] = strings.Join(order, ",")
	for i := 0; i < md.Oneofs().Len(); i++ {
		od := md.Oneofs().Get(i)
		var ms []string
		for j := 0; j < od.Fields().Len(); j++ {
			ms = append(ms, fmt.Sprint(od.Fields().Get(j).Number()))
		}
		out[fmt.Sprintf("oneof[%d]", i)] = fmt.Sprintf("%s synthetic=%v members=%v", od.Name(), od.IsSynthetic(), ms)
	}
	out["noneofs"] = fmt.Sprint(md.Oneofs().Len())
	var rs []string
	for i := 0; i < md.ExtensionRanges().Len(); i++ {
		r := md.ExtensionRanges().Get(i)
		rs = append(rs, fmt.Sprintf("[%d,%d)", r[0], r[1]))
	}
	out["extensionranges"] = strings.Join(rs, " ")
	var req []string
	for i := 0; i < md.RequiredNumbers().Len(); i++ {
		req = append(req, fmt.Sprint(md.RequiredNumbers().Get(i)))
	}
	sort.Strings(req)
	out["required"] = strings.Join(req, ",")
	return out
}

func diffSnap(a, b map[string]string) string {
	var keys []string
	for k := range a {
		keys = append(keys, k)
	}
	for k := range b {
		if _, ok := a[k]; !ok {
			keys = append(keys, k)
		}
	}
	sort.Strings(keys)
	var out []string
	for _, k := range keys {
		if a[k] != b[k] {
			out = append(out, fmt.Sprintf("%s: %q vs %q", k, a[k], b[k]))
			if len(out) == 6 {
				out = append(out, "…")
				break
			}
		}
	}
	return strings.Join(out, "; ")
}
