package c46

import (
	"fmt"
	"math"
	"reflect"
	"strconv"
	"strings"
	"sync"
	"testing"

	"google.golang.org/protobuf/internal/testprotos/irregular"
	"google.golang.org/protobuf/internal/testprotos/nullable"
	"google.golang.org/protobuf/proto"
	"google.golang.org/protobuf/protoadapt"
	"google.golang.org/protobuf/reflect/protoreflect"
	"google.golang.org/protobuf/reflect/protoregistry"
	"google.golang.org/protobuf/runtime/protoimpl"
	"google.golang.org/protobuf/types/dynamicpb"
	"google.golang.org/protobuf/zverif/gen"
	"google.golang.org/protobuf/zverif/model"
	"google.golang.org/protobuf/zverif/pbt"
	"google.golang.org/protobuf/zverif/ref"
	"pgregory.net/rapid"
)

// abType is one struct-tag-only (or otherwise irregular) message type.
type abType struct {
	name      string
	new       func() any // bare Go value as user code holds it (v1 struct pointer, or a v2 message)
	refName   string     // message of the hand-written schema ("" = none; dynamicpb of the derived descriptor only)
	noUnknown bool       // the struct has no unknown-field storage
}

var abTypes = []abType{
	{name: "AbMsg2", new: func() any { return new(AbMsg2) }, refName: "AbMsg2"},
	{name: "AbMsg3", new: func() any { return new(AbMsg3) }, refName: "AbMsg3"},
	{name: "AbLeaf", new: func() any { return new(AbLeaf) }, refName: "AbLeaf", noUnknown: true},
	{name: "AbGrp", new: func() any { return new(AbGrp) }},
	{name: "nullable.Proto2", new: func() any { return new(nullable.Proto2) }, noUnknown: true},
	{name: "nullable.Proto3", new: func() any { return new(nullable.Proto3) }, noUnknown: true},
	{name: "irregular.Message", new: func() any { return new(irregular.Message) }},
}

func abTypeByName(n string) *abType {
	for i := range abTypes {
		if abTypes[i].name == n {
			return &abTypes[i]
		}
	}
	return nil
}

// derived extension types: the legacy-style declarations, converted by the runtime on first use.
var (
	derivedOnce  sync.Once
	derivedTypes *protoregistry.Types
	derivedErr   error
)

func derivedResolver() (*protoregistry.Types, error) {
	derivedOnce.Do(func() {
		derivedTypes = new(protoregistry.Types)
		for _, x := range abExts {
			if err := derivedTypes.RegisterExtension(x); err != nil {
				derivedErr = fmt.Errorf("harness: registering %s: %v", x.Name, err)
			}
		}
	})
	return derivedTypes, derivedErr
}

func extsOf(r *protoregistry.Types) func(protoreflect.FullName) []protoreflect.ExtensionType {
	return func(name protoreflect.FullName) []protoreflect.ExtensionType {
		var out []protoreflect.ExtensionType
		r.RangeExtensionsByMessage(name, func(xt protoreflect.ExtensionType) bool { out = append(out, xt); return true })
		// deterministic order for the generator
		for i := range out {
			for j := i + 1; j < len(out); j++ {
				if out[j].TypeDescriptor().Number() < out[i].TypeDescriptor().Number() {
					out[i], out[j] = out[j], out[i]
				}
			}
		}
		return out
	}
}

func wrap(v any) proto.Message {
	if v1, ok := v.(protoadapt.MessageV1); ok {
		if _, isV2 := v.(proto.Message); !isV2 {
			return protoadapt.MessageV2Of(v1)
		}
	}
	return protoimpl.X.ProtoMessageV2Of(v)
}

// canHoldUnknown: message types of this family without unknown-field storage (precondition).
func canHoldUnknown(md protoreflect.MessageDescriptor) bool {
	switch md.FullName() {
	case abPkg + ".AbLeaf", "google_golang_org.protobuf.internal.testprotos.nullable.Proto2", "google_golang_org.protobuf.internal.testprotos.nullable.Proto3",
		"goproto.proto.thirdparty.IrregularMessage", "google_golang_org.protobuf.internal.testprotos.irregular.AberrantMessage":
		return false
	}
	return true
}

// stripWhereLost removes unknown fields from the submessages whose Go type cannot hold them.
func stripWhereLost(md protoreflect.MessageDescriptor, v *model.Msg, r model.Resolver) *model.Msg {
	if v == nil {
		return nil
	}
	out := &model.Msg{}
	if canHoldUnknown(md) {
		out.Unknown = v.Unknown
	}
	for _, f := range v.Fields {
		fd := model.FieldDesc(md, f.Num, r)
		g := model.Field{Num: f.Num, Keys: f.Keys}
		var sub protoreflect.MessageDescriptor
		if fd != nil {
			sub = fd.Message()
			if fd.IsMap() {
				sub = fd.MapValue().Message()
			}
		}
		for _, x := range f.Vals {
			if sub != nil && x.M != nil {
				g.Vals = append(g.Vals, model.Val{M: stripWhereLost(sub, x.M, r)})
			} else {
				g.Vals = append(g.Vals, x)
			}
		}
		out.Fields = append(out.Fields, g)
	}
	return out
}

// lacksRequiredNumbers: some message reachable from md has a field of cardinality Required that
// RequiredNumbers() does not list (the root cause of KF-aberrant-required-numbers).
func lacksRequiredNumbers(md protoreflect.MessageDescriptor, seen map[protoreflect.FullName]bool) bool {
	if seen[md.FullName()] {
		return false
	}
	seen[md.FullName()] = true
	for i := 0; i < md.Fields().Len(); i++ {
		fd := md.Fields().Get(i)
		if fd.Cardinality() == protoreflect.Required && !md.RequiredNumbers().Has(fd.Number()) {
			return true
		}
		sub := fd.Message()
		if fd.IsMap() {
			sub = fd.MapValue().Message()
		}
		if sub != nil && lacksRequiredNumbers(sub, seen) {
			return true
		}
	}
	return false
}

// structPopulated reads the Go struct directly (no protobuf runtime involved): the set of field
// numbers whose struct field is populated, from the number in each `protobuf:"…"` tag.
func structPopulated(v any) (map[int32]bool, bool) {
	rv := reflect.ValueOf(v)
	if rv.Kind() != reflect.Ptr || rv.Elem().Kind() != reflect.Struct {
		return nil, false
	}
	rv = rv.Elem()
	out := map[int32]bool{}
	tagNum := func(tag string) (int32, bool) {
		parts := strings.Split(tag, ",")
		if len(parts) < 2 {
			return 0, false
		}
		n, err := strconv.ParseInt(parts[1], 10, 32)
		return int32(n), err == nil
	}
	for i := 0; i < rv.NumField(); i++ {
		sf := rv.Type().Field(i)
		fv := rv.Field(i)
		if tag := sf.Tag.Get("protobuf_oneof"); tag != "" {
			if fv.IsNil() {
				continue
			}
			w := fv.Elem() // *wrapper
			if w.Kind() == reflect.Ptr && !w.IsNil() {
				if n, ok := tagNum(w.Elem().Type().Field(0).Tag.Get("protobuf")); ok {
					out[n] = true
				}
			}
			continue
		}
		n, ok := tagNum(sf.Tag.Get("protobuf"))
		if !ok {
			continue
		}
		switch fv.Kind() {
		case reflect.Ptr, reflect.Interface:
			out[n] = !fv.IsNil()
		case reflect.Slice, reflect.Map:
			out[n] = fv.Len() > 0
			if fv.Kind() == reflect.Slice && fv.Type().Elem().Kind() == reflect.Uint8 && !strings.Contains(sf.Tag.Get("protobuf"), ",proto3") {
				out[n] = !fv.IsNil() // a bytes field with explicit presence: set to empty is set
			}
		case reflect.Struct:
			return nil, false // non-nullable message field: no notion of "unset" in the struct
		case reflect.Float32, reflect.Float64:
			out[n] = math.Float64bits(fv.Float()) != 0 // -0.0 is a value
		default:
			out[n] = !fv.IsZero()
		}
	}
	return out, true
}

type abCase struct {
	Type   string     `json:"type"`
	M      *model.Msg `json:"m"`
	Wire   []byte     `json:"wire"`
	Labels []string   `json:"labels,omitempty"`
}

// abImpl is one implementation of the schema under comparison.
type abImpl struct {
	what string
	new  func() protoreflect.Message
	r    *protoregistry.Types // extension resolver of this implementation
	md   protoreflect.MessageDescriptor
}

func abImpls(t *abType) ([]abImpl, error) {
	dr, err := derivedResolver()
	if err != nil {
		return nil, err
	}
	dmd := wrap(t.new()).ProtoReflect().Descriptor()
	impls := []abImpl{
		{what: t.name, new: func() protoreflect.Message { return wrap(t.new()).ProtoReflect() }, r: dr, md: dmd},
		{what: "dynamicpb of the derived descriptor", new: func() protoreflect.Message { return dynamicpb.NewMessage(dmd) }, r: dr, md: dmd},
	}
	if t.refName != "" {
		rs, err := reference()
		if err != nil {
			return nil, err
		}
		rmd := rs.message(t.refName)
		impls = append(impls, abImpl{what: "dynamicpb of the hand-written schema", new: func() protoreflect.Message { return dynamicpb.NewMessage(rmd) }, r: rs.types, md: rmd})
	}
	return impls, nil
}

func checkAberrant(c abCase) error {
	t := abTypeByName(c.Type)
	if t == nil {
		return fmt.Errorf("harness: unknown type %q", c.Type)
	}
	impls, err := abImpls(t)
	if err != nil {
		return err
	}
	type inst struct {
		m  protoreflect.Message
		o  obs
		nd []byte
	}
	is := make([]inst, len(impls))
	for i, im := range impls {
		m := im.new()
		if err := model.Apply(m, c.M, im.r); err != nil {
			return fmt.Errorf("harness: %s: %v", im.what, err)
		}
		if d := model.Diff(im.md, c.M, model.Snapshot(m), exact, im.r); d != "" {
			return fmt.Errorf("%s: reflection view differs from the content written: %s", im.what, d)
		}
		o, err := observe(m)
		if err != nil {
			return err
		}
		if o.DetErr == "" && o.Size != len(o.Det) {
			return fmt.Errorf("%s: Size %d, Marshal wrote %d bytes", im.what, o.Size, len(o.Det))
		}
		nd, _ := proto.MarshalOptions{AllowPartial: true}.Marshal(m.Interface())
		is[i] = inst{m, o, nd}
		if i > 0 {
			// KF-aberrant-required-numbers: the derived descriptor lists no RequiredNumbers for its `req`
			// fields; whether a missing required field is noticed then depends on which code looks
			// (table-driven: only when the message is extendable; descriptor-driven: never)
			skip := is[0].o.Init != o.Init && lacksRequiredNumbers(impls[0].md, map[protoreflect.FullName]bool{}) &&
				!model.RequiredSet(impls[0].md, c.M, impls[0].r) && pbt.ExcludeKnown("KF-aberrant-required-numbers")
			if d := diffObsOpt(is[0].o, o, skip); d != "" {
				return fmt.Errorf("%s vs %s (same content): %s", impls[0].what, im.what, d)
			}
		}
	}
	if _, ok := ref.Split(is[0].o.Det); !ok && is[0].o.DetErr == "" {
		return fmt.Errorf("%s: Marshal output is not a well-formed field sequence: %x", t.name, is[0].o.Det)
	}
	if !proto.Equal(is[0].m.Interface(), is[1].m.Interface()) || !proto.Equal(is[1].m.Interface(), is[0].m.Interface()) {
		return fmt.Errorf("%s: proto.Equal(message, dynamicpb of the same descriptor with the same content) = false", t.name)
	}

	// the Go struct itself holds what the reflection view says (read without the runtime)
	bare := t.new()
	m0 := wrap(bare).ProtoReflect()
	if err := model.Apply(m0, c.M, impls[0].r); err != nil {
		return fmt.Errorf("harness: %v", err)
	}
	if set, ok := structPopulated(bare); ok {
		for num, pop := range set {
			if want := c.M.Get(num) != nil; pop != want {
				return fmt.Errorf("%s: struct field of number %d populated=%v after writing a content where it is populated=%v", t.name, num, pop, want)
			}
		}
		for _, f := range c.M.Fields {
			if fd := impls[0].md.Fields().ByNumber(protoreflect.FieldNumber(f.Num)); fd != nil {
				if _, ok := set[f.Num]; !ok {
					return fmt.Errorf("%s: no struct field carries number %d", t.name, f.Num)
				}
			}
		}
	}
	if v1, ok := bare.(protoadapt.MessageV1); ok {
		if _, isV2 := bare.(proto.Message); !isV2 {
			if back := protoadapt.MessageV1Of(m0.Interface()); back != v1 {
				return fmt.Errorf("%s: MessageV1Of(MessageV2Of(m)) is not m", t.name)
			}
		}
	}

	// every implementation decodes every output (and an independent encoding) to the same content
	inputs := []struct {
		what string
		b    []byte
	}{{fmt.Sprintf("reference encoding %v", c.Labels), c.Wire}}
	for i := range impls {
		inputs = append(inputs, struct {
			what string
			b    []byte
		}{"output of " + impls[i].what, is[i].nd})
	}
	inputs = append(inputs, struct {
		what string
		b    []byte
	}{"deterministic output", is[0].o.Det})
	for _, im := range impls {
		for _, inp := range inputs {
			m2 := im.new()
			if err := (proto.UnmarshalOptions{AllowPartial: true, Resolver: im.r}).Unmarshal(inp.b, m2.Interface()); err != nil {
				return fmt.Errorf("%s cannot decode the %s: %v (bytes %x)", im.what, inp.what, err, inp.b)
			}
			if d := model.Diff(im.md, c.M, model.Snapshot(m2), exact, im.r); d != "" {
				return fmt.Errorf("%s decodes the %s to different content: %s (bytes %x)", im.what, inp.what, d, inp.b)
			}
		}
	}
	return nil
}

func drawAberrant(t *rapid.T) abCase {
	at := abTypes[rapid.IntRange(0, len(abTypes)-1).Draw(t, "type")]
	c := abCase{Type: at.name}
	impls, err := abImpls(&at)
	if err != nil {
		t.Fatalf("%v", err)
	}
	drawOn := impls[len(impls)-1] // the hand-written schema when there is one
	o := gen.DefaultMsgOpts
	o.Depth, o.MaxFields, o.MaxBytes = 2, 7, 40
	o.FillRequired = rapid.IntRange(0, 3).Draw(t, "fill?") == 0
	o.Resolver = drawOn.r
	o.ExtTypes = extsOf(drawOn.r)
	if strings.HasPrefix(at.name, "nullable.") {
		// message fields held by value (gogo-style non-nullable) are a shape no golang/protobuf
		// generator wrote; the runtime offers reflection over them but no codec
		o.ValidUTF8 = true // tags without "proto3" inside a message taken for proto3: validation is not well defined
		o.SkipField = func(fd protoreflect.FieldDescriptor) bool {
			return fd.Message() != nil && !fd.IsMap() || fd.IsMap() && fd.MapValue().Message() != nil ||
				// a value-typed scalar whose tag asks for explicit presence (opt/req without proto3):
				// the struct cannot hold "set to zero"
				!fd.IsList() && !fd.IsMap() && fd.ContainingOneof() == nil
		}
	}
	derivedOnly := at.refName == "" // surrogate parents in the tree: the shared generator cannot ask about unknown-field support
	if derivedOnly {
		o.Unknown = false
	}
	m := gen.DrawMessage(t, drawOn.md, o)
	if derivedOnly {
		sprinkleUnknown(t, drawOn.md, m, o, 2)
	}
	c.M = stripWhereLost(drawOn.md, m, drawOn.r)
	eo := model.AllPerturbations
	eo.Labels = &c.Labels
	c.Wire = model.Encode(drawOn.md, c.M, gen.RapidChooser{T: t}, eo, drawOn.r)
	return c
}

// sprinkleUnknown adds unknown fields to the messages of the tree that can hold them.
func sprinkleUnknown(t *rapid.T, md protoreflect.MessageDescriptor, v *model.Msg, o gen.MsgOpts, depth int) {
	if v == nil {
		return
	}
	if canHoldUnknown(md) && rapid.IntRange(0, 3).Draw(t, "unknown?") == 0 {
		v.Unknown = gen.DrawUnknown(t, md, o)
	}
	if depth == 0 {
		return
	}
	for _, f := range v.Fields {
		fd := model.FieldDesc(md, f.Num, o.Resolver)
		if fd == nil {
			continue
		}
		sub := fd.Message()
		if fd.IsMap() {
			sub = fd.MapValue().Message()
		}
		if sub == nil {
			continue
		}
		for _, x := range f.Vals {
			sprinkleUnknown(t, sub, x.M, o, depth-1)
		}
	}
}

func abDesc(c abCase) (protoreflect.MessageDescriptor, model.Resolver) {
	impls, err := abImpls(abTypeByName(c.Type))
	if err != nil {
		panic(err)
	}
	return impls[0].md, impls[0].r
}

func TestAberrant(t *testing.T) {
	pbt.Run(t, pbt.Prop[abCase]{
		Name: "aberrant",
		Rule: "struct-tag-only types declared in the harness (proto2- and proto3-shaped, every scalar kind, defaults, required, packed/unpacked lists, maps, two oneofs, legacy-style extension declarations, a type with groups), the nullable test types and irregular.Message; content drawn on the hand-written schema (or the derived descriptor where no .proto can express the type) and written by field number into the wrapped struct, dynamicpb of the derived descriptor and dynamicpb of the hand-written schema; non-trivial = >= 3 of enum/message/oneof/map/extension/list populated",
		Draw: drawAberrant, Check: checkAberrant,
		NonTrivial: func(c abCase) bool {
			md, r := abDesc(c)
			set := map[string]bool{}
			shapesR(md, c.M, set, r)
			k := 0
			for _, s := range []string{"enum", "message", "oneof", "map", "extension", "list"} {
				if set[s] {
					k++
				}
			}
			return k >= 3
		},
		Classes: func(c abCase) []string {
			md, r := abDesc(c)
			set := map[string]bool{}
			shapesR(md, c.M, set, r)
			cl := []string{"type:" + c.Type}
			for _, s := range []string{"enum", "message", "oneof", "map", "extension", "list", "unknown", "group"} {
				if set[s] {
					cl = append(cl, "has:"+s)
				}
			}
			return cl
		},
		Quick: 4000, Thorough: 40000,
	})
}
