package c46

// Struct literals: content written straight into the Go structs (the way v1 user code does, no
// protobuf runtime involved) must show through the wrapper as the content the tags describe, and
// encode like a dynamicpb message of the hand-written schema holding that content.

import (
	"fmt"
	"math"
	"testing"

	gen2016 "google.golang.org/protobuf/internal/testprotos/legacy/proto2_20160225_2fc053c5"
	"google.golang.org/protobuf/proto"
	"google.golang.org/protobuf/reflect/protoreflect"
	"google.golang.org/protobuf/types/dynamicpb"
	"google.golang.org/protobuf/zverif/model"
	"google.golang.org/protobuf/zverif/pbt"
)

type litCase struct {
	Name string `json:"name"`
}

func u(v uint64) []model.Val  { return []model.Val{{U: v}} }
func i(v int64) []model.Val   { return []model.Val{{U: uint64(v)}} }
func bs(v string) []model.Val { return []model.Val{{B: []byte(v)}} }
func f32(v float32) uint64    { return uint64(math.Float32bits(v)) }
func f64(v float64) uint64    { return math.Float64bits(v) }
func msg(fs ...model.Field) *model.Msg {
	return &model.Msg{Fields: fs}
}
func fld(n int32, vs []model.Val) model.Field { return model.Field{Num: n, Vals: vs} }

type literal struct {
	name string
	typ  string
	v    func() any
	want *model.Msg
}

func literals() []literal {
	t, s, n32, e := true, "héllo", int32(-7), AbEnum(5)
	u64, fl, db := uint64(math.MaxUint64), float32(math.Copysign(0, -1)), math.Inf(-1)
	return []literal{
		{"ab2-scalars", "AbMsg2", func() any {
			return &AbMsg2{OptBool: &t, OptSint32: &n32, OptUint64: &u64, OptFloat: &fl, OptDouble: &db, OptString: &s, OptBytes: []byte{0, 255}, OptEnum: &e, ReqInt32: &n32, OptJSON: &s}
		}, msg(fld(1, u(1)), fld(3, i(-7)), fld(7, u(math.MaxUint64)), fld(10, u(f32(fl))), fld(13, u(f64(db))), fld(14, bs(s)), fld(15, bs("\x00\xff")), fld(16, i(5)), fld(19, bs(s)), fld(30, i(-7)))},
		{"ab2-lists-maps", "AbMsg2", func() any {
			return &AbMsg2{PackSint32: []int32{-1, 0, 1}, PackDouble: []float64{1.5}, RepInt32: []int32{3, -3}, RepString: []string{"", "x"}, RepBytes: [][]byte{{}, {1}},
				RepEnum: []AbEnum{0, -1}, MapInt32Sint: map[int32]int64{-1: -2, 5: 6}, MapBoolDouble: map[bool]float64{true: 0.25}, MapStringMsg: map[string]*AbMsg2{"k": {OptInt32: &n32}},
				MapFixed64Enum: map[uint64]AbEnum{9: 3}}
		}, msg(fld(42, []model.Val{{U: uint64(0xffffffffffffffff)}, {U: 0}, {U: 1}}), fld(48, u(f64(1.5))), fld(61, []model.Val{{U: 3}, {U: uint64(0xfffffffffffffffd)}}),
			fld(65, []model.Val{{B: []byte{}}, {B: []byte("x")}}), fld(66, []model.Val{{B: []byte{}}, {B: []byte{1}}}), fld(67, []model.Val{{U: 0}, {U: uint64(0xffffffffffffffff)}}),
			model.Field{Num: 81, Keys: []model.Val{{U: uint64(0xffffffffffffffff)}, {U: 5}}, Vals: []model.Val{{U: uint64(0xfffffffffffffffe)}, {U: 6}}},
			model.Field{Num: 84, Keys: u(1), Vals: u(f64(0.25))},
			model.Field{Num: 85, Keys: u(9), Vals: u(3)},
			model.Field{Num: 86, Keys: bs("k"), Vals: []model.Val{{M: msg(fld(2, i(-7)))}}})},
		{"ab2-oneofs-nested", "AbMsg2", func() any {
			return &AbMsg2{Union: &AbMsg2_ULeaf{ULeaf: &AbLeaf{Req: &s}}, Other: &AbMsg2_OInt64{OInt64: 0}, OptMsg: &AbMsg2{Union: &AbMsg2_UFloat{UFloat: 0}}, OptOther: &AbMsg3{FSint32: -7, REnum: []AbEnum{1}},
				ReqMsg: &AbLeaf{}, RepMsg: []*AbMsg2{{}, {OptBool: &t}}}
		}, msg(fld(17, []model.Val{{M: msg(fld(103, u(0)))}}), fld(18, []model.Val{{M: msg(fld(3, i(-7)), fld(34, u(1)))}}), fld(31, []model.Val{{M: msg()}}),
			fld(68, []model.Val{{M: msg()}, {M: msg(fld(1, u(1)))}}), fld(98, u(0)), fld(108, []model.Val{{M: msg(fld(1, bs(s)))}}))},
		{"ab2-unknown", "AbMsg2", func() any {
			return &AbMsg2{OptPlain: &n32, XXX_unrecognized: []byte{0xf8, 0x7f, 0x01}}
		}, &model.Msg{Fields: []model.Field{fld(21, i(-7))}, Unknown: []byte{0xf8, 0x7f, 0x01}}},
		{"ab3-scalars", "AbMsg3", func() any {
			return &AbMsg3{FBool: true, FSint64: -9, FFixed32: 7, FFloat: fl, FString: s, FBytes: []byte{}, FEnum: 2, FJSON: "j", FMsg: &AbMsg3{}, Choice: &AbMsg3_CString{CString: ""}}
		}, msg(fld(1, u(1)), fld(6, i(-9)), fld(8, u(7)), fld(10, u(f32(fl))), fld(14, bs(s)), fld(16, u(2)), fld(17, []model.Val{{M: msg()}}), fld(18, bs("j")), fld(71, bs("")))},
		{"ab3-lists-maps", "AbMsg3", func() any {
			return &AbMsg3{RInt32: []int32{1, -1}, RBool: []bool{false}, RString: []string{"a"}, RMsg: []*AbMsg3{{FInt32: 1}}, MStringInt32: map[string]int32{"": 0}, MUint32Msg: map[uint32]*AbMsg3{0: {}},
				MSfixedEnum: map[int64]AbEnum{-1: -1}, Choice: &AbMsg3_CMsg{CMsg: &AbMsg3{Choice: &AbMsg3_CEnum{CEnum: 0}}}}
		}, msg(fld(30, []model.Val{{U: 1}, {U: uint64(0xffffffffffffffff)}}), fld(33, u(0)), fld(35, bs("a")), fld(37, []model.Val{{M: msg(fld(2, u(1)))}}),
			model.Field{Num: 50, Keys: bs(""), Vals: u(0)}, model.Field{Num: 52, Keys: u(0), Vals: []model.Val{{M: msg()}}},
			model.Field{Num: 54, Keys: []model.Val{{U: uint64(0xffffffffffffffff)}}, Vals: []model.Val{{U: uint64(0xffffffffffffffff)}}},
			fld(72, []model.Val{{M: msg(fld(74, u(0)))}}))},
		{"generation-2016-struct", "gen2016", func() any {
			return &gen2016.Message{OptionalSint32: &n32, RepeatedString: []string{"a", "b"}, MapBoolString: map[bool]string{true: "t"}, OneofUnion: &gen2016.Message_OneofUint64{OneofUint64: 0},
				OptionalChildMessage: &gen2016.Message_ChildMessage{F2: &s}, Namedgroup: &gen2016.Message_NamedGroup{F1: &s}}
		}, msg(fld(1, []model.Val{{M: msg(fld(1, bs(s)))}}), fld(102, i(-7)), fld(116, []model.Val{{M: msg(fld(2, bs(s)))}}), fld(513, []model.Val{{B: []byte("a")}, {B: []byte("b")}}),
			model.Field{Num: 613, Keys: u(1), Vals: bs("t")}, fld(706, u(0)))},
	}
}

func checkLiteral(c litCase) error {
	for _, l := range literals() {
		if l.name != c.Name {
			continue
		}
		m := wrap(l.v()).ProtoReflect()
		md := m.Descriptor()
		dr, err := derivedResolver()
		if err != nil {
			return err
		}
		if d := model.Diff(md, l.want, model.Snapshot(m), exact, dr); d != "" {
			return fmt.Errorf("%s: the wrapper does not show the content of the struct literal: %s", l.name, d)
		}
		var refMD protoreflect.MessageDescriptor
		if l.typ == "gen2016" {
			refMD = md
		} else {
			rs, err := reference()
			if err != nil {
				return err
			}
			refMD = rs.message(l.typ)
		}
		d := dynamicpb.NewMessage(refMD)
		if err := model.Apply(d, l.want, nil); err != nil {
			return fmt.Errorf("harness: %v", err)
		}
		om, err := observe(m)
		if err != nil {
			return err
		}
		od, err := observe(d)
		if err != nil {
			return err
		}
		skip := om.Init != od.Init && lacksRequiredNumbers(md, map[protoreflect.FullName]bool{}) && !model.RequiredSet(md, l.want, dr) && pbt.ExcludeKnown("KF-aberrant-required-numbers")
		if df := diffObsOpt(om, od, skip); df != "" {
			return fmt.Errorf("%s: struct literal vs dynamicpb of the reference schema with the same content: %s", l.name, df)
		}
		// and back: decoding the reference bytes fills a fresh struct with the same content
		m2 := wrap(l.v()).ProtoReflect().New()
		if err := (proto.UnmarshalOptions{AllowPartial: true, Resolver: dr}).Unmarshal(od.Det, m2.Interface()); err != nil {
			return fmt.Errorf("%s: cannot decode the reference bytes: %v", l.name, err)
		}
		if df := model.Diff(md, l.want, model.Snapshot(m2), exact, dr); df != "" {
			return fmt.Errorf("%s: reference bytes decode to different content: %s", l.name, df)
		}
		return nil
	}
	return fmt.Errorf("harness: no literal %q", c.Name)
}

func TestLiterals(t *testing.T) {
	pbt.Enumerate(t, "literals", "fixed list of Go struct literals of the struct-tag-only types and of one legacy generation (scalars incl. -0.0 / -Inf / max, empty strings and bytes, packed and unpacked lists, maps, both oneofs with zero-valued members, nested and cross-type messages, raw unknown bytes) with the expected content written out by hand", true,
		func(yield func(c litCase, nt bool) bool) {
			for _, l := range literals() {
				if !yield(litCase{Name: l.name}, true) {
					return
				}
			}
		}, checkLiteral)
}

// TestWitnessRequiredNumbers replays the fixed witness of KF-aberrant-required-numbers.
func TestWitnessRequiredNumbers(t *testing.T) {
	md := wrap(new(AbLeaf)).ProtoReflect().Descriptor()
	req := md.Fields().ByNumber(1)
	viaTable := proto.CheckInitialized(wrap(new(AbMsg2))) != nil         // extendable message: the table-driven check looks at cardinalities
	viaDesc := proto.CheckInitialized(dynamicpb.NewMessage(md)) != nil   // descriptor-driven check
	leaf := proto.CheckInitialized(wrap(new(AbLeaf))) != nil             // not extendable: skipped altogether
	reproduces := req.Cardinality() == protoreflect.Required && md.RequiredNumbers().Len() == 0
	pbt.Witness(t, "KF-aberrant-required-numbers", reproduces,
		fmt.Sprintf("AbLeaf.req: Cardinality()=%v, RequiredNumbers().Len()=%d; CheckInitialized reports the unset required field: empty AbMsg2 (extendable) %v, empty AbLeaf %v, dynamicpb of AbLeaf's descriptor %v",
			req.Cardinality(), md.RequiredNumbers().Len(), viaTable, leaf, viaDesc))
}
