package c46

// The schema the struct tags of aberrant_types_test.go spell out, written by hand as
// FileDescriptorProtos (from the golang/protobuf tag format: wire encoding, number, opt/req/rep,
// packed, name=, json=, enum=, proto3, oneof, def=) and linked with protodesc. It is the
// independent expectation for the descriptors the runtime derives, and dynamicpb messages of it
// are the reference implementation the aberrant messages are compared with.

import (
	"fmt"
	"strings"
	"sync"

	"google.golang.org/protobuf/proto"
	"google.golang.org/protobuf/reflect/protodesc"
	"google.golang.org/protobuf/reflect/protoreflect"
	"google.golang.org/protobuf/reflect/protoregistry"
	"google.golang.org/protobuf/types/descriptorpb"
	"google.golang.org/protobuf/types/dynamicpb"
)

type (
	fdp = descriptorpb.FieldDescriptorProto
	dp  = descriptorpb.DescriptorProto
)

const (
	lOpt = descriptorpb.FieldDescriptorProto_LABEL_OPTIONAL
	lReq = descriptorpb.FieldDescriptorProto_LABEL_REQUIRED
	lRep = descriptorpb.FieldDescriptorProto_LABEL_REPEATED

	tBool     = descriptorpb.FieldDescriptorProto_TYPE_BOOL
	tInt32    = descriptorpb.FieldDescriptorProto_TYPE_INT32
	tSint32   = descriptorpb.FieldDescriptorProto_TYPE_SINT32
	tUint32   = descriptorpb.FieldDescriptorProto_TYPE_UINT32
	tInt64    = descriptorpb.FieldDescriptorProto_TYPE_INT64
	tSint64   = descriptorpb.FieldDescriptorProto_TYPE_SINT64
	tUint64   = descriptorpb.FieldDescriptorProto_TYPE_UINT64
	tFixed32  = descriptorpb.FieldDescriptorProto_TYPE_FIXED32
	tSfixed32 = descriptorpb.FieldDescriptorProto_TYPE_SFIXED32
	tFloat    = descriptorpb.FieldDescriptorProto_TYPE_FLOAT
	tFixed64  = descriptorpb.FieldDescriptorProto_TYPE_FIXED64
	tSfixed64 = descriptorpb.FieldDescriptorProto_TYPE_SFIXED64
	tDouble   = descriptorpb.FieldDescriptorProto_TYPE_DOUBLE
	tString   = descriptorpb.FieldDescriptorProto_TYPE_STRING
	tBytes    = descriptorpb.FieldDescriptorProto_TYPE_BYTES
	tEnum     = descriptorpb.FieldDescriptorProto_TYPE_ENUM
	tMessage  = descriptorpb.FieldDescriptorProto_TYPE_MESSAGE
	tGroup    = descriptorpb.FieldDescriptorProto_TYPE_GROUP
)

type mod func(*fdp)

func fl(name string, num int32, l descriptorpb.FieldDescriptorProto_Label, t descriptorpb.FieldDescriptorProto_Type, mods ...mod) *fdp {
	f := &fdp{Name: proto.String(name), Number: proto.Int32(num), Label: l.Enum(), Type: t.Enum()}
	for _, m := range mods {
		m(f)
	}
	return f
}
func tn(name string) mod   { return func(f *fdp) { f.TypeName = proto.String("." + abPkg + "." + name) } }
func abs(name string) mod  { return func(f *fdp) { f.TypeName = proto.String("." + name) } }
func def(s string) mod     { return func(f *fdp) { f.DefaultValue = proto.String(s) } }
func jsn(s string) mod     { return func(f *fdp) { f.JsonName = proto.String(s) } }
func oneofIdx(i int32) mod { return func(f *fdp) { f.OneofIndex = proto.Int32(i) } }
func packed(v bool) mod {
	return func(f *fdp) { f.Options = &descriptorpb.FieldOptions{Packed: proto.Bool(v)} }
}
func extendee(name string) mod {
	return func(f *fdp) { f.Extendee = proto.String("." + abPkg + "." + name) }
}

// mapField returns the map field and its entry message.
func mapField(parent, name string, num int32, entry string, k descriptorpb.FieldDescriptorProto_Type, v descriptorpb.FieldDescriptorProto_Type, vmods ...mod) (*fdp, *dp) {
	e := &dp{Name: proto.String(entry), Options: &descriptorpb.MessageOptions{MapEntry: proto.Bool(true)},
		Field: []*fdp{fl("key", 1, lOpt, k), fl("value", 2, lOpt, v, vmods...)}}
	return fl(name, num, lRep, tMessage, tn(parent+"."+entry)), e
}

func abSchema() []*descriptorpb.FileDescriptorProto {
	enumFile := &descriptorpb.FileDescriptorProto{
		Name: proto.String("c46/ab_enum.proto"), Package: proto.String(abPkg), Syntax: proto.String("proto3"),
		// "some bogus enum descriptor based on the Go type name": one value <Name>_UNKNOWN = 0, open
		EnumType: []*descriptorpb.EnumDescriptorProto{{Name: proto.String("AbEnum"),
			Value: []*descriptorpb.EnumValueDescriptorProto{{Name: proto.String("AbEnum_UNKNOWN"), Number: proto.Int32(0)}}}},
	}

	m3 := &dp{Name: proto.String("AbMsg3"), OneofDecl: []*descriptorpb.OneofDescriptorProto{{Name: proto.String("choice")}}}
	m3.Field = []*fdp{
		fl("f_bool", 1, lOpt, tBool), fl("f_int32", 2, lOpt, tInt32), fl("f_sint32", 3, lOpt, tSint32), fl("f_uint32", 4, lOpt, tUint32),
		fl("f_int64", 5, lOpt, tInt64), fl("f_sint64", 6, lOpt, tSint64), fl("f_uint64", 7, lOpt, tUint64), fl("f_fixed32", 8, lOpt, tFixed32),
		fl("f_sfixed32", 9, lOpt, tSfixed32), fl("f_float", 10, lOpt, tFloat), fl("f_fixed64", 11, lOpt, tFixed64), fl("f_sfixed64", 12, lOpt, tSfixed64),
		fl("f_double", 13, lOpt, tDouble), fl("f_string", 14, lOpt, tString), fl("f_bytes", 15, lOpt, tBytes), fl("f_enum", 16, lOpt, tEnum, tn("AbEnum")),
		fl("f_msg", 17, lOpt, tMessage, tn("AbMsg3")), fl("f_json", 18, lOpt, tString, jsn("Other_Name")),
		fl("r_int32", 30, lRep, tInt32), fl("r_sint64", 31, lRep, tSint64), fl("r_float", 32, lRep, tFloat), fl("r_bool", 33, lRep, tBool),
		fl("r_enum", 34, lRep, tEnum, tn("AbEnum")), fl("r_string", 35, lRep, tString), fl("r_bytes", 36, lRep, tBytes), fl("r_msg", 37, lRep, tMessage, tn("AbMsg3")),
	}
	addMap := func(m *dp, name string, num int32, entry string, k, v descriptorpb.FieldDescriptorProto_Type, vmods ...mod) {
		f, e := mapField(m.GetName(), name, num, entry, k, v, vmods...)
		m.Field = append(m.Field, f)
		m.NestedType = append(m.NestedType, e)
	}
	addMap(m3, "m_string_int32", 50, "MStringInt32Entry", tString, tInt32)
	addMap(m3, "m_int64_string", 51, "MInt64StringEntry", tInt64, tString)
	addMap(m3, "m_uint32_msg", 52, "MUint32MsgEntry", tUint32, tMessage, tn("AbMsg3"))
	addMap(m3, "m_bool_float", 53, "MBoolFloatEntry", tBool, tFloat)
	addMap(m3, "m_sfixed_enum", 54, "MSfixedEnumEntry", tSfixed64, tEnum, tn("AbEnum"))
	m3.Field = append(m3.Field,
		fl("c_uint32", 70, lOpt, tUint32, oneofIdx(0)), fl("c_string", 71, lOpt, tString, oneofIdx(0)), fl("c_msg", 72, lOpt, tMessage, tn("AbMsg3"), oneofIdx(0)),
		fl("c_double", 73, lOpt, tDouble, oneofIdx(0)), fl("c_enum", 74, lOpt, tEnum, tn("AbEnum"), oneofIdx(0)))
	file3 := &descriptorpb.FileDescriptorProto{Name: proto.String("c46/ab3.proto"), Package: proto.String(abPkg), Syntax: proto.String("proto3"),
		Dependency: []string{"c46/ab_enum.proto"}, MessageType: []*dp{m3}}

	m2 := &dp{Name: proto.String("AbMsg2"),
		OneofDecl:      []*descriptorpb.OneofDescriptorProto{{Name: proto.String("union")}, {Name: proto.String("other")}},
		ExtensionRange: []*descriptorpb.DescriptorProto_ExtensionRange{{Start: proto.Int32(200), End: proto.Int32(300)}, {Start: proto.Int32(1000), End: proto.Int32(536870912)}}}
	m2.Field = []*fdp{
		fl("opt_bool", 1, lOpt, tBool, def("true")), fl("opt_int32", 2, lOpt, tInt32, def("-12345")), fl("opt_sint32", 3, lOpt, tSint32, def("-3200")),
		fl("opt_uint32", 4, lOpt, tUint32, def("3200")), fl("opt_int64", 5, lOpt, tInt64, def("-123456789")), fl("opt_sint64", 6, lOpt, tSint64, def("-6400")),
		fl("opt_uint64", 7, lOpt, tUint64, def("6400")), fl("opt_fixed32", 8, lOpt, tFixed32, def("320000")), fl("opt_sfixed32", 9, lOpt, tSfixed32, def("-320000")),
		fl("opt_float", 10, lOpt, tFloat, def("3.14159")), fl("opt_fixed64", 11, lOpt, tFixed64, def("640000")), fl("opt_sfixed64", 12, lOpt, tSfixed64, def("-640000")),
		fl("opt_double", 13, lOpt, tDouble, def("3.14159265359")), fl("opt_string", 14, lOpt, tString, def("hello, \"world!\"\n")),
		fl("opt_bytes", 15, lOpt, tBytes, def(`dead\336\255\276\357beef`)), fl("opt_enum", 16, lOpt, tEnum, tn("AbEnum")),
		fl("opt_msg", 17, lOpt, tMessage, tn("AbMsg2")), fl("opt_other", 18, lOpt, tMessage, tn("AbMsg3")), fl("opt_json", 19, lOpt, tString, jsn("customJson")),
		fl("opt_plain", 21, lOpt, tInt32), fl("opt_plain_str", 22, lOpt, tString),
		fl("req_int32", 30, lReq, tInt32), fl("req_msg", 31, lReq, tMessage, tn("AbLeaf")),
		fl("pack_bool", 40, lRep, tBool, packed(true)), fl("pack_int32", 41, lRep, tInt32, packed(true)), fl("pack_sint32", 42, lRep, tSint32, packed(true)),
		fl("pack_uint64", 43, lRep, tUint64, packed(true)), fl("pack_sint64", 44, lRep, tSint64, packed(true)), fl("pack_fixed32", 45, lRep, tFixed32, packed(true)),
		fl("pack_float", 46, lRep, tFloat, packed(true)), fl("pack_sfixed64", 47, lRep, tSfixed64, packed(true)), fl("pack_double", 48, lRep, tDouble, packed(true)),
		fl("pack_enum", 49, lRep, tEnum, tn("AbEnum"), packed(true)),
		fl("rep_bool", 60, lRep, tBool), fl("rep_int32", 61, lRep, tInt32), fl("rep_sint64", 62, lRep, tSint64), fl("rep_fixed", 63, lRep, tFixed32),
		fl("rep_double", 64, lRep, tDouble), fl("rep_string", 65, lRep, tString), fl("rep_bytes", 66, lRep, tBytes), fl("rep_enum", 67, lRep, tEnum, tn("AbEnum")),
		fl("rep_msg", 68, lRep, tMessage, tn("AbMsg2")),
	}
	addMap(m2, "map_string_bool", 80, "MapStringBoolEntry", tString, tBool)
	addMap(m2, "map_int32_sint", 81, "MapInt32SintEntry", tInt32, tSint64)
	addMap(m2, "map_sint32_fix", 82, "MapSint32FixEntry", tSint32, tFixed32)
	addMap(m2, "map_uint64_bytes", 83, "MapUint64BytesEntry", tUint64, tBytes)
	addMap(m2, "map_bool_double", 84, "MapBoolDoubleEntry", tBool, tDouble)
	addMap(m2, "map_fixed64_enum", 85, "MapFixed64EnumEntry", tFixed64, tEnum, tn("AbEnum"))
	addMap(m2, "map_string_msg", 86, "MapStringMsgEntry", tString, tMessage, tn("AbMsg2"))
	addMap(m2, "map_sfixed_str", 87, "MapSfixedStrEntry", tSfixed32, tString)
	m2.Field = append(m2.Field,
		fl("u_bool", 100, lOpt, tBool, oneofIdx(0)), fl("u_sint32", 101, lOpt, tSint32, oneofIdx(0), def("-7")), fl("u_fixed64", 102, lOpt, tFixed64, oneofIdx(0)),
		fl("u_float", 103, lOpt, tFloat, oneofIdx(0), def("1.5")), fl("u_string", 104, lOpt, tString, oneofIdx(0), def("a,b")), fl("u_bytes", 105, lOpt, tBytes, oneofIdx(0)),
		fl("u_enum", 106, lOpt, tEnum, tn("AbEnum"), oneofIdx(0)), fl("u_msg", 107, lOpt, tMessage, tn("AbMsg2"), oneofIdx(0)), fl("u_leaf", 108, lOpt, tMessage, tn("AbLeaf"), oneofIdx(0)),
		fl("o_int64", 98, lOpt, tInt64, oneofIdx(1)), fl("o_string", 99, lOpt, tString, oneofIdx(1)))
	leaf := &dp{Name: proto.String("AbLeaf"), Field: []*fdp{fl("req", 1, lReq, tString), fl("opt", 2, lOpt, tFixed32, def("9"))}}
	file2 := &descriptorpb.FileDescriptorProto{Name: proto.String("c46/ab2.proto"), Package: proto.String(abPkg), Syntax: proto.String("proto2"),
		Dependency: []string{"c46/ab_enum.proto", "c46/ab3.proto", "proto2_20160225_2fc053c5/test.proto", "proto2_20190205_c823c79e/test.proto"}, MessageType: []*dp{m2, leaf},
		Extension: []*fdp{
			fl("ext_int32", 200, lOpt, tInt32, extendee("AbMsg2"), def("-5")), fl("ext_string", 201, lOpt, tString, extendee("AbMsg2")),
			fl("ext_bytes", 202, lOpt, tBytes, extendee("AbMsg2")), fl("ext_rep_sint", 203, lRep, tSint64, extendee("AbMsg2")),
			fl("ext_pack_fixed", 204, lRep, tFixed32, extendee("AbMsg2"), packed(true)), fl("ext_rep_string", 205, lRep, tString, extendee("AbMsg2")),
			fl("ext_msg", 1000, lOpt, tMessage, extendee("AbMsg2"), abs("google.golang.org.proto2_20160225.Message.ChildMessage")),
			fl("ext_rep_sibling", 1001, lRep, tMessage, extendee("AbMsg2"), abs("google.golang.org.proto2_20190205.SiblingMessage")),
			fl("ext_enum", 1002, lOpt, tEnum, extendee("AbMsg2"), abs("google.golang.org.proto2_20190205.SiblingEnum"), def("BRAVO")),
			fl("ext_double", 536870911, lOpt, tDouble, extendee("AbMsg2")), fl("ext_bool", 299, lOpt, tBool, extendee("AbMsg2"), def("true")),
		}}
	return []*descriptorpb.FileDescriptorProto{enumFile, file3, file2}
}

// refSchema is the linked hand-written schema with dynamicpb types for its extensions.
type refSchema struct {
	files *protoregistry.Files
	types *protoregistry.Types // dynamic extension types of the reference schema
}

var (
	refOnce sync.Once
	refS    *refSchema
	refErr  error
)

func reference() (*refSchema, error) {
	refOnce.Do(func() {
		rs := &refSchema{files: new(protoregistry.Files), types: new(protoregistry.Types)}
		for _, p := range abSchema() {
			fd, err := protodesc.NewFile(p, withGlobal{rs.files})
			if err != nil {
				refErr = fmt.Errorf("harness: hand-written schema %s does not link: %v", p.GetName(), err)
				return
			}
			if err := rs.files.RegisterFile(fd); err != nil {
				refErr = fmt.Errorf("harness: %v", err)
				return
			}
			xs := fd.Extensions()
			for i := 0; i < xs.Len(); i++ {
				if err := rs.types.RegisterExtension(dynamicpb.NewExtensionType(xs.Get(i))); err != nil {
					refErr = fmt.Errorf("harness: %v", err)
					return
				}
			}
		}
		refS = rs
	})
	return refS, refErr
}

// withGlobal resolves in the private registry first, then among the derived files of the legacy
// generations (they are not registered anywhere).
type withGlobal struct{ own *protoregistry.Files }

func legacyFiles() []protoreflect.FileDescriptor {
	var out []protoreflect.FileDescriptor
	for _, syntax := range []int{2, 3} {
		for g := range genDates {
			out = append(out, genType(syntax, g, "Message").Descriptor().ParentFile())
		}
	}
	return out
}

func (w withGlobal) FindFileByPath(p string) (protoreflect.FileDescriptor, error) {
	if fd, err := w.own.FindFileByPath(p); err == nil {
		return fd, nil
	}
	for _, fd := range legacyFiles() {
		if fd.Path() == p {
			return fd, nil
		}
	}
	return nil, protoregistry.NotFound
}
func (w withGlobal) FindDescriptorByName(n protoreflect.FullName) (protoreflect.Descriptor, error) {
	if d, err := w.own.FindDescriptorByName(n); err == nil {
		return d, nil
	}
	for _, fd := range legacyFiles() {
		if !strings.HasPrefix(string(n), string(fd.Package())+".") {
			continue
		}
		parts := strings.Split(strings.TrimPrefix(string(n), string(fd.Package())+"."), ".")
		if d := fd.Enums().ByName(protoreflect.Name(parts[0])); d != nil && len(parts) == 1 {
			return d, nil
		}
		md := fd.Messages().ByName(protoreflect.Name(parts[0]))
		for _, p := range parts[1:] {
			if md == nil {
				break
			}
			if len(parts) > 1 && p == parts[len(parts)-1] {
				if d := md.Enums().ByName(protoreflect.Name(p)); d != nil {
					return d, nil
				}
			}
			md = md.Messages().ByName(protoreflect.Name(p))
		}
		if md != nil {
			return md, nil
		}
	}
	return nil, protoregistry.NotFound
}

func (rs *refSchema) message(name string) protoreflect.MessageDescriptor {
	d, err := rs.files.FindDescriptorByName(protoreflect.FullName(abPkg + "." + name))
	if err != nil {
		panic("harness: " + err.Error())
	}
	return d.(protoreflect.MessageDescriptor)
}
