package c46

import (
	"fmt"
	"testing"

	"google.golang.org/protobuf/proto"
	"google.golang.org/protobuf/reflect/protoreflect"
	"google.golang.org/protobuf/reflect/protoregistry"
	"google.golang.org/protobuf/zverif/corpus"
	"google.golang.org/protobuf/zverif/gen"
	"google.golang.org/protobuf/zverif/model"
)

func TestProbe(t *testing.T) {
	for _, n := range corpus.Names() {
		if len(n) > 30 && n[:26] == "google.golang.org.proto2_2" || len(n) > 30 && n[:26] == "google.golang.org.proto3_2" {
			mt := corpus.ByName(n)
			md := mt.Descriptor()
			nx := 0
			protoregistry.GlobalTypes.RangeExtensionsByMessage(md.FullName(), func(protoreflect.ExtensionType) bool { nx++; return true })
			fmt.Printf("%s go=%v fields=%d oneofs=%d ext=%d preserves=%v path=%s syntax=%v\n", n, mt.New().Interface(), md.Fields().Len(), md.Oneofs().Len(), nx, gen.PreservesUnknown(md), md.ParentFile().Path(), md.Syntax())
		}
	}
	_ = proto.Marshal
	_ = model.Apply
}
