package c46

import (
	"fmt"
	"reflect"
	"testing"

	"google.golang.org/protobuf/proto"
	"google.golang.org/protobuf/protoadapt"
	"google.golang.org/protobuf/reflect/protoreflect"
	"google.golang.org/protobuf/runtime/protoimpl"
	"google.golang.org/protobuf/types/dynamicpb"
	"google.golang.org/protobuf/zverif/corpus"
	"google.golang.org/protobuf/zverif/gen"
	"google.golang.org/protobuf/zverif/model"
	"google.golang.org/protobuf/zverif/pbt"
	"google.golang.org/protobuf/zverif/ref"
	"pgregory.net/rapid"
)

// xgenCase: one model value (keyed by field number) realised in every generation of one syntax.
type xgenCase struct {
	Syntax int        `json:"syntax"`
	Root   string     `json:"root"`
	Base   int        `json:"base"` // generation whose descriptor directed the draw
	M      *model.Msg `json:"m"`
	Wire   []byte     `json:"wire"` // perturbed-but-equivalent reference encoding of M
	Labels []string   `json:"labels,omitempty"`
	Rot    int        `json:"rot"` // generation g also decodes the non-deterministic output of generation (g+Rot)%6
	Filled bool       `json:"filled"`
}

func newV1(mt protoreflect.MessageType) (protoadapt.MessageV1, error) {
	mi, ok := mt.(*protoimpl.MessageInfo)
	if !ok {
		return nil, fmt.Errorf("harness: %s: registered type is %T, not a *MessageInfo", mt.Descriptor().FullName(), mt)
	}
	t := mi.GoReflectType
	if t.Kind() != reflect.Ptr {
		return nil, fmt.Errorf("harness: %s: Go type %v is not a pointer", mt.Descriptor().FullName(), t)
	}
	v1, ok := reflect.New(t.Elem()).Interface().(protoadapt.MessageV1)
	if !ok {
		return nil, fmt.Errorf("harness: %v is not a v1 message", t)
	}
	if _, isV2 := v1.(proto.Message); isV2 {
		return nil, fmt.Errorf("harness: %v implements the v2 API, it is not a legacy type", t)
	}
	return v1, nil
}

func checkXGen(c xgenCase) error {
	const n = 6
	type inst struct {
		mt   protoreflect.MessageType
		md   protoreflect.MessageDescriptor
		want *model.Msg
		m    protoreflect.Message
		o    obs
		nd   []byte
	}
	is := make([]inst, n)
	for g := 0; g < n; g++ {
		mt := genType(c.Syntax, g, c.Root)
		if mt == nil {
			return fmt.Errorf("harness: %s not linked", genName(c.Syntax, g, c.Root))
		}
		in := inst{mt: mt, md: mt.Descriptor(), want: expectFor(c.Syntax, g, c.M)}
		name := in.md.FullName()
		// reach the message the way v1 user code does: a bare struct pointer, wrapped on demand
		v1, err := newV1(mt)
		if err != nil {
			return err
		}
		var v2 proto.Message
		if g%2 == 0 {
			v2 = protoadapt.MessageV2Of(v1)
		} else {
			v2 = protoimpl.X.ProtoMessageV2Of(v1)
		}
		in.m = v2.ProtoReflect()
		if got := in.m.Descriptor().FullName(); got != name {
			return fmt.Errorf("wrapped %T has descriptor %s, registered type has %s", v1, got, name)
		}
		if err := model.Apply(in.m, in.want, nil); err != nil {
			return fmt.Errorf("harness: %v", err)
		}
		if d := model.Diff(in.md, in.want, model.Snapshot(in.m), exact, nil); d != "" {
			return fmt.Errorf("%s: reflection view differs from the content written: %s", name, d)
		}
		// conversions give back the very same v1 value, and a second wrapper sees the same content
		if back := protoadapt.MessageV1Of(v2); back != v1 {
			return fmt.Errorf("%s: MessageV1Of(MessageV2Of(m)) is not m (%T %p vs %T %p)", name, back, back, v1, v1)
		}
		if d := model.Diff(in.md, in.want, model.Snapshot(protoadapt.MessageV2Of(v1).ProtoReflect()), exact, nil); d != "" {
			return fmt.Errorf("%s: a second MessageV2Of wrapper shows different content: %s", name, d)
		}
		if in.o, err = observe(in.m); err != nil {
			return err
		}
		if in.o.DetErr == "" {
			if in.o.Size != len(in.o.Det) {
				return fmt.Errorf("%s: Size %d, Marshal wrote %d bytes", name, in.o.Size, len(in.o.Det))
			}
			if _, ok := ref.Split(in.o.Det); !ok {
				return fmt.Errorf("%s: Marshal output is not a well-formed field sequence: %x", name, in.o.Det)
			}
		}
		if want := model.Initialized(in.md, in.want, nil); in.o.Init != want {
			return fmt.Errorf("%s: CheckInitialized says %v, the model %v", name, in.o.Init, want)
		}
		in.nd, _ = proto.MarshalOptions{AllowPartial: true}.Marshal(v2)
		is[g] = in
	}

	// across generations: equal outputs for equal content
	for g := 1; g < n; g++ {
		h := 0
		if preserves(c.Syntax, g) != preserves(c.Syntax, 0) && hasUnknown(c.M) {
			// content differs by the unknown fields the old generation cannot hold:
			// compare with the first generation of the same capability
			for h = 1; preserves(c.Syntax, h) != preserves(c.Syntax, g); h++ {
			}
			if h == g {
				continue
			}
		}
		if d := diffObs(is[h].o, is[g].o); d != "" {
			return fmt.Errorf("generation %s vs %s (same content): %s", genDates[h], genDates[g], d)
		}
	}

	// against dynamicpb of the derived descriptor
	for g := 0; g < n; g++ {
		in := is[g]
		d := dynamicpb.NewMessage(in.md)
		if err := model.Apply(d, in.want, nil); err != nil {
			return fmt.Errorf("harness: dynamicpb: %v", err)
		}
		od, err := observe(d)
		if err != nil {
			return err
		}
		if df := model.Diff(in.md, in.want, od.Snap, exact, nil); df != "" {
			return fmt.Errorf("harness: dynamicpb of %s does not hold the model: %s", in.md.FullName(), df)
		}
		if df := diffObs(in.o, od); df != "" {
			return fmt.Errorf("%s vs dynamicpb of its derived descriptor: %s", in.md.FullName(), df)
		}
		if !proto.Equal(in.m.Interface(), d) || !proto.Equal(d, in.m.Interface()) {
			return fmt.Errorf("%s: proto.Equal(legacy, dynamicpb of the same descriptor with the same content) = false", in.md.FullName())
		}
	}

	// each decodes every other's output (and an independent encoding) to the same content
	uo := proto.UnmarshalOptions{AllowPartial: true}
	for g := 0; g < n; g++ {
		in := is[g]
		type input struct {
			what     string
			b        []byte
			stripped bool // the producer could not hold the unknown fields of M
		}
		from := func(h int, det bool) input {
			if det {
				return input{"deterministic output of " + genDates[h], is[h].o.Det, !preserves(c.Syntax, h)}
			}
			return input{"output of " + genDates[h], is[h].nd, !preserves(c.Syntax, h)}
		}
		inputs := []input{from((g+1)%n, true), from((g+3)%n, true), from((g+c.Rot)%n, false),
			{fmt.Sprintf("reference encoding %v", c.Labels), c.Wire, false}}
		for _, inp := range inputs {
			for _, dyn := range []bool{false, true} {
				m2, want := in.mt.New(), in.want
				if dyn {
					m2, want = dynamicpb.NewMessage(in.md), c.M
				}
				if inp.stripped {
					want = stripUnknown(want)
				}
				if err := uo.Unmarshal(inp.b, m2.Interface()); err != nil {
					return fmt.Errorf("%s (dynamic=%v) cannot decode the %s: %v (bytes %x)", in.md.FullName(), dyn, inp.what, err, inp.b)
				}
				if d := model.Diff(in.md, want, model.Snapshot(m2), exact, nil); d != "" {
					return fmt.Errorf("%s (dynamic=%v) decodes the %s to different content: %s (bytes %x)", in.md.FullName(), dyn, inp.what, d, inp.b)
				}
			}
		}
	}

	// through the v2-generated container message google.golang.org.Legacy
	if c.Root == "Message" {
		if err := checkContainer(c.Syntax, func(g int) (*model.Msg, []byte) { return is[g].want, is[g].o.Det }); err != nil {
			return err
		}
	}
	return nil
}

// checkContainer puts generation g's content into field 2g+1 (proto2) / 2g+2 (proto3) of
// legacy.Legacy and compares with the concatenation of the stand-alone encodings.
func checkContainer(syntax int, part func(g int) (*model.Msg, []byte)) error {
	lt := corpus.ByName("google.golang.org.Legacy")
	if lt == nil {
		return fmt.Errorf("harness: google.golang.org.Legacy not linked")
	}
	lmd := lt.Descriptor()
	want := &model.Msg{}
	var wantBytes []byte
	for g := 0; g < 6; g++ {
		num := int32(2*g + 1)
		if syntax == 3 {
			num++
		}
		sub, det := part(g)
		want.Fields = append(want.Fields, model.Field{Num: num, Vals: []model.Val{{M: sub}}})
		wantBytes = ref.Tag(wantBytes, int64(num), 2)
		wantBytes = ref.Varint(wantBytes, uint64(len(det)))
		wantBytes = append(wantBytes, det...)
	}
	m := lt.New()
	if err := model.Apply(m, want, nil); err != nil {
		return fmt.Errorf("harness: container: %v", err)
	}
	if d := model.Diff(lmd, want, model.Snapshot(m), exact, nil); d != "" {
		return fmt.Errorf("Legacy container: reflection view differs from the content written: %s", d)
	}
	b, err := proto.MarshalOptions{Deterministic: true, AllowPartial: true}.Marshal(m.Interface())
	if err != nil {
		return fmt.Errorf("Legacy container: Marshal: %v", err)
	}
	if string(b) != string(wantBytes) {
		return fmt.Errorf("Legacy container: bytes are not the concatenation of the members' stand-alone encodings:\n  %x\n  %x", b, wantBytes)
	}
	if n := proto.Size(m.Interface()); n != len(b) {
		return fmt.Errorf("Legacy container: Size %d, Marshal wrote %d bytes", n, len(b))
	}
	for _, dyn := range []bool{false, true} {
		m2 := lt.New()
		if dyn {
			m2 = dynamicpb.NewMessage(lmd)
		}
		if err := (proto.UnmarshalOptions{AllowPartial: true}).Unmarshal(wantBytes, m2.Interface()); err != nil {
			return fmt.Errorf("Legacy container (dynamic=%v): Unmarshal: %v", dyn, err)
		}
		w, got := want, model.Snapshot(m2)
		if dyn {
			w, got = stripUnknown(w), stripUnknown(got)
		}
		if d := model.Diff(lmd, w, got, exact, nil); d != "" {
			return fmt.Errorf("Legacy container (dynamic=%v) decodes to different content: %s", dyn, d)
		}
	}
	return nil
}

func drawXGen(t *rapid.T) xgenCase {
	c := xgenCase{Syntax: rapid.SampledFrom([]int{2, 3}).Draw(t, "syntax"), Base: rapid.IntRange(0, 5).Draw(t, "base"), Rot: rapid.IntRange(1, 5).Draw(t, "rot")}
	c.Root = "Message"
	if rapid.IntRange(0, 7).Draw(t, "root?") == 0 {
		c.Root = rapid.SampledFrom(roots).Draw(t, "root")
	}
	o := gen.DefaultMsgOpts
	o.Depth, o.MaxFields, o.MaxBytes = 2, 7, 40
	o.FillRequired = false
	if c.Syntax == 2 && rapid.IntRange(0, 9).Draw(t, "fill?") == 0 {
		o.FillRequired, o.MaxFields, o.Depth = true, 3, 1
		c.Filled = true
	}
	md := genType(c.Syntax, c.Base, c.Root).Descriptor()
	c.M = gen.DrawMessage(t, md, o)
	eo := model.AllPerturbations
	eo.Labels = &c.Labels
	c.Wire = model.Encode(md, c.M, gen.RapidChooser{T: t}, eo, nil)
	return c
}

func xgenMD(c xgenCase) protoreflect.MessageDescriptor {
	return genType(c.Syntax, c.Base, c.Root).Descriptor()
}

func TestCrossGeneration(t *testing.T) {
	pbt.Run(t, pbt.Prop[xgenCase]{
		Name: "generations",
		Rule: "syntax proto2/proto3, root message of the legacy schema, one model value drawn on one generation's derived descriptor (boundary scalars, enums, nested messages, groups, oneofs, maps, registered legacy extensions, unknown fields where the generation can hold them) and applied by field number to all six generations through the wrappers protoadapt/protoimpl give for a bare v1 struct; non-trivial = >= 3 of enum/message/oneof/map/extension/list populated",
		Draw: drawXGen, Check: checkXGen,
		NonTrivial: func(c xgenCase) bool {
			set := map[string]bool{}
			shapes(xgenMD(c), c.M, set)
			k := 0
			for _, s := range []string{"enum", "message", "oneof", "map", "extension", "list"} {
				if set[s] {
					k++
				}
			}
			return k >= 3
		},
		Classes: func(c xgenCase) []string {
			cl := []string{fmt.Sprintf("proto%d", c.Syntax), "root:" + c.Root}
			for _, s := range shapeList(xgenMD(c), c.M) {
				cl = append(cl, "has:"+s)
			}
			if c.Filled {
				cl = append(cl, "required-filled")
			}
			if model.Initialized(xgenMD(c), c.M, nil) {
				cl = append(cl, "initialized")
			}
			return cl
		},
		Quick: 5000, Thorough: 30000,
	})
}
